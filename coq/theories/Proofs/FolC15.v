(* C15: the statements in their final form (decidable hypotheses; byte-level printer + strip). *)
From Coq Require Import List Ascii String ZArith NArith Bool Arith Lia.
From Anthem Require Import Syntax.Fol Gen.TablesFol Model.FolPrint Model.FolLex Model.FolPratt Model.FolParse
  Model.FolClass Proofs.FolPrattOk Proofs.FolTermRT Proofs.FolFormulaRT Proofs.FolRoundTrip Proofs.FolTopRT Proofs.FolStrip.
Import ListNotations.
Open Scope list_scope.

Lemma known_class_none f : known_class f = None -> keyword_ident f = false /\ rimp_neg f = false.
Proof. unfold known_class. destruct (keyword_ident f); [discriminate|]. destruct (rimp_neg f); [discriminate|]. auto. Qed.

Lemma fgood_of f : wf_formula f = true -> known_class f = None -> fgood f.
Proof. intros W K. destruct (known_class_none f K). repeat split; assumption. Qed.

Lemma first_some_none {A B} (g : A -> option B) l : first_some g l = None -> forall x, In x l -> g x = None.
Proof.
  induction l as [|y l IH]; [intros _ x []|]. cbn. destruct (g y) eqn:E; [discriminate|].
  intros H x [<-|Hx]; [exact E|apply IH; assumption].
Qed.

(* formulas (followed by the "." of a theory or the ")" of a group) *)
Theorem C15_formula_dot f R : wf_formula f = true -> known_class f = None ->
  forall n, fsize f + 3 < n -> peg_formula n (strip (print_formula true f) ++ TDot :: R) = Ok f (TDot :: R).
Proof.
  intros W K n Hn. rewrite strip_formula. apply formula_rt; [exact Hn|apply fgood_of; assumption|apply ffollow_dot].
Qed.

(* theories *)
Theorem C15_theory t : wf_theory t = true -> known_class_theory t = None ->
  parse_theory_toks (strip (print_theory true t)) = PR_ok t.
Proof.
  intros W K. rewrite strip_theory. apply theory_rt. intros f Hf. apply fgood_of.
  - unfold wf_theory in W. rewrite forallb_forall in W. apply W. exact Hf.
  - apply (first_some_none known_class t K f Hf).
Qed.

(* specifications *)
Theorem C15_spec s : wf_spec s = true -> known_class_spec s = None ->
  parse_spec_toks (strip (print_spec true s)) = PR_ok s.
Proof.
  intros W K. rewrite strip_spec. apply spec_rt. intros a Ha. apply fgood_of.
  - unfold wf_spec in W. rewrite forallb_forall in W. specialize (W a Ha). unfold wf_annot in W.
    apply andb_true_iff in W. tauto.
  - apply (first_some_none (fun a => known_class (an_formula a)) s K a Ha).
Qed.

(* user guides *)
Theorem C15_ug u : wf_ug u = true -> known_class_ug u = None ->
  parse_ug_toks (strip (print_ug true u)) = PR_ok u.
Proof.
  intros W K. rewrite strip_ug. apply ug_rt. intros e He.
  unfold wf_ug in W. rewrite forallb_forall in W. specialize (W e He).
  pose proof (first_some_none _ u K e He) as Ke.
  destruct e as [p|p|c s|a]; cbn [egood wf_ug_entry] in *.
  - unfold wf_pred in W. apply andb_true_iff in W. tauto.
  - unfold wf_pred in W. apply andb_true_iff in W. tauto.
  - exact I.
  - apply fgood_of; [unfold wf_annot in W; apply andb_true_iff in W; tauto|exact Ke].
Qed.

(* printing is idempotent through the parser: whatever the parser returns for a printed tree prints
   to the same bytes *)
Corollary C15_print_idem_theory t t' : wf_theory t = true -> known_class_theory t = None ->
  parse_theory_toks (strip (print_theory true t)) = PR_ok t' -> show_theory t' = show_theory t.
Proof. intros W K H. rewrite (C15_theory t W K) in H. injection H as <-. reflexivity. Qed.
Corollary C15_print_idem_spec s s' : wf_spec s = true -> known_class_spec s = None ->
  parse_spec_toks (strip (print_spec true s)) = PR_ok s' -> show_spec s' = show_spec s.
Proof. intros W K H. rewrite (C15_spec s W K) in H. injection H as <-. reflexivity. Qed.
Corollary C15_print_idem_ug u u' : wf_ug u = true -> known_class_ug u = None ->
  parse_ug_toks (strip (print_ug true u)) = PR_ok u' -> show_ug u' = show_ug u.
Proof. intros W K H. rewrite (C15_ug u W K) in H. injection H as <-. reflexivity. Qed.

(* the mixed-associativity level never reaches the printer without parentheses: a child that is an
   implication, reverse implication or equivalence is always a parenthesised group in the printed items *)
Lemma mixed_level_parenthesised c l r :
  (match l with FBin (CImp | CRimp | CIff) _ _ => lhs_paren (FBin c l r) l = true | _ => True end) /\
  (match r with FBin (CImp | CRimp | CIff) _ _ => rhs_paren (FBin c l r) r = true | _ => True end).
Proof.
  split.
  - destruct l as [?|?|[] ? ?|? ? ?]; try exact I; destruct c; reflexivity.
  - destruct r as [?|?|[] ? ?|? ? ?]; try exact I; destruct c; reflexivity.
Qed.
Lemma mixed_level_under_prefix f g :
  match f with FNot _ | FQ _ _ _ => True | _ => False end ->
  match g with FBin _ _ _ => un_paren f g = true | _ => True end.
Proof. intros Hf. destruct g as [?|?|c ? ?|? ? ?]; try exact I. destruct f; try tauto; destruct c; reflexivity. Qed.

(* the two operator tables agree: the associativity the formatter assumes for each infix operator is the
   one registered in the PrattParser, tighter in the formatter = higher binding power in the parser, and
   the prefix operators bind tightest.  (With mandatory parentheses around -> <- <-> the associativity of
   that level is never exercised by printed text, but a disagreement would be a latent defect.) *)
Definition conn_kind (c : bconn) : fkind :=
  match c with CAnd => KAnd | COr => KOr | CImp => KImp | CRimp => KRimp | CIff => KIff end.
Definition binop_kind (o : binop) : ikind := match o with BAdd => KAdd | BSub => KSub | BMul => KMul end.
Lemma tables_agree_formula :
  (forall c, match formula_in_bp c with Some (_, a) => fmt_formula_assoc (conn_kind c) = Some a | None => False end) /\
  (forall c1 c2, match formula_in_bp c1, formula_in_bp c2 with
                 | Some (p1, _), Some (p2, _) =>
                     (fmt_formula_prec (conn_kind c1) < fmt_formula_prec (conn_kind c2) <-> p2 < p1)
                 | _, _ => False end) /\
  (forall c, match formula_in_bp c with Some (p, _) => p < fpn /\ 1 <= p | None => False end) /\
  fmt_formula_assoc KNot = Some ALeft /\ fmt_formula_assoc KQuant = Some ALeft.
Proof.
  repeat split; try (intros c; destruct c; vm_compute; try reflexivity; lia);
    try (intros c1 c2; destruct c1, c2; vm_compute; lia); try (intros c1 c2 H; destruct c1, c2; vm_compute in *; lia).
Qed.
Lemma tables_agree_term :
  (forall o, match iterm_in_bp o with Some (_, a) => fmt_iterm_assoc (binop_kind o) = Some a | None => False end) /\
  (forall o1 o2, match iterm_in_bp o1, iterm_in_bp o2 with
                 | Some (p1, _), Some (p2, _) =>
                     (fmt_iterm_prec (binop_kind o1) < fmt_iterm_prec (binop_kind o2) <-> p2 < p1)
                 | _, _ => False end) /\
  (forall o, match iterm_in_bp o with Some (p, _) => p < ipn /\ 1 <= p | None => False end) /\
  fmt_iterm_assoc KNeg = Some ALeft.
Proof.
  repeat split; try (intros c; destruct c; vm_compute; try reflexivity; lia);
    try (intros c1 c2; destruct c1, c2; vm_compute; lia); try (intros c1 c2 H; destruct c1, c2; vm_compute in *; lia).
Qed.
