(* Non-vacuity of the hypothesis [represents] of C04_fages_partial: the tau*-theory that the
   implementation prints (`anthem translate --with tau-star`) for the program
        p(X) :- q(X).      :- p(1).
   represents it; hence, with q/1 as input, the models of its completion are exactly the stable
   models of the program plus the model's q-facts. *)
From Coq Require Import List Ascii String ZArith Bool Lia.
From Anthem Require Import Base.ISet Syntax.Fol Syntax.Asp Sem.Domain Sem.Sat Sem.AspRef
  Model.Completion Model.Tightness Proofs.CompletionShape Proofs.FagesBridge.
Import ListNotations.
Open Scope string_scope.
Open Scope list_scope.

Definition xgv (x : string) : gterm := GVar x.
Definition xeq (a b : gterm) : formula := FAtomic (ACmp a [mkguard REq b]).
Definition xat (p : string) (t : gterm) : formula := FAtomic (AAtom p [t]).
Definition xvg (x : string) : var := mkvar x SGeneral.

Definition P2 : program :=
  [ mkrule (HBasic (mkatom "p" [TVar "X"])) [BLit (mklit SNone (mkatom "q" [TVar "X"]))];
    mkrule HFalsity [BLit (mklit SNone (mkatom "p" [TPre (PNum 1)]))] ].
(* forall V1 X (V1 = X and exists Z (Z = X and q(Z)) -> p(V1)).   exists Z (Z = 1 and p(Z)) -> #false. *)
Definition F2 : formula :=
  FBin CAnd (xeq (xgv "V1") (xgv "X")) (FQ QExists [xvg "Z"] (FBin CAnd (xeq (xgv "Z") (xgv "X")) (xat "q" (xgv "Z")))).
Definition G2 : theory :=
  [ FQ QForall [xvg "V1"; xvg "X"] (FBin CImp F2 (xat "p" (xgv "V1")));
    FBin CImp (FQ QExists [xvg "Z"] (FBin CAnd (xeq (xgv "Z") (GInt (INum 1))) (xat "p" (xgv "Z")))) (FAtomic AFalse) ].

Lemma gval_eqb_true a b : gval_eqb a b && true = true <-> a = b.
Proof. rewrite andb_true_r. destruct (gval_eqb_spec a b); split; congruence. Qed.

Lemma represents_G2 FI : represents FI G2 P2.
Proof.
  split.
  - unfold G2, P2. constructor; [|constructor; [|constructor]].
    + (* p(X) :- q(X). *)
      unfold rule_formula. cbn [rhead rbody].
      exists F2, [xvg "V1"]. split; [|split; [reflexivity|split; [repeat constructor|]]].
      * split; [vm_compute; reflexivity|]. split; [left; reflexivity|]. repeat constructor. intros [].
      * intros T d. split.
        -- intros [e [Ed [H1 [d0 [_ [H2 H3]]]]]]. cbn in Ed, H1, H2, H3.
           apply gval_eqb_true in H1. apply gval_eqb_true in H2.
           exists (fun x => eg e x). split.
           ++ rewrite <- Ed. unfold getv. cbn. constructor; [|constructor]. cbn. exact H1.
           ++ constructor; [|constructor]. cbn. exists [eg e "X"]. split.
              ** constructor; [|constructor]. reflexivity.
              ** unfold upd in H2, H3. cbn in H2, H3. rewrite <- H2. exact H3.
        -- intros [sg [Hv Hb]]. inversion Hv as [|t v ts vs Hv1 Hv2]; subst. inversion Hv2; subst. cbn in Hv1. subst v.
           inversion Hb as [|b bs Hb1 _]; subst. cbn in Hb1. destruct Hb1 as [vs [Hvs Hq]].
           inversion Hvs as [|t v ts vs' Hq1 Hq2]; subst. inversion Hq2; subst. cbn in Hq1. subst v.
           exists (mkenv (fun _ => sg "X") (fun _ => 0%Z) (fun _ => "")). split; [reflexivity|].
           split.
           ++ cbn. apply gval_eqb_true. reflexivity.
           ++ exists (sg "X"). split; [exact Logic.I|]. split.
              ** cbn. apply gval_eqb_true. reflexivity.
              ** cbn. exact Hq.
    + (* :- p(1). *)
      unfold rule_formula. cbn [rhead rbody]. split.
      * split; [vm_compute; reflexivity|]. eexists. left. reflexivity.
      * intros T. unfold cvalid. split.
        -- intros H sg Hb. inversion Hb as [|b bs Hb1 _]; subst. cbn in Hb1. destruct Hb1 as [vs [Hvs Hp]].
           inversion Hvs as [|t v ts vs' Hq1 Hq2]; subst. inversion Hq2; subst. cbn in Hq1. subst v.
           apply (H (mkenv (fun _ => VInf) (fun _ => 0%Z) (fun _ => ""))).
           exists (VNum 1). split; [exact Logic.I|]. split; [reflexivity|exact Hp].
        -- intros H e [d0 [_ [H1 H2]]]. cbn in H1, H2. apply gval_eqb_true in H1. subst d0.
           apply (H (fun _ => VInf)). constructor; [|constructor]. cbn.
           exists [VNum 1]. split; [constructor; [reflexivity|constructor]|exact H2].
  - intros p. vm_compute. tauto.
Qed.

Definition D2 : theory :=
  [ FBin CImp (FQ QExists [xvg "Z"] (FBin CAnd (xeq (xgv "Z") (GInt (INum 1))) (xat "p" (xgv "Z")))) (FAtomic AFalse);
    FQ QForall [xvg "V1"]
      (FBin CIff (xat "p" (xgv "V1"))
         (FQ QExists [xvg "X"]
            (FBin CAnd (xeq (xgv "V1") (xgv "X"))
               (FQ QExists [xvg "Z"] (FBin CAnd (xeq (xgv "Z") (xgv "X")) (xat "q" (xgv "Z"))))))) ].
Lemma completion_G2 : completion G2 [mkpred "q" 1] = Some D2.
Proof. vm_compute. reflexivity. Qed.

Theorem fages_instance (FI : fint) (T : pint) :
  (forall p d, T p d -> (p = "p" \/ p = "q") /\ List.length d = 1) ->
  ((forall f, In f D2 -> cvalid FI T f) <-> stable T P2 (input_facts T [mkpred "q" 1])).
Proof.
  intros Hvoc. apply (C04_fages_partial_proof P2 G2 [mkpred "q" 1] D2 FI T).
  - apply represents_G2.
  - vm_compute. reflexivity.
  - intros r h [<-|[<-|[]]]; cbn; intros E; [|discriminate].
    injection E as <-. intros [X|[]]. discriminate.
  - apply completion_G2.
  - intros p d Ht. destruct (Hvoc p d Ht) as [[->| ->] ->]; [left|right]; vm_compute; auto.
Qed.
