(* Generic lemmas used by the correctness proofs of the classic simplification portfolio
   (Proofs/SimplClassicOk.v): quantifier blocks as "some / every environment that agrees outside
   the block", semantics and free variables of conjoin / conjoin_invert, chains as lists of
   individual comparisons, the invariant rule of the loop combinator [for_break]. *)
From Coq Require Import List Ascii String ZArith Bool Lia.
From Anthem Require Import Base.ISet Syntax.Fol Sem.Domain Sem.Sat
  Model.Subst Model.SimplClassic Proofs.FreeVars Proofs.Coincidence.
Import ListNotations.
Open Scope string_scope.
Open Scope list_scope.

(* ---------- a block of quantifiers = a choice of an environment that agrees outside it ---------- *)
Definition outside (vs : list var) (e e' : env) : Prop := forall w, ~ In w vs -> getv e w = getv e' w.

Lemma outside_refl vs e : outside vs e e.
Proof. intros w _; reflexivity. Qed.

Lemma upd_getv e v : eqenv (upd e v (getv e v)) e.
Proof.
  intros w. destruct (var_dec v w) as [<-|NE].
  - apply getv_upd_same, in_sort_getv.
  - apply getv_upd_other; auto.
Qed.

Lemma outside_cons_upd v vs e e' d :
  outside vs (upd e v d) e' -> outside (v :: vs) e e'.
Proof.
  intros H w Nw. rewrite <- H by (intros E; apply Nw; right; exact E).
  symmetry. apply getv_upd_other. intros ->. apply Nw; left; reflexivity.
Qed.
Lemma outside_upd_cons v vs e e' :
  outside (v :: vs) e e' -> outside vs (upd e v (getv e' v)) e'.
Proof.
  intros H w Nw. destruct (var_dec v w) as [<-|NE].
  - apply getv_upd_same, in_sort_getv.
  - rewrite getv_upd_other by auto. apply H. intros [E|E]; auto.
Qed.

Lemma qsat_exists_char vs k : ext k ->
  forall e, qsat QExists vs k e <-> exists e', outside vs e e' /\ k e'.
Proof.
  intros Hk. induction vs as [|v vs IH]; intros e.
  - cbn. split.
    + intros H. exists e. split; [apply outside_refl|exact H].
    + intros [e' [Ho H]]. apply (Hk e e'); [|exact H]. intros w. apply Ho. intros [].
  - cbn [qsat]. split.
    + intros [d [Sd H]]. apply IH in H. destruct H as [e' [Ho H]].
      exists e'. split; [eapply outside_cons_upd; eauto|exact H].
    + intros [e' [Ho H]]. exists (getv e' v). split; [apply in_sort_getv|].
      apply IH. exists e'. split; [apply outside_upd_cons; exact Ho|exact H].
Qed.

Lemma qsat_forall_char vs k : ext k ->
  forall e, qsat QForall vs k e <-> forall e', outside vs e e' -> k e'.
Proof.
  intros Hk. induction vs as [|v vs IH]; intros e.
  - cbn. split.
    + intros H e' Ho. apply (Hk e e'); [|exact H]. intros w. apply Ho. intros [].
    + intros H. apply H, outside_refl.
  - cbn [qsat]. split.
    + intros H e' Ho. specialize (H (getv e' v) (in_sort_getv e' v)).
      rewrite IH in H. apply H. apply outside_upd_cons; exact Ho.
    + intros H d Sd. apply IH. intros e' Ho. apply H. eapply outside_cons_upd; eauto.
Qed.

Lemma outside_agree vs fvs e e' :
  outside vs e e' -> (forall v, In v vs -> ~ In v fvs) -> agree fvs e e'.
Proof. intros Ho Hd w Hw. apply Ho. intros Hv. exact (Hd w Hv Hw). Qed.

(* ---------- free variables are variables ---------- *)
Lemma fv_sub_variables F w : In w (free_variables F) -> In w (variables F).
Proof.
  induction F as [a|f IH|c l IHl r IHr|q vs f IH]; cbn [free_variables variables]; auto.
  - rewrite !(in_iset_extend var_dec). tauto.
  - intros H. apply in_remove_block in H; [|apply free_variables_nodup]. apply IH, H.
Qed.

(* ---------- conjoin / conjoin_invert ---------- *)
Section Conj.
Variable FI : fint.
Variable I : pint.

Lemma csat_conjoin_invert e F : csat FI I e F <-> Forall (csat FI I e) (conjoin_invert F).
Proof.
  induction F as [a|f IH|c l IHl r IHr|q vs f IH];
    try (cbn [conjoin_invert]; split; [intros H; constructor; [exact H|constructor]|intros H; inversion H; assumption]).
  destruct c;
    try (cbn [conjoin_invert]; split; [intros H; constructor; [exact H|constructor]|intros H; inversion H; assumption]).
  cbn [conjoin_invert csat]. rewrite Forall_app, IHl, IHr. tauto.
Qed.

Lemma csat_fold_and e xs : forall x,
  csat FI I e (fold_left (fun acc f => FBin CAnd acc f) xs x) <-> csat FI I e x /\ Forall (csat FI I e) xs.
Proof.
  induction xs as [|y xs IH]; intros x; cbn [fold_left].
  - split; [intros H; split; [exact H|constructor]|tauto].
  - rewrite IH. cbn [csat]. split.
    + intros [[H1 H2] H3]. split; [exact H1|constructor; assumption].
    + intros [H1 H2]. inversion H2; subst. tauto.
Qed.
Lemma csat_conjoin e l : csat FI I e (conjoin l) <-> Forall (csat FI I e) l.
Proof.
  unfold conjoin, reduce_bin. destruct l as [|x xs].
  - cbn. split; [constructor|trivial].
  - rewrite csat_fold_and. split.
    + intros [H1 H2]. constructor; assumption.
    + intros H. inversion H; subst. tauto.
Qed.
End Conj.

Lemma fv_conjoin_invert F w :
  In w (free_variables F) <-> exists ct, In ct (conjoin_invert F) /\ In w (free_variables ct).
Proof.
  induction F as [a|f IH|c l IHl r IHr|q vs f IH];
    try (cbn [conjoin_invert]; split; [intros H; eexists; split; [left; reflexivity|exact H]
                                      |intros [ct [[<-|[]] H]]; exact H]).
  destruct c;
    try (cbn [conjoin_invert]; split; [intros H; eexists; split; [left; reflexivity|exact H]
                                      |intros [ct [[<-|[]] H]]; exact H]).
  cbn [conjoin_invert]. rewrite in_fv_bin, IHl, IHr. split.
  - intros [[ct [H1 H2]]|[ct [H1 H2]]]; exists ct; rewrite in_app_iff; auto.
  - intros [ct [H1 H2]]. rewrite in_app_iff in H1. destruct H1; [left|right]; eauto.
Qed.

Lemma fv_fold_and xs w : forall x,
  In w (free_variables (fold_left (fun acc f => FBin CAnd acc f) xs x)) <->
  In w (free_variables x) \/ exists y, In y xs /\ In w (free_variables y).
Proof.
  induction xs as [|y xs IH]; intros x; cbn [fold_left].
  - split; [auto|]. intros [H|[y [[] _]]]; exact H.
  - rewrite IH, in_fv_bin. split.
    + intros [[H|H]|[z [H1 H2]]]; [auto|right; exists y; split; [left; reflexivity|exact H]
                                   |right; exists z; split; [right; exact H1|exact H2]].
    + intros [H|[z [[<-|H1] H2]]]; [auto|auto|right; eauto].
Qed.
Lemma fv_conjoin l w :
  In w (free_variables (conjoin l)) -> exists y, In y l /\ In w (free_variables y).
Proof.
  unfold conjoin, reduce_bin. destruct l as [|x xs].
  - cbn. tauto.
  - rewrite fv_fold_and. intros [H|[y [H1 H2]]]; [exists x; split; [left; reflexivity|exact H]
                                                 |exists y; split; [right; exact H1|exact H2]].
Qed.

(* ---------- chains ---------- *)
Section Chain.
Variable FI : fint.

Lemma chain_individuals e gs : forall t,
  chain_sat FI e (ev_g FI e t) gs = true <->
  Forall (fun i => match i with (l, r, rh) => rel_sat r (ev_g FI e l) (ev_g FI e rh) = true end)
         (individuals t gs).
Proof.
  induction gs as [|g gs IH]; intros t; cbn [chain_sat individuals].
  - split; [constructor|reflexivity].
  - rewrite andb_true_iff, IH. split.
    + intros [H1 H2]. constructor; assumption.
    + intros H. inversion H; subst. tauto.
Qed.

Lemma individuals_terms t gs l r rh :
  In (l, r, rh) (individuals t gs) ->
  (l = t \/ exists g, In g gs /\ l = gterm_of g) /\ (exists g, In g gs /\ rh = gterm_of g).
Proof.
  revert t. induction gs as [|g gs IH]; intros t; cbn [individuals]; [intros []|].
  intros [E|H].
  - inversion E; subst. split; [left; reflexivity|exists g; split; [left; reflexivity|reflexivity]].
  - destruct (IH _ H) as [[->|[g' [G1 ->]]] [g'' [G2 ->]]]; split.
    + right. exists g. split; [left; reflexivity|reflexivity].
    + exists g''. split; [right; exact G2|reflexivity].
    + right. exists g'. split; [right; exact G1|reflexivity].
    + exists g''. split; [right; exact G2|reflexivity].
Qed.
End Chain.

(* ---------- find_map ---------- *)
Lemma find_map_some {A B} (f : A -> option B) l b :
  find_map f l = Some b -> exists a, In a l /\ f a = Some b.
Proof.
  induction l as [|a l IH]; cbn; [discriminate|].
  destruct (f a) eqn:E.
  - intros [= <-]. exists a. auto.
  - intros H. destruct (IH H) as [a' [H1 H2]]. exists a'. auto.
Qed.

(* ---------- the loop combinator ---------- *)
Lemma for_break_inv {A} (P : lstate -> Prop) (body : lstate -> A -> option (lstate * bool)) xs :
  (forall s x s1 b, In x xs -> P s -> body s x = Some (s1, b) -> P s1) ->
  forall s s', P s -> for_break body s xs = Some s' -> P s'.
Proof.
  induction xs as [|x xs IH]; intros Hb s s' Hs; cbn [for_break].
  - intros [= <-]. exact Hs.
  - destruct (body s x) as [[s1 b]|] eqn:E; [|discriminate].
    assert (P s1) by (eapply Hb; eauto; left; reflexivity).
    destruct b.
    + intros [= <-]. assumption.
    + apply IH; auto. intros s0 x0 s2 b0 Hx. apply Hb. right; exact Hx.
Qed.

(* totality: if the body never panics, neither does the loop *)
Lemma for_break_total {A} (body : lstate -> A -> option (lstate * bool)) xs :
  (forall s x, In x xs -> exists r, body s x = Some r) ->
  forall s, exists s', for_break body s xs = Some s'.
Proof.
  induction xs as [|x xs IH]; intros Hb s; cbn [for_break]; [eauto|].
  destruct (Hb s x (or_introl eq_refl)) as [[s1 b] ->].
  destruct b; [eauto|]. apply IH. intros s0 x0 Hx. apply Hb. right; exact Hx.
Qed.

Lemma in_enumerate_from {A} (l : list A) : forall i j x, In (j, x) (enumerate_from i l) -> In x l.
Proof.
  induction l as [|y l IH]; intros i j x; cbn; [tauto|].
  intros [E|H]; [inversion E; auto|right; eapply IH; eauto].
Qed.
Lemma in_enumerate {A} (l : list A) j x : In (j, x) (enumerate l) -> In x l.
Proof. apply in_enumerate_from. Qed.

(* ---------- small facts about comparisons ---------- *)
Lemma cmp_eqb_spec a b : reflect (a = b) (cmp_eqb a b).
Proof.
  unfold cmp_eqb, aformula_eqb. destruct a as [t gs], b as [t' gs']; cbn [fst snd].
  destruct (aformula_dec (ACmp t gs) (ACmp t' gs')) as [E|N]; constructor; congruence.
Qed.
Lemma gterm_eqb_spec a b : reflect (a = b) (gterm_eqb a b).
Proof. unfold gterm_eqb. destruct (gterm_dec a b); constructor; auto. Qed.
Lemma rel_eqb_spec a b : reflect (a = b) (rel_eqb a b).
Proof. unfold rel_eqb. destruct (rel_dec a b); constructor; auto. Qed.

(* equality_comparison c = Some true: c is `l = r` *)
Lemma equality_comparison_true c :
  equality_comparison c = Some true -> exists l r, c = (l, [mkguard REq r]).
Proof.
  destruct c as [l gs]. unfold equality_comparison; cbn [snd].
  destruct gs as [|g gs]; [discriminate|].
  intros [= H]. apply andb_true_iff in H. destruct H as [H1 H2].
  destruct gs as [|g' gs]; [|discriminate].
  destruct g as [r t]. cbn in H2. destruct (rel_eqb_spec r REq); [subst|discriminate].
  exists l, t. reflexivity.
Qed.

Lemma csat_eq_cmp FI I e l r :
  csat FI I e (cmp_formula (l, [mkguard REq r])) <-> ev_g FI e l = ev_g FI e r.
Proof.
  cbn. rewrite andb_true_r. destruct (gval_eqb_spec (ev_g FI e l) (ev_g FI e r)); split; congruence.
Qed.
