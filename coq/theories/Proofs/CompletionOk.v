(* C04 at the level of formulas: the structure of a successful completion, exactness of refusal
   (C04_shape), totality of the completed definitions (C04_total_defs) and Clark's
   characterisation of the models of the completion (C04_clark). *)
From Coq Require Import List Ascii String ZArith NArith Bool Lia FinFun.
From Anthem Require Import Base.ISet Base.Fresh Syntax.Fol Sem.Domain Sem.Sat Model.Completion
  Proofs.ExtendAll Proofs.EnvFacts Proofs.CompletionShape.
Import ListNotations.
Open Scope string_scope.
Open Scope list_scope.

(* ---------- the definitions map after adding the implicit (empty) definitions ---------- *)
Definition explicit_preds (defs : definitions) : list pred :=
  fold_left (fun acc e => iset_insert pred_dec acc (hatom_pred (fst e))) defs [].
Definition implicit_preds (G : theory) (defs : definitions) : list pred :=
  iset_difference pred_dec (theory_predicates G) (explicit_preds defs).
Definition all_definitions (G : theory) (defs : definitions) : definitions :=
  defs ++ map (fun p => (atomic_formula_from p, [])) (implicit_preds G defs).
Definition non_input (ins : list pred) (e : hatom * list formula) : bool :=
  negb (memb pred_dec (hatom_pred (fst e)) ins).

Lemma in_fold_insert {A B} (dec : forall x y : B, {x = y} + {x <> y}) (g : A -> B) l : forall init x,
  In x (fold_left (fun acc e => iset_insert dec acc (g e)) l init) <-> In x init \/ exists e, In e l /\ g e = x.
Proof.
  induction l as [|a l IH]; intros init x; cbn.
  - split; [auto|]. intros [H|[e [[] _]]]; auto.
  - rewrite IH, in_iset_insert. split.
    + intros [[H| ->]|[e [He <-]]]; eauto.
    + intros [H|[e [[->|He] <-]]]; eauto.
Qed.
Lemma in_explicit_preds defs p : In p (explicit_preds defs) <-> exists a, In a (map fst defs) /\ hatom_pred a = p.
Proof.
  unfold explicit_preds. rewrite in_fold_insert. split.
  - intros [[]|[e [He <-]]]. exists (fst e). split; auto. apply in_map, He.
  - intros [a [Ha <-]]. apply in_map_iff in Ha. destruct Ha as [e [<- He]]. right. eauto.
Qed.
Lemma in_implicit_preds G defs p :
  In p (implicit_preds G defs) <-> In p (theory_predicates G) /\ ~ In p (explicit_preds defs).
Proof.
  unfold implicit_preds, iset_difference. rewrite filter_In, negb_true_iff.
  destruct (memb_spec pred_dec p (explicit_preds defs)); intuition congruence.
Qed.
Lemma nodup_implicit_preds G defs : NoDup (implicit_preds G defs).
Proof. apply NoDup_filter, nodup_theory_predicates. Qed.

Lemma defs_insert_fresh d a v : ~ In a (map fst d) -> defs_insert d a v = d ++ [(a, v)].
Proof.
  induction d as [|[a' fs] d IH]; cbn; intros H; auto.
  unfold hatom_eqb. destruct (hatom_dec a a') as [->|Hne]; [tauto|]. rewrite IH; auto.
Qed.
Lemma fold_defs_insert ps : forall d,
  NoDup ps -> (forall p a, In p ps -> In a (map fst d) -> hatom_pred a <> p) ->
  fold_left (fun d p => defs_insert d (atomic_formula_from p) []) ps d =
  d ++ map (fun p => (atomic_formula_from p, [])) ps.
Proof.
  induction ps as [|p ps IH]; intros d Hn Hd; cbn; [rewrite app_nil_r; auto|].
  inversion Hn as [|? ? Hp Hn']; subst.
  rewrite defs_insert_fresh.
  - rewrite IH; auto; [rewrite <- app_assoc; reflexivity|].
    intros q a Hq Ha. rewrite map_app, in_app_iff in Ha. destruct Ha as [Ha|[<-|[]]].
    + apply Hd; cbn; auto.
    + cbn. rewrite atomic_formula_from_pred. intros ->. tauto.
  - intros Hin. apply (Hd p (atomic_formula_from p)); cbn; auto. apply atomic_formula_from_pred.
Qed.

(* what a successful completion consists of *)
Theorem completion_structure G ins D :
  completion G ins = Some D <->
  exists defs cs, components G = Some (defs, cs) /\
    has_head_mismatches (all_definitions G defs) = false /\
    D = map universal_closure cs ++ map complete_definition (filter (non_input ins) (all_definitions G defs)).
Proof.
  unfold completion. destruct (components G) as [[defs cs]|] eqn:E.
  - fold (explicit_preds defs). fold (implicit_preds G defs).
    rewrite fold_defs_insert.
    + fold (all_definitions G defs). destruct (has_head_mismatches (all_definitions G defs)) eqn:Em.
      * split; [discriminate|]. intros [d' [c' [[= <- <-] [H _]]]]. congruence.
      * split.
        -- intros [= <-]. exists defs, cs. auto.
        -- intros [d' [c' [[= <- <-] [_ ->]]]]. reflexivity.
    + apply nodup_implicit_preds.
    + intros p a Hp Ha Hpa. apply in_implicit_preds in Hp. destruct Hp as [_ Hp]. apply Hp.
      apply in_explicit_preds. eauto.
  - split; [discriminate|]. intros [d' [c' [H _]]]. discriminate.
Qed.

Lemma keys_all_definitions G defs a :
  In a (map fst (all_definitions G defs)) <->
  In a (map fst defs) \/ exists p, In p (implicit_preds G defs) /\ a = atomic_formula_from p.
Proof.
  unfold all_definitions. rewrite map_app, in_app_iff, map_map. cbn [fst].
  rewrite (in_map_iff atomic_formula_from (implicit_preds G defs) a).
  split; intros [H|[p H]]; auto; right; exists p; intuition.
Qed.

(* ---------- completable theories; refusal is exact ---------- *)
Definition completable (G : theory) : Prop :=
  (forall f, In f G -> constraint_formula f \/ exists F p V, definition_of f F p V) /\
  (forall f1 f2 F1 F2 p V1 V2, In f1 G -> In f2 G ->
     definition_of f1 F1 p V1 -> definition_of f2 F2 p V2 -> List.length V1 = List.length V2 -> V1 = V2).

Lemma var_to_gterm_inj : Injective var_to_gterm.
Proof. intros x y H. apply (f_equal gterm_to_var) in H. rewrite !gterm_to_var_of in H. congruence. Qed.
Lemma map_var_to_gterm_inj V W : map var_to_gterm V = map var_to_gterm W -> V = W.
Proof. revert W. induction V as [|v V IH]; intros [|w W]; cbn; try discriminate; auto.
  intros [= E1 E2]. f_equal; auto using var_to_gterm_inj. Qed.

(* the key of an explicit definition comes from a definition formula of the theory *)
Lemma explicit_key G defs cs a :
  components G = Some (defs, cs) -> In a (map fst defs) ->
  exists f F V, In f G /\ hargs a = map var_to_gterm V /\ definition_of f F (hsym a) V.
Proof.
  intros Hc Ha. destruct (components_spec _ _ _ Hc) as [_ [_ [_ [Hne H5]]]].
  apply in_map_iff in Ha. destruct Ha as [[a' fs] [<- Hin]]. cbn.
  destruct fs as [|F fs]; [exfalso; eapply Hne; eauto|].
  destruct (proj1 (H5 a' F)) as [f [Hf Ef]]; [exists (F :: fs); cbn; auto|].
  apply split_definition in Ef. destruct Ef as [V [E HD]]. exists f, F, V. auto.
Qed.
Lemma definition_key G defs cs f F p V :
  components G = Some (defs, cs) -> In f G -> definition_of f F p V ->
  exists fs, In (mkhatom p (map var_to_gterm V), fs) defs /\ In F fs.
Proof.
  intros Hc Hf HD. destruct (components_spec _ _ _ Hc) as [_ [_ [_ [_ H5]]]].
  apply H5. exists f. split; auto. apply split_definition. exists V. cbn. auto.
Qed.

Theorem C04_shape_proof G ins : (exists D, completion G ins = Some D) <-> completable G.
Proof.
  split.
  - intros [D HD]. apply completion_structure in HD. destruct HD as [defs [cs [Hc [Hm _]]]].
    destruct (components_spec _ _ _ Hc) as [H1 _]. split.
    + intros f Hf. specialize (H1 f Hf). destruct (split f) as [[F a|c]|] eqn:E; [| |congruence].
      * right. apply split_definition in E. destruct E as [V [_ E]]. eauto.
      * left. apply split_constraint in E. tauto.
    + intros f1 f2 F1 F2 p V1 V2 Hf1 Hf2 D1 D2 Hl.
      destruct (definition_key _ _ _ _ _ _ _ Hc Hf1 D1) as [fs1 [K1 _]].
      destruct (definition_key _ _ _ _ _ _ _ Hc Hf2 D2) as [fs2 [K2 _]].
      rewrite has_head_mismatches_spec in Hm.
      assert (E : mkhatom p (map var_to_gterm V1) = mkhatom p (map var_to_gterm V2)).
      { apply Hm.
        - apply keys_all_definitions. left. apply (in_map fst _ _ K1).
        - apply keys_all_definitions. left. apply (in_map fst _ _ K2).
        - unfold hatom_pred. cbn. rewrite !map_length, Hl. reflexivity. }
      injection E as E. apply map_var_to_gterm_inj, E.
  - intros [Hs Hh].
    destruct (components_some G) as [[defs cs] Hc].
    { intros f Hf. destruct (Hs f Hf) as [H|[F [p [V H]]]].
      - rewrite (proj2 (split_constraint f (strip f))); [discriminate|auto].
      - rewrite (proj2 (split_definition f F (mkhatom p (map var_to_gterm V)))); [discriminate|].
        exists V. split; [reflexivity|exact H]. }
    eexists. apply completion_structure. exists defs, cs. split; [exact Hc|split; [|reflexivity]].
    apply has_head_mismatches_spec. intros a b Ha Hb Hp.
    apply keys_all_definitions in Ha, Hb.
    destruct Ha as [Ha|[p [Hp1 ->]]], Hb as [Hb|[q [Hq1 ->]]].
    + destruct (explicit_key _ _ _ _ Hc Ha) as [f1 [F1 [V1 [Hf1 [E1 D1]]]]].
      destruct (explicit_key _ _ _ _ Hc Hb) as [f2 [F2 [V2 [Hf2 [E2 D2]]]]].
      destruct a as [pa ta], b as [pb tb]. unfold hatom_pred in Hp. cbn in *. injection Hp as Hs' Hl. subst pb ta tb.
      rewrite !map_length in Hl. rewrite (Hh _ _ _ _ _ _ _ Hf1 Hf2 D1 D2 Hl). reflexivity.
    + exfalso. rewrite atomic_formula_from_pred in Hp. apply in_implicit_preds in Hq1. apply (proj2 Hq1).
      apply in_explicit_preds. eauto.
    + exfalso. rewrite atomic_formula_from_pred in Hp. apply in_implicit_preds in Hp1. apply (proj2 Hp1).
      apply in_explicit_preds. eauto.
    + rewrite !atomic_formula_from_pred in Hp. congruence.
Qed.

(* ---------- every non-input predicate gets exactly one completed definition ---------- *)
Lemma nodup_app_intro {A} (l1 l2 : list A) :
  NoDup l1 -> NoDup l2 -> (forall x, In x l1 -> ~ In x l2) -> NoDup (l1 ++ l2).
Proof.
  induction l1 as [|a l1 IH]; cbn; intros H1 H2 Hd; auto.
  inversion H1 as [|? ? Ha H1']; subst. constructor.
  - rewrite in_app_iff. intros [H|H]; [auto|]. apply (Hd a); auto.
  - apply IH; auto.
Qed.
Lemma nodup_map_inj_in {A B} (g : A -> B) l :
  NoDup l -> (forall a b, In a l -> In b l -> g a = g b -> a = b) -> NoDup (map g l).
Proof.
  induction l as [|x l IH]; cbn; intros Hn Hi; constructor.
  - inversion Hn as [|? ? Hx Hn']; subst. intros Hin. apply in_map_iff in Hin. destruct Hin as [y [E Hy]].
    assert (y = x) by (apply Hi; auto). subst. tauto.
  - inversion Hn; subst. apply IH; auto.
Qed.
Lemma nodup_map_filter {A B} (g : A -> B) (h : A -> bool) l : NoDup (map g l) -> NoDup (map g (filter h l)).
Proof.
  induction l as [|x l IH]; cbn; intros Hn; auto. inversion Hn as [|? ? Hx Hn']; subst.
  destruct (h x); cbn; auto. constructor; auto. intros Hin. apply Hx.
  apply in_map_iff in Hin. destruct Hin as [y [E Hy]]. apply filter_In in Hy. rewrite <- E. apply in_map. tauto.
Qed.
Lemma nodup_keys_unique {A B} (l : list (A * B)) a x y :
  NoDup (map fst l) -> In (a, x) l -> In (a, y) l -> x = y.
Proof.
  induction l as [|[a' z] l IH]; cbn; intros Hn Hx Hy; [tauto|].
  inversion Hn as [|? ? Ha Hn']; subst.
  destruct Hx as [Ex|Hx], Hy as [Ey|Hy].
  - congruence.
  - injection Ex as -> ->. exfalso. apply Ha. apply (in_map fst _ _ Hy).
  - injection Ey as -> ->. exfalso. apply Ha. apply (in_map fst _ _ Hx).
  - auto.
Qed.

Lemma explicit_preds_in_theory G defs cs p :
  components G = Some (defs, cs) -> In p (explicit_preds defs) -> In p (theory_predicates G).
Proof.
  intros Hc Hp. apply in_explicit_preds in Hp. destruct Hp as [a [Ha <-]].
  destruct (explicit_key _ _ _ _ Hc Ha) as [f [F [V [Hf [E D]]]]].
  apply in_theory_predicates. exists f. split; auto.
  unfold hatom_pred. rewrite E, map_length. apply (definition_of_pred _ _ _ _ D).
Qed.
Lemma nodup_keys_all G defs cs :
  components G = Some (defs, cs) -> NoDup (map fst (all_definitions G defs)).
Proof.
  intros Hc. unfold all_definitions. rewrite map_app, map_map. cbn.
  destruct (components_spec _ _ _ Hc) as [_ [_ [Hn _]]].
  apply nodup_app_intro; auto.
  - apply Injective_map_NoDup; [|apply nodup_implicit_preds].
    intros x y E. apply (f_equal hatom_pred) in E. rewrite !atomic_formula_from_pred in E. exact E.
  - intros a Ha Hin. apply in_map_iff in Hin. destruct Hin as [p [<- Hp]].
    apply in_implicit_preds in Hp. apply (proj2 Hp). apply in_explicit_preds.
    exists (atomic_formula_from p). split; auto. apply atomic_formula_from_pred.
Qed.
Lemma nodup_preds_all G defs cs :
  components G = Some (defs, cs) -> has_head_mismatches (all_definitions G defs) = false ->
  NoDup (map (fun e => hatom_pred (fst e)) (all_definitions G defs)).
Proof.
  intros Hc Hm. rewrite has_head_mismatches_spec in Hm.
  rewrite <- (map_map fst hatom_pred). apply nodup_map_inj_in; auto. eapply nodup_keys_all; eauto.
Qed.
Lemma preds_all G defs cs p :
  components G = Some (defs, cs) ->
  (In p (map (fun e => hatom_pred (fst e)) (all_definitions G defs)) <-> In p (theory_predicates G)).
Proof.
  intros Hc. rewrite <- (map_map fst hatom_pred), in_map_iff. split.
  - intros [a [<- Ha]]. apply keys_all_definitions in Ha. destruct Ha as [Ha|[q [Hq ->]]].
    + eapply explicit_preds_in_theory; eauto. apply in_explicit_preds. eauto.
    + rewrite atomic_formula_from_pred. apply in_implicit_preds in Hq. tauto.
  - intros Hp. destruct (in_dec pred_dec p (explicit_preds defs)) as [He|He].
    + apply in_explicit_preds in He. destruct He as [a [Ha <-]]. exists a. split; auto.
      apply keys_all_definitions. auto.
    + exists (atomic_formula_from p). split; [apply atomic_formula_from_pred|].
      apply keys_all_definitions. right. exists p. split; auto. apply in_implicit_preds. auto.
Qed.

Theorem C04_total_defs_proof G ins D :
  completion G ins = Some D ->
  exists defs, D = map universal_closure (flat_map split_constraints G) ++ map complete_definition defs /\
    NoDup (map (fun e => hatom_pred (fst e)) defs) /\
    forall p, In p (map (fun e => hatom_pred (fst e)) defs) <-> In p (theory_predicates G) /\ ~ In p ins.
Proof.
  intros HD. apply completion_structure in HD. destruct HD as [defs [cs [Hc [Hm ->]]]].
  exists (filter (non_input ins) (all_definitions G defs)).
  destruct (components_spec _ _ _ Hc) as [_ [-> _]]. split; [reflexivity|split].
  - apply nodup_map_filter. eapply nodup_preds_all; eauto.
  - intros p. rewrite <- (preds_all G defs _ p Hc). rewrite !in_map_iff. split.
    + intros [e [<- He]]. apply filter_In in He. destruct He as [He Hn]. split; [eauto|].
      unfold non_input in Hn. apply negb_true_iff in Hn.
      destruct (memb_spec pred_dec (hatom_pred (fst e)) ins); [discriminate|auto].
    + intros [[e [<- He]] Hn]. exists e. split; auto. apply filter_In. split; auto.
      unfold non_input. apply negb_true_iff. destruct (memb_spec pred_dec (hatom_pred (fst e)) ins); tauto.
Qed.

(* ---------- Clark's characterisation ---------- *)
Lemma ev_g_var FI e v : ev_g FI e (var_to_gterm v) = getv e v.
Proof. destruct v as [n s]; destruct s; reflexivity. Qed.
Lemma map_eq_in {A B} (f g : A -> B) l x : map f l = map g l -> In x l -> f x = g x.
Proof. intros E. apply (proj1 (@map_ext_in_iff _ _ f g l) E). Qed.
Lemma cvalid_strip FI I f : cvalid FI I f <-> cvalid FI I (strip f).
Proof. destruct f as [| | |[] vs g]; cbn [strip]; try tauto. apply cvalid_forall. Qed.
Definition default_env : env := mkenv (fun _ => VInf) (fun _ => 0%Z) (fun _ => "").

(* existential closure of the non-head variables *)
Lemma ex_closure FI I e V F :
  csat FI I e (quantify F QExists (iset_difference var_dec (free_variables F) V)) <->
  exists e', map (getv e') V = map (getv e) V /\ csat FI I e' F.
Proof.
  set (U := iset_difference var_dec (free_variables F) V).
  assert (HU : forall x, In x U <-> In x (free_variables F) /\ ~ In x V).
  { intros x. unfold U, iset_difference. rewrite filter_In, negb_true_iff.
    destruct (memb_spec var_dec x V); intuition congruence. }
  rewrite csat_quantify_exists. split.
  - intros [ds [Hs H]]. exists (upds e U ds). split; auto.
    apply map_ext_in. intros v Hv. apply getv_upds_other. intros Hin. apply HU in Hin. tauto.
  - intros [e' [E H]]. exists (map (getv e') U). split; [apply in_sorts_own|].
    revert H. apply csat_agree. intros x Hx. apply getv_upds_own.
    destruct (in_dec var_dec x V) as [HV|HV].
    + right. symmetry. apply (map_eq_in _ _ _ _ E HV).
    + left. apply HU. auto.
Qed.

(* one completed definition *)
Lemma entry_clark FI I s V bodies : NoDup V ->
  cvalid FI I (complete_definition (mkhatom s (map var_to_gterm V), bodies)) <->
  forall d, in_sorts V d ->
    (I s d <-> exists F, In F bodies /\ exists e, map (getv e) V = d /\ csat FI I e F).
Proof.
  intros HV. unfold complete_definition, hatom_formula. cbn [fst snd hsym hargs].
  rewrite (aformula_vars_head s V HV), cvalid_quantify_forall. unfold cvalid.
  assert (Hb : forall e,
    csat FI I e (FBin CIff (FAtomic (AAtom s (map var_to_gterm V)))
                   (disjoin (map (fun f_i => quantify f_i QExists (iset_difference var_dec (free_variables f_i) V)) bodies))) <->
    (I s (map (getv e) V) <-> exists F, In F bodies /\ exists e', map (getv e') V = map (getv e) V /\ csat FI I e' F)).
  { intros e. cbn [csat asat]. rewrite map_map.
    rewrite (map_ext _ (getv e) (ev_g_var FI e)).
    rewrite csat_disjoin.
    assert (X : (exists f, In f (map (fun f_i => quantify f_i QExists (iset_difference var_dec (free_variables f_i) V)) bodies) /\ csat FI I e f) <->
                (exists F, In F bodies /\ exists e', map (getv e') V = map (getv e) V /\ csat FI I e' F)).
    { split.
      - intros [f [Hf H]]. apply in_map_iff in Hf. destruct Hf as [F [<- HF]]. exists F. split; auto.
        apply ex_closure, H.
      - intros [F [HF H]]. eexists. split; [apply in_map_iff; exists F; split; [reflexivity|exact HF]|].
        apply ex_closure, H. }
    rewrite X. tauto. }
  split.
  - intros H d Hd. specialize (H (upds default_env V d)). apply Hb in H.
    rewrite (getv_upds_same V d default_env HV Hd) in H. exact H.
  - intros H e. apply Hb. apply H. apply in_sorts_own.
Qed.

Definition defines (G : theory) (p : pred) (F : formula) (V : list var) : Prop :=
  exists f, In f G /\ definition_of f F (psym p) V /\ List.length V = parity p.

Lemma in_sorts_length V d : in_sorts V d -> List.length d = List.length V.
Proof. intros H. induction H; cbn; auto. Qed.
Lemma in_sorts_general (ns : list string) : forall d, List.length d = List.length ns ->
  in_sorts (map (fun n => mkvar n SGeneral) ns) d.
Proof.
  induction ns as [|n ns IH]; intros [|x d]; cbn; try discriminate; intros H.
  - constructor.
  - constructor; [exact Logic.I|]. apply IH. lia.
Qed.

(* the definitions of the predicate of an entry are the bodies of that entry *)
Lemma defines_entry G defs cs a bodies V :
  components G = Some (defs, cs) -> has_head_mismatches (all_definitions G defs) = false ->
  In (a, bodies) (all_definitions G defs) -> hargs a = map var_to_gterm V ->
  forall F V', defines G (hatom_pred a) F V' <-> V' = V /\ In F bodies.
Proof.
  intros Hc Hm Hin Ha F V'. pose proof (nodup_keys_all _ _ _ Hc) as Hk.
  rewrite has_head_mismatches_spec in Hm. split.
  - intros [f [Hf [HD Hl]]].
    destruct (definition_key _ _ _ _ _ _ _ Hc Hf HD) as [fs [K1 K2]].
    set (a' := mkhatom (psym (hatom_pred a)) (map var_to_gterm V')) in *.
    assert (Hin' : In (a', fs) (all_definitions G defs)) by (unfold all_definitions; apply in_app_iff; auto).
    assert (E : a' = a).
    { apply Hm.
      - apply (in_map fst _ _ Hin').
      - apply (in_map fst _ _ Hin).
      - unfold hatom_pred at 1. unfold a'. cbn [hsym hargs]. rewrite map_length, Hl.
        destruct (hatom_pred a); reflexivity. }
    split.
    + apply map_var_to_gterm_inj. rewrite <- Ha, <- E. reflexivity.
    + rewrite E in Hin'. rewrite (nodup_keys_unique _ _ _ _ Hk Hin Hin'). exact K2.
  - intros [-> HF]. unfold all_definitions in Hin. apply in_app_iff in Hin. destruct Hin as [Hin|Hin].
    + destruct (components_spec _ _ _ Hc) as [_ [_ [_ [_ H5]]]].
      destruct (proj1 (H5 a F) (ex_intro _ bodies (conj Hin HF))) as [f [Hf Ef]].
      apply split_definition in Ef. destruct Ef as [V'' [E HD]].
      assert (V'' = V) by (apply map_var_to_gterm_inj; congruence). subst V''.
      exists f. split; auto. split; [exact HD|]. unfold hatom_pred. cbn. rewrite Ha, map_length. reflexivity.
    + apply in_map_iff in Hin. destruct Hin as [q [[= _ <-] _]]. destruct HF.
Qed.

Theorem C04_clark_proof G ins D :
  completion G ins = Some D -> forall FI I,
  (forall f, In f D -> cvalid FI I f) <->
  ((forall f, In f G -> constraint_formula f -> cvalid FI I f) /\
   forall p, In p (theory_predicates G) -> ~ In p ins ->
   forall d, List.length d = parity p -> (forall F V, defines G p F V -> in_sorts V d) ->
     (I (psym p) d <-> exists F V, defines G p F V /\ exists e, map (getv e) V = d /\ csat FI I e F)).
Proof.
  intros HD FI I. apply completion_structure in HD. destruct HD as [defs [cs [Hc [Hm ->]]]].
  destruct (components_spec _ _ _ Hc) as [_ [Hcs [_ [Hne _]]]].
  (* split the completion into its two parts *)
  assert (Hsplit : (forall f, In f (map universal_closure cs ++ map complete_definition (filter (non_input ins) (all_definitions G defs))) -> cvalid FI I f) <->
                   ((forall c, In c cs -> cvalid FI I c) /\
                    forall e, In e (all_definitions G defs) -> ~ In (hatom_pred (fst e)) ins -> cvalid FI I (complete_definition e))).
  { split.
    - intros H. split.
      + intros c Hcin. apply (cvalid_universal_closure FI I c). apply H. apply in_app_iff. left. apply in_map, Hcin.
      + intros e He Hn. apply H. apply in_app_iff. right. apply in_map. apply filter_In. split; auto.
        unfold non_input. apply negb_true_iff. destruct (memb_spec pred_dec (hatom_pred (fst e)) ins); tauto.
    - intros [H1 H2] f Hf. apply in_app_iff in Hf. destruct Hf as [Hf|Hf]; apply in_map_iff in Hf.
      + destruct Hf as [c [<- Hcin]]. apply cvalid_universal_closure. auto.
      + destruct Hf as [e [<- He]]. apply filter_In in He. destruct He as [He Hn]. apply H2; auto.
        unfold non_input in Hn. apply negb_true_iff in Hn.
        destruct (memb_spec pred_dec (hatom_pred (fst e)) ins); [discriminate|auto]. }
  rewrite Hsplit. clear Hsplit.
  (* constraints *)
  assert (Hcon : (forall c, In c cs -> cvalid FI I c) <-> (forall f, In f G -> constraint_formula f -> cvalid FI I f)).
  { rewrite Hcs. split.
    - intros H f Hf Hk. apply (proj2 (cvalid_strip FI I f)). apply H. apply in_flat_map. exists f. split; auto.
      unfold split_constraints. rewrite (proj2 (split_constraint f (strip f)) (conj eq_refl Hk)). cbn; auto.
    - intros H c Hcin. apply in_flat_map in Hcin. destruct Hcin as [f [Hf Hcin]]. unfold split_constraints in Hcin.
      destruct (split f) as [[? ?|c']|] eqn:E; try (destruct Hcin; fail). destruct Hcin as [<-|[]].
      apply split_constraint in E. destruct E as [-> Hk]. apply (proj1 (cvalid_strip FI I f)). auto. }
  rewrite Hcon. clear Hcon.
  (* the head variables of an entry *)
  assert (Hhead : forall a bodies, In (a, bodies) (all_definitions G defs) ->
            exists V, hargs a = map var_to_gterm V /\ NoDup V /\
                      (forall d, List.length d = List.length V -> (forall F V', defines G (hatom_pred a) F V' -> in_sorts V' d) -> in_sorts V d)).
  { intros a bodies Hin. pose proof Hin as Hin0. unfold all_definitions in Hin. apply in_app_iff in Hin. destruct Hin as [Hin|Hin].
    - destruct (explicit_key _ _ _ a Hc (in_map fst _ _ Hin)) as [f [F [V [Hf [E HDf]]]]].
      exists V. split; auto. split; [apply HDf|]. intros d Hl Hs. apply (Hs F).
      exists f. split; auto. split; [exact HDf|]. unfold hatom_pred. cbn. rewrite E, map_length. reflexivity.
    - apply in_map_iff in Hin. destruct Hin as [q [[= <- <-] Hq]].
      exists (implicit_head_vars q). split; [apply atomic_formula_from_args|split; [apply implicit_head_vars_nodup|]].
      intros d Hl _. unfold implicit_head_vars in *. apply in_sorts_general. rewrite map_length in Hl. exact Hl. }
  split.
  - intros [H1 H2]. split; auto.
    intros p Hp Hn d Hl Hs.
    apply (preds_all G defs cs p Hc) in Hp. apply in_map_iff in Hp. destruct Hp as [[a bodies] [<- Hin]]. cbn [fst] in *.
    destruct (Hhead a bodies Hin) as [V [Ha [HV Hsort]]].
    specialize (H2 (a, bodies) Hin Hn).
    assert (Ea : a = mkhatom (hsym a) (map var_to_gterm V)) by (destruct a; cbn in *; congruence).
    rewrite Ea in H2. rewrite (entry_clark FI I (hsym a) V bodies HV) in H2.
    assert (Hd : in_sorts V d).
    { apply Hsort; auto. rewrite Hl. unfold hatom_pred. cbn. rewrite Ha, map_length. reflexivity. }
    rewrite (H2 d Hd). split.
    + intros [F [HF He]]. exists F, V. split; auto.
      apply (defines_entry G defs cs a bodies V Hc Hm Hin Ha). auto.
    + intros [F [V' [HDf He]]].
      apply (defines_entry G defs cs a bodies V Hc Hm Hin Ha) in HDf. destruct HDf as [-> HF]. eauto.
  - intros [H1 H2]. split; auto.
    intros [a bodies] Hin Hn. cbn [fst] in Hn.
    destruct (Hhead a bodies Hin) as [V [Ha [HV _]]].
    assert (Ea : a = mkhatom (hsym a) (map var_to_gterm V)) by (destruct a; cbn in *; congruence).
    rewrite Ea. apply (entry_clark FI I (hsym a) V bodies HV). intros d Hd.
    assert (Hp : In (hatom_pred a) (theory_predicates G)).
    { apply (preds_all G defs cs _ Hc). apply in_map_iff. exists (a, bodies). auto. }
    specialize (H2 (hatom_pred a) Hp Hn d).
    assert (Hl : List.length d = parity (hatom_pred a)).
    { rewrite (in_sorts_length _ _ Hd). unfold hatom_pred. cbn. rewrite Ha, map_length. reflexivity. }
    assert (Hs : forall F V', defines G (hatom_pred a) F V' -> in_sorts V' d).
    { intros F V' HDf. apply (defines_entry G defs cs a bodies V Hc Hm Hin Ha) in HDf. destruct HDf as [-> _]. exact Hd. }
    specialize (H2 Hl Hs). cbn [psym hatom_pred] in H2. rewrite H2. split.
    + intros [F [V' [HDf He]]].
      apply (defines_entry G defs cs a bodies V Hc Hm Hin Ha) in HDf. destruct HDf as [-> HF]. eauto.
    + intros [F [HF He]]. exists F, V. split; auto.
      apply (defines_entry G defs cs a bodies V Hc Hm Hin Ha). auto.
Qed.

(* a sufficient condition tau*-theories meet: every formula is a constraint or a definition whose
   head variables are a prefix of one global list (choose_fresh_global_variables) *)
Lemma completable_uniform_heads (G : theory) (globals : list var) :
  (forall f, In f G -> constraint_formula f \/
                       exists F p V, definition_of f F p V /\ V = firstn (List.length V) globals) ->
  completable G.
Proof.
  intros H. split.
  - intros f Hf. destruct (H f Hf) as [Hk|[F [p [V [HD _]]]]]; eauto.
  - intros f1 f2 F1 F2 p V1 V2 Hf1 Hf2 D1 D2 Hl.
    destruct (H f1 Hf1) as [Hk|[F1' [p1 [V1' [HD1 E1]]]]].
    { exfalso. destruct D1 as [_ [H1 _]], Hk as [_ [F' H2]]. unfold implication in *.
      destruct H1 as [X|X], H2 as [Y|Y]; rewrite X in Y; discriminate. }
    destruct (H f2 Hf2) as [Hk|[F2' [p2 [V2' [HD2 E2]]]]].
    { exfalso. destruct D2 as [_ [H1 _]], Hk as [_ [F' H2]]. unfold implication in *.
      destruct H1 as [X|X], H2 as [Y|Y]; rewrite X in Y; discriminate. }
    assert (V1' = V1).
    { destruct D1 as [_ [H1 _]], HD1 as [_ [H2 _]]. unfold implication in *.
      destruct H1 as [X|X], H2 as [Y|Y]; rewrite X in Y; try discriminate; injection Y; intros;
        apply map_var_to_gterm_inj; congruence. }
    assert (V2' = V2).
    { destruct D2 as [_ [H1 _]], HD2 as [_ [H2 _]]. unfold implication in *.
      destruct H1 as [X|X], H2 as [Y|Y]; rewrite X in Y; try discriminate; injection Y; intros;
        apply map_var_to_gterm_inj; congruence. }
    subst. rewrite E1, E2, Hl. reflexivity.
Qed.
