(* Fuel of the classic fixpoint loop in the end-to-end models (audit A8).

   The Rust loop `while previous != current` is unbounded; the models run it with explicit fuel
   and have a distinguished outcome "fuel exhausted" (RNonterminating / SNonterminating /
   XNonterminating / OutOfFuel).  This file composes C18_term_cls (Proofs/SimplClsTerm.v) with the
   panic-aware runner of Model/StrategyCls.v:

     * MONOTONICITY  a run that returns a formula (RDone G) - or panics - with fuel n returns the
                     same with every fuel n' >= n (the loop is stable once it has stopped);
     * NO ARTEFACT   with fuel >= ClsTerm.classic_fuel F the runner never answers
                     RNonterminating, for every list of panic-aware rewrites that refines
                     INTUITIONISTIC ++ HT ++ CLASSIC.

   The theory-level versions (a list of formulas, the maximum of their bounds) are what
   Proofs/StrongFullOk.v, Proofs/ExtFuel.v and Proofs/CliOk.v use. *)
From Coq Require Import List Arith Lia.
From Anthem Require Import Syntax.Fol Model.Apply Model.SimplIntuit Model.SimplClassic Model.StrategyCls
  Model.ClsTerm Proofs.StrategyClsOk Proofs.SimplClsTerm.
Import ListNotations.

(* ---------- monotonicity of the panic-aware loop ---------- *)
Lemma apply_fixpoint_opt_from_more fo : forall fuel previous current r,
  apply_fixpoint_opt_from fuel fo previous current = r -> r <> RNonterminating ->
  forall fuel', fuel <= fuel' -> apply_fixpoint_opt_from fuel' fo previous current = r.
Proof.
  induction fuel as [|n IH]; intros previous current r H Hr fuel' Hle.
  - cbn in H. destruct (formula_eqb previous current) eqn:E; [|congruence].
    destruct fuel'; cbn; rewrite E; exact H.
  - destruct fuel' as [|m]; [lia|]. cbn in *. destruct (formula_eqb previous current); [exact H|].
    destruct (apply_opt fo current) as [next|]; [|exact H]. apply (IH _ _ _ H Hr). lia.
Qed.

Lemma apply_fixpoint_opt_more fo fuel x r :
  apply_fixpoint_opt fuel fo x = r -> r <> RNonterminating ->
  forall fuel', fuel <= fuel' -> apply_fixpoint_opt fuel' fo x = r.
Proof.
  unfold apply_fixpoint_opt. destruct (apply_opt fo x) as [y|]; [|auto].
  apply apply_fixpoint_opt_from_more.
Qed.

Theorem run_strategy_opt_more fuel fos s F r :
  run_strategy_opt fuel fos s F = r -> r <> RNonterminating ->
  forall fuel', fuel <= fuel' -> run_strategy_opt fuel' fos s F = r.
Proof.
  destruct s; cbn [run_strategy_opt]; [auto|auto|]. apply apply_fixpoint_opt_more.
Qed.

(* ---------- a fuel-exhausted panic-aware run is a fuel-exhausted total run ---------- *)
Lemma apply_fixpoint_opt_from_nonterm fo ft : refines fo ft -> forall fuel previous current,
  apply_fixpoint_opt_from fuel fo previous current = RNonterminating ->
  apply_fixpoint_from fuel ft previous current = None.
Proof.
  intros R. induction fuel as [|n IH]; intros previous current;
    cbn [apply_fixpoint_opt_from apply_fixpoint_from];
    destruct (formula_eqb previous current); try discriminate; try reflexivity.
  destruct (apply_opt fo current) as [next|] eqn:E; [|discriminate].
  rewrite (apply_opt_refines fo ft R current next E). apply IH.
Qed.

Lemma apply_fixpoint_opt_nonterm fo ft : refines fo ft -> forall fuel x,
  apply_fixpoint_opt fuel fo x = RNonterminating -> apply_fixpoint fuel ft x = None.
Proof.
  intros R fuel x. unfold apply_fixpoint_opt, apply_fixpoint.
  destruct (apply_opt fo x) as [y|] eqn:E; [|discriminate].
  rewrite (apply_opt_refines fo ft R x y E). apply apply_fixpoint_opt_from_nonterm, R.
Qed.

(* ---------- C18_term_cls composed: the outcome "fuel exhausted" is a fuel artefact ---------- *)
Theorem classic_opt_never_nonterminating fos : Forall2 refines fos portfolio_classic ->
  forall F fuel, classic_fuel F <= fuel ->
  apply_fixpoint_opt fuel (compose_opt fos) F <> RNonterminating.
Proof.
  intros R F fuel Hle E.
  apply (apply_fixpoint_opt_nonterm _ _ (compose_opt_refines _ _ R)) in E.
  destruct (cls_fixpoint_terminates_any F fuel Hle) as [G HG]. congruence.
Qed.

Theorem run_classic_opt_never_nonterminating fos : Forall2 refines fos portfolio_classic ->
  forall s F fuel, classic_fuel F <= fuel -> run_strategy_opt fuel fos s F <> RNonterminating.
Proof.
  intros R s F fuel Hle. destruct s; cbn [run_strategy_opt].
  - destruct (compose_opt fos F); discriminate.
  - destruct (apply_opt (compose_opt fos) F); discriminate.
  - apply classic_opt_never_nonterminating; assumption.
Qed.

(* ---------- a bound for a whole theory: the maximum of the formulas' bounds ---------- *)
Fixpoint theory_fuel (th : list formula) : nat :=
  match th with
  | [] => 0
  | F :: th' => Nat.max (classic_fuel F) (theory_fuel th')
  end.
Lemma theory_fuel_in th F : In F th -> classic_fuel F <= theory_fuel th.
Proof.
  induction th as [|G th IH]; [intros []|]. cbn [theory_fuel]. intros [->|H]; [lia|].
  specialize (IH H). lia.
Qed.
Lemma theory_fuel_app a b : theory_fuel (a ++ b) = Nat.max (theory_fuel a) (theory_fuel b).
Proof. induction a as [|F a IH]; cbn [app theory_fuel]; [reflexivity|]. rewrite IH. lia. Qed.
