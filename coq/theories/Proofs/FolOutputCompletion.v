(* C15, second sentence, for `translate --with completion` (audit 2, B4): completion preserves
   well-formedness and creates no member of the recorded defect classes.  Every formula it prints is
   built from sub-formulas of the input (bodies, head atoms, whole constraints -- a `<-` of the input is
   kept only inside a constraint, unchanged), from atoms  p(V, V1, ..)  over predicate symbols of the
   input, and from the connectives  <->, or, forall, exists, #false;  it never builds a `<-`.  Hence
   the printed completion of a parsed theory outside the classes re-parses to the same theory. *)
From Coq Require Import List Ascii String ZArith NArith Bool Lia.
From Anthem Require Import Base.ISet Base.Fresh Syntax.Fol Model.Completion
  Model.FolLex Model.FolParse Model.FolPrint Model.FolClass
  Proofs.ExtendAll Proofs.CompletionShape Proofs.CompletionOk Proofs.FolLexOk Proofs.FreeVars
  Proofs.FolOutput Proofs.FolOutputNatural.
Import ListNotations.
Open Scope string_scope.
Open Scope list_scope.

(* well-formed and outside both classes *)
Definition Okf (f : formula) : Prop :=
  wf_formula f = true /\ keyword_ident f = false /\ rimp_neg f = false.

Lemma Okf_known_class f : Okf f <-> wf_formula f = true /\ known_class f = None.
Proof.
  unfold Okf, known_class. split.
  - intros (W & K & R). rewrite K, R. auto.
  - intros (W & H). destruct (keyword_ident f); [discriminate|]. destruct (rimp_neg f); [discriminate|]. auto.
Qed.
Lemma Forall_Okf_theory (t : theory) : Forall Okf t <-> wf_theory t = true /\ known_class_theory t = None.
Proof.
  unfold wf_theory, known_class_theory. induction t as [|f t IH]; cbn [forallb first_some].
  - split; [auto|constructor].
  - split.
    + intros H. inversion H as [|? ? Hf Ht]; subst. apply Okf_known_class in Hf. destruct Hf as [W K].
      apply IH in Ht. destruct Ht as [Wt Kt]. rewrite W, K, Wt, Kt. auto.
    + intros [W K]. apply andb_true_iff in W. destruct W as [W Wt].
      destruct (known_class f) eqn:Kf; [discriminate|].
      constructor; [apply Okf_known_class; auto|apply IH; auto].
Qed.

Lemma Okf_bin c l r : c <> CRimp -> Okf l -> Okf r -> Okf (FBin c l r).
Proof.
  intros Hc (W1 & K1 & R1) (W2 & K2 & R2). unfold Okf. cbn [wf_formula keyword_ident rimp_neg].
  rewrite W1, W2, K1, K2, R1, R2. destruct c; try contradiction; repeat split; reflexivity.
Qed.
Lemma Okf_bin_inv c l r : Okf (FBin c l r) -> Okf l /\ Okf r.
Proof.
  intros (W & K & R). cbn [wf_formula keyword_ident rimp_neg] in W, K, R.
  apply andb_true_iff in W. destruct W as [Wl Wr].
  apply orb_false_iff in K. destruct K as [Kl Kr].
  apply orb_false_iff in R. destruct R as [R _]. apply orb_false_iff in R. destruct R as [Rl Rr].
  split; repeat split; assumption.
Qed.
Lemma Okf_quantify q vs f : Forall (fun v => wf_var v = true) vs -> Okf f -> Okf (quantify f q vs).
Proof.
  intros Hv Hf. unfold quantify. destruct vs as [|v vs]; [exact Hf|].
  destruct Hf as (W & K & R). unfold Okf. cbn [wf_formula keyword_ident rimp_neg nonempty].
  assert (forallb wf_var (v :: vs) = true) as -> by (apply forallb_forall; apply Forall_forall; exact Hv).
  rewrite W. repeat split; assumption.
Qed.
Lemma Okf_fv f : Okf f -> Forall (fun v => wf_var v = true) (free_variables f).
Proof. intros (W & _). apply Forall_forall. intros v Hv. eapply wf_formula_fv; eassumption. Qed.
Lemma Okf_universal_closure f : Okf f -> Okf (universal_closure f).
Proof. intros H. apply Okf_quantify; [apply Okf_fv, H|exact H]. Qed.
Lemma Okf_strip f : Okf f -> Okf (CompletionShape.strip f).
Proof.
  destruct f as [a|g|c l r|[] vs g]; cbn [CompletionShape.strip]; auto.
  intros (W & K & R). cbn [wf_formula keyword_ident rimp_neg] in W, K, R.
  apply andb_true_iff in W. destruct W as [_ W]. repeat split; assumption.
Qed.
Lemma Okf_false : Okf ffalse. Proof. repeat split. Qed.

Lemma Okf_fold_or xs : forall acc, Okf acc -> Forall Okf xs ->
  Okf (fold_left (fun acc e => FBin COr acc e) xs acc).
Proof.
  induction xs as [|x xs IH]; intros acc Ha Hx; cbn [fold_left]; [exact Ha|].
  inversion Hx; subst. apply IH; [apply Okf_bin; [discriminate|assumption..]|assumption].
Qed.
Lemma Okf_disjoin l : Forall Okf l -> Okf (disjoin l).
Proof.
  unfold disjoin, reduce_bin. destruct l as [|x xs]; intros H; [apply Okf_false|].
  inversion H; subst. apply Okf_fold_or; assumption.
Qed.

(* ------------------------------------------------------------------ predicate symbols of a formula *)
Lemma Okf_predicates f : forall p, Okf f -> In p (predicates f) ->
  is_symbol_name (psym p) = true /\ kw_prefixed (psym p) = false.
Proof.
  induction f as [a|g IH|c l IHl r IHr|q vs g IH]; intros p H Hp.
  - destruct a as [| |s ts|t gs]; cbn [predicates aformula_preds] in Hp; try (destruct Hp; fail).
    destruct Hp as [<-|[]]. cbn [psym]. destruct H as (W & K & _).
    cbn [wf_formula wf_atomic] in W. apply andb_true_iff in W. destruct W as [W _].
    cbn [keyword_ident] in K. rewrite kwi_atom in K. auto.
  - apply IH; [exact H|exact Hp].
  - apply Okf_bin_inv in H. destruct H as [Hl Hr]. cbn [predicates] in Hp.
    apply in_iset_extend in Hp. destruct Hp; auto.
  - apply IH; [|exact Hp]. destruct H as (W & K & R). cbn [wf_formula keyword_ident rimp_neg] in W, K, R.
    apply andb_true_iff in W. destruct W as [_ W]. repeat split; assumption.
Qed.

(* ------------------------------------------------------------------ the fresh head variables V, V1, V2, .. *)
Lemma fresh_step_numbered taken fresh v n : numbered v (fresh_step taken fresh v n).
Proof.
  unfold fresh_step. destruct (find_fresh_by _ v _ n) as [[c k]|] eqn:E.
  - apply find_fresh_by_sound in E. destruct E as (_ & -> & _). right. eauto.
  - left. reflexivity.
Qed.
Lemma fresh_loop_numbered taken v k : forall fresh n,
  Forall (numbered v) fresh -> Forall (numbered v) (fresh_loop taken fresh v n k).
Proof.
  induction k as [|k IH]; intros fresh n H; cbn [fresh_loop]; [exact H|].
  apply IH. apply Forall_app. split; [exact H|]. constructor; [apply fresh_step_numbered|constructor].
Qed.
Lemma completion_fresh_numbered vars v k :
  Forall (numbered v) (Completion.choose_fresh_variable_names vars v k).
Proof.
  unfold Completion.choose_fresh_variable_names. destruct k as [|k]; [constructor|].
  destruct (memb string_dec v (map vname vars)).
  - apply fresh_loop_numbered. constructor.
  - apply fresh_loop_numbered. constructor; [left; reflexivity|constructor].
Qed.

Lemma Okf_atomic_formula_from p : is_symbol_name (psym p) = true -> kw_prefixed (psym p) = false ->
  Okf (FAtomic (hatom_formula (atomic_formula_from p))).
Proof.
  intros W K. unfold atomic_formula_from, hatom_formula. cbn [hsym hargs].
  unfold Okf. cbn [wf_formula wf_atomic keyword_ident rimp_neg]. rewrite kwi_atom, W, K.
  split; [|split; reflexivity]. cbn [andb]. apply forallb_forall. intros t Ht.
  apply in_map_iff in Ht. destruct Ht as (x & <- & Hx). cbn [wf_gterm].
  pose proof (completion_fresh_numbered [mkvar "V" SGeneral] "V" (parity p)) as H.
  rewrite Forall_forall in H. eapply (numbered_variable_name "V"%char); [reflexivity|apply H, Hx].
Qed.

(* ------------------------------------------------------------------ the parts of a completion *)
Lemma Okf_complete_definition e :
  Okf (FAtomic (hatom_formula (fst e))) -> Forall Okf (snd e) -> Okf (complete_definition e).
Proof.
  intros Hg Hfs. unfold complete_definition. apply Okf_quantify.
  - apply Forall_forall. intros v Hv. destruct Hg as (W & _). eapply wf_atomic_vars; [exact W|exact Hv].
  - apply Okf_bin; [discriminate|exact Hg|]. apply Okf_disjoin.
    apply Forall_forall. intros f Hf. apply in_map_iff in Hf. destruct Hf as (fi & <- & Hfi).
    rewrite Forall_forall in Hfs. specialize (Hfs fi Hfi). apply Okf_quantify; [|exact Hfs].
    apply Forall_forall. intros v Hv. unfold iset_difference in Hv. apply filter_In in Hv. destruct Hv as [Hv _].
    pose proof (Okf_fv fi Hfs) as H. rewrite Forall_forall in H. apply H, Hv.
Qed.

Lemma implication_parts m F h : implication m F h -> Okf m -> Okf F /\ Okf h.
Proof. intros [->| ->] H; apply Okf_bin_inv in H; tauto. Qed.

Theorem completion_output_ok (t : theory) ins D :
  Forall Okf t -> completion t ins = Some D -> Forall Okf D.
Proof.
  intros Ht E. apply completion_structure in E. destruct E as (defs & cs & Hc & _ & ->).
  pose proof Ht as Ht'. rewrite Forall_forall in Ht'.
  destruct (components_spec _ _ _ Hc) as (_ & Ecs & _ & _ & H5).
  apply Forall_app. split.
  - (* constraints *)
    apply Forall_forall. intros f Hf. apply in_map_iff in Hf. destruct Hf as (c & <- & Hcin).
    apply Okf_universal_closure. subst cs. apply in_flat_map in Hcin. destruct Hcin as (f & Hf & Hcin).
    unfold split_constraints in Hcin. destruct (split f) as [[F a|c']|] eqn:Es; try (destruct Hcin; fail).
    destruct Hcin as [<-|[]]. apply split_constraint in Es. destruct Es as [-> _].
    apply Okf_strip, Ht', Hf.
  - (* completed definitions *)
    apply Forall_forall. intros f Hf. apply in_map_iff in Hf. destruct Hf as (e & <- & He).
    apply filter_In in He. destruct He as [He _]. unfold all_definitions in He. apply in_app_iff in He.
    destruct He as [He|He].
    + (* explicit *)
      destruct e as [b fs]. cbn [fst snd].
      assert (Hall : forall F, In F fs -> Okf F /\ Okf (FAtomic (hatom_formula b))).
      { intros F HF. destruct (proj1 (H5 b F)) as (f & Hf & Es); [exists fs; auto|].
        apply split_definition in Es. destruct Es as (V & EV & _ & Hi & _).
        unfold hatom_formula. rewrite EV.
        eapply implication_parts; [exact Hi|]. apply Okf_strip, Ht', Hf. }
      destruct (components_spec _ _ _ Hc) as (_ & _ & _ & Hne & _).
      destruct fs as [|F0 fs0] eqn:Efs; [exfalso; eapply Hne; [exact He|reflexivity]|]. rewrite <- Efs in *.
      apply Okf_complete_definition; cbn [fst snd].
      * apply (Hall F0). rewrite Efs. left. reflexivity.
      * apply Forall_forall. intros F HF. apply Hall, HF.
    + (* implicit: p occurs in the theory *)
      apply in_map_iff in He. destruct He as (p & <- & Hp).
      apply in_implicit_preds in Hp. destruct Hp as [Hp _].
      apply in_theory_predicates in Hp. destruct Hp as (f & Hf & Hp).
      destruct (Okf_predicates f p (Ht' f Hf) Hp) as [W K].
      apply Okf_complete_definition; cbn [fst snd]; [apply Okf_atomic_formula_from; assumption|constructor].
Qed.

Theorem completion_output_reparses (t : theory) ins D :
  wf_theory t = true -> known_class_theory t = None -> completion t ins = Some D ->
  wf_theory D = true /\ known_class_theory D = None /\ parse_theory_str (show_theory D) = PR_ok D.
Proof.
  intros W K E.
  assert (H : Forall Okf D) by (apply (completion_output_ok t ins D); [apply Forall_Okf_theory; split; assumption|exact E]).
  apply Forall_Okf_theory in H. destruct H as [W' K'].
  split; [exact W'|]. split; [exact K'|]. apply text_theory; assumption.
Qed.

(* ------------------------------------------------------------------ CLI corollaries *)
From Anthem Require Import Syntax.Asp Model.AspParse Model.TauStar Model.Natural Model.CliMu Model.CliOut
  Model.FolOutClass Model.Cli Proofs.CliOk Proofs.FolImage.

Theorem cli_translate_completion_feeds_back s out :
  run_cli (Translate Completion) s = Stdout out ->
  exists t D,
    parse_theory_str s = PR_ok t /\ completion t [] = Some D /\ out = show_theory D /\
    (known_class_theory t = None ->
     wf_theory D = true /\ known_class_theory D = None /\
     parse_theory_str out = PR_ok D /\ run_cli (Parse Theory) out = Stdout out).
Proof.
  unfold run_cli; cbn [run_cli_fuel run_translate]. intros E.
  apply theory_bind_stdout in E. destruct E as (t & Et & E).
  destruct (completion t []) as [D|] eqn:Ec; [|discriminate].
  apply print_theory_inj_stdout in E. subst out.
  exists t, D. split; [exact Et|]. split; [exact Ec|]. split; [reflexivity|]. intros K.
  destruct (completion_output_reparses t [] D (image_theory_str s t Et) K Ec) as (W' & K' & R).
  split; [exact W'|]. split; [exact K'|]. split; [exact R|].
  unfold run_cli; cbn [run_cli_fuel run_parse]. unfold theory_from_file. rewrite R. reflexivity.
Qed.

Theorem cli_translate_natural_feeds_back s out :
  run_cli (Translate Cli.Natural) s = Stdout out ->
  exists P G,
    parse_program_text s = POk P /\ Natural.natural P = NOk G /\ out = show_theory G /\
    (no_keyword_front P = true ->
     wf_theory G = true /\ known_class_theory G = None /\
     parse_theory_str out = PR_ok G /\ run_cli (Parse Theory) out = Stdout out).
Proof.
  unfold run_cli; cbn [run_cli_fuel run_translate]. unfold program_from_file. intros E.
  destruct (parse_program_text s) as [P| |] eqn:EP; cbn [bind] in E; try discriminate.
  destruct (Natural.natural P) as [G| |] eqn:EG; cbn [of_nresult_theory] in E; try discriminate.
  apply print_theory_inj_stdout in E. subst out.
  exists P, G. split; [reflexivity|]. split; [exact EG|]. split; [reflexivity|]. intros Hk.
  destruct (natural_output_reparses P G (parsed_program_names_ok s P EP) Hk EG) as (W & K & R).
  split; [exact W|]. split; [exact K|]. split; [exact R|].
  unfold run_cli; cbn [run_cli_fuel run_parse]. unfold theory_from_file. rewrite R. reflexivity.
Qed.

Theorem cli_translate_mu_feeds_back s out :
  run_cli (Translate Mu) s = Stdout out ->
  exists P G,
    parse_program_text s = POk P /\ CliMu.mu P = NOk G /\ out = show_theory G /\
    (no_keyword_front P = true ->
     wf_theory G = true /\ known_class_theory G = None /\
     parse_theory_str out = PR_ok G /\ run_cli (Parse Theory) out = Stdout out).
Proof.
  unfold run_cli; cbn [run_cli_fuel run_translate]. unfold program_from_file. intros E.
  destruct (parse_program_text s) as [P| |] eqn:EP; cbn [bind] in E; try discriminate.
  destruct (CliMu.mu P) as [G| |] eqn:EG; cbn [of_nresult_theory] in E; try discriminate.
  apply print_theory_inj_stdout in E. subst out.
  exists P, G. split; [reflexivity|]. split; [exact EG|]. split; [reflexivity|]. intros Hk.
  destruct (mu_output_reparses P G (parsed_program_names_ok s P EP) Hk EG) as (W & K & R).
  split; [exact W|]. split; [exact K|]. split; [exact R|].
  unfold run_cli; cbn [run_cli_fuel run_parse]. unfold theory_from_file. rewrite R. reflexivity.
Qed.

(* the pipeline of `verify`: tau* (or natural / mu) followed by completion *)
Theorem tau_star_completion_output_reparses P G D :
  fol_names_ok P = true -> no_keyword_predicate P = true -> tau_star P = Some G ->
  completion G [] = Some D ->
  parse_theory_str (show_theory D) = PR_ok D.
Proof.
  intros Ho Hk E Ec. destruct (translate_output_reparses P G Ho Hk E) as (W & K & _).
  apply (completion_output_reparses G [] D W K Ec).
Qed.
