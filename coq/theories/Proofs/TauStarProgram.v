(* Programs: the global variables chosen by choose_fresh_global_variables are usable by every rule,
   hence C01_ht (HT models) and C01_stable (stable = equilibrium models). *)
From Coq Require Import List Ascii String ZArith NArith Bool Lia DecimalString DecimalN.
From Anthem Require Import Base.ISet Base.Fresh Syntax.Fol Syntax.Asp Sem.Domain Sem.Sat Sem.AspRef
  Model.FreshNames Model.TauStar Proofs.FreshNamesOk Proofs.TauStarBase Proofs.TauStarVal Proofs.TauStarBody
  Proofs.TauStarRule.
Import ListNotations.
Open Scope string_scope.
Open Scope list_scope.

(* ---------- decimal printing followed by decimal parsing ---------- *)
Fixpoint uint_val (acc : N) (d : Decimal.uint) : N :=
  match d with
  | Decimal.Nil => acc
  | Decimal.D0 l => uint_val (acc * 10 + 0)%N l
  | Decimal.D1 l => uint_val (acc * 10 + 1)%N l
  | Decimal.D2 l => uint_val (acc * 10 + 2)%N l
  | Decimal.D3 l => uint_val (acc * 10 + 3)%N l
  | Decimal.D4 l => uint_val (acc * 10 + 4)%N l
  | Decimal.D5 l => uint_val (acc * 10 + 5)%N l
  | Decimal.D6 l => uint_val (acc * 10 + 6)%N l
  | Decimal.D7 l => uint_val (acc * 10 + 7)%N l
  | Decimal.D8 l => uint_val (acc * 10 + 8)%N l
  | Decimal.D9 l => uint_val (acc * 10 + 9)%N l
  end.

Lemma digits_val_uint d : forall acc, digits_val acc (NilEmpty.string_of_uint d) = uint_val acc d.
Proof. induction d; intros acc; cbn [NilEmpty.string_of_uint digits_val uint_val]; auto; rewrite IHd; reflexivity. Qed.

Lemma all_digits_uint d : all_digits (NilEmpty.string_of_uint d) = true.
Proof. induction d; cbn [NilEmpty.string_of_uint all_digits]; auto; rewrite IHd; reflexivity. Qed.

Lemma uint_val_pos d : forall p, uint_val (Npos p) d = Npos (Pos.of_uint_acc d p).
Proof.
  induction d; intros p; cbn [uint_val Pos.of_uint_acc]; auto;
    rewrite <- IHd; f_equal; lia.
Qed.

Lemma uint_val_zero d : uint_val 0 d = Pos.of_uint d.
Proof.
  induction d; cbn [uint_val Pos.of_uint]; auto;
    try (change (0 * 10 + 0)%N with 0%N; exact IHd);
    match goal with |- uint_val ?x _ = _ => let y := eval vm_compute in x in change x with y end;
    apply uint_val_pos.
Qed.

Lemma digits_val_nat_str n : digits_val 0 (nat_str n) = n.
Proof.
  unfold nat_str. rewrite digits_val_uint, uint_val_zero.
  change (Pos.of_uint (N.to_uint n)) with (N.of_uint (N.to_uint n)).
  apply DecimalN.Unsigned.of_to.
Qed.
Lemma all_digits_nat_str n : all_digits (nat_str n) = true.
Proof. apply all_digits_uint. Qed.
Lemma nat_str_nonempty n : nat_str n <> EmptyString.
Proof.
  intros E. pose proof (digits_val_nat_str n) as Hn. rewrite E in Hn. cbn in Hn. subst n.
  vm_compute in E. discriminate.
Qed.

Lemma parse_nat_str n : (n < two64)%N -> parse_usize_or_0 (nat_str n) = n.
Proof.
  intros Hn. unfold parse_usize_or_0. destruct (nat_str n) eqn:E.
  - exfalso. exact (nat_str_nonempty n E).
  - rewrite <- E, digits_val_nat_str. destruct (N.ltb_spec n two64); [reflexivity|lia].
Qed.
Lemma re_captures_V n : re_captures_number ("V" ++ nat_str n)%string = Some (nat_str n).
Proof. cbn. rewrite all_digits_nat_str. reflexivity. Qed.

(* ---------- max_taken_var dominates every V<n> of the program ---------- *)
Definition taken_step (acc : N) (x : string) : N :=
  match re_captures_number x with
  | Some num => let t := parse_usize_or_0 num in if (acc <? t)%N then t else acc
  | None => acc
  end.
Lemma taken_step_ge acc x : (acc <= taken_step acc x)%N.
Proof.
  unfold taken_step. destruct (re_captures_number x); [|lia].
  cbv zeta. destruct (N.ltb_spec acc (parse_usize_or_0 s)); lia.
Qed.
Lemma fold_taken_ge l : forall acc, (acc <= fold_left taken_step l acc)%N.
Proof.
  induction l as [|x l IH]; intros acc; cbn [fold_left]; [lia|].
  pose proof (taken_step_ge acc x). pose proof (IH (taken_step acc x)). lia.
Qed.
Lemma fold_taken_in l x num : In x l -> re_captures_number x = Some num ->
  forall acc, (parse_usize_or_0 num <= fold_left taken_step l acc)%N.
Proof.
  induction l as [|y l IH]; intros Hin Hx acc; [destruct Hin|]. cbn [fold_left].
  destruct Hin as [->|Hin].
  - pose proof (fold_taken_ge l (taken_step acc x)) as Hg.
    assert (parse_usize_or_0 num <= taken_step acc x)%N.
    { unfold taken_step. rewrite Hx. cbv zeta. destruct (N.ltb_spec acc (parse_usize_or_0 num)); lia. }
    lia.
  - apply IH; auto.
Qed.
Lemma max_taken_var_ge p n : In ("V" ++ nat_str n)%string (program_vars p) -> (n < two64)%N ->
  (n <= max_taken_var p)%N.
Proof.
  intros Hin Hn. unfold max_taken_var.
  change (fun acc x => match re_captures_number x with
                       | Some num => let t := parse_usize_or_0 num in if (acc <? t)%N then t else acc
                       | None => acc end) with taken_step.
  rewrite <- (parse_nat_str n Hn) at 1.
  apply (fold_taken_in _ _ _ Hin (re_captures_V n)).
Qed.

(* ---------- the globals ---------- *)
Lemma globals_loop_spec m count : forall i gs, globals_loop m i count = Some gs ->
  List.length gs = count /\
  forall x, In x gs -> exists k, (i <= k)%N /\ (m + k < two64)%N /\ x = ("V" ++ nat_str (m + k))%string.
Proof.
  induction count as [|c IH]; intros i gs; cbn [globals_loop].
  - intros [= <-]. split; [reflexivity|intros x []].
  - destruct (N.leb_spec two64 (m + i)) as [|Hlt]; [discriminate|].
    destruct (globals_loop m (N.succ i) c) as [gs'|] eqn:E; [|discriminate].
    cbn [option_map]. intros [= <-]. destruct (IH _ _ E) as [Hl Hall]. split; [cbn; congruence|].
    intros x [<-|Hx].
    + exists i. repeat split; auto; lia.
    + destruct (Hall x Hx) as [k [Hk [Hb Hx']]]. exists k. repeat split; auto; lia.
Qed.
Lemma globals_loop_nodup m count : forall i gs, globals_loop m i count = Some gs -> NoDup gs.
Proof.
  induction count as [|c IH]; intros i gs; cbn [globals_loop].
  - intros [= <-]. constructor.
  - destruct (N.leb_spec two64 (m + i)) as [|Hlt]; [discriminate|].
    destruct (globals_loop m (N.succ i) c) as [gs'|] eqn:E; [|discriminate].
    cbn [option_map]. intros [= <-]. constructor; [|eapply IH; eauto].
    intros Hin. destruct (proj2 (globals_loop_spec _ _ _ _ E) _ Hin) as [k [Hk [_ Hx]]].
    cbn in Hx. injection Hx as Hx. apply nat_str_inj in Hx. lia.
Qed.

Lemma max_head_arity_ge p : forall r, In r p -> head_arity (rhead r) <= max_head_arity p.
Proof.
  unfold max_head_arity.
  assert (Hmono : forall l acc, acc <= fold_left (fun acc r => let a := head_arity (rhead r) in
                                                      if Nat.ltb acc a then a else acc) l acc).
  { induction l as [|x l IH]; intros acc; cbn [fold_left]; [lia|].
    cbv zeta. destruct (Nat.ltb_spec acc (head_arity (rhead x))); etransitivity; [|apply IH| |apply IH]; lia. }
  induction p as [|x p IH]; intros r Hin; [destruct Hin|]. cbn [fold_left]. cbv zeta.
  destruct Hin as [->|Hin].
  - destruct (Nat.ltb_spec 0 (head_arity (rhead r))); (etransitivity; [|apply Hmono]); lia.
  - clear IH.
    assert (Hgen : forall l acc, In r l -> head_arity (rhead r) <=
              fold_left (fun acc r => let a := head_arity (rhead r) in if Nat.ltb acc a then a else acc) l acc).
    { induction l as [|y l IHl]; intros acc Hl; [destruct Hl|]. cbn [fold_left]. cbv zeta.
      destruct Hl as [->|Hl]; [|apply IHl; exact Hl].
      destruct (Nat.ltb_spec acc (head_arity (rhead r))); (etransitivity; [|apply Hmono]); lia. }
    apply Hgen. exact Hin.
Qed.

Lemma in_firstn {A} (x : A) n l : In x (firstn n l) -> In x l.
Proof. revert l; induction n; intros [|y l]; cbn; try tauto. intros [->|H]; auto. Qed.
Lemma nodup_firstn {A} n (l : list A) : NoDup l -> NoDup (firstn n l).
Proof.
  revert l; induction n; intros [|y l] H; cbn; try constructor.
  - inversion H; subst. intros Hin. apply in_firstn in Hin. contradiction.
  - inversion H; subst. auto.
Qed.

Lemma program_vars_rule p r x : In r p -> In x (rule_vars r) -> In x (program_vars p).
Proof. intros Hr Hx. unfold program_vars. apply in_extend_all. right. eauto. Qed.

Theorem globals_fresh p globals : choose_fresh_global_variables p = Some globals ->
  forall r, In r p -> fresh_globals r globals.
Proof.
  unfold choose_fresh_global_variables. intros Hg r Hr.
  destruct (globals_loop_spec _ _ _ _ Hg) as [Hlen Hall].
  pose proof (globals_loop_nodup _ _ _ _ Hg) as Hnd.
  pose proof (max_head_arity_ge p r Hr) as Har.
  split; [lia|]. split; [apply nodup_firstn; exact Hnd|].
  intros x Hx Hin. apply in_firstn in Hx. destruct (Hall x Hx) as [k [Hk [Hb ->]]].
  pose proof (max_taken_var_ge p _ (program_vars_rule p r _ Hr Hin) Hb). lia.
Qed.

(* ---------- programs ---------- *)
Lemma map_opt_forall2 {A B} (f : A -> option B) l : forall m, map_opt f l = Some m ->
  Forall2 (fun x y => f x = Some y) l m.
Proof.
  induction l as [|x l IH]; intros m; cbn [map_opt].
  - intros [= <-]. constructor.
  - destruct (f x) eqn:Ex; [|discriminate]. destruct (map_opt f l) eqn:El; [|discriminate].
    intros [= <-]. constructor; auto.
Qed.

Section Program.
Variable FI : fint.

Lemma rules_ht globals H T P G :
  Forall2 (fun r F => tau_star_rule r globals = Some F) P G ->
  (forall r, In r P -> fresh_globals r globals) ->
  ((forall f, In f G -> hvalid FI H T f) <-> (forall r, In r P -> ref_rule_sat H T r)).
Proof.
  induction 1 as [|r F P' G' HrF Hrest IH]; intros Hfresh.
  - split; intros _ x [].
  - assert (Hhead : hvalid FI H T F <-> ref_rule_sat H T r).
    { apply (tau_star_rule_ok FI H T r globals F HrF). apply Hfresh. left; reflexivity. }
    assert (IH' : (forall f, In f G' -> hvalid FI H T f) <-> (forall r, In r P' -> ref_rule_sat H T r)).
    { apply IH. intros r' Hr'. apply Hfresh. right; exact Hr'. }
    split.
    + intros Hall r' [<-|Hr'].
      * apply Hhead. apply Hall. left; reflexivity.
      * apply (proj1 IH'); auto. intros f Hf. apply Hall. right; exact Hf.
    + intros Hall f [<-|Hf].
      * apply Hhead. apply Hall. left; reflexivity.
      * apply (proj2 IH'); auto. intros r' Hr'. apply Hall. right; exact Hr'.
Qed.

Theorem tau_star_ht P G H T : tau_star P = Some G ->
  (theory_hsat FI H T G <-> ref_sat H T P).
Proof.
  unfold tau_star. destruct (choose_fresh_global_variables P) as [globals|] eqn:Eg; [|discriminate].
  intros Hm. apply map_opt_forall2 in Hm.
  pose proof (globals_fresh P globals Eg) as Hfresh.
  unfold theory_hsat, ref_sat. apply (rules_ht globals); auto.
Qed.

Theorem tau_star_stable P G T Facts : tau_star P = Some G ->
  (equilibrium FI T G Facts <-> stable T P Facts).
Proof.
  intros Ht. unfold equilibrium, stable.
  rewrite (tau_star_ht P G T T Ht). split.
  - intros [Hm Hmin]. split; [exact Hm|]. intros H Hsub Hs Hf. apply Hmin; auto.
    apply (tau_star_ht P G H T Ht). exact Hs.
  - intros [Hm Hmin]. split; [exact Hm|]. intros H Hsub Hs Hf. apply Hmin; auto.
    apply (tau_star_ht P G H T Ht). exact Hs.
Qed.
End Program.

(* tau_star panics exactly when the global counter would overflow usize *)
Definition no_global_overflow (P : program) : Prop :=
  max_head_arity P = 0 \/ (max_taken_var P + N.of_nat (max_head_arity P) < two64)%N.

Lemma globals_loop_some m (count : nat) : forall i, (count = 0%nat \/ (m + i + N.of_nat count - 1 < two64)%N) ->
  exists gs, globals_loop m i count = Some gs.
Proof.
  induction count as [|c IH]; intros i Hb; cbn [globals_loop]; [eauto|].
  destruct Hb as [Hb|Hb]; [discriminate|].
  destruct (N.leb_spec two64 (m + i)) as [Hge|Hlt]; [lia|].
  destruct (IH (N.succ i)) as [gs E].
  { destruct c; [left; reflexivity|right; lia]. }
  rewrite E. cbn. eauto.
Qed.
Lemma map_opt_some {A B} (f : A -> option B) l : (forall x, In x l -> exists y, f x = Some y) ->
  exists m, map_opt f l = Some m.
Proof.
  induction l as [|x l IH]; intros Hf; cbn [map_opt]; [eauto|].
  destruct (Hf x (or_introl eq_refl)) as [y Ey]. rewrite Ey.
  destruct IH as [m Em]; [intros z Hz; apply Hf; right; exact Hz|]. rewrite Em. eauto.
Qed.

Theorem tau_star_defined P : no_global_overflow P -> exists G, tau_star P = Some G.
Proof.
  intros Hno. unfold tau_star.
  destruct (globals_loop_some (max_taken_var P) (max_head_arity P) 1%N) as [gs Eg].
  { destruct Hno as [Hz|Hb]; [left; exact Hz|right; lia]. }
  unfold choose_fresh_global_variables. rewrite Eg.
  apply map_opt_some. intros r Hr.
  destruct (globals_fresh P gs) with (r := r) as [Hlen _]; auto.
  unfold tau_star_rule. destruct (rhead r) as [a|a|] eqn:Hh; cbn [head_pred head_arity] in *.
  - destruct (Nat.ltb 0 (List.length (aterms a))).
    + unfold tau_star_fo_head_rule. rewrite Hh. cbn [head_atom].
      destruct (Nat.ltb_spec (List.length gs) (List.length (aterms a))); [lia|eauto].
    + unfold tau_star_prop_head_rule. rewrite Hh. cbn [head_atom]. eauto.
  - destruct (Nat.ltb 0 (List.length (aterms a))).
    + unfold tau_star_fo_head_rule. rewrite Hh. cbn [head_atom].
      destruct (Nat.ltb_spec (List.length gs) (List.length (aterms a))); [lia|eauto].
    + unfold tau_star_prop_head_rule. rewrite Hh. cbn [head_atom]. eauto.
  - eauto.
Qed.
