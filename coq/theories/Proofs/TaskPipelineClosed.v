(* Audit B8 (C09 tie), part 2: the premises of C09 / C09_text / C06_in_pipeline that are not about
   identifiers -- [closed_formula] and [cmps_nonempty] -- through the STRUCTURAL stages of the
   verification tasks: gamma (here / there), replace_placeholders, RenamePredicates,
   break_equivalences, Formula::quantify / universal_closure, join_nested_quantifiers,
   Formula::substitute, the transition axioms of strong equivalence.

   [closed_formula F = true  <->  binders_nonempty F = true /\ free_variables F = []]
   (closed_iff; the direction <- is C09_closed). *)
From Coq Require Import List Ascii String ZArith NArith Bool Lia.
From Anthem Require Import Base.ISet Base.Fresh Syntax.Fol
  Model.Apply Model.Subst Model.Gamma Model.Break Model.Problem Model.Outline Model.Strong Model.External
  Model.ProblemPrint
  Proofs.FreeVars Proofs.ClosedOk Proofs.SubstTerm Proofs.SubstOk Proofs.SimplClassicTotal Proofs.ParserImage
  Proofs.TaskPipelineBn.
Import ListNotations.
Open Scope string_scope.
Open Scope list_scope.

(* ---------- closedb B F = true  ->  binders nonempty and free variables among B ---------- *)
Lemma bound_in B v : bound B v = true -> In v B.
Proof. unfold bound. destruct (memb_spec var_dec v B); [auto|discriminate]. Qed.
Lemma iterm_closed_incl B t : iterm_closed B t = true -> incl (iterm_vars t) B.
Proof.
  induction t as [z|c|x|o a IH|o l IHl r IHr]; cbn [iterm_vars iterm_closed]; intros H w Hw.
  - destruct Hw.
  - destruct Hw.
  - destruct Hw as [<-|[]]. apply bound_in, H.
  - apply IH; assumption.
  - apply andb_true_iff in H. destruct H as [H1 H2]. apply (in_iset_extend var_dec) in Hw.
    destruct Hw; [apply IHl|apply IHr]; assumption.
Qed.
Lemma gterm_closed_incl B t : gterm_closed B t = true -> incl (gterm_vars t) B.
Proof.
  destruct t as [| |c|x|a|[s|c|x]]; cbn [gterm_vars gterm_closed sterm_vars sterm_closed]; intros H w Hw;
    try (destruct Hw; fail).
  - destruct Hw as [<-|[]]. apply bound_in, H.
  - exact (iterm_closed_incl B a H w Hw).
  - destruct Hw as [<-|[]]. apply bound_in, H.
Qed.
Lemma aformula_closed_incl B a : aformula_closed B a = true -> incl (aformula_vars a) B.
Proof.
  destruct a as [| |p ts|t gs]; cbn [aformula_closed]; intros H w Hw; try (destruct Hw; fail).
  - apply in_aformula_vars_atom in Hw. destruct Hw as [g [Hg Hw]].
    rewrite forallb_forall in H. exact (gterm_closed_incl B g (H g Hg) w Hw).
  - apply andb_true_iff in H. destruct H as [H1 H2]. apply in_aformula_vars_cmp in Hw.
    destruct Hw as [Hw|[g [Hg Hw]]]; [exact (gterm_closed_incl B t H1 w Hw)|].
    rewrite forallb_forall in H2. exact (gterm_closed_incl B _ (H2 g Hg) w Hw).
Qed.
Theorem closedb_fv F : forall B, closedb B F = true -> binders_nonempty F = true /\ incl (free_variables F) B.
Proof.
  induction F as [a|g IH|c l IHl r IHr|q vs g IH]; cbn [binders_nonempty closedb]; intros B H.
  - split; [reflexivity|apply aformula_closed_incl, H].
  - apply IH, H.
  - apply andb_true_iff in H. destruct H as [Hl Hr].
    destruct (IHl B Hl) as [A1 A2]. destruct (IHr B Hr) as [B1 B2]. split; [rewrite A1, B1; reflexivity|].
    intros w Hw. apply in_fv_bin in Hw. destruct Hw; auto.
  - apply andb_true_iff in H. destruct H as [Hne Hg]. destruct (IH _ Hg) as [A1 A2].
    split; [rewrite Hne, A1; reflexivity|].
    intros w Hw. apply in_fv_q in Hw. destruct Hw as [Hw Hn]. apply A2, in_app_iff in Hw.
    destruct Hw as [Hw|Hw]; [apply in_rev in Hw; contradiction|exact Hw].
Qed.
Theorem closed_iff F : closed_formula F = true <-> bn F /\ free_variables F = [].
Proof.
  split.
  - intros H. destruct (closedb_fv F [] H) as [A B]. split; [exact A|].
    destruct (free_variables F) as [|w ws]; [reflexivity|]. destruct (B w (or_introl eq_refl)).
  - intros [A B]. apply closed_of_fv; assumption.
Qed.
Lemma closedb_weaken F : forall B B', incl B B' -> closedb B F = true -> closedb B' F = true.
Proof.
  intros B B' Hi H. destruct (closedb_fv F B H) as [A C]. apply closedb_of_fv; [exact A|].
  intros w Hw. apply Hi, C, Hw.
Qed.

(* ---------- cmps_nonempty = guards_ok ---------- *)
Definition gd (F : formula) : Prop := cmps_nonempty F = true.
Lemma gd_guards_ok F : gd F <-> guards_ok F.
Proof.
  unfold gd. induction F as [a|g IH|c l IHl r IHr|q vs g IH]; cbn [cmps_nonempty guards_ok].
  - destruct a as [| |p ts|t gs]; try tauto. destruct gs; cbn; split; congruence.
  - exact IH.
  - rewrite andb_true_iff. tauto.
  - exact IH.
Qed.
Lemma pi_gd F : parser_image F -> gd F.
Proof. intros [H _]. apply gd_guards_ok, H. Qed.
Lemma gd_not f : gd (FNot f) <-> gd f.
Proof. reflexivity. Qed.
Lemma gd_bin c l r : gd (FBin c l r) <-> gd l /\ gd r.
Proof. unfold gd. cbn. rewrite andb_true_iff. tauto. Qed.
Lemma gd_q q vs f : gd (FQ q vs f) <-> gd f.
Proof. reflexivity. Qed.
Lemma gd_quantify f q vs : gd (quantify f q vs) <-> gd f.
Proof. unfold quantify. destruct vs; [tauto|apply gd_q]. Qed.
Lemma gd_atom p ts : gd (FAtomic (AAtom p ts)).
Proof. reflexivity. Qed.

(* the class the emitted formulas must be in *)
Definition sent (F : formula) : Prop := closed_formula F = true /\ cmps_nonempty F = true.

(* ---------- gamma ---------- *)
Lemma prepend_closedb prefix f : forall B, closedb B (prepend_predicate f prefix) = closedb B f.
Proof.
  unfold prepend_predicate.
  induction f as [a|g IH|c l IHl r IHr|q vs g IH]; intros B; cbn [apply prepend_step closedb].
  - destruct a; reflexivity.
  - apply IH.
  - rewrite IHl, IHr. reflexivity.
  - rewrite IH. reflexivity.
Qed.
Lemma gamma_closedb f : forall B, closedb B (gamma f) = closedb B f.
Proof.
  induction f as [a|g IH|c l IHl r IHr|q vs g IH]; intros B; cbn [gamma closedb].
  - apply prepend_closedb.
  - apply prepend_closedb.
  - destruct c; cbn [closedb]; unfold there; rewrite ?prepend_closedb, IHl, IHr;
      destruct (closedb B l), (closedb B r); reflexivity.
  - rewrite IH. reflexivity.
Qed.
Lemma gamma_closed f : closed_formula f = true -> closed_formula (gamma f) = true.
Proof. unfold closed_formula. rewrite gamma_closedb. auto. Qed.

(* ---------- replace_placeholders ---------- *)
Lemma forallb_map_ext {A B} (f : B -> bool) (g : A -> B) (h : A -> bool) l :
  (forall x, f (g x) = h x) -> forallb f (map g l) = forallb h l.
Proof. intros H. induction l as [|x l IH]; cbn; [reflexivity|]. rewrite H, IH. reflexivity. Qed.
Lemma rp_gterm_closed m B t : gterm_closed B (rp_gterm m t) = gterm_closed B t.
Proof.
  destruct t as [| |c|x|a|[s|c|x]]; cbn [rp_gterm]; try reflexivity.
  destruct (ph_lookup m s) as [[| |]|]; reflexivity.
Qed.
Lemma rp_closedb m f : forall B, closedb B (rp_formula m f) = closedb B f.
Proof.
  induction f as [a|g IH|c l IHl r IHr|q vs g IH]; intros B; cbn [rp_formula closedb].
  - destruct a as [| |p ts|t gs]; cbn [rp_aformula aformula_closed]; try reflexivity.
    + apply forallb_map_ext. intros g. apply rp_gterm_closed.
    + rewrite rp_gterm_closed. f_equal. apply forallb_map_ext. intros g. cbn. apply rp_gterm_closed.
  - apply IH.
  - rewrite IHl, IHr. reflexivity.
  - rewrite IH. reflexivity.
Qed.
Lemma rp_closed m f : closed_formula (rp_formula m f) = closed_formula f.
Proof. apply rp_closedb. Qed.
Lemma rp_cmps m f : cmps_nonempty (rp_formula m f) = cmps_nonempty f.
Proof.
  induction f as [a|g IH|c l IHl r IHr|q vs g IH]; cbn [rp_formula cmps_nonempty]; auto.
  - destruct a as [| |p ts|t gs]; cbn; auto. rewrite map_length. reflexivity.
  - rewrite IHl, IHr. reflexivity.
Qed.
Lemma rp_sent m f : sent f -> sent (rp_formula m f).
Proof. intros [A B]. split; [rewrite rp_closed|rewrite rp_cmps]; assumption. Qed.

(* ---------- RenamePredicates ---------- *)
Lemma rename_predicates_closedb m f : forall B, closedb B (rename_predicates m f) = closedb B f.
Proof.
  induction f as [a|g IH|c l IHl r IHr|q vs g IH]; intros B; cbn [rename_predicates closedb].
  - destruct a as [| |p ts|t gs]; cbn [rn_aformula]; try reflexivity.
    destruct (rn_lookup m (mkpred p (List.length ts))); reflexivity.
  - apply IH.
  - rewrite IHl, IHr. reflexivity.
  - rewrite IH. reflexivity.
Qed.
Lemma rename_predicates_cmps m f : cmps_nonempty (rename_predicates m f) = cmps_nonempty f.
Proof.
  induction f as [a|g IH|c l IHl r IHr|q vs g IH]; cbn [rename_predicates cmps_nonempty]; auto.
  - destruct a as [| |p ts|t gs]; cbn [rn_aformula]; auto.
    destruct (rn_lookup m (mkpred p (List.length ts))); reflexivity.
  - rewrite IHl, IHr. reflexivity.
Qed.
Lemma rename_predicates_sent m f : sent f -> sent (rename_predicates m f).
Proof.
  intros [A B]. split; [unfold closed_formula; rewrite rename_predicates_closedb|rewrite rename_predicates_cmps]; assumption.
Qed.

(* ---------- break_equivalences ---------- *)
Lemma closedb_q_nonempty B q vs g : closedb B (FQ q vs g) = true -> vs <> [] /\ closedb (rev vs ++ B) g = true.
Proof.
  cbn [closedb]. rewrite andb_true_iff, negb_true_iff, Nat.eqb_neq. intros [A C]. split; [|exact C].
  intros ->. apply A. reflexivity.
Qed.
Lemma break_closedb f : forall B, closedb B f = true -> forall g, In g (break_equivalences_formula f) -> closedb B g = true.
Proof.
  induction f as [a|h IH|c l IHl r IHr|q vs h IH]; intros B H g;
    try (cbn [break_equivalences_formula]; intros [<-|[]]; exact H).
  - destruct c; try (cbn [break_equivalences_formula]; intros [<-|[]]; exact H).
    cbn [break_equivalences_formula]. intros [<-|[<-|[]]]; exact H.
  - destruct q; try (cbn [break_equivalences_formula]; intros [<-|[]]; exact H).
    cbn [break_equivalences_formula]. intros Hg. apply in_map_iff in Hg. destruct Hg as [h' [<- Hh']].
    destruct (closedb_q_nonempty _ _ _ _ H) as [Hne Hc].
    unfold quantify. destruct vs as [|v vs']; [congruence|].
    cbn [closedb]. cbn [List.length Nat.eqb negb andb]. apply (IH _ Hc h' Hh').
Qed.
Lemma break_cmps f : cmps_nonempty f = true -> forall g, In g (break_equivalences_formula f) -> cmps_nonempty g = true.
Proof.
  induction f as [a|h IH|c l IHl r IHr|q vs h IH]; intros H g;
    try (cbn [break_equivalences_formula]; intros [<-|[]]; exact H).
  - destruct c; try (cbn [break_equivalences_formula]; intros [<-|[]]; exact H).
    cbn [break_equivalences_formula]. intros [<-|[<-|[]]]; exact H.
  - destruct q; try (cbn [break_equivalences_formula]; intros [<-|[]]; exact H).
    cbn [break_equivalences_formula]. intros Hg. apply in_map_iff in Hg. destruct Hg as [h' [<- Hh']].
    apply gd_quantify. exact (IH H h' Hh').
Qed.
Lemma break_sent f : sent f -> forall g, In g (break_equivalences_formula f) -> sent g.
Proof. intros [A B] g Hg. split; [exact (break_closedb f [] A g Hg)|exact (break_cmps f B g Hg)]. Qed.
Lemma break_theory_sent th : (forall f, In f th -> sent f) -> forall g, In g (break_equivalences_theory th) -> sent g.
Proof.
  intros H g Hg. unfold break_equivalences_theory in Hg. apply in_flat_map in Hg.
  destruct Hg as [f [Hf Hg]]. exact (break_sent f (H f Hf) g Hg).
Qed.
Lemma annotate_from_formulas a : forall l i b, In b (annotate_from a i l) -> In (an_formula b) l.
Proof.
  induction l as [|f l IH]; intros i b; cbn [annotate_from]; [intros []|].
  intros [<-|H]; [left; reflexivity|right; exact (IH _ _ H)].
Qed.

(* ---------- quantify / universal_closure / join_nested_quantifiers (outline) ---------- *)
Lemma universal_closure_fv f : free_variables (universal_closure f) = [].
Proof.
  destruct (free_variables (universal_closure f)) as [|w ws] eqn:E; [reflexivity|exfalso].
  assert (Hw : In w (free_variables (universal_closure f))) by (rewrite E; left; reflexivity).
  unfold universal_closure in Hw. apply in_fv_quantify in Hw. tauto.
Qed.
Lemma universal_closure_closed f : bn f -> closed_formula (universal_closure f) = true.
Proof. intros H. apply closed_iff. split; [apply bn_quantify, H|apply universal_closure_fv]. Qed.
Lemma universal_closure_sent f : bn f -> gd f -> sent (universal_closure f).
Proof. intros A B. split; [apply universal_closure_closed, A|apply gd_quantify, B]. Qed.

Lemma ovar_insert_in v l w : In w (Outline.var_insert v l) -> w = v \/ In w l.
Proof.
  induction l as [|x l IH]; cbn [Outline.var_insert]; [intros [<-|[]]; auto|].
  destruct (Outline.var_leb v x); cbn [In]; [intros [<-|[<-|H]]; auto|intros [<-|H]; auto].
  destruct (IH H); auto.
Qed.
Lemma ovar_insert_in' v l w : w = v \/ In w l -> In w (Outline.var_insert v l).
Proof.
  induction l as [|x l IH]; cbn [Outline.var_insert]; [intros [->|[]]; left; reflexivity|].
  destruct (Outline.var_leb v x); cbn [In]; [intros [->|[->|H]]; auto|intros [->|[->|H]]; auto].
Qed.
Lemma ovar_sort_in l w : In w (Outline.var_sort l) <-> In w l.
Proof.
  induction l as [|x l IH]; cbn [Outline.var_sort fold_right]; [tauto|]. split.
  - intros H. apply ovar_insert_in in H. destruct H as [->|H]; [left; reflexivity|right; apply IH, H].
  - intros [<-|H]; apply ovar_insert_in'; [left; reflexivity|right; apply IH, H].
Qed.
Lemma ovar_dedup_in l w : In w (Outline.var_dedup l) <-> In w l.
Proof.
  induction l as [|x l IH]; [tauto|]. cbn [Outline.var_dedup]. destruct l as [|y l'].
  - tauto.
  - destruct (var_eqb_spec x y) as [->|Hne].
    + rewrite IH. cbn [In]. tauto.
    + cbn [In] in *. rewrite IH. tauto.
Qed.
Lemma join_nested_fv f w : In w (free_variables (Outline.join_nested_quantifiers f)) -> In w (free_variables f).
Proof.
  destruct f as [a|g|c l r|q vs g]; try (cbn; tauto).
  destruct g as [a|g|c l r|q' vs' g]; try (cbn [Outline.join_nested_quantifiers]; tauto).
  cbn [Outline.join_nested_quantifiers]. destruct (Outline.quant_eqb q q'); [|tauto].
  intros H. apply in_fv_quantify in H. destruct H as [H1 H2].
  apply in_fv_q. split; [apply in_fv_q; split; [exact H1|]|];
    intros Hin; apply H2, ovar_dedup_in, ovar_sort_in, in_app_iff; auto.
Qed.
Lemma join_nested_bn f : bn f -> bn (Outline.join_nested_quantifiers f).
Proof.
  intros H. destruct f as [a|g|c l r|q vs g]; try exact H.
  destruct g as [a|g|c l r|q' vs' g]; try exact H.
  cbn [Outline.join_nested_quantifiers]. destruct (Outline.quant_eqb q q'); [|exact H].
  apply bn_q in H. destruct H as [_ H]. apply bn_q in H. apply bn_quantify. tauto.
Qed.
Lemma join_nested_gd f : gd f -> gd (Outline.join_nested_quantifiers f).
Proof.
  intros H. destruct f as [a|g|c l r|q vs g]; try exact H.
  destruct g as [a|g|c l r|q' vs' g]; try exact H.
  cbn [Outline.join_nested_quantifiers]. destruct (Outline.quant_eqb q q'); [|exact H].
  apply gd_quantify. exact H.
Qed.
Lemma ucj_sent f : bn f -> gd f -> sent (universal_closure_with_quantifier_joining f).
Proof.
  intros A B. unfold universal_closure_with_quantifier_joining. split.
  - apply closed_iff. split; [apply join_nested_bn, bn_quantify, A|].
    destruct (free_variables (Outline.join_nested_quantifiers (universal_closure f))) as [|w ws] eqn:E; [reflexivity|exfalso].
    assert (Hw : In w (free_variables (Outline.join_nested_quantifiers (universal_closure f)))) by (rewrite E; left; reflexivity).
    apply join_nested_fv in Hw. rewrite universal_closure_fv in Hw. destruct Hw.
  - apply join_nested_gd, gd_quantify, B.
Qed.

(* ---------- Formula::substitute keeps the guards ---------- *)
Section RenameBlockGd.
Variable sub : formula -> var -> gterm -> option formula.
Variables tvs avoid0 : list var.
Hypothesis Hsub : forall f v t f1, sub f v t = Some f1 -> gd f -> gd f1.
Lemma rb_gd : forall vs f ch f' o, rename_block sub tvs avoid0 vs f ch = Some (f', o) -> gd f -> gd f'.
Proof.
  induction vs as [|v vs IH]; intros f ch f' o EQ Hf.
  - cbn in EQ. inversion EQ; subst. exact Hf.
  - apply (rb_cons_inv sub tvs avoid0) in EQ.
    destruct EQ as [[_ [f1 [o1 [E1 [E2 ->]]]]]|[_ [o1 [E2 ->]]]].
    + exact (IH _ _ _ _ E2 (Hsub _ _ _ _ E1 Hf)).
    + exact (IH _ _ _ _ E2 Hf).
Qed.
End RenameBlockGd.
Lemma subst_fuel_gd n : forall F x t G, subst_fuel n F x t = Some G -> gd F -> gd G.
Proof.
  induction n as [|n IH]; intros F x t G E HF; [cbn in E; inversion E; subst; exact HF|].
  destruct F as [a|f|c l r|q vs f].
  - apply subst_atomic_inv in E. destruct E as [a' [Ea ->]]. apply gd_guards_ok.
    apply (asubst_guards a x t a' Ea). apply gd_guards_ok, HF.
  - apply subst_not_inv in E. destruct E as [f' [E ->]]. apply gd_not. apply gd_not in HF. eauto.
  - apply subst_bin_inv in E. destruct E as [l' [r' [El [Er ->]]]]. apply gd_bin in HF. apply gd_bin.
    split; [eapply IH; [exact El|tauto]|eapply IH; [exact Er|tauto]].
  - apply subst_q_inv in E. destruct E as [[_ ->]|[_ [f' [vs' [f'' [E1 [E2 ->]]]]]]]; [exact HF|].
    apply gd_q in HF. pose proof (rb_gd (subst_fuel n) _ _ (fun f0 v t0 f1 => IH f0 v t0 f1) _ _ _ _ _ E1 HF) as Hf'.
    apply gd_quantify. exact (IH _ _ _ _ E2 Hf').
Qed.
Theorem substitute_gd F x t G : substitute F x t = Some G -> gd F -> gd G.
Proof. apply subst_fuel_gd. Qed.

(* ---------- the transition axioms of strong equivalence ---------- *)
Lemma prepend_fv prefix f : free_variables (prepend_predicate f prefix) = free_variables f.
Proof.
  unfold prepend_predicate.
  induction f as [a|g IH|c l IHl r IHr|q vs g IH]; cbn [apply prepend_step free_variables].
  - destruct a; reflexivity.
  - apply IH.
  - rewrite IHl, IHr. reflexivity.
  - rewrite IH. reflexivity.
Qed.
Lemma transition_sent p : sent (transition p).
Proof.
  unfold transition. split.
  - apply closed_iff. split; [apply bn_quantify; reflexivity|].
    match goal with |- ?l = [] => destruct l as [|w ws] eqn:E; [reflexivity|exfalso] end.
    match type of E with ?l = _ => assert (Hw : In w l) by (rewrite E; left; reflexivity) end.
    apply in_fv_quantify in Hw. destruct Hw as [Hw Hn]. apply Hn.
    apply in_fv_bin in Hw. unfold here, there in *. rewrite !prepend_fv in *. tauto.
  - apply gd_quantify. reflexivity.
Qed.
