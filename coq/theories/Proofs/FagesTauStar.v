(* The bridge between the tau* model (Model/TauStar.v, proofs TauStar*.v) and the completion
   cluster's vocabulary (CompletionShape.strip / definition_of / constraint_formula,
   FagesBridge.rule_formula / represents):

     tau_star P = Some G -> represents FI G P

   and, from it, the closed statement C04_fages and the completability of every tau*-theory.
   Nothing new is proved about tau* here: the ingredients are TauStarClassical.fo_body_classical /
   choice_guard_classical / body_classical (classical reading of the body part),
   TauStarRule.constraint_ok (constraints), TauStarClosed.tau_star_rule_closed (closedness),
   TauStarClassical.tau_star_predicates (vocabulary) and TauStarProgram.globals_fresh. *)
From Coq Require Import List Ascii String ZArith Bool Lia FinFun.
From Anthem Require Import Base.ISet Syntax.Fol Syntax.Asp Sem.Domain Sem.Sat Sem.AspRef
  Model.FreshNames Model.TauStar Model.Completion Model.Tightness
  Proofs.TauStarBase Proofs.TauStarBody Proofs.TauStarRule Proofs.TauStarProgram Proofs.TauStarClosed
  Proofs.TauStarClassical
  Proofs.EnvFacts Proofs.CompletionShape Proofs.CompletionOk Proofs.FagesBridge.
Import ListNotations.
Open Scope string_scope.
Open Scope list_scope.

(* ---------- small facts about the head variables ---------- *)
Lemma var_to_gterm_gvars xs : map var_to_gterm (map gvar xs) = map (fun x => GVar x) xs.
Proof. rewrite map_map. apply map_ext. intros x. reflexivity. Qed.
Lemma nodup_gvars xs : NoDup xs -> NoDup (map gvar xs).
Proof. intros H. apply Injective_map_NoDup; [intros x y [=]; auto|exact H]. Qed.
Lemma general_vars_gvars xs : general_vars (map gvar xs).
Proof. apply Forall_forall. intros v Hv. apply in_map_iff in Hv. destruct Hv as [x [<- _]]. reflexivity. Qed.

Lemma cvalid_hvalid FI T f : cvalid FI T f <-> hvalid FI T T f.
Proof. unfold cvalid, hvalid. split; intros H e; apply hsat_total; apply H. Qed.

Lemma strip_closure xs imp :
  (forall q vs g, imp <> FQ q vs g) ->
  strip (match sort_vars (map gvar xs) with [] => imp | vs => FQ QForall vs imp end) = imp.
Proof.
  intros Hn. destruct (sort_vars (map gvar xs)); [|reflexivity].
  destruct imp as [| | |q vs g]; try reflexivity. exfalso. eapply Hn. reflexivity.
Qed.

Lemma head_atom_cases r a : head_atom (rhead r) = Some a -> rhead r = HBasic a \/ rhead r = HChoice a.
Proof. destruct (rhead r) as [b|b|]; cbn; intros [=]; subst; auto. Qed.

(* ---------- one rule ---------- *)
Section OneRule.
Variable FI : fint.
Variable r : rule.
Variable globals : list string.
Variable f : formula.
Hypothesis Hts : tau_star_rule r globals = Some f.
Hypothesis Hfresh : fresh_globals r globals.

Lemma f_closed : free_variables f = [].
Proof. eapply tau_star_rule_closed; eauto. Qed.

(* constraints *)
Lemma constraint_rule_shape : rhead r = HFalsity -> f = tau_star_constraint_rule r /\ constraint_formula f.
Proof.
  intros Hh. pose proof f_closed as Hc. unfold tau_star_rule in Hts. rewrite Hh in Hts. cbn in Hts.
  injection Hts as <-. split; [reflexivity|].
  split; [exact Hc|]. exists (tau_body (rbody r)). unfold tau_star_constraint_rule.
  rewrite strip_closure by (intros; discriminate). left. reflexivity.
Qed.
Lemma constraint_rule_formula : rhead r = HFalsity ->
  constraint_formula f /\ forall T, cvalid FI T f <-> forall sg, ~ body_sat T T sg (rbody r).
Proof.
  intros Hh. destruct (constraint_rule_shape Hh) as [-> Hk]. split; [exact Hk|].
  intros T. rewrite cvalid_hvalid, (constraint_ok FI T T r Hh). unfold ref_rule_sat.
  rewrite Hh. cbn [head_sat]. split.
  - intros H sg Hb. exact (proj1 (H sg) Hb).
  - intros H sg. split; intros Hb; exact (H sg Hb).
Qed.

(* heads with arguments: the formula, its body and head variables *)
Lemma fo_rule_shape a : head_atom (rhead r) = Some a -> 0 < List.length (aterms a) ->
  let fvars := firstn (List.length (aterms a)) globals in
  let core := FBin CAnd (valtz (aterms a) (map gvar fvars)) (tau_body (rbody r)) in
  let hd := FAtomic (AAtom (apred a) (map (fun x => GVar x) fvars)) in
  let F := if is_choice (rhead r) then FBin CAnd core (FNot (FNot hd)) else core in
  definition_of f F (apred a) (map gvar fvars) /\
  List.length (map gvar fvars) = List.length (aterms a) /\
  map gvar fvars = firstn (List.length (map gvar fvars)) (map gvar globals).
Proof.
  intros Ha Hpos fvars core hd F. pose proof f_closed as Hc.
  assert (Har : head_arity (rhead r) = List.length (aterms a)).
  { destruct (head_atom_cases r a Ha) as [E|E]; rewrite E; reflexivity. }
  destruct Hfresh as [Hlen [Hnd _]]. rewrite Har in Hlen, Hnd. fold fvars in Hnd.
  assert (Hfl : List.length fvars = List.length (aterms a)) by (unfold fvars; rewrite firstn_length; lia).
  unfold tau_star_rule in Hts.
  assert (Hp : head_pred (rhead r) = Some (atom_pred a)).
  { destruct (head_atom_cases r a Ha) as [E|E]; rewrite E; reflexivity. }
  rewrite Hp, Har in Hts. apply Nat.ltb_lt in Hpos. rewrite Hpos in Hts.
  unfold tau_star_fo_head_rule in Hts. rewrite Ha in Hts.
  destruct (Nat.ltb_spec (List.length globals) (List.length (aterms a))) as [Hlt|_]; [lia|].
  injection Hts as <-. split; [|split].
  - split; [exact Hc|]. split.
    + cbn [strip]. left. rewrite var_to_gterm_gvars. reflexivity.
    + apply nodup_gvars. exact Hnd.
  - rewrite map_length. exact Hfl.
  - rewrite map_length, Hfl. unfold fvars. symmetry. apply firstn_map.
Qed.

Lemma fo_rule_sem a : head_atom (rhead r) = Some a ->
  let fvars := firstn (List.length (aterms a)) globals in
  let core := FBin CAnd (valtz (aterms a) (map gvar fvars)) (tau_body (rbody r)) in
  let hd := FAtomic (AAtom (apred a) (map (fun x => GVar x) fvars)) in
  forall T d,
  ((exists e, map (getv e) (map gvar fvars) = d /\ csat FI T e core) <->
   (exists sg, tuple_vals sg (aterms a) d /\ body_sat T T sg (rbody r))) /\
  ((exists e, map (getv e) (map gvar fvars) = d /\ csat FI T e (FBin CAnd core (FNot (FNot hd)))) <->
   (exists sg, tuple_vals sg (aterms a) d /\ body_sat T T sg (rbody r) /\ ~ ~ T (apred a) d)).
Proof.
  intros Ha fvars core hd T d.
  pose proof (fo_body_classical FI T r a globals Ha Hfresh d) as Hb. cbv zeta in Hb.
  fold fvars in Hb. fold core in Hb. split; [exact Hb|].
  split.
  - intros [e [Ed [Hc Hn]]]. apply (choice_guard_classical FI T e (apred a) fvars) in Hn. rewrite Ed in Hn.
    destruct (proj1 Hb (ex_intro _ e (conj Ed Hc))) as [sg [Hv Hs]]. exists sg. auto.
  - intros [sg [Hv [Hs Hn]]]. destruct (proj2 Hb (ex_intro _ sg (conj Hv Hs))) as [e [Ed Hc]].
    exists e. split; [exact Ed|]. split; [exact Hc|].
    apply (choice_guard_classical FI T e (apred a) fvars). rewrite Ed. exact Hn.
Qed.

(* propositional heads *)
Lemma prop_rule_shape a : head_atom (rhead r) = Some a -> aterms a = [] ->
  let hd := FAtomic (AAtom (apred a) []) in
  let F := if is_choice (rhead r) then FBin CAnd (tau_body (rbody r)) (FNot (FNot hd)) else tau_body (rbody r) in
  definition_of f F (apred a) [].
Proof.
  intros Ha Hn hd F. pose proof f_closed as Hc.
  assert (Hp : head_pred (rhead r) = Some (atom_pred a)).
  { destruct (head_atom_cases r a Ha) as [E|E]; rewrite E; reflexivity. }
  assert (Har : head_arity (rhead r) = 0).
  { destruct (head_atom_cases r a Ha) as [E|E]; rewrite E; cbn; rewrite Hn; reflexivity. }
  unfold tau_star_rule in Hts. rewrite Hp, Har in Hts. cbn in Hts.
  unfold tau_star_prop_head_rule in Hts. rewrite Ha in Hts. injection Hts as <-.
  split; [exact Hc|]. split; [|constructor].
  rewrite strip_closure by (intros; discriminate). left. reflexivity.
Qed.

Lemma prop_rule_sem T d :
  ((exists e, map (getv e) [] = d /\ csat FI T e (tau_body (rbody r))) <->
   (exists sg, tuple_vals sg [] d /\ body_sat T T sg (rbody r))) /\
  forall p,
  ((exists e, map (getv e) [] = d /\ csat FI T e (FBin CAnd (tau_body (rbody r)) (FNot (FNot (FAtomic (AAtom p [])))))) <->
   (exists sg, tuple_vals sg [] d /\ body_sat T T sg (rbody r) /\ ~ ~ T p d)).
Proof.
  pose proof (body_classical FI T (rbody r)) as Hb. split; [|intros p]; split.
  - intros [e [Ed Hc]]. destruct (proj1 Hb (ex_intro _ e Hc)) as [sg Hs]. exists sg.
    split; [apply tuple_vals_nil; symmetry; exact Ed|exact Hs].
  - intros [sg [Hv Hs]]. apply tuple_vals_nil in Hv. destruct (proj2 Hb (ex_intro _ sg Hs)) as [e Hc].
    exists e. split; [symmetry; exact Hv|exact Hc].
  - intros [e [Ed [Hc Hn]]]. destruct (proj1 Hb (ex_intro _ e Hc)) as [sg Hs]. exists sg.
    split; [apply tuple_vals_nil; symmetry; exact Ed|]. split; [exact Hs|]. cbn in Ed, Hn. subst d. exact Hn.
  - intros [sg [Hv [Hs Hn]]]. apply tuple_vals_nil in Hv. destruct (proj2 Hb (ex_intro _ sg Hs)) as [e Hc].
    exists e. split; [symmetry; exact Hv|]. split; [exact Hc|]. subst d. exact Hn.
Qed.

(* the formula of a rule is its constraint / definition in the sense of the completion cluster *)
Theorem tau_star_rule_formula : rule_formula FI r f.
Proof.
  unfold rule_formula. destruct (rhead r) as [a|a|] eqn:Eh.
  - (* basic *)
    assert (Ha : head_atom (rhead r) = Some a) by (rewrite Eh; reflexivity).
    destruct (aterms a) as [|t ts] eqn:Et.
    + pose proof (prop_rule_shape a Ha Et) as HD. cbv zeta in HD. rewrite Eh in HD. cbn [is_choice] in HD.
      exists (tau_body (rbody r)), []. split; [exact HD|]. split; [reflexivity|]. split; [constructor|].
      intros T d. exact (proj1 (prop_rule_sem T d)).
    + assert (Hpos : 0 < List.length (aterms a)) by (rewrite Et; cbn; lia).
      pose proof (fo_rule_shape a Ha Hpos) as HS. cbv zeta in HS. rewrite Eh in HS. cbn [is_choice] in HS.
      destruct HS as [HD [Hl _]]. rewrite Et in HD, Hl.
      eexists _, _. split; [exact HD|]. split; [exact Hl|]. split; [apply general_vars_gvars|].
      intros T d. pose proof (fo_rule_sem a Ha T d) as X. cbv zeta in X. rewrite Et in X. exact (proj1 X).
  - (* choice *)
    assert (Ha : head_atom (rhead r) = Some a) by (rewrite Eh; reflexivity).
    destruct (aterms a) as [|t ts] eqn:Et.
    + pose proof (prop_rule_shape a Ha Et) as HD. cbv zeta in HD. rewrite Eh in HD. cbn [is_choice] in HD.
      eexists _, []. split; [exact HD|]. split; [reflexivity|]. split; [constructor|].
      intros T d. exact (proj2 (prop_rule_sem T d) (apred a)).
    + assert (Hpos : 0 < List.length (aterms a)) by (rewrite Et; cbn; lia).
      pose proof (fo_rule_shape a Ha Hpos) as HS. cbv zeta in HS. rewrite Eh in HS. cbn [is_choice] in HS.
      destruct HS as [HD [Hl _]]. rewrite Et in HD, Hl.
      eexists _, _. split; [exact HD|]. split; [exact Hl|]. split; [apply general_vars_gvars|].
      intros T d. pose proof (fo_rule_sem a Ha T d) as X. cbv zeta in X. rewrite Et in X. exact (proj2 X).
  - exact (constraint_rule_formula Eh).
Qed.

(* the shape completable_uniform_heads asks for *)
Theorem tau_star_rule_uniform :
  constraint_formula f \/
  exists F p V, definition_of f F p V /\ V = firstn (List.length V) (map gvar globals).
Proof.
  destruct (rhead r) as [a|a|] eqn:Eh.
  - right. assert (Ha : head_atom (rhead r) = Some a) by (rewrite Eh; reflexivity).
    destruct (aterms a) as [|t ts] eqn:Et.
    + pose proof (prop_rule_shape a Ha Et) as HD. cbv zeta in HD. eexists _, _, []. split; [exact HD|reflexivity].
    + assert (Hpos : 0 < List.length (aterms a)) by (rewrite Et; cbn; lia).
      pose proof (fo_rule_shape a Ha Hpos) as HS. cbv zeta in HS. destruct HS as [HD [_ HV]].
      eexists _, _, _. split; [exact HD|exact HV].
  - right. assert (Ha : head_atom (rhead r) = Some a) by (rewrite Eh; reflexivity).
    destruct (aterms a) as [|t ts] eqn:Et.
    + pose proof (prop_rule_shape a Ha Et) as HD. cbv zeta in HD. eexists _, _, []. split; [exact HD|reflexivity].
    + assert (Hpos : 0 < List.length (aterms a)) by (rewrite Et; cbn; lia).
      pose proof (fo_rule_shape a Ha Hpos) as HS. cbv zeta in HS. destruct HS as [HD [_ HV]].
      eexists _, _, _. split; [exact HD|exact HV].
  - left. exact (proj2 (constraint_rule_shape Eh)).
Qed.
End OneRule.

(* ---------- programs ---------- *)
Lemma forall2_in_both {A B} (R S : A -> B -> Prop) l m :
  Forall2 R l m -> (forall x y, In x l -> R x y -> S x y) -> Forall2 S l m.
Proof.
  intros H. induction H as [|x y l m Hxy H IH]; intros K; constructor.
  - apply K; [left; reflexivity|exact Hxy].
  - apply IH. intros x' y' Hx'. apply K. right; exact Hx'.
Qed.

(* THE BRIDGE *)
Theorem tau_star_represents (FI : fint) (P : program) (G : theory) :
  tau_star P = Some G -> represents FI G P.
Proof.
  intros Hts. split; [|intros p; apply tau_star_predicates; exact Hts].
  unfold tau_star in Hts. destruct (choose_fresh_global_variables P) as [globals|] eqn:Eg; [|discriminate].
  apply map_opt_forall2 in Hts. apply (forall2_in_both _ _ _ _ Hts).
  intros r f Hr Hrf. apply (tau_star_rule_formula FI r globals f Hrf). exact (globals_fresh P globals Eg r Hr).
Qed.

Theorem tau_star_completable (P : program) (G : theory) :
  tau_star P = Some G -> completable G.
Proof.
  intros Hts.
  unfold tau_star in Hts. destruct (choose_fresh_global_variables P) as [globals|] eqn:Eg; [|discriminate].
  apply map_opt_forall2 in Hts. apply (completable_uniform_heads G (map gvar globals)).
  intros f Hf. destruct (forall2_in_r _ _ _ _ Hts Hf) as [r [Hr Hrf]].
  exact (tau_star_rule_uniform r globals f Hrf (globals_fresh P globals Eg r Hr)).
Qed.

Theorem C04_tau_star_completable_proof (P : program) (G : theory) (ins : list pred) :
  tau_star P = Some G -> exists D, completion G ins = Some D.
Proof. intros Hts. apply C04_shape_proof. eapply tau_star_completable; eauto. Qed.

(* C04_fages, closed *)
Theorem C04_fages_proof (P : program) (ins : list pred) (G D : theory) (FI : fint) (T : pint) :
  is_tight P = true ->
  (forall r h, In r P -> head_pred (rhead r) = Some h -> ~ In h ins) ->
  (forall p d, T p d -> In (mkpred p (List.length d)) (program_preds P) \/ In (mkpred p (List.length d)) ins) ->
  tau_star P = Some G ->
  completion G ins = Some D ->
  ((forall f, In f D -> cvalid FI T f) <-> stable T P (input_facts T ins)).
Proof.
  intros Ht Hins Hvoc Hts Hc.
  exact (C04_fages_partial_proof P G ins D FI T (tau_star_represents FI P G Hts) Ht Hins Hc Hvoc).
Qed.
