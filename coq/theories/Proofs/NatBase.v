(* Generic facts about satisfaction used by the proofs of C08 (natural translation):
   extensionality of csat/hsat in the assignment, universal closure, conjoin, blocks of
   integer-sorted universal quantifiers. *)
From Coq Require Import List Ascii String ZArith Bool Lia.
From Anthem Require Import Base.ISet Syntax.Fol Sem.Domain Sem.Sat.
Import ListNotations.
Open Scope string_scope.
Open Scope list_scope.

(* ---------- pointwise equality of assignments ---------- *)
Definition env_eq (e e' : env) : Prop :=
  (forall x, eg e x = eg e' x) /\ (forall x, ei e x = ei e' x) /\ (forall x, es e x = es e' x).
Lemma env_eq_refl e : env_eq e e.
Proof. repeat split. Qed.
Lemma env_eq_sym e e' : env_eq e e' -> env_eq e' e.
Proof. intros [A [B C]]; repeat split; intros; symmetry; auto. Qed.

Lemma upd_ext e e' v d : env_eq e e' -> env_eq (upd e v d) (upd e' v d).
Proof.
  intros [A [B C]]. unfold upd. destruct (vsort v); destruct d; cbn; repeat split; cbn; intros;
    try destruct (String.eqb x (vname v)); auto.
Qed.

Section Ext.
Variable FI : fint.

Lemma ev_i_ext e e' t : env_eq e e' -> ev_i FI e t = ev_i FI e' t.
Proof.
  intros [A [B C]]. induction t as [z|c|x|o t IH|o l IHl r IHr]; cbn; auto.
  - destruct o. rewrite IH; reflexivity.
  - destruct o; rewrite IHl, IHr; reflexivity.
Qed.
Lemma ev_s_ext e e' t : env_eq e e' -> ev_s FI e t = ev_s FI e' t.
Proof. intros [A [B C]]. destruct t; cbn; auto. Qed.
Lemma ev_g_ext e e' t : env_eq e e' -> ev_g FI e t = ev_g FI e' t.
Proof.
  intros E. destruct t; cbn; auto.
  - destruct E as [A _]; auto.
  - rewrite (ev_i_ext e e'); auto.
  - rewrite (ev_s_ext e e'); auto.
Qed.
Lemma chain_sat_ext e e' gs : env_eq e e' -> forall l, chain_sat FI e l gs = chain_sat FI e' l gs.
Proof.
  intros E. induction gs as [|g gs IH]; intros l; cbn; auto.
  rewrite (ev_g_ext e e' _ E), IH. reflexivity.
Qed.
Lemma asat_ext I e e' a : env_eq e e' -> (asat FI I e a <-> asat FI I e' a).
Proof.
  intros E. destruct a; cbn; try tauto.
  - rewrite (map_ext _ _ (fun t => ev_g_ext e e' t E)). tauto.
  - rewrite (ev_g_ext e e' _ E), (chain_sat_ext e e' _ E). tauto.
Qed.

Lemma qsat_ext q vs (k1 k2 : env -> Prop) :
  (forall e e', env_eq e e' -> (k1 e <-> k2 e')) ->
  forall e e', env_eq e e' -> (qsat q vs k1 e <-> qsat q vs k2 e').
Proof.
  intros Hk. induction vs as [|v vs IH]; intros e e' E; cbn; [apply Hk; auto|].
  destruct q.
  - split; intros Hq d Hd; [apply (IH (upd e v d))|apply (IH (upd e v d) (upd e' v d))]; auto using upd_ext.
  - split; intros [d [Hd Hq]]; exists d; split; auto;
      [apply (IH (upd e v d))|apply (IH (upd e v d) (upd e' v d))]; auto using upd_ext.
Qed.

Lemma csat_ext I f : forall e e', env_eq e e' -> (csat FI I e f <-> csat FI I e' f).
Proof.
  induction f as [a|f IH|c l IHl r IHr|q vs f IH]; intros e e' E; cbn.
  - apply asat_ext; auto.
  - rewrite (IH e e' E). tauto.
  - destruct c; rewrite (IHl e e' E), (IHr e e' E); tauto.
  - apply qsat_ext; auto.
Qed.
Lemma hsat_ext H T f : forall e e', env_eq e e' -> (hsat FI H T e f <-> hsat FI H T e' f).
Proof.
  induction f as [a|f IH|c l IHl r IHr|q vs f IH]; intros e e' E; cbn.
  - apply asat_ext; auto.
  - rewrite (csat_ext T f e e' E). tauto.
  - pose proof (csat_ext T l e e' E); pose proof (csat_ext T r e e' E).
    destruct c; rewrite (IHl e e' E), (IHr e e' E); tauto.
  - apply qsat_ext; auto.
Qed.

(* ---------- universal closure ---------- *)
Lemma getv_in_sort e v : in_sort (vsort v) (getv e v).
Proof. unfold getv. destruct (vsort v); cbn; auto. Qed.
Lemma upd_getv e v : env_eq (upd e v (getv e v)) e.
Proof.
  unfold upd, getv. destruct (vsort v); cbn; repeat split; cbn; intros x;
    destruct (String.eqb_spec x (vname v)); subst; auto.
Qed.

Lemma forall_block (k : env -> Prop) vs :
  (forall e e', env_eq e e' -> (k e <-> k e')) ->
  ((forall e, qsat QForall vs k e) <-> (forall e, k e)).
Proof.
  intros Hk. induction vs as [|v vs IH]; cbn; [tauto|].
  rewrite <- IH. split.
  - intros Hq e. specialize (Hq e (getv e v) (getv_in_sort e v)).
    revert Hq. apply (qsat_ext QForall vs k k Hk). apply env_eq_sym, upd_getv.
  - intros Hq e d Hd. apply Hq.
Qed.

Lemma hvalid_universal_closure H T f :
  hvalid FI H T (universal_closure f) <-> hvalid FI H T f.
Proof.
  unfold hvalid, universal_closure, quantify.
  destruct (free_variables f) as [|v vs]; [tauto|].
  cbn [hsat]. apply (forall_block (fun e => hsat FI H T e f) (v :: vs)).
  intros e e' E. apply hsat_ext; auto.
Qed.
Lemma cvalid_universal_closure I f :
  cvalid FI I (universal_closure f) <-> cvalid FI I f.
Proof.
  unfold cvalid, universal_closure, quantify.
  destruct (free_variables f) as [|v vs]; [tauto|].
  cbn [csat]. apply (forall_block (fun e => csat FI I e f) (v :: vs)).
  intros e e' E. apply csat_ext; auto.
Qed.

(* ---------- conjoin ---------- *)
Lemma hsat_fold_and H T e xs : forall acc,
  hsat FI H T e (fold_left (fun a x => FBin CAnd a x) xs acc) <->
  hsat FI H T e acc /\ Forall (hsat FI H T e) xs.
Proof.
  induction xs as [|x xs IH]; intros acc; cbn [fold_left].
  - split; [intros; split; auto|tauto].
  - rewrite IH. cbn [hsat]. split.
    + intros [[A B] C]; split; auto.
    + intros [A C]. inversion C; subst. tauto.
Qed.
Lemma hsat_conjoin H T e l : hsat FI H T e (conjoin l) <-> Forall (hsat FI H T e) l.
Proof.
  unfold conjoin, reduce_bin. destruct l as [|x xs].
  - cbn. split; auto.
  - rewrite hsat_fold_and. split; [intros [A B]; constructor; auto|intros C; inversion C; auto].
Qed.
Lemma csat_fold_and I e xs : forall acc,
  csat FI I e (fold_left (fun a x => FBin CAnd a x) xs acc) <->
  csat FI I e acc /\ Forall (csat FI I e) xs.
Proof.
  induction xs as [|x xs IH]; intros acc; cbn [fold_left].
  - split; [intros; split; auto|tauto].
  - rewrite IH. cbn [csat]. split.
    + intros [[A B] C]; split; auto.
    + intros [A C]. inversion C; subst. tauto.
Qed.
Lemma csat_conjoin I e l : csat FI I e (conjoin l) <-> Forall (csat FI I e) l.
Proof.
  unfold conjoin, reduce_bin. destruct l as [|x xs].
  - cbn. split; auto.
  - rewrite csat_fold_and. split; [intros [A B]; constructor; auto|intros C; inversion C; auto].
Qed.

(* ---------- a block of integer-sorted universal quantifiers ---------- *)
Fixpoint upd_ints (e : env) (xs : list string) (zs : list Z) : env :=
  match xs, zs with
  | x :: xs', z :: zs' => upd_ints (upd e (mkvar x SInteger) (VNum z)) xs' zs'
  | _, _ => e
  end.

Lemma qsat_forall_ints (k : env -> Prop) xs : forall e,
  qsat QForall (map (fun x => mkvar x SInteger) xs) k e <->
  (forall zs, List.length zs = List.length xs -> k (upd_ints e xs zs)).
Proof.
  induction xs as [|x xs IH]; intros e; cbn [map qsat].
  - split; [intros Hk [|z zs] L; cbn; auto; discriminate|intros Hk; apply (Hk []); reflexivity].
  - split.
    + intros Hq [|z zs] L; [discriminate|]. cbn [upd_ints].
      apply IH; [apply Hq; cbn; auto|]. cbn in L; lia.
    + intros Hk d Hd. cbn in Hd. destruct d; try contradiction.
      apply IH. intros zs L. apply (Hk (z :: zs)). cbn; lia.
Qed.

Lemma upd_ints_eg e xs : forall zs y, eg (upd_ints e xs zs) y = eg e y.
Proof.
  revert e; induction xs as [|x xs IH]; intros e [|z zs] y; cbn [upd_ints]; auto.
  rewrite IH. reflexivity.
Qed.
Lemma upd_ints_es e xs : forall zs y, es (upd_ints e xs zs) y = es e y.
Proof.
  revert e; induction xs as [|x xs IH]; intros e [|z zs] y; cbn [upd_ints]; auto.
  rewrite IH. reflexivity.
Qed.
Lemma upd_ints_ei_other e xs : forall zs y, ~ In y xs -> ei (upd_ints e xs zs) y = ei e y.
Proof.
  revert e; induction xs as [|x xs IH]; intros e [|z zs] y Hy; cbn [upd_ints]; auto.
  rewrite IH by (cbn in Hy; tauto). cbn.
  destruct (String.eqb_spec y x); [subst; cbn in Hy; tauto|reflexivity].
Qed.
Lemma upd_ints_ei_map e xs : forall zs, NoDup xs -> List.length zs = List.length xs ->
  map (ei (upd_ints e xs zs)) xs = zs.
Proof.
  revert e; induction xs as [|x xs IH]; intros e [|z zs] ND L; cbn in L; try discriminate; auto.
  inversion ND; subst. cbn [upd_ints map]. f_equal.
  - rewrite upd_ints_ei_other by auto. cbn. rewrite String.eqb_refl. reflexivity.
  - apply IH; auto.
Qed.
End Ext.
