(* Layer (d) of C02: uniqueness of the private extension.

   For a program without private recursion (PrivRec.has_private_recursion = false: no choice rule
   with a private head, no cycle among the private predicates through bodies of any sign), two
   interpretations that agree on the non-private predicates and in which every private predicate
   holds exactly on the tuples supported by one of its rules (= the reading of the completed
   definitions of the private predicates, C04_clark + FagesBridge.support_iff) agree on the
   private predicates as well: well-founded induction on the rank that the acyclicity test
   certifies (TightnessOk.topo_order_rank).
   Consequence at the level of behaviour: for a tight program, an external stable model is
   determined by its non-private part. *)
From Coq Require Import List Ascii String ZArith Bool Lia Classical_Prop.
From Anthem Require Import Base.ISet Syntax.Fol Syntax.Asp Sem.Domain Sem.Sat Sem.AspRef
  Model.Tightness Model.PrivRec Model.TauStar Model.Completion
  Proofs.ExtendAll Proofs.EnvFacts Proofs.TightnessOk Proofs.CompletionShape Proofs.CompletionOk Proofs.FagesBridge
  Proofs.FagesTauStar.
Import ListNotations.
Open Scope string_scope.
Open Scope list_scope.

(* every private predicate holds exactly on the tuples derived by one of its (basic) rules *)
Definition priv_supported (M : pint) (P : program) (priv : list pred) : Prop :=
  forall p, In p priv -> forall d, List.length d = parity p ->
    (M (psym p) d <->
     exists r a sg, In r P /\ rhead r = HBasic a /\ atom_pred a = p /\
                    tuple_vals sg (aterms a) d /\ body_sat M M sg (rbody r)).

(* agreement of two interpretations on one predicate (symbol, arity) *)
Definition agree_on (M1 M2 : pint) (q : pred) : Prop :=
  forall d, List.length d = parity q -> (M1 (psym q) d <-> M2 (psym q) d).

Lemma priv_rank P priv : has_private_recursion P priv = false ->
  ~ private_choice P priv /\ exists rank : pred -> nat, forall h q, priv_dep P priv h q -> rank q < rank h.
Proof.
  intros H. split; [apply (proj1 (C11_priv_proof P priv) H)|].
  unfold has_private_recursion in H. destruct (existsb (private_choice_head priv) P); [discriminate|].
  apply negb_false_iff in H. unfold is_acyclic in H.
  destruct (topo_order (priv_nodes P priv) (priv_edges P priv)) as [order|] eqn:E; [|discriminate].
  destruct (topo_order_rank _ _ _ (nodup_priv_nodes P priv) E) as [rank Hr].
  exists rank. intros h q Hd. apply priv_edges_spec in Hd. apply Hr; [exact Hd|].
  apply (priv_edges_ends P priv h q Hd).
Qed.

Lemma bformula_sat_agree M1 M2 sg b :
  (forall l, b = BLit l -> agree_on M1 M2 (atom_pred (latom l))) ->
  (bformula_sat M1 M1 sg b <-> bformula_sat M2 M2 sg b).
Proof.
  intros H. destruct b as [[s a]|c]; [|tauto].
  specialize (H (mklit s a) eq_refl). cbn [latom] in H.
  assert (E : forall vs, tuple_vals sg (aterms a) vs -> (M1 (apred a) vs <-> M2 (apred a) vs)).
  { intros vs Hv. apply (H vs). cbn. apply (tuple_vals_length _ _ _ Hv). }
  destruct s; cbn; split; intros [vs [Hv Hm]]; exists vs; (split; [exact Hv|]); specialize (E vs Hv); tauto.
Qed.
Lemma body_sat_agree M1 M2 sg body :
  (forall l, In (BLit l) body -> agree_on M1 M2 (atom_pred (latom l))) ->
  (body_sat M1 M1 sg body <-> body_sat M2 M2 sg body).
Proof.
  intros H. unfold body_sat. rewrite !Forall_forall.
  split; intros X b Hb; apply (bformula_sat_agree M1 M2 sg b); auto; intros l ->; apply H; exact Hb.
Qed.

(* LAYER (d) *)
Theorem private_extension_unique (P : program) (priv : list pred) (M1 M2 : pint) :
  has_private_recursion P priv = false ->
  (forall q, In q (program_preds P) -> ~ In q priv -> agree_on M1 M2 q) ->
  priv_supported M1 P priv -> priv_supported M2 P priv ->
  forall p, In p priv -> agree_on M1 M2 p.
Proof.
  intros Hpr Hpub S1 S2. destruct (priv_rank P priv Hpr) as [_ [rank Hrank]].
  assert (G : forall n p, rank p < n -> In p priv -> agree_on M1 M2 p).
  { induction n as [|n IH]; intros p Hn Hp; [lia|].
    intros d Hl. rewrite (S1 p Hp d Hl), (S2 p Hp d Hl).
    assert (Hb : forall r a sg, In r P -> rhead r = HBasic a -> atom_pred a = p ->
                   (body_sat M1 M1 sg (rbody r) <-> body_sat M2 M2 sg (rbody r))).
    { intros r a sg Hr Hh Ha. apply body_sat_agree. intros l Hlit.
      destruct (in_dec pred_dec (atom_pred (latom l)) priv) as [Hq|Hq].
      - apply IH; [|exact Hq].
        assert (Hd : priv_dep P priv p (atom_pred (latom l))).
        { split; [exact Hp|]. split; [exact Hq|]. exists r, l. repeat split; auto. rewrite Hh. cbn. congruence. }
        apply Hrank in Hd. lia.
      - apply Hpub; [|exact Hq]. eapply body_in_program_preds; eauto. }
    split; intros [r [a [sg [Hr [Hh [Ha [Hv Hbs]]]]]]]; exists r, a, sg; repeat split; auto;
      apply (Hb r a sg Hr Hh Ha); exact Hbs. }
  intros p Hp. apply (G (S (rank p)) p); [lia|exact Hp].
Qed.

(* ---------- models of the completion are supported on the private predicates ---------- *)
Theorem completion_priv_supported (FI : fint) (P : program) (G D : theory) (ins priv : list pred) (M : pint) :
  represents FI G P -> completion G ins = Some D ->
  ~ private_choice P priv ->
  (forall p, In p priv -> In p (program_preds P) /\ ~ In p ins) ->
  (forall f, In f D -> cvalid FI M f) ->
  priv_supported M P priv.
Proof.
  intros Hrep HD Hnc Hpriv HM p Hp d Hl.
  destruct (Hpriv p Hp) as [Hin Hni].
  apply (C04_clark_proof G ins D HD FI M) in HM. destruct HM as [_ HC].
  assert (HpG : In p (theory_predicates G)) by (apply (proj2 Hrep); exact Hin).
  (* sorts of the head variables: general *)
  assert (Hsort : forall F V, defines G p F V -> in_sorts V d).
  { intros F V [f [Hf [HDf HlV]]]. apply in_sorts_general_vars; [|congruence].
    destruct Hrep as [HF _]. destruct (forall2_in_r _ _ _ _ HF Hf) as [r [Hr Hrf]]. unfold rule_formula in Hrf.
    destruct (rhead r) as [a|a|].
    - destruct Hrf as [F' [V' [HD' [_ [Hg _]]]]]. destruct (definition_of_fun _ _ _ _ _ _ _ HDf HD') as [_ [_ ->]]. exact Hg.
    - destruct Hrf as [F' [V' [HD' [_ [Hg _]]]]]. destruct (definition_of_fun _ _ _ _ _ _ _ HDf HD') as [_ [_ ->]]. exact Hg.
    - destruct Hrf as [Hk _]. exfalso. eapply definition_constraint_excl; eauto. }
  rewrite (HC p HpG Hni d Hl Hsort).
  rewrite (support_iff P FI G Hrep M p d). split.
  - intros [r [a [sg [Hr [Ea [Hv [Hb [Hh|[Hh _]]]]]]]]].
    + exists r, a, sg. auto.
    + exfalso. apply Hnc. exists r, a. rewrite Ea. auto.
  - intros [r [a [sg [Hr [Hh [Ea [Hv Hb]]]]]]]. exists r, a, sg. auto 10.
Qed.

(* ---------- behaviour: an external stable model is determined by its non-private part ---------- *)
Definition over_vocabulary (T : pint) (P : program) (ins : list pred) : Prop :=
  forall p d, T p d -> In (mkpred p (List.length d)) (program_preds P) \/ In (mkpred p (List.length d)) ins.

Theorem stable_private_determined (P : program) (G : theory) (ins priv : list pred) (FI : fint) (T1 T2 : pint) :
  is_tight P = true ->
  (forall r h, In r P -> head_pred (rhead r) = Some h -> ~ In h ins) ->
  tau_star P = Some G ->
  has_private_recursion P priv = false ->
  (forall p, In p priv -> In p (program_preds P) /\ ~ In p ins) ->
  over_vocabulary T1 P ins -> over_vocabulary T2 P ins ->
  stable T1 P (input_facts T1 ins) -> stable T2 P (input_facts T2 ins) ->
  (forall p d, ~ In (mkpred p (List.length d)) priv -> (T1 p d <-> T2 p d)) ->
  forall p d, T1 p d <-> T2 p d.
Proof.
  intros Ht Hins Hts Hpr Hpriv Hv1 Hv2 S1 S2 Hpub p d.
  destruct (in_dec pred_dec (mkpred p (List.length d)) priv) as [Hp|Hp]; [|apply Hpub; exact Hp].
  destruct (C04_tau_star_completable_proof P G ins Hts) as [D HD].
  pose proof (tau_star_represents FI P G Hts) as Hrep.
  pose proof (proj2 (C04_fages_proof P ins G D FI T1 Ht Hins Hv1 Hts HD) S1) as C1.
  pose proof (proj2 (C04_fages_proof P ins G D FI T2 Ht Hins Hv2 Hts HD) S2) as C2.
  destruct (priv_rank P priv Hpr) as [Hnc _].
  pose proof (completion_priv_supported FI P G D ins priv T1 Hrep HD Hnc Hpriv C1) as Q1.
  pose proof (completion_priv_supported FI P G D ins priv T2 Hrep HD Hnc Hpriv C2) as Q2.
  assert (Hag : forall q, In q (program_preds P) -> ~ In q priv -> agree_on T1 T2 q).
  { intros q _ Hq d' Hl. apply Hpub. rewrite Hl. destruct q; exact Hq. }
  exact (private_extension_unique P priv T1 T2 Hpr Hag Q1 Q2 (mkpred p (List.length d)) Hp d eq_refl).
Qed.

(* ---------- existence of the private extension ---------- *)
Section Existence.
Variable P : program.
Variable priv : list pred.
Variable N : pint.

(* stage n: the non-private predicates as in N, the private ones recomputed from stage n-1 *)
Fixpoint ext (n : nat) : pint :=
  match n with
  | O => fun p d => N p d /\ ~ In (mkpred p (List.length d)) priv
  | S k => fun p d =>
      if in_dec pred_dec (mkpred p (List.length d)) priv
      then exists r a sg, In r P /\ rhead r = HBasic a /\ atom_pred a = mkpred p (List.length d) /\
                          tuple_vals sg (aterms a) d /\ body_sat (ext k) (ext k) sg (rbody r)
      else N p d
  end.

Lemma ext_pub n p d : ~ In (mkpred p (List.length d)) priv -> (ext n p d <-> N p d).
Proof.
  intros H. destruct n as [|k]; cbn; [tauto|].
  destruct (in_dec pred_dec (mkpred p (List.length d)) priv); [contradiction|tauto].
Qed.
Lemma ext_priv k p d : In p priv -> List.length d = parity p ->
  (ext (S k) (psym p) d <->
   exists r a sg, In r P /\ rhead r = HBasic a /\ atom_pred a = p /\
                  tuple_vals sg (aterms a) d /\ body_sat (ext k) (ext k) sg (rbody r)).
Proof.
  intros Hp Hl. cbn [ext]. rewrite Hl. replace (mkpred (psym p) (parity p)) with p by (destruct p; reflexivity).
  destruct (in_dec pred_dec p priv); [tauto|contradiction].
Qed.

Hypothesis Hpr : has_private_recursion P priv = false.

Lemma ext_stabilises : forall b p, In p priv ->
  forall rank, (forall h q, priv_dep P priv h q -> rank q < rank h) -> rank p < b ->
  forall n m, rank p < n -> rank p < m -> agree_on (ext n) (ext m) p.
Proof.
  induction b as [|b IH]; intros p Hp rank Hrank Hb n m Hn Hm; [lia|].
  destruct n as [|n]; [lia|]. destruct m as [|m]; [lia|].
  intros d Hl. rewrite (ext_priv n p d Hp Hl), (ext_priv m p d Hp Hl).
  assert (Hbody : forall r a sg, In r P -> rhead r = HBasic a -> atom_pred a = p ->
                   (body_sat (ext n) (ext n) sg (rbody r) <-> body_sat (ext m) (ext m) sg (rbody r))).
  { intros r a sg Hr Hh Ha. apply body_sat_agree. intros l Hlit.
    destruct (in_dec pred_dec (atom_pred (latom l)) priv) as [Hq|Hq].
    - assert (Hd : priv_dep P priv p (atom_pred (latom l))).
      { split; [exact Hp|]. split; [exact Hq|]. exists r, l. repeat split; auto. rewrite Hh. cbn. congruence. }
      apply Hrank in Hd. apply (IH _ Hq rank Hrank); lia.
    - intros d' Hl'. rewrite !ext_pub; try tauto; rewrite Hl'; destruct (atom_pred (latom l)); exact Hq. }
  split; intros [r [a [sg [Hr [Hh [Ha [Hv Hbs]]]]]]]; exists r, a, sg; repeat split; auto;
    apply (Hbody r a sg Hr Hh Ha); exact Hbs.
Qed.

Theorem private_extension_exists :
  exists M : pint,
    (forall p d, ~ In (mkpred p (List.length d)) priv -> (M p d <-> N p d)) /\
    priv_supported M P priv.
Proof.
  destruct (priv_rank P priv Hpr) as [_ [rank Hrank]].
  set (K := S (list_max (map rank priv))).
  assert (HK : forall p, In p priv -> rank p < K).
  { intros p Hp. unfold K.
    assert (F : Forall (fun k => k <= list_max (map rank priv)) (map rank priv)) by (apply list_max_le; lia).
    rewrite Forall_forall in F. specialize (F (rank p) (in_map rank priv p Hp)). lia. }
  exists (ext (S K)). split; [intros p d Hn; apply ext_pub; exact Hn|].
  intros p Hp d Hl. rewrite (ext_priv K p d Hp Hl).
  assert (Hbody : forall r a sg, In r P -> rhead r = HBasic a -> atom_pred a = p ->
                   (body_sat (ext K) (ext K) sg (rbody r) <-> body_sat (ext (S K)) (ext (S K)) sg (rbody r))).
  { intros r a sg Hr Hh Ha. apply body_sat_agree. intros l Hlit.
    destruct (in_dec pred_dec (atom_pred (latom l)) priv) as [Hq|Hq].
    - pose proof (HK _ Hq). apply (ext_stabilises K _ Hq rank Hrank); lia.
    - intros d' Hl'. rewrite !ext_pub; try tauto; rewrite Hl'; destruct (atom_pred (latom l)); exact Hq. }
  split; intros [r [a [sg [Hr [Hh [Ha [Hv Hbs]]]]]]]; exists r, a, sg; repeat split; auto;
    apply (Hbody r a sg Hr Hh Ha); exact Hbs.
Qed.
End Existence.
