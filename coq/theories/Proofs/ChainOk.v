(* C12: the symbol-order chain (`symbols.sort_unstable()` + `windows(2)`) and the h-implies-t
   transition axioms of strong equivalence. *)
From Coq Require Import List Ascii String ZArith NArith Bool Lia Permutation.
From Anthem Require Import Base.ISet Syntax.Fol Syntax.Asp Sem.Domain Sem.Sat Model.Problem Model.ProblemPrint
  Model.Gamma Model.Transition Proofs.GammaOk Gen.Preamble.
Import ListNotations.
Open Scope list_scope.

(* ---------- insertion sort: sorted and a permutation ---------- *)
Definition adjacent {A} (R : A -> A -> Prop) (l : list A) : Prop :=
  Forall (fun ab => R (fst ab) (snd ab)) (windows2 l).
Definition sleb (a b : string) : Prop := String.leb a b = true.

Lemma adjacent_cons {A} (R : A -> A -> Prop) a b l : adjacent R (a :: b :: l) <-> R a b /\ adjacent R (b :: l).
Proof.
  unfold adjacent. cbn [windows2]. split.
  - intros H; inversion H; subst; auto.
  - intros [H1 H2]; constructor; auto.
Qed.
Lemma adjacent_one {A} (R : A -> A -> Prop) a : adjacent R [a].
Proof. constructor. Qed.

Lemma insert_sorted_adjacent x l : adjacent sleb l -> adjacent sleb (insert_sorted x l).
Proof.
  induction l as [|y l IH]; intros H; cbn [insert_sorted]; [apply adjacent_one|].
  destruct (String.leb x y) eqn:E.
  - apply adjacent_cons; split; [exact E|exact H].
  - assert (Hyx : sleb y x).
    { unfold sleb. destruct (String.leb_total x y) as [H1|H1]; [congruence|exact H1]. }
    destruct l as [|z l].
    + cbn. apply adjacent_cons; split; [exact Hyx|apply adjacent_one].
    + apply adjacent_cons in H. destruct H as [Hyz H].
      specialize (IH H). cbn [insert_sorted] in *.
      destruct (String.leb x z); apply adjacent_cons; split; auto.
Qed.
Lemma insert_sorted_perm x l : Permutation (insert_sorted x l) (x :: l).
Proof.
  induction l as [|y l IH]; cbn; [apply Permutation_refl|].
  destruct (String.leb x y); [apply Permutation_refl|].
  eapply perm_trans; [apply perm_skip, IH|apply perm_swap].
Qed.
Lemma sort_strings_adjacent l : adjacent sleb (sort_strings l).
Proof. induction l as [|x l IH]; cbn; [constructor|apply insert_sorted_adjacent, IH]. Qed.
Lemma sort_strings_perm l : Permutation (sort_strings l) l.
Proof.
  induction l as [|x l IH]; cbn; [constructor|].
  eapply perm_trans; [apply insert_sorted_perm|apply perm_skip, IH].
Qed.

(* adjacent elements of a duplicate-free list are distinct *)
Lemma windows2_nodup {A} (l : list A) : NoDup l -> forall ab, In ab (windows2 l) -> fst ab <> snd ab.
Proof.
  induction l as [|a l IH]; intros Hnd ab; [intros []|].
  destruct l as [|b l]; [intros []|]. cbn [windows2].
  intros [<-|Hin]; cbn [fst snd].
  - inversion Hnd; subst. intros ->. apply H1. left; reflexivity.
  - apply IH; [inversion Hnd; auto|exact Hin].
Qed.
(* every element of a list with at least two elements occurs in a window *)
Lemma windows2_covers {A} (l : list A) x : 2 <= List.length l -> In x l ->
  exists ab, In ab (windows2 l) /\ (fst ab = x \/ snd ab = x).
Proof.
  induction l as [|a l IH]; [cbn; lia|]. destruct l as [|b l]; [cbn; lia|]. intros Hl Hin.
  destruct Hin as [->|Hin].
  - exists (x, b); split; [left; reflexivity|left; reflexivity].
  - destruct l as [|c l].
    + destruct Hin as [->|[]]. exists (a, x); split; [left; reflexivity|right; reflexivity].
    + destruct (IH ltac:(cbn; lia) Hin) as [ab [H1 H2]]. exists ab; split; [right; exact H1|exact H2].
Qed.

Lemma problem_symbols_nodup p : NoDup (problem_symbols p).
Proof.
  unfold problem_symbols, extend_all.
  assert (G : forall (l : list pformula) acc, NoDup acc ->
            NoDup (fold_left (fun acc a => iset_extend string_dec acc (symbols (pf_formula a))) l acc)).
  { induction l as [|a l IH]; intros acc H; cbn; [exact H|]. apply IH, nodup_iset_extend, H. }
  apply G. constructor.
Qed.

(* ---------- the chain is true in every standard interpretation ---------- *)
Theorem chain_true p f : In f (symbol_order p) ->
  forall (FI : fint) (M : pint) (e : env), csat FI M e f.
Proof.
  unfold symbol_order. rewrite in_map_iff. intros [[a b] [<- Hin]] FI M e.
  pose proof (sort_strings_adjacent (problem_symbols p)) as Hadj.
  unfold adjacent in Hadj. rewrite Forall_forall in Hadj. specialize (Hadj _ Hin). cbn [fst snd] in Hadj.
  assert (Hne : a <> b).
  { apply (windows2_nodup (sort_strings (problem_symbols p))) with (ab := (a, b)); [|exact Hin].
    eapply Permutation_NoDup; [apply Permutation_sym, sort_strings_perm|apply problem_symbols_nodup]. }
  cbn. unfold glt. cbn. unfold sleb in Hadj. rewrite Hadj. cbn.
  destruct (String.eqb_spec a b); [contradiction|reflexivity].
Qed.

(* ---------- the chain covers every symbolic constant of the problem ---------- *)
Theorem chain_covers p s : In s (problem_symbols p) ->
  In s (sort_strings (problem_symbols p)) /\
  (2 <= List.length (problem_symbols p) ->
   exists ab, In ab (windows2 (sort_strings (problem_symbols p))) /\ (fst ab = s \/ snd ab = s)).
Proof.
  intros Hin.
  assert (Hs : In s (sort_strings (problem_symbols p))).
  { eapply Permutation_in; [apply Permutation_sym, sort_strings_perm|exact Hin]. }
  split; [exact Hs|]. intros Hl. apply windows2_covers; [|exact Hs].
  rewrite (Permutation_length (sort_strings_perm (problem_symbols p))). exact Hl.
Qed.

(* ---------- distinct constants are PROVABLY distinct ----------
   In ANY structure A for the preamble's signature that satisfies three of its axioms (definition
   of p__less__, transitivity and antisymmetry of p__less_equal__), under ANY interpretation
   [csym] of the symbolic constants: if the chain axioms hold, then distinct constants of the
   problem denote distinct elements — of `general` after the embedding, hence of `symbol`. *)
Section Distinct.
Variable A : tff_structure.
Variable csym : string -> symbol A.
Hypothesis less_def : ax_p__less__def_ax A.
Hypothesis le_trans : ax_transitive_ordering_ax A.
Hypothesis le_antisym : ax_antisymmetric_ordering_ax A.

Let val (s : string) : general A := f__symbolic__ A (csym s).
Let lt (x y : general A) : Prop := p__less__ A x y.

Lemma lt_trans x y z : lt x y -> lt y z -> lt x z.
Proof.
  unfold lt. intros H1 H2. apply less_def in H1. apply less_def in H2. apply less_def.
  destruct H1 as [L1 N1]. destruct H2 as [L2 N2]. split.
  - apply (le_trans x y z). split; assumption.
  - intros ->. apply N1. apply le_antisym. split; assumption.
Qed.
Lemma lt_neq x y : lt x y -> x <> y.
Proof. unfold lt. intros H. apply less_def in H. tauto. Qed.

Lemma chain_all : forall l a, adjacent (fun x y => lt (val x) (val y)) (a :: l) ->
  Forall (fun b => lt (val a) (val b)) l.
Proof.
  induction l as [|b l IH]; intros a H; [constructor|].
  apply adjacent_cons in H. destruct H as [Hab H]. constructor; [exact Hab|].
  specialize (IH b H). rewrite Forall_forall in *. intros c Hc. eapply lt_trans; [exact Hab|apply IH, Hc].
Qed.
Lemma chain_distinct : forall l, adjacent (fun x y => lt (val x) (val y)) l ->
  forall a b, In a l -> In b l -> a <> b -> val a <> val b.
Proof.
  induction l as [|c l IH]; intros H a b Ha Hb Hne; [destruct Ha|].
  pose proof (chain_all l c H) as Hall. rewrite Forall_forall in Hall.
  assert (Ht : adjacent (fun x y => lt (val x) (val y)) l).
  { destruct l as [|d l]; [constructor|]. apply adjacent_cons in H. tauto. }
  destruct Ha as [->|Ha], Hb as [->|Hb].
  - congruence.
  - apply lt_neq, Hall, Hb.
  - intros E. symmetry in E. revert E. apply lt_neq, Hall, Ha.
  - apply IH; assumption.
Qed.

Theorem chain_implies_distinct p :
  (forall ab, In ab (windows2 (sort_strings (problem_symbols p))) ->
     p__less__ A (f__symbolic__ A (csym (fst ab))) (f__symbolic__ A (csym (snd ab)))) ->
  forall a b, In a (problem_symbols p) -> In b (problem_symbols p) -> a <> b ->
    f__symbolic__ A (csym a) <> f__symbolic__ A (csym b) /\ csym a <> csym b.
Proof.
  intros Hchain a b Ha Hb Hne.
  assert (Hd : val a <> val b).
  { apply (chain_distinct (sort_strings (problem_symbols p))).
    - unfold adjacent. rewrite Forall_forall. exact Hchain.
    - eapply Permutation_in; [apply Permutation_sym, sort_strings_perm|exact Ha].
    - eapply Permutation_in; [apply Permutation_sym, sort_strings_perm|exact Hb].
    - exact Hne. }
  split; [exact Hd|]. intros E. apply Hd. unfold val. rewrite E. reflexivity.
Qed.
End Distinct.

(* ---------- transition axioms ---------- *)
Lemma qsat_forall_all vs (k : env -> Prop) e : (forall e', k e') -> qsat QForall vs k e.
Proof. revert e; induction vs as [|v vs IH]; intros e Hk; cbn; [apply Hk|]. intros d _. apply IH, Hk. Qed.

Theorem transition_true H T : sub H T ->
  forall (FI : fint) (p : pred) (e : env), csat FI (merge H T) e (transition p).
Proof.
  intros HS FI p e. unfold transition, quantify.
  assert (B : forall e', csat FI (merge H T) e' (FBin CImp (here (pred_to_formula p)) (there (pred_to_formula p)))).
  { intros e'. unfold here, there. rewrite !prepend_predicate_ren. cbn. apply HS. }
  destruct (free_variables (here (pred_to_formula p))); [apply B|].
  cbn [csat]. apply qsat_forall_all. exact B.
Qed.
Theorem transition_axioms_true H T : sub H T ->
  forall (FI : fint) (left right : program) (f : formula), In f (transition_axioms left right) ->
  forall e, csat FI (merge H T) e f.
Proof.
  intros HS FI l r f Hin e. unfold transition_axioms in Hin. apply in_map_iff in Hin.
  destruct Hin as [p [<- _]]. apply transition_true, HS.
Qed.
