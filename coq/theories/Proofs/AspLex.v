(* C14, character level: the lexer of Model/AspParse.v reads the bytes written by the printer of
   Model/AspPrint.v back as the printed tokens, for every program whose identifiers are in the
   lexical classes of the grammar and that is outside the keyword-identifier class F7.

     lex_render_program : wf_program p -> keyword_ident p = false ->
                          lex (render (print_program p)) = Some (print_program p)

   The statement is about the MODEL lexer; that lexer is tied to pest's behaviour on grammar.pest
   by correspondence only (ops asp_parse / asp_roundtrip_text).

   Structure: character-class facts (by enumeration of the 256 characters), decimal numerals,
   a big-step relation [Lex] for the fuelled lexer, one lemma per token kind, the invariant
   [lexable] on token sequences, and the proof that the printer's output satisfies it (this is
   where the parenthesised positive numeral after unary minus, `-(5)`, is needed: the table gives
   Numeral(1..) a precedence above unary minus). *)
From Coq Require Import List Ascii String ZArith NArith Bool Lia DecimalString DecimalN DecimalFacts.
From Anthem Require Import Base.Fresh Syntax.Asp Model.AspTableTypes Gen.TablesAsp Model.AspPrint Model.AspParse.
Import ListNotations.
Open Scope list_scope.
Open Scope string_scope.

(* ================================================================ A. character classes *)

Lemma char_classes c :
  (is_lower c = true -> is_digit c = false /\ is_upper c = false /\ is_symchar c = true /\ is_alnum c = true
     /\ is_ws c = false /\ (c =? "%")%char = false /\ (c =? "_")%char = false /\ is_nonzero_digit c = false) /\
  (is_upper c = true -> is_digit c = false /\ is_lower c = false /\ is_symchar c = true /\ is_alnum c = true
     /\ is_ws c = false /\ (c =? "%")%char = false /\ (c =? "_")%char = false /\ is_nonzero_digit c = false) /\
  (is_nonzero_digit c = true -> is_digit c = true /\ (c =? "0")%char = false) /\
  (is_digit c = true -> is_lower c = false /\ is_upper c = false /\ is_symchar c = true /\ is_alnum c = true
     /\ is_ws c = false /\ (c =? "%")%char = false /\ (c =? "_")%char = false) /\
  (is_alnum c = true -> is_symchar c = true) /\
  ((c =? "_")%char = true -> is_digit c = false /\ is_lower c = false /\ is_upper c = false /\ is_ws c = false
     /\ (c =? "%")%char = false /\ is_nonzero_digit c = false /\ is_symchar c = true).
Proof.
  destruct c as [[] [] [] [] [] [] [] []]; vm_compute; repeat split; intros; try reflexivity; discriminate.
Qed.

(* ================================================================ B. strings *)

Fixpoint all_chars (p : ascii -> bool) (s : string) : bool :=
  match s with "" => true | String c r => p c && all_chars p r end.
Definition head_is (p : ascii -> bool) (s : string) : bool :=
  match s with "" => false | String c _ => p c end.

Lemma span_app p a S : all_chars p a = true -> head_is p S = false -> span p (a ++ S) = (a, S).
Proof.
  induction a as [|c a IH]; cbn; intros HA HS.
  - destruct S as [|c S]; cbn in *; [reflexivity|]. rewrite HS. reflexivity.
  - apply andb_true_iff in HA. destruct HA as [Hc HA]. rewrite Hc, IH by assumption. reflexivity.
Qed.

Lemma span_spec p s a b : span p s = (a, b) -> s = a ++ b /\ all_chars p a = true /\ head_is p b = false.
Proof.
  revert a b. induction s as [|c s IH]; cbn; intros a b H.
  - inversion H; subst. auto.
  - destruct (p c) eqn:E.
    + destruct (span p s) as [a' b'] eqn:E'. inversion H; subst.
      destruct (IH _ _ eq_refl) as [-> [HA HB]]. cbn. rewrite E. auto.
    + inversion H; subst. cbn. rewrite E. auto.
Qed.

Lemma length_app_r (a b : string) : String.length b <= String.length (a ++ b).
Proof. induction a; cbn; lia. Qed.
Lemma length_app (a b : string) : String.length (a ++ b) = String.length a + String.length b.
Proof. induction a; cbn; lia. Qed.

(* ================================================================ C. decimal numerals *)

Lemma uint_digits d : all_chars is_digit (NilEmpty.string_of_uint d) = true.
Proof. induction d; cbn; auto. Qed.
Lemma nat_str_digits n : all_chars is_digit (nat_str n) = true.
Proof. apply uint_digits. Qed.

Lemma digits_nat_str n : digits_to_Z (nat_str n) = Z.of_N n.
Proof. unfold digits_to_Z, nat_str. rewrite NilEmpty.usu, Unsigned.of_to. reflexivity. Qed.

Lemma nzhead_not_D0 d d' : Decimal.nzhead d <> Decimal.D0 d'.
Proof. induction d; cbn; try discriminate. exact IHd. Qed.

Lemma nat_str_pos n : (0 < n)%N ->
  exists c r, nat_str n = String c r /\ is_nonzero_digit c = true.
Proof.
  intros Hn. unfold nat_str.
  assert (E : N.to_uint n = Decimal.unorm (N.to_uint n)).
  { rewrite <- (Unsigned.to_of (N.to_uint n)). rewrite Unsigned.of_to. reflexivity. }
  remember (N.to_uint n) as d eqn:Hd.
  unfold Decimal.unorm in E.
  destruct (Decimal.nzhead d) as [|h|h|h|h|h|h|h|h|h|h] eqn:Z.
  - (* zero *) exfalso. assert (N.of_uint d = 0%N) by (rewrite E; reflexivity).
    rewrite Hd, Unsigned.of_to in H. lia.
  - exfalso. exact (nzhead_not_D0 d h Z).
  - rewrite E. cbn. eexists _, _. split; [reflexivity|reflexivity].
  - rewrite E. cbn. eexists _, _. split; [reflexivity|reflexivity].
  - rewrite E. cbn. eexists _, _. split; [reflexivity|reflexivity].
  - rewrite E. cbn. eexists _, _. split; [reflexivity|reflexivity].
  - rewrite E. cbn. eexists _, _. split; [reflexivity|reflexivity].
  - rewrite E. cbn. eexists _, _. split; [reflexivity|reflexivity].
  - rewrite E. cbn. eexists _, _. split; [reflexivity|reflexivity].
  - rewrite E. cbn. eexists _, _. split; [reflexivity|reflexivity].
  - rewrite E. cbn. eexists _, _. split; [reflexivity|reflexivity].
Qed.

(* ================================================================ D. lexical classes, big-step lexer *)

Definition wf_symbol (s : string) : bool :=
  match s with
  | String c r => (is_lower c || ((c =? "_")%char && head_is is_lower r)) && all_chars is_symchar s
  | "" => false
  end.
Definition wf_variable (s : string) : bool :=
  match s with
  | String c r => is_upper c && all_chars is_alnum s
  | "" => false
  end.

(* the fuelled lexer without comments (the printer writes none), fuel-free *)
Inductive Lex : bool -> string -> list token -> Prop :=
| Lex_nil o : Lex o "" []
| Lex_ws o c r toks : is_ws c = true -> Lex o r toks -> Lex o (String c r) toks
| Lex_tok o c r t r' toks :
    is_ws c = false -> (c =? "%")%char = false ->
    lex_token o (String c r) = Some (t, r') -> String.length r' <= String.length r ->
    Lex (opnd_after t) r' toks -> Lex o (String c r) (t :: toks).

Lemma Lex_adequate o s toks : Lex o s toks -> forall f, String.length s < f -> lex_go f o s = Some toks.
Proof.
  induction 1 as [o|o c r toks W _ IH|o c r t r' toks W P T L _ IH]; intros f Hf.
  - destruct f; [lia|]. reflexivity.
  - destruct f; [lia|]. cbn [lex_go]. rewrite W. apply IH. cbn in Hf. lia.
  - destruct f; [lia|]. cbn [lex_go]. rewrite W, P, T. rewrite IH by (cbn in Hf; lia). reflexivity.
Qed.

(* ================================================================ E. one lemma per token kind *)

(* tokens whose spelling starts with a space or a punctuation character *)
Definition sep_token (t : token) : bool :=
  match t with
  | TkBin _ | TkLP | TkRP | TkComma | TkSemi | TkRel _ | TkLB | TkRB | TkIf | TkDot => true
  | _ => false
  end.
Definition next_sep (nxt : option token) : Prop :=
  match nxt with Some k => sep_token k = true | None => True end.

(* what the lexer needs to know about a token, the lexer state in front of it and the token after it *)
Definition tok_ok (o : bool) (t : token) (nxt : option token) : Prop :=
  match t with
  | TkNum z => ((z < 0)%Z -> o = true) /\ next_sep nxt
  | TkSym s =>
    wf_symbol s = true /\ next_sep nxt /\
    (s = "not" -> match nxt with Some k => starts_with_space k = false | None => False end)
  | TkVar s => wf_variable s = true /\ next_sep nxt
  | TkInf | TkSup => next_sep nxt
  | TkNeg =>
    o = true /\
    match nxt with
    | Some (TkNum z) => (z <= 0)%Z
    | Some (TkSym s) => wf_symbol s = true
    | Some (TkVar s) => wf_variable s = true
    | Some (TkInf | TkSup | TkNeg | TkLP) => True
    | _ => False
    end
  | TkBin ASub => o = false
  | TkSemi | TkFalse => False
  | _ => True
  end.

Fixpoint lexable (o : bool) (ts : list token) : Prop :=
  match ts with
  | [] => True
  | t :: rest => tok_ok o t (hd_error rest) /\ lexable (opnd_after t) rest
  end.

Lemma render_cons t ts : render (t :: ts) = render_token t ++ render ts.
Proof. reflexivity. Qed.

Lemma sep_head_chars k r : sep_token k = true ->
  head_is is_symchar (render (k :: r)) = false /\ head_is is_digit (render (k :: r)) = false
  /\ head_is is_alnum (render (k :: r)) = false.
Proof. destruct k as [| | | | | |[]| | | | |[]| | | | | |]; cbn; intros; try discriminate; auto. Qed.

Lemma next_sep_chars rest : next_sep (hd_error rest) ->
  head_is is_symchar (render rest) = false /\ head_is is_digit (render rest) = false
  /\ head_is is_alnum (render rest) = false.
Proof. destruct rest as [|k r]; cbn [hd_error next_sep]; [cbn; auto|apply sep_head_chars]. Qed.

Lemma z_str_nonneg z : (0 <= z)%Z -> z_str z = nat_str (Z.to_N z).
Proof. intros H. unfold z_str. destruct (z <? 0)%Z eqn:E; [apply Z.ltb_lt in E; lia|reflexivity]. Qed.
Lemma z_str_neg z : (z < 0)%Z -> z_str z = "-" ++ nat_str (Z.to_N (- z)).
Proof. intros H. unfold z_str. destruct (z <? 0)%Z eqn:E; [reflexivity|apply Z.ltb_ge in E; lia]. Qed.

Lemma string_app_assoc (a b c : string) : (a ++ b) ++ c = a ++ (b ++ c).
Proof. induction a; cbn; [reflexivity|]. rewrite IHa. reflexivity. Qed.

(* lex_token by first character *)
Lemma lex_token_minus_opnd c2 r :
  lex_token true (String "-" (String c2 r)) =
  if is_nonzero_digit c2
  then (let '(ds, r') := span is_digit (String c2 r) in Some (TkNum (- digits_to_Z ds), r'))
  else Some (TkNeg, String c2 r).
Proof. reflexivity. Qed.

Lemma lex_token_digit o c r : is_digit c = true ->
  lex_token o (String c r) =
  if (c =? "0")%char then Some (TkNum 0, r)
  else (let '(ds, r') := span is_digit (String c r) in Some (TkNum (digits_to_Z ds), r')).
Proof. intros H. unfold lex_token. rewrite H. reflexivity. Qed.

Lemma lex_token_lower o c r : is_lower c = true -> lex_token o (String c r) = lex_symbol (String c r).
Proof.
  intros H. destruct (char_classes c) as [L _]. destruct (L H) as [D _].
  unfold lex_token. rewrite D, H. reflexivity.
Qed.

Lemma lex_token_underscore o c2 r : is_lower c2 = true ->
  lex_token o (String "_" (String c2 r)) = lex_symbol (String "_" (String c2 r)).
Proof. intros H. unfold lex_token. cbn. rewrite H. reflexivity. Qed.

Lemma lex_token_upper o c r : is_upper c = true ->
  lex_token o (String c r) = (let '(id, r') := span is_alnum (String c r) in Some (TkVar id, r')).
Proof.
  intros H. destruct (char_classes c) as [_ [U _]]. destruct (U H) as [D [L [_ [_ [_ [_ [US _]]]]]]].
  unfold lex_token. rewrite D, L, US, H. reflexivity.
Qed.

(* numerals *)
Lemma Lex_num o z S toks : ((z < 0)%Z -> o = true) -> head_is is_digit S = false ->
  Lex false S toks -> Lex o (z_str z ++ S) (TkNum z :: toks).
Proof.
  intros Ho HS HL.
  destruct (Z.ltb_spec z 0) as [Hneg|Hpos].
  - (* negative: "-" digits, operand position *)
    rewrite (Ho Hneg). rewrite z_str_neg by assumption.
    destruct (nat_str_pos (Z.to_N (- z))) as [c [r [E Hc]]]; [lia|].
    pose proof (nat_str_digits (Z.to_N (- z))) as HD.
    cbn [append]. eapply Lex_tok with (r' := S); try reflexivity.
    + rewrite E. cbn [append]. rewrite lex_token_minus_opnd, Hc.
      change (String c (r ++ S)) with (String c r ++ S). rewrite <- E.
      rewrite span_app by assumption. rewrite digits_nat_str. f_equal. f_equal. f_equal. lia.
    + apply length_app_r.
    + exact HL.
  - destruct (Z.eq_dec z 0) as [->|Hnz].
    + (* "0" *)
      cbn. eapply Lex_tok with (r' := S); [reflexivity|reflexivity|reflexivity|lia|exact HL].
    + rewrite z_str_nonneg by assumption.
      destruct (nat_str_pos (Z.to_N z)) as [c [r [E Hc]]]; [lia|].
      pose proof (nat_str_digits (Z.to_N z)) as HD.
      destruct (char_classes c) as [_ [_ [NZ [DG _]]]]. destruct (NZ Hc) as [Hd H0].
      destruct (DG Hd) as [_ [_ [_ [_ [Hw [Hp _]]]]]].
      rewrite E. cbn [append]. eapply Lex_tok with (r' := S); try assumption.
      * rewrite lex_token_digit by assumption. rewrite H0.
        change (String c (r ++ S)) with (String c r ++ S). rewrite <- E.
        rewrite span_app by assumption. rewrite digits_nat_str. f_equal. f_equal. f_equal. lia.
      * apply length_app_r.
Qed.

(* identifiers *)
Lemma lex_symbol_ok s S : all_chars is_symchar s = true -> head_is is_symchar S = false ->
  (s = "not" -> at_ws_or_eoi S = false) -> lex_symbol (s ++ S) = Some (TkSym s, S).
Proof.
  intros HA HS HN. unfold lex_symbol. rewrite span_app by assumption.
  destruct (String.eqb_spec s "not") as [E|E]; [rewrite (HN E)|]; reflexivity.
Qed.

Lemma Lex_sym o s S toks : wf_symbol s = true -> head_is is_symchar S = false ->
  (s = "not" -> at_ws_or_eoi S = false) -> Lex false S toks -> Lex o (s ++ S) (TkSym s :: toks).
Proof.
  intros W HS HN HL. destruct s as [|c r]; [discriminate|].
  unfold wf_symbol in W. apply andb_true_iff in W. destruct W as [W HA].
  apply orb_true_iff in W. destruct W as [W|W].
  - destruct (char_classes c) as [L _]. destruct (L W) as [_ [_ [_ [_ [Hw [Hp _]]]]]].
    cbn [append]. eapply Lex_tok with (r' := S); [exact Hw|exact Hp| |apply length_app_r|exact HL].
    rewrite lex_token_lower by exact W.
    change (String c (r ++ S)) with (String c r ++ S). apply lex_symbol_ok; assumption.
  - apply andb_true_iff in W. destruct W as [W1 W2]. apply Ascii.eqb_eq in W1. subst c.
    destruct r as [|c2 r2]; [discriminate|]. cbn [head_is] in W2.
    cbn [append]. eapply Lex_tok with (r' := S); [reflexivity|reflexivity| | |exact HL].
    + rewrite lex_token_underscore by exact W2.
      change (String "_" (String c2 (r2 ++ S))) with (String "_" (String c2 r2) ++ S).
      apply lex_symbol_ok; assumption.
    + change (String c2 (r2 ++ S)) with (String c2 r2 ++ S). apply length_app_r.
Qed.

Lemma Lex_var o s S toks : wf_variable s = true -> head_is is_alnum S = false ->
  Lex false S toks -> Lex o (s ++ S) (TkVar s :: toks).
Proof.
  intros W HS HL. destruct s as [|c r]; [discriminate|].
  unfold wf_variable in W. apply andb_true_iff in W. destruct W as [W HA].
  destruct (char_classes c) as [_ [U _]]. destruct (U W) as [_ [_ [_ [_ [Hw [Hp _]]]]]].
  cbn [append]. eapply Lex_tok with (r' := S); [exact Hw|exact Hp| |apply length_app_r|exact HL].
  rewrite lex_token_upper by exact W.
  change (String c (r ++ S)) with (String c r ++ S). rewrite span_app by assumption. reflexivity.
Qed.

Lemma lex_token_inf o S : prefix "imum" S = false -> lex_token o ("#inf" ++ S) = Some (TkInf, S).
Proof. intros H. unfold lex_token. cbn. unfold try_kw. cbn. rewrite H. destruct S; reflexivity. Qed.
Lemma lex_token_sup o S : prefix "remum" S = false -> lex_token o ("#sup" ++ S) = Some (TkSup, S).
Proof. intros H. unfold lex_token. cbn. unfold try_kw. cbn. rewrite H. destruct S; reflexivity. Qed.

Lemma next_sep_prefix rest : next_sep (hd_error rest) ->
  prefix "imum" (render rest) = false /\ prefix "remum" (render rest) = false.
Proof.
  destruct rest as [|k r]; cbn [hd_error next_sep]; [cbn; auto|].
  destruct k as [| | | | | |[]| | | | |[]| | | | | |]; cbn; intros; try discriminate; auto.
Qed.

(* what may follow a prefix minus *)
Lemma z_str_head_nonpos z : (z <= 0)%Z -> exists c r, z_str z = String c r /\ is_nonzero_digit c = false.
Proof.
  intros H. destruct (Z.eq_dec z 0) as [->|N].
  - exists "0"%char, "". split; reflexivity.
  - rewrite z_str_neg by lia. exists "-"%char, (nat_str (Z.to_N (- z))). split; reflexivity.
Qed.

Lemma wf_symbol_head s : wf_symbol s = true -> exists c r, s = String c r /\ is_nonzero_digit c = false
  /\ is_ws c = false.
Proof.
  destruct s as [|c r]; [discriminate|]. intros W. exists c, r. split; [reflexivity|].
  unfold wf_symbol in W. apply andb_true_iff in W. destruct W as [W _].
  apply orb_true_iff in W. destruct W as [W|W].
  - destruct (char_classes c) as [L _]. destruct (L W) as [_ [_ [_ [_ [Hw [_ [_ Hn]]]]]]]. auto.
  - apply andb_true_iff in W. destruct W as [W _]. apply Ascii.eqb_eq in W. subst c. split; reflexivity.
Qed.
Lemma wf_variable_head s : wf_variable s = true -> exists c r, s = String c r /\ is_nonzero_digit c = false.
Proof.
  destruct s as [|c r]; [discriminate|]. intros W. exists c, r. split; [reflexivity|].
  unfold wf_variable in W. apply andb_true_iff in W. destruct W as [W _].
  destruct (char_classes c) as [_ [U _]]. destruct (U W) as [_ [_ [_ [_ [_ [_ [_ Hn]]]]]]]. exact Hn.
Qed.

Lemma Lex_neg rest toks :
  match hd_error rest with
  | Some (TkNum z) => (z <= 0)%Z
  | Some (TkSym s) => wf_symbol s = true
  | Some (TkVar s) => wf_variable s = true
  | Some (TkInf | TkSup | TkNeg | TkLP) => True
  | _ => False
  end ->
  Lex true (render rest) toks -> Lex true ("-" ++ render rest) (TkNeg :: toks).
Proof.
  intros H HL.
  assert (E : exists c2 r2, render rest = String c2 r2 /\ is_nonzero_digit c2 = false).
  { destruct rest as [|k r]; cbn [hd_error] in H; [contradiction|]. rewrite render_cons.
    destruct k; try contradiction.
    - destruct (z_str_head_nonpos z H) as [c [r' [E N]]]. cbn [render_token]. rewrite E. cbn. eauto.
    - destruct (wf_symbol_head s H) as [c [r' [E [N _]]]]. cbn [render_token]. rewrite E. cbn. eauto.
    - destruct (wf_variable_head s H) as [c [r' [E N]]]. cbn [render_token]. rewrite E. cbn. eauto.
    - cbn. eauto.
    - cbn. eauto.
    - cbn. eauto.
    - cbn. eauto. }
  destruct E as [c2 [r2 [E N]]]. rewrite E in *.
  cbn [append]. eapply Lex_tok with (r' := String c2 r2); [reflexivity|reflexivity| |lia|exact HL].
  rewrite lex_token_minus_opnd, N. reflexivity.
Qed.

(* "not" is read as a symbol only when no whitespace (and not the end of the text) follows *)
Lemma not_followed rest : 
  match hd_error rest with Some k => starts_with_space k = false | None => False end ->
  next_sep (hd_error rest) -> at_ws_or_eoi (render rest) = false.
Proof.
  destruct rest as [|k r]; cbn [hd_error next_sep]; [contradiction|].
  destruct k as [| | | | | |[]| | | | |[]| | | | | |]; cbn; intros; try discriminate; auto.
Qed.

Ltac lex_one := eapply Lex_tok; [reflexivity|reflexivity|reflexivity|cbn; lia|].
Ltac lex_sp := apply Lex_ws; [reflexivity|].

Theorem lexable_Lex toks : forall o, lexable o toks -> Lex o (render toks) toks.
Proof.
  induction toks as [|t rest IH]; intros o H; [constructor|].
  cbn [lexable] in H. destruct H as [HT HR]. specialize (IH _ HR). rewrite render_cons.
  destruct t; cbn [tok_ok] in HT; cbn [render_token opnd_after] in *.
  - (* TkNum *) destruct HT as [Ho HS]. apply Lex_num; [exact Ho|apply next_sep_chars, HS|exact IH].
  - (* TkSym *) destruct HT as [W [HS HN]]. apply Lex_sym; [exact W|apply next_sep_chars, HS| |exact IH].
    intros E. apply not_followed; [exact (HN E)|exact HS].
  - (* TkVar *) destruct HT as [W HS]. apply Lex_var; [exact W|apply next_sep_chars, HS|exact IH].
  - (* TkInf *) destruct (next_sep_prefix rest HT) as [P _].
    change ("#inf" ++ render rest) with (String "#" ("inf" ++ render rest)).
    eapply Lex_tok with (r' := render rest); [reflexivity|reflexivity| |cbn; lia|exact IH].
    apply (lex_token_inf o _ P).
  - (* TkSup *) destruct (next_sep_prefix rest HT) as [_ P].
    change ("#sup" ++ render rest) with (String "#" ("sup" ++ render rest)).
    eapply Lex_tok with (r' := render rest); [reflexivity|reflexivity| |cbn; lia|exact IH].
    apply (lex_token_sup o _ P).
  - (* TkNeg *) destruct HT as [-> HN]. apply Lex_neg; assumption.
  - (* TkBin *) destruct o0; cbn [render_binop append].
    + lex_sp. lex_one. lex_sp. exact IH.
    + subst o. lex_sp. lex_one. lex_sp. exact IH.
    + lex_sp. lex_one. lex_sp. exact IH.
    + lex_sp. lex_one. lex_sp. exact IH.
    + lex_sp. lex_one. lex_sp. exact IH.
    + lex_one. exact IH.
  - lex_one. exact IH.
  - lex_one. exact IH.
  - lex_one. lex_sp. exact IH.
  - contradiction.
  - destruct r; cbn [render_rel append]; lex_sp; lex_one; lex_sp; exact IH.
  - (* TkNot *) lex_one. lex_sp. exact IH.
  - contradiction.
  - lex_one. exact IH.
  - lex_one. exact IH.
  - lex_sp. lex_one. lex_sp. exact IH.
  - (* TkDot *) lex_one. lex_sp. exact IH.
Qed.

Corollary lexable_lex toks : lexable true toks -> lex (render toks) = Some toks.
Proof. intros H. unfold lex. apply Lex_adequate; [apply lexable_Lex; exact H|lia]. Qed.

(* ================================================================ F. the printer's output is lexable *)
From Anthem Require Import Proofs.AspRoundTrip.

Fixpoint wf_term (t : term) : Prop :=
  match t with
  | TPre (PSym s) => wf_symbol s = true
  | TPre _ => True
  | TVar x => wf_variable x = true
  | TUn _ c => wf_term c
  | TBin _ l r => wf_term l /\ wf_term r
  end.
Definition wf_atom (a : atom) : Prop := wf_symbol (apred a) = true /\ Forall wf_term (aterms a).
Definition wf_bformula (b : bformula) : Prop :=
  match b with
  | BLit l => wf_atom (latom l)
  | BCmp c => wf_term (clhs c) /\ wf_term (crhs c)
  end.
Definition wf_head (h : head) : Prop :=
  match h with HBasic a | HChoice a => wf_atom a | HFalsity => True end.
Definition wf_rule (r : rule) : Prop := wf_head (rhead r) /\ Forall wf_bformula (rbody r).
(* every symbol matches  _?[a-z][A-Za-z0-9_]*  and every variable  [A-Z][A-Za-z0-9]*  *)
Definition wf_program (p : program) : Prop := Forall wf_rule p.

Definition sep_head (K : list token) : Prop :=
  match K with k :: _ => sep_token k = true | [] => False end.
Lemma sep_head_next K : sep_head K -> next_sep (hd_error K).
Proof. destruct K; cbn; tauto. Qed.

Lemma kw_tail a X : kw_clash (a :: X) = false -> kw_clash X = false.
Proof. destruct X as [|b X]; [reflexivity|]. cbn [kw_clash]. intros H. apply orb_false_iff in H. tauto. Qed.
Lemma kw_app_r A B : kw_clash (A ++ B) = false -> kw_clash B = false.
Proof. induction A as [|a A IH]; cbn [app]; [tauto|]. intros H. apply IH. eapply kw_tail, H. Qed.
Lemma kw_head s k X : kw_clash (TkSym s :: k :: X) = false -> s = "not" -> starts_with_space k = false.
Proof.
  cbn [kw_clash is_not_sym]. intros H E. apply orb_false_iff in H. destruct H as [H _].
  destruct (string_dec s "not"); [|contradiction]. exact H.
Qed.

(* the positive-numeral quirk of Format<Term>::precedence: Numeral(1..) is parenthesised under
   unary minus, so that "-" is never directly followed by a non-zero digit *)
Lemma num_pos_prec z : (1 <= z)%Z -> Nat.ltb pu (precedence (TPre (PNum z))) = true.
Proof. intros H. unfold precedence, pu. cbn. destruct (Z.leb_spec 1 z); [reflexivity|lia]. Qed.

Section TermLexable.

Definition term_goal (c : term) : Prop :=
  forall K, sep_head K -> kw_clash (print_term c ++ K) = false -> lexable false K ->
  lexable true (print_term c ++ K).

Lemma lexable_paren c w K : term_goal c -> sep_head K ->
  kw_clash (paren w (print_term c) ++ K) = false -> lexable false K ->
  lexable true (paren w (print_term c) ++ K).
Proof.
  intros IH SK KW LK. destruct w; cbn [paren] in *; [|apply IH; assumption].
  cbn [app lexable tok_ok opnd_after]. split; [exact I|].
  rewrite <- app_assoc. cbn [app]. apply IH.
  - reflexivity.
  - cbn [app] in KW. rewrite <- app_assoc in KW. cbn [app] in KW. eapply kw_tail, KW.
  - cbn [lexable tok_ok opnd_after]. split; [exact I|exact LK].
Qed.

Lemma print_term_un c : print_term (TUn AUNeg c) =
  TkNeg :: paren (mandatory_parentheses c || Nat.ltb pu (precedence c)) (print_term c).
Proof. cbn [print_term]. rewrite assoc_un, prec_un. reflexivity. Qed.

Lemma term_lexable t : wf_term t -> term_goal t.
Proof.
  induction t as [p|x|[] c IH|o l IHl r IHr]; intros W K SK KW LK.
  - destruct p as [|z|s|]; cbn [print_term print_pterm app lexable tok_ok opnd_after] in *.
    + split; [apply sep_head_next, SK|exact LK].
    + split; [split; [auto|apply sep_head_next, SK]|exact LK].
    + split; [|exact LK]. split; [exact W|]. split; [apply sep_head_next, SK|].
      destruct K as [|k K']; [contradiction|]. cbn [hd_error]. intros E. eapply kw_head; eassumption.
    + split; [apply sep_head_next, SK|exact LK].
  - cbn [print_term app lexable tok_ok opnd_after] in *.
    split; [split; [exact W|apply sep_head_next, SK]|exact LK].
  - (* unary minus *)
    rewrite print_term_un in *. cbn [app] in *. cbn [wf_term] in W.
    cbn [lexable opnd_after]. split.
    + cbn [tok_ok]. split; [reflexivity|].
      destruct (mandatory_parentheses c || Nat.ltb pu (precedence c)) eqn:Wp; cbn [paren app hd_error]; [exact I|].
      apply orb_false_iff in Wp. destruct Wp as [_ Wp].
      destruct c as [[|z|s|]|x|[] c'|o a b]; cbn [wf_term] in W.
      * exact I.
      * cbn [print_term print_pterm app hd_error].
        destruct (Z.leb_spec 1 z) as [L|L]; [|lia]. rewrite (num_pos_prec z L) in Wp. discriminate.
      * exact W.
      * exact I.
      * exact W.
      * rewrite print_term_un. exact I.
      * rewrite prec_bin in Wp. apply Nat.ltb_ge in Wp. pose proof (pu_lt_pb o). lia.
    + apply lexable_paren; [exact (IH W)|exact SK|eapply kw_tail, KW|exact LK].
  - (* binary *)
    cbn [wf_term] in W. destruct W as [Wl Wr].
    cbn [print_term fmt_operator] in *. rewrite <- !app_assoc in *. cbn [app] in *.
    apply lexable_paren; [exact (IHl Wl)|reflexivity|exact KW|].
    cbn [lexable opnd_after]. split.
    + destruct o; cbn [tok_ok]; auto.
    + apply lexable_paren; [exact (IHr Wr)|exact SK| |exact LK].
      apply kw_app_r in KW. eapply kw_tail, KW.
Qed.

End TermLexable.

Lemma sep_more_terms ts K : sep_head (print_more_terms ts ++ TkRP :: K).
Proof. destruct ts; reflexivity. Qed.

Lemma more_terms_lexable ts : Forall wf_term ts -> forall K,
  kw_clash (print_more_terms ts ++ TkRP :: K) = false -> lexable false K ->
  lexable false (print_more_terms ts ++ TkRP :: K).
Proof.
  induction 1 as [|u ts Wu _ IH]; intros K KW LK.
  - cbn. split; [exact I|exact LK].
  - cbn [print_more_terms flat_map app] in *. fold (print_more_terms ts) in *.
    rewrite <- app_assoc in *.
    cbn [lexable tok_ok opnd_after]. split; [exact I|].
    apply term_lexable; [exact Wu|apply sep_more_terms|eapply kw_tail, KW|].
    apply IH; [|exact LK]. apply kw_tail in KW. eapply kw_app_r, KW.
Qed.

Lemma atom_lexable a : wf_atom a -> forall o K, sep_head K ->
  kw_clash (print_atom a ++ K) = false -> lexable false K -> lexable o (print_atom a ++ K).
Proof.
  destruct a as [p args]. intros [Wp Wa] o K SK KW LK. cbn [apred aterms] in *.
  unfold print_atom in *. cbn [apred aterms] in *.
  destruct args as [|t ts].
  - cbn [app lexable tok_ok opnd_after] in *. split; [|exact LK].
    split; [exact Wp|]. split; [apply sep_head_next, SK|].
    destruct K as [|k K']; [contradiction|]. cbn [hd_error]. intros E. eapply kw_head; eassumption.
  - inversion Wa as [|? ? Wt Wts]; subst.
    cbn [app] in *. rewrite print_terms_cons in *. rewrite <- !app_assoc in *. cbn [app] in *.
    cbn [lexable tok_ok opnd_after hd_error]. split; [split; [exact Wp|split; [reflexivity|reflexivity]]|].
    split; [exact I|].
    apply kw_tail, kw_tail in KW.
    apply term_lexable; [exact Wt|apply sep_more_terms|exact KW|].
    apply more_terms_lexable; [exact Wts|eapply kw_app_r, KW|exact LK].
Qed.

Lemma literal_lexable l : wf_atom (latom l) -> forall K, sep_head K ->
  kw_clash (print_literal l ++ K) = false -> lexable false K -> lexable true (print_literal l ++ K).
Proof.
  destruct l as [s a]. cbn [latom]. intros W K SK KW LK. unfold print_literal in *. cbn [lsign latom] in *.
  rewrite <- app_assoc in *.
  destruct s; cbn [print_sign app] in *.
  - apply atom_lexable; assumption.
  - cbn [lexable tok_ok opnd_after]. split; [exact I|].
    apply atom_lexable; [exact W|exact SK|eapply kw_tail, KW|exact LK].
  - cbn [lexable tok_ok opnd_after]. split; [exact I|]. split; [exact I|].
    apply atom_lexable; [exact W|exact SK|eapply kw_tail, kw_tail, KW|exact LK].
Qed.

Lemma comparison_lexable c : wf_term (clhs c) /\ wf_term (crhs c) -> forall K, sep_head K ->
  kw_clash (print_comparison c ++ K) = false -> lexable false K ->
  lexable true (print_comparison c ++ K).
Proof.
  destruct c as [rel l r]. cbn [clhs crhs]. intros [Wl Wr] K SK KW LK.
  unfold print_comparison in *. cbn [crel clhs crhs] in *. rewrite <- app_assoc in *. cbn [app] in *.
  apply term_lexable; [exact Wl|reflexivity|exact KW|].
  cbn [lexable tok_ok opnd_after]. split; [exact I|].
  apply term_lexable; [exact Wr|exact SK| |exact LK].
  apply kw_app_r in KW. eapply kw_tail, KW.
Qed.

Lemma bformula_lexable f : wf_bformula f -> forall K, sep_head K ->
  kw_clash (print_bformula f ++ K) = false -> lexable false K ->
  lexable true (print_bformula f ++ K).
Proof.
  destruct f as [l|c]; cbn [wf_bformula print_bformula]; intros W K SK KW LK.
  - apply literal_lexable; assumption.
  - apply comparison_lexable; assumption.
Qed.

Lemma sep_more_bformulas fs REST : sep_head (print_more_bformulas fs ++ TkDot :: REST).
Proof. destruct fs; reflexivity. Qed.

Lemma more_bformulas_lexable fs : Forall wf_bformula fs -> forall REST,
  kw_clash (print_more_bformulas fs ++ TkDot :: REST) = false -> lexable true REST ->
  lexable false (print_more_bformulas fs ++ TkDot :: REST).
Proof.
  induction 1 as [|g fs Wg _ IH]; intros REST KW LR.
  - cbn. split; [exact I|exact LR].
  - cbn [print_more_bformulas flat_map app] in *. fold (print_more_bformulas fs) in *.
    rewrite <- app_assoc in *.
    cbn [lexable tok_ok opnd_after]. split; [exact I|].
    apply bformula_lexable; [exact Wg|apply sep_more_bformulas|eapply kw_tail, KW|].
    apply IH; [|exact LR]. apply kw_tail in KW. eapply kw_app_r, KW.
Qed.

Lemma body_lexable b : Forall wf_bformula b -> forall REST,
  kw_clash (print_body b ++ TkDot :: REST) = false -> lexable true REST ->
  lexable true (print_body b ++ TkDot :: REST).
Proof.
  intros W REST KW LR. destruct b as [|f fs].
  - cbn. split; [exact I|exact LR].
  - inversion W as [|? ? Wf Wfs]; subst. rewrite print_body_cons in *. rewrite <- app_assoc in *.
    apply bformula_lexable; [exact Wf|apply sep_more_bformulas|exact KW|].
    apply more_bformulas_lexable; [exact Wfs|eapply kw_app_r, KW|exact LR].
Qed.

(* [":-"] body "."  is lexable in either state (it follows an atom, "}" or nothing) *)
Lemma rule_tail_lexable (c : bool) b REST o : Forall wf_bformula b -> (c = false -> b = []) ->
  kw_clash ((if c then [TkIf] else []) ++ print_body b ++ TkDot :: REST) = false ->
  lexable true REST ->
  lexable o ((if c then [TkIf] else []) ++ print_body b ++ TkDot :: REST).
Proof.
  intros W Hc KW LR. destruct c; cbn [app] in *.
  - cbn [lexable tok_ok opnd_after]. split; [exact I|].
    apply body_lexable; [exact W|eapply kw_tail, KW|exact LR].
  - rewrite (Hc eq_refl) in *. cbn. split; [exact I|exact LR].
Qed.

Lemma sep_rule_tail (c : bool) b REST : sep_head ((if c then [TkIf] else []) ++ print_body b ++ TkDot :: REST) \/ (c = false /\ b <> []).
Proof.
  destruct c; [left; reflexivity|]. destruct b as [|f fs]; [left; reflexivity|right; split; [reflexivity|discriminate]].
Qed.

Lemma rule_lexable r : wf_rule r -> forall REST,
  kw_clash (print_rule r ++ REST) = false -> lexable true REST -> lexable true (print_rule r ++ REST).
Proof.
  destruct r as [h b]. intros [Wh Wb] REST KW LR. cbn [rhead rbody] in *.
  unfold print_rule in *. cbn [rhead rbody] in *. rewrite <- !app_assoc in *. cbn [app] in *.
  set (c := is_falsity h || negb (is_nil b)) in *.
  assert (Hc : c = false -> b = []).
  { subst c. intros E. apply orb_false_iff in E. destruct E as [_ E]. destruct b; [reflexivity|discriminate]. }
  assert (ST : sep_head ((if c then [TkIf] else []) ++ print_body b ++ TkDot :: REST)).
  { destruct (sep_rule_tail c b REST) as [S|[E N]]; [exact S|]. exfalso. apply N, Hc, E. }
  destruct h as [a|a|]; cbn [print_head wf_head] in *.
  - apply atom_lexable; [exact Wh|exact ST|exact KW|].
    apply rule_tail_lexable; [exact Wb|exact Hc|eapply kw_app_r, KW|exact LR].
  - cbn [app] in *. rewrite <- app_assoc in *. cbn [app] in *.
    cbn [lexable tok_ok opnd_after]. split; [exact I|].
    apply atom_lexable; [exact Wh|reflexivity|eapply kw_tail, KW|].
    cbn [lexable tok_ok opnd_after]. split; [exact I|].
    apply kw_tail, kw_app_r, kw_tail in KW.
    apply rule_tail_lexable; [exact Wb|exact Hc|exact KW|exact LR].
  - cbn [app] in *. apply rule_tail_lexable; [exact Wb|exact Hc|exact KW|exact LR].
Qed.

Lemma program_lexable p : wf_program p -> kw_clash (print_program p) = false -> lexable true (print_program p).
Proof.
  induction 1 as [|r p Wr _ IH]; intros KW; [exact I|].
  cbn [print_program flat_map] in *. fold (print_program p) in *.
  apply rule_lexable; [exact Wr|exact KW|]. apply IH. eapply kw_app_r, KW.
Qed.

(* ================================================================ G. the lexer reads the printed bytes back *)

Theorem lex_render_program p : wf_program p -> keyword_ident p = false ->
  lex (render (print_program p)) = Some (print_program p).
Proof. intros W K. apply lexable_lex, program_lexable; assumption. Qed.

Theorem text_roundtrip p : wf_program p -> program_numerals_ok p = true -> keyword_ident p = false ->
  parse_program_text (display_program p) = POk p.
Proof.
  intros W N K. apply text_roundtrip_given_lex; [|exact N].
  apply lex_render_program; assumption.
Qed.
