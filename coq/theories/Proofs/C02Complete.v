(* C02, the converse of C02_countermodel_sound (audit A3): from a behavioural difference stated over
   the PUBLIC part only - an external stable model T of one program such that no interpretation with
   T's public part is an external stable model of the other - ONE interpretation M is constructed
   that refutes an emitted problem.  M carries T on the vocabulary of the specification side, and
   the supported private extension of the other side (C02_private_extension_exists) under the
   names the private predicates of the program have in the problems (renamed p |-> p_p when both
   sides have a private p).  The construction is faithful when those names are pairwise distinct and
   none of them is a predicate of the specification side or public: [rename_faithful] (its failure
   is the class of finding F9 and its cross-side variant). *)
From Coq Require Import List Ascii String ZArith NArith Bool Lia Classical_Prop.
From Anthem Require Import Base.ISet Syntax.Fol Syntax.Asp Sem.Domain Sem.Sat Sem.AspRef
  Model.Problem Model.Outline Model.Strong Model.External Model.Tightness Model.PrivRec Model.TauStar
  Model.Completion Model.ExternalFull
  Proofs.ExtendAll Proofs.SemBase Proofs.DecomposeOk Proofs.StrongOk Proofs.ExternalOk Proofs.AssemblyOk Proofs.RenameOk
  Proofs.TightnessOk Proofs.TauStarClassical Proofs.CompletionOk Proofs.FagesBridge Proofs.PlaceholderOk
  Proofs.PrivateUnique Proofs.C19Ext Proofs.C02Ok Proofs.C02Full Proofs.HeadPred Proofs.HeadPredPipeline Proofs.C02Priv
  Proofs.C02Behaviour.
Import ListNotations.
Open Scope string_scope.
Open Scope list_scope.

(* ---------- supportedness depends only on the program's predicates ---------- *)
Lemma supported_agree (M1 M2 : pint) (P : program) (priv : list pred) :
  (forall q, In q (program_preds P) -> agree_on M1 M2 q) ->
  (forall p, In p priv -> In p (program_preds P)) ->
  priv_supported M1 P priv -> priv_supported M2 P priv.
Proof.
  intros Hag Hin S1 p Hp d Hl.
  rewrite <- (Hag p (Hin p Hp) d Hl), (S1 p Hp d Hl).
  split; intros [r [a [sg [Hr [Hh [Ha [Hv Hb]]]]]]]; exists r, a, sg; repeat split; auto;
    apply (body_sat_agree M1 M2 sg (rbody r)); auto;
    intros l Hlit; apply Hag; eapply body_in_program_preds; eauto.
Qed.

Lemma memb_false_not_in {A} (dec : forall x y : A, {x = y} + {x <> y}) (x : A) (l : list A) :
  memb dec x l = false -> ~ In x l.
Proof. destruct (memb_spec dec x l); [discriminate|auto]. Qed.
Lemma not_in_memb_false {A} (dec : forall x y : A, {x = y} + {x <> y}) (x : A) (l : list A) :
  ~ In x l -> memb dec x l = false.
Proof. destruct (memb_spec dec x l); [contradiction|reflexivity]. Qed.

(* ---------- the renaming is the identity outside the mapping ---------- *)
Lemma rn_lookup_none (l : list pred) (q : pred) : ~ In q l -> rn_lookup (map (fun p => (p, "p")) l) q = None.
Proof.
  induction l as [|x l IH]; intros Hn; cbn; [reflexivity|].
  destruct (pred_eqb_spec x q) as [->|_]; [exfalso; apply Hn; left; reflexivity|].
  apply IH. intros H. apply Hn. right. exact H.
Qed.

Section Complete.
Variable fuel : nat.
Notation translate := (theory_translate tau_star_total completion (simp_classic_total fuel)).
Notation tl := (task_left tau_star_total completion (simp_classic_total fuel)).
Notation tr := (task_right tau_star_total completion (simp_classic_total fuel)).
Notation ug_assumptions t :=
  (map (fun a => rp_formula (task_placeholders t) (an_formula a)) (filter is_assumption (ug_formulas (et_user_guide t)))).

(* class exclusions of the converse ([ext_voc_public]: the predicates of the specification program and
   ALL public predicates - the class is the one it was before /repo 18b2e85) *)
(* the names under which the program's private predicates occur in the problems are pairwise
   distinct, and none of them is a predicate of the specification program or public *)
Definition rename_faithful (t : ext_task) (L : program) : Prop :=
  (forall p n, In (mkpred p n) (task_prog_private t) ->
               ~ In (mkpred (rn_name (task_mapping t) p n) n) (ext_voc_public t L)) /\
  no_rename_clash (task_mapping t) (task_prog_private t).
(* the assumptions of the user guide speak about input predicates only *)
Definition ug_over_inputs (t : ext_task) : Prop :=
  forall a, In a (ug_formulas (et_user_guide t)) -> is_assumption a = true ->
            incl (predicates (an_formula a)) (task_inputs t).

Lemma mapping_public t p n :
  In (mkpred p n) (ug_public_predicates (et_user_guide t)) -> rn_name (task_mapping t) p n = p.
Proof.
  intros Hp. unfold rn_name, task_mapping. rewrite rn_lookup_none; [reflexivity|].
  unfold iset_inter, task_spec_private. intros H. apply filter_In in H. destruct H as [H _].
  destruct (et_specification t); unfold private_predicates in H; apply filter_In in H; destruct H as [_ H];
    apply negb_true_iff in H; revert H;
    destruct (memb_spec pred_dec (mkpred p n) (ug_public_predicates (et_user_guide t))); try discriminate; contradiction.
Qed.

(* external stability depends only on the program's vocabulary *)
Lemma ext_stable_pagree t P G th FI N1 N2 :
  is_tight P = true ->
  (forall r h, In r P -> head_pred (rhead r) = Some h -> ~ In h (task_inputs t)) ->
  c_io_disjoint t = true ->
  TauStar.tau_star P = Some G -> translate t (task_placeholders t) P = Some th ->
  pagree (ext_voc t P) N1 N2 -> (ext_stable_full t FI N1 P <-> ext_stable_full t FI N2 P).
Proof.
  intros Ht Hins Hout Hts Htr Hag.
  rewrite <- (translate_meaning_full fuel t P G th Ht Hins Hout Hts Htr FI N1),
          <- (translate_meaning_full fuel t P G th Ht Hins Hout Hts Htr FI N2).
  apply (translated_pagree fuel t P G th FI N1 N2 Hts Htr Hag).
Qed.

Lemma ug_assumptions_pagree t FI N1 N2 :
  ug_over_inputs t ->
  (forall q, In q (task_inputs t) -> agree_on N1 N2 q) ->
  tvalid FI N1 (ug_assumptions t) -> tvalid FI N2 (ug_assumptions t).
Proof.
  intros Hov Hag H f Hf e. apply in_map_iff in Hf. destruct Hf as [a [<- Ha]]. apply filter_In in Ha. destruct Ha as [Ha Hr].
  apply (csat_pagree FI N1 N2); [|apply H; apply in_map_iff; exists a; split; [reflexivity|apply filter_In; auto]].
  intros p d Hin. rewrite rp_predicates in Hin. apply (Hag _ (Hov a Ha Hr _ Hin) d eq_refl).
Qed.

(* ---------- forward: T is an external stable model of the specification program ---------- *)
Theorem countermodel_complete_forward t L w pbs lft rgt :
  et_specification t = inl L -> et_proof_outline t = [] ->
  external_decompose_full fuel t = XOk w pbs ->
  is_tight L = true -> is_tight (et_program t) = true ->
  tl t L = Some lft -> tr t = Some rgt ->
  (forall vt, task_validated tau_star_total completion (simp_classic_total fuel) t = Some vt -> validated_no_clash vt) ->
  rename_faithful t L -> ug_over_inputs t ->
  forall FI T,
    tvalid FI T (ug_assumptions t) ->
    dir_forward (et_direction t) = true ->
    ext_stable_full t FI T L ->
    (~ exists N, pub_agree t N T /\ ext_stable_full t FI N (et_program t)) ->
    exists M, pub_agree t M T /\ refutes_some FI M pbs.
Proof.
  intros Hs Ho Hfull HtL HtR El Er Hn [HC1 HC2] Hov FI T Hug Hdir HstL Hno.
  destruct (full_ok_inv fuel t w pbs Hfull) as [[w0 Hv] [_ [[GR HGR] HGL]]].
  destruct (HGL L Hs) as [GL HGL'].
  destruct (validate_conditions _ _ t w0 Hv) as [_ [Hpr [Hhead [HoL _]]]]. pose proof HoL as HoR.
  unfold c_no_private_recursion in Hpr. rewrite Hs in Hpr. apply andb_true_iff in Hpr.
  destruct Hpr as [HpR HpL]. apply negb_true_iff in HpR, HpL.
  unfold c_no_input_in_head in Hhead. rewrite Hs in Hhead. apply andb_true_iff in Hhead. destruct Hhead as [HhR HhL].
  pose proof El as El0. pose proof Er as Er0.
  unfold task_left in El. destruct (translate t (task_placeholders t) L) as [thl|] eqn:Etl; [|discriminate].
  unfold task_right in Er. destruct (translate t (task_placeholders t) (et_program t)) as [thr|] eqn:Etr; [|discriminate].
  set (m := task_mapping t) in *. set (ph := task_placeholders t) in *.
  set (R := et_program t) in *. set (public := ug_public_predicates (et_user_guide t)) in *.
  set (privR := task_prog_private t) in *.
  assert (HprivR : forall q, In q privR -> In q (program_preds R) /\ ~ In q public).
  { intros q Hq. unfold privR, task_prog_private, private_predicates in Hq. apply filter_In in Hq. destruct Hq as [H1 H2].
    split; [exact H1|]. apply negb_true_iff in H2. exact (memb_false_not_in _ _ _ H2). }
  (* the supported private extension of the program side over T's public part *)
  assert (HpR' : has_private_recursion (ph_program FI ph R) privR = false) by (rewrite ph_has_private_recursion; exact HpR).
  destruct (private_extension_exists (ph_program FI ph R) privR T HpR') as [M' [HM1 HM2]].
  set (M := fun (r : string) (a : list gval) =>
              (T r a /\ In (mkpred r (List.length a)) (ext_voc_public t L)) \/
              (exists p, In (mkpred p (List.length a)) privR /\ rn_name m p (List.length a) = r /\ M' p a)).
  (* F1: on the vocabulary of the specification side M is T *)
  assert (F1 : pagree (ext_voc_public t L) M T).
  { intros r a Hin. unfold M. split.
    - intros [[H _]|[p [Hp [E _]]]]; [exact H|]. exfalso. apply (HC1 p _ Hp). fold m. rewrite E. exact Hin.
    - intros H. left. auto. }
  (* F2: read through the renaming, M is M' on the private predicates of the program *)
  assert (F2 : forall p a, In (mkpred p (List.length a)) privR -> (reindex m M p a <-> M' p a)).
  { intros p a Hp. unfold reindex, M. split.
    - intros [[_ Hin]|[p' [Hp' [E H]]]]; [exfalso; exact (HC1 p _ Hp Hin)|].
      rewrite (HC2 p p' _ Hp Hp' (eq_sym E)). exact H.
    - intros H. right. exists p. auto. }
  assert (Hpub_voc : forall q, In q public -> In q (ext_voc_public t L)).
  { intros q Hq. unfold ext_voc_public. apply in_or_app. right. exact Hq. }
  (* F3: on the public predicates M and its re-indexing are T *)
  assert (F3 : forall p a, In (mkpred p (List.length a)) public -> (M p a <-> T p a) /\ (reindex m M p a <-> T p a)).
  { intros p a Hq. assert (E : M p a <-> T p a) by (apply (F1 p a); apply Hpub_voc; exact Hq).
    split; [exact E|]. unfold reindex. pose proof (mapping_public t p _ Hq) as Em. fold m in Em. rewrite Em. exact E. }
  (* F4: read through the renaming, M is M' on every predicate of the program *)
  assert (F4 : forall q, In q (program_preds R) -> agree_on (reindex m M) M' q).
  { intros [p n] Hq d Hl. cbn in *. subst n.
    destruct (in_dec pred_dec (mkpred p (List.length d)) privR) as [Hp|Hp]; [apply F2; exact Hp|].
    assert (Hpubq : In (mkpred p (List.length d)) public).
    { destruct (in_dec pred_dec (mkpred p (List.length d)) public) as [H|H]; [exact H|]. exfalso. apply Hp.
      unfold privR, task_prog_private, private_predicates. apply filter_In. split; [exact Hq|]. apply negb_true_iff.
      apply not_in_memb_false. exact H. }
    rewrite (proj2 (F3 p d Hpubq)), (HM1 p d Hp). reflexivity. }
  exists M. split.
  { intros q Hq d Hl. destruct q as [p n]. cbn in *. subst n. apply (proj1 (F3 p d Hq)). }
  (* the premises of C02_behaviour for M *)
  assert (HugM : tvalid FI M (ug_assumptions t)).
  { apply (ug_assumptions_pagree t FI T M Hov); [|exact Hug].
    intros [p n] Hq d Hl. cbn in *. subst n. symmetry. refine (proj1 (F3 p d _)).
    unfold public, ug_public_predicates. apply in_iset_extend. left. exact Hq. }
  assert (HstM : ext_stable_full t FI M L).
  { apply (ext_stable_pagree t L GL thl FI M T HtL (no_input_in_head t L HhL) HoL HGL' Etl
             (fun p a H => F1 p a (ext_voc_incl_public t L _ H))). exact HstL. }
  assert (Hal : tvalid FI M (assumptions_of lft)).
  { injection El as <-.
    apply (translate_meaning_full fuel t L GL thl HtL (no_input_in_head t L HhL) HoL HGL' Etl FI M) in HstM.
    pose proof (control_translate_forms public thl 0) as Ef. fold (control_translate public thl) in Ef.
    rewrite <- Ef in HstM. apply (translated_split FI M _ (control_translate_translated public thl 0)) in HstM. tauto. }
  assert (Har : tvalid FI M (assumptions_of rgt)).
  { apply (proj2 (accepted_assumptions_supported fuel t L w pbs lft rgt Hs Hfull El0 Er0 FI M)).
    fold m ph R privR.
    apply (supported_agree M' (reindex m M) (ph_program FI ph R) privR); [| |exact HM2].
    - intros q Hq d Hl. symmetry. rewrite ph_program_preds in Hq. apply (F4 q Hq d Hl).
    - intros p Hp. rewrite ph_program_preds. apply (HprivR p Hp). }
  apply (proj2 (C02_behaviour_proof fuel t L w pbs lft rgt Hs Ho Hfull HtL HtR El0 Er0 Hn FI M HugM Hal Har)).
  left. split; [exact Hdir|]. split; [exact HstM|].
  intros [N [HNpub HNst]]. apply Hno. exists N. split; [|exact HNst].
  intros q Hq d Hl. rewrite (HNpub q Hq d Hl). destruct q as [p n]. cbn in *. subst n. apply (proj2 (F3 p d Hq)).
Qed.

(* ---------- backward: T is an external stable model of the program ---------- *)
Theorem countermodel_complete_backward t L w pbs lft rgt :
  et_specification t = inl L -> et_proof_outline t = [] ->
  external_decompose_full fuel t = XOk w pbs ->
  is_tight L = true -> is_tight (et_program t) = true ->
  tl t L = Some lft -> tr t = Some rgt ->
  (forall vt, task_validated tau_star_total completion (simp_classic_total fuel) t = Some vt -> validated_no_clash vt) ->
  rename_faithful t L -> ug_over_inputs t ->
  forall FI T,
    tvalid FI T (ug_assumptions t) ->
    dir_backward (et_direction t) = true ->
    ext_stable_full t FI T (et_program t) ->
    (~ exists N, pub_agree t N T /\ ext_stable_full t FI N L) ->
    exists M, pub_agree t M T /\ refutes_some FI M pbs.
Proof.
  intros Hs Ho Hfull HtL HtR El Er Hn [HC1 HC2] Hov FI T Hug Hdir HstR Hno.
  destruct (full_ok_inv fuel t w pbs Hfull) as [[w0 Hv] [_ [[GR HGR] HGL]]].
  destruct (HGL L Hs) as [GL HGL'].
  destruct (validate_conditions _ _ t w0 Hv) as [_ [Hpr [Hhead [HoL _]]]]. pose proof HoL as HoR.
  unfold c_no_private_recursion in Hpr. rewrite Hs in Hpr. apply andb_true_iff in Hpr.
  destruct Hpr as [HpR HpL]. apply negb_true_iff in HpR, HpL.
  unfold c_no_input_in_head in Hhead. rewrite Hs in Hhead. apply andb_true_iff in Hhead. destruct Hhead as [HhR HhL].
  pose proof El as El0. pose proof Er as Er0.
  unfold task_left in El. destruct (translate t (task_placeholders t) L) as [thl|] eqn:Etl; [|discriminate].
  unfold task_right in Er. destruct (translate t (task_placeholders t) (et_program t)) as [thr|] eqn:Etr; [|discriminate].
  set (m := task_mapping t) in *. set (ph := task_placeholders t) in *.
  set (R := et_program t) in *. set (public := ug_public_predicates (et_user_guide t)) in *.
  set (privR := task_prog_private t) in *.
  assert (EprivL : task_spec_private t = private_predicates public (program_preds L)).
  { unfold task_spec_private. rewrite Hs. reflexivity. }
  set (privL := private_predicates public (program_preds L)) in *.
  assert (HprivL : forall q, In q privL -> In q (program_preds L) /\ ~ In q public).
  { intros q Hq. unfold privL, private_predicates in Hq. apply filter_In in Hq. destruct Hq as [H1 H2].
    split; [exact H1|]. apply negb_true_iff in H2. exact (memb_false_not_in _ _ _ H2). }
  (* the supported private extension of the specification side over T's public part *)
  rewrite EprivL in HpL.
  assert (HpL' : has_private_recursion (ph_program FI ph L) privL = false) by (rewrite ph_has_private_recursion; exact HpL).
  destruct (private_extension_exists (ph_program FI ph L) privL T HpL') as [M' [HM1 HM2]].
  set (M := fun (r : string) (a : list gval) =>
              (M' r a /\ In (mkpred r (List.length a)) (ext_voc_public t L)) \/
              (exists p, In (mkpred p (List.length a)) privR /\ rn_name m p (List.length a) = r /\ T p a)).
  assert (F1 : pagree (ext_voc_public t L) M M').
  { intros r a Hin. unfold M. split.
    - intros [[H _]|[p [Hp [E _]]]]; [exact H|]. exfalso. apply (HC1 p _ Hp). fold m. rewrite E. exact Hin.
    - intros H. left. auto. }
  assert (F2 : forall p a, In (mkpred p (List.length a)) privR -> (reindex m M p a <-> T p a)).
  { intros p a Hp. unfold reindex, M. split.
    - intros [[_ Hin]|[p' [Hp' [E H]]]]; [exfalso; exact (HC1 p _ Hp Hin)|].
      rewrite (HC2 p p' _ Hp Hp' (eq_sym E)). exact H.
    - intros H. right. exists p. auto. }
  assert (Hpub_voc : forall q, In q public -> In q (ext_voc_public t L)).
  { intros q Hq. unfold ext_voc_public. apply in_or_app. right. exact Hq. }
  assert (F3 : forall p a, In (mkpred p (List.length a)) public -> (M p a <-> T p a) /\ (reindex m M p a <-> T p a)).
  { intros p a Hq.
    assert (E : M p a <-> T p a).
    { rewrite (F1 p a (Hpub_voc _ Hq)). apply HM1. intros Hp. exact (proj2 (HprivL _ Hp) Hq). }
    split; [exact E|]. unfold reindex. pose proof (mapping_public t p _ Hq) as Em. fold m in Em. rewrite Em. exact E. }
  assert (F4 : pagree (ext_voc_public t R) (reindex m M) T).
  { intros p a Hin. unfold ext_voc_public in Hin. apply in_app_or in Hin.
    destruct (in_dec pred_dec (mkpred p (List.length a)) privR) as [Hp|Hp]; [apply F2; exact Hp|].
    assert (Hpubq : In (mkpred p (List.length a)) public).
    { destruct Hin as [Hin|Hin]; [|exact Hin].
      destruct (in_dec pred_dec (mkpred p (List.length a)) public) as [H|H]; [exact H|]. exfalso. apply Hp.
      unfold privR, task_prog_private, private_predicates. apply filter_In. split; [exact Hin|]. apply negb_true_iff.
      apply not_in_memb_false. exact H. }
    apply (proj2 (F3 p a Hpubq)). }
  exists M. split.
  { intros q Hq d Hl. destruct q as [p n]. cbn in *. subst n. apply (proj1 (F3 p d Hq)). }
  assert (HugM : tvalid FI M (ug_assumptions t)).
  { apply (ug_assumptions_pagree t FI T M Hov); [|exact Hug].
    intros [p n] Hq d Hl. cbn in *. subst n. symmetry. refine (proj1 (F3 p d _)).
    unfold public, ug_public_predicates. apply in_iset_extend. left. exact Hq. }
  assert (HstM : ext_stable_full t FI (reindex m M) R).
  { apply (ext_stable_pagree t R GR thr FI (reindex m M) T HtR (no_input_in_head t R HhR) HoR HGR Etr
             (fun p a H => F4 p a (ext_voc_incl_public t R _ H))). exact HstR. }
  assert (Hal : tvalid FI M (assumptions_of lft)).
  { apply (proj1 (accepted_assumptions_supported fuel t L w pbs lft rgt Hs Hfull El0 Er0 FI M)).
    fold ph. rewrite EprivL.
    apply (supported_agree M' M (ph_program FI ph L) privL); [| |exact HM2].
    - intros [p n] Hq d Hl. cbn in *. subst n. symmetry. rewrite ph_program_preds in Hq. apply (F1 p d).
      unfold ext_voc_public. apply in_or_app. left. exact Hq.
    - intros p Hp. rewrite ph_program_preds. apply (HprivL p Hp). }
  assert (Har : tvalid FI M (assumptions_of rgt)).
  { injection Er as <-.
    apply (translate_meaning_full fuel t R GR thr HtR (no_input_in_head t R HhR) HoR HGR Etr FI (reindex m M)) in HstM.
    pose proof (control_translate_forms public thr 0) as Ef. fold (control_translate public thr) in Ef.
    rewrite <- Ef in HstM. apply (translated_split FI _ _ (control_translate_translated public thr 0)) in HstM.
    destruct HstM as [Ha _].
    assert (E : assumptions_of (map (rename_predicates_annot m) (control_translate public thr))
                = map (rename_predicates m) (assumptions_of (control_translate public thr))).
    { unfold assumptions_of. generalize (control_translate public thr).
      intros l. induction l as [|a l IH]; cbn; [reflexivity|]. destruct (an_role a); cbn; rewrite IH; reflexivity. }
    rewrite E. apply tvalid_rename. exact Ha. }
  apply (proj2 (C02_behaviour_proof fuel t L w pbs lft rgt Hs Ho Hfull HtL HtR El0 Er0 Hn FI M HugM Hal Har)).
  right. split; [exact Hdir|]. split; [exact HstM|].
  intros [N [HNpub HNst]]. apply Hno. exists N. split; [|exact HNst].
  intros q Hq d Hl. rewrite (HNpub q Hq d Hl). destruct q as [p n]. cbn in *. subst n. apply (proj1 (F3 p d Hq)).
Qed.
(* ---------- both directions together ---------- *)
(* a difference in external behaviour, stated over the public part only: T is an external stable
   model of one program (satisfying the user-guide assumptions) and no interpretation with T's
   public part is an external stable model of the other, for an enabled direction *)
Definition behavioural_difference (t : ext_task) (L : program) (FI : fint) (T : pint) : Prop :=
  tvalid FI T (ug_assumptions t) /\
  ((dir_forward (et_direction t) = true /\ ext_stable_full t FI T L /\
    ~ exists N, pub_agree t N T /\ ext_stable_full t FI N (et_program t)) \/
   (dir_backward (et_direction t) = true /\ ext_stable_full t FI T (et_program t) /\
    ~ exists N, pub_agree t N T /\ ext_stable_full t FI N L)).

Theorem countermodel_complete t L w pbs lft rgt :
  et_specification t = inl L -> et_proof_outline t = [] ->
  external_decompose_full fuel t = XOk w pbs ->
  is_tight L = true -> is_tight (et_program t) = true ->
  tl t L = Some lft -> tr t = Some rgt ->
  (forall vt, task_validated tau_star_total completion (simp_classic_total fuel) t = Some vt -> validated_no_clash vt) ->
  rename_faithful t L -> ug_over_inputs t ->
  forall FI T, behavioural_difference t L FI T -> exists M, pub_agree t M T /\ refutes_some FI M pbs.
Proof.
  intros Hs Ho Hfull HtL HtR El Er Hn Hrf Hov FI T [Hug [[Hd [H1 H2]]|[Hd [H1 H2]]]].
  - exact (countermodel_complete_forward t L w pbs lft rgt Hs Ho Hfull HtL HtR El Er Hn Hrf Hov FI T Hug Hd H1 H2).
  - exact (countermodel_complete_backward t L w pbs lft rgt Hs Ho Hfull HtL HtR El Er Hn Hrf Hov FI T Hug Hd H1 H2).
Qed.

(* the property: the emitted problems are refuted by some interpretation exactly when the programs
   differ in external behaviour *)
Theorem external_equivalence_iff t L w pbs lft rgt :
  et_specification t = inl L -> et_proof_outline t = [] ->
  external_decompose_full fuel t = XOk w pbs ->
  is_tight L = true -> is_tight (et_program t) = true ->
  tl t L = Some lft -> tr t = Some rgt ->
  (forall vt, task_validated tau_star_total completion (simp_classic_total fuel) t = Some vt -> validated_no_clash vt) ->
  rename_faithful t L -> ug_over_inputs t ->
  forall FI, (exists M, refutes_some FI M pbs) <-> (exists T, behavioural_difference t L FI T).
Proof.
  intros Hs Ho Hfull HtL HtR El Er Hn Hrf Hov FI. split.
  - intros [M Href].
    pose proof (C02_countermodel_proof fuel t L w pbs lft rgt Hs Ho Hfull HtL HtR El Er Hn FI M Href) as Hd.
    (* the user-guide assumptions are axioms of every problem *)
    assert (Hug : tvalid FI M (ug_assumptions t)).
    { destruct (full_ok_inv fuel t w pbs Hfull) as [_ [Hdt _]].
      destruct (external_validated is_tight has_private_recursion tau_star_total completion (simp_classic_total fuel)
                  t L w pbs Hs Ho Hdt) as [lft' [rgt' [uga [w' [El' [Er' [Eu [Hv Htv]]]]]]]].
      rewrite El in El'. injection El' as <-. rewrite Er in Er'. injection Er' as <-.
      assert (Tl : translated lft).
      { unfold task_left in El. destruct (translate t (task_placeholders t) L); [|discriminate]. injection El as <-.
        apply control_translate_translated. }
      assert (Tr : translated rgt).
      { unfold task_right in Er. destruct (translate t (task_placeholders t) (et_program t)); [|discriminate]. injection Er as <-.
        apply rename_translated, control_translate_translated. }
      destruct (refuted_stable_premises _ w' pbs Hv eq_refl (Hn _ Htv) Tl Tr FI M Href) as [Hu _].
      cbn in Hu. rewrite Eu in Hu. exact Hu. }
    assert (Hpubr : forall N, pub_agree t N (reindex (task_mapping t) M) <-> pub_agree t N M).
    { intros N. split; intros H q Hq d Hl; rewrite (H q Hq d Hl); destruct q as [p n]; cbn in *; subst n;
        unfold reindex; rewrite (mapping_public t p _ Hq); reflexivity. }
    destruct Hd as [[Hd [H1 H2]]|[Hd [H1 H2]]].
    + exists M. split; [exact Hug|]. left. split; [exact Hd|]. split; [exact H1|].
      intros [N [HN1 HN2]]. apply H2. exists N. split; [apply Hpubr; exact HN1|exact HN2].
    + exists (reindex (task_mapping t) M). split.
      * apply (ug_assumptions_pagree t FI M _ Hov); [|exact Hug].
        intros [p n] Hq d Hl. cbn in *. subst n. unfold reindex. rewrite (mapping_public t p); [reflexivity|].
        unfold ug_public_predicates. apply in_iset_extend. left. exact Hq.
      * right. split; [exact Hd|]. split; [exact H1|].
        intros [N [HN1 HN2]]. apply H2. exists N. split; [apply Hpubr; exact HN1|exact HN2].
  - intros [T HT].
    destruct (countermodel_complete t L w pbs lft rgt Hs Ho Hfull HtL HtR El Er Hn Hrf Hov FI T HT) as [M [_ HM]].
    exists M. exact HM.
Qed.

(* ---------- the two class conditions are decidable ---------- *)
Definition rename_faithfulb (t : ext_task) (L : program) : bool :=
  let m := task_mapping t in let privR := task_prog_private t in
  forallb (fun q => negb (memb pred_dec (mkpred (rn_name m (psym q) (parity q)) (parity q)) (ext_voc_public t L))) privR
  && forallb (fun q => forallb (fun q' =>
        negb (Nat.eqb (parity q) (parity q') && String.eqb (rn_name m (psym q) (parity q)) (rn_name m (psym q') (parity q')))
        || String.eqb (psym q) (psym q')) privR) privR.
Lemma rename_faithfulb_ok t L : rename_faithfulb t L = true -> rename_faithful t L.
Proof.
  unfold rename_faithfulb, rename_faithful. cbv zeta. rewrite andb_true_iff, !forallb_forall. intros [H1 H2]. split.
  - intros p n Hp. specialize (H1 _ Hp). cbn in H1. apply negb_true_iff in H1. exact (memb_false_not_in _ _ _ H1).
  - intros p p' n Hp Hp' E. specialize (H2 _ Hp). rewrite forallb_forall in H2. specialize (H2 _ Hp'). cbn in H2.
    rewrite Nat.eqb_refl, E, String.eqb_refl in H2. cbn in H2. apply String.eqb_eq. exact H2.
Qed.
Definition ug_over_inputsb (t : ext_task) : bool :=
  forallb (fun a => negb (is_assumption a) || forallb (fun q => memb pred_dec q (task_inputs t)) (predicates (an_formula a)))
          (ug_formulas (et_user_guide t)).
Lemma ug_over_inputsb_ok t : ug_over_inputsb t = true -> ug_over_inputs t.
Proof.
  unfold ug_over_inputsb, ug_over_inputs. rewrite forallb_forall. intros H a Ha Hr q Hq.
  specialize (H a Ha). rewrite Hr in H. cbn in H. rewrite forallb_forall in H. specialize (H q Hq).
  destruct (memb_spec pred_dec q (task_inputs t)); [assumption|discriminate].
Qed.
End Complete.
