(* Vocabulary of the natural translation: the formula of a rule mentions only the predicates
   (symbol/arity) of the rule.  Needed by the composition of the strong-equivalence pipeline
   (gamma is only meaning-preserving on a vocabulary on which the h-extents are included in the
   t-extents, and the transition axioms force that inclusion on the programs' predicates only). *)
From Coq Require Import List String Bool.
From Anthem Require Import Base.ISet Syntax.Fol Syntax.Asp Model.Natural Proofs.ExtendAll Proofs.TauStarClassical.
Import ListNotations.
Open Scope list_scope.

Lemma collect_options_forall2 {A B} (f : A -> option B) l : forall m, collect_options f l = Some m ->
  Forall2 (fun x y => f x = Some y) l m.
Proof.
  induction l as [|x l IH]; intros m; cbn [collect_options].
  - intros [= <-]. constructor.
  - destruct (f x) eqn:Ex; [|discriminate]. destruct (collect_options f l) eqn:El; [|discriminate].
    intros [= <-]. constructor; auto.
Qed.
Lemma forall2_length {A B} (R : A -> B -> Prop) l m : Forall2 R l m -> List.length l = List.length m.
Proof. induction 1; cbn; auto. Qed.
Lemma forall2_in_r {A B} (R : A -> B -> Prop) l m : Forall2 R l m -> forall y, In y m -> exists x, In x l /\ R x y.
Proof.
  induction 1 as [|x y l m Hxy _ IH]; intros z; cbn; [tauto|].
  intros [<-|Hz]; [eauto|]. destruct (IH z Hz) as [x' [Hx' Hr]]. eauto.
Qed.

Lemma natural_comparison_predicates c iv f : natural_comparison c iv = Some f -> predicates f = [].
Proof.
  unfold natural_comparison. destruct (p2f (clhs c) iv); [|discriminate].
  destruct (_ && _).
  - destruct (crhs c); try discriminate. destruct (p2f _ iv); [|discriminate]. destruct (p2f _ iv); [|discriminate].
    intros [= <-]. reflexivity.
  - destruct (p2f (crhs c) iv); [|discriminate]. intros [= <-]. reflexivity.
Qed.

Lemma natural_b_literal_predicates l iv f : natural_b_literal l iv = Some f ->
  forall p, In p (predicates f) -> p = atom_pred (latom l).
Proof.
  unfold natural_b_literal, natural_b_atom.
  destruct (collect_options _ (aterms (latom l))) as [ts|] eqn:E; [|discriminate].
  apply collect_options_forall2, forall2_length in E.
  intros [= <-] p. unfold atom_pred. rewrite E.
  destruct (lsign l); cbn; intros [<-|[]]; reflexivity.
Qed.

Lemma natural_body_predicates b iv f : natural_body b iv = Some f ->
  forall p, In p (predicates f) -> In p (body_preds b).
Proof.
  unfold natural_body. destruct (collect_options _ b) as [fs|] eqn:E; [|discriminate].
  intros [= <-] p Hp. apply pred_conjoin in Hp. destruct Hp as [y [Hy Hp]].
  apply collect_options_forall2 in E. destruct (forall2_in_r _ _ _ E y Hy) as [x [Hx Hxy]].
  destruct x as [l|c].
  - apply in_body_preds. exists l. split; [exact Hx|]. eapply natural_b_literal_predicates; eauto.
  - rewrite (natural_comparison_predicates _ _ _ Hxy) in Hp. destruct Hp.
Qed.

Lemma natural_head_atom_terms_length ts iv : forall fv gs,
  natural_head_atom_terms ts iv fv = NOk gs -> List.length gs = List.length ts.
Proof.
  induction ts as [|t ts IH]; intros fv gs; cbn [natural_head_atom_terms].
  - intros [= <-]. reflexivity.
  - destruct (is_term_regular_of_first_kind t).
    + destruct (p2f t iv); cbn [of_option nbind]; [|discriminate].
      destruct (natural_head_atom_terms ts iv fv) eqn:E; cbn [nbind]; try discriminate.
      intros [= <-]. cbn. f_equal. eapply IH; eauto.
    + destruct (is_term_regular_of_second_kind t); [|discriminate].
      destruct fv as [|v fv]; [discriminate|].
      destruct (natural_head_atom_terms ts iv fv) eqn:E; cbn [nbind]; try discriminate.
      intros [= <-]. cbn. f_equal. eapply IH; eauto.
Qed.

Lemma natural_head_atom_predicates a iv fv f : natural_head_atom a iv fv = NOk f ->
  forall p, In p (predicates f) -> p = atom_pred a.
Proof.
  unfold natural_head_atom. destruct (natural_head_atom_terms (aterms a) iv fv) as [gs| |] eqn:E; cbn [nbind]; try discriminate.
  intros [= <-] p. cbn. intros [<-|[]]. unfold atom_pred. f_equal. eapply natural_head_atom_terms_length; eauto.
Qed.

Lemma natural_head_interval_formulas_predicates ts iv : forall fv fs,
  natural_head_interval_formulas ts iv fv = NOk fs -> forall f, In f fs -> predicates f = [].
Proof.
  induction ts as [|t ts IH]; intros fv fs; cbn [natural_head_interval_formulas].
  - intros [= <-] f [].
  - destruct (is_term_regular_of_second_kind t); [|apply IH].
    destruct t; try discriminate. destruct fv as [|v fv]; [discriminate|].
    destruct (p2f t1 iv); cbn [unwrap nbind]; [|discriminate].
    destruct (p2f t2 iv); cbn [unwrap nbind]; [|discriminate].
    destruct (natural_head_interval_formulas ts iv fv) eqn:E; cbn [nbind]; try discriminate.
    intros [= <-] f [<-|Hf]; [reflexivity|]. eapply IH; eauto.
Qed.

Lemma natural_head_interval_predicates a iv fv f : natural_head_interval a iv fv = NOk f -> predicates f = [].
Proof.
  unfold natural_head_interval.
  destruct (natural_head_interval_formulas (aterms a) iv fv) as [fs| |] eqn:E; cbn [nbind]; try discriminate.
  intros [= <-]. destruct (predicates (conjoin fs)) as [|p l] eqn:Ep; [reflexivity|]. exfalso.
  assert (Hp : In p (predicates (conjoin fs))) by (rewrite Ep; left; reflexivity).
  apply pred_conjoin in Hp. destruct Hp as [y [Hy Hp]].
  rewrite (natural_head_interval_formulas_predicates _ _ _ _ E y Hy) in Hp. destruct Hp.
Qed.

Lemma natural_head_predicates h iv f : natural_head h iv = NOk f ->
  forall p, In p (predicates f) -> head_pred h = Some p.
Proof.
  destruct h as [a|a|]; cbn [natural_head head_pred].
  - unfold natural_basic_head. destruct (fresh_variables_for_head_atom a) as [fv|]; cbn [unwrap nbind]; [|discriminate].
    destruct (natural_head_atom a iv fv) as [c| |] eqn:Ec; cbn [nbind]; try discriminate.
    destruct fv as [|v fv].
    + intros [= <-] p Hp. f_equal. symmetry. eapply natural_head_atom_predicates; eauto.
    + destruct (natural_head_interval a iv (v :: fv)) as [cd| |] eqn:Ed; cbn [nbind]; try discriminate.
      intros [= <-] p. cbn [predicates]. rewrite in_iset_extend, (natural_head_interval_predicates _ _ _ _ Ed).
      intros [[]|Hp]. f_equal. symmetry. eapply natural_head_atom_predicates; eauto.
  - unfold natural_choice_head. destruct (fresh_variables_for_head_atom a) as [fv|]; cbn [unwrap nbind]; [|discriminate].
    destruct (natural_head_atom a iv fv) as [c| |] eqn:Ec; cbn [nbind]; try discriminate.
    assert (Hc : forall p, In p (predicates (FBin COr c (FNot c))) -> Some (atom_pred a) = Some p).
    { intros p. cbn [predicates]. rewrite in_iset_extend. intros [Hp|Hp]; f_equal; symmetry; eapply natural_head_atom_predicates; eauto. }
    destruct fv as [|v fv].
    + intros [= <-]. exact Hc.
    + destruct (natural_head_interval a iv (v :: fv)) as [cd| |] eqn:Ed; cbn [nbind]; try discriminate.
      intros [= <-] p. cbn [predicates]. rewrite in_iset_extend, (natural_head_interval_predicates _ _ _ _ Ed).
      intros [[]|Hp]. apply Hc. exact Hp.
  - intros [= <-] p [].
Qed.

Lemma predicates_quantify f q vs : predicates (quantify f q vs) = predicates f.
Proof. destruct vs; reflexivity. Qed.

Theorem natural_rule_predicates r f : natural_rule r = NOk f ->
  forall p, In p (predicates f) -> In p (rule_preds r).
Proof.
  unfold natural_rule. destruct (natural_head (rhead r) (int_variables r)) as [h| |] eqn:Eh; cbn [nbind]; try discriminate.
  destruct (natural_body (rbody r) (int_variables r)) as [b|] eqn:Eb; cbn [of_option nbind]; [|discriminate].
  intros [= <-] p. unfold universal_closure. rewrite predicates_quantify. cbn [predicates].
  rewrite in_iset_extend, in_rule_preds. intros [Hp|Hp].
  - right. eapply natural_body_predicates; eauto.
  - left. eapply natural_head_predicates; eauto.
Qed.
