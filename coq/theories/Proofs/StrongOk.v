(* Strong-equivalence task: transition axioms <-> inclusion of the h-extents in the t-extents on the
   programs' predicates; gamma under that inclusion; the refutation set of the emitted problems;
   independence of the simplify / eq-break / decomposition flags (C19, modulo the simplification
   facts) and the characterisation by HT-distinguishing pairs (C03, modulo the adequacy of the
   formula representation). *)
From Coq Require Import List Ascii String ZArith NArith Bool Lia Classical_Prop.
From Anthem Require Import Base.ISet Base.Fresh Syntax.Fol Syntax.Asp Sem.Domain Sem.Sat Sem.AspRef
  Model.Apply Model.Gamma Model.Break Model.Problem Model.Strong
  Proofs.GammaOk Proofs.SemBase Proofs.BreakOk Proofs.DecomposeOk.
Import ListNotations.
Open Scope string_scope.
Open Scope list_scope.

(* the HT interpretation read off a classical interpretation of the h-/t-copies *)
Definition H_of (M : pint) : pint := fun p a => M ("h" ++ p)%string a.
Definition T_of (M : pint) : pint := fun p a => M ("t" ++ p)%string a.
(* the here-world cut down to the there-world (equal to H_of M wherever the inclusion holds) *)
Definition Hc (M : pint) : pint := fun p a => H_of M p a /\ T_of M p a.
Definition sub_on (S : list pred) (H T : pint) : Prop :=
  forall p a, In (mkpred p (List.length a)) S -> H p a -> T p a.

Lemma Hc_sub M : sub (Hc M) (T_of M).
Proof. intros p a [_ Ht]; exact Ht. Qed.
Lemma Hc_H_of M : sub (H_of M) (T_of M) -> forall p a, Hc M p a <-> H_of M p a.
Proof. intros Hs p a. unfold Hc. split; [tauto|]. intros Hh; split; [exact Hh|apply Hs, Hh]. Qed.

(* ---------- transition axioms ---------- *)
Lemma xvars_length n : forall i, List.length (xvars_from i n) = n.
Proof. induction n as [|n IH]; intros i; cbn; auto. Qed.
Lemma xvars_in n : forall i t, In t (xvars_from i n) -> exists k, (i <= k)%N /\ t = GVar ("X" ++ nat_str k)%string.
Proof.
  induction n as [|n IH]; intros i t; cbn; [tauto|].
  intros [<-|Ht]; [exists i; split; [lia|reflexivity]|].
  destruct (IH _ _ Ht) as [k [Hk ->]]. exists k; split; [lia|reflexivity].
Qed.

Section WithFI.
Variable FI : fint.

Lemma ev_g_upd_general e x d y :
  ev_g FI (upd e (mkvar x SGeneral) d) (GVar y) = if String.eqb y x then d else eg e y.
Proof. reflexivity. Qed.

(* every tuple of the right length is the value of X_i .. X_{i+n-1} under some assignment *)
Lemma xvars_surjective n : forall i (a : list gval), List.length a = n ->
  exists e, map (ev_g FI e) (xvars_from i n) = a.
Proof.
  induction n as [|n IH]; intros i a Ha.
  - destruct a; [|discriminate]. exists (mkenv (fun _ => VInf) (fun _ => 0%Z) (fun _ => ""%string)). reflexivity.
  - destruct a as [|d a]; [discriminate|]. injection Ha as Ha.
    destruct (IH (N.succ i) a Ha) as [e He].
    exists (upd e (mkvar ("X" ++ nat_str i)%string SGeneral) d). cbn [xvars_from map]. f_equal.
    + rewrite ev_g_upd_general, String.eqb_refl. reflexivity.
    + rewrite <- He. apply map_ext_in. intros t Ht.
      destruct (xvars_in _ _ _ Ht) as [k [Hk ->]]. rewrite ev_g_upd_general.
      destruct (String.eqb_spec ("X" ++ nat_str k)%string ("X" ++ nat_str i)%string) as [E|]; [|reflexivity].
      apply app_inj_l, nat_str_inj in E. lia.
Qed.

Lemma here_atom p ts : here (FAtomic (AAtom p ts)) = FAtomic (AAtom ("h" ++ p)%string ts).
Proof. reflexivity. Qed.
Lemma there_atom p ts : there (FAtomic (AAtom p ts)) = FAtomic (AAtom ("t" ++ p)%string ts).
Proof. reflexivity. Qed.

Theorem transition_valid M p :
  cvalid FI M (transition p) <->
  (forall a, List.length a = parity p -> H_of M (psym p) a -> T_of M (psym p) a).
Proof.
  unfold transition, pred_to_formula. rewrite here_atom, there_atom.
  rewrite cvalid_quantify_forall. unfold cvalid. cbn [csat asat]. split.
  - intros Hv a Ha. destruct (xvars_surjective (parity p) 1 a Ha) as [e He].
    specialize (Hv e). rewrite He in Hv. exact Hv.
  - intros Hs e. apply Hs. rewrite map_length. apply xvars_length.
Qed.

Theorem transition_axioms_sub M L R :
  (forall f, In f (transition_axioms L R) -> cvalid FI M f) <->
  sub_on (strong_predicates L R) (H_of M) (T_of M).
Proof.
  unfold transition_axioms, sub_on. split.
  - intros Hv p a Hin. apply (proj1 (transition_valid M (mkpred p (List.length a)))); [|reflexivity].
    apply Hv. apply in_map. exact Hin.
  - intros Hs f Hf. apply in_map_iff in Hf. destruct Hf as [p [<- Hp]].
    apply transition_valid. intros a Ha. apply Hs. rewrite Ha. destruct p; exact Hp.
Qed.

(* ---------- gamma under inclusion on a vocabulary ---------- *)
Theorem gamma_ok_on S M f :
  sub_on S (H_of M) (T_of M) -> (forall p, In p (predicates f) -> In p S) ->
  forall e, hsat FI (Hc M) (T_of M) e f <-> csat FI M e (gamma f).
Proof.
  intros Hs Hvoc e.
  rewrite (gamma_ok FI (Hc M) (T_of M) (merge (Hc M) (T_of M)) (Hc_sub M) (merge_copies _ _) f e).
  apply csat_pagree. intros q a Hq.
  destruct (gamma_predicates_shape f _ Hq) as [q0 [Hq0 [Hpar Hsym]]]. cbn in Hpar, Hsym.
  assert (HinS : In (mkpred (psym q0) (List.length a)) S).
  { apply Hvoc. rewrite Hpar. destruct q0; exact Hq0. }
  destruct Hsym as [->| ->]; cbn.
  - unfold Hc, H_of, T_of. split; [tauto|]. intros Hh. split; [exact Hh|]. apply (Hs _ _ HinS Hh).
  - unfold T_of. tauto.
Qed.

Corollary gamma_valid_on S M f :
  sub_on S (H_of M) (T_of M) -> (forall p, In p (predicates f) -> In p S) ->
  (hvalid FI (Hc M) (T_of M) f <-> cvalid FI M (gamma f)).
Proof.
  intros Hs Hv. unfold hvalid, cvalid. split; intros Hx e; [apply (gamma_ok_on S M f Hs Hv e)|apply (gamma_ok_on S M f Hs Hv e)]; apply Hx.
Qed.
End WithFI.

(* ---------- rename_conflicting_symbols is the identity without symbol/predicate clashes ---------- *)
Definition no_clash_problem (p : problem) : Prop :=
  forall a s, In a (pb_formulas p) -> In s (symbols (pf_formula a)) -> ~ In (mkpred s 0) (problem_predicates p).

Lemma rcs_gterm_id conf t : (forall s, In s (gterm_symbols t) -> memb pred_dec (mkpred s 0) conf = false) ->
  rcs_gterm conf t = t.
Proof.
  destruct t as [| |c|x|t|t]; cbn; auto. destruct t as [s|c|x]; cbn; auto.
  intros Hs. rewrite (Hs s (or_introl eq_refl)). reflexivity.
Qed.
Lemma rcs_formula_id conf f : (forall s, In s (symbols f) -> memb pred_dec (mkpred s 0) conf = false) ->
  rcs_formula conf f = f.
Proof.
  induction f as [a|f IH|c l IHl r IHr|q vs f IH]; cbn; intros Hs.
  - f_equal. destruct a as [| |p ts|t gs]; cbn in *; auto.
    + f_equal. rewrite <- (map_id ts) at 2. apply map_ext_in. intros t Ht. apply rcs_gterm_id.
      intros s Hin. apply Hs. apply in_extend_all. right. exists t; auto.
    + f_equal.
      * apply rcs_gterm_id. intros s Hin. apply Hs. apply in_extend_all. left; exact Hin.
      * rewrite <- (map_id gs) at 2. apply map_ext_in. intros g Hg. destruct g as [rl gt]; cbn. f_equal.
        apply rcs_gterm_id. intros s Hin. apply Hs. apply in_extend_all. right. exists (mkguard rl gt); auto.
  - f_equal; auto.
  - f_equal; [apply IHl|apply IHr]; intros s Hin; apply Hs; apply (in_iset_extend string_dec); auto.
  - f_equal; auto.
Qed.
Lemma rename_id p : no_clash_problem p -> rename_conflicting_symbols p = p.
Proof.
  intros Hn. unfold rename_conflicting_symbols.
  set (conf := filter (fun q => Nat.eqb (parity q) 0) (problem_predicates p)).
  assert (Hc : forall a s, In a (pb_formulas p) -> In s (symbols (pf_formula a)) ->
                           memb pred_dec (mkpred s 0) conf = false).
  { intros a s Ha Hs. destruct (memb_spec pred_dec (mkpred s 0) conf) as [Hin|]; [|reflexivity].
    unfold conf in Hin. apply filter_In in Hin. destruct Hin as [Hin _]. exfalso. exact (Hn _ _ Ha Hs Hin). }
  clearbody conf. destruct p as [name fs]; cbn [pb_name pb_formulas] in *. f_equal.
  rewrite <- (map_id fs) at 2. apply map_ext_in. intros a Ha. destruct a as [n r f]; cbn. f_equal.
  apply rcs_formula_id. intros s Hs. apply (Hc _ s Ha). exact Hs.
Qed.

(* ---------- the assembled problem ---------- *)
Lemma unique_names_forms l : forall i, map pf_formula (unique_names_from i l) = map pf_formula l.
Proof. induction l as [|a l IH]; intros i; cbn; [reflexivity|]. rewrite IH. reflexivity. Qed.
Lemma unique_names_filter r l : forall i,
  map pf_formula (filter (fun a => prole_eqb (pf_role a) r) (unique_names_from i l)) =
  map pf_formula (filter (fun a => prole_eqb (pf_role a) r) l).
Proof.
  induction l as [|a l IH]; intros i; cbn; [reflexivity|].
  destruct (prole_eqb (pf_role a) r); cbn; rewrite IH; reflexivity.
Qed.
Lemma name_theory_forms prefix r t : forall i, map pf_formula (name_theory_from prefix r i t) = t.
Proof. induction t as [|f t IH]; intros i; cbn; [reflexivity|]. rewrite IH. reflexivity. Qed.
Lemma name_theory_role prefix r t : forall i a, In a (name_theory_from prefix r i t) -> pf_role a = r.
Proof. induction t as [|f t IH]; intros i a; cbn; [tauto|]. intros [<-|Ha]; [reflexivity|eapply IH, Ha]. Qed.

Lemma filter_role_all r r' (l : list pformula) : (forall a, In a l -> pf_role a = r') ->
  filter (fun a => prole_eqb (pf_role a) r) l = if prole_eqb r' r then l else [].
Proof.
  induction l as [|a l IH]; intros Hl; cbn; [destruct (prole_eqb r' r); reflexivity|].
  rewrite (Hl a (or_introl eq_refl)). rewrite IH by (intros x Hx; apply Hl; right; exact Hx).
  destruct (prole_eqb r' r); reflexivity.
Qed.

(* the formulas of the problem before renaming and naming *)
Definition strong_pre (name : string) (ta : theory) (ax_n : string) (ax_t : theory) (cj_n : string) (cj_t : theory) : problem :=
  add_theory (add_theory (add_theory (with_name name) "transition_axiom" PAxiom ta) ax_n PAxiom ax_t) cj_n PConjecture cj_t.

Lemma strong_problem_forms name ta ax_n ax_t cj_n cj_t :
  no_clash_problem (strong_pre name ta ax_n ax_t cj_n cj_t) ->
  map pf_formula (axioms (strong_problem name ta ax_n ax_t cj_n cj_t)) = ta ++ ax_t /\
  map pf_formula (conjectures (strong_problem name ta ax_n ax_t cj_n cj_t)) = cj_t.
Proof.
  intros Hn. unfold strong_problem. fold (strong_pre name ta ax_n ax_t cj_n cj_t).
  rewrite (rename_id _ Hn). unfold axioms, conjectures, create_unique_formula_names. cbn [pb_formulas].
  rewrite !unique_names_filter. unfold strong_pre, add_theory, with_name. cbn [pb_formulas pb_name].
  rewrite !filter_app.
  rewrite !(filter_role_all PAxiom PAxiom (name_theory_from _ PAxiom 0 _)) by (apply name_theory_role).
  rewrite !(filter_role_all PConjecture PAxiom (name_theory_from _ PAxiom 0 _)) by (apply name_theory_role).
  rewrite (filter_role_all PAxiom PConjecture (name_theory_from _ PConjecture 0 _)) by (apply name_theory_role).
  rewrite (filter_role_all PConjecture PConjecture (name_theory_from _ PConjecture 0 _)) by (apply name_theory_role).
  cbn [prole_eqb app]. rewrite !app_nil_r, !map_app, !name_theory_forms. auto.
Qed.

Section Refutes.
Variable FI : fint.
Variable M : pint.

Definition tvalid (t : theory) : Prop := forall f, In f t -> cvalid FI M f.

Lemma refutes_forms p :
  refutes FI M p <->
  tvalid (map pf_formula (axioms p)) /\ exists f, In f (map pf_formula (conjectures p)) /\ ~ cvalid FI M f.
Proof.
  unfold refutes, tvalid, pf_valid. split.
  - intros [Ha [c [Hc Hn]]]. split.
    + intros f Hf. apply in_map_iff in Hf. destruct Hf as [a [<- Hin]]. apply Ha, Hin.
    + exists (pf_formula c). split; [apply in_map, Hc|exact Hn].
  - intros [Ha [f [Hf Hn]]]. split.
    + intros a Hin. apply Ha. apply in_map, Hin.
    + apply in_map_iff in Hf. destruct Hf as [c [<- Hc]]. exists c; auto.
Qed.

(* excluded middle on a finite list *)
Lemma not_tvalid_exists t : ~ tvalid t <-> exists f, In f t /\ ~ cvalid FI M f.
Proof.
  split.
  - induction t as [|f t IH]; intros Hn; [exfalso; apply Hn; intros f []|].
    destruct (classic (cvalid FI M f)) as [Hv|Hv]; [|exists f; split; [left; reflexivity|exact Hv]].
    destruct IH as [g [Hg Hng]]; [|exists g; split; [right; exact Hg|exact Hng]].
    intros Ht. apply Hn. intros g [<-|Hg]; [exact Hv|apply Ht, Hg].
  - intros [f [Hf Hn]] Ht. apply Hn, Ht, Hf.
Qed.
Lemma tvalid_app t1 t2 : tvalid (t1 ++ t2) <-> tvalid t1 /\ tvalid t2.
Proof.
  unfold tvalid. split.
  - intros Hv; split; intros f Hf; apply Hv, in_app_iff; auto.
  - intros [H1 H2] f Hf. apply in_app_iff in Hf. destruct Hf; auto.
Qed.

Lemma strong_problem_refutes name ta ax_n ax_t cj_n cj_t :
  no_clash_problem (strong_pre name ta ax_n ax_t cj_n cj_t) ->
  (refutes FI M (strong_problem name ta ax_n ax_t cj_n cj_t) <->
   tvalid ta /\ tvalid ax_t /\ ~ tvalid cj_t).
Proof.
  intros Hn. destruct (strong_problem_forms name ta ax_n ax_t cj_n cj_t Hn) as [Ea Ec].
  rewrite refutes_forms, Ea, Ec, tvalid_app, not_tvalid_exists. tauto.
Qed.
End Refutes.

(* ---------- the reference semantics respects pointwise-equivalent interpretations ---------- *)
Lemma bformula_sat_equiv W W' T T' sg b : pint_equiv W W' -> pint_equiv T T' ->
  (bformula_sat W T sg b <-> bformula_sat W' T' sg b).
Proof.
  intros EW ET. destruct b as [[sgn a]|c]; cbn; [|tauto].
  destruct sgn; split; intros [vs [Hv Hx]]; exists vs; split; auto;
    try (apply EW; exact Hx); try (rewrite <- (ET _ _); exact Hx); try (rewrite (ET _ _); exact Hx).
Qed.
Lemma body_sat_equiv W W' T T' sg b : pint_equiv W W' -> pint_equiv T T' ->
  (body_sat W T sg b <-> body_sat W' T' sg b).
Proof.
  intros EW ET. unfold body_sat. rewrite !Forall_forall. split; intros H x Hx; specialize (H x Hx);
    apply (bformula_sat_equiv W W' T T' sg x EW ET); exact H.
Qed.
Lemma head_sat_equiv W W' T T' sg h : pint_equiv W W' -> pint_equiv T T' ->
  (head_sat W T sg h <-> head_sat W' T' sg h).
Proof.
  intros EW ET. destruct h as [a|a|]; cbn; [| |tauto].
  - split; intros H vs Hv; apply EW, H, Hv.
  - split; intros H vs Hv; destruct (H vs Hv) as [Hw|Hn];
      [left; apply EW; exact Hw|right; rewrite <- (ET _ _); exact Hn|left; apply EW; exact Hw|right; rewrite (ET _ _); exact Hn].
Qed.
Lemma ref_sat_equiv H H' T T' P : pint_equiv H H' -> pint_equiv T T' -> (ref_sat H T P <-> ref_sat H' T' P).
Proof.
  intros EH ET. unfold ref_sat, ref_rule_sat. split; intros Hs r Hr sg; specialize (Hs r Hr sg);
    rewrite ?(body_sat_equiv H H' T T' sg _ EH ET), ?(head_sat_equiv H H' T T' sg _ EH ET),
            ?(body_sat_equiv T T' T T' sg _ ET ET), ?(head_sat_equiv T T' T T' sg _ ET ET) in *; exact Hs.
Qed.

(* ---------- the whole task, modulo the component facts ---------- *)
(* [good]: the class of programs on which the component facts about tau-star / mu are available
   (the real translations panic on the overflow class F11 and are characterised only outside it:
   Proofs/StrongFullOk.v takes good := no_global_overflow; good := fun _ => True gives back the
   unrelativised statements, below the Section). *)
Section Task.
Variable tau_star mu : program -> theory.
Variable simp_ht simp_classic : formula -> formula.
Variable good : program -> Prop.

(* the simplification steps preserve meaning (to be discharged by the C07 theorems) *)
Hypothesis simp_ht_ok : forall FI H T f, sub H T -> (hvalid FI H T (simp_ht f) <-> hvalid FI H T f).
Hypothesis simp_classic_ok : forall FI M f, cvalid FI M (simp_classic f) <-> cvalid FI M f.
(* vocabulary: the formula representations mention only the program's predicates, the HT-level
   simplification introduces no predicate (C01 / C08 / C07) *)
Hypothesis tau_star_vocab : forall P f p, good P -> In f (tau_star P) -> In p (predicates f) -> In p (program_preds P).
Hypothesis mu_vocab : forall P f p, good P -> In f (mu P) -> In p (predicates f) -> In p (program_preds P).
Hypothesis simp_ht_vocab : forall f p, In p (predicates (simp_ht f)) -> In p (predicates f).

Definition repr_of (r : frepr) : program -> theory := match r with ReprMu => mu | ReprTauStar => tau_star end.
Lemma repr_vocab r P f p : good P -> In f (repr_of r P) -> In p (predicates f) -> In p (program_preds P).
Proof. intros HG. destruct r; cbn; [apply mu_vocab|apply tau_star_vocab]; exact HG. Qed.

Definition side := strong_side tau_star mu simp_ht simp_classic.

Lemma side_eq t P : side t P =
  (fun t3 => if st_break t then break_equivalences_theory t3 else t3)
    ((fun t2 => if st_simplify t then map simp_classic t2 else t2)
       (gamma_theory ((fun t0 => if st_simplify t then map simp_ht t0 else t0) (repr_of (st_repr t) P)))).
Proof. unfold side, strong_side, repr_of. destruct (st_repr t); reflexivity. Qed.

(* the HT interpretation satisfies the representation of a program *)
Definition ht_models (FI : fint) (M : pint) (r : frepr) (P : program) : Prop :=
  forall f, In f (repr_of r P) -> hvalid FI (Hc M) (T_of M) f.

(* the theory obtained for one side means: (Hc M, T_of M) is an HT model of the representation,
   for every value of the simplify and eq-break flags *)
Theorem side_valid FI M (t : strong_task) (P : program) S :
  good P -> sub_on S (H_of M) (T_of M) -> (forall p, In p (program_preds P) -> In p S) ->
  (tvalid FI M (side t P) <-> ht_models FI M (st_repr t) P).
Proof.
  intros HG Hs HS. rewrite side_eq. unfold ht_models. cbv beta.
  set (t0 := repr_of (st_repr t) P).
  assert (Hvoc0 : forall f, In f t0 -> forall p, In p (predicates f) -> In p S).
  { intros f Hf p Hp. apply HS. eapply repr_vocab; eauto. }
  set (t1 := if st_simplify t then map simp_ht t0 else t0).
  assert (H1 : (forall f, In f t1 -> hvalid FI (Hc M) (T_of M) f) <-> (forall f, In f t0 -> hvalid FI (Hc M) (T_of M) f)).
  { unfold t1. destruct (st_simplify t); [|reflexivity]. split.
    - intros Hv f Hf. apply (simp_ht_ok FI _ _ f (Hc_sub M)). apply Hv. apply in_map, Hf.
    - intros Hv g Hg. apply in_map_iff in Hg. destruct Hg as [f [<- Hf]].
      apply (simp_ht_ok FI _ _ f (Hc_sub M)). apply Hv, Hf. }
  assert (Hvoc1 : forall f, In f t1 -> forall p, In p (predicates f) -> In p S).
  { unfold t1. destruct (st_simplify t); [|exact Hvoc0]. intros g Hg p Hp.
    apply in_map_iff in Hg. destruct Hg as [f [<- Hf]]. apply (Hvoc0 f Hf). apply simp_ht_vocab, Hp. }
  assert (H2 : tvalid FI M (gamma_theory t1) <-> (forall f, In f t1 -> hvalid FI (Hc M) (T_of M) f)).
  { unfold tvalid, gamma_theory. split.
    - intros Hv f Hf. apply (gamma_valid_on FI S M f Hs (Hvoc1 f Hf)). apply Hv. apply in_map, Hf.
    - intros Hv g Hg. apply in_map_iff in Hg. destruct Hg as [f [<- Hf]].
      apply (gamma_valid_on FI S M f Hs (Hvoc1 f Hf)). apply Hv, Hf. }
  set (t3 := if st_simplify t then map simp_classic (gamma_theory t1) else gamma_theory t1).
  assert (H3 : tvalid FI M t3 <-> tvalid FI M (gamma_theory t1)).
  { unfold t3. destruct (st_simplify t); [|reflexivity]. unfold tvalid. split.
    - intros Hv f Hf. apply simp_classic_ok. apply Hv. apply in_map, Hf.
    - intros Hv g Hg. apply in_map_iff in Hg. destruct Hg as [f [<- Hf]]. apply simp_classic_ok. apply Hv, Hf. }
  assert (H4 : tvalid FI M (if st_break t then break_equivalences_theory t3 else t3) <-> tvalid FI M t3).
  { destruct (st_break t); [|reflexivity]. unfold tvalid. symmetry. apply break_theory_cvalid. }
  rewrite H4, H3, H2, H1. reflexivity.
Qed.

(* no symbol of the emitted formulas equals a 0-ary predicate of its problem (outside: finding F8b) *)
Definition no_symbol_pred_clash (t : strong_task) : Prop :=
  let ta := transition_axioms (st_left t) (st_right t) in
  no_clash_problem (strong_pre "forward" ta "left" (side t (st_left t)) "right" (side t (st_right t))) /\
  no_clash_problem (strong_pre "backward" ta "right" (side t (st_right t)) "left" (side t (st_left t))).

Lemma in_strong_predicates_l L R p : In p (program_preds L) -> In p (strong_predicates L R).
Proof. intros Hp. unfold strong_predicates. apply (in_iset_extend pred_dec). auto. Qed.
Lemma in_strong_predicates_r L R p : In p (program_preds R) -> In p (strong_predicates L R).
Proof. intros Hp. unfold strong_predicates. apply (in_iset_extend pred_dec). auto. Qed.

(* the refutation set of the emitted family, for any flags *)
Theorem strong_refutes_rel FI M (t : strong_task) :
  good (st_left t) -> good (st_right t) -> no_symbol_pred_clash t ->
  (refutes_some FI M (strong_decompose tau_star mu simp_ht simp_classic t) <->
   sub_on (strong_predicates (st_left t) (st_right t)) (H_of M) (T_of M) /\
   ((dir_forward (st_direction t) = true /\
     ht_models FI M (st_repr t) (st_left t) /\ ~ ht_models FI M (st_repr t) (st_right t)) \/
    (dir_backward (st_direction t) = true /\
     ht_models FI M (st_repr t) (st_right t) /\ ~ ht_models FI M (st_repr t) (st_left t)))).
Proof.
  intros HGl HGr [Hnf Hnb]. unfold strong_decompose, strong_assemble.
  fold (side t (st_left t)). fold (side t (st_right t)).
  set (ta := transition_axioms (st_left t) (st_right t)) in *.
  set (S := strong_predicates (st_left t) (st_right t)).
  rewrite refutes_some_flat_map_decompose.
  assert (Hside : sub_on S (H_of M) (T_of M) ->
            (tvalid FI M (side t (st_left t)) <-> ht_models FI M (st_repr t) (st_left t)) /\
            (tvalid FI M (side t (st_right t)) <-> ht_models FI M (st_repr t) (st_right t))).
  { intros Hs. split; [apply (side_valid FI M t _ S HGl Hs)|apply (side_valid FI M t _ S HGr Hs)]; intros p Hp;
      [apply in_strong_predicates_l|apply in_strong_predicates_r]; exact Hp. }
  pose proof (transition_axioms_sub FI M (st_left t) (st_right t)) as Hta. fold ta in Hta. fold S in Hta.
  split.
  - intros [p [Hp Hr]]. apply in_app_iff in Hp. destruct Hp as [Hp|Hp].
    + destruct (dir_forward (st_direction t)) eqn:Ed; [|destruct Hp]. destruct Hp as [<-|[]].
      apply (strong_problem_refutes FI M _ _ _ _ _ _ Hnf) in Hr. destruct Hr as [Ht [Hl Hr]].
      apply Hta in Ht. destruct (Hside Ht) as [El Er]. split; [exact Ht|]. left. rewrite <- El, <- Er. auto.
    + destruct (dir_backward (st_direction t)) eqn:Ed; [|destruct Hp]. destruct Hp as [<-|[]].
      apply (strong_problem_refutes FI M _ _ _ _ _ _ Hnb) in Hr. destruct Hr as [Ht [Hl Hr]].
      apply Hta in Ht. destruct (Hside Ht) as [El Er]. split; [exact Ht|]. right. rewrite <- El, <- Er. auto.
  - intros [Hs [[Ed [Hl Hr]]|[Ed [Hr Hl]]]]; destruct (Hside Hs) as [El Er]; rewrite Ed.
    + eexists. split; [apply in_app_iff; left; left; reflexivity|].
      apply (strong_problem_refutes FI M _ _ _ _ _ _ Hnf). rewrite El, Er. split; [exact (proj2 Hta Hs)|auto].
    + eexists. split; [apply in_app_iff; right; left; reflexivity|].
      apply (strong_problem_refutes FI M _ _ _ _ _ _ Hnb). rewrite El, Er. split; [exact (proj2 Hta Hs)|auto].
Qed.

(* C19 for strong tasks: two tasks that differ only in the simplify / eq-break / decomposition
   flags are refuted by the same interpretations *)
Definition same_claim (t t' : strong_task) : Prop :=
  st_left t = st_left t' /\ st_right t = st_right t' /\ st_direction t = st_direction t' /\ st_repr t = st_repr t'.

Theorem C19_strong_modulo_simplify_rel (t t' : strong_task) :
  good (st_left t) -> good (st_right t) ->
  same_claim t t' -> no_symbol_pred_clash t -> no_symbol_pred_clash t' ->
  forall FI M,
    refutes_some FI M (strong_decompose tau_star mu simp_ht simp_classic t) <->
    refutes_some FI M (strong_decompose tau_star mu simp_ht simp_classic t').
Proof.
  intros HGl HGr [EL [ER [ED ERp]]] Hn Hn' FI M.
  assert (HGl' : good (st_left t')) by (rewrite <- EL; exact HGl).
  assert (HGr' : good (st_right t')) by (rewrite <- ER; exact HGr).
  rewrite (strong_refutes_rel FI M t HGl HGr Hn), (strong_refutes_rel FI M t' HGl' HGr' Hn').
  rewrite EL, ER, ED, ERp. reflexivity.
Qed.

(* C03 modulo the adequacy of the formula representation w.r.t. the reference semantics *)
Hypothesis tau_star_adequate : forall FI H T P, good P -> sub H T ->
  ((forall f, In f (tau_star P) -> hvalid FI H T f) <-> ref_sat H T P).
Hypothesis mu_adequate : forall FI H T P, good P -> sub H T ->
  ((forall f, In f (mu P) -> hvalid FI H T f) <-> ref_sat H T P).

Lemma ht_models_ref FI M r P : good P -> (ht_models FI M r P <-> ref_sat (Hc M) (T_of M) P).
Proof. intros HG. unfold ht_models. destruct r; cbn; [apply mu_adequate|apply tau_star_adequate]; auto using Hc_sub. Qed.

Theorem C03_partial_rel FI M (t : strong_task) :
  good (st_left t) -> good (st_right t) -> no_symbol_pred_clash t ->
  (refutes_some FI M (strong_decompose tau_star mu simp_ht simp_classic t) <->
   sub_on (strong_predicates (st_left t) (st_right t)) (H_of M) (T_of M) /\
   ((dir_forward (st_direction t) = true /\
     ref_sat (Hc M) (T_of M) (st_left t) /\ ~ ref_sat (Hc M) (T_of M) (st_right t)) \/
    (dir_backward (st_direction t) = true /\
     ref_sat (Hc M) (T_of M) (st_right t) /\ ~ ref_sat (Hc M) (T_of M) (st_left t)))).
Proof.
  intros HGl HGr Hn. rewrite (strong_refutes_rel FI M t HGl HGr Hn).
  rewrite !(ht_models_ref FI M _ _ HGl), !(ht_models_ref FI M _ _ HGr). reflexivity.
Qed.

(* all problems are theorems (no interpretation refutes any of them) exactly when the two programs
   have the same here-and-there models: strong equivalence *)
Theorem C03_strong_partial_rel (t : strong_task) :
  good (st_left t) -> good (st_right t) -> no_symbol_pred_clash t -> st_direction t = DUniversal ->
  ((forall FI M, ~ refutes_some FI M (strong_decompose tau_star mu simp_ht simp_classic t)) <->
   (forall H T, sub H T -> (ref_sat H T (st_left t) <-> ref_sat H T (st_right t)))).
Proof.
  intros HGl HGr Hn Hd. split.
  - intros Hnr H T Hs.
    set (FI0 := mkfint (fun _ => VInf) (fun _ => 0%Z) (fun _ => ""%string)).
    pose proof (Hnr FI0 (merge H T)) as Hm. rewrite (C03_partial_rel FI0 (merge H T) t HGl HGr Hn), Hd in Hm. cbn [dir_forward dir_backward] in Hm.
    assert (EH : pint_equiv (Hc (merge H T)) H).
    { intros p a. unfold Hc, H_of, T_of. cbn. split; [tauto|]. intros Hh; split; [exact Hh|apply Hs, Hh]. }
    assert (ET : pint_equiv (T_of (merge H T)) T) by (intros p a; unfold T_of; cbn; tauto).
    rewrite !(ref_sat_equiv _ _ _ _ _ EH ET) in Hm.
    assert (Hsub : sub_on (strong_predicates (st_left t) (st_right t)) (H_of (merge H T)) (T_of (merge H T))).
    { intros p a _. unfold H_of, T_of. cbn. apply Hs. }
    destruct (classic (ref_sat H T (st_left t))) as [Hl|Hl], (classic (ref_sat H T (st_right t))) as [Hr|Hr]; tauto.
  - intros Heq FI M Hr. rewrite (C03_partial_rel FI M t HGl HGr Hn) in Hr. destruct Hr as [_ Hr].
    specialize (Heq (Hc M) (T_of M) (Hc_sub M)). tauto.
Qed.
End Task.

(* ---------- the unrelativised statements (good := every program), with their original names ---------- *)
Section TaskAll.
Variable tau_star mu : program -> theory.
Variable simp_ht simp_classic : formula -> formula.
Hypothesis simp_ht_ok : forall FI H T f, sub H T -> (hvalid FI H T (simp_ht f) <-> hvalid FI H T f).
Hypothesis simp_classic_ok : forall FI M f, cvalid FI M (simp_classic f) <-> cvalid FI M f.
Hypothesis tau_star_vocab : forall P f p, In f (tau_star P) -> In p (predicates f) -> In p (program_preds P).
Hypothesis mu_vocab : forall P f p, In f (mu P) -> In p (predicates f) -> In p (program_preds P).
Hypothesis simp_ht_vocab : forall f p, In p (predicates (simp_ht f)) -> In p (predicates f).

Let all : program -> Prop := fun _ => True.

Theorem strong_refutes FI M (t : strong_task) :
  no_symbol_pred_clash tau_star mu simp_ht simp_classic t ->
  (refutes_some FI M (strong_decompose tau_star mu simp_ht simp_classic t) <->
   sub_on (strong_predicates (st_left t) (st_right t)) (H_of M) (T_of M) /\
   ((dir_forward (st_direction t) = true /\
     ht_models tau_star mu FI M (st_repr t) (st_left t) /\ ~ ht_models tau_star mu FI M (st_repr t) (st_right t)) \/
    (dir_backward (st_direction t) = true /\
     ht_models tau_star mu FI M (st_repr t) (st_right t) /\ ~ ht_models tau_star mu FI M (st_repr t) (st_left t)))).
Proof.
  apply (strong_refutes_rel tau_star mu simp_ht simp_classic all simp_ht_ok simp_classic_ok
           (fun P f p _ => tau_star_vocab P f p) (fun P f p _ => mu_vocab P f p) simp_ht_vocab FI M t I I).
Qed.

Theorem C19_strong_modulo_simplify_proof (t t' : strong_task) :
  same_claim t t' -> no_symbol_pred_clash tau_star mu simp_ht simp_classic t ->
  no_symbol_pred_clash tau_star mu simp_ht simp_classic t' ->
  forall FI M,
    refutes_some FI M (strong_decompose tau_star mu simp_ht simp_classic t) <->
    refutes_some FI M (strong_decompose tau_star mu simp_ht simp_classic t').
Proof.
  apply (C19_strong_modulo_simplify_rel tau_star mu simp_ht simp_classic all simp_ht_ok simp_classic_ok
           (fun P f p _ => tau_star_vocab P f p) (fun P f p _ => mu_vocab P f p) simp_ht_vocab t t' I I).
Qed.

Hypothesis tau_star_adequate : forall FI H T P, sub H T ->
  ((forall f, In f (tau_star P) -> hvalid FI H T f) <-> ref_sat H T P).
Hypothesis mu_adequate : forall FI H T P, sub H T ->
  ((forall f, In f (mu P) -> hvalid FI H T f) <-> ref_sat H T P).

Theorem C03_partial_proof FI M (t : strong_task) :
  no_symbol_pred_clash tau_star mu simp_ht simp_classic t ->
  (refutes_some FI M (strong_decompose tau_star mu simp_ht simp_classic t) <->
   sub_on (strong_predicates (st_left t) (st_right t)) (H_of M) (T_of M) /\
   ((dir_forward (st_direction t) = true /\
     ref_sat (Hc M) (T_of M) (st_left t) /\ ~ ref_sat (Hc M) (T_of M) (st_right t)) \/
    (dir_backward (st_direction t) = true /\
     ref_sat (Hc M) (T_of M) (st_right t) /\ ~ ref_sat (Hc M) (T_of M) (st_left t)))).
Proof.
  apply (C03_partial_rel tau_star mu simp_ht simp_classic all simp_ht_ok simp_classic_ok
           (fun P f p _ => tau_star_vocab P f p) (fun P f p _ => mu_vocab P f p) simp_ht_vocab
           (fun FI H T P _ => tau_star_adequate FI H T P) (fun FI H T P _ => mu_adequate FI H T P) FI M t I I).
Qed.

Theorem C03_strong_partial_proof (t : strong_task) :
  no_symbol_pred_clash tau_star mu simp_ht simp_classic t -> st_direction t = DUniversal ->
  ((forall FI M, ~ refutes_some FI M (strong_decompose tau_star mu simp_ht simp_classic t)) <->
   (forall H T, sub H T -> (ref_sat H T (st_left t) <-> ref_sat H T (st_right t)))).
Proof.
  apply (C03_strong_partial_rel tau_star mu simp_ht simp_classic all simp_ht_ok simp_classic_ok
           (fun P f p _ => tau_star_vocab P f p) (fun P f p _ => mu_vocab P f p) simp_ht_vocab
           (fun FI H T P _ => tau_star_adequate FI H T P) (fun FI H T P _ => mu_adequate FI H T P) t I I).
Qed.
End TaskAll.
