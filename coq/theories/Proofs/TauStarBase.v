(* Semantic toolbox for the tau* proofs: extensionality of satisfaction in the environment,
   updates of integer / general variables, formulas without predicates, conjunctions built by
   [conjoin], quantifier blocks of general variables. *)
From Coq Require Import List Ascii String ZArith Bool Lia.
From Anthem Require Import Base.ISet Syntax.Fol Sem.Domain Sem.Sat Model.TauStar.
Import ListNotations.
Open Scope string_scope.
Open Scope list_scope.

(* ---------- extensional equality of environments ---------- *)
Definition env_eq (e1 e2 : env) : Prop :=
  (forall x, eg e1 x = eg e2 x) /\ (forall x, ei e1 x = ei e2 x) /\ (forall x, es e1 x = es e2 x).
Lemma env_eq_refl e : env_eq e e.
Proof. repeat split. Qed.
Lemma env_eq_sym e1 e2 : env_eq e1 e2 -> env_eq e2 e1.
Proof. intros [A [B C]]. repeat split; intros; symmetry; auto. Qed.
Lemma env_eq_upd e1 e2 v d : env_eq e1 e2 -> env_eq (upd e1 v d) (upd e2 v d).
Proof.
  intros [A [B C]]. unfold upd. destruct (vsort v), d; cbn; repeat split; cbn; intros; auto;
  try (destruct (String.eqb _ _); auto).
Qed.

Section Ext.
Variable FI : fint.
Lemma ev_i_ext e1 e2 t : env_eq e1 e2 -> ev_i FI e1 t = ev_i FI e2 t.
Proof.
  intros [A [B C]]. induction t as [| | |o t IH|o l IHl r IHr]; cbn; auto.
  - destruct o. rewrite IH; reflexivity.
  - destruct o; rewrite IHl, IHr; reflexivity.
Qed.
Lemma ev_g_ext e1 e2 t : env_eq e1 e2 -> ev_g FI e1 t = ev_g FI e2 t.
Proof.
  intros E. destruct t; cbn; auto.
  - apply E.
  - f_equal. apply ev_i_ext; auto.
  - f_equal. destruct t; cbn; auto. apply E.
Qed.
Lemma chain_sat_ext e1 e2 gs : env_eq e1 e2 -> forall l, chain_sat FI e1 l gs = chain_sat FI e2 l gs.
Proof.
  intros E. induction gs as [|g gs IH]; intros l; cbn; auto.
  rewrite (ev_g_ext e1 e2 _ E), IH. reflexivity.
Qed.
Lemma asat_ext I e1 e2 a : env_eq e1 e2 -> asat FI I e1 a <-> asat FI I e2 a.
Proof.
  intros E. destruct a; cbn; try tauto.
  - rewrite (map_ext (ev_g FI e1) (ev_g FI e2)); [tauto|]. intros t; apply ev_g_ext; auto.
  - rewrite (ev_g_ext e1 e2 _ E), (chain_sat_ext e1 e2 _ E). tauto.
Qed.
Lemma qsat_ext q vs (k : env -> Prop) :
  (forall e1 e2, env_eq e1 e2 -> k e1 <-> k e2) ->
  forall e1 e2, env_eq e1 e2 -> qsat q vs k e1 <-> qsat q vs k e2.
Proof.
  intros Hk. induction vs as [|v vs IH]; intros e1 e2 E; cbn; [apply Hk; auto|].
  destruct q.
  - split; intros H d Hd; (eapply IH; [|apply H; exact Hd]); apply env_eq_upd; auto using env_eq_sym.
  - split; intros [d [Hd H]]; exists d; (split; [exact Hd|]);
      (eapply IH; [|exact H]); apply env_eq_upd; auto using env_eq_sym.
Qed.
Lemma csat_ext I f : forall e1 e2, env_eq e1 e2 -> csat FI I e1 f <-> csat FI I e2 f.
Proof.
  induction f as [a|f IH|c l IHl r IHr|q vs f IH]; intros e1 e2 E; cbn.
  - apply asat_ext; auto.
  - rewrite (IH e1 e2 E). tauto.
  - destruct c; rewrite (IHl e1 e2 E), (IHr e1 e2 E); tauto.
  - apply qsat_ext; auto.
Qed.
Lemma hsat_ext H T f : forall e1 e2, env_eq e1 e2 -> hsat FI H T e1 f <-> hsat FI H T e2 f.
Proof.
  induction f as [a|f IH|c l IHl r IHr|q vs f IH]; intros e1 e2 E; cbn.
  - apply asat_ext; auto.
  - rewrite (csat_ext T f e1 e2 E). tauto.
  - pose proof (IHl e1 e2 E); pose proof (IHr e1 e2 E);
    pose proof (csat_ext T l e1 e2 E); pose proof (csat_ext T r e1 e2 E). destruct c; tauto.
  - apply qsat_ext; auto.
Qed.
End Ext.

(* ---------- sorts ---------- *)
Lemma in_sort_int d : in_sort SInteger d <-> exists n, d = VNum n.
Proof. destruct d; cbn; split; try tauto; try (intros [n H]; discriminate); eauto. Qed.

(* ---------- updates ---------- *)
Lemma eg_upd_ivar e x d : eg (upd e (ivar x) d) = eg e.
Proof. unfold upd; cbn; destruct d; reflexivity. Qed.
Lemma es_upd_ivar e x d : es (upd e (ivar x) d) = es e.
Proof. unfold upd; cbn; destruct d; reflexivity. Qed.
Lemma ei_upd_same e x n : ei (upd e (ivar x) (VNum n)) x = n.
Proof. cbn. rewrite String.eqb_refl. reflexivity. Qed.
Lemma ei_upd_other e x y n : y <> x -> ei (upd e (ivar x) (VNum n)) y = ei e y.
Proof. cbn. intros H. destruct (String.eqb_spec y x); congruence. Qed.

Lemma eg_upd_gvar_same e x d : eg (upd e (gvar x) d) x = d.
Proof. cbn. rewrite String.eqb_refl. reflexivity. Qed.
Lemma eg_upd_gvar_other e x y d : y <> x -> eg (upd e (gvar x) d) y = eg e y.
Proof. cbn. intros H. destruct (String.eqb_spec y x); congruence. Qed.
Lemma ei_upd_gvar e x d : ei (upd e (gvar x) d) = ei e.
Proof. reflexivity. Qed.
Lemma es_upd_gvar e x d : es (upd e (gvar x) d) = es e.
Proof. reflexivity. Qed.

(* z is not the integer variable x *)
Definition nocap (z : var) (x : string) : Prop := vsort z = SInteger -> vname z <> x.
Lemma getv_upd_ivar_other e x n z : nocap z x -> getv (upd e (ivar x) (VNum n)) z = getv e z.
Proof.
  unfold nocap, getv. destruct z as [zn zs]; cbn [vsort vname]. intros H. destruct zs.
  - rewrite eg_upd_ivar. reflexivity.
  - rewrite ei_upd_other; auto.
  - rewrite es_upd_ivar. reflexivity.
Qed.
Lemma getv_ivar e x : getv e (ivar x) = VNum (ei e x).
Proof. reflexivity. Qed.
Lemma getv_gvar e x : getv e (gvar x) = eg e x.
Proof. reflexivity. Qed.

Lemma ev_g_var_to_gterm FI e z : ev_g FI e (var_to_gterm z) = getv e z.
Proof. unfold var_to_gterm, getv. destruct (vsort z); reflexivity. Qed.

(* ---------- comparisons ---------- *)
Lemma gval_eqb_eq a b : gval_eqb a b = true <-> a = b.
Proof. destruct (gval_eqb_spec a b); split; congruence. Qed.

(* ---------- formulas without atoms, negations and implications: H, T, I are irrelevant ---------- *)
Fixpoint posfree (f : formula) : Prop :=
  match f with
  | FAtomic (AAtom _ _) => False
  | FAtomic _ => True
  | FNot _ => False
  | FBin CAnd l r | FBin COr l r => posfree l /\ posfree r
  | FBin _ _ _ => False
  | FQ _ _ f => posfree f
  end.
Lemma posfree_csat FI I J f : posfree f -> forall e, csat FI I e f <-> csat FI J e f.
Proof.
  induction f as [a|f IH|c l IHl r IHr|q vs f IH]; cbn; intros P e.
  - destruct a; cbn in *; tauto.
  - tauto.
  - destruct c; try tauto; destruct P as [Pl Pr]; rewrite (IHl Pl e), (IHr Pr e); tauto.
  - apply qsat_iff. intros e'. apply IH; auto.
Qed.
Lemma posfree_hsat FI H T I f : posfree f -> forall e, hsat FI H T e f <-> csat FI I e f.
Proof.
  induction f as [a|f IH|c l IHl r IHr|q vs f IH]; cbn; intros P e.
  - destruct a; cbn in *; tauto.
  - tauto.
  - destruct c; try tauto; destruct P as [Pl Pr]; rewrite (IHl Pl e), (IHr Pr e); tauto.
  - apply qsat_iff. intros e'. apply IH; auto.
Qed.

(* ---------- conjoin ---------- *)
Lemma hsat_fold_and FI H T e xs : forall x,
  hsat FI H T e (fold_left (fun acc y => FBin CAnd acc y) xs x) <->
  hsat FI H T e x /\ Forall (hsat FI H T e) xs.
Proof.
  induction xs as [|y xs IH]; intros x; cbn [fold_left].
  - split; [intros Hx; split; [exact Hx|constructor]|tauto].
  - rewrite IH. cbn [hsat]. split.
    + intros [[Hx Hy] Hr]. split; [exact Hx|constructor; assumption].
    + intros [Hx Hr]. inversion Hr; subst. tauto.
Qed.
Lemma hsat_conjoin FI H T e l : hsat FI H T e (conjoin l) <-> Forall (hsat FI H T e) l.
Proof.
  unfold conjoin, reduce_bin. destruct l as [|x xs].
  - cbn. split; [constructor|exact (fun _ => I)].
  - rewrite hsat_fold_and. split; [intros [Hx Hr]; constructor; assumption|].
    intros Hr; inversion Hr; subst; tauto.
Qed.
Lemma csat_fold_and FI I e xs : forall x,
  csat FI I e (fold_left (fun acc y => FBin CAnd acc y) xs x) <->
  csat FI I e x /\ Forall (csat FI I e) xs.
Proof.
  induction xs as [|y xs IH]; intros x; cbn [fold_left].
  - split; [intros Hx; split; [exact Hx|constructor]|tauto].
  - rewrite IH. cbn [csat]. split.
    + intros [[Hx Hy] Hr]. split; [exact Hx|constructor; assumption].
    + intros [Hx Hr]. inversion Hr; subst. tauto.
Qed.
Lemma csat_conjoin FI I e l : csat FI I e (conjoin l) <-> Forall (csat FI I e) l.
Proof.
  unfold conjoin, reduce_bin. destruct l as [|x xs].
  - cbn. split; [constructor|exact (fun _ => Logic.I)].
  - rewrite csat_fold_and. split; [intros [Hx Hr]; constructor; assumption|].
    intros Hr; inversion Hr; subst; tauto.
Qed.
Lemma posfree_fold_and xs : forall x, posfree x -> Forall posfree xs ->
  posfree (fold_left (fun acc y => FBin CAnd acc y) xs x).
Proof.
  induction xs as [|y xs IH]; intros x Px Pxs; cbn [fold_left]; auto.
  inversion Pxs; subst. apply IH; auto. cbn. auto.
Qed.
Lemma posfree_conjoin l : Forall posfree l -> posfree (conjoin l).
Proof.
  unfold conjoin, reduce_bin. destruct l as [|x xs]; cbn; auto.
  intros P; inversion P; subst. apply posfree_fold_and; auto.
Qed.

(* ---------- blocks of general variables ---------- *)
Fixpoint upd_gs (e : env) (xs : list string) (ds : list gval) : env :=
  match xs, ds with
  | x :: xs', d :: ds' => upd_gs (upd e (gvar x) d) xs' ds'
  | _, _ => e
  end.

Lemma qsat_exists_gs (k : env -> Prop) xs : forall e,
  qsat QExists (map gvar xs) k e <-> exists ds, List.length ds = List.length xs /\ k (upd_gs e xs ds).
Proof.
  induction xs as [|x xs IH]; intros e; cbn [map qsat].
  - split; [intros Hk; exists []; auto|]. intros [ds [Hl Hk]]. destruct ds; [exact Hk|discriminate].
  - split.
    + intros [d [_ Hq]]. apply IH in Hq. destruct Hq as [ds [Hl Hk]].
      exists (d :: ds). split; [cbn; congruence|exact Hk].
    + intros [ds [Hl Hk]]. destruct ds as [|d ds]; [discriminate|].
      exists d. split; [exact I|]. apply IH. exists ds. split; [cbn in Hl; congruence|exact Hk].
Qed.
Lemma qsat_forall_gs (k : env -> Prop) xs : forall e,
  qsat QForall (map gvar xs) k e <-> forall ds, List.length ds = List.length xs -> k (upd_gs e xs ds).
Proof.
  induction xs as [|x xs IH]; intros e; cbn [map qsat].
  - split; [intros Hk ds Hl; destruct ds; [exact Hk|discriminate]|]. intros H. apply (H []). reflexivity.
  - split.
    + intros Hq ds Hl. destruct ds as [|d ds]; [discriminate|].
      cbn [upd_gs]. apply (proj1 (IH _) (Hq d I)). cbn in Hl; congruence.
    + intros H d _. apply IH. intros ds Hl. apply (H (d :: ds)). cbn; congruence.
Qed.

Lemma ei_upd_gs xs : forall e ds, ei (upd_gs e xs ds) = ei e.
Proof. induction xs as [|x xs IH]; intros e [|d ds]; cbn [upd_gs]; auto. rewrite IH. reflexivity. Qed.
Lemma es_upd_gs xs : forall e ds, es (upd_gs e xs ds) = es e.
Proof. induction xs as [|x xs IH]; intros e [|d ds]; cbn [upd_gs]; auto. rewrite IH. reflexivity. Qed.
Lemma eg_upd_gs_other xs : forall e ds y, ~ In y xs -> eg (upd_gs e xs ds) y = eg e y.
Proof.
  induction xs as [|x xs IH]; intros e [|d ds] y Hy; cbn [upd_gs]; auto.
  rewrite IH by (intros H; apply Hy; right; exact H).
  apply eg_upd_gvar_other. intros ->. apply Hy. left; reflexivity.
Qed.
Lemma eg_upd_gs_nth xs : forall e ds, NoDup xs -> List.length ds = List.length xs ->
  map (eg (upd_gs e xs ds)) xs = ds.
Proof.
  induction xs as [|x xs IH]; intros e [|d ds] Hnd Hl; cbn in Hl; try discriminate; auto.
  inversion Hnd as [|? ? Hx Hnd']; subst. cbn [upd_gs map]. f_equal.
  - rewrite eg_upd_gs_other by exact Hx. apply eg_upd_gvar_same.
  - apply IH; auto.
Qed.
