(* C07, classic half: every rewrite of CLASSIC preserves classical satisfaction under every
   placeholder interpretation, predicate interpretation and assignment over the infinite standard
   domain, and does not enlarge the set of free variables.

   The semantic theorem about Formula::substitute is proved on another branch (C17); here it is a
   Section hypothesis ([subst_sem], [subst_fv], [subst_total]); the section-closed theorems take
   the three statements as explicit premises. *)
From Coq Require Import List Ascii String ZArith Bool Lia Classical_Prop.
From Anthem Require Import Base.ISet Base.Fresh Syntax.Fol Sem.Domain Sem.Sat
  Model.Apply Model.Subst Model.SimplClassic
  Proofs.FreeVars Proofs.Coincidence Proofs.SimplClassicBase.
Import ListNotations.
Open Scope string_scope.
Open Scope list_scope.

(* what "r is a correct rewrite" means *)
Definition cequiv (F G : formula) : Prop := forall FI I e, csat FI I e G <-> csat FI I e F.
Definition fv_incl (F G : formula) : Prop := incl (free_variables G) (free_variables F).
Definition rewrite_ok (r : formula -> formula) : Prop := forall F, cequiv F (r F) /\ fv_incl F (r F).

Lemma cequiv_refl F : cequiv F F.
Proof. intros FI I e; tauto. Qed.
Lemma fv_incl_refl F : fv_incl F F.
Proof. intros w H; exact H. Qed.

(* ------------------------------------------------------------------ remove_double_negation *)
Theorem remove_double_negation_ok : rewrite_ok remove_double_negation.
Proof.
  intros F. destruct F as [a|[a|g|c l r|q vs g]|c l r|q vs g];
    try (split; [apply cequiv_refl|apply fv_incl_refl]).
  split.
  - intros FI I e. cbn. split; [tauto|apply NNPP].
  - intros w H; exact H.
Qed.

(* ------------------------------------------------------------------ extend_quantifier_scope *)
Lemma collision_false vs other :
  collision vs other = false -> forall v, In v vs -> ~ In v (free_variables other).
Proof.
  unfold collision. intros H v Hv Hin.
  assert (E : existsb (fun v => memb var_dec v (free_variables other)) vs = true).
  { apply existsb_exists. exists v. split; [exact Hv|]. destruct (memb_spec var_dec v (free_variables other)); tauto. }
  congruence.
Qed.

Section Scope.
Variable FI : fint.
Variable I : pint.

Lemma csat_FQ_forall e vs f :
  csat FI I e (FQ QForall vs f) <-> forall e', outside vs e e' -> csat FI I e' f.
Proof. cbn [csat]. apply qsat_forall_char. apply csat_ext. Qed.
Lemma csat_FQ_exists e vs f :
  csat FI I e (FQ QExists vs f) <-> exists e', outside vs e e' /\ csat FI I e' f.
Proof. cbn [csat]. apply qsat_exists_char. apply csat_ext. Qed.

(* g does not depend on the block: pull it inside *)
Lemma scope_right q vs (f g : formula) (c : bconn) e :
  (c = CAnd \/ c = COr) ->
  (forall v, In v vs -> ~ In v (free_variables g)) ->
  csat FI I e (FQ q vs (FBin c f g)) <-> csat FI I e (FBin c (FQ q vs f) g).
Proof.
  intros Hc Hd.
  assert (G : forall e', outside vs e e' -> (csat FI I e' g <-> csat FI I e g)).
  { intros e' Ho. symmetry. apply coincidence. eapply outside_agree; eauto. }
  destruct q.
  - rewrite csat_FQ_forall. destruct Hc as [-> | ->]; cbn [csat]; rewrite qsat_forall_char by apply csat_ext.
    + split.
      * intros H. split; [intros e' Ho; apply H, Ho|apply (G e (outside_refl vs e)), (H e (outside_refl vs e))].
      * intros [H1 H2] e' Ho. split; [apply H1, Ho|apply G; assumption].
    + split.
      * intros H. destruct (classic (csat FI I e g)) as [Hg|Hg]; [right; exact Hg|left].
        intros e' Ho. destruct (H e' Ho) as [H1|H1]; [exact H1|apply G in H1; tauto].
      * intros [H1|H2] e' Ho; [left; apply H1, Ho|right; apply G; assumption].
  - rewrite csat_FQ_exists. destruct Hc as [-> | ->]; cbn [csat]; rewrite qsat_exists_char by apply csat_ext.
    + split.
      * intros [e' [Ho [H1 H2]]]. split; [exists e'; auto|apply (G e' Ho), H2].
      * intros [[e' [Ho H2]] H1]. exists e'. split; [exact Ho|split; [exact H2|apply G; assumption]].
    + split.
      * intros [e' [Ho [H1|H2]]]; [left; exists e'; auto|right; apply (G e' Ho), H2].
      * intros [[e' [Ho H2]]|H1]; [exists e'; auto|exists e; split; [apply outside_refl|right; exact H1]].
Qed.

Lemma scope_left q vs (f g : formula) (c : bconn) e :
  (c = CAnd \/ c = COr) ->
  (forall v, In v vs -> ~ In v (free_variables g)) ->
  csat FI I e (FQ q vs (FBin c g f)) <-> csat FI I e (FBin c g (FQ q vs f)).
Proof.
  intros Hc Hd.
  assert (G : forall e', outside vs e e' -> (csat FI I e' g <-> csat FI I e g)).
  { intros e' Ho. symmetry. apply coincidence. eapply outside_agree; eauto. }
  destruct q.
  - rewrite csat_FQ_forall. destruct Hc as [-> | ->]; cbn [csat]; rewrite qsat_forall_char by apply csat_ext.
    + split.
      * intros H. split; [apply (G e (outside_refl vs e)), (H e (outside_refl vs e))|intros e' Ho; apply H, Ho].
      * intros [H1 H2] e' Ho. split; [apply G; assumption|apply H2, Ho].
    + split.
      * intros H. destruct (classic (csat FI I e g)) as [Hg|Hg]; [left; exact Hg|right].
        intros e' Ho. destruct (H e' Ho) as [H1|H1]; [apply G in H1; tauto|exact H1].
      * intros [H1|H2] e' Ho; [left; apply G; assumption|right; apply H2, Ho].
  - rewrite csat_FQ_exists. destruct Hc as [-> | ->]; cbn [csat]; rewrite qsat_exists_char by apply csat_ext.
    + split.
      * intros [e' [Ho [H1 H2]]]. split; [apply (G e' Ho), H1|exists e'; auto].
      * intros [H1 [e' [Ho H2]]]. exists e'. split; [exact Ho|split; [apply G; assumption|exact H2]].
    + split.
      * intros [e' [Ho [H1|H2]]]; [left; apply (G e' Ho), H1|right; exists e'; auto].
      * intros [H1|[e' [Ho H2]]]; [exists e; split; [apply outside_refl|left; exact H1]|exists e'; auto].
Qed.
End Scope.

Lemma scope_fv q vs f g c w :
  In w (free_variables (FQ q vs (FBin c f g))) ->
  In w (free_variables (FQ q vs f)) \/ In w (free_variables g).
Proof. rewrite !in_fv_q, in_fv_bin. tauto. Qed.
Lemma scope_fv' q vs f g c w :
  In w (free_variables (FQ q vs (FBin c g f))) ->
  In w (free_variables g) \/ In w (free_variables (FQ q vs f)).
Proof. rewrite !in_fv_q, in_fv_bin. tauto. Qed.

Lemma extend_quantifier_scope_cases F :
  extend_quantifier_scope F = F \/
  (exists c q vs f rhs, (c = CAnd \/ c = COr) /\ F = FBin c (FQ q vs f) rhs /\
     collision vs rhs = false /\ extend_quantifier_scope F = FQ q vs (FBin c f rhs)) \/
  (exists c q vs f lhs, (c = CAnd \/ c = COr) /\ F = FBin c lhs (FQ q vs f) /\
     collision vs lhs = false /\ extend_quantifier_scope F = FQ q vs (FBin c lhs f)).
Proof.
  destruct F as [a|g|c l r|q vs g]; try (left; reflexivity).
  destruct l as [a|g|c' l' r'|q vs g].
  4: { destruct c; cbn; try (left; reflexivity); destruct (collision vs r) eqn:Col; try (left; reflexivity);
       right; left; do 5 eexists; (split; [|split; [reflexivity|split; [exact Col|reflexivity]]]); auto. }
  all: destruct r as [a'|g'|c'' l'' r''|q vs g']; try (left; reflexivity).
  all: destruct c; cbn; try (left; reflexivity);
       match goal with |- context [collision ?vs ?L] => destruct (collision vs L) eqn:Col end;
       try (left; reflexivity);
       right; right; do 5 eexists; (split; [|split; [reflexivity|split; [exact Col|reflexivity]]]); auto.
Qed.

Theorem extend_quantifier_scope_ok : rewrite_ok extend_quantifier_scope.
Proof.
  intros F.
  destruct (extend_quantifier_scope_cases F)
    as [E|[[c [q [vs [f [rhs [Hc [-> [Col E]]]]]]]]|[c [q [vs [f [lhs [Hc [-> [Col E]]]]]]]]]]; rewrite E.
  - split; [apply cequiv_refl|apply fv_incl_refl].
  - split.
    + intros FI I e. apply (scope_right FI I q vs f rhs c e Hc). apply collision_false, Col.
    + intros w Hw. apply scope_fv in Hw. apply in_fv_bin. exact Hw.
  - split.
    + intros FI I e. apply (scope_left FI I q vs f lhs c e Hc). apply collision_false, Col.
    + intros w Hw. apply scope_fv' in Hw. apply in_fv_bin. exact Hw.
Qed.
