(* C07, classic half: every rewrite of CLASSIC preserves classical satisfaction under every
   placeholder interpretation, predicate interpretation and assignment over the infinite standard
   domain, and does not enlarge the set of free variables.

   The semantic theorem about Formula::substitute is proved on another branch (C17); here it is a
   Section hypothesis ([subst_sem], [subst_fv], [subst_total]); the section-closed theorems take
   the three statements as explicit premises. *)
From Coq Require Import List Ascii String ZArith Bool Lia Classical_Prop.
From Anthem Require Import Base.ISet Base.Fresh Syntax.Fol Sem.Domain Sem.Sat
  Model.Apply Model.Subst Model.SimplClassic
  Proofs.FreeVars Proofs.Coincidence Proofs.SimplClassicBase.
Import ListNotations.
Open Scope string_scope.
Open Scope list_scope.

(* what "r is a correct rewrite" means *)
Definition cequiv (F G : formula) : Prop := forall FI I e, csat FI I e G <-> csat FI I e F.
Definition fv_incl (F G : formula) : Prop := incl (free_variables G) (free_variables F).
Definition rewrite_ok (r : formula -> formula) : Prop := forall F, cequiv F (r F) /\ fv_incl F (r F).

Lemma cequiv_refl F : cequiv F F.
Proof. intros FI I e; tauto. Qed.
Lemma fv_incl_refl F : fv_incl F F.
Proof. intros w H; exact H. Qed.

(* ------------------------------------------------------------------ remove_double_negation *)
Theorem remove_double_negation_ok : rewrite_ok remove_double_negation.
Proof.
  intros F. destruct F as [a|[a|g|c l r|q vs g]|c l r|q vs g];
    try (split; [apply cequiv_refl|apply fv_incl_refl]).
  split.
  - intros FI I e. cbn. split; [tauto|apply NNPP].
  - intros w H; exact H.
Qed.

(* ------------------------------------------------------------------ extend_quantifier_scope *)
Lemma collision_false vs other :
  collision vs other = false -> forall v, In v vs -> ~ In v (free_variables other).
Proof.
  unfold collision. intros H v Hv Hin.
  assert (E : existsb (fun v => memb var_dec v (free_variables other)) vs = true).
  { apply existsb_exists. exists v. split; [exact Hv|]. destruct (memb_spec var_dec v (free_variables other)); tauto. }
  congruence.
Qed.

Section Scope.
Variable FI : fint.
Variable I : pint.

Lemma csat_FQ_forall e vs f :
  csat FI I e (FQ QForall vs f) <-> forall e', outside vs e e' -> csat FI I e' f.
Proof. cbn [csat]. apply qsat_forall_char. apply csat_ext. Qed.
Lemma csat_FQ_exists e vs f :
  csat FI I e (FQ QExists vs f) <-> exists e', outside vs e e' /\ csat FI I e' f.
Proof. cbn [csat]. apply qsat_exists_char. apply csat_ext. Qed.

(* g does not depend on the block: pull it inside *)
Lemma scope_right q vs (f g : formula) (c : bconn) e :
  (c = CAnd \/ c = COr) ->
  (forall v, In v vs -> ~ In v (free_variables g)) ->
  csat FI I e (FQ q vs (FBin c f g)) <-> csat FI I e (FBin c (FQ q vs f) g).
Proof.
  intros Hc Hd.
  assert (G : forall e', outside vs e e' -> (csat FI I e' g <-> csat FI I e g)).
  { intros e' Ho. symmetry. apply coincidence. eapply outside_agree; eauto. }
  destruct q.
  - rewrite csat_FQ_forall. destruct Hc as [-> | ->]; cbn [csat]; rewrite qsat_forall_char by apply csat_ext.
    + split.
      * intros H. split; [intros e' Ho; apply H, Ho|apply (G e (outside_refl vs e)), (H e (outside_refl vs e))].
      * intros [H1 H2] e' Ho. split; [apply H1, Ho|apply G; assumption].
    + split.
      * intros H. destruct (classic (csat FI I e g)) as [Hg|Hg]; [right; exact Hg|left].
        intros e' Ho. destruct (H e' Ho) as [H1|H1]; [exact H1|apply G in H1; tauto].
      * intros [H1|H2] e' Ho; [left; apply H1, Ho|right; apply G; assumption].
  - rewrite csat_FQ_exists. destruct Hc as [-> | ->]; cbn [csat]; rewrite qsat_exists_char by apply csat_ext.
    + split.
      * intros [e' [Ho [H1 H2]]]. split; [exists e'; auto|apply (G e' Ho), H2].
      * intros [[e' [Ho H2]] H1]. exists e'. split; [exact Ho|split; [exact H2|apply G; assumption]].
    + split.
      * intros [e' [Ho [H1|H2]]]; [left; exists e'; auto|right; apply (G e' Ho), H2].
      * intros [[e' [Ho H2]]|H1]; [exists e'; auto|exists e; split; [apply outside_refl|right; exact H1]].
Qed.

Lemma scope_left q vs (f g : formula) (c : bconn) e :
  (c = CAnd \/ c = COr) ->
  (forall v, In v vs -> ~ In v (free_variables g)) ->
  csat FI I e (FQ q vs (FBin c g f)) <-> csat FI I e (FBin c g (FQ q vs f)).
Proof.
  intros Hc Hd.
  assert (G : forall e', outside vs e e' -> (csat FI I e' g <-> csat FI I e g)).
  { intros e' Ho. symmetry. apply coincidence. eapply outside_agree; eauto. }
  destruct q.
  - rewrite csat_FQ_forall. destruct Hc as [-> | ->]; cbn [csat]; rewrite qsat_forall_char by apply csat_ext.
    + split.
      * intros H. split; [apply (G e (outside_refl vs e)), (H e (outside_refl vs e))|intros e' Ho; apply H, Ho].
      * intros [H1 H2] e' Ho. split; [apply G; assumption|apply H2, Ho].
    + split.
      * intros H. destruct (classic (csat FI I e g)) as [Hg|Hg]; [left; exact Hg|right].
        intros e' Ho. destruct (H e' Ho) as [H1|H1]; [apply G in H1; tauto|exact H1].
      * intros [H1|H2] e' Ho; [left; apply G; assumption|right; apply H2, Ho].
  - rewrite csat_FQ_exists. destruct Hc as [-> | ->]; cbn [csat]; rewrite qsat_exists_char by apply csat_ext.
    + split.
      * intros [e' [Ho [H1 H2]]]. split; [apply (G e' Ho), H1|exists e'; auto].
      * intros [H1 [e' [Ho H2]]]. exists e'. split; [exact Ho|split; [apply G; assumption|exact H2]].
    + split.
      * intros [e' [Ho [H1|H2]]]; [left; apply (G e' Ho), H1|right; exists e'; auto].
      * intros [H1|[e' [Ho H2]]]; [exists e; split; [apply outside_refl|left; exact H1]|exists e'; auto].
Qed.
End Scope.

Lemma scope_fv q vs f g c w :
  In w (free_variables (FQ q vs (FBin c f g))) ->
  In w (free_variables (FQ q vs f)) \/ In w (free_variables g).
Proof. rewrite !in_fv_q, in_fv_bin. tauto. Qed.
Lemma scope_fv' q vs f g c w :
  In w (free_variables (FQ q vs (FBin c g f))) ->
  In w (free_variables g) \/ In w (free_variables (FQ q vs f)).
Proof. rewrite !in_fv_q, in_fv_bin. tauto. Qed.

Lemma extend_quantifier_scope_cases F :
  extend_quantifier_scope F = F \/
  (exists c q vs f rhs, (c = CAnd \/ c = COr) /\ F = FBin c (FQ q vs f) rhs /\
     collision vs rhs = false /\ extend_quantifier_scope F = FQ q vs (FBin c f rhs)) \/
  (exists c q vs f lhs, (c = CAnd \/ c = COr) /\ F = FBin c lhs (FQ q vs f) /\
     collision vs lhs = false /\ extend_quantifier_scope F = FQ q vs (FBin c lhs f)).
Proof.
  destruct F as [a|g|c l r|q vs g]; try (left; reflexivity).
  destruct l as [a|g|c' l' r'|q vs g].
  4: { destruct c; cbn; try (left; reflexivity); destruct (collision vs r) eqn:Col; try (left; reflexivity);
       right; left; do 5 eexists; (split; [|split; [reflexivity|split; [exact Col|reflexivity]]]); auto. }
  all: destruct r as [a'|g'|c'' l'' r''|q vs g']; try (left; reflexivity).
  all: destruct c; cbn; try (left; reflexivity);
       match goal with |- context [collision ?vs ?L] => destruct (collision vs L) eqn:Col end;
       try (left; reflexivity);
       right; right; do 5 eexists; (split; [|split; [reflexivity|split; [exact Col|reflexivity]]]); auto.
Qed.

Theorem extend_quantifier_scope_ok : rewrite_ok extend_quantifier_scope.
Proof.
  intros F.
  destruct (extend_quantifier_scope_cases F)
    as [E|[[c [q [vs [f [rhs [Hc [-> [Col E]]]]]]]]|[c [q [vs [f [lhs [Hc [-> [Col E]]]]]]]]]]; rewrite E.
  - split; [apply cequiv_refl|apply fv_incl_refl].
  - split.
    + intros FI I e. apply (scope_right FI I q vs f rhs c e Hc). apply collision_false, Col.
    + intros w Hw. apply scope_fv in Hw. apply in_fv_bin. exact Hw.
  - split.
    + intros FI I e. apply (scope_left FI I q vs f lhs c e Hc). apply collision_false, Col.
    + intros w Hw. apply scope_fv' in Hw. apply in_fv_bin. exact Hw.
Qed.

(* ============================================================================================
   The rules that call Formula::substitute: its semantic theorem is a hypothesis of the section
   (proved on the C17 branch; discharged by the integrator). *)
Section WithSubst.
Hypothesis subst_sem : forall F x t G, sort_ok x t = true -> substitute F x t = Some G ->
  forall FI I e, csat FI I e G <-> csat FI I (upd e x (ev_g FI e t)) F.
Hypothesis subst_fv : forall F x t G w, sort_ok x t = true -> substitute F x t = Some G ->
  In w (free_variables G) -> (In w (free_variables F) /\ w <> x) \/ In w (gterm_vars t).
Hypothesis subst_total : forall F x t, sort_ok x t = true -> exists G, substitute F x t = Some G.

Lemma csat_quantify FI I e f q vs :
  csat FI I e (quantify f q vs) <-> qsat q vs (fun e' => csat FI I e' f) e.
Proof. destruct vs; cbn; tauto. Qed.

Lemma total_ok (r : formula -> option formula) :
  (forall F G, r F = Some G -> cequiv F G /\ fv_incl F G) -> rewrite_ok (total r).
Proof.
  intros H F. unfold total. destruct (r F) as [G|] eqn:E; [apply H, E|].
  split; [apply cequiv_refl|apply fv_incl_refl].
Qed.

(* ------------------------------------------------------------ substitute_defined_variables *)
Lemma def_candidate_some v x term d :
  def_candidate v (x, term) = Some d -> d = term /\ x = var_to_gterm v /\ sort_ok v term = true.
Proof.
  unfold def_candidate. destruct v as [n s]. cbn [vname vsort].
  destruct x as [| |c|y|[z|c|y|o t|o l r]|[sy|c|y]]; destruct term as [| |c'|y'|it'|st']; destruct s;
    try discriminate;
    (destruct (String.eqb_spec n y); cbn [andb]; [|discriminate]);
    (match goal with |- (if negb ?b then _ else _) = _ -> _ => destruct b; cbn [negb]; [discriminate|] end);
    intros [= <-]; subst; repeat split; reflexivity.
Qed.

Lemma find_definition_spec v f d :
  find_definition v f = Some d ->
  sort_ok v d = true /\
  (forall FI I e, csat FI I e f -> getv e v = ev_g FI e d) /\
  incl (gterm_vars d) (free_variables f).
Proof.
  revert d. induction f as [a|f IH|c l IHl r IHr|q vs f IH]; intros d; cbn [find_definition]; try discriminate.
  - destruct a as [| |p ts|t gs]; try discriminate.
    intros H. apply find_map_some in H. destruct H as [[x term] [Hin Hc]].
    apply def_candidate_some in Hc. destruct Hc as [-> [-> Hs]].
    unfold equal_pairs in Hin. cbn [fst snd] in Hin. apply in_flat_map in Hin.
    destruct Hin as [[[l rel] rh] [Hi Hp]].
    destruct rel; cbn in Hp; try contradiction.
    pose proof (individuals_terms t gs l REq rh Hi) as [Hl Hr].
    assert (Vl : incl (gterm_vars l) (free_variables (FAtomic (ACmp t gs)))).
    { intros w Hw. cbn [free_variables]. apply in_aformula_vars_cmp.
      destruct Hl as [->|[g [G1 ->]]]; [left; exact Hw|right; eauto]. }
    assert (Vr : incl (gterm_vars rh) (free_variables (FAtomic (ACmp t gs)))).
    { intros w Hw. cbn [free_variables]. apply in_aformula_vars_cmp.
      destruct Hr as [g [G1 ->]]. right; eauto. }
    assert (Sem : forall FI I e, csat FI I e (FAtomic (ACmp t gs)) -> ev_g FI e l = ev_g FI e rh).
    { intros FI I e H. cbn in H. apply chain_individuals in H. rewrite Forall_forall in H.
      specialize (H _ Hi). cbn in H. destruct (gval_eqb_spec (ev_g FI e l) (ev_g FI e rh)); congruence. }
    destruct Hp as [E|[E|[]]]; inversion E; subst; clear E; (split; [exact Hs|split; [|assumption]]);
      intros FI I e H; specialize (Sem FI I e H); rewrite ev_var_to_gterm in Sem; congruence.
  - destruct c; try discriminate.
    destruct (find_definition v l) as [d'|] eqn:El.
    + intros [= <-]. destruct (IHl _ eq_refl) as [H1 [H2 H3]]. split; [exact H1|split].
      * intros FI I e [Hl _]. apply (H2 FI I e Hl).
      * intros w Hw. apply in_fv_bin. left. apply H3, Hw.
    + intros H. destruct (IHr _ H) as [H1 [H2 H3]]. split; [exact H1|split].
      * intros FI I e [_ Hr]. apply (H2 FI I e Hr).
      * intros w Hw. apply in_fv_bin. right. apply H3, Hw.
Qed.

(* one step: exists block (f)  <->  exists block (f[v := d])  when f entails v = d and v is in the block *)
Lemma define_step FI I block v d f f1 e :
  In v block -> sort_ok v d = true ->
  (forall e', csat FI I e' f -> getv e' v = ev_g FI e' d) ->
  substitute f v d = Some f1 ->
  qsat QExists block (fun e' => csat FI I e' f1) e <-> qsat QExists block (fun e' => csat FI I e' f) e.
Proof.
  intros Hv Hs Hd Hsub.
  rewrite !qsat_exists_char by apply csat_ext. split.
  - intros [e' [Ho H]]. rewrite (subst_sem _ _ _ _ Hs Hsub) in H.
    exists (upd e' v (ev_g FI e' d)). split; [|exact H].
    intros w Nw. rewrite getv_upd_other; [apply Ho, Nw|]. intros ->. apply Nw, Hv.
  - intros [e' [Ho H]]. exists e'. split; [exact Ho|].
    rewrite (subst_sem _ _ _ _ Hs Hsub). rewrite <- (Hd e' H).
    apply (csat_ext FI I f _ _ (upd_getv e' v)). exact H.
Qed.

Lemma sdv_loop_ok block : forall vs f f',
  (forall v, In v vs -> In v block) -> sdv_loop vs f = Some f' ->
  (forall FI I e, qsat QExists block (fun e' => csat FI I e' f') e <->
                  qsat QExists block (fun e' => csat FI I e' f) e)
  /\ incl (free_variables f') (free_variables f).
Proof.
  induction vs as [|v vs IH]; intros f f' Hb; cbn [sdv_loop].
  - intros [= <-]. split; [tauto|apply incl_refl].
  - destruct (find_definition v f) as [d|] eqn:Ed.
    + destruct (find_definition_spec _ _ _ Ed) as [Hs [Hd Hv]].
      destruct (substitute f v d) as [f1|] eqn:Es; [|discriminate].
      intros H. destruct (IH f1 f' (fun u Hu => Hb u (or_intror Hu)) H) as [H1 H2]. split.
      * intros FI I e. rewrite H1. apply (define_step FI I block v d f f1 e); auto.
        -- apply Hb; left; reflexivity.
        -- intros e'. apply Hd.
      * intros w Hw. apply H2 in Hw. destruct (subst_fv _ _ _ _ _ Hs Es Hw) as [[Hw' _]|Hw']; auto.
    + intros H. apply (IH f f'); auto. intros u Hu. apply Hb. right; exact Hu.
Qed.

Lemma substitute_defined_variables_opt_ok F G :
  substitute_defined_variables_opt F = Some G -> cequiv F G /\ fv_incl F G.
Proof.
  destruct F as [a|g|c l r|q vs f]; cbn [substitute_defined_variables_opt];
    try (intros [= <-]; split; [apply cequiv_refl|apply fv_incl_refl]).
  destruct q; try (intros [= <-]; split; [apply cequiv_refl|apply fv_incl_refl]).
  destruct (sdv_loop (rev vs) f) as [f'|] eqn:E; [|discriminate]. intros [= <-].
  destruct (sdv_loop_ok vs (rev vs) f f') as [H1 H2]; auto.
  { intros v Hv. apply in_rev. exact Hv. }
  split.
  - intros FI I e. rewrite csat_quantify. cbn [csat]. apply H1.
  - intros w Hw. apply in_fv_quantify in Hw. apply in_fv_q. destruct Hw as [Hw Nw]. split; auto.
Qed.

Theorem substitute_defined_variables_ok : rewrite_ok substitute_defined_variables.
Proof. apply total_ok. exact substitute_defined_variables_opt_ok. Qed.

(* the rule never panics *)
Lemma sdv_loop_total : forall vs f, exists f', sdv_loop vs f = Some f'.
Proof.
  induction vs as [|v vs IH]; intros f; cbn [sdv_loop]; [eauto|].
  destruct (find_definition v f) as [d|] eqn:Ed; [|apply IH].
  destruct (find_definition_spec _ _ _ Ed) as [Hs _].
  destruct (subst_total f v d Hs) as [f1 ->]. apply IH.
Qed.
Theorem substitute_defined_variables_total F : exists G, substitute_defined_variables_opt F = Some G.
Proof.
  destruct F as [a|g|c l r|q vs f]; cbn [substitute_defined_variables_opt]; eauto.
  destruct q; eauto. destruct (sdv_loop_total (rev vs) f) as [f' ->]. eauto.
Qed.


(* -------------------------------------------------------------- simplify_transitive_equality *)
Lemma gterm_to_var_some t v : gterm_to_var t = Some v -> t = var_to_gterm v.
Proof.
  destruct t as [| |c|y|[z|c|y|o t|o l r]|[sy|c|y]]; cbn; try discriminate; intros [= <-]; reflexivity.
Qed.
Lemma is_var_some vars t v : is_var vars t = Some v -> t = var_to_gterm v /\ In v vars.
Proof.
  unfold is_var. destruct (gterm_to_var t) as [u|] eqn:E; [|discriminate].
  destruct (memb_spec var_dec u vars); [|discriminate]. intros [= <-].
  split; [apply gterm_to_var_some, E|assumption].
Qed.
Lemma subsort_sort_ok k d : subsort k d = true -> sort_ok d (var_to_gterm k) = true.
Proof. destruct k as [n []], d as [m []]; cbn; congruence. Qed.
Lemma subsort_in_sort k d e : subsort k d = true -> in_sort (vsort d) (getv e k).
Proof. destruct k as [n []], d as [m []]; cbn; try congruence; auto. Qed.

Lemma te_result_spec v1 v2 c1 c2 k d dt :
  te_result v1 v2 c1 c2 = Some (k, d, dt) ->
  subsort k d = true /\ ((k = v1 /\ d = v2 /\ dt = c2) \/ (k = v2 /\ d = v1 /\ dt = c1)).
Proof.
  unfold te_result. destruct (subsort v1 v2) eqn:E1.
  - intros [= <- <- <-]. auto.
  - destruct (subsort v2 v1) eqn:E2; [|discriminate]. intros [= <- <- <-]. auto.
Qed.

Lemma transitive_equality_spec l1 r1 l2 r2 vars k d dt :
  transitive_equality (l1, [mkguard REq r1]) (l2, [mkguard REq r2]) vars = Some (Some (k, d, dt)) ->
  In k vars /\ In d vars /\ subsort k d = true /\
  (dt = (l1, [mkguard REq r1]) \/ dt = (l2, [mkguard REq r2])) /\
  (forall FI e, ev_g FI e l1 = ev_g FI e r1 -> ev_g FI e l2 = ev_g FI e r2 -> getv e k = getv e d) /\
  (forall FI e, getv e k = getv e d -> (ev_g FI e l1 = ev_g FI e r1 <-> ev_g FI e l2 = ev_g FI e r2)).
Proof.
  unfold transitive_equality. cbn [first_guard_term snd fst gterm_of]. intros [= H].
  destruct (is_var vars l1) as [v1|] eqn:A1.
  - apply is_var_some in A1. destruct A1 as [-> I1].
    destruct (is_var vars l2) as [v2|] eqn:A2.
    + apply is_var_some in A2. destruct A2 as [-> I2].
      destruct (gterm_eqb_spec r1 r2); [subst|discriminate].
      apply te_result_spec in H. destruct H as [Hs [[-> [-> ->]]|[-> [-> ->]]]];
        (refine (conj _ (conj _ (conj _ (conj _ (conj _ _))))); auto); intros FI e; rewrite !ev_var_to_gterm; intros; try split; intros; congruence.
    + destruct (is_var vars r2) as [v2|] eqn:A3; [|discriminate].
      apply is_var_some in A3. destruct A3 as [-> I2].
      destruct (gterm_eqb_spec r1 l2); [subst|discriminate].
      apply te_result_spec in H. destruct H as [Hs [[-> [-> ->]]|[-> [-> ->]]]];
        (refine (conj _ (conj _ (conj _ (conj _ (conj _ _))))); auto); intros FI e; rewrite !ev_var_to_gterm; intros; try split; intros; congruence.
  - destruct (is_var vars r1) as [v1|] eqn:A1'; [|discriminate].
    apply is_var_some in A1'. destruct A1' as [-> I1].
    destruct (is_var vars l2) as [v2|] eqn:A2.
    + apply is_var_some in A2. destruct A2 as [-> I2].
      destruct (gterm_eqb_spec l1 r2); [subst|discriminate].
      apply te_result_spec in H. destruct H as [Hs [[-> [-> ->]]|[-> [-> ->]]]];
        (refine (conj _ (conj _ (conj _ (conj _ (conj _ _))))); auto); intros FI e; rewrite !ev_var_to_gterm; intros; try split; intros; congruence.
    + destruct (is_var vars r2) as [v2|] eqn:A3; [|discriminate].
      apply is_var_some in A3. destruct A3 as [-> I2].
      destruct (gterm_eqb_spec l1 l2); [subst|discriminate].
      apply te_result_spec in H. destruct H as [Hs [[-> [-> ->]]|[-> [-> ->]]]];
        (refine (conj _ (conj _ (conj _ (conj _ (conj _ _))))); auto); intros FI e; rewrite !ev_var_to_gterm; intros; try split; intros; congruence.
Qed.

(* what the two nested loops can produce *)
Definition ste_good (vars : list var) (cts : list formula) (G : formula) : Prop :=
  exists c1 c2 k d dt inner,
    In (cmp_formula c1) cts /\ In (cmp_formula c2) cts /\
    equality_comparison c1 = Some true /\ equality_comparison c2 = Some true /\
    (cmp_eqb c1 c2 = false \/ (exists g gs, snd c1 = g :: gs /\ fst c1 = gterm_of g)) /\
    transitive_equality c1 c2 vars = Some (Some (k, d, dt)) /\
    substitute (conjoin (filter (fun t => negb (formula_eqb t (cmp_formula dt))) cts)) d (var_to_gterm k)
      = Some inner /\
    G = FQ QExists vars inner.

Lemma ste_inner_body_inv F vars cts i c1 s jct2 s1 b :
  In (cmp_formula c1) cts -> equality_comparison c1 = Some true -> In (snd jct2) cts ->
  (fst s = F \/ ste_good vars cts (fst s)) ->
  ste_inner_body vars cts i c1 s jct2 = Some (s1, b) ->
  fst s1 = F \/ ste_good vars cts (fst s1).
Proof.
  intros H1 E1 H2 P. destruct jct2 as [j ct2]. cbn [snd] in H2. unfold ste_inner_body.
  destruct ct2 as [[| |p ts|t2 gs2]|g|c l r|q vs g]; try (intros [= <- <-]; exact P).
  destruct (equality_comparison (t2, gs2)) as [e2|] eqn:E2; [|discriminate].
  match goal with |- (if ?c then _ else _) = _ -> _ => destruct c eqn:Cond end; [|intros [= <- <-]; exact P].
  apply andb_true_iff in Cond. destruct Cond as [Cond C3]. apply andb_true_iff in Cond. destruct Cond as [C1 C2].
  subst e2.
  destruct (transitive_equality c1 (t2, gs2) vars) as [[[[k d] dt]|]|] eqn:TE; try discriminate;
    [|intros [= <- <-]; exact P].
  match goal with |- match ?x with _ => _ end = _ -> _ => destruct x as [inner|] eqn:Sub end; [|discriminate].
  intros [= <- <-]. right. cbn [fst].
  exists c1, (t2, gs2), k, d, dt, inner. repeat split; auto.
  apply orb_true_iff in C3. destruct C3 as [C3|C3].
  - left. destruct (cmp_eqb c1 (t2, gs2)); [discriminate|reflexivity].
  - right. destruct (snd c1) as [|g gs]; [discriminate|].
    exists g, gs. split; [reflexivity|]. destruct (gterm_eqb_spec (fst c1) (gterm_of g)); [assumption|discriminate].
Qed.

Lemma ste_outer_body_inv F vars cts s ict1 s1 b :
  In (snd ict1) cts ->
  (fst s = F \/ ste_good vars cts (fst s)) ->
  ste_outer_body vars cts s ict1 = Some (s1, b) ->
  fst s1 = F \/ ste_good vars cts (fst s1).
Proof.
  intros H1 P. destruct ict1 as [i ct1]. cbn [snd] in H1. unfold ste_outer_body.
  destruct ct1 as [[| |p ts|t1 gs1]|g|c l r|q vs g]; try (intros [= <- <-]; exact P).
  destruct (equality_comparison (t1, gs1)) as [[|]|] eqn:E1; try discriminate; [|intros [= <- <-]; exact P].
  match goal with |- match ?x with _ => _ end = _ -> _ => destruct x as [s'|] eqn:L end; [|discriminate].
  intros [= <- <-].
  revert L. apply (for_break_inv (fun s => fst s = F \/ ste_good vars cts (fst s))); [|exact P].
  intros s0 x s2 b0 Hx P0. apply (ste_inner_body_inv F vars cts i (t1, gs1)); auto.
  destruct x as [j ct2]. cbn [snd]. eapply in_enumerate; eauto.
Qed.

Lemma ste_good_ok vars f G :
  ste_good vars (conjoin_invert f) G ->
  cequiv (FQ QExists vars f) G /\ fv_incl (FQ QExists vars f) G.
Proof.
  intros [c1 [c2 [k [d [dt [inner [In1 [In2 [E1 [E2 [Hne [TE [Sub ->]]]]]]]]]]]]].
  destruct (equality_comparison_true _ E1) as [l1 [r1 ->]].
  destruct (equality_comparison_true _ E2) as [l2 [r2 ->]].
  destruct (transitive_equality_spec _ _ _ _ _ _ _ _ TE) as [Ik [Id [Hs [Hdt [Sem1 Sem2]]]]].
  set (cts := conjoin_invert f) in *.
  set (rest := filter (fun t => negb (formula_eqb t (cmp_formula dt))) cts) in *.
  pose proof (subsort_sort_ok k d Hs) as Hok.
  split.
  - intros FI I e. cbn [csat]. rewrite !qsat_exists_char by apply csat_ext.
    assert (Hsub : forall e', csat FI I e' inner <-> Forall (csat FI I (upd e' d (getv e' k))) rest).
    { intros e'. rewrite (subst_sem _ _ _ _ Hok Sub). rewrite ev_var_to_gterm. apply csat_conjoin. }
    split.
    + (* result -> original *)
      intros [e' [Ho H]]. apply Hsub in H. set (e'' := upd e' d (getv e' k)) in *.
      exists e''. split.
      * intros w Nw. unfold e''. rewrite getv_upd_other; [apply Ho, Nw|]. intros ->. apply Nw, Id.
      * apply csat_conjoin_invert. fold cts. rewrite Forall_forall in *. intros ct Hct.
        destruct (formula_eqb_spec ct (cmp_formula dt)) as [->|NE].
        2: { apply H. unfold rest. apply filter_In. split; [exact Hct|].
             destruct (formula_eqb_spec ct (cmp_formula dt)); [contradiction|reflexivity]. }
        assert (Hkd : getv e'' k = getv e'' d).
        { destruct (var_dec k d) as [->|NE]; [reflexivity|]. unfold e''.
          rewrite getv_upd_same by (apply subsort_in_sort, Hs).
          rewrite getv_upd_other by auto. reflexivity. }
        pose proof (Sem2 FI e'' Hkd) as Eq.
        assert (Triv : cmp_formula (l1, [mkguard REq r1]) = cmp_formula (l2, [mkguard REq r2]) ->
                       ev_g FI e'' l1 = ev_g FI e'' r1).
        { intros Ec. inversion Ec; subst. destruct Hne as [Hne|[g [gs [Hg1 Hg2]]]].
          - destruct (cmp_eqb_spec (l2, [mkguard REq r2]) (l2, [mkguard REq r2])); [discriminate|congruence].
          - cbn in Hg1, Hg2. inversion Hg1; subst. reflexivity. }
        destruct Hdt as [-> | ->]; apply csat_eq_cmp.
        -- destruct (formula_eqb_spec (cmp_formula (l2, [mkguard REq r2])) (cmp_formula (l1, [mkguard REq r1])))
             as [Ec|NEc]; [apply Triv; symmetry; exact Ec|].
           apply Eq. apply (csat_eq_cmp FI I). apply H. unfold rest. apply filter_In. split; [exact In2|].
           destruct (formula_eqb_spec (cmp_formula (l2, [mkguard REq r2])) (cmp_formula (l1, [mkguard REq r1])));
             [contradiction|reflexivity].
        -- destruct (formula_eqb_spec (cmp_formula (l1, [mkguard REq r1])) (cmp_formula (l2, [mkguard REq r2])))
             as [Ec|NEc]; [apply Eq, Triv, Ec|].
           apply Eq. apply (csat_eq_cmp FI I). apply H. unfold rest. apply filter_In. split; [exact In1|].
           destruct (formula_eqb_spec (cmp_formula (l1, [mkguard REq r1])) (cmp_formula (l2, [mkguard REq r2])));
             [contradiction|reflexivity].
    + (* original -> result *)
      intros [e' [Ho H]]. exists e'. split; [exact Ho|]. apply Hsub.
      apply csat_conjoin_invert in H. fold cts in H. rewrite Forall_forall in *.
      assert (Hkd : getv e' k = getv e' d).
      { apply (Sem1 FI e'); apply (csat_eq_cmp FI I); apply H; assumption. }
      intros ct Hct. unfold rest in Hct. apply filter_In in Hct. destruct Hct as [Hct _].
      rewrite Hkd. apply (csat_ext FI I ct _ _ (upd_getv e' d)). apply H, Hct.
  - intros w Hw. apply in_fv_q in Hw. destruct Hw as [Hw Nw]. apply in_fv_q. split; [|exact Nw].
    destruct (subst_fv _ _ _ _ _ Hok Sub Hw) as [[Hw' _]|Hw'].
    + apply fv_conjoin in Hw'. destruct Hw' as [y [Hy Hwy]]. unfold rest in Hy. apply filter_In in Hy.
      apply fv_conjoin_invert. exists y. split; [apply Hy|exact Hwy].
    + rewrite gterm_vars_var_to_gterm in Hw'. destruct Hw' as [<-|[]]. contradiction.
Qed.

Lemma simplify_transitive_equality_opt_ok F G :
  simplify_transitive_equality_opt F = Some G -> cequiv F G /\ fv_incl F G.
Proof.
  destruct F as [a|g|c l r|q vs f]; cbn [simplify_transitive_equality_opt];
    try (intros [= <-]; split; [apply cequiv_refl|apply fv_incl_refl]).
  destruct q; try (intros [= <-]; split; [apply cequiv_refl|apply fv_incl_refl]).
  destruct f as [a|g|c l r|q' vs' g]; try (intros [= <-]; split; [apply cequiv_refl|apply fv_incl_refl]).
  destruct c; try (intros [= <-]; split; [apply cequiv_refl|apply fv_incl_refl]).
  set (f := FBin CAnd l r). set (F := FQ QExists vs f).
  destruct (for_break (ste_outer_body vs (conjoin_invert f)) (F, false) (enumerate (conjoin_invert f)))
    as [s'|] eqn:L; [|discriminate].
  cbn [option_map]. intros [= <-].
  assert (P : fst s' = F \/ ste_good vs (conjoin_invert f) (fst s')).
  { revert L. apply (for_break_inv (fun s => fst s = F \/ ste_good vs (conjoin_invert f) (fst s))); [|left; reflexivity].
    intros s0 x s2 b0 Hx P0. apply (ste_outer_body_inv F vs (conjoin_invert f)); auto.
    destruct x as [j ct]. cbn [snd]. eapply in_enumerate; eauto. }
  destruct P as [->|P]; [split; [apply cequiv_refl|apply fv_incl_refl]|].
  apply ste_good_ok, P.
Qed.

Theorem simplify_transitive_equality_ok : rewrite_ok simplify_transitive_equality.
Proof. apply total_ok. exact simplify_transitive_equality_opt_ok. Qed.


(* ---------------------------------------------------------------- restrict_quantifier_domain *)
Lemma choose_fresh_one_fresh vars variant fvar rest :
  choose_fresh_variable_names vars variant 1 = fvar :: rest -> ~ In fvar (map vname vars).
Proof.
  unfold choose_fresh_variable_names.
  destruct (memb_spec string_dec variant (map vname vars)) as [Hin|Hnin].
  - cbn [seq map cfvn_loop List.length]. rewrite Nat.add_0_r.
    destruct (find_fresh_by _ variant _ (N.of_nat 1)) as [[c m]|] eqn:E; [|discriminate].
    cbn [app]. intros [= <- <-].
    apply find_fresh_by_sound in E. destruct E as [E _].
    apply orb_false_iff in E. destruct E as [E _].
    destruct (memb_spec string_dec c (map vname vars)); [discriminate|assumption].
  - cbn. intros [= <- <-]. exact Hnin.
Qed.

Definition cand1 (ivar ovar : var) : comparison := (GVar (vname ovar), [mkguard REq (GInt (IVar (vname ivar)))]).
Definition cand2 (ivar ovar : var) : comparison := (GInt (IVar (vname ivar)), [mkguard REq (GVar (vname ovar))]).

Lemma replacement_helper_true ivar ovar comp F G :
  replacement_helper ivar ovar comp F = Some (G, true) ->
  (comp = cand1 ivar ovar \/ comp = cand2 ivar ovar) /\
  exists q vars f fvar f',
    F = FQ q vars f /\ ~ In fvar (map vname (variables F)) /\
    substitute f ovar (GInt (IVar fvar)) = Some f' /\
    G = FQ q (filter (fun x => negb (var_eqb x ovar)) vars ++ [mkvar fvar SInteger]) f'.
Proof.
  unfold replacement_helper. fold (cand1 ivar ovar). fold (cand2 ivar ovar).
  match goal with |- (if ?c then _ else _) = _ -> _ => destruct c eqn:R end; [|intros [= _ ?]; discriminate].
  assert (Hc : comp = cand1 ivar ovar \/ comp = cand2 ivar ovar).
  { destruct (cmp_eqb_spec comp (cand1 ivar ovar)); [left; assumption|].
    destruct (cmp_eqb_spec comp (cand2 ivar ovar)); [right; assumption|discriminate]. }
  cbv zeta.
  destruct (choose_fresh_variable_names (variables F) (fresh_variant (vname ivar)) 1) as [|fvar rest] eqn:CF; [discriminate|].
  apply choose_fresh_one_fresh in CF.
  destruct F as [a|g|c l r|q vars f]; try discriminate.
  destruct (substitute f ovar (GInt (IVar fvar))) as [f'|] eqn:Sub; [|discriminate].
  intros [= <-]. split; [exact Hc|]. exists q, vars, f, fvar, f'. auto.
Qed.

Definition rqd_hit (F : formula) (outer inner : list var) (cond : var -> var -> bool)
           (comps : list formula) (G : formula) : Prop :=
  exists ivar ovar comp,
    In ovar outer /\ In ivar inner /\ cond ovar ivar = true /\
    In (cmp_formula comp) comps /\ equality_comparison comp = Some true /\
    replacement_helper ivar ovar comp F = Some (G, true).

Section Loops.
Variables (F : formula) (outer inner : list var) (cond : var -> var -> bool) (comps : list formula).
Variable P : lstate -> Prop.
Hypothesis HP : forall G, rqd_hit F outer inner cond comps G -> P (G, true).

Lemma rqd_ivar_body_inv tb ovar comp s ivar s1 b :
  In ovar outer -> In ivar inner -> In (cmp_formula comp) comps -> equality_comparison comp = Some true ->
  P s -> rqd_ivar_body cond tb ovar comp F s ivar = Some (s1, b) -> P s1.
Proof.
  intros Ho Hi Hc He Ps. unfold rqd_ivar_body.
  destruct (cond ovar ivar) eqn:C; [|intros [= <- <-]; exact Ps].
  destruct (replacement_helper ivar ovar comp F) as [[G [|]]|] eqn:R; try discriminate.
  - intros [= <- <-]. apply HP. exists ivar, ovar, comp. auto 10.
  - intros [= <- <-]. exact Ps.
Qed.

Lemma rqd_ovar_body_inv is_ex comp s ovar s1 b :
  In ovar outer -> In (cmp_formula comp) comps -> equality_comparison comp = Some true ->
  P s -> rqd_ovar_body cond is_ex inner comp F s ovar = Some (s1, b) -> P s1.
Proof.
  intros Ho Hc He Ps. unfold rqd_ovar_body.
  match goal with |- match ?x with _ => _ end = _ -> _ => destruct x as [s'|] eqn:L end; [|discriminate].
  intros [= <- <-]. revert L. apply (for_break_inv P); [|exact Ps].
  intros s0 x s2 b0 Hx P0. apply rqd_ivar_body_inv; auto.
Qed.

Lemma rqd_comp_body_inv is_ex s ict s1 b :
  In ict comps -> P s -> rqd_comp_body cond is_ex outer inner F s ict = Some (s1, b) -> P s1.
Proof.
  intros Hc Ps. unfold rqd_comp_body.
  destruct ict as [[| |p ts|t gs]|g|c l r|q vs g]; try (intros [= <- <-]; exact Ps).
  destruct (equality_comparison (t, gs)) as [[|]|] eqn:E; try discriminate; [|intros [= <- <-]; exact Ps].
  match goal with |- match ?x with _ => _ end = _ -> _ => destruct x as [s'|] eqn:L end; [|discriminate].
  intros [= <- <-]. revert L. apply (for_break_inv P); [|exact Ps].
  intros s0 x s2 b0 Hx P0. apply (rqd_ovar_body_inv is_ex (t, gs)); auto.
Qed.
End Loops.

Definition cond_ex (inner_vars : list var) (ovar ivar : var) : bool :=
  sort_eqb (vsort ovar) SGeneral && sort_eqb (vsort ivar) SInteger && negb (memb var_dec ovar inner_vars).
Definition cond_all (inner_vars : list var) (rhs : formula) (ovar ivar : var) : bool :=
  sort_eqb (vsort ovar) SGeneral && sort_eqb (vsort ivar) SInteger && negb (memb var_dec ovar inner_vars)
  && negb (memb var_dec ovar (free_variables rhs)).

Lemma cond_ex_true inner ovar ivar :
  cond_ex inner ovar ivar = true -> vsort ovar = SGeneral /\ vsort ivar = SInteger /\ ~ In ovar inner.
Proof.
  unfold cond_ex. rewrite !andb_true_iff. intros [[H1 H2] H3].
  destruct (sort_eqb_spec (vsort ovar) SGeneral); [|discriminate].
  destruct (sort_eqb_spec (vsort ivar) SInteger); [|discriminate].
  destruct (memb_spec var_dec ovar inner); [discriminate|]. auto.
Qed.
Lemma cond_all_true inner rhs ovar ivar :
  cond_all inner rhs ovar ivar = true -> cond_ex inner ovar ivar = true.
Proof. unfold cond_all, cond_ex. rewrite !andb_true_iff. tauto. Qed.

(* the exists-case outer loop: some existential conjunct was hit *)
Definition rqd_hit_ex (F : formula) (outer : list var) (cts : list formula) (G : formula) : Prop :=
  exists inner inner_formula,
    In (FQ QExists inner inner_formula) cts /\
    rqd_hit F outer inner (cond_ex inner) (conjoin_invert inner_formula) G.

Lemma rqd_ct_body_inv F outer cts s ct s1 b :
  In ct cts ->
  (fst s = F \/ rqd_hit_ex F outer cts (fst s)) ->
  rqd_ct_body outer F s ct = Some (s1, b) ->
  fst s1 = F \/ rqd_hit_ex F outer cts (fst s1).
Proof.
  intros Hc Ps. unfold rqd_ct_body.
  destruct ct as [a|g|c l r|q inner inner_formula]; try (intros [= <- <-]; exact Ps).
  destruct q; try (intros [= <- <-]; exact Ps).
  fold (cond_ex inner).
  match goal with |- match ?x with _ => _ end = _ -> _ => destruct x as [s'|] eqn:L end; [|discriminate].
  intros [= <- <-]. revert L.
  apply (for_break_inv (fun s => fst s = F \/ rqd_hit_ex F outer cts (fst s))); [|exact Ps].
  intros s0 x s2 b0 Hx P0.
  apply (rqd_comp_body_inv F outer inner (cond_ex inner) (conjoin_invert inner_formula)
           (fun s => fst s = F \/ rqd_hit_ex F outer cts (fst s))); auto.
  intros G HG. right. cbn [fst]. exists inner, inner_formula. auto.
Qed.

(* semantic core: exists/forall Z$g over a body that forces Z to be an integer (or is vacuous
   otherwise) = exists/forall K$i over the body with Z replaced by K, K fresh *)
Section Restrict.
Variables (FI : fint) (I : pint).
Variables (outer : list var) (B B' : formula) (ovar : var) (fvar : string).
Let K := mkvar fvar SInteger.
Let vs' := filter (fun x => negb (var_eqb x ovar)) outer ++ [K].
Hypothesis Hg : vsort ovar = SGeneral.
Hypothesis Ho : In ovar outer.
Hypothesis HK : ~ In K (free_variables B).
Hypothesis Hsub : substitute B ovar (GInt (IVar fvar)) = Some B'.

Lemma ovar_ne_K : ovar <> K.
Proof. intros E. rewrite E in Hg. discriminate. Qed.

Lemma in_vs' w : In w vs' <-> (In w outer /\ w <> ovar) \/ w = K.
Proof.
  unfold vs'. rewrite in_app_iff, filter_In. cbn [In].
  destruct (var_eqb_spec w ovar); cbn [negb]; split; intros H; intuition congruence.
Qed.

Lemma sub_sem e2 : csat FI I e2 B' <-> csat FI I (upd e2 ovar (getv e2 K)) B.
Proof.
  assert (Hok : sort_ok ovar (GInt (IVar fvar)) = true) by (unfold sort_ok; rewrite Hg; reflexivity).
  rewrite (subst_sem _ _ _ _ Hok Hsub). reflexivity.
Qed.

Lemma transfer_1 e e2 : outside vs' e e2 ->
  exists e1, outside outer e e1 /\ (csat FI I e1 B <-> csat FI I e2 B').
Proof.
  intros O2. exists (upd (upd e2 ovar (getv e2 K)) K (getv e K)). split.
  - intros w Nw. destruct (var_dec K w) as [<-|NK].
    + symmetry. apply getv_upd_same, in_sort_getv.
    + rewrite getv_upd_other by exact NK.
      assert (Nw' : ovar <> w) by (intros <-; apply Nw, Ho).
      rewrite getv_upd_other by exact Nw'. apply O2. rewrite in_vs'. intros [[H _]|H]; [auto|congruence].
  - rewrite sub_sem. apply csat_upd_notfree, HK.
Qed.

Lemma transfer_2 e e1 n : outside outer e e1 -> getv e1 ovar = VNum n ->
  exists e2, outside vs' e e2 /\ (csat FI I e1 B <-> csat FI I e2 B').
Proof.
  intros O1 Hn. set (e2 := upd (upd e1 ovar (getv e ovar)) K (VNum n)). exists e2. split.
  - intros w Nw. rewrite in_vs' in Nw.
    assert (NK : K <> w) by (intros <-; apply Nw; right; reflexivity).
    unfold e2. rewrite getv_upd_other by exact NK.
    destruct (var_dec ovar w) as [<-|No].
    + symmetry. apply getv_upd_same, in_sort_getv.
    + rewrite getv_upd_other by exact No. apply O1. intros Hin. apply Nw. left. split; [exact Hin|congruence].
  - rewrite sub_sem.
    assert (EK : getv e2 K = VNum n) by (unfold e2; apply getv_upd_same; exact Logic.I).
    rewrite EK. symmetry. apply coincidence. intros w Hw.
    assert (NK : K <> w) by (intros <-; exact (HK Hw)).
    destruct (var_dec ovar w) as [<-|No].
    + rewrite getv_upd_same; [symmetry; exact Hn|]. rewrite Hg. exact Logic.I.
    + rewrite getv_upd_other by exact No. unfold e2.
      rewrite getv_upd_other by exact NK. rewrite getv_upd_other by exact No. reflexivity.
Qed.

Lemma restrict_exists e :
  (forall e1, csat FI I e1 B -> exists n, getv e1 ovar = VNum n) ->
  qsat QExists vs' (fun e' => csat FI I e' B') e <-> qsat QExists outer (fun e' => csat FI I e' B) e.
Proof.
  intros Hint. rewrite !qsat_exists_char by apply csat_ext. split.
  - intros [e2 [O2 H]]. destruct (transfer_1 e e2 O2) as [e1 [O1 E]]. exists e1. tauto.
  - intros [e1 [O1 H]]. destruct (Hint e1 H) as [n Hn].
    destruct (transfer_2 e e1 n O1 Hn) as [e2 [O2 E]]. exists e2. tauto.
Qed.

Lemma restrict_forall e :
  (forall e1, (forall n, getv e1 ovar <> VNum n) -> csat FI I e1 B) ->
  qsat QForall vs' (fun e' => csat FI I e' B') e <-> qsat QForall outer (fun e' => csat FI I e' B) e.
Proof.
  intros Hvac. rewrite !qsat_forall_char by apply csat_ext. split.
  - intros H e1 O1. destruct (getv e1 ovar) as [|n|sy|] eqn:Ev;
      try (apply Hvac; intros n'; rewrite Ev; discriminate).
    destruct (transfer_2 e e1 n O1 Ev) as [e2 [O2 E]]. apply E, H, O2.
  - intros H e2 O2. destruct (transfer_1 e e2 O2) as [e1 [O1 E]]. apply E, H, O1.
Qed.

Lemma restrict_fv q w :
  In w (free_variables (FQ q vs' B')) -> In w (free_variables (FQ q outer B)).
Proof.
  assert (Hok : sort_ok ovar (GInt (IVar fvar)) = true) by (unfold sort_ok; rewrite Hg; reflexivity).
  rewrite !in_fv_q. intros [Hw Nw]. rewrite in_vs' in Nw.
  destruct (subst_fv _ _ _ _ _ Hok Hsub Hw) as [[Hw' Ne]|Hw'].
  - split; [exact Hw'|]. intros Hin. apply Nw. left. auto.
  - cbn in Hw'. destruct Hw' as [<-|[]]. exfalso. apply Nw. right. reflexivity.
Qed.
End Restrict.

(* an equation I$i = Z$g (either orientation) among the conjuncts of an existential formula whose
   block does not bind Z forces Z to be an integer *)
Lemma inner_forces_integer FI I e' inner inner_formula comp ivar ovar :
  vsort ovar = SGeneral -> ~ In ovar inner ->
  In (cmp_formula comp) (conjoin_invert inner_formula) ->
  (comp = cand1 ivar ovar \/ comp = cand2 ivar ovar) ->
  csat FI I e' (FQ QExists inner inner_formula) -> exists n, getv e' ovar = VNum n.
Proof.
  intros Hg Hni Hin Hc H. cbn [csat] in H. rewrite qsat_exists_char in H by apply csat_ext.
  destruct H as [e'' [Ho H]]. apply csat_conjoin_invert in H. rewrite Forall_forall in H.
  specialize (H _ Hin). rewrite (Ho ovar Hni).
  assert (Eg : getv e'' ovar = eg e'' (vname ovar)) by (unfold getv; rewrite Hg; reflexivity).
  rewrite Eg. exists (ei e'' (vname ivar)).
  destruct Hc as [-> | ->]; unfold cand1, cand2 in H; apply csat_eq_cmp in H; cbn in H; congruence.
Qed.

Lemma rqd_hit_fresh F q vars f fvar : F = FQ q vars f ->
  ~ In fvar (map vname (variables F)) -> ~ In (mkvar fvar SInteger) (free_variables f).
Proof.
  intros -> Hn Hin. apply Hn. cbn [variables]. apply fv_sub_variables in Hin.
  apply (in_map vname) in Hin. exact Hin.
Qed.

Lemma restrict_quantifier_domain_opt_ok F G :
  restrict_quantifier_domain_opt F = Some G -> cequiv F G /\ fv_incl F G.
Proof.
  destruct F as [a|g|c l r|q outer body]; cbn [restrict_quantifier_domain_opt];
    try (intros [= <-]; split; [apply cequiv_refl|apply fv_incl_refl]).
  destruct q.
  - (* forall Z.. (exists I.. (..) -> rhs) *)
    destruct body as [a|g|c lhs rhs|q' vs' g]; try (intros [= <-]; split; [apply cequiv_refl|apply fv_incl_refl]).
    destruct c; try (intros [= <-]; split; [apply cequiv_refl|apply fv_incl_refl]).
    destruct lhs as [a|g|c l r|q' inner inner_formula];
      try (intros [= <-]; split; [apply cequiv_refl|apply fv_incl_refl]).
    destruct q'; try (intros [= <-]; split; [apply cequiv_refl|apply fv_incl_refl]).
    set (B := FBin CImp (FQ QExists inner inner_formula) rhs). set (F := FQ QForall outer B).
    fold (cond_all inner rhs).
    match goal with |- option_map fst ?x = _ -> _ => destruct x as [s'|] eqn:L end; [|discriminate].
    cbn [option_map]. intros [= <-].
    assert (P : fst s' = F \/ rqd_hit F outer inner (cond_all inner rhs) (conjoin_invert inner_formula) (fst s')).
    { revert L.
      apply (for_break_inv (fun s => fst s = F \/
               rqd_hit F outer inner (cond_all inner rhs) (conjoin_invert inner_formula) (fst s)));
        [|left; reflexivity].
      intros s0 x s2 b0 Hx P0.
      apply (rqd_comp_body_inv F outer inner (cond_all inner rhs) (conjoin_invert inner_formula)
               (fun s => fst s = F \/
                  rqd_hit F outer inner (cond_all inner rhs) (conjoin_invert inner_formula) (fst s))
               (fun G HG => or_intror HG) false s0 x s2 b0 Hx P0). }
    destruct P as [->|[ivar [ovar [comp [Ho [Hi [Hc [Hin [He R]]]]]]]]];
      [split; [apply cequiv_refl|apply fv_incl_refl]|].
    apply cond_all_true, cond_ex_true in Hc. destruct Hc as [Hg [Hint Hni]].
    apply replacement_helper_true in R.
    destruct R as [Hcand [q0 [vars0 [f0 [fvar [f' [EF [Hfresh [Sub ->]]]]]]]]].
    inversion EF; subst q0 vars0 f0. pose proof (rqd_hit_fresh _ _ _ _ _ EF Hfresh) as HK.
    split.
    + intros FI I e. cbn [csat].
      apply (restrict_forall FI I outer B f' ovar fvar Hg Ho HK Sub e).
      intros e1 Hn. unfold B. cbn [csat]. intros Hl. exfalso.
      destruct (inner_forces_integer FI I e1 inner inner_formula comp ivar ovar Hg Hni Hin Hcand Hl) as [n En].
      exact (Hn n En).
    + intros w. apply (restrict_fv outer B f' ovar fvar Hg Sub).
  - (* exists Z.. (.. and exists I.. (..) and ..) *)
    destruct body as [a|g|c lhs rhs|q' vs' g]; try (intros [= <-]; split; [apply cequiv_refl|apply fv_incl_refl]).
    destruct c; try (intros [= <-]; split; [apply cequiv_refl|apply fv_incl_refl]).
    set (B := FBin CAnd lhs rhs). set (F := FQ QExists outer B).
    set (cts := conjoin_invert lhs ++ conjoin_invert rhs).
    match goal with |- option_map fst ?x = _ -> _ => destruct x as [s'|] eqn:L end; [|discriminate].
    cbn [option_map]. intros [= <-].
    assert (P : fst s' = F \/ rqd_hit_ex F outer cts (fst s')).
    { revert L. apply (for_break_inv (fun s => fst s = F \/ rqd_hit_ex F outer cts (fst s))); [|left; reflexivity].
      intros s0 x s2 b0 Hx P0. apply (rqd_ct_body_inv F outer cts s0 x s2 b0 Hx P0). }
    destruct P as [->|[inner [inner_formula [Hct [ivar [ovar [comp [Ho [Hi [Hc [Hin [He R]]]]]]]]]]]];
      [split; [apply cequiv_refl|apply fv_incl_refl]|].
    apply cond_ex_true in Hc. destruct Hc as [Hg [Hint Hni]].
    apply replacement_helper_true in R.
    destruct R as [Hcand [q0 [vars0 [f0 [fvar [f' [EF [Hfresh [Sub ->]]]]]]]]].
    inversion EF; subst q0 vars0 f0. pose proof (rqd_hit_fresh _ _ _ _ _ EF Hfresh) as HK.
    split.
    + intros FI I e. cbn [csat].
      apply (restrict_exists FI I outer B f' ovar fvar Hg Ho HK Sub e).
      intros e1 H1. apply csat_conjoin_invert in H1. rewrite Forall_forall in H1.
      apply (inner_forces_integer FI I e1 inner inner_formula comp ivar ovar Hg Hni Hin Hcand).
      apply H1. exact Hct.
    + intros w. apply (restrict_fv outer B f' ovar fvar Hg Sub).
Qed.

Theorem restrict_quantifier_domain_ok : rewrite_ok restrict_quantifier_domain.
Proof. apply total_ok. exact restrict_quantifier_domain_opt_ok. Qed.

(* ------------------------------------------------------------------------------ the list *)
Theorem CLASSIC_ok : forall r, In r CLASSIC -> rewrite_ok r.
Proof.
  intros r [<-|[<-|[<-|[<-|[<-|[]]]]]].
  - exact remove_double_negation_ok.
  - exact substitute_defined_variables_ok.
  - exact restrict_quantifier_domain_ok.
  - exact extend_quantifier_scope_ok.
  - exact simplify_transitive_equality_ok.
Qed.

End WithSubst.
