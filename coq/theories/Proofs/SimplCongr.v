(* Replacement theorem for simplifications (C07), generic in the logic.
   A relation R on formulas (R G F: "G may replace F") that is reflexive, transitive and a
   congruence for negation, the binary connectives and quantifier blocks is preserved by
   Apply::apply (rewriting at every node, post-order), Compose::compose, apply_fixpoint (when it
   returns) and hence by every strategy of `simplify`.
   Instances: [hequiv] (same truth value in every HT interpretation H subset-of T, every
   placeholder interpretation and EVERY assignment - the quantification over all assignments is
   what makes replacement under binders sound), [cequiv] (classical), and [fv_incl] (the
   result has no free variable the input did not have). *)
From Coq Require Import List Ascii String ZArith Bool.
From Anthem Require Import Base.ISet Syntax.Fol Sem.Domain Sem.Sat Model.Apply Model.Strategy Proofs.SimplSem.
Import ListNotations.
Open Scope list_scope.

(* ---------- the three relations ---------- *)
Definition hequiv (G F : formula) : Prop :=
  forall FI H T e, sub H T -> (hsat FI H T e G <-> hsat FI H T e F).
Definition cequiv (G F : formula) : Prop :=
  forall FI I e, csat FI I e G <-> csat FI I e F.
Definition fv_incl (G F : formula) : Prop := incl (free_variables G) (free_variables F).

(* HT-equivalence "for all H subset-of T" contains classical equivalence (take H = T) *)
Lemma hequiv_cequiv G F : hequiv G F -> cequiv G F.
Proof.
  intros Hh FI I e. rewrite <- !hsat_total. apply Hh. intros p a Hp; exact Hp.
Qed.

Lemma hequiv_refl F : hequiv F F.
Proof. intros FI H T e _; tauto. Qed.
Lemma hequiv_sym G F : hequiv G F -> hequiv F G.
Proof. intros Hh FI H T e HS; symmetry; apply Hh, HS. Qed.
Lemma hequiv_trans A B C : hequiv A B -> hequiv B C -> hequiv A C.
Proof. intros H1 H2 FI H T e HS. rewrite (H1 FI H T e HS). apply H2, HS. Qed.
Lemma hequiv_not G F : hequiv G F -> hequiv (FNot G) (FNot F).
Proof. intros Hh FI H T e HS; cbn. rewrite (hequiv_cequiv G F Hh FI T e). tauto. Qed.
Lemma hequiv_bin c G1 F1 G2 F2 : hequiv G1 F1 -> hequiv G2 F2 -> hequiv (FBin c G1 G2) (FBin c F1 F2).
Proof.
  intros H1 H2 FI H T e HS.
  pose proof (H1 FI H T e HS). pose proof (H2 FI H T e HS).
  pose proof (hequiv_cequiv G1 F1 H1 FI T e). pose proof (hequiv_cequiv G2 F2 H2 FI T e).
  destruct c; cbn; tauto.
Qed.
Lemma hequiv_q q vs G F : hequiv G F -> hequiv (FQ q vs G) (FQ q vs F).
Proof. intros Hh FI H T e HS; cbn. apply qsat_iff. intros e'. apply Hh, HS. Qed.

Lemma cequiv_refl F : cequiv F F.
Proof. intros FI I e; tauto. Qed.
Lemma cequiv_sym G F : cequiv G F -> cequiv F G.
Proof. intros Hc FI I e; symmetry; apply Hc. Qed.
Lemma cequiv_trans A B C : cequiv A B -> cequiv B C -> cequiv A C.
Proof. intros H1 H2 FI I e. rewrite (H1 FI I e). apply H2. Qed.
Lemma cequiv_not G F : cequiv G F -> cequiv (FNot G) (FNot F).
Proof. intros Hc FI I e; cbn. rewrite (Hc FI I e). tauto. Qed.
Lemma cequiv_bin c G1 F1 G2 F2 : cequiv G1 F1 -> cequiv G2 F2 -> cequiv (FBin c G1 G2) (FBin c F1 F2).
Proof.
  intros H1 H2 FI I e. pose proof (H1 FI I e). pose proof (H2 FI I e). destruct c; cbn; tauto.
Qed.
Lemma cequiv_q q vs G F : cequiv G F -> cequiv (FQ q vs G) (FQ q vs F).
Proof. intros Hc FI I e; cbn. apply qsat_iff. intros e'. apply Hc. Qed.

Lemma fv_incl_refl F : fv_incl F F.
Proof. apply incl_refl. Qed.
Lemma fv_incl_trans A B C : fv_incl A B -> fv_incl B C -> fv_incl A C.
Proof. unfold fv_incl. apply incl_tran. Qed.
Lemma fv_incl_not G F : fv_incl G F -> fv_incl (FNot G) (FNot F).
Proof. auto. Qed.
Lemma fv_incl_bin c G1 F1 G2 F2 : fv_incl G1 F1 -> fv_incl G2 F2 -> fv_incl (FBin c G1 G2) (FBin c F1 F2).
Proof. intros H1 H2 v. rewrite !fv_bin. intros [Hv|Hv]; [left; apply H1, Hv|right; apply H2, Hv]. Qed.
Lemma fv_incl_q q vs G F : fv_incl G F -> fv_incl (FQ q vs G) (FQ q vs F).
Proof. intros Hi v. rewrite !fv_q. intros [Hv Hn]. split; [apply Hi, Hv|exact Hn]. Qed.

(* ---------- the generic replacement theorem ---------- *)
Lemma apply_unfold f x :
  apply f x = f (match x with
                 | FAtomic a => FAtomic a
                 | FNot g => FNot (apply f g)
                 | FBin c l r => FBin c (apply f l) (apply f r)
                 | FQ q vs g => FQ q vs (apply f g)
                 end).
Proof. destruct x; reflexivity. Qed.

Section Replacement.
Variable R : formula -> formula -> Prop.
Hypothesis R_refl : forall F, R F F.
Hypothesis R_trans : forall A B C, R A B -> R B C -> R A C.
Hypothesis R_not : forall G F, R G F -> R (FNot G) (FNot F).
Hypothesis R_bin : forall c G1 F1 G2 F2, R G1 F1 -> R G2 F2 -> R (FBin c G1 G2) (FBin c F1 F2).
Hypothesis R_q : forall q vs G F, R G F -> R (FQ q vs G) (FQ q vs F).

(* a rewrite is sound when its result may replace its argument *)
Definition sound (r : formula -> formula) : Prop := forall F, R (r F) F.

Lemma apply_sound r : sound r -> sound (apply r).
Proof.
  intros Hr F. induction F as [a|f IH|c l IHl r0 IHr|q vs f IH]; rewrite apply_unfold.
  - apply Hr.
  - eapply R_trans; [apply Hr|]. apply R_not, IH.
  - eapply R_trans; [apply Hr|]. apply R_bin; auto.
  - eapply R_trans; [apply Hr|]. apply R_q, IH.
Qed.

Lemma compose_sound rs : Forall sound rs -> sound (compose rs).
Proof.
  unfold compose. induction rs as [|r rs IH]; intros Hrs F; cbn.
  - apply R_refl.
  - inversion Hrs as [|? ? Hr Hrs']; subst.
    eapply R_trans; [apply (IH Hrs' (r F))|apply Hr].
Qed.

Lemma apply_fixpoint_from_sound fuel r (Hr : sound r) F0 : forall previous current G,
  R current F0 -> apply_fixpoint_from fuel r previous current = Some G -> R G F0.
Proof.
  induction fuel as [|n IH]; intros previous current G Hc; cbn.
  - destruct (formula_eqb previous current); [|discriminate]. intros [= <-]; exact Hc.
  - destruct (formula_eqb previous current); [intros [= <-]; exact Hc|].
    apply IH. eapply R_trans; [apply apply_sound, Hr|exact Hc].
Qed.
Lemma apply_fixpoint_sound fuel r F G :
  sound r -> apply_fixpoint fuel r F = Some G -> R G F.
Proof.
  intros Hr. unfold apply_fixpoint. apply apply_fixpoint_from_sound; auto. apply apply_sound, Hr.
Qed.

Theorem run_strategy_sound fuel portfolio s F G :
  Forall sound portfolio -> run_strategy fuel portfolio s F = Some G -> R G F.
Proof.
  intros Hp. pose proof (compose_sound portfolio Hp) as Hc.
  destruct s; cbn.
  - intros [= <-]. apply Hc.
  - intros [= <-]. apply apply_sound, Hc.
  - apply apply_fixpoint_sound, Hc.
Qed.
End Replacement.

(* ---------- instances ---------- *)
Definition apply_hequiv := apply_sound hequiv hequiv_trans hequiv_not hequiv_bin hequiv_q.
Definition compose_hequiv := compose_sound hequiv hequiv_refl hequiv_trans.
Definition apply_fixpoint_hequiv := apply_fixpoint_sound hequiv hequiv_trans hequiv_not hequiv_bin hequiv_q.
Definition run_strategy_hequiv := run_strategy_sound hequiv hequiv_refl hequiv_trans hequiv_not hequiv_bin hequiv_q.

Definition apply_cequiv := apply_sound cequiv cequiv_trans cequiv_not cequiv_bin cequiv_q.
Definition compose_cequiv := compose_sound cequiv cequiv_refl cequiv_trans.
Definition apply_fixpoint_cequiv := apply_fixpoint_sound cequiv cequiv_trans cequiv_not cequiv_bin cequiv_q.
Definition run_strategy_cequiv := run_strategy_sound cequiv cequiv_refl cequiv_trans cequiv_not cequiv_bin cequiv_q.

Definition apply_fv_incl := apply_sound fv_incl fv_incl_trans fv_incl_not fv_incl_bin fv_incl_q.
Definition compose_fv_incl := compose_sound fv_incl fv_incl_refl fv_incl_trans.
Definition apply_fixpoint_fv_incl := apply_fixpoint_sound fv_incl fv_incl_trans fv_incl_not fv_incl_bin fv_incl_q.
Definition run_strategy_fv_incl := run_strategy_sound fv_incl fv_incl_refl fv_incl_trans fv_incl_not fv_incl_bin fv_incl_q.
