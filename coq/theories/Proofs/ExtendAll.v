(* Membership / NoDup facts about the IndexSet-style collectors of Syntax/Fol.v and Syntax/Asp.v
   ([extend_all], [theory_predicates], [program_preds], [body_pos_preds], ...). *)
From Coq Require Import List String Bool.
From Anthem Require Import Base.ISet Syntax.Fol Syntax.Asp.
Import ListNotations.
Open Scope list_scope.

Section ExtendAll.
Context {A B : Type} (dec : forall x y : B, {x = y} + {x <> y}) (f : A -> list B).

Lemma in_extend_all l : forall init x,
  In x (extend_all dec f init l) <-> In x init \/ exists y, In y l /\ In x (f y).
Proof.
  unfold extend_all. induction l as [|a l IH]; intros init x; cbn.
  - split; [auto|]. intros [H|[y [[] _]]]; auto.
  - rewrite IH, in_iset_extend. split.
    + intros [[H|H]|[y [Hy Hx]]]; eauto.
    + intros [H|[y [[->|Hy] Hx]]]; eauto.
Qed.
Lemma nodup_extend_all l : forall init, NoDup init -> NoDup (extend_all dec f init l).
Proof.
  unfold extend_all. induction l as [|a l IH]; intros init Hn; cbn; auto.
  apply IH, nodup_iset_extend, Hn.
Qed.
End ExtendAll.

Lemma in_theory_predicates (t : theory) p :
  In p (theory_predicates t) <-> exists f, In f t /\ In p (predicates f).
Proof.
  unfold theory_predicates. rewrite in_extend_all. split; [intros [[]|H]; auto|auto].
Qed.
Lemma nodup_theory_predicates (t : theory) : NoDup (theory_predicates t).
Proof. apply nodup_extend_all. constructor. Qed.

Lemma in_body_preds b q :
  In q (body_preds b) <-> exists l, In (BLit l) b /\ q = atom_pred (latom l).
Proof.
  unfold body_preds. rewrite in_extend_all. split.
  - intros [[]|[y [Hy Hq]]]. destruct y as [l|c]; cbn in Hq; [|tauto].
    destruct Hq as [<-|[]]. eauto.
  - intros [l [Hl ->]]. right. exists (BLit l). split; auto. cbn; auto.
Qed.
Lemma in_body_pos_preds b q :
  In q (body_pos_preds b) <-> exists a, In (BLit (mklit SNone a)) b /\ q = atom_pred a.
Proof.
  unfold body_pos_preds. rewrite in_extend_all. split.
  - intros [[]|[y [Hy Hq]]]. destruct y as [[[| |] a]|c]; cbn in Hq; try tauto.
    destruct Hq as [<-|[]]. eauto.
  - intros [a [Ha ->]]. right. exists (BLit (mklit SNone a)). split; auto. cbn; auto.
Qed.
Lemma in_rule_preds r q :
  In q (rule_preds r) <-> head_pred (rhead r) = Some q \/ In q (body_preds (rbody r)).
Proof.
  unfold rule_preds. rewrite in_iset_extend.
  destruct (head_pred (rhead r)) as [h|]; cbn; split; intros H.
  - destruct H as [[->|[]]|H]; auto.
  - destruct H as [[= ->]|H]; auto.
  - destruct H as [[]|H]; auto.
  - destruct H as [H|H]; [discriminate|auto].
Qed.
Lemma in_program_preds (P : program) q :
  In q (program_preds P) <-> exists r, In r P /\ In q (rule_preds r).
Proof.
  unfold program_preds. rewrite in_extend_all. split; [intros [[]|H]; auto|auto].
Qed.
Lemma nodup_program_preds (P : program) : NoDup (program_preds P).
Proof. apply nodup_extend_all. constructor. Qed.
