(* Coincidence lemma (environments agreeing on the free variables give the same truth value,
   for terms, atoms, csat and hsat) and generic lemmas about quantifier blocks [qsat]
   (relational transport, shadowing: a later binding of the same variable wins).  Shared. *)
From Coq Require Import List Ascii String ZArith Bool Lia.
From Anthem Require Import Base.ISet Syntax.Fol Sem.Domain Sem.Sat Proofs.FreeVars.
Import ListNotations.
Open Scope string_scope.
Open Scope list_scope.

(* ---------- environments ---------- *)
Definition agree (vs : list var) (e1 e2 : env) : Prop := forall v, In v vs -> getv e1 v = getv e2 v.
Definition eqenv (e1 e2 : env) : Prop := forall v, getv e1 v = getv e2 v.
(* a predicate on environments that only looks at the values of variables *)
Definition ext (k : env -> Prop) : Prop := forall e1 e2, eqenv e1 e2 -> (k e1 <-> k e2).

Lemma getv_upd_same e v d : in_sort (vsort v) d -> getv (upd e v d) v = d.
Proof.
  destruct v as [n s]; unfold getv, upd; cbn.
  destruct s, d; cbn; try tauto; rewrite String.eqb_refl; auto.
Qed.
Lemma getv_upd_other e v w d : v <> w -> getv (upd e v d) w = getv e w.
Proof.
  destruct v as [n s], w as [m u]; unfold getv, upd; cbn; intros NE.
  destruct s, u, d; cbn; auto; destruct (String.eqb_spec m n); auto; subst; congruence.
Qed.
Lemma in_sort_getv e v : in_sort (vsort v) (getv e v).
Proof. destruct v as [n []]; cbn; auto. Qed.
Lemma sort_inhabited s : exists d, in_sort s d.
Proof. destruct s; [exists (VNum 0)|exists (VNum 0)|exists (VSym "")]; exact I. Qed.

Lemma eqenv_refl e : eqenv e e.
Proof. intros v; reflexivity. Qed.
Lemma eqenv_sym e1 e2 : eqenv e1 e2 -> eqenv e2 e1.
Proof. intros H v; symmetry; apply H. Qed.
Lemma eqenv_trans e1 e2 e3 : eqenv e1 e2 -> eqenv e2 e3 -> eqenv e1 e3.
Proof. intros H1 H2 v; rewrite H1; apply H2. Qed.
Lemma eqenv_agree vs e1 e2 : eqenv e1 e2 -> agree vs e1 e2.
Proof. intros H v _; apply H. Qed.
Lemma eqenv_upd e1 e2 v d : in_sort (vsort v) d -> eqenv e1 e2 -> eqenv (upd e1 v d) (upd e2 v d).
Proof.
  intros Sd H w. destruct (var_dec v w) as [<-|NE].
  - rewrite !getv_upd_same; auto.
  - rewrite !getv_upd_other; auto.
Qed.
Lemma upd_comm e v u a b : v <> u -> in_sort (vsort v) a -> in_sort (vsort u) b ->
  eqenv (upd (upd e v a) u b) (upd (upd e u b) v a).
Proof.
  intros NE Sa Sb w. destruct (var_dec u w) as [<-|Nu].
  - rewrite getv_upd_same by auto. rewrite getv_upd_other by auto. rewrite getv_upd_same; auto.
  - rewrite getv_upd_other by auto. destruct (var_dec v w) as [<-|Nv].
    + rewrite !getv_upd_same; auto.
    + rewrite !getv_upd_other; auto.
Qed.
Lemma upd_overwrite e v a b : in_sort (vsort v) b -> eqenv (upd (upd e v a) v b) (upd e v b).
Proof.
  intros Sb w. destruct (var_dec v w) as [<-|Nv].
  - rewrite !getv_upd_same; auto.
  - rewrite !getv_upd_other; auto.
Qed.

Lemma agree_iset_extend l m e1 e2 :
  agree (iset_extend var_dec l m) e1 e2 <-> agree l e1 e2 /\ agree m e1 e2.
Proof.
  unfold agree; split.
  - intros A; split; intros v Hv; apply A; apply (in_iset_extend var_dec); auto.
  - intros [A B] v Hv. apply (in_iset_extend var_dec) in Hv. destruct Hv; auto.
Qed.

(* ---------- terms ---------- *)
Section Coinc.
Variable FI : fint.

Lemma ev_i_agree e1 e2 t : agree (iterm_vars t) e1 e2 -> ev_i FI e1 t = ev_i FI e2 t.
Proof.
  induction t as [z|c|x|o t IH|o l IHl r IHr]; cbn; intros A; auto.
  - specialize (A (mkvar x SInteger) (or_introl eq_refl)). unfold getv in A; cbn in A. congruence.
  - destruct o. rewrite IH; auto.
  - apply agree_iset_extend in A. destruct A as [A B].
    destruct o; rewrite IHl, IHr; auto.
Qed.
Lemma ev_s_agree e1 e2 t : agree (sterm_vars t) e1 e2 -> ev_s FI e1 t = ev_s FI e2 t.
Proof.
  destruct t as [s|c|x]; cbn; intros A; auto.
  specialize (A (mkvar x SSymbol) (or_introl eq_refl)). unfold getv in A; cbn in A. congruence.
Qed.
Lemma ev_g_agree e1 e2 t : agree (gterm_vars t) e1 e2 -> ev_g FI e1 t = ev_g FI e2 t.
Proof.
  destruct t as [| |c|x|it|st]; cbn; intros A; auto.
  - apply (A (mkvar x SGeneral)); left; reflexivity.
  - f_equal. apply ev_i_agree; auto.
  - f_equal. apply ev_s_agree; auto.
Qed.
Lemma ev_g_upd_notin e x d t : ~ In x (gterm_vars t) -> ev_g FI (upd e x d) t = ev_g FI e t.
Proof.
  intros N. apply ev_g_agree. intros w Hw. apply getv_upd_other. intros <-; auto.
Qed.
Lemma ev_var_to_gterm e v : ev_g FI e (var_to_gterm v) = getv e v.
Proof. destruct v as [n []]; reflexivity. Qed.

Lemma map_ev_agree ts e1 e2 :
  (forall g, In g ts -> agree (gterm_vars g) e1 e2) -> map (ev_g FI e1) ts = map (ev_g FI e2) ts.
Proof.
  induction ts as [|t ts IH]; cbn; intros A; auto.
  f_equal; [apply ev_g_agree; apply A; auto|apply IH; intros g Hg; apply A; auto].
Qed.
Lemma chain_sat_agree gs e1 e2 : forall l,
  (forall g, In g gs -> agree (gterm_vars (gterm_of g)) e1 e2) ->
  chain_sat FI e1 l gs = chain_sat FI e2 l gs.
Proof.
  induction gs as [|g gs IH]; cbn; intros l A; auto.
  rewrite (ev_g_agree e1 e2 (gterm_of g)) by (apply A; auto).
  f_equal. apply IH. intros g' Hg'; apply A; auto.
Qed.

Lemma asat_agree I a e1 e2 : agree (aformula_vars a) e1 e2 -> (asat FI I e1 a <-> asat FI I e2 a).
Proof.
  destruct a as [| |p ts|t gs]; intros A; try (cbn; tauto).
  - cbn [asat]. rewrite (map_ev_agree ts e1 e2); [tauto|].
    intros g Hg w Hw. apply A. apply in_aformula_vars_atom. eauto.
  - cbn [asat].
    rewrite (ev_g_agree e1 e2 t) by (intros w Hw; apply A; apply in_aformula_vars_cmp; auto).
    rewrite (chain_sat_agree gs e1 e2); [tauto|].
    intros g Hg w Hw. apply A. apply in_aformula_vars_cmp. eauto.
Qed.

(* ---------- quantifier blocks ---------- *)
Definition qd (q : quant) (s : sort) (P : gval -> Prop) : Prop :=
  match q with
  | QForall => forall d, in_sort s d -> P d
  | QExists => exists d, in_sort s d /\ P d
  end.
Lemma qsat_cons q v vs k e :
  qsat q (v :: vs) k e = qd q (vsort v) (fun d => qsat q vs k (upd e v d)).
Proof. destruct q; reflexivity. Qed.
Lemma qd_iff q s (P1 P2 : gval -> Prop) :
  (forall d, in_sort s d -> (P1 d <-> P2 d)) -> (qd q s P1 <-> qd q s P2).
Proof.
  intros H; destruct q; cbn; split.
  - intros H1 d Sd. apply H; auto.
  - intros H1 d Sd. apply H; auto.
  - intros [d [Sd H1]]. exists d; split; auto. apply H; auto.
  - intros [d [Sd H1]]. exists d; split; auto. apply H; auto.
Qed.
Lemma qd_swap q s1 s2 (P : gval -> gval -> Prop) :
  qd q s1 (fun a => qd q s2 (fun b => P a b)) <-> qd q s2 (fun b => qd q s1 (fun a => P a b)).
Proof.
  destruct q; cbn; split.
  - intros H b Sb a Sa. apply H; auto.
  - intros H a Sa b Sb. apply H; auto.
  - intros [a [Sa [b [Sb H]]]]. exists b; split; auto. exists a; auto.
  - intros [b [Sb [a [Sa H]]]]. exists a; split; auto. exists b; auto.
Qed.
Lemma qd_const q s (P : Prop) : qd q s (fun _ => P) <-> P.
Proof.
  destruct (sort_inhabited s) as [d0 S0]. destruct q; cbn; split.
  - intros H. apply (H d0 S0).
  - intros H d _. exact H.
  - intros [d [_ H]]. exact H.
  - intros H. exists d0; auto.
Qed.

(* transport along a relation between environments preserved by the binders of the block *)
Lemma qsat_rel q (R : env -> env -> Prop) (k1 k2 : env -> Prop) vs :
  (forall v d e1 e2, In v vs -> in_sort (vsort v) d -> R e1 e2 -> R (upd e1 v d) (upd e2 v d)) ->
  (forall e1 e2, R e1 e2 -> (k1 e1 <-> k2 e2)) ->
  forall e1 e2, R e1 e2 -> (qsat q vs k1 e1 <-> qsat q vs k2 e2).
Proof.
  intros HP HK. induction vs as [|v vs IH]; intros e1 e2 HR.
  - cbn. apply HK, HR.
  - rewrite !qsat_cons. apply qd_iff. intros d Sd. apply IH.
    + intros u c a b Hu. apply HP. right; exact Hu.
    + apply HP; auto. left; reflexivity.
Qed.

Lemma qsat_eqenv q vs k : ext k -> forall e1 e2, eqenv e1 e2 -> (qsat q vs k e1 <-> qsat q vs k e2).
Proof.
  intros Hk. apply (qsat_rel q eqenv); auto.
  intros v d e1 e2 _ Sd H. apply eqenv_upd; auto.
Qed.

(* agreement outside the block on the variables the body looks at *)
Lemma qsat_ext q (k1 k2 : env -> Prop) fvs :
  (forall e1 e2, agree fvs e1 e2 -> (k1 e1 <-> k2 e2)) ->
  forall vs e1 e2, (forall w, In w fvs -> ~ In w vs -> getv e1 w = getv e2 w) ->
  (qsat q vs k1 e1 <-> qsat q vs k2 e2).
Proof.
  intros K. induction vs as [|v vs IH]; intros e1 e2 A.
  - cbn. apply K. intros w Hw. apply A; auto.
  - rewrite !qsat_cons. apply qd_iff. intros d Sd. apply IH.
    intros w Hw Nw. destruct (var_dec v w) as [->|NE].
    + rewrite !getv_upd_same; auto.
    + rewrite !getv_upd_other; auto. apply A; auto. intros [E|E]; auto.
Qed.

(* an update of a variable that the block does not bind commutes with the block *)
Lemma qsat_upd_comm q x d k vs : ext k -> ~ In x vs -> in_sort (vsort x) d ->
  forall e, qsat q vs (fun e' => k (upd e' x d)) e <-> qsat q vs k (upd e x d).
Proof.
  intros Hk Nx Sd e.
  apply (qsat_rel q (fun e1 e2 => eqenv (upd e1 x d) e2)).
  - intros v c e1 e2 Hv Sc H.
    assert (NE : v <> x) by (intros ->; auto).
    eapply eqenv_trans; [apply upd_comm; auto|]. apply eqenv_upd; auto.
  - intros e1 e2 H. apply Hk, H.
  - apply eqenv_refl.
Qed.

(* binding v (outside, first) and overriding v after the block are interchangeable under the
   quantifier of v: covers both "v not in the block" and "v bound again by the block, the later
   binding wins" *)
Lemma qsat_bind_comm q v k : ext k -> forall vs e,
  qd q (vsort v) (fun d => qsat q vs (fun e' => k (upd e' v d)) e) <->
  qd q (vsort v) (fun d => qsat q vs k (upd e v d)).
Proof.
  intros Hk. induction vs as [|u vs IH]; intros e.
  - cbn [qsat]. tauto.
  - assert (Hk' : forall d, in_sort (vsort v) d -> ext (fun e' => k (upd e' v d))).
    { intros d Sd e1 e2 H. apply Hk. apply eqenv_upd; auto. }
    (* left side: bring the quantifier of u outside and use the induction hypothesis *)
    transitivity (qd q (vsort u) (fun c => qd q (vsort v) (fun d => qsat q vs k (upd (upd e u c) v d)))).
    { transitivity (qd q (vsort v) (fun d => qd q (vsort u) (fun c =>
                      qsat q vs (fun e' => k (upd e' v d)) (upd e u c)))).
      - apply qd_iff. intros d Sd. rewrite qsat_cons. tauto.
      - rewrite qd_swap. apply qd_iff. intros c Sc. apply IH. }
    transitivity (qd q (vsort v) (fun d => qd q (vsort u) (fun c => qsat q vs k (upd (upd e v d) u c))));
      [|apply qd_iff; intros d Sd; rewrite qsat_cons; tauto].
    destruct (var_dec u v) as [->|NE].
    + (* the block binds v again: both sides forget the outer value *)
      transitivity (qd q (vsort v) (fun d => qsat q vs k (upd e v d))).
      * transitivity (qd q (vsort v) (fun c : gval => qd q (vsort v) (fun d => qsat q vs k (upd e v d)))).
        -- apply qd_iff. intros c Sc. apply qd_iff. intros d Sd.
           apply qsat_eqenv; auto. apply upd_overwrite; auto.
        -- apply qd_const.
      * symmetry.
        transitivity (qd q (vsort v) (fun d : gval => qd q (vsort v) (fun c => qsat q vs k (upd e v c)))).
        -- apply qd_iff. intros d Sd. apply qd_iff. intros c Sc.
           apply qsat_eqenv; auto. apply upd_overwrite; auto.
        -- apply qd_const.
    + rewrite qd_swap. apply qd_iff. intros d Sd. apply qd_iff. intros c Sc.
      apply qsat_eqenv; auto. apply upd_comm; auto.
Qed.

(* corollary: a variable bound again later in the block may be dropped *)
Lemma qsat_shadowed q v vs k : ext k -> In v vs ->
  forall e, qsat q (v :: vs) k e <-> qsat q vs k e.
Proof.
  intros Hk Hin. induction vs as [|u vs IH]; [destruct Hin|]. intros e.
  rewrite qsat_cons.
  destruct (var_dec u v) as [->|NE].
  - transitivity (qd q (vsort v) (fun _ : gval => qsat q (v :: vs) k e)); [|apply qd_const].
    apply qd_iff. intros d Sd. rewrite !qsat_cons. apply qd_iff. intros c Sc.
    apply qsat_eqenv; auto. apply upd_overwrite; auto.
  - destruct Hin as [E|Hin]; [congruence|].
    transitivity (qd q (vsort v) (fun d => qd q (vsort u) (fun c => qsat q vs k (upd (upd e v d) u c)))).
    { apply qd_iff. intros d Sd. rewrite qsat_cons. tauto. }
    rewrite qd_swap. rewrite qsat_cons. apply qd_iff. intros c Sc.
    rewrite <- (IH Hin (upd e u c)). rewrite qsat_cons. apply qd_iff. intros d Sd.
    apply qsat_eqenv; auto. apply upd_comm; auto.
Qed.

(* ---------- formulas ---------- *)
Theorem coincidence I F : forall e1 e2,
  agree (free_variables F) e1 e2 -> (csat FI I e1 F <-> csat FI I e2 F).
Proof.
  induction F as [a|f IH|c l IHl r IHr|q vs f IH]; intros e1 e2 A.
  - cbn. apply asat_agree, A.
  - cbn. rewrite (IH e1 e2 A). tauto.
  - cbn [free_variables] in A. apply agree_iset_extend in A. destruct A as [A B].
    pose proof (IHl e1 e2 A). pose proof (IHr e1 e2 B). destruct c; cbn; tauto.
  - cbn [csat]. apply (qsat_ext q _ _ (free_variables f)); [exact IH|].
    intros w Hw Nw. apply A. apply in_fv_q; auto.
Qed.

Theorem coincidence_ht H T F : forall e1 e2,
  agree (free_variables F) e1 e2 -> (hsat FI H T e1 F <-> hsat FI H T e2 F).
Proof.
  induction F as [a|f IH|c l IHl r IHr|q vs f IH]; intros e1 e2 A.
  - cbn. apply asat_agree, A.
  - cbn. rewrite (coincidence T f e1 e2 A). tauto.
  - cbn [free_variables] in A. apply agree_iset_extend in A. destruct A as [A B].
    pose proof (IHl e1 e2 A). pose proof (IHr e1 e2 B).
    pose proof (coincidence T l e1 e2 A). pose proof (coincidence T r e1 e2 B).
    destruct c; cbn; tauto.
  - cbn [hsat]. apply (qsat_ext q _ _ (free_variables f)); [exact IH|].
    intros w Hw Nw. apply A. apply in_fv_q; auto.
Qed.

Lemma csat_ext I F : ext (fun e => csat FI I e F).
Proof. intros e1 e2 H. apply coincidence, eqenv_agree, H. Qed.
Lemma hsat_ext H T F : ext (fun e => hsat FI H T e F).
Proof. intros e1 e2 E. apply coincidence_ht, eqenv_agree, E. Qed.

(* a sentence-like use: updating a variable that is not free does not matter *)
Lemma csat_upd_notfree I F e x d : ~ In x (free_variables F) ->
  (csat FI I (upd e x d) F <-> csat FI I e F).
Proof.
  intros N. apply coincidence. intros w Hw. apply getv_upd_other. intros <-; auto.
Qed.
Lemma hsat_upd_notfree H T F e x d : ~ In x (free_variables F) ->
  (hsat FI H T (upd e x d) F <-> hsat FI H T e F).
Proof.
  intros N. apply coincidence_ht. intros w Hw. apply getv_upd_other. intros <-; auto.
Qed.
End Coinc.
