(* Audit B8 (C09 tie): "no rewrite of INTUITIONISTIC ++ HT ++ CLASSIC adds a free variable", WITHOUT the
   classical axiom.  Proofs/SimplClassicOk.v proves, per rewrite, classical equivalence together with
   the free-variable inclusion; the proofs of remove_double_negation and extend_quantifier_scope use
   excluded middle for the semantic half, so C07cls's statements depend on Classical_Prop.classic.
   The syntactic half of these two is re-proved here; the other three CLASSIC rewrites and the ten
   INTUITIONISTIC ones are axiom-free already. *)
From Coq Require Import List String ZArith Bool.
From Anthem Require Import Base.ISet Syntax.Fol Model.Apply Model.SimplIntuit Model.SimplClassic
  Proofs.FreeVars Proofs.SimplCongr Proofs.SimplIntuitOk Proofs.SimplClassicOk Proofs.SimplClassicClosed.
Import ListNotations.

Notation fv_sound := (sound SimplCongr.fv_incl).

Lemma remove_double_negation_fv : fv_sound remove_double_negation.
Proof. intros F. destruct F as [a|[a|g|c l r|q vs g]|c l r|q vs g]; intros w Hw; exact Hw. Qed.
Lemma extend_quantifier_scope_fv : fv_sound extend_quantifier_scope.
Proof.
  intros F.
  destruct (extend_quantifier_scope_cases F)
    as [E|[(c&q&vs&f&rhs&Hc&->&_&->)|(c&q&vs&f&lhs&Hc&->&_&->)]]; [rewrite E; apply SimplCongr.fv_incl_refl| |];
    intros w Hw; apply in_fv_q in Hw; destruct Hw as [Hw Hn]; apply in_fv_bin in Hw; apply in_fv_bin;
    destruct Hw as [Hw|Hw]; auto; [left|right]; apply in_fv_q; auto.
Qed.
Lemma rewrite_ok_fv r : rewrite_ok r -> fv_sound r.
Proof. intros H F. exact (proj2 (H F)). Qed.

Lemma CLASSIC_fv : Forall fv_sound CLASSIC.
Proof.
  unfold CLASSIC. repeat (apply Forall_cons || apply Forall_nil).
  - exact remove_double_negation_fv.
  - exact (rewrite_ok_fv _ substitute_defined_variables_closed).
  - exact (rewrite_ok_fv _ restrict_quantifier_domain_closed).
  - exact extend_quantifier_scope_fv.
  - exact (rewrite_ok_fv _ simplify_transitive_equality_closed).
Qed.
Lemma portfolio_full_fv : Forall fv_sound (INTUITIONISTIC ++ HT ++ CLASSIC).
Proof. apply Forall_app. split; [exact INTUITIONISTIC_fv|]. apply Forall_app. split; [exact HT_fv|exact CLASSIC_fv]. Qed.

Theorem full_fixpoint_fv fuel F G :
  apply_fixpoint fuel (compose (INTUITIONISTIC ++ HT ++ CLASSIC)) F = Some G ->
  incl (free_variables G) (free_variables F).
Proof. exact (apply_fixpoint_fv_incl _ _ _ _ (compose_fv_incl _ portfolio_full_fv)). Qed.
Theorem ht_fixpoint_fv fuel F G :
  apply_fixpoint fuel (compose (INTUITIONISTIC ++ HT)) F = Some G ->
  incl (free_variables G) (free_variables F).
Proof. exact (apply_fixpoint_fv_incl _ _ _ _ (compose_fv_incl _ portfolio_ht_fv)). Qed.
Print Assumptions full_fixpoint_fv.
