(* C20, third sentence, EXTERNAL equivalence (audit 2, B14).

   `anthem verify --equivalence external a.lp b.lp u.ug`: the first .lp is the specification (a
   program used as specification), the second the program (C20_swap_roles_external).  Swapping the
   two .lp arguments exchanges these two roles.  With the direction exchanged as well

     (specification B, program A, forward)      vs      (specification A, program B, backward)

   the two tasks look for the same behavioural difference: an interpretation T that satisfies the
   user-guide assumptions, is an external stable model of B and whose public part is not the public
   part of any external stable model of A (swap_external_difference: by unfolding, the notion
   depends on the user guide only).  Through C02_external_equivalence on each of the two tasks:
   some interpretation refutes an emitted problem of the one family iff some interpretation refutes
   an emitted problem of the other (swap_external_refutable), under the premises of that theorem
   for both tasks.

   NOT proved (PARTIAL): a problem-by-problem syntactic correspondence as for strong equivalence
   (Proofs/SwapSyn.v).  It cannot hold literally: the private predicates of the PROGRAM side that
   also occur privately on the specification side are renamed p_p, so the two families agree only up
   to exchanging p / p_p, and the formula names embed predicate names.  That correspondence is
   compared at run time on examples (props/C20.py). *)
From Coq Require Import List String ZArith Bool.
From Anthem Require Import Syntax.Fol Syntax.Asp Sem.Domain Sem.Sat Model.Problem Model.Strong Model.External
  Model.Tightness Model.PrivRec Model.TauStar Model.Completion Model.ExternalFull
  Proofs.DecomposeOk Proofs.StrongOk Proofs.ExternalOk Proofs.C19Ext Proofs.C02Ok Proofs.C02Full Proofs.C02Behaviour Proofs.C02Complete.
Import ListNotations.

Definition ext_swap_forward (A B : program) (u : user_guide) dec repr byp simp brk : ext_task :=
  mkext (inl B) A u [] dec DForward repr byp simp brk.
Definition ext_swap_backward (A B : program) (u : user_guide) dec repr byp simp brk : ext_task :=
  mkext (inl A) B u [] dec DBackward repr byp simp brk.

(* the vocabulary on which external behaviour is read (program predicates, inputs, the output
   predicates that OCCUR IN THE TASK - /repo 18b2e85) is the same for the two tasks: the same two
   programs occur in both, in the other order *)
Lemma swap_ext_voc A B u dec repr byp simp brk P :
  ext_voc (ext_swap_forward A B u dec repr byp simp brk) P = ext_voc (ext_swap_backward A B u dec repr byp simp brk) P.
Proof.
  unfold ext_voc, occurring_outputs. f_equal. f_equal. apply filter_ext. intros q.
  unfold task_occurring_predicates, ext_swap_forward, ext_swap_backward. cbn [et_specification et_program].
  destruct (Base.ISet.memb_spec pred_dec q (Base.ISet.iset_extend pred_dec (program_preds B) (program_preds A))) as [H|H];
  destruct (Base.ISet.memb_spec pred_dec q (Base.ISet.iset_extend pred_dec (program_preds A) (program_preds B))) as [H'|H'];
    try reflexivity; exfalso; rewrite (Base.ISet.in_iset_extend pred_dec) in H, H'; tauto.
Qed.
Lemma swap_ext_stable_full A B u dec repr byp simp brk FI M P :
  ext_stable_full (ext_swap_forward A B u dec repr byp simp brk) FI M P <->
  ext_stable_full (ext_swap_backward A B u dec repr byp simp brk) FI M P.
Proof. unfold ext_stable_full. rewrite swap_ext_voc. reflexivity. Qed.

Theorem swap_external_difference A B u dec repr byp simp brk FI T :
  behavioural_difference (ext_swap_forward A B u dec repr byp simp brk) B FI T <->
  behavioural_difference (ext_swap_backward A B u dec repr byp simp brk) A FI T.
Proof.
  assert (E : forall N P, (pub_agree (ext_swap_forward A B u dec repr byp simp brk) N T /\
                           ext_stable_full (ext_swap_forward A B u dec repr byp simp brk) FI N P) <->
                          (pub_agree (ext_swap_backward A B u dec repr byp simp brk) N T /\
                           ext_stable_full (ext_swap_backward A B u dec repr byp simp brk) FI N P)).
  { intros N P. rewrite swap_ext_stable_full. reflexivity. }
  unfold behavioural_difference. cbn [ext_swap_forward ext_swap_backward et_direction et_program dir_forward dir_backward].
  split; intros [Hug [[Hd [H1 H2]]|[Hd [H1 H2]]]]; try discriminate; (split; [exact Hug|]); [right|left];
    (split; [reflexivity|]); (split; [apply swap_ext_stable_full; exact H1|]);
    intros [N HN]; apply H2; exists N; apply E; exact HN.
Qed.

Section Fuel.
Variable fuel : nat.
Let tl := task_left tau_star_total completion (simp_classic_total fuel).
Let tr := task_right tau_star_total completion (simp_classic_total fuel).

(* the premises of C02_external_equivalence for a program-vs-program task *)
Definition ext_premises (t : ext_task) (L : program) (pbs : list problem) : Prop :=
  exists w lft rgt,
    external_decompose_full fuel t = XOk w pbs /\
    is_tight L = true /\ is_tight (et_program t) = true /\
    tl t L = Some lft /\ tr t = Some rgt /\
    (forall vt, task_validated tau_star_total completion (simp_classic_total fuel) t = Some vt -> validated_no_clash vt) /\
    rename_faithful t L /\ ug_over_inputs t.

Theorem swap_external_refutable A B u dec repr byp simp brk pbs pbs' :
  ext_premises (ext_swap_forward A B u dec repr byp simp brk) B pbs ->
  ext_premises (ext_swap_backward A B u dec repr byp simp brk) A pbs' ->
  forall FI, (exists M, refutes_some FI M pbs) <-> (exists M, refutes_some FI M pbs').
Proof.
  intros [w [lft [rgt [H1 [H2 [H3 [H4 [H5 [H6 [H7 H8]]]]]]]]]] [w' [lft' [rgt' [H1' [H2' [H3' [H4' [H5' [H6' [H7' H8']]]]]]]]]] FI.
  rewrite (external_equivalence_iff fuel (ext_swap_forward A B u dec repr byp simp brk) B w pbs lft rgt eq_refl eq_refl H1 H2 H3 H4 H5 H6 H7 H8 FI).
  rewrite (external_equivalence_iff fuel (ext_swap_backward A B u dec repr byp simp brk) A w' pbs' lft' rgt' eq_refl eq_refl H1' H2' H3' H4' H5' H6' H7' H8' FI).
  split; intros [T HT]; exists T; apply swap_external_difference; exact HT.
Qed.
End Fuel.
