(* Structure of the completion model: fresh head variables, the declarative reading of [split]
   (constraint / definition formulas), the content of [components], exactness of
   [has_head_mismatches], and the shape theorem C04_shape (refusal is exact). *)
From Coq Require Import List Ascii String ZArith NArith Bool Lia FinFun.
From Anthem Require Import Base.ISet Base.Fresh Syntax.Fol Model.Completion Proofs.ExtendAll.
Import ListNotations.
Open Scope string_scope.
Open Scope list_scope.

(* ---------- choose_fresh_variable_names never falls back, yields distinct names ---------- *)
Lemma fresh_step_spec taken fresh v n :
  ~ In (fresh_step taken fresh v n) taken /\ ~ In (fresh_step taken fresh v n) fresh.
Proof.
  unfold fresh_step.
  set (bad := fun c : string => memb string_dec c taken || memb string_dec c fresh).
  assert (Hb : forall x, bad x = true -> In x (taken ++ fresh)).
  { intros x. unfold bad. rewrite orb_true_iff, in_app_iff.
    destruct (memb_spec string_dec x taken), (memb_spec string_dec x fresh); intuition congruence. }
  destruct (find_fresh_by_total v bad (taken ++ fresh) n Hb) as [c [k E]].
  rewrite app_length in E. rewrite E.
  apply find_fresh_by_sound in E. destruct E as [E _]. unfold bad in E.
  apply orb_false_iff in E. destruct E as [E1 E2].
  destruct (memb_spec string_dec c taken), (memb_spec string_dec c fresh); try discriminate. auto.
Qed.
Lemma fresh_loop_spec taken v k : forall fresh n,
  NoDup fresh ->
  NoDup (fresh_loop taken fresh v n k) /\ List.length (fresh_loop taken fresh v n k) = List.length fresh + k.
Proof.
  induction k as [|k IH]; intros fresh n Hn; cbn.
  - split; auto.
  - destruct (fresh_step_spec taken fresh v n) as [_ H2].
    destruct (IH (fresh ++ [fresh_step taken fresh v n]) (N.succ n)) as [H3 H4].
    + apply nodup_snoc; auto.
    + split; auto. rewrite H4, app_length. cbn. lia.
Qed.
Lemma choose_fresh_spec vars v k :
  NoDup (choose_fresh_variable_names vars v k) /\ List.length (choose_fresh_variable_names vars v k) = k.
Proof.
  unfold choose_fresh_variable_names. destruct k as [|k]; [split; [constructor|reflexivity]|].
  destruct (memb string_dec v (map vname vars)).
  - destruct (fresh_loop_spec (map vname vars) v (S k) [] 1%N) as [H1 H2]; [constructor|]. split; auto.
  - destruct (fresh_loop_spec (map vname vars) v (S k - 1) [v] 1%N) as [H1 H2].
    + constructor; [intros []|constructor].
    + split; auto. rewrite H2. cbn. lia.
Qed.

(* ---------- head atoms with distinct variable arguments ---------- *)
Lemma gterm_to_var_inv t v : gterm_to_var t = Some v -> t = var_to_gterm v.
Proof.
  destruct t as [| | | x |t|t]; cbn; try discriminate.
  - intros [= <-]. reflexivity.
  - destruct t; try discriminate. intros [= <-]. reflexivity.
  - destruct t; try discriminate. intros [= <-]. reflexivity.
Qed.
Lemma gterm_to_var_of v : gterm_to_var (var_to_gterm v) = Some v.
Proof. destruct v as [n s]; destruct s; reflexivity. Qed.
Lemma gterm_vars_of v : gterm_vars (var_to_gterm v) = [v].
Proof. destruct v as [n s]; destruct s; reflexivity. Qed.

Lemma all_unique_spec {A} (dec : forall x y : A, {x = y} + {x <> y}) l : all_unique dec l = true <-> NoDup l.
Proof.
  induction l as [|x l IH]; cbn; [split; [constructor|auto]|].
  rewrite andb_true_iff, negb_true_iff, IH. destruct (memb_spec dec x l); split.
  - intros [? _]; discriminate.
  - intros H; inversion H; tauto.
  - intros [_ H]. constructor; auto.
  - intros H; inversion H; auto.
Qed.

(* the head test of split_implication: the arguments are pairwise distinct variables *)
Lemma head_args_ok_spec ts :
  head_args_ok ts = true <-> exists V, ts = map var_to_gterm V /\ NoDup V.
Proof.
  unfold head_args_ok. rewrite negb_true_iff, orb_false_iff, negb_false_iff, all_unique_spec.
  split.
  - intros [Hnone Hnd].
    assert (Hall : forall t, In t ts -> exists v, gterm_to_var t = Some v).
    { intros t Ht. destruct (gterm_to_var t) as [v|] eqn:E; [eauto|].
      destruct (memb_spec ovar_dec None (map gterm_to_var ts)) as [|Hn]; [discriminate|].
      exfalso. apply Hn. rewrite <- E. apply in_map, Ht. }
    clear Hnone. induction ts as [|t ts IH]; [exists []; split; [reflexivity|constructor]|].
    cbn in Hnd. inversion Hnd as [|? ? Hx Hnd']; subst.
    destruct IH as [V [-> HV]]; auto; [intros u Hu; apply Hall; cbn; auto|].
    destruct (Hall t (or_introl eq_refl)) as [v Ev].
    exists (v :: V). cbn. rewrite (gterm_to_var_inv _ _ Ev). split; auto.
    constructor; auto. intros Hin. apply Hx. rewrite Ev, map_map.
    apply in_map_iff. exists v. split; auto using gterm_to_var_of.
  - intros [V [-> HV]]. rewrite map_map.
    assert (E : map (fun x => gterm_to_var (var_to_gterm x)) V = map Some V)
      by (apply map_ext; intros; apply gterm_to_var_of).
    rewrite E. split.
    + destruct (memb_spec ovar_dec None (map Some V)) as [H|]; auto.
      apply in_map_iff in H. destruct H as [x [Hx _]]. discriminate.
    + apply Injective_map_NoDup; auto. intros x y [=]. auto.
Qed.

Lemma aformula_vars_head p V : NoDup V -> aformula_vars (AAtom p (map var_to_gterm V)) = V.
Proof.
  intros HV. cbn. unfold extend_all.
  assert (G : forall init, NoDup (init ++ V) ->
              fold_left (fun acc x => iset_extend var_dec acc (gterm_vars x)) (map var_to_gterm V) init = init ++ V);
    [|apply (G []); exact HV].
  clear HV. induction V as [|v V IH]; intros init Hn; cbn; [rewrite app_nil_r; auto|].
  rewrite gterm_vars_of. cbn. unfold iset_insert.
  destruct (memb_spec var_dec v init) as [Hin|Hni].
  - exfalso. apply NoDup_remove_2 in Hn. apply Hn. rewrite in_app_iff; auto.
  - rewrite IH; rewrite <- app_assoc; cbn; auto.
Qed.

(* ---------- atomic_formula_from ---------- *)
Definition implicit_head_vars (p : pred) : list var :=
  map (fun n => mkvar n SGeneral) (choose_fresh_variable_names [mkvar "V" SGeneral] "V" (parity p)).
Lemma atomic_formula_from_args p : hargs (atomic_formula_from p) = map var_to_gterm (implicit_head_vars p).
Proof. unfold atomic_formula_from, implicit_head_vars. cbn. rewrite map_map. reflexivity. Qed.
Lemma implicit_head_vars_nodup p : NoDup (implicit_head_vars p).
Proof.
  unfold implicit_head_vars. apply Injective_map_NoDup; [intros x y [=]; auto|].
  apply choose_fresh_spec.
Qed.
Lemma atomic_formula_from_pred p : hatom_pred (atomic_formula_from p) = p.
Proof.
  unfold hatom_pred, atomic_formula_from. cbn. rewrite map_length.
  destruct (choose_fresh_spec [mkvar "V" SGeneral] "V" (parity p)) as [_ ->]. destruct p; reflexivity.
Qed.

(* ---------- declarative reading of split ---------- *)
(* one optional leading universal block is stripped *)
Definition strip (f : formula) : formula := match f with FQ QForall _ g => g | g => g end.
(* [m] is the implication  body -> head  written in either direction *)
Definition implication (m body head : formula) : Prop := m = FBin CImp body head \/ m = FBin CRimp head body.

(* f is a closed formula  [forall ..] (F -> p(V))  /  [forall ..] (p(V) <- F)  with V distinct variables *)
Definition definition_of (f F : formula) (p : string) (V : list var) : Prop :=
  free_variables f = [] /\ implication (strip f) F (FAtomic (AAtom p (map var_to_gterm V))) /\ NoDup V.
(* f is a closed formula  [forall ..] (F -> #false)  /  [forall ..] (#false <- F) *)
Definition constraint_formula (f : formula) : Prop :=
  free_variables f = [] /\ exists F, implication (strip f) F (FAtomic AFalse).

Lemma split_strip f : split f = match free_variables f with [] => split_implication (strip f) | _ => None end.
Proof.
  unfold split, strip. destruct (free_variables f); auto.
  destruct f as [| | |[] vs g]; reflexivity.
Qed.

Lemma split_implication_constraint m c :
  split_implication m = Some (Constraint c) <-> c = m /\ exists F, implication m F (FAtomic AFalse).
Proof.
  unfold implication. split.
  - destruct m as [a|g|cn l r|q vs g]; cbn; try discriminate.
    destruct cn; try discriminate.
    + destruct r as [[| |p ts|]| | |]; try discriminate.
      * intros [= <-]. split; eauto.
      * destruct (head_args_ok ts); discriminate.
    + destruct l as [[| |p ts|]| | |]; try discriminate.
      * intros [= <-]. split; eauto.
      * destruct (head_args_ok ts); discriminate.
  - intros [-> [F [->| ->]]]; reflexivity.
Qed.
Lemma split_implication_definition m F a :
  split_implication m = Some (PartialDefinition F a) <->
  implication m F (FAtomic (hatom_formula a)) /\ head_args_ok (hargs a) = true.
Proof.
  unfold implication, hatom_formula. split.
  - destruct m as [b|g|cn l r|q vs g]; cbn; try discriminate.
    destruct cn; try discriminate.
    + destruct r as [[| |p ts|]| | |]; try discriminate.
      destruct (head_args_ok ts) eqn:E; try discriminate. intros [= <- <-]. cbn. auto.
    + destruct l as [[| |p ts|]| | |]; try discriminate.
      destruct (head_args_ok ts) eqn:E; try discriminate. intros [= <- <-]. cbn. auto.
  - destruct a as [p ts]. cbn. intros [[->| ->] E]; cbn; rewrite E; reflexivity.
Qed.

Lemma split_constraint f c : split f = Some (Constraint c) <-> c = strip f /\ constraint_formula f.
Proof.
  rewrite split_strip. unfold constraint_formula. destruct (free_variables f).
  - rewrite split_implication_constraint. intuition.
  - split; [discriminate|]. intros [_ [H _]]. discriminate.
Qed.
Lemma split_definition f F a :
  split f = Some (PartialDefinition F a) <->
  exists V, hargs a = map var_to_gterm V /\ definition_of f F (hsym a) V.
Proof.
  rewrite split_strip. unfold definition_of, hatom_formula. destruct (free_variables f).
  - rewrite split_implication_definition, head_args_ok_spec. unfold hatom_formula. split.
    + intros [Hi [V [E HV]]]. exists V. rewrite <- E. auto.
    + intros [V [E [_ [Hi HV]]]]. rewrite E. eauto.
  - split; [discriminate|]. intros [V [_ [H _]]]. discriminate.
Qed.
Lemma split_none f :
  split f = None <-> ~ constraint_formula f /\ forall F p V, ~ definition_of f F p V.
Proof.
  split.
  - intros E. split.
    + intros H. assert (E' := proj2 (split_constraint f (strip f)) (conj eq_refl H)). congruence.
    + intros F p V H.
      assert (E' := proj2 (split_definition f F (mkhatom p (map var_to_gterm V))) (ex_intro _ V (conj eq_refl H))).
      congruence.
  - intros [H1 H2]. destruct (split f) as [[F a|c]|] eqn:E; auto; exfalso.
    + apply split_definition in E. destruct E as [V [_ E]]. eapply H2; eauto.
    + apply split_constraint in E. tauto.
Qed.

(* a definition's head predicate occurs in the formula *)
Lemma in_predicates_strip f p : In p (predicates (strip f)) -> In p (predicates f).
Proof. destruct f as [| | |[] vs g]; cbn; auto. Qed.
Lemma definition_of_pred f F p V : definition_of f F p V -> In (mkpred p (List.length V)) (predicates f).
Proof.
  intros [_ [[E|E] _]]; apply in_predicates_strip; rewrite E; cbn [predicates]; apply in_iset_extend; cbn;
    rewrite map_length; auto.
Qed.

(* ---------- components ---------- *)
Definition split_defs (f : formula) : list (formula * hatom) :=
  match split f with Some (PartialDefinition F a) => [(F, a)] | _ => [] end.
Definition split_constraints (f : formula) : list formula :=
  match split f with Some (Constraint c) => [c] | _ => [] end.

Lemma in_defs_push d a f : forall b F,
  (exists fs, In (b, fs) (defs_push d a f) /\ In F fs) <->
  (exists fs, In (b, fs) d /\ In F fs) \/ (b = a /\ F = f).
Proof.
  induction d as [|[a' fs'] d IH]; intros b F; cbn.
  - split.
    + intros [fs [[[= <- <-]|[]] [->|[]]]]. auto.
    + intros [[fs [[] _]]|[-> ->]]. exists [f]. cbn; auto.
  - unfold hatom_eqb. destruct (hatom_dec a a') as [<-|Hne]; cbn.
    + split.
      * intros [fs [[[= <- <-]|Hin] HF]].
        -- apply in_app_iff in HF. destruct HF as [HF|[->|[]]]; [left; eauto|auto].
        -- left; eauto.
      * intros [[fs [[[= <- <-]|Hin] HF]]|[-> ->]].
        -- exists (fs' ++ [f]). split; auto. apply in_app_iff; auto.
        -- eauto.
        -- exists (fs' ++ [f]). split; auto. apply in_app_iff; cbn; auto.
    + split.
      * intros [fs [[[= <- <-]|Hin] HF]]; [left; eauto|].
        destruct (proj1 (IH b F) (ex_intro _ fs (conj Hin HF))) as [[gs [H1 H2]]|H]; [left; eauto|auto].
      * intros [[fs [[[= <- <-]|Hin] HF]]|[-> ->]]; [eauto| |].
        -- destruct (proj2 (IH b F) (or_introl (ex_intro _ fs (conj Hin HF)))) as [gs [H1 H2]]. eauto.
        -- destruct (proj2 (IH a f) (or_intror (conj eq_refl eq_refl))) as [gs [H1 H2]]. eauto.
Qed.
Lemma keys_defs_push d a f : map fst (defs_push d a f) = if memb hatom_dec a (map fst d) then map fst d else map fst d ++ [a].
Proof.
  induction d as [|[a' fs'] d IH]; cbn; auto.
  unfold hatom_eqb. destruct (hatom_dec a a') as [<-|Hne]; cbn.
  - destruct (memb_spec hatom_dec a (a :: map fst d)) as [|H]; [reflexivity|cbn in H; tauto].
  - rewrite IH. destruct (memb_spec hatom_dec a (map fst d)) as [H|H];
      destruct (memb_spec hatom_dec a (a' :: map fst d)) as [H'|H']; cbn in H'; auto; try tauto.
    destruct H' as [->|]; tauto.
Qed.
Lemma nodup_keys_defs_push d a f : NoDup (map fst d) -> NoDup (map fst (defs_push d a f)).
Proof.
  intros H. rewrite keys_defs_push. destruct (memb_spec hatom_dec a (map fst d)); auto using nodup_snoc.
Qed.
Lemma nonempty_defs_push d a f : (forall b fs, In (b, fs) d -> fs <> []) ->
  forall b fs, In (b, fs) (defs_push d a f) -> fs <> [].
Proof.
  induction d as [|[a' fs'] d IH]; cbn; intros H b fs.
  - intros [[= <- <-]|[]]. discriminate.
  - unfold hatom_eqb. destruct (hatom_dec a a') as [<-|Hne]; cbn.
    + intros [[= <- <-]|Hin]; [destruct fs'; discriminate|eauto].
    + intros [[= <- <-]|Hin]; [eauto|]. eapply IH; eauto.
Qed.

Lemma components_from_spec G : forall d c defs cs,
  components_from G d c = Some (defs, cs) ->
  (forall f, In f G -> split f <> None) /\
  cs = c ++ flat_map split_constraints G /\
  (NoDup (map fst d) -> NoDup (map fst defs)) /\
  ((forall b fs, In (b, fs) d -> fs <> []) -> forall b fs, In (b, fs) defs -> fs <> []) /\
  forall b F, (exists fs, In (b, fs) defs /\ In F fs) <->
              (exists fs, In (b, fs) d /\ In F fs) \/ exists f, In f G /\ split f = Some (PartialDefinition F b).
Proof.
  induction G as [|f G IH]; intros d c defs cs; cbn [components_from].
  - intros [= <- <-]. split; [|split; [|split; [|split]]].
    + intros f [].
    + cbn. rewrite app_nil_r. reflexivity.
    + auto.
    + auto.
    + intros b F. split; [auto|]. intros [H|[f [[] _]]]; auto.
  - destruct (split f) as [[F a|x]|] eqn:E; [| |discriminate]; intros H; apply IH in H;
      destruct H as [H1 [H2 [H3 [H4 H5]]]]; (split; [|split; [|split; [|split]]]).
    + intros g [<-|Hg]; [congruence|auto].
    + rewrite H2. cbn. unfold split_constraints at 2. rewrite E. reflexivity.
    + intros Hn. apply H3, nodup_keys_defs_push, Hn.
    + intros Hn. apply H4, nonempty_defs_push, Hn.
    + intros b F'. rewrite H5, in_defs_push. split.
      * intros [[H|[-> ->]]|[g [Hg Eg]]]; [auto|right; exists f; cbn; auto|right; exists g; cbn; auto].
      * intros [H|[g [[<-|Hg] Eg]]]; [auto| |right; eauto].
        rewrite E in Eg. injection Eg as <- <-. auto.
    + intros g [<-|Hg]; [congruence|auto].
    + rewrite H2, <- app_assoc. cbn. unfold split_constraints at 2. rewrite E. reflexivity.
    + auto.
    + auto.
    + intros b F'. rewrite H5. split.
      * intros [H|[g [Hg Eg]]]; [auto|right; exists g; cbn; auto].
      * intros [H|[g [[<-|Hg] Eg]]]; [auto|congruence|right; eauto].
Qed.

Lemma components_spec G defs cs :
  components G = Some (defs, cs) ->
  (forall f, In f G -> split f <> None) /\
  cs = flat_map split_constraints G /\
  NoDup (map fst defs) /\
  (forall b fs, In (b, fs) defs -> fs <> []) /\
  forall b F, (exists fs, In (b, fs) defs /\ In F fs) <-> exists f, In f G /\ split f = Some (PartialDefinition F b).
Proof.
  intros H. apply components_from_spec in H. destruct H as [H1 [H2 [H3 [H4 H5]]]].
  repeat split; auto.
  - apply H3. constructor.
  - apply H4. intros b fs [].
  - intros H. apply H5 in H. destruct H as [[fs [[] _]]|H]; auto.
  - intros H. apply H5. auto.
Qed.
Lemma components_some G : (forall f, In f G -> split f <> None) -> exists r, components G = Some r.
Proof.
  unfold components. generalize (@nil (hatom * list formula)) (@nil formula).
  induction G as [|f G IH]; intros d c H; cbn; [eauto|].
  destruct (split f) as [[F a|x]|] eqn:E.
  - apply IH. intros g Hg. apply H; cbn; auto.
  - apply IH. intros g Hg. apply H; cbn; auto.
  - exfalso. apply (H f); cbn; auto.
Qed.

(* ---------- heads / has_head_mismatches ---------- *)
Definition has_pred (p : pred) (a : hatom) : bool := pred_eqb (hatom_pred a) p.
(* the map built by [heads] from the keys K: exactly the non-empty groups  p |-> [a in K | pred a = p] *)
Definition heads_inv (K : list hatom) (m : list (pred * list hatom)) : Prop :=
  NoDup (map fst m) /\
  forall p hs, In (p, hs) m <-> (hs = filter (has_pred p) K /\ hs <> []).

Lemma keys_heads_push m q a :
  map fst (heads_push m q a) = if memb pred_dec q (map fst m) then map fst m else map fst m ++ [q].
Proof.
  induction m as [|[q' hs] m IH]; cbn; auto.
  destruct (pred_eqb_spec q q') as [<-|Hne]; cbn.
  - destruct (memb_spec pred_dec q (q :: map fst m)) as [|H]; [reflexivity|cbn in H; tauto].
  - rewrite IH. destruct (memb_spec pred_dec q (map fst m)) as [H|H];
      destruct (memb_spec pred_dec q (q' :: map fst m)) as [H'|H']; cbn in H'; auto; try tauto.
    destruct H' as [->|]; tauto.
Qed.
Lemma in_heads_push m q a : NoDup (map fst m) -> forall p hs,
  In (p, hs) (heads_push m q a) <->
  (p <> q /\ In (p, hs) m) \/
  (p = q /\ ((exists hs0, In (q, hs0) m /\ hs = hs0 ++ [a]) \/ (~ In q (map fst m) /\ hs = [a]))).
Proof.
  induction m as [|[q' hs'] m IH]; intros Hn p hs; cbn.
  - split.
    + intros [[= <- <-]|[]]. right. split; auto.
    + intros [[_ []]|[-> [[hs0 [[] _]]|[_ ->]]]]. auto.
  - cbn in Hn. inversion Hn as [|? ? Hq Hn']; subst.
    destruct (pred_eqb_spec q q') as [<-|Hne]; cbn.
    + split.
      * intros [[= <- <-]|Hin].
        -- right. split; auto. left. exists hs'. auto.
        -- left. split; auto. intros ->. apply Hq. apply (in_map fst _ _ Hin).
      * intros [[Hne [[= E _]|Hin]]|[-> [[hs0 [[[= <-]|Hin] ->]]|[Hni _]]]]; auto; try congruence.
        -- exfalso. apply Hq. apply (in_map fst _ _ Hin).
        -- tauto.
    + rewrite (IH Hn'). split.
      * intros [[= <- <-]|[[Hp Hin]|[-> [[hs0 [Hin ->]]|[Hni ->]]]]].
        -- left. split; auto.
        -- left. split; auto.
        -- right. split; auto. left. exists hs0. auto.
        -- right. split; auto. right. split; auto. intros [E|E]; [congruence|tauto].
      * intros [[Hp [[= <- <-]|Hin]]|[-> [[hs0 [[[= E _]|Hin] ->]]|[Hni ->]]]]; auto; try congruence.
        -- right. right. split; auto. left. exists hs0. auto.
        -- right. right. split; [reflexivity|]. right. split; [|reflexivity]. intros X. apply Hni. right. exact X.
Qed.

Lemma filter_snoc {A} (f : A -> bool) l x : filter f (l ++ [x]) = filter f l ++ (if f x then [x] else []).
Proof. induction l as [|y l IH]; cbn; [destruct (f x); auto|]. rewrite IH. destruct (f y); auto. Qed.

Lemma heads_push_inv K m a : heads_inv K m -> heads_inv (K ++ [a]) (heads_push m (hatom_pred a) a).
Proof.
  intros [H1 H2]. split.
  - rewrite keys_heads_push. destruct (memb_spec pred_dec (hatom_pred a) (map fst m)); auto using nodup_snoc.
  - intros p hs. rewrite (in_heads_push m _ a H1), filter_snoc. unfold has_pred at 2.
    destruct (pred_eqb_spec (hatom_pred a) p) as [<-|Hne].
    + split.
      * intros [[Hp _]|[_ [[hs0 [Hin ->]]|[Hni ->]]]]; [congruence| |].
        -- apply H2 in Hin. destruct Hin as [-> _]. split; auto. intros E. apply app_eq_nil in E. destruct E; discriminate.
        -- assert (E : filter (has_pred (hatom_pred a)) K = []).
           { destruct (filter (has_pred (hatom_pred a)) K) eqn:E; auto. exfalso. apply Hni.
             apply (in_map (@fst pred (list hatom)) m (hatom_pred a, filter (has_pred (hatom_pred a)) K)). apply H2. rewrite E. split; auto. discriminate. }
           rewrite E. split; auto. discriminate.
      * intros [-> _]. right. split; auto.
        destruct (filter (has_pred (hatom_pred a)) K) eqn:E.
        -- right. split; auto. intros Hin. apply in_map_iff in Hin. destruct Hin as [[q hs0] [Eq Hin]]. cbn in Eq. subst q.
           apply H2 in Hin. destruct Hin as [-> Hne]. congruence.
        -- left. exists (h :: l). split; auto. apply H2. rewrite E. split; auto. discriminate.
    + rewrite app_nil_r. rewrite <- H2. split.
      * intros [[_ Hin]|[E _]]; [auto|congruence].
      * intros Hin. left. split; auto.
Qed.
Lemma heads_inv_fold (d : definitions) : forall K m, heads_inv K m ->
  heads_inv (K ++ map fst d) (fold_left (fun m e => heads_push m (hatom_pred (fst e)) (fst e)) d m).
Proof.
  induction d as [|e d IH]; intros K m H; cbn; [rewrite app_nil_r; auto|].
  replace (K ++ fst e :: map fst d) with ((K ++ [fst e]) ++ map fst d) by (rewrite <- app_assoc; reflexivity).
  apply IH, heads_push_inv, H.
Qed.
Lemma heads_spec d : heads_inv (map fst d) (heads d).
Proof.
  apply (heads_inv_fold d [] []). split; [constructor|]. intros p hs. cbn. split; [tauto|]. intros [-> H]. congruence.
Qed.

Lemma all_equal_spec hs : all_equal hs = true <-> forall x y, In x hs -> In y hs -> x = y.
Proof.
  destruct hs as [|h hs]; cbn; [split; [intros _ x y []|auto]|].
  rewrite forallb_forall. unfold hatom_eqb. split.
  - intros H.
    assert (E : forall x, h = x \/ In x hs -> x = h).
    { intros x [->|Hx]; [reflexivity|]. specialize (H x Hx). destruct (hatom_dec h x); [congruence|discriminate]. }
    intros x y Hx Hy. rewrite (E x Hx), (E y Hy). reflexivity.
  - intros H x Hx. destruct (hatom_dec h x) as [|Hne]; [reflexivity|]. exfalso. apply Hne. apply H; cbn; auto.
Qed.

(* exactness of the mismatch test: keys with the same predicate are identical *)
Theorem has_head_mismatches_spec d :
  has_head_mismatches d = false <->
  forall a b, In a (map fst d) -> In b (map fst d) -> hatom_pred a = hatom_pred b -> a = b.
Proof.
  unfold has_head_mismatches. destruct (heads_spec d) as [_ H].
  split.
  - intros E a b Ha Hb Hp.
    assert (Hin : In (hatom_pred a, filter (has_pred (hatom_pred a)) (map fst d)) (heads d)).
    { apply H. split; auto. intros E'.
      assert (Hf : In a (filter (has_pred (hatom_pred a)) (map fst d))).
      { apply filter_In. split; auto. unfold has_pred. destruct (pred_eqb_spec (hatom_pred a) (hatom_pred a)); congruence. }
      rewrite E' in Hf. destruct Hf. }
    assert (Ee : all_equal (filter (has_pred (hatom_pred a)) (map fst d)) = true).
    { destruct (all_equal _) eqn:Ea; auto.
      assert (X : existsb (fun e => negb (all_equal (snd e))) (heads d) = true).
      { apply existsb_exists. eexists; split; [exact Hin|]. cbn. rewrite Ea. reflexivity. }
      congruence. }
    rewrite all_equal_spec in Ee. apply Ee; apply filter_In; split; auto; unfold has_pred.
    + destruct (pred_eqb_spec (hatom_pred a) (hatom_pred a)); congruence.
    + destruct (pred_eqb_spec (hatom_pred b) (hatom_pred a)); congruence.
  - intros Hall. destruct (existsb _ (heads d)) eqn:E; auto.
    apply existsb_exists in E. destruct E as [[p hs] [Hin Hne]]. cbn in Hne.
    apply H in Hin. destruct Hin as [-> _].
    assert (Ee : all_equal (filter (has_pred p) (map fst d)) = true).
    { apply all_equal_spec. intros x y Hx Hy. apply filter_In in Hx, Hy.
      destruct Hx as [Hx Px], Hy as [Hy Py]. apply Hall; auto. unfold has_pred in *.
      destruct (pred_eqb_spec (hatom_pred x) p), (pred_eqb_spec (hatom_pred y) p); congruence. }
    rewrite Ee in Hne. discriminate.
Qed.
