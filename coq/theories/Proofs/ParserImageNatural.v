(* Audit A8 (b), the mu representation: every formula of Model/MuFull.mu_full P - the natural
   translation of the regular rules, tau* of the others - is in the parser image
   (Proofs/ParserImage.v), for a program whose variables have non-empty names.  This discharges
   the hypothesis [repr_image] of NoPanic.strong_panic_only_overflow_partial.

   natural_rule r = universal_closure (body -> head): the bound variables are the free variables of
   that formula, so their names come from the rule's own variables (p2f keeps names) or from the
   fresh integer variables N<i> / N<i>_<k> of the head intervals. *)
From Coq Require Import List Ascii String ZArith NArith Bool Lia.
From Anthem Require Import Base.ISet Base.Fresh Syntax.Fol Syntax.Asp
  Model.Natural Model.TauStar Model.MuFull Model.SimplClassic
  Proofs.FreeVars Proofs.SimplClassicBase Proofs.NatTerms Proofs.NaturalVocab
  Proofs.SimplClassicTotal Proofs.ParserImage Proofs.ParserImagePipeline.
Import ListNotations.
Open Scope string_scope.
Open Scope list_scope.

(* every variable occurring in an atom of F has a non-empty name *)
Definition vars_named (F : formula) : Prop := forall v, In v (variables F) -> vname v <> "".
Definition gterm_named (g : gterm) : Prop := forall v, In v (gterm_vars g) -> vname v <> "".
Definition term_named (t : term) : Prop := forall x, In x (term_vars t) -> x <> "".

Lemma vars_named_not f : vars_named (FNot f) <-> vars_named f.
Proof. reflexivity. Qed.
Lemma vars_named_bin c l r : vars_named (FBin c l r) <-> vars_named l /\ vars_named r.
Proof.
  unfold vars_named. cbn [variables]. split.
  - intros H. split; intros v Hv; apply H; apply (in_iset_extend var_dec); auto.
  - intros [Hl Hr] v Hv. apply (in_iset_extend var_dec) in Hv. destruct Hv; auto.
Qed.
Lemma vars_named_q q vs f : vars_named (FQ q vs f) <-> vars_named f.
Proof. reflexivity. Qed.
Lemma vars_named_atom p ts : (forall g, In g ts -> gterm_named g) -> vars_named (FAtomic (AAtom p ts)).
Proof. intros H v Hv. cbn [variables] in Hv. apply in_aformula_vars_atom in Hv. destruct Hv as [g [Hg Hv]]. exact (H g Hg v Hv). Qed.
Lemma vars_named_cmp t gs : gterm_named t -> (forall g, In g gs -> gterm_named (gterm_of g)) ->
  vars_named (FAtomic (ACmp t gs)).
Proof.
  intros Ht Hg v Hv. cbn [variables] in Hv. apply in_aformula_vars_cmp in Hv.
  destruct Hv as [Hv|[g [Hgin Hv]]]; [exact (Ht v Hv)|exact (Hg g Hgin v Hv)].
Qed.
Lemma vars_named_plain a : aformula_vars a = [] -> vars_named (FAtomic a).
Proof. intros E v Hv. cbn [variables] in Hv. rewrite E in Hv. destruct Hv. Qed.
Lemma vars_named_reduce c x xs : vars_named x -> (forall y, In y xs -> vars_named y) ->
  vars_named (fold_left (fun acc e => FBin c acc e) xs x).
Proof.
  revert x. induction xs as [|y ys IH]; intros x Hx H; cbn [fold_left]; [exact Hx|].
  apply IH; [apply vars_named_bin; split; [exact Hx|apply H; left; reflexivity]|intros z Hz; apply H; right; exact Hz].
Qed.
Lemma vars_named_conjoin l : (forall x, In x l -> vars_named x) -> vars_named (conjoin l).
Proof.
  intros H. unfold conjoin, reduce_bin. destruct l as [|x xs]; [apply vars_named_plain; reflexivity|].
  apply vars_named_reduce; [apply H; left; reflexivity|intros y Hy; apply H; right; exact Hy].
Qed.

(* ---------- p2f keeps the variable names of the term ---------- *)
Lemma p2f_int_term_named t : forall it, term_named t -> p2f_int_term t = Some it ->
  forall v, In v (iterm_vars it) -> vname v <> "".
Proof.
  induction t as [p|x|o a IH|o l IHl r IHr]; intros it Ht; cbn [p2f_int_term].
  - destruct p; try discriminate. intros [= <-] v [].
  - intros [= <-] v [<-|[]]. cbn. apply Ht. left. reflexivity.
  - destruct o. destruct (p2f_int_term a) as [a'|] eqn:Ea; [|discriminate]. intros [= <-]. cbn [iterm_vars].
    exact (IH a' Ht eq_refl).
  - destruct (match o with AAdd => Some BAdd | ASub => Some BSub | AMul => Some BMul | _ => None end) as [o'|]; [|discriminate].
    destruct (p2f_int_term l) as [l'|] eqn:El; [|discriminate].
    destruct (p2f_int_term r) as [r'|] eqn:Er; [|discriminate]. intros [= <-] v Hv. cbn [iterm_vars] in Hv.
    apply (in_iset_extend var_dec) in Hv.
    destruct Hv as [Hv|Hv]; [apply (IHl l' (fun x Hx => Ht x (proj2 (term_vars_bin o l r x) (or_introl Hx))) eq_refl v Hv)
                            |apply (IHr r' (fun x Hx => Ht x (proj2 (term_vars_bin o l r x) (or_intror Hx))) eq_refl v Hv)].
Qed.
Lemma p2f_named t iv g : term_named t -> p2f t iv = Some g -> gterm_named g.
Proof.
  intros Ht. unfold p2f. destruct (negb (is_term_regular_of_first_kind t)); [discriminate|].
  destruct t as [p|x|o a|o l r].
  - intros [= <-]. destruct p; intros v [].
  - destruct (memb string_dec x iv); intros [= <-] v [<-|[]]; cbn; apply Ht; left; reflexivity.
  - destruct (p2f_int_term (TUn o a)) as [it|] eqn:E; [|discriminate]. intros [= <-] v Hv.
    exact (p2f_int_term_named _ it Ht E v Hv).
  - destruct (p2f_int_term (TBin o l r)) as [it|] eqn:E; [|discriminate]. intros [= <-] v Hv.
    exact (p2f_int_term_named _ it Ht E v Hv).
Qed.

Lemma term_named_sub_l o l r : term_named (TBin o l r) -> term_named l.
Proof. intros H x Hx. apply H, term_vars_bin. auto. Qed.
Lemma term_named_sub_r o l r : term_named (TBin o l r) -> term_named r.
Proof. intros H x Hx. apply H, term_vars_bin. auto. Qed.

(* ---------- body ---------- *)
Lemma natural_comparison_pi c iv f : term_named (clhs c) -> term_named (crhs c) ->
  natural_comparison c iv = Some f -> parser_image f /\ vars_named f.
Proof.
  intros Hl Hr. unfold natural_comparison.
  destruct (p2f (clhs c) iv) as [lhs|] eqn:El; [|discriminate].
  pose proof (p2f_named _ _ _ Hl El) as Nl.
  destruct ((match arel_to_rel (crel c) with REq => true | _ => false end) && is_term_regular_of_second_kind (crhs c)).
  - destruct (crhs c) as [p|x|o a|o t2 t3] eqn:Ec; try discriminate.
    destruct (p2f t2 iv) as [t2'|] eqn:E2; [|discriminate]. destruct (p2f t3 iv) as [t3'|] eqn:E3; [|discriminate].
    intros [= <-]. split; [apply pi_cmp; discriminate|].
    apply vars_named_cmp; [exact (p2f_named _ _ _ (term_named_sub_l _ _ _ Hr) E2)|].
    intros g [<-|[<-|[]]]; cbn; [exact Nl|exact (p2f_named _ _ _ (term_named_sub_r _ _ _ Hr) E3)].
  - destruct (p2f (crhs c) iv) as [rhs|] eqn:Er; [|discriminate]. intros [= <-].
    split; [apply pi_cmp; discriminate|].
    apply vars_named_cmp; [exact Nl|]. intros g [<-|[]]. cbn. exact (p2f_named _ _ _ Hr Er).
Qed.

Definition atom_named (a : atom) : Prop := forall t, In t (aterms a) -> term_named t.

Lemma collect_p2f_named ts iv gs : (forall t, In t ts -> term_named t) ->
  collect_options (fun t => p2f t iv) ts = Some gs -> forall g, In g gs -> gterm_named g.
Proof.
  intros Ht E g Hg. apply collect_options_forall2 in E.
  destruct (NaturalVocab.forall2_in_r _ _ _ E g Hg) as [t [Hin Hp]]. exact (p2f_named _ _ _ (Ht t Hin) Hp).
Qed.
Lemma natural_b_literal_pi l iv f : atom_named (latom l) -> natural_b_literal l iv = Some f ->
  parser_image f /\ vars_named f.
Proof.
  intros Ha. unfold natural_b_literal, natural_b_atom.
  destruct (collect_options (fun t => p2f t iv) (aterms (latom l))) as [ts|] eqn:E; [|discriminate].
  pose proof (collect_p2f_named _ _ _ Ha E) as Hts.
  intros [= <-]. destruct (lsign l).
  - split; [apply atom_pi|apply vars_named_atom, Hts].
  - split; [apply (proj2 (pi_not _)), atom_pi|apply (proj2 (vars_named_not _)), vars_named_atom, Hts].
  - split; [apply (proj2 (pi_not _)), (proj2 (pi_not _)), atom_pi
           |apply (proj2 (vars_named_not _)), (proj2 (vars_named_not _)), vars_named_atom, Hts].
Qed.

Definition bformula_named (b : bformula) : Prop :=
  match b with BLit l => atom_named (latom l) | BCmp c => term_named (clhs c) /\ term_named (crhs c) end.

Lemma natural_body_pi b iv f : (forall x, In x b -> bformula_named x) -> natural_body b iv = Some f ->
  parser_image f /\ vars_named f.
Proof.
  intros Hb. unfold natural_body.
  destruct (collect_options _ b) as [fs|] eqn:E; [|discriminate]. intros [= <-].
  apply collect_options_forall2 in E.
  assert (Hall : forall g, In g fs -> parser_image g /\ vars_named g).
  { intros g Hg. destruct (NaturalVocab.forall2_in_r _ _ _ E g Hg) as [x [Hx Hxg]]. specialize (Hb x Hx).
    destruct x as [l|c]; [exact (natural_b_literal_pi l iv g Hb Hxg)|].
    destruct Hb as [H1 H2]. exact (natural_comparison_pi c iv g H1 H2 Hxg). }
  split; [apply pi_conjoin|apply vars_named_conjoin]; intros g Hg; apply (Hall g Hg).
Qed.

(* ---------- head ---------- *)
Lemma fresh_var_at_nonempty taken i v : fresh_var_at taken i = Some v -> v <> "".
Proof.
  unfold fresh_var_at. destruct (negb (memb string_dec _ taken)); [intros [= <-]; discriminate|].
  destruct (find_fresh_by _ _ _ 0%N) as [[c k]|] eqn:E; [|discriminate]. cbn. intros [= <-].
  apply find_fresh_by_sound in E. destruct E as [_ [-> _]]. discriminate.
Qed.
Lemma fresh_variables_from_nonempty taken : forall ts i fr, fresh_variables_from taken i ts = Some fr ->
  forall v, In v fr -> v <> "".
Proof.
  induction ts as [|t ts IH]; intros i fr; cbn [fresh_variables_from]; [intros [= <-] v []|].
  destruct (negb (is_term_regular_of_first_kind t)); [|apply IH].
  destruct (fresh_var_at taken i) as [v0|] eqn:Ev; [|discriminate].
  destruct (fresh_variables_from taken (S i) ts) as [rest|] eqn:Er; cbn [option_map]; [|discriminate].
  intros [= <-] v [<-|Hv]; [exact (fresh_var_at_nonempty _ _ _ Ev)|exact (IH _ _ Er v Hv)].
Qed.

Lemma natural_head_atom_terms_named ts iv : forall fv gs, (forall t, In t ts -> term_named t) ->
  (forall v, In v fv -> v <> "") ->
  natural_head_atom_terms ts iv fv = NOk gs -> forall g, In g gs -> gterm_named g.
Proof.
  induction ts as [|t ts IH]; intros fv gs Ht Hfv; cbn [natural_head_atom_terms]; [intros [= <-] g []|].
  assert (Ht' : forall t0, In t0 ts -> term_named t0) by (intros t0 H0; apply Ht; right; exact H0).
  destruct (is_term_regular_of_first_kind t).
  - destruct (p2f t iv) as [g0|] eqn:Ep; cbn [of_option nbind]; [|discriminate].
    destruct (natural_head_atom_terms ts iv fv) as [gs'| |] eqn:Er; cbn [nbind]; try discriminate.
    intros [= <-] g [<-|Hg]; [exact (p2f_named _ _ _ (Ht t (or_introl eq_refl)) Ep)|exact (IH fv gs' Ht' Hfv Er g Hg)].
  - destruct (is_term_regular_of_second_kind t); [|discriminate].
    destruct fv as [|fresh_var fresh_rest]; [discriminate|].
    destruct (natural_head_atom_terms ts iv fresh_rest) as [gs'| |] eqn:Er; cbn [nbind]; try discriminate.
    intros [= <-] g [<-|Hg].
    + intros v [<-|[]]. cbn. apply Hfv. left. reflexivity.
    + exact (IH fresh_rest gs' Ht' (fun v Hv => Hfv v (or_intror Hv)) Er g Hg).
Qed.

Lemma natural_head_interval_formulas_pi ts iv : forall fv fs, (forall t, In t ts -> term_named t) ->
  (forall v, In v fv -> v <> "") ->
  natural_head_interval_formulas ts iv fv = NOk fs -> forall f, In f fs -> parser_image f /\ vars_named f.
Proof.
  induction ts as [|t ts IH]; intros fv fs Ht Hfv; cbn [natural_head_interval_formulas]; [intros [= <-] f []|].
  assert (Ht' : forall t0, In t0 ts -> term_named t0) by (intros t0 H0; apply Ht; right; exact H0).
  destruct (is_term_regular_of_second_kind t); [|exact (IH fv fs Ht' Hfv)].
  pose proof (Ht t (or_introl eq_refl)) as Htn.
  destruct t as [p|x|o a|o t1 t2]; try discriminate.
  destruct fv as [|fresh_var fresh_rest]; [discriminate|].
  destruct (p2f t1 iv) as [t1'|] eqn:E1; cbn [unwrap nbind]; [|discriminate].
  destruct (p2f t2 iv) as [t2'|] eqn:E2; cbn [unwrap nbind]; [|discriminate].
  destruct (natural_head_interval_formulas ts iv fresh_rest) as [fs'| |] eqn:Er; cbn [nbind]; try discriminate.
  intros [= <-] f [<-|Hf].
  - split; [apply pi_cmp; discriminate|].
    apply vars_named_cmp; [exact (p2f_named _ _ _ (term_named_sub_l _ _ _ Htn) E1)|].
    intros g [<-|[<-|[]]]; cbn.
    + intros v [<-|[]]. cbn. apply Hfv. left. reflexivity.
    + exact (p2f_named _ _ _ (term_named_sub_r _ _ _ Htn) E2).
  - exact (IH fresh_rest fs' Ht' (fun v Hv => Hfv v (or_intror Hv)) Er f Hf).
Qed.

Lemma int_binders_named fv : (forall v, In v fv -> v <> "") -> names_nonempty (int_binders fv).
Proof. intros H w Hw. unfold int_binders in Hw. apply in_map_iff in Hw. destruct Hw as [x [<- Hx]]. cbn. apply H, Hx. Qed.

Lemma natural_head_shape_pi a iv (wrap : formula -> formula) f :
  atom_named a ->
  (forall h, parser_image h -> vars_named h -> parser_image (wrap h) /\ vars_named (wrap h)) ->
  nbind (unwrap (fresh_variables_for_head_atom a))
    (fun fresh_vars =>
       nbind (natural_head_atom a iv fresh_vars)
         (fun head_atom =>
            match fresh_vars with
            | [] => NOk (wrap head_atom)
            | _ => nbind (natural_head_interval a iv fresh_vars)
                     (fun conditions => NOk (FQ QForall (int_binders fresh_vars) (FBin CImp conditions (wrap head_atom))))
            end)) = NOk f ->
  parser_image f /\ vars_named f.
Proof.
  intros Ha Hwrap. unfold fresh_variables_for_head_atom.
  destruct (fresh_variables_from (atom_vars a) 0 (aterms a)) as [fv|] eqn:Ef; cbn [unwrap nbind]; [|discriminate].
  pose proof (fresh_variables_from_nonempty _ _ _ _ Ef) as Hfv.
  unfold natural_head_atom.
  destruct (natural_head_atom_terms (aterms a) iv fv) as [terms| |] eqn:Et; cbn [nbind]; try discriminate.
  pose proof (natural_head_atom_terms_named _ _ _ _ Ha Hfv Et) as Hterms.
  destruct (Hwrap (FAtomic (AAtom (apred a) terms)) (atom_pi _ _) (vars_named_atom _ _ Hterms)) as [Hp Hv].
  destruct fv as [|v0 fv'].
  - intros [= <-]. split; assumption.
  - unfold natural_head_interval.
    destruct (natural_head_interval_formulas (aterms a) iv (v0 :: fv')) as [fs| |] eqn:Ei; cbn [nbind]; try discriminate.
    pose proof (natural_head_interval_formulas_pi _ _ _ _ Ha Hfv Ei) as Hfs.
    intros [= <-]. split.
    + apply pi_q. split; [exact (int_binders_named (v0 :: fv') Hfv)|]. apply pi_bin. split; [|exact Hp].
      apply pi_conjoin. intros x Hx. apply (Hfs x Hx).
    + apply vars_named_q, vars_named_bin. split; [|exact Hv].
      apply vars_named_conjoin. intros x Hx. apply (Hfs x Hx).
Qed.

Lemma natural_head_pi h iv f : (forall a, head_atom h = Some a -> atom_named a) ->
  natural_head h iv = NOk f -> parser_image f /\ vars_named f.
Proof.
  intros Hh. destruct h as [a|a|]; cbn [natural_head].
  - unfold natural_basic_head. apply (natural_head_shape_pi a iv (fun x => x)); [apply Hh; reflexivity|auto].
  - unfold natural_choice_head. apply (natural_head_shape_pi a iv (fun x => FBin COr x (FNot x))); [apply Hh; reflexivity|].
    intros x Hp Hv. split; [apply pi_bin; split; [exact Hp|apply pi_not, Hp]
                           |apply vars_named_bin; split; [exact Hv|apply vars_named_not, Hv]].
  - intros [= <-]. split; [apply pi_false|apply vars_named_plain; reflexivity].
Qed.

(* ---------- the rule ---------- *)
Lemma in_rule_vars_head r x : In x (head_vars (rhead r)) -> In x (rule_vars r).
Proof. intros H. unfold rule_vars. apply (in_iset_extend string_dec). auto. Qed.
Lemma in_rule_vars_body r b x : In b (rbody r) -> In x (bformula_vars b) -> In x (rule_vars r).
Proof.
  intros Hb Hx. unfold rule_vars. apply (in_iset_extend string_dec). right.
  unfold body_vars. apply NatTerms.in_extend_all. right. eauto.
Qed.

Theorem natural_rule_pi r f : rule_vars_named r -> natural_rule r = NOk f -> parser_image f.
Proof.
  intros Hr. unfold natural_rule.
  destruct (natural_head (rhead r) (int_variables r)) as [head| |] eqn:Eh; cbn [nbind]; try discriminate.
  destruct (natural_body (rbody r) (int_variables r)) as [body|] eqn:Eb; cbn [of_option nbind]; [|discriminate].
  intros [= <-].
  assert (Hhead : forall a, head_atom (rhead r) = Some a -> atom_named a).
  { intros a Ha t Ht x Hx. apply Hr, in_rule_vars_head.
    destruct (rhead r) as [a'|a'|]; cbn in Ha; try discriminate; injection Ha as ->; cbn [head_vars];
      apply in_atom_vars; eauto. }
  assert (Hbody : forall b, In b (rbody r) -> bformula_named b).
  { intros b Hb. destruct b as [l|c]; cbn [bformula_named].
    - intros t Ht x Hx. apply Hr. apply (in_rule_vars_body r (BLit l) x Hb). cbn [bformula_vars]. apply in_atom_vars. eauto.
    - split; intros x Hx; apply Hr; apply (in_rule_vars_body r (BCmp c) x Hb); cbn [bformula_vars]; unfold cmp_vars;
        apply (in_iset_extend string_dec); auto. }
  destruct (natural_head_pi _ _ _ Hhead Eh) as [Hph Hvh].
  destruct (natural_body_pi _ _ _ Hbody Eb) as [Hpb Hvb].
  unfold universal_closure. apply pi_quantify; [|apply pi_bin; auto].
  intros v Hv. apply fv_sub_variables in Hv.
  assert (Hn : vars_named (FBin CImp body head)) by (apply vars_named_bin; auto). exact (Hn v Hv).
Qed.

(* ---------- mu ---------- *)
Theorem mu_full_pi P G : program_vars_named P -> mu_full P = Some G -> theory_pi G.
Proof.
  intros HP. unfold mu_full, choose_fresh_global_variables.
  destruct (globals_loop (max_taken_var P) 1 (max_head_arity P)) as [globals|] eqn:Eg; [|discriminate].
  pose proof (globals_loop_names _ _ _ _ Eg) as Hg. clear Eg.
  revert G. induction P as [|r P IH]; intros G; cbn [mu_full_rules]; [intros [= <-] f []|].
  assert (HP' : program_vars_named P) by (intros r' Hr'; apply HP; right; exact Hr').
  pose proof (HP r (or_introl eq_refl)) as Hr.
  destruct (natural_rule r) as [f0| |] eqn:En.
  - destruct (mu_full_rules P globals) as [rest|] eqn:Er; cbn [option_map]; [|discriminate].
    intros [= <-] f [<-|Hf]; [exact (natural_rule_pi r f0 Hr En)|exact (IH HP' rest eq_refl f Hf)].
  - destruct (tau_star_rule r globals) as [f0|] eqn:Et; [|discriminate].
    destruct (mu_full_rules P globals) as [rest|] eqn:Er; cbn [option_map]; [|discriminate].
    intros [= <-] f [<-|Hf]; [exact (tau_star_rule_pi r globals f0 Hr Hg Et)|exact (IH HP' rest eq_refl f Hf)].
  - discriminate.
Qed.
