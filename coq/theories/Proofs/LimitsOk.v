(* Proofs about Model/Limits.v: each Panic happens exactly on its known class (C16). *)
From Coq Require Import List Ascii String ZArith NArith Bool Lia.
From Anthem Require Import Base.Fresh Model.Limits.
Open Scope string_scope.

(* F3a: a numeral token panics iff its value is outside isize *)
Theorem parse_isize_nonneg ds n : unsigned_shape ds = true -> digits ds = Some n -> (forall r, ds <> String "-" r) ->
  parse_isize ds = if (Z.of_N n <=? isize_max)%Z then Value (Z.of_N n) else Panic.
Proof.
  intros S H Hm. unfold parse_isize. destruct ds as [|c r]; [discriminate|].
  destruct (Ascii.eqb_spec c "-"%char) as [->|N].
  - destruct (Hm r eq_refl).
  - destruct c as [[] [] [] [] [] [] [] []]; try (rewrite S, H; reflexivity). destruct N; reflexivity.
Qed.
Theorem parse_isize_neg ds n : nonzero_led ds = true -> digits ds = Some n ->
  parse_isize (String "-" ds) = if (isize_min <=? - Z.of_N n)%Z then Value (- Z.of_N n)%Z else Panic.
Proof. intros S H. cbn. rewrite S, H. reflexivity. Qed.

Theorem parse_isize_panic_iff_neg ds n : nonzero_led ds = true -> digits ds = Some n ->
  (parse_isize (String "-" ds) = Panic <-> (- Z.of_N n < isize_min)%Z).
Proof.
  intros S H. rewrite (parse_isize_neg _ _ S H). destruct (Z.leb_spec isize_min (- Z.of_N n)); split; intros; try discriminate; try lia; reflexivity.
Qed.
Theorem parse_isize_panic_iff_nonneg ds n : unsigned_shape ds = true -> digits ds = Some n -> (forall r, ds <> String "-" r) ->
  (parse_isize ds = Panic <-> (isize_max < Z.of_N n)%Z).
Proof.
  intros S H Hm. rewrite (parse_isize_nonneg _ _ S H Hm). destruct (Z.leb_spec (Z.of_N n) isize_max); split; intros; try discriminate; try lia; reflexivity.
Qed.
Theorem parse_usize_panic_iff ds n : unsigned_shape ds = true -> digits ds = Some n -> (parse_usize ds = Panic <-> (usize_max < n)%N).
Proof.
  intros S H. unfold parse_usize. rewrite S, H. destruct (N.leb_spec n usize_max); split; intros; try discriminate; try lia; reflexivity.
Qed.

(* F3b (repaired): the TPTP rendering of a numeral is total - it never panics, for isize::MIN in
   particular - and prints the magnitude |n| *)
Theorem tptp_numeral_total n :
  tptp_numeral n = Value (if (n <? 0)%Z then "$uminus(" ++ nat_str (Z.abs_N n) ++ ")" else nat_str (Z.abs_N n)).
Proof.
  unfold tptp_numeral. destruct (Z.ltb_spec n 0).
  - replace (Z.to_N (- n)) with (Z.abs_N n) by lia. reflexivity.
  - replace (Z.to_N n) with (Z.abs_N n) by lia. reflexivity.
Qed.
Theorem tptp_numeral_never_panics n : tptp_numeral n <> Panic.
Proof. rewrite tptp_numeral_total. discriminate. Qed.
Theorem tptp_numeral_never_not_a_token n : tptp_numeral n <> NotAToken.
Proof. rewrite tptp_numeral_total. discriminate. Qed.

(* F11: naming the i-th fresh global variable panics iff max_taken_var + i exceeds usize::MAX *)
Theorem fresh_global_panic_iff m i : fresh_global m i = Panic <-> (usize_max < m + i)%N.
Proof.
  unfold fresh_global. destruct (N.leb_spec (m + i) usize_max); split; intros; try discriminate; try lia; reflexivity.
Qed.
