(* Corollaries that make the tie of Model/Cli.v meaningful: what a successful run of the command
   line PRINTS is the rendering of an object the property theorems (C01, C07, C11, C14, C15, C18)
   speak about.  All proofs are unfoldings of [run_cli] followed by the existing theorems. *)
From Coq Require Import Lia List String ZArith Relations.
Import ListNotations.
From Anthem Require Import Syntax.Fol Syntax.Asp Sem.Domain Sem.Sat Sem.AspRef Model.Natural.
From Anthem Require Model.AspParse Model.AspPrint Model.FolLex Model.FolParse Model.FolPrint Model.FolClass
  Model.TauStar Model.Mu Model.CliMu Model.Gamma Model.Completion Model.Apply Model.SimplIntuit
  Model.SimplClassic Model.Strategy Model.StrategyCls Model.Tightness Model.Regularity.
From Anthem Require Import Model.Cli.
From Anthem Require Model.ClsTerm Proofs.FuelMono Proofs.ParserImage Proofs.ParserImagePipeline Proofs.FolImage.
From Anthem Require Proofs.StrategyClsOk Proofs.SimplFull Proofs.TightnessOk Proofs.RegularOk.
From Anthem Require Properties.C01 Properties.C07 Properties.C07full Properties.C11tight Properties.C11reg
  Properties.C14 Properties.C15 Properties.C15text Properties.C18.
Open Scope list_scope.
Open Scope string_scope.

(* ------------------------------------------------------------------ inversion of the glue *)
(* `X::from_file(..)?` followed by a continuation printed something: the file was parsed *)
Lemma program_bind_stdout s k out :
  bind (program_from_file s) k = Stdout out ->
  exists P, AspParse.parse_program_text s = AspParse.POk P /\ k P = Stdout out.
Proof.
  unfold program_from_file. destruct (AspParse.parse_program_text s) as [P| |]; cbn; intros E;
    try discriminate. exists P. auto.
Qed.

Lemma presult_bind_stdout {A} (r : FolParse.presult A) k out :
  bind (of_presult r) k = Stdout out -> exists t, r = FolParse.PR_ok t /\ k t = Stdout out.
Proof. destruct r as [t| | |]; cbn; intros E; try discriminate. exists t. auto. Qed.

Lemma theory_bind_stdout s k out :
  bind (theory_from_file s) k = Stdout out ->
  exists t, FolParse.parse_theory_str s = FolParse.PR_ok t /\ k t = Stdout out.
Proof. apply presult_bind_stdout. Qed.

Lemma print_theory_inj_stdout t out : print_theory t = Stdout out -> out = FolPrint.show_theory t.
Proof. unfold print_theory. intros [= <-]. reflexivity. Qed.

(* ------------------------------------------------------------------ translate --with tau-star *)
Theorem cli_translate_tau_star_sound s out :
  run_cli (Translate TauStar) s = Stdout out ->
  exists P G,
    AspParse.parse_program_text s = AspParse.POk P /\
    TauStar.tau_star P = Some G /\
    out = FolPrint.show_theory G /\
    (forall (FI : fint) (H T : pint), theory_hsat FI H T G <-> ref_sat H T P) /\
    (forall (FI : fint) (T Facts : pint), equilibrium FI T G Facts <-> stable T P Facts).
Proof.
  unfold run_cli; cbn [run_cli_fuel run_translate]. intros E.
  apply program_bind_stdout in E. destruct E as (P & EP & E).
  destruct (TauStar.tau_star P) as [G|] eqn:EG; [|discriminate].
  exists P, G. split; [exact EP|]. split; [exact EG|]. split; [|split].
  - apply print_theory_inj_stdout; exact E.
  - intros FI H T. apply (C01.C01_ht FI P G H T EG).
  - intros FI T Facts. apply (C01.C01_stable FI P G T Facts EG).
Qed.

(* ------------------------------------------------------------------ simplify *)
(* what "equivalent" means for each portfolio: HT-equivalence (all H subset-of T, all assignments)
   for intuitionistic and ht, classical equivalence for classic; always: no new free variable *)
Definition simplify_equiv (portfolio : simplification_portfolio) (F G : formula) : Prop :=
  match portfolio with
  | Classic => forall (FI : fint) (I : pint) (e : env), csat FI I e G <-> csat FI I e F
  | Ht | Intuitionistic =>
      forall (FI : fint) (H T : pint) (e : env), sub H T -> (hsat FI H T e G <-> hsat FI H T e F)
  end.
Definition simplify_rel (portfolio : simplification_portfolio) (F G : formula) : Prop :=
  simplify_equiv portfolio F G /\ incl (free_variables G) (free_variables F).

Lemma simplify_rel_meaning portfolio F G :
  simplify_rel portfolio F G <->
  (match portfolio with
   | Classic => forall (FI : fint) (I : pint) (e : env), csat FI I e G <-> csat FI I e F
   | Ht | Intuitionistic =>
       forall (FI : fint) (H T : pint) (e : env), sub H T -> (hsat FI H T e G <-> hsat FI H T e F)
   end) /\ incl (free_variables G) (free_variables F).
Proof. unfold simplify_rel, simplify_equiv. destruct portfolio; reflexivity. Qed.

Lemma lift_refines (l : list (formula -> formula)) : Forall2 StrategyClsOk.refines (map lift l) l.
Proof. induction l as [|r l IH]; cbn; constructor; auto. intros x y [= <-]. reflexivity. Qed.

Lemma portfolio_classic_opt_refines :
  Forall2 StrategyClsOk.refines portfolio_classic_opt (SimplIntuit.INTUITIONISTIC ++ SimplIntuit.HT ++ SimplClassic.CLASSIC).
Proof.
  unfold portfolio_classic_opt. apply Forall2_app; [apply lift_refines|].
  apply Forall2_app; [apply lift_refines|apply StrategyClsOk.CLASSIC_opt_refines].
Qed.

Lemma simplify_formula_sound fuel portfolio strategy F G :
  simplify_formula_fuel fuel portfolio strategy F = Got G -> simplify_rel portfolio F G.
Proof.
  unfold simplify_formula_fuel, simplify_rel, simplify_equiv. destruct portfolio.
  - (* classic *)
    destruct (StrategyCls.run_strategy_opt fuel portfolio_classic_opt (strategy_cls strategy) F)
      as [| |G'] eqn:E; try discriminate. intros [= <-].
    apply (StrategyClsOk.run_strategy_opt_refines _ _ _ _ _ _ portfolio_classic_opt_refines) in E.
    apply C07full.C07_full_classic_portfolio in E. exact E.
  - (* ht *)
    destruct (Strategy.run_strategy _ _ _ F) as [G'|] eqn:E; [|discriminate]. intros [= <-].
    change (portfolio_total Ht) with SimplIntuit.portfolio_ht in E.
    apply C07.C07_ht_portfolio in E. destruct E as (Hh & _ & Hf). split; assumption.
  - (* intuitionistic *)
    destruct (Strategy.run_strategy _ _ _ F) as [G'|] eqn:E; [|discriminate]. intros [= <-].
    change (portfolio_total Intuitionistic) with SimplIntuit.portfolio_intuitionistic in E.
    apply C07.C07_int_portfolio in E. destruct E as (Hh & _ & Hf). split; assumption.
Qed.

Lemma simplify_theory_sound fuel portfolio strategy t t' :
  simplify_theory_fuel fuel portfolio strategy t = Got t' -> Forall2 (simplify_rel portfolio) t t'.
Proof.
  revert t'. induction t as [|F t IH]; cbn [simplify_theory_fuel]; intros t'.
  - intros [= <-]. constructor.
  - destruct (simplify_formula_fuel fuel portfolio strategy F) as [G|] eqn:EF; [|discriminate].
    destruct (simplify_theory_fuel fuel portfolio strategy t) as [Gs|] eqn:ET; [|discriminate].
    intros [= <-]. constructor; [apply (simplify_formula_sound _ _ _ _ _ EF)|apply IH; reflexivity].
Qed.

Theorem cli_simplify_sound fuel portfolio strategy s out :
  run_cli_fuel fuel (Simplify portfolio strategy) s = Stdout out ->
  exists t t' : theory,
    FolParse.parse_theory_str s = FolParse.PR_ok t /\
    out = FolPrint.show_theory t' /\
    Forall2 (simplify_rel portfolio) t t'.
Proof.
  cbn [run_cli_fuel]. unfold run_simplify_fuel. intros E.
  apply theory_bind_stdout in E. destruct E as (t & Et & E).
  destruct (simplify_theory_fuel fuel portfolio strategy t) as [t'|r] eqn:ES; cbn [bind] in E.
  - exists t, t'. split; [exact Et|]. split.
    + apply print_theory_inj_stdout; exact E.
    + apply simplify_theory_sound with (fuel := fuel) (strategy := strategy); exact ES.
  - exfalso.
    assert (Hn : forall t r, simplify_theory_fuel fuel portfolio strategy t = Stop r -> r = Panic \/ r = OutOfFuel).
    { clear. induction t as [|F t IH]; cbn [simplify_theory_fuel]; intros r; [discriminate|].
      destruct (simplify_formula_fuel fuel portfolio strategy F) as [G|r0] eqn:EF.
      - destruct (simplify_theory_fuel fuel portfolio strategy t) as [Gs|r1]; [discriminate|].
        intros [= <-]. apply IH; reflexivity.
      - intros [= <-]. unfold simplify_formula_fuel in EF. destruct portfolio.
        + destruct (StrategyCls.run_strategy_opt _ _ _ F); inversion EF; auto.
        + destruct (Strategy.run_strategy _ _ _ F); inversion EF; auto.
        + destruct (Strategy.run_strategy _ _ _ F); inversion EF; auto. }
    destruct (Hn t r ES) as [Hr|Hr]; rewrite Hr in E; discriminate E.
Qed.

(* the fuel given to the fixpoint loop is enough for the intuitionistic and ht portfolios: the
   model never gives up there (C18) *)
Lemma simplify_formula_int_total fuel strategy F : exists G, simplify_formula_fuel fuel Intuitionistic strategy F = Got G.
Proof.
  unfold simplify_formula_fuel.
  destruct (C18.C18_simplify_int_total (strategy_int strategy) F) as [G E].
  unfold SimplIntuit.simplify_int in E.
  change (portfolio_total Intuitionistic) with SimplIntuit.portfolio_intuitionistic. rewrite E. eauto.
Qed.
Lemma simplify_formula_ht_total fuel strategy F : exists G, simplify_formula_fuel fuel Ht strategy F = Got G.
Proof.
  unfold simplify_formula_fuel.
  destruct (C18.C18_simplify_ht_total (strategy_int strategy) F) as [G E].
  unfold SimplIntuit.simplify_ht in E.
  change (portfolio_total Ht) with SimplIntuit.portfolio_ht. rewrite E. eauto.
Qed.

Lemma simplify_theory_total fuel portfolio strategy :
  (forall F, exists G, simplify_formula_fuel fuel portfolio strategy F = Got G) ->
  forall t, exists t', simplify_theory_fuel fuel portfolio strategy t = Got t'.
Proof.
  intros Hf. induction t as [|F t [t' IH]]; cbn [simplify_theory_fuel]; [eauto|].
  destruct (Hf F) as [G ->]. rewrite IH. eauto.
Qed.

Theorem cli_simplify_int_ht_terminates fuel portfolio strategy s :
  portfolio <> Classic ->
  match run_cli_fuel fuel (Simplify portfolio strategy) s with
  | Stdout _ => exists t, FolParse.parse_theory_str s = FolParse.PR_ok t
  | Error => FolParse.parse_theory_str s = FolParse.PR_err
  | Panic => FolParse.parse_theory_str s = FolParse.PR_panic
  | OutOfFuel => FolParse.parse_theory_str s = FolParse.PR_oof
  end.
Proof.
  intros Hp. cbn [run_cli_fuel]. unfold run_simplify_fuel, theory_from_file.
  destruct (FolParse.parse_theory_str s) as [t| | |] eqn:Et; cbn [of_presult bind]; auto.
  assert (Ht : exists t', simplify_theory_fuel fuel portfolio strategy t = Got t').
  { apply simplify_theory_total. destruct portfolio; [congruence| |]; intros F.
    - apply simplify_formula_ht_total.
    - apply simplify_formula_int_total. }
  destruct Ht as [t' ->]. cbn. eauto.
Qed.

(* ------------------------------------------------------------------ simplify: the fuel (audit A8) *)
(* C18_term_cls composed into the glue: the fuel of the classic loop is a parameter of
   [run_cli_fuel]; a Stdout / Error / Panic answer is stable under more fuel, and from the bound
   [theory_fuel t] of the parsed theory on, OutOfFuel cannot come from the simplifier. *)
Lemma cli_portfolio_classic_opt_refines :
  Forall2 StrategyClsOk.refines portfolio_classic_opt ClsTerm.portfolio_classic.
Proof. exact portfolio_classic_opt_refines. Qed.

Lemma simplify_formula_fuel_mono n portfolio strategy F r :
  simplify_formula_fuel n portfolio strategy F = r -> r <> Stop OutOfFuel ->
  forall m, n <= m -> simplify_formula_fuel m portfolio strategy F = r.
Proof.
  unfold simplify_formula_fuel. destruct portfolio; [|auto|auto].
  intros E Hr m Hle.
  destruct (StrategyCls.run_strategy_opt n portfolio_classic_opt (strategy_cls strategy) F) as [| |G] eqn:En.
  - rewrite (FuelMono.run_strategy_opt_more _ _ _ _ _ En ltac:(discriminate) m Hle). exact E.
  - congruence.
  - rewrite (FuelMono.run_strategy_opt_more _ _ _ _ _ En ltac:(discriminate) m Hle). exact E.
Qed.

Lemma simplify_formula_fuel_terminates m portfolio strategy F :
  ClsTerm.classic_fuel F <= m -> simplify_formula_fuel m portfolio strategy F <> Stop OutOfFuel.
Proof.
  intros Hle. destruct portfolio.
  - unfold simplify_formula_fuel.
    pose proof (FuelMono.run_classic_opt_never_nonterminating _ cli_portfolio_classic_opt_refines
                  (strategy_cls strategy) F m Hle) as H.
    destruct (StrategyCls.run_strategy_opt m portfolio_classic_opt (strategy_cls strategy) F); congruence.
  - destruct (simplify_formula_ht_total m strategy F) as [G ->]. discriminate.
  - destruct (simplify_formula_int_total m strategy F) as [G ->]. discriminate.
Qed.

Lemma simplify_theory_fuel_mono n portfolio strategy t r :
  simplify_theory_fuel n portfolio strategy t = r -> r <> Stop OutOfFuel ->
  forall m, n <= m -> simplify_theory_fuel m portfolio strategy t = r.
Proof.
  intros E Hr m Hle. revert r E Hr. induction t as [|F t IH]; cbn [simplify_theory_fuel]; intros r; [auto|].
  destruct (simplify_formula_fuel n portfolio strategy F) as [G|r0] eqn:EF.
  - rewrite (simplify_formula_fuel_mono n _ _ F _ EF ltac:(discriminate) m Hle).
    destruct (simplify_theory_fuel n portfolio strategy t) as [Gs|r1] eqn:ET.
    + rewrite (IH _ eq_refl ltac:(discriminate)). auto.
    + intros <- Hr. rewrite (IH _ eq_refl ltac:(congruence)). reflexivity.
  - intros <- Hr. rewrite (simplify_formula_fuel_mono n _ _ F _ EF ltac:(congruence) m Hle). reflexivity.
Qed.

Lemma simplify_theory_fuel_terminates m portfolio strategy t :
  FuelMono.theory_fuel t <= m -> simplify_theory_fuel m portfolio strategy t <> Stop OutOfFuel.
Proof.
  induction t as [|F t IH]; cbn [simplify_theory_fuel FuelMono.theory_fuel]; [discriminate|]. intros Hle.
  pose proof (simplify_formula_fuel_terminates m portfolio strategy F ltac:(lia)) as HF.
  destruct (simplify_formula_fuel m portfolio strategy F) as [G|r0]; [|congruence].
  specialize (IH ltac:(lia)).
  destruct (simplify_theory_fuel m portfolio strategy t) as [Gs|r1]; [discriminate|congruence].
Qed.

Lemma bind_stop_oof {A} (x : step A) k : (forall a, x = Got a -> k a <> OutOfFuel) -> x <> Stop OutOfFuel ->
  bind x k <> OutOfFuel.
Proof. destruct x as [a|r]; cbn [bind]; [intros H _; apply H; reflexivity|intros _ H E; apply H; congruence]. Qed.

Theorem run_cli_fuel_mono n c s r :
  run_cli_fuel n c s = r -> r <> OutOfFuel -> forall m, n <= m -> run_cli_fuel m c s = r.
Proof.
  destruct c as [pr|as_|portfolio strategy|with_]; cbn [run_cli_fuel]; [auto|auto| |auto].
  unfold run_simplify_fuel. intros E Hr m Hle.
  destruct (theory_from_file s) as [t|r0]; cbn [bind] in *; [|exact E].
  destruct (simplify_theory_fuel n portfolio strategy t) as [t'|r1] eqn:ES; cbn [bind] in E.
  - rewrite (simplify_theory_fuel_mono n _ _ t _ ES ltac:(discriminate) m Hle). exact E.
  - rewrite (simplify_theory_fuel_mono n _ _ t (Stop r1) ES ltac:(congruence) m Hle). exact E.
Qed.

(* the bound: the maximum of ClsTerm.classic_fuel over the formulas of the parsed theory *)
Definition cli_fuel_bound (s : string) : nat :=
  match FolParse.parse_theory_str s with FolParse.PR_ok t => FuelMono.theory_fuel t | _ => 0 end.

Lemma print_theory_not_oof t : print_theory t <> OutOfFuel.
Proof. discriminate. Qed.

Theorem cli_simplify_out_of_fuel_only_parser m portfolio strategy s :
  cli_fuel_bound s <= m ->
  run_cli_fuel m (Simplify portfolio strategy) s = OutOfFuel ->
  FolParse.parse_theory_str s = FolParse.PR_oof.
Proof.
  unfold cli_fuel_bound. cbn [run_cli_fuel]. unfold run_simplify_fuel, theory_from_file.
  destruct (FolParse.parse_theory_str s) as [t| | |]; cbn [of_presult bind]; try discriminate; [|reflexivity].
  intros Hle E. exfalso.
  pose proof (simplify_theory_fuel_terminates m portfolio strategy t Hle) as H.
  destruct (simplify_theory_fuel m portfolio strategy t) as [t'|r]; cbn [bind] in E; [discriminate|congruence].
Qed.

Theorem cli_eventual_result c s :
  exists n, forall m, n <= m -> run_cli_fuel m c s = run_cli_fuel n c s.
Proof.
  destruct c as [pr|as_|portfolio strategy|with_]; try (exists 0; reflexivity).
  exists (cli_fuel_bound s). intros m Hle.
  destruct (run_cli_fuel (cli_fuel_bound s) (Simplify portfolio strategy) s) as [out| | |] eqn:E.
  - apply (run_cli_fuel_mono _ _ _ _ E); [discriminate|exact Hle].
  - apply (run_cli_fuel_mono _ _ _ _ E); [discriminate|exact Hle].
  - apply (run_cli_fuel_mono _ _ _ _ E); [discriminate|exact Hle].
  - pose proof (cli_simplify_out_of_fuel_only_parser _ _ _ _ (le_n _) E) as Hp.
    cbn [run_cli_fuel]. unfold run_simplify_fuel, theory_from_file. rewrite Hp. reflexivity.
Qed.

(* ------------------------------------------------------------------ simplify: no panic (audit A8 b) *)
(* the classic rewrites panic only outside the parser image; what `simplify` hands them IS the
   parser's output, so a panic of `anthem simplify` can only be the parser's own (F3a) *)
Lemma cli_portfolio_classic_opt_safe : Forall2 ParserImage.safe portfolio_classic_opt ClsTerm.portfolio_classic.
Proof.
  unfold portfolio_classic_opt, ClsTerm.portfolio_classic.
  apply Forall2_app; [apply ParserImage.lift_safe; [reflexivity|exact ParserImage.INTUITIONISTIC_pi]|].
  apply Forall2_app; [apply ParserImage.lift_safe; [reflexivity|constructor]|exact ParserImage.CLASSIC_opt_safe].
Qed.

Lemma simplify_formula_fuel_no_panic fuel portfolio strategy F :
  ParserImage.parser_image F -> simplify_formula_fuel fuel portfolio strategy F <> Stop Panic.
Proof.
  intros HF. destruct portfolio.
  - unfold simplify_formula_fuel.
    pose proof (ParserImage.run_strategy_opt_no_panic fuel _ _ (strategy_cls strategy) F
                  cli_portfolio_classic_opt_safe HF) as H.
    destruct (StrategyCls.run_strategy_opt fuel portfolio_classic_opt (strategy_cls strategy) F); congruence.
  - destruct (simplify_formula_ht_total fuel strategy F) as [G ->]. discriminate.
  - destruct (simplify_formula_int_total fuel strategy F) as [G ->]. discriminate.
Qed.
Lemma simplify_theory_fuel_no_panic fuel portfolio strategy t :
  (forall F, In F t -> ParserImage.parser_image F) -> simplify_theory_fuel fuel portfolio strategy t <> Stop Panic.
Proof.
  induction t as [|F t IH]; cbn [simplify_theory_fuel]; intros H; [discriminate|].
  pose proof (simplify_formula_fuel_no_panic fuel portfolio strategy F (H F (or_introl eq_refl))) as HF.
  destruct (simplify_formula_fuel fuel portfolio strategy F) as [G|r0]; [|congruence].
  specialize (IH (fun x Hx => H x (or_intror Hx))).
  destruct (simplify_theory_fuel fuel portfolio strategy t) as [Gs|r1]; [discriminate|congruence].
Qed.

Theorem cli_simplify_panic_only_parser fuel portfolio strategy s :
  run_cli_fuel fuel (Simplify portfolio strategy) s = Panic ->
  FolParse.parse_theory_str s = FolParse.PR_panic.
Proof.
  cbn [run_cli_fuel]. unfold run_simplify_fuel, theory_from_file.
  destruct (FolParse.parse_theory_str s) as [t| | |] eqn:Et; cbn [of_presult bind]; try discriminate; [|reflexivity].
  intros E. exfalso.
  pose proof (simplify_theory_fuel_no_panic fuel portfolio strategy t
                (ParserImagePipeline.wf_theory_pi t (FolImage.image_theory_str s t Et))) as H.
  destruct (simplify_theory_fuel fuel portfolio strategy t) as [t'|r]; cbn [bind] in E; [discriminate|congruence].
Qed.

(* all three portfolios, every fuel from the bound on: the outcome of `simplify` is decided by the
   parser alone (the classic-portfolio counterpart of cli_simplify_int_ht_terminates) *)
Theorem cli_simplify_decided_by_parser m portfolio strategy s : cli_fuel_bound s <= m ->
  match run_cli_fuel m (Simplify portfolio strategy) s with
  | Stdout _ => exists t, FolParse.parse_theory_str s = FolParse.PR_ok t
  | Error => FolParse.parse_theory_str s = FolParse.PR_err
  | Panic => FolParse.parse_theory_str s = FolParse.PR_panic
  | OutOfFuel => FolParse.parse_theory_str s = FolParse.PR_oof
  end.
Proof.
  intros Hm. destruct (run_cli_fuel m (Simplify portfolio strategy) s) as [out| | |] eqn:E.
  - destruct (cli_simplify_sound m portfolio strategy s out E) as [t [_ [Et _]]]. eauto.
  - revert E. cbn [run_cli_fuel]. unfold run_simplify_fuel, theory_from_file.
    destruct (FolParse.parse_theory_str s) as [t| | |]; cbn [of_presult bind]; try discriminate; [|reflexivity].
    intros E. exfalso.
    assert (Hn : forall t r, simplify_theory_fuel m portfolio strategy t = Stop r -> r = Panic \/ r = OutOfFuel).
    { clear. induction t as [|F t IH]; cbn [simplify_theory_fuel]; intros r; [discriminate|].
      destruct (simplify_formula_fuel m portfolio strategy F) as [G|r0] eqn:EF.
      - destruct (simplify_theory_fuel m portfolio strategy t) as [Gs|r1]; [discriminate|].
        intros [= <-]. apply IH; reflexivity.
      - intros [= <-]. unfold simplify_formula_fuel in EF. destruct portfolio.
        + destruct (StrategyCls.run_strategy_opt _ _ _ F); inversion EF; auto.
        + destruct (Strategy.run_strategy _ _ _ F); inversion EF; auto.
        + destruct (Strategy.run_strategy _ _ _ F); inversion EF; auto. }
    destruct (simplify_theory_fuel m portfolio strategy t) as [t'|r] eqn:ES; cbn [bind] in E; [discriminate|].
    destruct (Hn t r ES) as [Hr|Hr]; rewrite Hr in E; discriminate E.
  - exact (cli_simplify_panic_only_parser m portfolio strategy s E).
  - exact (cli_simplify_out_of_fuel_only_parser m portfolio strategy s Hm E).
Qed.

(* ------------------------------------------------------------------ parse --as program *)
Theorem cli_parse_print_roundtrip s out :
  run_cli (Parse Program) s = Stdout out ->
  exists P,
    AspParse.parse_program_text s = AspParse.POk P /\
    out = AspPrint.display_program P /\
    (~ C14.KeywordIdent P ->
       AspParse.parse_program_text out = AspParse.POk P /\ run_cli (Parse Program) out = Stdout out).
Proof.
  unfold run_cli; cbn [run_cli_fuel run_parse]. intros E.
  apply program_bind_stdout in E. destruct E as (P & EP & E).
  unfold print_program in E. injection E as <-.
  exists P. split; [exact EP|]. split; [reflexivity|]. intros Hk. split.
  - apply (C14.C14_accepted_text s P EP Hk).
  - unfold program_from_file. destruct (C14.C14_accepted_text s P EP Hk) as [-> _]. reflexivity.
Qed.

(* parse --as theory | specification | user-guide: text-level round trip (C15 + the lexical step of
   Properties/C15text.v: the model lexer reads the printed bytes back as the printed tokens).
   known_class_* = F7b, C15-RIMP. *)
Theorem cli_parse_theory_roundtrip s out :
  run_cli (Parse Theory) s = Stdout out ->
  exists t,
    FolParse.parse_theory_str s = FolParse.PR_ok t /\
    out = FolPrint.show_theory t /\
    (FolClass.known_class_theory t = None ->
     FolParse.parse_theory_str out = FolParse.PR_ok t /\ run_cli (Parse Theory) out = Stdout out).
Proof.
  unfold run_cli; cbn [run_cli_fuel run_parse]. intros E.
  apply theory_bind_stdout in E. destruct E as (t & Et & E).
  apply print_theory_inj_stdout in E. subst out.
  exists t. split; [exact Et|]. split; [reflexivity|]. intros Hk.
  destruct (C15text.C15_accepted_text_theory s t Et Hk) as [H _]. split; [exact H|].
  unfold theory_from_file. rewrite H. reflexivity.
Qed.

Theorem cli_parse_specification_roundtrip s out :
  run_cli (Parse Specification) s = Stdout out ->
  exists t,
    FolParse.parse_spec_str s = FolParse.PR_ok t /\
    out = FolPrint.show_spec t /\
    (FolClass.known_class_spec t = None ->
     FolParse.parse_spec_str out = FolParse.PR_ok t /\ run_cli (Parse Specification) out = Stdout out).
Proof.
  unfold run_cli; cbn [run_cli_fuel run_parse]. intros E. unfold specification_from_file in E.
  apply presult_bind_stdout in E. destruct E as (t & Et & E).
  unfold print_specification in E. injection E as <-.
  exists t. split; [exact Et|]. split; [reflexivity|]. intros Hk.
  destruct (C15text.C15_accepted_text_specification s t Et Hk) as [H _]. split; [exact H|].
  unfold specification_from_file. rewrite H. reflexivity.
Qed.

Theorem cli_parse_user_guide_roundtrip s out :
  run_cli (Parse UserGuide) s = Stdout out ->
  exists t,
    FolParse.parse_ug_str s = FolParse.PR_ok t /\
    out = FolPrint.show_ug t /\
    (FolClass.known_class_ug t = None ->
     FolParse.parse_ug_str out = FolParse.PR_ok t /\ run_cli (Parse UserGuide) out = Stdout out).
Proof.
  unfold run_cli; cbn [run_cli_fuel run_parse]. intros E. unfold user_guide_from_file in E.
  apply presult_bind_stdout in E. destruct E as (t & Et & E).
  unfold print_user_guide in E. injection E as <-.
  exists t. split; [exact Et|]. split; [reflexivity|]. intros Hk.
  destruct (C15text.C15_accepted_text_user_guide s t Et Hk) as [H _]. split; [exact H|].
  unfold user_guide_from_file. rewrite H. reflexivity.
Qed.

(* ------------------------------------------------------------------ analyze *)
Theorem cli_analyze_tight_exact s out :
  run_cli (Analyze Tightness) s = Stdout out ->
  exists (P : program) (b : bool),
    AspParse.parse_program_text s = AspParse.POk P /\
    out = bool_str b ++ nl /\
    (b = true <-> ~ exists p, clos_trans pred (TightnessOk.pos_dep P) p p).
Proof.
  unfold run_cli; cbn [run_cli_fuel run_analyze]. intros E.
  apply program_bind_stdout in E. destruct E as (P & EP & E).
  unfold println_bool in E. injection E as <-.
  exists P, (Tightness.is_tight P). split; [exact EP|]. split; [reflexivity|]. apply C11tight.C11_tight.
Qed.

Theorem cli_analyze_regular_exact s out :
  run_cli (Analyze Regularity) s = Stdout out ->
  exists (P : program) (b : bool),
    AspParse.parse_program_text s = AspParse.POk P /\
    out = bool_str b ++ nl /\
    (b = true <-> Forall RegularOk.regular_rule P).
Proof.
  unfold run_cli; cbn [run_cli_fuel run_analyze]. intros E.
  apply program_bind_stdout in E. destruct E as (P & EP & E).
  unfold of_nresult_bool in E. destruct (Regularity.is_regular P) as [b| |] eqn:Eb; try discriminate.
  unfold println_bool in E. injection E as <-.
  exists P, b. split; [exact EP|]. split; [reflexivity|]. split.
  - intros ->. apply C11reg.C11_reg. exact Eb.
  - intros Hr. apply C11reg.C11_reg in Hr. rewrite Hr in Eb. injection Eb as <-. reflexivity.
Qed.

(* a panic of the two analyses and of `translate --with natural` can only come from the parser
   (numerals outside isize): natural() itself never panics *)
Theorem cli_analyze_panic_only_from_parser property s :
  run_cli (Analyze property) s = Panic -> AspParse.parse_program_text s = AspParse.PPanic.
Proof.
  destruct property; unfold run_cli; cbn [run_cli_fuel run_analyze]; unfold program_from_file;
    destruct (AspParse.parse_program_text s) as [P| |]; cbn [bind]; unfold println_bool; auto; try discriminate.
  unfold of_nresult_bool. pose proof (C11reg.C11_reg_total P) as Hn.
  destruct (Regularity.is_regular P) eqn:Er; unfold println_bool; try discriminate.
  intros _. exfalso. apply Hn. reflexivity.
Qed.

(* ------------------------------------------------------------------ mu *)
(* CliMu.mu is Model/Mu.v's Section instantiated with the real tau*, whenever tau* does not panic *)
Definition unwrap_globals (p : program) : list string :=
  match TauStar.choose_fresh_global_variables p with Some g => g | None => [] end.
Definition unwrap_rule (r : rule) (globals : list string) : formula :=
  match TauStar.tau_star_rule r globals with Some f => f | None => FAtomic AFalse end.

Lemma mu_rules_is_Mu_section rules globals t :
  CliMu.mu_rules rules globals = NOk t -> Mu.mu_rules unwrap_rule rules globals = NOk t.
Proof.
  revert t. induction rules as [|r rest IH]; cbn [CliMu.mu_rules Mu.mu_rules]; intros t; auto.
  destruct (natural_rule r) as [f| |]; try discriminate.
  - destruct (CliMu.mu_rules rest globals) as [fs| |]; cbn [nbind]; try discriminate.
    intros [= <-]. rewrite (IH fs eq_refl). reflexivity.
  - destruct (TauStar.tau_star_rule r globals) as [f|] eqn:Ef; try discriminate.
    destruct (CliMu.mu_rules rest globals) as [fs| |]; cbn [nbind]; try discriminate.
    intros [= <-]. rewrite (IH fs eq_refl). cbn [nbind]. unfold unwrap_rule. rewrite Ef. reflexivity.
Qed.

Theorem mu_is_Mu_section p t :
  CliMu.mu p = NOk t -> Mu.mu unwrap_globals unwrap_rule p = NOk t.
Proof.
  unfold CliMu.mu, Mu.mu, unwrap_globals.
  destruct (TauStar.choose_fresh_global_variables p) as [g|]; [|discriminate].
  apply mu_rules_is_Mu_section.
Qed.
