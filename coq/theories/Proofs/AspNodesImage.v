(* C14 for the stand-alone entry points: the image of [parse_node_text] is inside the class for which
   Proofs/AspNodesLex.v proves the text-level round trip (identifiers in the lexical classes of the
   grammar, numerals within isize), so every ACCEPTED node text outside F7 / F7d round-trips. *)
From Coq Require Import List Ascii String ZArith NArith Bool Lia.
From Anthem Require Import Base.Fresh Syntax.Asp Model.AspTableTypes Gen.TablesAsp Model.AspPrint Model.AspParse
  Model.AspNodes Proofs.AspRoundTrip Proofs.AspLex Proofs.AspImage Proofs.AspNodesOk Proofs.AspNodesLex.
Import ListNotations.
Open Scope list_scope.

Notation wf_tokens := (Forall wf_token).

Lemma lex_node_wf s ts : lex_node s = Some ts -> wf_tokens ts.
Proof.
  unfold lex_node. destruct (leading_skip s); [|apply lex_wf].
  destruct (skip_layout (S (String.length s)) s) as [|c r]; [apply lex_wf|].
  destruct c as [[] [] [] [] [] [] [] []]; try apply lex_wf.
  destruct (lex_go (S (String.length r)) true r) as [l|] eqn:E; [|discriminate].
  cbn [option_map]. intros [= <-]. constructor; [exact I|eapply lex_go_wf, E].
Qed.

Lemma literal_toks_wf lead ts l rest : wf_tokens ts -> literal_toks lead ts = POk (l, rest) ->
  wf_atom (latom l) /\ wf_tokens rest.
Proof.
  intros W. unfold literal_toks. destruct lead; [|apply parse_literal_wf, W].
  assert (G : forall ts' s, wf_tokens ts' ->
            pbind (parse_atom ts') (fun '(a, r) => POk (mklit s a, r)) = POk (l, rest) ->
            wf_atom (latom l) /\ wf_tokens rest).
  { intros ts' s W'. destruct (parse_atom ts') as [[a r]| |] eqn:E; try discriminate. cbn [pbind].
    intros [= <- <-]. exact (parse_atom_wf _ _ _ W' E). }
  destruct ts as [|t r]; [apply G, W|].
  destruct t; try (apply G, W). inversion W; subst. apply G. assumption.
Qed.

Lemma bformula_toks_wf lead ts f rest : wf_tokens ts -> bformula_toks lead ts = POk (f, rest) ->
  wf_bformula f /\ wf_tokens rest.
Proof.
  intros W. unfold bformula_toks, comparison_toks.
  destruct (parse_comparison ts) as [[c r]| |] eqn:E; try discriminate.
  - intros [= <- <-]. exact (parse_comparison_wf _ _ _ W E).
  - destruct (literal_toks lead ts) as [[l r]| |] eqn:E2; try discriminate. cbn [pbind].
    intros [= <- <-]. exact (literal_toks_wf _ _ _ _ W E2).
Qed.

Lemma body_toks_wf lead ts b rest : wf_tokens ts -> body_toks lead ts = POk (b, rest) ->
  Forall wf_bformula b /\ wf_tokens rest.
Proof.
  intros W. unfold body_toks.
  destruct (bformula_toks lead ts) as [[f r]| |] eqn:E; try discriminate; [|intros [= <- <-]; auto].
  destruct (bformula_toks_wf _ _ _ _ W E) as [Hf Hr].
  destruct (parse_more_bformulas (List.length r) r) as [[l r']| |] eqn:E2; try discriminate.
  cbn [pbind]. intros [= <- <-]. destruct (parse_more_bformulas_wf _ _ _ _ Hr E2). auto.
Qed.

Lemma head_toks_wf lead ts h rest : wf_tokens ts -> head_toks lead ts = POk (h, rest) ->
  wf_head h /\ wf_tokens rest.
Proof.
  intros W. unfold head_toks. destruct lead; [intros [= <- <-]; cbn; auto|apply parse_head_wf, W].
Qed.

Lemma parse_node_toks_wf k lead ts n rest : wf_tokens ts -> parse_node_toks k lead ts = POk (n, rest) ->
  kind_of n = k /\ wf_node n /\ wf_tokens rest.
Proof.
  intros W. destruct k; cbn [parse_node_toks].
  - unfold term_toks. destruct (parse_term ts) as [[x r]| |] eqn:E; try discriminate. cbn [pbind].
    intros [= <- <-]. destruct (parse_term_wf _ _ _ W E). cbn. auto.
  - unfold atom_toks. destruct lead; [discriminate|].
    destruct (parse_atom ts) as [[x r]| |] eqn:E; try discriminate. cbn [pbind].
    intros [= <- <-]. destruct (parse_atom_wf _ _ _ W E). cbn. auto.
  - destruct (literal_toks lead ts) as [[x r]| |] eqn:E; try discriminate. cbn [pbind].
    intros [= <- <-]. destruct (literal_toks_wf _ _ _ _ W E). cbn. auto.
  - unfold comparison_toks. destruct (parse_comparison ts) as [[x r]| |] eqn:E; try discriminate. cbn [pbind].
    intros [= <- <-]. destruct (parse_comparison_wf _ _ _ W E). cbn. auto.
  - destruct (bformula_toks lead ts) as [[x r]| |] eqn:E; try discriminate. cbn [pbind].
    intros [= <- <-]. destruct (bformula_toks_wf _ _ _ _ W E). cbn. auto.
  - destruct (head_toks lead ts) as [[x r]| |] eqn:E; try discriminate. cbn [pbind].
    intros [= <- <-]. destruct (head_toks_wf _ _ _ _ W E). cbn. auto.
  - destruct (body_toks lead ts) as [[x r]| |] eqn:E; try discriminate. cbn [pbind].
    intros [= <- <-]. destruct (body_toks_wf _ _ _ _ W E). cbn. auto.
  - destruct (parse_rule lead ts) as [[x r]| |] eqn:E; try discriminate. cbn [pbind].
    intros [= <- <-]. destruct (parse_rule_wf _ _ _ _ W E). cbn. auto.
Qed.

(* ---- the image of the stand-alone text-level parsers *)
Theorem parse_node_text_image k s n : parse_node_text k s = POk n ->
  kind_of n = k /\ wf_node n /\ node_numerals_ok n = true.
Proof.
  unfold parse_node_text. destruct (lex_node s) as [ts|] eqn:L; [|discriminate].
  destruct (parse_node_toks k (leading_skip s) ts) as [[m rest]| |] eqn:E; try discriminate.
  destruct rest; [|discriminate]. destruct (node_numerals_ok m) eqn:N; [|discriminate].
  intros [= <-]. destruct (parse_node_toks_wf _ _ _ _ _ (lex_node_wf _ _ L) E) as [K [W _]]. auto.
Qed.

(* every accepted node text, printed, is accepted again by the same entry point and parses to the
   identical tree -- unless the tree is in the class F7 / F7d *)
Theorem node_roundtrip_image k s n : parse_node_text k s = POk n -> node_known_class n = None ->
  parse_node_text k (display_node n) = POk n.
Proof.
  intros H C. destruct (parse_node_text_image k s n H) as [K [W N]]. subst k.
  apply node_roundtrip_text; assumption.
Qed.

(* printing the re-parsed tree gives identical tokens and identical bytes *)
Theorem node_print_idem n m : parse_node_toks (kind_of n) false (print_node n) = POk (m, []) ->
  print_node m = print_node n /\ display_node m = display_node n.
Proof. rewrite node_roundtrip_tokens. intros [= <-]. split; reflexivity. Qed.

Theorem node_print_idem_text k s n m : parse_node_text k s = POk n -> node_known_class n = None ->
  parse_node_text k (display_node n) = POk m -> m = n /\ display_node m = display_node n.
Proof.
  intros H C H2. rewrite (node_roundtrip_image k s n H C) in H2. inversion H2. split; reflexivity.
Qed.
