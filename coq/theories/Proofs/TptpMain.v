(* C06: composition of the parenthesisation theorem (Proofs/TptpRead.v) with the semantic
   preservation of the intended reading (Proofs/TptpSem.v). *)
From Coq Require Import List Ascii String ZArith NArith Bool.
From Anthem Require Import Syntax.Fol Syntax.Tff Sem.Domain Sem.Sat Sem.TffSem Model.TptpPrint
  Proofs.TptpSem Proofs.TptpRead.
Import ListNotations.

Theorem tptp_meaning F toks : wf_tptp F = true -> tptp_print F = Some toks ->
  exists g, tff_read toks = Some g /\
    forall (FI : fint) (M : pint) (e : env),
      tff_sat (tstruct_of FI M) (tenv_of e) g <-> csat FI M e F.
Proof.
  intros Hwf Hp. unfold tptp_print in Hp.
  injection Hp as <-. exists (tff_of_formula F). split.
  - apply tff_read_print, Hwf.
  - intros FI M e. apply tff_of_formula_sat; [exact Hwf|apply env_rel_of].
Qed.

(* rendering never panics (the only panic was the numeral isize::MIN: finding F3b, repaired) *)
Lemma tptp_print_total F : tptp_print F = Some (print_formula F).
Proof. reflexivity. Qed.
Lemma tptp_format_total F : tptp_format F = Some (render (print_formula F)).
Proof. reflexivity. Qed.
