(* C20, third sentence, SYNTACTIC form (audit 2, B14): swapping the two programs of a
   strong-equivalence task and the direction "swaps exactly the roles of axioms and conjectures".

     problems (strong, left B, right A, forward)   vs   problems (strong, left A, right B, backward)

   The auditor's scratch proof (`swap_roles_syntactic`, /work/audit2/thmB/s_swap.v) is about the
   assembled problem BEFORE rename_conflicting_symbols, create_unique_formula_names and the
   decomposition.  Here it is lifted through these three steps, for the parametric assembly
   (Model/Strong.v, any component translations) and for the end-to-end model (Model/StrongFull.v).

   What is equal.  Forget the names of the formulas: a problem is the list of its (role, formula)
   pairs [rfs].  Then the k-th problem of the one family and the k-th problem of the other are

        T  ++ R_k          and          T' ++ R_k

   with the SAME R_k (the formulas of B as axioms - in the sequential decomposition followed by the
   earlier conjectures turned into axioms - and one formula of A as the conjecture, in the same
   order), and T, T' the transition axioms `forall X (hp(X) -> tp(X))` of the same predicates,
   all with role axiom, in the order in which the predicates first occur (left program first):
   T' is a permutation of T.  The problems are named forward_k / backward_k.  The formula names
   (formula_<i>_left_<j> / formula_<i>_right_<j>) are not compared.  rename_conflicting_symbols is
   the same function on both sides (it depends on the SET of 0-ary predicates of the problem).

   What is not equal: T and T' as lists (C20_swap_example), hence the files; the textual rendering
   (type declarations follow the order of first occurrence as well) is outside this statement. *)
From Coq Require Import List String NArith Bool Permutation.
From Anthem Require Import Base.ISet Base.Fresh Syntax.Fol Syntax.Asp Model.Problem Model.Strong Model.StrongFull
  Proofs.ExtendAll Proofs.DecomposeOk Proofs.StrongOk Proofs.StrongFullOk Proofs.SwapOk.
Import ListNotations.
Open Scope list_scope.

(* ---------------------------------------------------------------- problems without formula names *)

Definition rfpair : Type := prole * formula.
Definition rf (a : pformula) : rfpair := (pf_role a, pf_formula a).
Definition rfs (p : problem) : list rfpair := map rf (pb_formulas p).
Definition tagged (r : prole) (t : theory) : list rfpair := map (fun f => (r, f)) t.

(* the decompositions on (role, formula) lists: Problem::decompose_independent / _sequential
   with the names forgotten *)
Definition ax_rf (l : list rfpair) : list rfpair := filter (fun x => prole_eqb (fst x) PAxiom) l.
Definition cj_rf (l : list rfpair) : list rfpair := filter (fun x => prole_eqb (fst x) PConjecture) l.
Fixpoint ind_rf (ax cs : list rfpair) : list (list rfpair) :=
  match cs with [] => [] | c :: cs' => (ax ++ [c]) :: ind_rf ax cs' end.
Definition set_last_axiom_rf (l : list rfpair) : list rfpair :=
  match rev l with [] => [] | x :: r => rev ((PAxiom, snd x) :: r) end.
Fixpoint seq_rf (acc cs : list rfpair) : list (list rfpair) :=
  match cs with
  | [] => []
  | c :: cs' => let acc' := set_last_axiom_rf acc ++ [c] in acc' :: seq_rf acc' cs'
  end.
Definition decompose_rf (l : list rfpair) (d : decomposition) : list (list rfpair) :=
  match d with
  | DIndependent => ind_rf (ax_rf l) (cj_rf l)
  | DSequential => seq_rf (ax_rf l) (cj_rf l)
  end.

(* <name>_<i>, <name>_<i+1>, ... *)
Fixpoint pnames (name : string) (i : N) (n : nat) : list string :=
  match n with O => [] | S n' => (name ++ "_" ++ nat_str i)%string :: pnames name (N.succ i) n' end.

Lemma rf_filter r l :
  map rf (filter (fun a => prole_eqb (pf_role a) r) l) = filter (fun x => prole_eqb (fst x) r) (map rf l).
Proof.
  induction l as [|a l IH]; cbn; [reflexivity|]. destruct (prole_eqb (pf_role a) r); cbn; rewrite IH; reflexivity.
Qed.

Lemma independent_rf name ax : forall cs i,
  map rfs (dec_independent_from name ax i cs) = ind_rf (map rf ax) (map rf cs) /\
  map pb_name (dec_independent_from name ax i cs) = pnames name i (List.length cs).
Proof.
  induction cs as [|c cs IH]; intros i; cbn; [split; reflexivity|].
  destruct (IH (N.succ i)) as [E1 E2]. rewrite E1, E2. unfold rfs. cbn [pb_formulas pb_name]. rewrite map_app. split; reflexivity.
Qed.

Lemma set_last_axiom_rf_snoc l x : set_last_axiom_rf (l ++ [x]) = l ++ [(PAxiom, snd x)].
Proof. unfold set_last_axiom_rf. rewrite rev_app_distr. cbn. rewrite rev_involutive. reflexivity. Qed.

Lemma rf_set_last_axiom l : map rf (set_last_axiom l) = set_last_axiom_rf (map rf l).
Proof.
  destruct (list_snoc_case l) as [->|[l' [a ->]]]; [reflexivity|].
  rewrite set_last_axiom_snoc, !map_app. cbn [map]. rewrite set_last_axiom_rf_snoc. reflexivity.
Qed.

Lemma sequential_rf name : forall cs acc i,
  map rfs (dec_sequential_from name acc i cs) = seq_rf (map rf acc) (map rf cs) /\
  map pb_name (dec_sequential_from name acc i cs) = pnames name i (List.length cs).
Proof.
  induction cs as [|c cs IH]; intros acc i; cbn; [split; reflexivity|].
  destruct (IH (set_last_axiom acc ++ [c]) (N.succ i)) as [E1 E2]. rewrite E1, E2.
  unfold rfs. cbn [pb_formulas pb_name]. rewrite !map_app, rf_set_last_axiom. split; reflexivity.
Qed.

Lemma length_cj p : List.length (conjectures p) = List.length (cj_rf (rfs p)).
Proof. unfold conjectures, cj_rf, rfs. rewrite <- rf_filter, map_length. reflexivity. Qed.

Lemma decompose_rf_spec p d :
  map rfs (decompose p d) = decompose_rf (rfs p) d /\
  map pb_name (decompose p d) = pnames (pb_name p) 0 (List.length (cj_rf (rfs p))).
Proof.
  rewrite <- length_cj.
  destruct d; cbn [decompose decompose_rf]; unfold decompose_independent, decompose_sequential, ax_rf, cj_rf, rfs;
    rewrite <- !rf_filter; [apply independent_rf|apply sequential_rf].
Qed.

(* ---------------------------------------------------------------- a prefix of axioms *)

Definition all_ax (l : list rfpair) : Prop := forall x, In x l -> fst x = PAxiom.

Lemma tagged_all_ax t : all_ax (tagged PAxiom t).
Proof. intros x Hx. apply in_map_iff in Hx. destruct Hx as [f [<- _]]. reflexivity. Qed.

Lemma ax_rf_all T : all_ax T -> ax_rf T = T.
Proof.
  unfold ax_rf. induction T as [|x T IH]; intros H; cbn; [reflexivity|].
  rewrite (H x (or_introl eq_refl)). cbn. rewrite IH; [reflexivity|]. intros y Hy. apply H. right. exact Hy.
Qed.
Lemma cj_rf_all T : all_ax T -> cj_rf T = [].
Proof.
  unfold cj_rf. induction T as [|x T IH]; intros H; cbn; [reflexivity|].
  rewrite (H x (or_introl eq_refl)). cbn. apply IH. intros y Hy. apply H. right. exact Hy.
Qed.
Lemma ax_rf_tagged_cj t : ax_rf (tagged PConjecture t) = [].
Proof. induction t; cbn; auto. Qed.
Lemma cj_rf_tagged_cj t : cj_rf (tagged PConjecture t) = tagged PConjecture t.
Proof. unfold cj_rf, tagged. induction t as [|f t IH]; cbn; [reflexivity|]. rewrite IH. reflexivity. Qed.

Lemma ind_rf_prefix T ax cs : ind_rf (T ++ ax) cs = map (app T) (ind_rf ax cs).
Proof. induction cs as [|c cs IH]; cbn; [reflexivity|]. rewrite IH, app_assoc. reflexivity. Qed.

Lemma set_last_axiom_rf_all T : all_ax T -> set_last_axiom_rf T = T.
Proof.
  intros H. destruct (list_snoc_case T) as [->|[l' [[r f] ->]]]; [reflexivity|].
  rewrite set_last_axiom_rf_snoc. cbn. f_equal. f_equal.
  assert (E : fst (r, f) = PAxiom) by (apply H; apply in_or_app; right; left; reflexivity).
  cbn in E. rewrite E. reflexivity.
Qed.
Lemma set_last_axiom_rf_prefix T l : all_ax T -> set_last_axiom_rf (T ++ l) = T ++ set_last_axiom_rf l.
Proof.
  intros H. destruct (list_snoc_case l) as [->|[l' [x ->]]].
  - rewrite app_nil_r. cbn. rewrite app_nil_r. apply set_last_axiom_rf_all, H.
  - rewrite app_assoc, !set_last_axiom_rf_snoc, app_assoc. reflexivity.
Qed.
Lemma seq_rf_prefix T : all_ax T -> forall cs acc, seq_rf (T ++ acc) cs = map (app T) (seq_rf acc cs).
Proof.
  intros H. induction cs as [|c cs IH]; intros acc; cbn; [reflexivity|].
  rewrite (set_last_axiom_rf_prefix T acc H), <- app_assoc, IH. reflexivity.
Qed.

Lemma ax_rf_app l l' : ax_rf (l ++ l') = ax_rf l ++ ax_rf l'.
Proof. apply filter_app. Qed.
Lemma cj_rf_app l l' : cj_rf (l ++ l') = cj_rf l ++ cj_rf l'.
Proof. apply filter_app. Qed.

Lemma decompose_rf_prefix T l d : all_ax T -> decompose_rf (T ++ l) d = map (app T) (decompose_rf l d).
Proof.
  intros H. unfold decompose_rf. rewrite ax_rf_app, cj_rf_app, (ax_rf_all T H), (cj_rf_all T H). cbn [app].
  destruct d; [apply ind_rf_prefix|apply seq_rf_prefix, H].
Qed.

(* ---------------------------------------------------------------- naming and renaming *)

Lemma rf_name_theory pre role t : forall i, map rf (name_theory_from pre role i t) = tagged role t.
Proof. induction t as [|f t IH]; intros i; cbn; [reflexivity|]. rewrite IH. reflexivity. Qed.

Lemma rfs_strong_pre name ta an at_ cn ct :
  rfs (strong_pre name ta an at_ cn ct) = tagged PAxiom ta ++ tagged PAxiom at_ ++ tagged PConjecture ct.
Proof.
  unfold rfs, strong_pre, add_theory, with_name. cbn [pb_formulas pb_name].
  rewrite !map_app, !rf_name_theory. cbn. rewrite <- app_assoc. reflexivity.
Qed.

Lemma rf_unique_names l : forall i, map rf (unique_names_from i l) = map rf l.
Proof. induction l as [|a l IH]; intros i; cbn; [reflexivity|]. rewrite IH. reflexivity. Qed.

Lemma rfs_unique p : rfs (create_unique_formula_names p) = rfs p.
Proof. apply rf_unique_names. Qed.

(* Problem::rename_conflicting_symbols: the 0-ary predicates of the problem *)
Definition conf (p : problem) : list pred := filter (fun q => Nat.eqb (parity q) 0) (problem_predicates p).
Definition rn_pairs (g : formula -> formula) (l : list rfpair) : list rfpair := map (fun x => (fst x, g (snd x))) l.

Lemma rfs_rename p : rfs (rename_conflicting_symbols p) = rn_pairs (rcs_formula (conf p)) (rfs p).
Proof. unfold rfs, rename_conflicting_symbols, rn_pairs, conf. cbn [pb_formulas]. rewrite !map_map. reflexivity. Qed.

Lemma rn_pairs_app g l l' : rn_pairs g (l ++ l') = rn_pairs g l ++ rn_pairs g l'.
Proof. apply map_app. Qed.
Lemma rn_pairs_tagged g r t : rn_pairs g (tagged r t) = tagged r (map g t).
Proof. unfold rn_pairs, tagged. rewrite !map_map. reflexivity. Qed.

Lemma memb_ext {A} (dec : forall x y : A, {x = y} + {x <> y}) x c c' :
  (forall q, In q c <-> In q c') -> memb dec x c = memb dec x c'.
Proof.
  intros H. destruct (memb_spec dec x c) as [Hc|Hc], (memb_spec dec x c') as [Hc'|Hc']; try reflexivity;
    exfalso; [apply Hc', H, Hc|apply Hc, H, Hc'].
Qed.

Lemma rcs_gterm_ext c c' t : (forall q, In q c <-> In q c') -> rcs_gterm c t = rcs_gterm c' t.
Proof.
  intros H. destruct t as [| |f|x|i|[s|f|x]]; try reflexivity.
  cbn. rewrite (memb_ext pred_dec _ c c' H). reflexivity.
Qed.
Lemma rcs_aformula_ext c c' a : (forall q, In q c <-> In q c') -> rcs_aformula c a = rcs_aformula c' a.
Proof.
  intros H. destruct a as [| |p ts|t gs]; try reflexivity; cbn.
  - f_equal. apply map_ext. intros t. apply rcs_gterm_ext, H.
  - rewrite (rcs_gterm_ext c c' t H). f_equal. apply map_ext. intros g. rewrite (rcs_gterm_ext c c' _ H). reflexivity.
Qed.
Lemma rcs_formula_ext c c' f : (forall q, In q c <-> In q c') -> rcs_formula c f = rcs_formula c' f.
Proof.
  intros H. induction f as [a|f IH|b l IHl r IHr|q vs f IH]; cbn.
  - rewrite (rcs_aformula_ext c c' a H). reflexivity.
  - rewrite IH. reflexivity.
  - rewrite IHl, IHr. reflexivity.
  - rewrite IH. reflexivity.
Qed.

Lemma in_conf p q :
  In q (conf p) <-> parity q = 0 /\ exists x, In x (rfs p) /\ In q (predicates (snd x)).
Proof.
  unfold conf. rewrite filter_In, PeanoNat.Nat.eqb_eq. unfold problem_predicates. rewrite in_extend_all.
  unfold rfs. split.
  - intros [[[]|[a [Ha Hq]]] Hp]. split; [exact Hp|]. exists (rf a). split; [apply in_map; exact Ha|exact Hq].
  - intros [Hp [x [Hx Hq]]]. apply in_map_iff in Hx. destruct Hx as [a [<- Ha]]. split; [|exact Hp]. right. eauto.
Qed.

Lemma conf_ext p p' : (forall x, In x (rfs p) <-> In x (rfs p')) -> forall q, In q (conf p) <-> In q (conf p').
Proof.
  intros H q. rewrite !in_conf. split; intros [Hp [x [Hx Hq]]]; (split; [exact Hp|]); exists x; (split; [apply H; exact Hx|exact Hq]).
Qed.

(* the finished problem, names forgotten *)
Lemma rfs_strong_problem name ta an at_ cn ct :
  let rn := rcs_formula (conf (strong_pre name ta an at_ cn ct)) in
  rfs (strong_problem name ta an at_ cn ct)
  = tagged PAxiom (map rn ta) ++ tagged PAxiom (map rn at_) ++ tagged PConjecture (map rn ct).
Proof.
  cbv zeta. unfold strong_problem. fold (strong_pre name ta an at_ cn ct).
  rewrite rfs_unique, rfs_rename, rfs_strong_pre, !rn_pairs_app, !rn_pairs_tagged. reflexivity.
Qed.

Lemma strong_problem_name name ta an at_ cn ct : pb_name (strong_problem name ta an at_ cn ct) = name.
Proof. reflexivity. Qed.

(* ---------------------------------------------------------------- the swap *)

Lemma strong_predicates_perm L R : Permutation (strong_predicates L R) (strong_predicates R L).
Proof.
  apply NoDup_Permutation.
  - apply nodup_iset_extend, nodup_program_preds.
  - apply nodup_iset_extend, nodup_program_preds.
  - intros p. apply strong_predicates_sym.
Qed.
Lemma transition_axioms_perm L R : Permutation (transition_axioms L R) (transition_axioms R L).
Proof. unfold transition_axioms. apply Permutation_map, strong_predicates_perm. Qed.

(* the assembly, for any two lists of transition axioms that are permutations of each other and any
   two side theories sB (program B) and sA (program A) *)
Theorem swap_assemble (ta ta' sB sA : theory) (dec : decomposition) :
  Permutation ta ta' ->
  exists (rn : formula -> formula) (Rs : list (list rfpair)),
    Rs = decompose_rf (tagged PAxiom (map rn sB) ++ tagged PConjecture (map rn sA)) dec /\
    map rfs (strong_assemble ta sB sA DForward dec) = map (app (tagged PAxiom (map rn ta))) Rs /\
    map rfs (strong_assemble ta' sA sB DBackward dec) = map (app (tagged PAxiom (map rn ta'))) Rs /\
    map pb_name (strong_assemble ta sB sA DForward dec) = pnames "forward" 0 (List.length Rs) /\
    map pb_name (strong_assemble ta' sA sB DBackward dec) = pnames "backward" 0 (List.length Rs).
Proof.
  intros Hp.
  set (fw := strong_pre "forward" ta "left" sB "right" sA).
  set (bw := strong_pre "backward" ta' "right" sB "left" sA).
  assert (Hconf : forall q, In q (conf bw) <-> In q (conf fw)).
  { apply conf_ext. intros x. unfold fw, bw. rewrite !rfs_strong_pre, !in_app_iff.
    assert (Ht : In x (tagged PAxiom ta') <-> In x (tagged PAxiom ta)).
    { unfold tagged. split; intros H; apply in_map_iff in H; destruct H as [f [<- Hf]]; apply in_map;
        [apply Permutation_sym in Hp|]; eapply Permutation_in; eauto. }
    rewrite Ht. reflexivity. }
  exists (rcs_formula (conf fw)), (decompose_rf (tagged PAxiom (map (rcs_formula (conf fw)) sB) ++
                                              tagged PConjecture (map (rcs_formula (conf fw)) sA)) dec).
  split; [reflexivity|].
  unfold strong_assemble. cbn [dir_forward dir_backward app flat_map]. rewrite !app_nil_r.
  destruct (decompose_rf_spec (strong_problem "forward" ta "left" sB "right" sA) dec) as [F1 F2].
  destruct (decompose_rf_spec (strong_problem "backward" ta' "right" sB "left" sA) dec) as [B1 B2].
  rewrite F1, F2, B1, B2, !strong_problem_name, !rfs_strong_problem. fold fw bw.
  rewrite !(map_ext _ _ (fun f => rcs_formula_ext (conf bw) (conf fw) f Hconf)).
  rewrite !decompose_rf_prefix by apply tagged_all_ax.
  rewrite !map_length.
  assert (Hc : forall T l, all_ax T -> cj_rf (T ++ l) = cj_rf l).
  { intros T l H. rewrite cj_rf_app, (cj_rf_all T H). reflexivity. }
  rewrite !Hc by apply tagged_all_ax.
  assert (Hl : forall l d, List.length (decompose_rf l d) = List.length (cj_rf l)).
  { intros l d. destruct d; cbn [decompose_rf]; [generalize (ax_rf l)|generalize (ax_rf l)]; induction (cj_rf l) as [|c cs IH]; intros acc; cbn; auto. }
  rewrite Hl. repeat split; reflexivity.
Qed.

(* the parametric pipeline of Model/Strong.v, any component translations *)
Theorem swap_syntactic_generic (tau_star mu : program -> theory) (simp_ht simp_classic : formula -> formula)
        (A B : program) dec repr simp brk :
  let side := strong_side tau_star mu simp_ht simp_classic (swap_forward A B dec repr simp brk) in
  exists (rn : formula -> formula) (Rs : list (list rfpair)),
    Rs = decompose_rf (tagged PAxiom (map rn (side B)) ++ tagged PConjecture (map rn (side A))) dec /\
    map rfs (strong_decompose tau_star mu simp_ht simp_classic (swap_forward A B dec repr simp brk))
      = map (app (tagged PAxiom (map rn (transition_axioms B A)))) Rs /\
    map rfs (strong_decompose tau_star mu simp_ht simp_classic (swap_backward A B dec repr simp brk))
      = map (app (tagged PAxiom (map rn (transition_axioms A B)))) Rs /\
    map pb_name (strong_decompose tau_star mu simp_ht simp_classic (swap_forward A B dec repr simp brk))
      = pnames "forward" 0 (List.length Rs) /\
    map pb_name (strong_decompose tau_star mu simp_ht simp_classic (swap_backward A B dec repr simp brk))
      = pnames "backward" 0 (List.length Rs).
Proof.
  cbv zeta. unfold strong_decompose, swap_forward, swap_backward.
  cbn [st_left st_right st_direction st_decomposition].
  apply (swap_assemble (transition_axioms B A) (transition_axioms A B)), transition_axioms_perm.
Qed.

(* the end-to-end model (Model/StrongFull.v): whenever it returns both families *)
Theorem swap_syntactic fuel A B dec repr simp brk pbs pbs' :
  strong_decompose_full_fuel fuel (swap_forward A B dec repr simp brk) = SOk pbs ->
  strong_decompose_full_fuel fuel (swap_backward A B dec repr simp brk) = SOk pbs' ->
  let side := strong_side tau_star_tot mu_tot simp_ht_tot (simp_classic_tot_fuel fuel) (swap_forward A B dec repr simp brk) in
  exists (rn : formula -> formula) (Rs : list (list rfpair)),
    Rs = decompose_rf (tagged PAxiom (map rn (side B)) ++ tagged PConjecture (map rn (side A))) dec /\
    map rfs pbs  = map (app (tagged PAxiom (map rn (transition_axioms B A)))) Rs /\
    map rfs pbs' = map (app (tagged PAxiom (map rn (transition_axioms A B)))) Rs /\
    Permutation (transition_axioms B A) (transition_axioms A B) /\
    map pb_name pbs = pnames "forward" 0 (List.length Rs) /\
    map pb_name pbs' = pnames "backward" 0 (List.length Rs).
Proof.
  intros E E'. destruct (strong_decompose_full_fuel_ok _ _ _ E) as [-> _].
  destruct (strong_decompose_full_fuel_ok _ _ _ E') as [-> _]. cbv zeta.
  destruct (swap_syntactic_generic tau_star_tot mu_tot simp_ht_tot (simp_classic_tot_fuel fuel) A B dec repr simp brk)
    as [rn [Rs [H0 [H1 [H2 [H3 H4]]]]]].
  exists rn, Rs. unfold strong_decompose_tot_fuel. repeat split; try assumption. apply transition_axioms_perm.
Qed.

(* consequences that do not mention Rs: same number of problems; problem by problem the same
   (role, formula) pairs up to the order of the leading transition axioms; the conjecture of the
   k-th problem is the same formula *)
Corollary swap_syntactic_perm fuel A B dec repr simp brk pbs pbs' :
  strong_decompose_full_fuel fuel (swap_forward A B dec repr simp brk) = SOk pbs ->
  strong_decompose_full_fuel fuel (swap_backward A B dec repr simp brk) = SOk pbs' ->
  Forall2 (fun p p' => Permutation (rfs p) (rfs p') /\ map rf (conjectures p) = map rf (conjectures p')) pbs pbs'.
Proof.
  intros E E'. destruct (swap_syntactic fuel A B dec repr simp brk pbs pbs' E E') as [rn [Rs [_ [H1 [H2 [Hp _]]]]]].
  clear E E'. revert Rs pbs' H1 H2. induction pbs as [|p pbs IH]; intros Rs pbs' H1 H2.
  - destruct Rs; [|discriminate]. destruct pbs'; [constructor|discriminate].
  - destruct Rs as [|R Rs]; [discriminate|]. destruct pbs' as [|p' pbs']; [discriminate|].
    cbn in H1, H2. injection H1 as Hp1 H1. injection H2 as Hp2 H2. constructor; [|eapply IH; eauto].
    split.
    + rewrite Hp1, Hp2. apply Permutation_app_tail. unfold tagged. apply Permutation_map, Permutation_map, Hp.
    + assert (Hcj : forall q, map rf (conjectures q) = cj_rf (rfs q)) by (intros q; apply rf_filter).
      rewrite !Hcj, Hp1, Hp2, !cj_rf_app.
      rewrite (cj_rf_all (tagged PAxiom (map rn (transition_axioms B A)))) by apply tagged_all_ax.
      rewrite (cj_rf_all (tagged PAxiom (map rn (transition_axioms A B)))) by apply tagged_all_ax. reflexivity.
Qed.
