(* C19 for external equivalence, all three flags.
   1. Validated level ([external_sim]): two validated tasks whose left and right formula lists are
      pointwise SIMILAR (same role, same direction annotation, classically equivalent formulas - not
      necessarily equal), with the same user-guide assumptions, proof outline and direction, and ANY
      eq-break / decomposition flags, are refuted by the same interpretations.  This generalises
      ExternalOk.external_break_dec (equal lists) and covers the outline problems as well.
   2. Task level ([external_flags_partial], Section Task): for the assembly model of
      Model/External.v over arbitrary components, under two explicit hypotheses on the component
      [simp_classic]: it preserves classical validity, and it preserves [head_predicate] on the
      formulas of a completed theory (role stability).
   3. Full model ([C19_external_proof]): both hypotheses discharged for the real components
      (Proofs/SimplFull.v = C07; Proofs/HeadPredPipeline.v). *)
From Coq Require Import List Ascii String ZArith NArith Bool Lia Classical_Prop.
From Anthem Require Import Base.ISet Base.Fresh Syntax.Fol Syntax.Asp Sem.Domain Sem.Sat
  Model.Break Model.Problem Model.Outline Model.Strong Model.External
  Proofs.SemBase Proofs.ExtendAll Proofs.BreakOk Proofs.DecomposeOk Proofs.StrongOk Proofs.ExternalOk Proofs.RenameOk Proofs.HeadPred.
Import ListNotations.
Open Scope string_scope.
Open Scope list_scope.

(* ------------------------------------------------------------------ similar annotated formulas *)
Definition annot_sim (a a' : aformula_annot) : Prop :=
  an_role a = an_role a' /\ an_dir a = an_dir a' /\
  forall FI M, cvalid FI M (an_formula a) <-> cvalid FI M (an_formula a').

Lemma annot_sim_refl a : annot_sim a a.
Proof. repeat split; auto. Qed.
Lemma annot_sim_refl_list l : Forall2 annot_sim l l.
Proof. induction l; constructor; auto using annot_sim_refl. Qed.
Lemma annot_sim_sym a a' : annot_sim a a' -> annot_sim a' a.
Proof. intros [H1 [H2 H3]]. repeat split; auto; apply H3. Qed.
Lemma annot_sim_rename m a a' :
  annot_sim a a' -> annot_sim (rename_predicates_annot m a) (rename_predicates_annot m a').
Proof.
  intros [H1 [H2 H3]]. split; [exact H1|]. split; [exact H2|]. intros FI M. cbn.
  rewrite !rename_valid. apply H3.
Qed.
Lemma Forall2_map2 {A B} (R : B -> B -> Prop) (f : A -> B) (g : A -> B) l :
  (forall x, In x l -> R (f x) (g x)) -> Forall2 R (map f l) (map g l).
Proof. induction l as [|x l IH]; intros H; cbn; constructor; [apply H; left; reflexivity|apply IH; intros y Hy; apply H; right; exact Hy]. Qed.
Lemma Forall2_map_both {A B} (R : A -> A -> Prop) (S : B -> B -> Prop) (f : A -> B) l l' :
  (forall x y, R x y -> S (f x) (f y)) -> Forall2 R l l' -> Forall2 S (map f l) (map f l').
Proof. intros H. induction 1; cbn; constructor; auto. Qed.

(* ------------------------------------------------------------------ lists of one role, equivalent as theories *)
Definition role_sim (r : prole) (l l' : list pformula) : Prop :=
  all_role r l /\ all_role r l' /\
  forall FI M, tvalid FI M (map pf_formula l) <-> tvalid FI M (map pf_formula l').

Lemma role_sim_nil r : role_sim r [] [].
Proof. split; [intros x []|]. split; [intros x []|]. intros FI M. reflexivity. Qed.
Lemma role_sim_refl r l : all_role r l -> role_sim r l l.
Proof. intros H. repeat split; auto. Qed.
Lemma role_sim_app r l1 l1' l2 l2' : role_sim r l1 l1' -> role_sim r l2 l2' -> role_sim r (l1 ++ l2) (l1' ++ l2').
Proof.
  intros [A1 [A2 A3]] [B1 [B2 B3]]. split; [apply all_role_app; auto|]. split; [apply all_role_app; auto|].
  intros FI M. rewrite !map_app. apply tvalid_app_congr; auto.
Qed.
Lemma tvalid_single FI M f : tvalid FI M [f] <-> cvalid FI M f.
Proof. unfold tvalid. split; [intros H; apply H; left; reflexivity|intros H g [<-|[]]; exact H]. Qed.
Lemma role_sim_single r a a' : annot_sim a a' ->
  role_sim r [into_problem_formula a r] [into_problem_formula a' r].
Proof.
  intros [_ [_ H]]. split; [intros x [<-|[]]; reflexivity|]. split; [intros x [<-|[]]; reflexivity|].
  intros FI M. cbn. rewrite !tvalid_single. apply H.
Qed.
Lemma conclusions_cvalid FI M brk a :
  tvalid FI M (map pf_formula (conclusions_of brk a)) <-> cvalid FI M (an_formula a).
Proof. rewrite (conclusions_of_valid FI M brk false a). cbn. apply tvalid_single. Qed.
Lemma role_sim_conclusions brk brk' a a' : annot_sim a a' ->
  role_sim PConjecture (conclusions_of brk a) (conclusions_of brk' a').
Proof.
  intros [_ [_ H]]. split; [apply conclusions_of_role|]. split; [apply conclusions_of_role|].
  intros FI M. rewrite !conclusions_cvalid. apply H.
Qed.

(* ------------------------------------------------------------------ the two loops of the validated task *)
Definition vacc_sim (s s' : vacc) : Prop :=
  role_sim PAxiom (va_stable s) (va_stable s') /\ role_sim PAxiom (va_fp s) (va_fp s') /\
  role_sim PAxiom (va_bp s) (va_bp s') /\
  role_sim PConjecture (va_fc s) (va_fc s') /\ role_sim PConjecture (va_bc s) (va_bc s').

Definition opt_rel {A} (R : A -> A -> Prop) (x y : option A) : Prop :=
  match x, y with Some a, Some b => R a b | None, None => True | _, _ => False end.

Lemma left_step_sim brk brk' s s' a a' : vacc_sim s s' -> annot_sim a a' ->
  opt_rel vacc_sim (validated_left_step brk s a) (validated_left_step brk' s' a').
Proof.
  intros [S1 [S2 [S3 [S4 S5]]]] Ha. pose proof Ha as [Hr [Hd _]].
  unfold validated_left_step. rewrite <- Hr, <- Hd. destruct (an_role a); cbn; auto.
  - destruct (an_dir a); cbn [opt_rel]; unfold vacc_sim; cbn [va_stable va_fp va_bp va_fc va_bc];
      (split; [|split; [|split; [|split]]]);
      first [assumption | apply role_sim_app; [assumption|apply role_sim_single; assumption]].
  - unfold vacc_sim; cbn. split; [exact S1|]. split.
    { destruct (dir_forward (an_dir a)); [apply role_sim_app; auto; apply role_sim_single; auto|exact S2]. }
    split; [exact S3|]. split; [exact S4|].
    destruct (dir_backward (an_dir a)); [apply role_sim_app; auto; apply role_sim_conclusions; auto|exact S5].
Qed.
Lemma right_step_sim brk brk' s s' a a' : vacc_sim s s' -> annot_sim a a' ->
  opt_rel vacc_sim (validated_right_step brk s a) (validated_right_step brk' s' a').
Proof.
  intros [S1 [S2 [S3 [S4 S5]]]] Ha. pose proof Ha as [Hr [Hd _]].
  unfold validated_right_step. rewrite <- Hr, <- Hd. destruct (an_role a); cbn; auto.
  - destruct (an_dir a); cbn [opt_rel]; unfold vacc_sim; cbn [va_stable va_fp va_bp va_fc va_bc];
      (split; [|split; [|split; [|split]]]);
      first [assumption | apply role_sim_app; [assumption|apply role_sim_single; assumption]].
  - unfold vacc_sim; cbn. split; [exact S1|]. split; [exact S2|]. split.
    { destruct (dir_backward (an_dir a)); [apply role_sim_app; auto; apply role_sim_single; auto|exact S3]. }
    split; [|exact S5].
    destruct (dir_forward (an_dir a)); [apply role_sim_app; auto; apply role_sim_conclusions; auto|exact S4].
Qed.
Lemma fold_sim (f f' : vacc -> aformula_annot -> option vacc) :
  (forall s s' a a', vacc_sim s s' -> annot_sim a a' -> opt_rel vacc_sim (f s a) (f' s' a')) ->
  forall l l', Forall2 annot_sim l l' -> forall s s', vacc_sim s s' ->
    opt_rel vacc_sim (fold_opt f l s) (fold_opt f' l' s').
Proof.
  intros Hstep. induction 1 as [|a a' l l' Ha _ IH]; intros s s' Hs; cbn; [exact Hs|].
  specialize (Hstep s s' a a' Hs Ha). unfold opt_rel in Hstep.
  destruct (f s a) as [r|], (f' s' a') as [r'|]; try contradiction; [|exact I]. apply IH, Hstep.
Qed.

(* ------------------------------------------------------------------ the problems of one direction *)
Lemma in_firstn' {A} (x : A) n : forall l, In x (firstn n l) -> In x l.
Proof. induction n as [|n IH]; intros [|y l]; cbn; try tauto. intros [H|H]; auto. Qed.

Section Direction.
Variable FI : fint.
Variable M : pint.
Notation tv := (tvalid FI M).

Lemma ax_forms_axioms l X : all_role PAxiom l -> ax_forms (l ++ X) = map pf_formula l ++ ax_forms X.
Proof. intros H. rewrite ax_forms_app. destruct (ax_forms_ax l H) as [-> _]. reflexivity. Qed.
Lemma cj_forms_axioms l X : all_role PAxiom l -> cj_forms (l ++ X) = cj_forms X.
Proof. intros H. rewrite cj_forms_app. destruct (ax_forms_ax l H) as [_ ->]. reflexivity. Qed.

(* one problem  axioms ++ rest, with similar axiom lists *)
Lemma finished_sim name ax ax' X :
  no_clash_problem (pre_problem name (ax ++ X)) -> no_clash_problem (pre_problem name (ax' ++ X)) ->
  role_sim PAxiom ax ax' ->
  (refutes FI M (finished name (ax ++ X)) <-> refutes FI M (finished name (ax' ++ X))).
Proof.
  intros Hn Hn' [R1 [R2 R3]].
  rewrite (finished_refutes FI M _ _ Hn), (finished_refutes FI M _ _ Hn').
  rewrite !ax_forms_axioms, !cj_forms_axioms by assumption. rewrite !tvalid_app, (R3 FI M). reflexivity.
Qed.

Lemma outline_sim_one prefix ls ax ax' fs fs' :
  flist_no_clash fs -> flist_no_clash fs' ->
  (forall a, In a ax -> In (pf_formula a) fs) -> (forall a, In a ax' -> In (pf_formula a) fs') ->
  (forall g a, In g ls -> In a (gl_consequences g) \/ In a (gl_conjectures g) -> In (pf_formula a) fs /\ In (pf_formula a) fs') ->
  role_sim PAxiom ax ax' ->
  forall i, refutes_some FI M (outline_problems prefix i ax ls) -> refutes_some FI M (outline_problems prefix i ax' ls).
Proof.
  intros Hf Hf' Hax Hax' Hls Hs i [p [Hp Hr]].
  apply outline_problems_in in Hp. destruct Hp as [k [g [j [c [Hk [Hj ->]]]]]].
  set (C := flat_map gl_consequences (firstn k ls)) in *.
  exists (outline_problem (outline_name prefix (i + N.of_nat k) (N.of_nat j)) (ax' ++ C) c). split.
  - apply outline_problems_in. exists k, g, j, c. auto.
  - rewrite outline_problem_finished in *. rewrite <- app_assoc in *.
    assert (HC : forall a, In a (C ++ [c]) -> In (pf_formula a) fs /\ In (pf_formula a) fs').
    { intros a Ha. apply in_app_iff in Ha. destruct Ha as [Ha|[<-|[]]].
      - unfold C in Ha. apply in_flat_map in Ha. destruct Ha as [g' [Hg' Ha]].
        apply (Hls g'); [|left; exact Ha]. eapply in_firstn'; eauto.
      - apply (Hls g); [eapply nth_error_In; eauto|]. right. eapply nth_error_In; eauto. }
    assert (N1 : no_clash_problem (pre_problem (outline_name prefix (i + N.of_nat k) (N.of_nat j)) (ax ++ C ++ [c]))).
    { apply (pre_problem_no_clash _ _ fs Hf). intros a Ha. apply in_app_iff in Ha. destruct Ha; [auto|apply HC; auto]. }
    assert (N2 : no_clash_problem (pre_problem (outline_name prefix (i + N.of_nat k) (N.of_nat j)) (ax' ++ C ++ [c]))).
    { apply (pre_problem_no_clash _ _ fs' Hf'). intros a Ha. apply in_app_iff in Ha. destruct Ha; [auto|apply HC; auto]. }
    exact (proj1 (finished_sim _ _ _ _ N1 N2 Hs) Hr).
Qed.
End Direction.

Lemma role_sim_sym r l l' : role_sim r l l' -> role_sim r l' l.
Proof. intros [H1 [H2 H3]]. split; [exact H2|]. split; [exact H1|]. intros FI M. symmetry. apply H3. Qed.

Definition direction_pformulas (stable premises : list pformula) (defs : list aformula_annot)
           (lemmas : list general_lemma) (cs : list pformula) : list pformula :=
  stable ++ premises ++ map (fun d => into_problem_formula d PAxiom) defs
  ++ flat_map gl_consequences lemmas ++ flat_map gl_conjectures lemmas ++ cs.

Lemma direction_sim FI M prefix stable stable' premises premises' defs lemmas cs cs' dec dec' fs fs' :
  flist_no_clash fs -> flist_no_clash fs' ->
  (forall a, In a (direction_pformulas stable premises defs lemmas cs) -> In (pf_formula a) fs) ->
  (forall a, In a (direction_pformulas stable' premises' defs lemmas cs') -> In (pf_formula a) fs') ->
  role_sim PAxiom stable stable' -> role_sim PAxiom premises premises' -> role_sim PConjecture cs cs' ->
  (refutes_some FI M (direction_problems prefix stable premises defs lemmas cs dec) <->
   refutes_some FI M (direction_problems prefix stable' premises' defs lemmas cs' dec')).
Proof.
  intros Hf Hf' Hin Hin' Ss Sp Sc. unfold direction_problems. rewrite !refutes_some_app.
  unfold direction_pformulas in Hin, Hin'.
  set (D := map (fun d => into_problem_formula d PAxiom) defs) in *.
  assert (RD : role_sim PAxiom D D).
  { apply role_sim_refl. intros x Hx. unfold D in Hx. apply in_map_iff in Hx. destruct Hx as [d [<- _]]. reflexivity. }
  assert (Sax : role_sim PAxiom (stable ++ premises ++ D) (stable' ++ premises' ++ D)).
  { apply role_sim_app; [exact Ss|]. apply role_sim_app; [exact Sp|exact RD]. }
  assert (Hls : forall g a, In g lemmas -> In a (gl_consequences g) \/ In a (gl_conjectures g) ->
                            In (pf_formula a) fs /\ In (pf_formula a) fs').
  { intros g a Hg Ha. split; [apply Hin|apply Hin']; rewrite !in_app_iff;
      (destruct Ha as [Ha|Ha]; [do 3 right; left|do 4 right; left]); apply in_flat_map; exists g; auto. }
  assert (Hax : forall a, In a (stable ++ premises ++ D) -> In (pf_formula a) fs).
  { intros a Ha. apply Hin. rewrite !in_app_iff in *. tauto. }
  assert (Hax' : forall a, In a (stable' ++ premises' ++ D) -> In (pf_formula a) fs').
  { intros a Ha. apply Hin'. rewrite !in_app_iff in *. tauto. }
  assert (O : refutes_some FI M (outline_problems prefix 0 (stable ++ premises ++ D) lemmas) <->
              refutes_some FI M (outline_problems prefix 0 (stable' ++ premises' ++ D) lemmas)).
  { split.
    - apply (outline_sim_one FI M prefix lemmas _ _ fs fs'); auto.
    - apply (outline_sim_one FI M prefix lemmas _ _ fs' fs); auto.
      + intros g a Hg Ha. destruct (Hls g a Hg Ha). auto.
      + apply role_sim_sym, Sax. }
  assert (N : no_clash_problem (pre_problem (prefix ++ "_problem") (stable ++ premises ++ flat_map gl_consequences lemmas ++ cs))).
  { apply (pre_problem_no_clash _ _ fs Hf). intros a Ha. apply Hin. rewrite !in_app_iff in *. tauto. }
  assert (N' : no_clash_problem (pre_problem (prefix ++ "_problem") (stable' ++ premises' ++ flat_map gl_consequences lemmas ++ cs'))).
  { apply (pre_problem_no_clash _ _ fs' Hf'). intros a Ha. apply Hin'. rewrite !in_app_iff in *. tauto. }
  destruct Ss as [As [As' Es]]. destruct Sp as [Ap [Ap' Ep]]. destruct Sc as [Ac [Ac' Ec]].
  rewrite (final_refutes FI M _ _ _ _ _ dec N Ac), (final_refutes FI M _ _ _ _ _ dec' N' Ac').
  rewrite O. rewrite !ax_forms_axioms, !cj_forms_axioms by assumption.
  rewrite !tvalid_app, (Es FI M), (Ep FI M), (Ec FI M). reflexivity.
Qed.

Lemma in_at_formulas_dir t (fwd : bool) a :
  In a (direction_pformulas (at_stable_premises t)
          (if fwd then at_forward_premises t else at_backward_premises t)
          (if fwd then forward_definitions (at_proof_outline t) else backward_definitions (at_proof_outline t))
          (if fwd then forward_lemmas (at_proof_outline t) else backward_lemmas (at_proof_outline t))
          (if fwd then at_forward_conclusions t else at_backward_conclusions t)) ->
  In (pf_formula a) (at_formulas t).
Proof.
  unfold direction_pformulas, at_formulas. rewrite !in_app_iff. intros [H|[H|[H|[H|[H|H]]]]].
  - left. apply in_map, H.
  - destruct fwd; [right; left; apply in_map, H|do 3 right; left; apply in_map, H].
  - apply in_map_iff in H. destruct H as [d [<- Hd]]. cbn.
    destruct fwd; [do 5 right; left|do 6 right; left]; apply in_map, Hd.
  - apply in_flat_map in H. destruct H as [g [Hg Ha]].
    destruct fwd; [do 7 right; left|do 8 right]; apply in_flat_map; exists g; split; auto;
      unfold lemma_forms; apply in_app_iff; right; apply in_map, Ha.
  - apply in_flat_map in H. destruct H as [g [Hg Ha]].
    destruct fwd; [do 7 right; left|do 8 right]; apply in_flat_map; exists g; split; auto;
      unfold lemma_forms; apply in_app_iff; left; apply in_map, Ha.
  - destruct fwd; [do 2 right; left; apply in_map, H|do 4 right; left; apply in_map, H].
Qed.

(* the validated level: similar sides, any eq-break / decomposition flags *)
Theorem external_sim (vt vt' : validated_task) :
  Forall2 annot_sim (vt_left vt) (vt_left vt') -> Forall2 annot_sim (vt_right vt) (vt_right vt') ->
  vt_user_guide_assumptions vt = vt_user_guide_assumptions vt' ->
  vt_proof_outline vt = vt_proof_outline vt' -> vt_direction vt = vt_direction vt' ->
  forall w pbs w' pbs',
    validated_decompose vt = Ok (w, pbs) -> validated_decompose vt' = Ok (w', pbs') ->
    validated_no_clash vt -> validated_no_clash vt' ->
    forall (FI : fint) (M : pint), refutes_some FI M pbs <-> refutes_some FI M pbs'.
Proof.
  intros SL SR EU EO ED w pbs w' pbs' Hd Hd' Hn Hn' FI M.
  unfold validated_decompose in Hd, Hd'.
  destruct (validated_assemble vt) as [[w0 a]|] eqn:Ea; [|discriminate]. injection Hd as <- <-.
  destruct (validated_assemble vt') as [[w0' a']|] eqn:Ea'; [|discriminate]. injection Hd' as <- <-.
  specialize (Hn _ _ Ea). specialize (Hn' _ _ Ea').
  unfold validated_assemble in Ea, Ea'. rewrite <- EU in Ea'.
  set (s0 := mkvacc (map (fun a => into_problem_formula a PAxiom) (vt_user_guide_assumptions vt)) [] [] [] [] []) in *.
  assert (R0 : vacc_sim s0 s0).
  { unfold vacc_sim, s0; cbn [va_stable va_fp va_bp va_fc va_bc].
    split; [|split; [|split; [|split]]]; try apply role_sim_nil.
    apply role_sim_refl. intros x Hx. apply in_map_iff in Hx. destruct Hx as [d [<- _]]. reflexivity. }
  pose proof (fold_sim _ _ (left_step_sim (vt_break vt) (vt_break vt')) _ _ SL s0 s0 R0) as R1.
  unfold opt_rel in R1.
  destruct (fold_opt (validated_left_step (vt_break vt)) (vt_left vt) s0) as [s1|]; [|discriminate].
  destruct (fold_opt (validated_left_step (vt_break vt')) (vt_left vt') s0) as [s1'|]; [|discriminate].
  pose proof (fold_sim _ _ (right_step_sim (vt_break vt) (vt_break vt')) _ _ SR s1 s1' R1) as R2.
  unfold opt_rel in R2.
  destruct (fold_opt (validated_right_step (vt_break vt)) (vt_right vt) s1) as [s|]; [|discriminate].
  destruct (fold_opt (validated_right_step (vt_break vt')) (vt_right vt') s1') as [s'|]; [|discriminate].
  injection Ea as _ <-. injection Ea' as _ <-.
  destruct R2 as [S1 [S2 [S3 [S4 S5]]]].
  unfold assembled_decompose. cbn [at_direction at_stable_premises at_forward_premises at_forward_conclusions
    at_backward_premises at_backward_conclusions at_proof_outline at_decomposition].
  rewrite <- EO, <- ED. rewrite !refutes_some_app.
  unfold assembled_no_clash in Hn, Hn'.
  assert (Hf : refutes_some FI M (direction_problems "forward" (va_stable s) (va_fp s) (forward_definitions (vt_proof_outline vt))
        (forward_lemmas (vt_proof_outline vt)) (va_fc s) (vt_decomposition vt)) <->
     refutes_some FI M (direction_problems "forward" (va_stable s') (va_fp s') (forward_definitions (vt_proof_outline vt))
        (forward_lemmas (vt_proof_outline vt)) (va_fc s') (vt_decomposition vt'))).
  { eapply direction_sim; [exact Hn|exact Hn'| | |exact S1|exact S2|exact S4].
    - intros x Hx. apply (in_at_formulas_dir _ true x). exact Hx.
    - intros x Hx. apply (in_at_formulas_dir _ true x). cbn. rewrite <- EO. exact Hx. }
  assert (Hb : refutes_some FI M (direction_problems "backward" (va_stable s) (va_bp s) (backward_definitions (vt_proof_outline vt))
        (backward_lemmas (vt_proof_outline vt)) (va_bc s) (vt_decomposition vt)) <->
     refutes_some FI M (direction_problems "backward" (va_stable s') (va_bp s') (backward_definitions (vt_proof_outline vt))
        (backward_lemmas (vt_proof_outline vt)) (va_bc s') (vt_decomposition vt'))).
  { eapply direction_sim; [exact Hn|exact Hn'| | |exact S1|exact S3|exact S5].
    - intros x Hx. apply (in_at_formulas_dir _ false x). exact Hx.
    - intros x Hx. apply (in_at_formulas_dir _ false x). cbn. rewrite <- EO. exact Hx. }
  destruct (dir_forward (vt_direction vt)), (dir_backward (vt_direction vt));
    rewrite ?Hf, ?Hb; reflexivity.
Qed.

(* ------------------------------------------------------------------ the proof outline does not depend on `taken` *)
Lemma definition_indep f taken taken' p w p' w' :
  definition f taken = Ok (p, w) -> definition f taken' = Ok (p', w') -> p = p' /\ w = w'.
Proof.
  unfold definition. destruct f as [| | |q variables g]; try discriminate.
  destruct q; try discriminate. destruct g as [| |c lhs rhs|]; try discriminate.
  destruct c; try discriminate. destruct lhs as [[| |s ts|]| | |]; try discriminate.
  destruct (Nat.ltb _ _); try discriminate.
  destruct (terms_as_vars ts []) as [tv|bad]; try discriminate.
  destruct (negb (set_eqb var_dec _ tv)); try discriminate.
  destruct (memb pred_dec _ taken); try discriminate. destruct (memb pred_dec _ taken'); try discriminate.
  destruct (negb (subsetb var_dec (free_variables rhs) _)); try discriminate.
  destruct (find _ (predicates rhs)); try discriminate.
  destruct (find _ (predicates rhs)); try discriminate.
  intros [= <- <-] [= <- <-]. auto.
Qed.

Lemma from_specification_loop_indep m : forall l taken taken' o ws ws' o1 w1 o2 w2,
  from_specification_loop l taken m o ws = Ok (o1, w1) ->
  from_specification_loop l taken' m o ws' = Ok (o2, w2) -> o1 = o2.
Proof.
  induction l as [|anf0 l IH]; intros taken taken' o ws ws' o1 w1 o2 w2; cbn [from_specification_loop].
  - intros [= <- _] [= <- _]. reflexivity.
  - destruct (an_role (rp_annot m anf0)); try discriminate.
    + destruct (general_lemma_try_from _) as [g|e|]; try discriminate. apply IH.
    + destruct (definition _ taken) as [[p w]|e|] eqn:E1; try discriminate.
      destruct (definition _ taken') as [[p' w']|e|] eqn:E2; try discriminate.
      destruct (definition_indep _ _ _ _ _ _ _ E1 E2) as [<- <-]. apply IH.
    + destruct (general_lemma_try_from _) as [g|e|]; try discriminate. apply IH.
Qed.
Lemma from_specification_indep s m taken taken' o1 w1 o2 w2 :
  from_specification s taken m = Ok (o1, w1) -> from_specification s taken' m = Ok (o2, w2) -> o1 = o2.
Proof. apply from_specification_loop_indep. Qed.

(* ------------------------------------------------------------------ from the task *)
Section Task.
Variable is_tight : program -> bool.
Variable has_private_recursion : program -> list pred -> bool.
Variable tau_star : program -> theory.
Variable completion : theory -> list pred -> option theory.
Variable simp_classic : formula -> formula.
Notation decompose_ext := (external_decompose is_tight has_private_recursion tau_star completion simp_classic).
Notation translate := (theory_translate tau_star completion simp_classic).

Definition task_m (t : ext_task) : placeholders := ph_of_fconsts (ug_placeholders (et_user_guide t)).
Definition task_public (t : ext_task) : list pred := ug_public_predicates (et_user_guide t).
Definition task_renaming (t : ext_task) : list (pred * string) :=
  map (fun p => (p, "p")) (iset_inter pred_dec (task_spec_private t) (task_prog_private t)).

(* the left and right formula lists handed to the validated task *)
Definition side_left (t : ext_task) : option specification :=
  match et_specification t with
  | inl p => option_map (control_translate (task_public t)) (translate t (task_m t) p)
  | inr s => Some (rp_spec (task_m t) s)
  end.
Definition side_right (t : ext_task) : option specification :=
  option_map (fun rt => map (rename_predicates_annot (task_renaming t)) (control_translate (task_public t) rt))
             (translate t (task_m t) (et_program t)).
Definition task_taken (t : ext_task) (lft rgt : list aformula_annot) : list pred :=
  extend_all pred_dec (fun a => predicates (an_formula a))
    (extend_all pred_dec (fun a => predicates (an_formula a)) (ug_input_predicates (et_user_guide t)) lft) rgt.

(* the validated task behind an accepted task (None: a translation panicked, or the user guide /
   the proof outline was refused) *)
Definition task_validated (t : ext_task) : option validated_task :=
  match side_left t, side_right t with
  | Some lft, Some rgt =>
      match user_guide_assumptions (ug_output_predicates (et_user_guide t)) (task_m t) (ug_formulas (et_user_guide t)) [] [] with
      | Ok (uga, _) =>
          match from_specification (et_proof_outline t) (task_taken t lft rgt) (task_m t) with
          | Ok (o, _) => Some (mkvalidated lft rgt uga o (et_decomposition t) (et_direction t) (et_break t))
          | _ => None
          end
      | _ => None
      end
  | _, _ => None
  end.

Lemma external_task_validated t w pbs : decompose_ext t = Ok (w, pbs) ->
  exists vt w3, task_validated t = Some vt /\ validated_decompose vt = Ok (w3, pbs).
Proof.
  intros H. unfold external_decompose in H. cbv zeta in H.
  unfold task_validated, side_left, side_right, task_taken, task_m, task_public, task_renaming,
    task_spec_private, task_prog_private.
  destruct (external_validate is_tight has_private_recursion t) as [w0|e|]; try discriminate.
  match type of H with match ?x with _ => _ end = _ => destruct x as [lft|] eqn:EL end; [|discriminate].
  match type of H with match ?x with _ => _ end = _ => destruct x as [rt|] eqn:ER end; [|discriminate].
  cbn [option_map].
  match type of H with match ?x with _ => _ end = _ => destruct x as [[uga w1]|e|] eqn:EU end; try discriminate.
  match type of H with match ?x with _ => _ end = _ => destruct x as [[o pw]|e|] eqn:EO end; try discriminate.
  match type of H with match ?x with _ => _ end = _ => destruct x as [[w3 pbs']|e|] eqn:EV end; try discriminate.
  injection H as _ <-. eexists _, _. split; [reflexivity|exact EV].
Qed.

(* the two hypotheses on the simplification component *)
Hypothesis simp_sound : forall FI M f, cvalid FI M (simp_classic f) <-> cvalid FI M f.
Hypothesis simp_roles : forall ins outs occ p m D,
  completion (rp_theory m (tau_star p)) ins = Some D ->
  forall f, In f (D ++ missing_output_definitions outs occ D) -> head_predicate (simp_classic f) = head_predicate f.

Lemma annot_map_sim a : annot_sim (annot_map simp_classic a) a.
Proof. split; [reflexivity|]. split; [reflexivity|]. intros FI M. apply simp_sound. Qed.

(* the translated theories of one program under two settings of the flags: same roles, same
   directions, equivalent formulas *)
Lemma translate_sim t t' p th th' :
  et_user_guide t = et_user_guide t' ->
  task_occurring_predicates t = task_occurring_predicates t' ->
  translate t (task_m t) p = Some th -> translate t' (task_m t') p = Some th' ->
  Forall2 annot_sim (control_translate (task_public t) th) (control_translate (task_public t') th').
Proof.
  intros Eu Eoc. unfold theory_translate, task_m, task_public. rewrite <- Eu, <- Eoc.
  destruct (completion _ _) as [D|] eqn:HD; [|discriminate]. cbv zeta. intros [= <-] [= <-].
  pose proof (simp_roles _ (ug_output_predicates (et_user_guide t)) (task_occurring_predicates t) _ _ _ HD) as Hr.
  set (D' := D ++ missing_output_definitions (ug_output_predicates (et_user_guide t)) (task_occurring_predicates t) D) in *.
  unfold control_translate.
  destruct (et_simplify t), (et_simplify t'); try apply annot_sim_refl_list.
  - rewrite (control_translate_from_map simp_classic _ D' Hr).
    rewrite <- (map_id (control_translate_from _ 0 D')) at 2.
    apply Forall2_map2. intros a _. apply annot_map_sim.
  - rewrite (control_translate_from_map simp_classic _ D' Hr).
    rewrite <- (map_id (control_translate_from _ 0 D')) at 1.
    apply Forall2_map2. intros a _. apply annot_sim_sym, annot_map_sim.
Qed.

(* two tasks that state the same claim: same specification, program, user guide, proof outline and
   direction; every flag (simplify, eq-break, decomposition, and also bypass-tightness) is free *)
Definition same_claim (t t' : ext_task) : Prop :=
  et_specification t = et_specification t' /\ et_program t = et_program t' /\
  et_user_guide t = et_user_guide t' /\ et_proof_outline t = et_proof_outline t' /\
  et_direction t = et_direction t'.

Theorem external_flags_partial t t' w pbs w' pbs' :
  same_claim t t' ->
  decompose_ext t = Ok (w, pbs) -> decompose_ext t' = Ok (w', pbs') ->
  (forall vt, task_validated t = Some vt -> validated_no_clash vt) ->
  (forall vt, task_validated t' = Some vt -> validated_no_clash vt) ->
  forall FI M, refutes_some FI M pbs <-> refutes_some FI M pbs'.
Proof.
  intros [Es [Ep [Eu [Eo Ed]]]] Hd Hd' Hn Hn' FI M.
  destruct (external_task_validated t w pbs Hd) as [vt [w3 [Hv Hvd]]].
  destruct (external_task_validated t' w' pbs' Hd') as [vt' [w3' [Hv' Hvd']]].
  specialize (Hn vt Hv). specialize (Hn' vt' Hv').
  unfold task_validated in Hv, Hv'.
  destruct (side_left t) as [lft|] eqn:EL; [|discriminate].
  destruct (side_right t) as [rgt|] eqn:ER; [|discriminate].
  destruct (side_left t') as [lft'|] eqn:EL'; [|discriminate].
  destruct (side_right t') as [rgt'|] eqn:ER'; [|discriminate].
  assert (Em : task_m t = task_m t') by (unfold task_m; rewrite Eu; reflexivity).
  (* the flags do not change which predicates occur in the task (/repo 18b2e85) *)
  assert (Eoc : task_occurring_predicates t = task_occurring_predicates t').
  { unfold task_occurring_predicates. rewrite Es, Ep. reflexivity. }
  assert (Er : task_renaming t = task_renaming t').
  { unfold task_renaming, task_spec_private, task_prog_private. rewrite Es, Ep, Eu. reflexivity. }
  rewrite <- Eu, <- Em, <- Eo in Hv'.
  destruct (user_guide_assumptions _ _ _ [] []) as [[uga w1]|e|]; try discriminate.
  destruct (from_specification _ (task_taken t lft rgt) _) as [[o pw]|e|] eqn:Eo1; try discriminate.
  destruct (from_specification _ (task_taken t' lft' rgt') _) as [[o' pw']|e|] eqn:Eo2; try discriminate.
  pose proof (from_specification_indep _ _ _ _ _ _ _ _ Eo1 Eo2) as <-.
  injection Hv as <-. injection Hv' as <-.
  assert (SL : Forall2 annot_sim lft lft').
  { unfold side_left in EL, EL'. rewrite <- Es in EL'. destruct (et_specification t) as [p|s].
    - destruct (translate t (task_m t) p) as [th|] eqn:T; [|discriminate].
      destruct (translate t' (task_m t') p) as [th'|] eqn:T'; [|discriminate].
      injection EL as <-. injection EL' as <-. eapply translate_sim; eauto.
    - rewrite <- Em in EL'. injection EL as <-. injection EL' as <-. apply annot_sim_refl_list. }
  assert (SR : Forall2 annot_sim rgt rgt').
  { unfold side_right in ER, ER'. rewrite <- Ep, <- Er in ER'.
    destruct (translate t (task_m t) (et_program t)) as [th|] eqn:T; [|discriminate].
    destruct (translate t' (task_m t') (et_program t)) as [th'|] eqn:T'; [|discriminate].
    injection ER as <-. injection ER' as <-.
    apply (Forall2_map_both annot_sim annot_sim); [intros x y; apply annot_sim_rename|].
    eapply translate_sim; eauto. }
  eapply external_sim; [| | | | |exact Hvd|exact Hvd'|exact Hn|exact Hn']; cbn; auto.
Qed.
End Task.
