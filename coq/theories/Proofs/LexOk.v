(* The lexer of Model/TffText.v reads the bytes of a rendered token list back as that token list:
   [lex_go st (prender pts ++ rest)] for well-separated tokens.  Used for the formula bodies
   (tokens of [print_formula]) and for whole statement lines. *)
From Coq Require Import List Ascii String ZArith NArith Bool Lia DecimalString DecimalN DecimalPos.
From Anthem Require Import Base.Fresh Syntax.Fol Syntax.Tff Sem.TffSem Model.TptpPrint Model.TffText
  Proofs.TptpRead Proofs.PipelineOk.
Import ListNotations.
Open Scope string_scope.
Open Scope list_scope.

Lemma sapp_assoc' (a b c : string) : ((a ++ b) ++ c = a ++ (b ++ c))%string.
Proof. induction a as [|x a IH]; cbn; [reflexivity|]. rewrite IH. reflexivity. Qed.
Lemma sapp_nil_r (a : string) : (a ++ "" = a)%string.
Proof. induction a as [|x a IH]; cbn; [reflexivity|]. rewrite IH. reflexivity. Qed.
Lemma omap_nil {A} (x : option (list A)) : option_map (app []) x = x.
Proof. destruct x; reflexivity. Qed.
Lemma omap_omap {A} (f g : list A -> list A) x : option_map f (option_map g x) = option_map (fun l => f (g l)) x.
Proof. destruct x; reflexivity. Qed.
Lemma omap_ext {A B} (f g : A -> B) x : (forall a, f a = g a) -> option_map f x = option_map g x.
Proof. intros H. destruct x; cbn; [rewrite H|]; reflexivity. Qed.

(* ---------- byte rendering of problem-level tokens ---------- *)
Definition ptoken_str (t : ptoken) : string :=
  match t with PT k => token_str k | PDot => "." | PStar => " * " | PGt => " > " end.
Definition prender (pts : list ptoken) : string := String.concat "" (map ptoken_str pts).

Lemma concat_cons s l : String.concat "" (s :: l) = (s ++ String.concat "" l)%string.
Proof. destruct l; cbn [String.concat]; [rewrite sapp_nil_r|]; reflexivity. Qed.
Lemma concat_app l1 l2 : String.concat "" (l1 ++ l2) = (String.concat "" l1 ++ String.concat "" l2)%string.
Proof.
  induction l1 as [|s l1 IH]; [reflexivity|]. rewrite <- app_comm_cons, !concat_cons, IH, sapp_assoc'. reflexivity.
Qed.
Lemma prender_cons t l : prender (t :: l) = (ptoken_str t ++ prender l)%string.
Proof. unfold prender. cbn [map]. apply concat_cons. Qed.
Lemma prender_app a b : prender (a ++ b) = (prender a ++ prender b)%string.
Proof. unfold prender. rewrite map_app. apply concat_app. Qed.
Lemma prender_PT ts : prender (map PT ts) = render ts.
Proof. unfold prender, render. rewrite map_map. reflexivity. Qed.

(* ---------- the machine on a prefix ---------- *)
Fixpoint lex_run (st : lstate) (s : string) : option (list ptoken * lstate) :=
  match s with
  | EmptyString => Some ([], st)
  | String c r =>
      match step st c with
      | Some (o, st') => match lex_run st' r with Some (o', st'') => Some (o ++ o', st'') | None => None end
      | None => None
      end
  end.
Lemma lex_go_app s : forall st rest,
  lex_go st (s ++ rest) =
  match lex_run st s with Some (out, st') => option_map (app out) (lex_go st' rest) | None => None end.
Proof.
  induction s as [|c s IH]; intros st rest; cbn [append lex_go lex_run].
  - rewrite omap_nil. reflexivity.
  - destruct (step st c) as [[o st']|]; [|reflexivity]. rewrite IH.
    destruct (lex_run st' s) as [[o' st'']|]; [|reflexivity].
    rewrite omap_omap. apply omap_ext. intros l. rewrite app_assoc. reflexivity.
Qed.

(* ---------- words and numerals ---------- *)
Definition word_ok (w : string) : bool :=
  match w with String c r => is_word_char c && negb (is_digit c) && all_chars is_word_char r | EmptyString => false end.
Lemma alnum_word c : is_alnum_ c = true -> is_word_char c = true.
Proof. unfold is_word_char. intros ->. reflexivity. Qed.
Lemma lower_word_ok w : is_lower_word w = true -> word_ok w = true.
Proof.
  destruct w as [|c r]; [discriminate|]. cbn [is_lower_word word_ok]. rewrite !andb_true_iff. intros [H1 H2].
  repeat split.
  - apply alnum_word. unfold is_alnum_. rewrite H1. rewrite !orb_true_r. reflexivity.
  - unfold is_lower, is_digit in *. apply andb_true_iff in H1. destruct H1 as [H1 _]. apply Nat.leb_le in H1.
    apply negb_true_iff. apply andb_false_iff. right. apply Nat.leb_gt. lia.
  - revert H2. apply all_chars_impl, alnum_word.
Qed.
Lemma upper_word_ok w : is_upper_word w = true -> word_ok w = true.
Proof.
  destruct w as [|c r]; [discriminate|]. cbn [is_upper_word word_ok]. rewrite !andb_true_iff. intros [H1 H2].
  repeat split.
  - apply alnum_word. unfold is_alnum_. rewrite H1. reflexivity.
  - unfold is_upper, is_digit in *. apply andb_true_iff in H1. destruct H1 as [H1 _]. apply Nat.leb_le in H1.
    apply negb_true_iff. apply andb_false_iff. right. apply Nat.leb_gt. lia.
  - revert H2. apply all_chars_impl, alnum_word.
Qed.
Lemma word_ok_app w s : word_ok w = true -> all_chars is_word_char s = true -> word_ok (w ++ s) = true.
Proof.
  destruct w as [|c r]; [discriminate|]. cbn [append word_ok]. rewrite !andb_true_iff, all_chars_app, andb_true_iff. tauto.
Qed.
Lemma word_chars w : word_ok w = true -> all_chars is_word_char w = true.
Proof. destruct w as [|c r]; [discriminate|]. cbn. rewrite !andb_true_iff. tauto. Qed.

Lemma word_ext w : forall a R, all_chars is_word_char w = true ->
  lex_go (LWord a) (w ++ R) = lex_go (LWord (a ++ w)) R.
Proof.
  induction w as [|c w IH]; intros a R H; cbn [append].
  - rewrite sapp_nil_r. reflexivity.
  - cbn in H. apply andb_true_iff in H. destruct H as [Hc Hw].
    cbn [lex_go]. unfold step. rewrite Hc. rewrite omap_nil, IH by exact Hw.
    rewrite sapp_assoc'. reflexivity.
Qed.

Lemma numeral_value_nat_str n : numeral_value (nat_str n) = n.
Proof. unfold numeral_value, nat_str. rewrite NilEmpty.usu. apply DecimalN.Unsigned.of_to. Qed.
Lemma nat_str_first n : exists c r, nat_str n = String c r /\ is_digit c = true.
Proof.
  pose proof (nat_str_digits n) as H. unfold nat_str in *.
  destruct n as [|p]; [exists "0"%char, ""; split; reflexivity|].
  cbn [N.to_uint] in *. pose proof (DecimalPos.Unsigned.to_uint_nonnil p) as Hn.
  destruct (Pos.to_uint p) eqn:E; try congruence; cbn in *; eexists _, _; split; try reflexivity; reflexivity.
Qed.
Lemma digit_word c : is_digit c = true -> is_word_char c = true.
Proof. intros H. apply alnum_word, digit_alnum, H. Qed.
Lemma flush_num n : flush (LWord (nat_str n)) = Some [PT (KNum n)].
Proof.
  destruct (nat_str_first n) as (c & r & E & Hd). unfold flush. rewrite E, Hd, <- E, nat_str_digits, numeral_value_nat_str.
  reflexivity.
Qed.
Lemma flush_word w : word_ok w = true -> flush (LWord w) = Some [PT (KWord w)].
Proof.
  destruct w as [|c r]; [discriminate|]. cbn [word_ok flush]. rewrite !andb_true_iff, negb_true_iff.
  intros [[_ ->] _]. reflexivity.
Qed.

(* ---------- one token ---------- *)
(* 0 = complete when its bytes end; 1 = a word/numeral run; 2 = an operator run (only `!`) *)
Definition pend (t : ptoken) : nat :=
  match t with PT (KWord _) | PT (KNum _) => 1 | PT KAll => 2 | _ => 0 end.
Definition spend (st : lstate) : nat := match st with LIdle => 0 | LWord _ => 1 | LOp _ => 2 end.
Definition ptok_ok (t : ptoken) : bool := match t with PT (KWord w) => word_ok w | _ => true end.
Definition after (t : ptoken) : lstate :=
  match t with
  | PT (KWord w) => LWord w
  | PT (KNum n) => LWord (nat_str n)
  | PT KAll => LOp "!"
  | _ => LIdle
  end.
Definition out_now (t : ptoken) : list ptoken := match pend t with 0 => [t] | _ => [] end.
Definition out_later (t : ptoken) : list ptoken := match pend t with 0 => [] | _ => [t] end.
Lemma out_split t : out_now t ++ out_later t = [t].
Proof. destruct t as [[]| | |]; reflexivity. Qed.
Lemma flush_after t : ptok_ok t = true -> flush (after t) = Some (out_later t).
Proof.
  destruct t as [[w|n| | | | | | | | | | | | | | | | ]| | |]; cbn [after ptok_ok]; intros H; try reflexivity.
  - exact (flush_word w H).
  - exact (flush_num n).
Qed.

Definition compat (st : lstate) (t : ptoken) : Prop := pend t = 0 \/ spend st <> pend t.

Lemma step_other st c : is_word_char c = false -> is_op_char c = false ->
  step st c = match flush st with
              | Some f => if is_space c then Some (f, LIdle)
                          else match punct c with Some t => Some (f ++ [t], LIdle) | None => None end
              | None => None
              end.
Proof. intros H1 H2. unfold step. rewrite H1, H2. reflexivity. Qed.
Lemma lex_run_cons st c r :
  lex_run st (String c r) =
  match step st c with
  | Some (o, st') => match lex_run st' r with Some (o', st'') => Some (o ++ o', st'') | None => None end
  | None => None
  end.
Proof. reflexivity. Qed.
(* a token that is complete when its bytes end: they all start with a blank or a punctuation mark *)
Lemma closed_run t st : pend t = 0 ->
  lex_run st (ptoken_str t) = match flush st with Some f => Some (f ++ [t], LIdle) | None => None end.
Proof.
  intros H. destruct t as [[]| | |]; try discriminate H; cbn [ptoken_str token_str];
    (match goal with |- lex_run _ (String ?c ?r) = _ =>
       rewrite (lex_run_cons st c r); rewrite (step_other st c) by (vm_compute; reflexivity) end);
    (destruct (flush st) as [f|]; [|reflexivity]); cbv -[app]; rewrite ?app_nil_r, <- ?app_assoc; reflexivity.
Qed.

Lemma tok_step t st R : ptok_ok t = true -> compat st t ->
  lex_go st (ptoken_str t ++ R) =
  match flush st with Some f => option_map (app (f ++ out_now t)) (lex_go (after t) R) | None => None end.
Proof.
  intros Hok Hc.
  destruct (Nat.eq_dec (pend t) 0) as [Hp|Hp].
  { rewrite lex_go_app, (closed_run t st Hp). destruct (flush st) as [f|]; [|reflexivity].
    destruct t as [[]| | |]; try discriminate Hp; reflexivity. }
  destruct t as [[w|n| | | | | | | | | | | | | | | | ]| | |]; try (exfalso; apply Hp; reflexivity);
    cbn [ptoken_str token_str after out_now pend].
  - (* word *)
    cbn [ptok_ok] in Hok. pose proof (word_chars w Hok) as Hw. destruct w as [|c w']; [discriminate|].
    cbn in Hw. apply andb_true_iff in Hw. destruct Hw as [Hc1 Hw'].
    cbn [append lex_go]. unfold step. rewrite Hc1.
    destruct st as [|a|o]; [| destruct Hc as [Hc|Hc]; [discriminate Hc|cbn in Hc; congruence] |].
    + cbn [flush]. rewrite word_ext by exact Hw'. rewrite !omap_nil. reflexivity.
    + destruct (flush (LOp o)) as [f|]; [|reflexivity]. rewrite word_ext by exact Hw'. rewrite app_nil_r. reflexivity.
  - (* numeral *)
    destruct (nat_str_first n) as (c & r & E & Hd). pose proof (nat_str_digits n) as Hds.
    rewrite E in *. cbn in Hds. apply andb_true_iff in Hds. destruct Hds as [_ Hr].
    cbn [append lex_go]. unfold step. rewrite (digit_word c Hd).
    assert (Hr' : all_chars is_word_char r = true) by (revert Hr; apply all_chars_impl, digit_word).
    destruct st as [|a|o]; [| destruct Hc as [Hc|Hc]; [discriminate Hc|cbn in Hc; congruence] |].
    + cbn [flush]. rewrite word_ext by exact Hr'. rewrite !omap_nil. reflexivity.
    + destruct (flush (LOp o)) as [f|]; [|reflexivity]. rewrite word_ext by exact Hr'. rewrite app_nil_r. reflexivity.
  - (* ! *)
    cbn [append lex_go]. unfold step.
    change (is_word_char "!"%char) with false. change (is_op_char "!"%char) with true. cbn iota.
    destruct st as [|a|o]; [| |destruct Hc as [Hc|Hc]; [discriminate Hc|cbn in Hc; congruence]].
    + cbn [flush]. rewrite !omap_nil. reflexivity.
    + destruct (flush (LWord a)) as [f|]; [|reflexivity]. rewrite app_nil_r. reflexivity.
Qed.

(* ---------- what may follow a rendered token list ---------- *)
Definition closing (rest : string) : Prop :=
  match rest with EmptyString => True | String c _ => is_word_char c = false /\ is_op_char c = false end.
Lemma lex_closing st rest : closing rest ->
  lex_go st rest = match flush st with Some f => option_map (app f) (lex_go LIdle rest) | None => None end.
Proof.
  destruct rest as [|c r]; cbn [closing lex_go].
  - intros _. destruct (flush st); cbn; [rewrite app_nil_r|]; reflexivity.
  - intros [H1 H2]. unfold step. rewrite H1, H2. cbn [flush].
    destruct (flush st) as [f|]; [|reflexivity].
    destruct (is_space c).
    + rewrite omap_nil. reflexivity.
    + destruct (punct c); [|reflexivity]. rewrite omap_omap. apply omap_ext. intros l. cbn. rewrite <- app_assoc. reflexivity.
Qed.

(* adjacent tokens never continue each other's run *)
Fixpoint chain_ok (prev : nat) (pts : list ptoken) : bool :=
  match pts with
  | [] => true
  | t :: r => ptok_ok t && (Nat.eqb (pend t) 0 || negb (Nat.eqb prev (pend t))) && chain_ok (pend t) r
  end.
Lemma spend_after t : spend (after t) = pend t.
Proof. destruct t as [[]| | |]; reflexivity. Qed.

Theorem lex_prender : forall pts st rest, chain_ok (spend st) pts = true -> closing rest ->
  lex_go st (prender pts ++ rest) =
  match flush st with Some f => option_map (fun l => f ++ pts ++ l) (lex_go LIdle rest) | None => None end.
Proof.
  induction pts as [|t pts IH]; intros st rest Hch Hcl.
  - cbn [prender map String.concat append app]. apply lex_closing, Hcl.
  - cbn [chain_ok] in Hch. rewrite !andb_true_iff in Hch. destruct Hch as [[Hok Hcp] Hch].
    rewrite prender_cons, sapp_assoc'. rewrite tok_step; [|exact Hok|].
    2:{ unfold compat. apply orb_true_iff in Hcp. destruct Hcp as [H|H]; [left; apply Nat.eqb_eq, H|].
        right. apply negb_true_iff, Nat.eqb_neq in H. exact H. }
    destruct (flush st) as [f|]; [|reflexivity].
    rewrite IH; [|rewrite spend_after; exact Hch|exact Hcl].
    rewrite (flush_after t Hok). rewrite omap_omap. apply omap_ext. intros l.
    rewrite <- !app_assoc. rewrite (app_assoc (out_now t)), out_split. reflexivity.
Qed.

(* ---------- the tokens of print_formula are well separated ---------- *)
Definition wordlike (k : token) : bool := match k with KWord _ | KNum _ => true | _ => false end.
Definition tok_ok (k : token) : bool := match k with KWord w => word_ok w | _ => true end.
(* no two adjacent word-like tokens, no two adjacent `!`, all words lexically fine *)
Fixpoint sepb (prev : nat) (ts : list token) : bool :=
  match ts with
  | [] => true
  | k :: r => tok_ok k && (Nat.eqb (pend (PT k)) 0 || negb (Nat.eqb prev (pend (PT k)))) && sepb (pend (PT k)) r
  end.
Lemma chain_of_sepb ts : forall prev, sepb prev ts = true -> chain_ok prev (map PT ts) = true.
Proof. induction ts as [|k ts IH]; intros prev; cbn; [reflexivity|]. rewrite !andb_true_iff. intros [[H1 H2] H3]. auto. Qed.

Definition sep (ts : list token) : bool := sepb 0 ts.
(* x ++ k :: y with a punctuation token k *)
Lemma sepb_app_punct x k y : pend (PT k) = 0 -> forall prev,
  sepb prev (x ++ k :: y) = sepb prev x && sepb 0 y.
Proof.
  intros Hk. induction x as [|a x IH]; intros prev; cbn [app sepb].
  - rewrite Hk. destruct k; cbn in Hk |- *; try discriminate; reflexivity.
  - rewrite IH. rewrite !andb_assoc. reflexivity.
Qed.
Lemma sep_app_punct x k y : pend (PT k) = 0 -> sep (x ++ k :: y) = sep x && sep y.
Proof. intros H. apply sepb_app_punct, H. Qed.
Lemma sep_snoc_punct x k : pend (PT k) = 0 -> sep (x ++ [k]) = sep x.
Proof. intros H. rewrite sep_app_punct by exact H. cbn. apply andb_true_r. Qed.
Lemma sep_cons_punct k y : pend (PT k) = 0 -> sep (k :: y) = sep y.
Proof. intros H. apply (sep_app_punct [] k y H). Qed.
Lemma sep_word_paren w y : sep (KWord w :: KLPar :: y) = word_ok w && sep y.
Proof. cbn. rewrite andb_true_r. reflexivity. Qed.
Lemma sep_word w : sep [KWord w] = word_ok w.
Proof. cbn. rewrite !andb_true_r. reflexivity. Qed.

Ltac sepnorm := repeat (rewrite <- app_assoc || rewrite <- app_comm_cons); cbn [app].

Lemma word_suffix_lower c s : is_lower_word c = true -> word_ok (c ++ suffix s) = true.
Proof. intros H. apply lower_word_ok, lower_suffix, H. Qed.
Lemma word_suffix_upper x s : is_upper_word x = true -> word_ok (x ++ suffix s) = true.
Proof. intros H. apply upper_word_ok, upper_suffix, H. Qed.

Lemma sep_iterm t : iterm_ok t = true -> sep (print_iterm t) = true.
Proof.
  induction t as [z|c|x|[] a IH|o l IHl r IHr]; cbn [iterm_ok print_iterm]; intros Hok.
  - destruct (z <? 0)%Z; reflexivity.
  - rewrite sep_word. exact (word_suffix_lower c SInteger Hok).
  - rewrite sep_word. exact (word_suffix_upper x SInteger Hok).
  - rewrite sep_word_paren, sep_snoc_punct by reflexivity. rewrite IH by exact Hok. reflexivity.
  - apply andb_true_iff in Hok. destruct Hok as [Hl Hr].
    rewrite sep_word_paren, sep_app_punct, sep_snoc_punct by reflexivity.
    rewrite IHl, IHr by assumption. destruct o; reflexivity.
Qed.
Lemma sep_sterm t : sterm_lex t = true -> sep (print_sterm t) = true.
Proof.
  destruct t as [s|c|x]; cbn [sterm_lex print_sterm]; intros Hok; rewrite sep_word.
  - apply lower_word_ok, Hok.
  - exact (word_suffix_lower c SSymbol Hok).
  - exact (word_suffix_upper x SSymbol Hok).
Qed.
Lemma sep_gterm t : gterm_lex t = true -> sep (print_gterm t) = true.
Proof.
  destruct t as [| |c|x|a|a]; cbn [gterm_lex print_gterm]; intros Hok.
  - reflexivity.
  - reflexivity.
  - rewrite sep_word. exact (word_suffix_lower c SGeneral Hok).
  - rewrite sep_word. exact (word_suffix_upper x SGeneral Hok).
  - rewrite sep_word_paren, sep_snoc_punct by reflexivity. rewrite sep_iterm by exact Hok. reflexivity.
  - rewrite sep_word_paren, sep_snoc_punct by reflexivity. rewrite sep_sterm by exact Hok. reflexivity.
Qed.
Lemma sep_args ts : forallb gterm_lex ts = true -> sep (print_args ts) = true.
Proof.
  induction ts as [|t ts IH]; [reflexivity|]. cbn [forallb]. rewrite andb_true_iff. intros [Ht Hts].
  destruct ts as [|t' ts'].
  - cbn [print_args]. apply sep_gterm, Ht.
  - change (print_args (t :: t' :: ts')) with (print_gterm t ++ KComma :: print_args (t' :: ts')).
    rewrite sep_app_punct by reflexivity. rewrite sep_gterm, IH by assumption. reflexivity.
Qed.
Lemma sep_atom p ts : is_lower_word p = true -> forallb gterm_lex ts = true -> sep (print_atom p ts) = true.
Proof.
  intros Hp Hts. destruct ts as [|t ts]; cbn [print_atom].
  - rewrite sep_word. apply lower_word_ok, Hp.
  - rewrite sep_word_paren, sep_snoc_punct by reflexivity. rewrite (lower_word_ok p Hp), sep_args by exact Hts. reflexivity.
Qed.
Lemma eq_token_punct r : pend (PT (eq_token r)) = 0.
Proof. destruct r; reflexivity. Qed.
Lemma sep_cmp1 l r rhs : gterm_lex l = true -> gterm_lex rhs = true -> sep (print_cmp1 l r rhs) = true.
Proof.
  intros Hl Hr.
  assert (G : sep (if is_eq_rel r then print_gterm l ++ eq_token r :: print_gterm rhs
                   else KWord (rel_gen r) :: KLPar :: print_gterm l ++ KComma :: print_gterm rhs ++ [KRPar]) = true).
  { destruct (is_eq_rel r) eqn:Er.
    - rewrite sep_app_punct by apply eq_token_punct. rewrite !sep_gterm by assumption. reflexivity.
    - rewrite sep_word_paren, sep_app_punct, sep_snoc_punct by reflexivity. rewrite !sep_gterm by assumption.
      destruct r; try discriminate Er; reflexivity. }
  unfold print_cmp1. destruct l as [| |c|x|a|a]; destruct rhs as [| |c'|x'|b|b]; try exact G.
  - cbn [gterm_lex] in Hl, Hr. destruct (is_eq_rel r) eqn:Er.
    + rewrite sep_app_punct by apply eq_token_punct. rewrite !sep_iterm by assumption. reflexivity.
    + rewrite sep_word_paren, sep_app_punct, sep_snoc_punct by reflexivity. rewrite !sep_iterm by assumption.
      destruct r; try discriminate Er; reflexivity.
  - cbn [gterm_lex] in Hl, Hr. destruct (is_eq_rel r) eqn:Er.
    + rewrite sep_app_punct by apply eq_token_punct. rewrite !sep_sterm by assumption. reflexivity.
    + exact G.
Qed.
Lemma sep_chain_tail : forall gs l r rhs, gterm_lex l = true -> gterm_lex rhs = true ->
  forallb (fun g => gterm_lex (gterm_of g)) gs = true ->
  sep (print_cmp1 l r rhs ++ print_chain false rhs gs) = true.
Proof.
  induction gs as [|g gs IH]; intros l r rhs Hl Hr Hgs; cbn [print_chain].
  - rewrite app_nil_r. apply sep_cmp1; assumption.
  - cbn [forallb] in Hgs. apply andb_true_iff in Hgs. destruct Hgs as [Hg Hgs].
    cbn [app]. rewrite sep_app_punct by reflexivity. rewrite sep_cmp1, IH by assumption. reflexivity.
Qed.
Lemma sep_aformula a : aformula_lex a = true -> sep (print_aformula a) = true.
Proof.
  destruct a as [| |p ts|t gs]; cbn [aformula_lex print_aformula]; try reflexivity.
  - rewrite andb_true_iff. intros [Hp Hts]. apply sep_atom; assumption.
  - rewrite !andb_true_iff. intros [[Ht Hn] Hgs]. destruct gs as [|g gs]; [discriminate|].
    cbn [forallb] in Hgs. apply andb_true_iff in Hgs. destruct Hgs as [Hg Hgs].
    cbn [print_chain app]. apply sep_chain_tail; assumption.
Qed.
Lemma sep_vars vs : forallb (fun v => is_upper_word (vname v)) vs = true -> sep (print_vars vs) = true.
Proof.
  induction vs as [|[x s] vs IH]; [reflexivity|]. cbn [forallb vname]. rewrite andb_true_iff. intros [Hv Hvs].
  assert (V : sep (print_var (mkvar x s)) = true).
  { unfold print_var. cbn [vname vsort]. cbn. rewrite (word_suffix_upper x s Hv). destruct s; reflexivity. }
  destruct vs as [|v' vs'].
  - exact V.
  - change (print_vars (mkvar x s :: v' :: vs')) with (print_var (mkvar x s) ++ KComma :: print_vars (v' :: vs')).
    rewrite sep_app_punct by reflexivity. rewrite V, IH by assumption. reflexivity.
Qed.
Lemma sep_parens b ts : sep (parens b ts) = sep ts.
Proof. destruct b; cbn [parens]; [|reflexivity]. rewrite sep_cons_punct, sep_snoc_punct by reflexivity. reflexivity. Qed.

Theorem sep_print_formula F : wf_lex F = true -> sep (print_formula F) = true.
Proof.
  induction F as [a|g IH|c l IHl r IHr|q vs g IH]; cbn [wf_lex print_formula]; intros Hwf.
  - apply sep_aformula, Hwf.
  - rewrite sep_cons_punct by reflexivity. rewrite sep_parens. apply IH, Hwf.
  - apply andb_true_iff in Hwf. destruct Hwf as [Hl Hr].
    rewrite sep_app_punct by (destruct c; reflexivity). rewrite !sep_parens, IHl, IHr by assumption. reflexivity.
  - rewrite !andb_true_iff in Hwf. destruct Hwf as [[_ Hvs] Hg].
    assert (E : quant_token q :: KLBrack :: print_vars vs ++ KRBrack :: KColon :: KLPar :: print_formula g ++ [KRPar]
                = [quant_token q] ++ KLBrack :: (print_vars vs ++ KRBrack :: (KColon :: KLPar :: print_formula g ++ [KRPar]))) by reflexivity.
    rewrite E. rewrite (sep_app_punct [quant_token q] KLBrack _ eq_refl).
    rewrite (sep_app_punct (print_vars vs) KRBrack _ eq_refl).
    rewrite (sep_cons_punct KColon _ eq_refl), (sep_cons_punct KLPar _ eq_refl).
    rewrite sep_snoc_punct by reflexivity. rewrite sep_vars, IH by assumption. destruct q; reflexivity.
Qed.

(* the bytes of a printed formula, in front of a closing character, lex to its tokens *)
Theorem lex_formula F rest : wf_lex F = true -> closing rest ->
  lex_go LIdle (render (print_formula F) ++ rest) =
  option_map (fun l => map PT (print_formula F) ++ l) (lex_go LIdle rest).
Proof.
  intros Hwf Hcl. rewrite <- prender_PT.
  rewrite lex_prender; [reflexivity| |exact Hcl].
  apply chain_of_sepb. exact (sep_print_formula F Hwf).
Qed.
