(* Audit A8 (a), external-equivalence pipeline: C18_term_cls composed into Model/ExternalFull.v
   (which already takes the fuel as a parameter; [full_fuel] = 64 is the executable instance).

     external_decompose_full_mono      an answer other than XNonterminating with fuel n is the
                                       answer with every fuel m >= n
     external_never_nonterminating     from [ext_fuel_bound t] on the answer is never XNonterminating
     external_eventual_result          every task has one answer given by all large fuels
     external_validated_fuel_independent  the validated task (hence the premise validated_no_clash
                                       of C19 / C02) does not depend on the fuel once accepted

   Independent of Proofs/C02*.v (only the models and the classic-portfolio files are used). *)
From Coq Require Import List Arith Lia Bool String.
From Anthem Require Import Base.ISet Syntax.Fol Syntax.Asp Model.Apply Model.Problem Model.Outline Model.Strong
  Model.External Model.Tightness Model.PrivRec Model.TauStar Model.Completion Model.SimplIntuit Model.SimplClassic
  Model.StrategyCls Model.ExternalFull Model.ClsTerm
  Proofs.StrategyClsOk Proofs.FuelMono Proofs.C19Ext.
Import ListNotations.

Lemma ext_lift_total_refines rs : Forall2 refines (map lift_total rs) rs.
Proof. induction rs as [|r rs IH]; cbn; constructor; auto. intros x y [= <-]. reflexivity. Qed.
Lemma ext_FULL_CLASSIC_opt_refines : Forall2 refines FULL_CLASSIC_opt portfolio_classic.
Proof.
  unfold FULL_CLASSIC_opt, portfolio_classic. rewrite app_assoc.
  apply Forall2_app; [apply ext_lift_total_refines|apply CLASSIC_opt_refines].
Qed.

(* ---------- one formula ---------- *)
Lemma simp_classic_run_mono n F r : simp_classic_run n F = r -> r <> RNonterminating ->
  forall m, n <= m -> simp_classic_run m F = r.
Proof. unfold simp_classic_run. apply run_strategy_opt_more. Qed.
Lemma simp_classic_run_terminates F m : classic_fuel F <= m -> simp_classic_run m F <> RNonterminating.
Proof. unfold simp_classic_run. apply run_classic_opt_never_nonterminating, ext_FULL_CLASSIC_opt_refines. Qed.

(* ---------- a theory ---------- *)
Lemma simplify_status_mono n m th : n <= m ->
  simplify_status n th <> TNonterminating -> simplify_status m th = simplify_status n th.
Proof.
  intros Hle. induction th as [|F th IH]; cbn [simplify_status]; [reflexivity|].
  destruct (simp_classic_run n F) as [| |G] eqn:E.
  - intros _. rewrite (simp_classic_run_mono n F _ E ltac:(discriminate) m Hle). reflexivity.
  - intros H. congruence.
  - intros H. rewrite (simp_classic_run_mono n F _ E ltac:(discriminate) m Hle). exact (IH H).
Qed.
Lemma simplify_status_done_map n m th : n <= m -> simplify_status n th = TDone ->
  map (simp_classic_total n) th = map (simp_classic_total m) th.
Proof.
  intros Hle. induction th as [|F th IH]; cbn [simplify_status map]; [reflexivity|].
  destruct (simp_classic_run n F) as [| |G] eqn:E; try discriminate.
  intros H. rewrite (IH H). f_equal. unfold simp_classic_total.
  rewrite E, (simp_classic_run_mono n F _ E ltac:(discriminate) m Hle). reflexivity.
Qed.
Lemma simplify_status_terminates m th : theory_fuel th <= m -> simplify_status m th <> TNonterminating.
Proof.
  induction th as [|F th IH]; cbn [simplify_status theory_fuel]; [discriminate|]. intros Hle.
  pose proof (simp_classic_run_terminates F m ltac:(lia)) as HF.
  destruct (simp_classic_run m F); [discriminate|congruence|apply IH; lia].
Qed.

(* ---------- one `theory_translate` ---------- *)
Lemma translate_status_mono n m t ph p : n <= m ->
  translate_status n t ph p <> TNonterminating -> translate_status m t ph p = translate_status n t ph p.
Proof.
  intros Hle. unfold translate_status. destruct (TauStar.tau_star p) as [g|]; [|reflexivity].
  destruct (completion _ _) as [th|]; [|reflexivity].
  destruct (et_simplify t); [|reflexivity]. apply simplify_status_mono, Hle.
Qed.
Lemma translate_status_done_translate n m t ph p : n <= m -> translate_status n t ph p = TDone ->
  theory_translate tau_star_total completion (simp_classic_total n) t ph p
  = theory_translate tau_star_total completion (simp_classic_total m) t ph p.
Proof.
  intros Hle. unfold translate_status, theory_translate, tau_star_total.
  destruct (TauStar.tau_star p) as [g|]; [|discriminate].
  destruct (completion _ _) as [th|]; [|discriminate].
  cbv zeta. destruct (et_simplify t); [|reflexivity]. intros H. rewrite (simplify_status_done_map n m _ Hle H). reflexivity.
Qed.

(* the completed theory of a program of the task, with the empty definitions of the missing output
   predicates that occur in the task (what the loop runs over) *)
Definition completed_of (t : ext_task) (p : program) : theory :=
  match TauStar.tau_star p with
  | None => []
  | Some g =>
      match completion (rp_theory (ph_of_fconsts (ug_placeholders (et_user_guide t))) g)
                       (ug_input_predicates (et_user_guide t)) with
      | None => []
      | Some th => th ++ missing_output_definitions (ug_output_predicates (et_user_guide t))
                                                    (task_occurring_predicates t) th
      end
  end.
Lemma translate_status_terminates m t p :
  theory_fuel (completed_of t p) <= m ->
  translate_status m t (ph_of_fconsts (ug_placeholders (et_user_guide t))) p <> TNonterminating.
Proof.
  unfold translate_status, completed_of. destruct (TauStar.tau_star p) as [g|]; [|discriminate].
  destruct (completion _ _) as [th|]; [|discriminate].
  destruct (et_simplify t); [|discriminate]. apply simplify_status_terminates.
Qed.

(* ---------- External.external_decompose depends on the simplifier through theory_translate only ---------- *)
Lemma external_decompose_ext (sc sc' : formula -> formula) t :
  (forall p, et_specification t = inl p ->
     theory_translate tau_star_total completion sc t (ph_of_fconsts (ug_placeholders (et_user_guide t))) p
     = theory_translate tau_star_total completion sc' t (ph_of_fconsts (ug_placeholders (et_user_guide t))) p) ->
  theory_translate tau_star_total completion sc t (ph_of_fconsts (ug_placeholders (et_user_guide t))) (et_program t)
  = theory_translate tau_star_total completion sc' t (ph_of_fconsts (ug_placeholders (et_user_guide t))) (et_program t) ->
  external_decompose is_tight has_private_recursion tau_star_total completion sc t
  = external_decompose is_tight has_private_recursion tau_star_total completion sc' t.
Proof.
  intros Hl Hr. unfold external_decompose.
  destruct (external_validate is_tight has_private_recursion t) as [w0|e|]; [|reflexivity|reflexivity].
  cbv zeta. rewrite Hr.
  destruct (et_specification t) as [p|s]; [rewrite (Hl p eq_refl)|]; reflexivity.
Qed.
Lemma task_validated_ext (sc sc' : formula -> formula) t :
  (forall p, et_specification t = inl p ->
     theory_translate tau_star_total completion sc t (ph_of_fconsts (ug_placeholders (et_user_guide t))) p
     = theory_translate tau_star_total completion sc' t (ph_of_fconsts (ug_placeholders (et_user_guide t))) p) ->
  theory_translate tau_star_total completion sc t (ph_of_fconsts (ug_placeholders (et_user_guide t))) (et_program t)
  = theory_translate tau_star_total completion sc' t (ph_of_fconsts (ug_placeholders (et_user_guide t))) (et_program t) ->
  task_validated tau_star_total completion sc t = task_validated tau_star_total completion sc' t.
Proof.
  intros Hl Hr. unfold task_validated, side_left, side_right, task_m. rewrite Hr.
  destruct (et_specification t) as [p|s]; [rewrite (Hl p eq_refl)|]; reflexivity.
Qed.

(* ---------- the task ---------- *)
Theorem external_decompose_full_mono n t r :
  external_decompose_full n t = r -> r <> XNonterminating ->
  forall m, n <= m -> external_decompose_full m t = r.
Proof.
  intros E Hr m Hle. revert E. unfold external_decompose_full.
  destruct (external_validate_full t) as [w0|e|]; [|auto|auto].
  set (ph := ph_of_fconsts (ug_placeholders (et_user_guide t))).
  destruct (et_specification t) as [L|s] eqn:Es.
  - destruct (translate_status n t ph L) eqn:El.
    + rewrite (translate_status_mono n m t ph L Hle) by congruence. rewrite El.
      destruct (translate_status n t ph (et_program t)) eqn:Er.
      * rewrite (translate_status_mono n m t ph _ Hle) by congruence. rewrite Er.
        unfold external_decompose_total.
        rewrite (external_decompose_ext (simp_classic_total n) (simp_classic_total m) t); [auto| |].
        -- intros p Hp. rewrite Es in Hp. injection Hp as <-. apply translate_status_done_translate; assumption.
        -- apply translate_status_done_translate; assumption.
      * rewrite (translate_status_mono n m t ph _ Hle) by congruence. rewrite Er. auto.
      * intros <-. congruence.
    + rewrite (translate_status_mono n m t ph L Hle) by congruence. rewrite El. auto.
    + intros <-. congruence.
  - destruct (translate_status n t ph (et_program t)) eqn:Er.
    + rewrite (translate_status_mono n m t ph _ Hle) by congruence. rewrite Er.
      unfold external_decompose_total.
      rewrite (external_decompose_ext (simp_classic_total n) (simp_classic_total m) t); [auto| |].
      * intros p Hp. rewrite Es in Hp. discriminate.
      * apply translate_status_done_translate; assumption.
    + rewrite (translate_status_mono n m t ph _ Hle) by congruence. rewrite Er. auto.
    + intros <-. congruence.
Qed.

Definition ext_fuel_bound (t : ext_task) : nat :=
  Nat.max (match et_specification t with inl L => theory_fuel (completed_of t L) | inr _ => 0 end)
          (theory_fuel (completed_of t (et_program t))).

Theorem external_never_nonterminating t m :
  ext_fuel_bound t <= m -> external_decompose_full m t <> XNonterminating.
Proof.
  unfold ext_fuel_bound, external_decompose_full. intros Hle.
  destruct (external_validate_full t) as [w0|e|]; [|discriminate|discriminate].
  pose proof (translate_status_terminates m t (et_program t) ltac:(lia)) as Hr.
  destruct (et_specification t) as [L|s].
  - pose proof (translate_status_terminates m t L ltac:(lia)) as Hl.
    destruct (translate_status m t _ L); [|discriminate|congruence].
    destruct (translate_status m t _ (et_program t)); [|discriminate|congruence].
    destruct (external_decompose_total m t) as [[w pbs]|e|]; discriminate.
  - destruct (translate_status m t _ (et_program t)); [|discriminate|congruence].
    destruct (external_decompose_total m t) as [[w pbs]|e|]; discriminate.
Qed.

Theorem external_never_nonterminating_exists t :
  exists n, forall m, n <= m -> external_decompose_full m t <> XNonterminating.
Proof. exists (ext_fuel_bound t). apply external_never_nonterminating. Qed.

Theorem external_eventual_result t :
  exists n r, r <> XNonterminating /\ forall m, n <= m -> external_decompose_full m t = r.
Proof.
  exists (ext_fuel_bound t), (external_decompose_full (ext_fuel_bound t) t).
  pose proof (external_never_nonterminating t _ (le_n _)) as H. split; [exact H|].
  intros m Hle. exact (external_decompose_full_mono _ t _ eq_refl H m Hle).
Qed.

Corollary external_nonterminating_is_fuel_artefact n t :
  external_decompose_full n t = XNonterminating ->
  exists m r, n < m /\ r <> XNonterminating /\ forall m', m <= m' -> external_decompose_full m' t = r.
Proof.
  intros E. destruct (external_eventual_result t) as [k [r [Hr Hk]]].
  exists (S (Nat.max n k)), r. split; [lia|]. split; [exact Hr|]. intros m' Hm'. apply Hk. lia.
Qed.

(* the validated task - and with it the premise [validated_no_clash] of the C19 / C02 theorems -
   is the same for every fuel from an accepting one on *)
Theorem external_validated_fuel_independent n m t w pbs : n <= m ->
  external_decompose_full n t = XOk w pbs ->
  task_validated tau_star_total completion (simp_classic_total n) t
  = task_validated tau_star_total completion (simp_classic_total m) t.
Proof.
  intros Hle. unfold external_decompose_full.
  destruct (external_validate_full t) as [w0|e|]; [|discriminate|discriminate].
  set (ph := ph_of_fconsts (ug_placeholders (et_user_guide t))).
  destruct (et_specification t) as [L|s] eqn:Es.
  - destruct (translate_status n t ph L) eqn:El; try discriminate.
    destruct (translate_status n t ph (et_program t)) eqn:Er; try discriminate. intros _.
    apply task_validated_ext.
    + intros p Hp. rewrite Es in Hp. injection Hp as <-. apply translate_status_done_translate; assumption.
    + apply translate_status_done_translate; assumption.
  - destruct (translate_status n t ph (et_program t)) eqn:Er; try discriminate. intros _.
    apply task_validated_ext.
    + intros p Hp. rewrite Es in Hp. discriminate.
    + apply translate_status_done_translate; assumption.
Qed.
