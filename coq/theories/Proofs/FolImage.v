(* C15_image: whatever the token-level parser returns is well-formed (names of the right lexical class,
   non-empty guard and binder lists, numerals and arities in range), provided the tokens themselves carry
   names of the right lexical class (which is what [lex] produces; that last fact is tied by correspondence). *)
From Coq Require Import List Ascii String ZArith NArith Bool Arith Lia.
From Anthem Require Import Syntax.Fol Gen.TablesFol Model.FolPrint Model.FolLex Model.FolPratt Model.FolParse Model.FolClass Proofs.FolPrattOk.
Import ListNotations.
Open Scope list_scope.

Definition tok_ok (t : token) : bool :=
  match t with
  | TWord w | TFunBare w => is_symbol_name w
  | TFun c _ => is_symbol_name c
  | TVar x _ => is_variable_name x
  | _ => true
  end.
Definition toks_ok (ts : list token) : Prop := forallb tok_ok ts = true.

Lemma toks_ok_cons t ts : toks_ok (t :: ts) <-> tok_ok t = true /\ toks_ok ts.
Proof. unfold toks_ok. cbn [forallb]. rewrite andb_true_iff. tauto. Qed.
Lemma toks_ok_app a b : toks_ok (a ++ b) <-> toks_ok a /\ toks_ok b.
Proof. unfold toks_ok. rewrite forallb_app, andb_true_iff. tauto. Qed.

(* ---------- names only (ranges are checked by [finish]) ---------- *)
Fixpoint nm_iterm (t : iterm) : bool :=
  match t with
  | INum _ => true
  | IFun c => is_symbol_name c
  | IVar x => is_variable_name x
  | IUn _ a => nm_iterm a
  | IBin _ l r => nm_iterm l && nm_iterm r
  end.
Definition nm_gterm (t : gterm) : bool := match t with GInt t => nm_iterm t | _ => wf_gterm t end.
Definition nm_atomic (a : aformula) : bool :=
  match a with
  | ATrue | AFalse => true
  | AAtom p ts => is_symbol_name p && forallb nm_gterm ts
  | ACmp t gs => nm_gterm t && nonempty gs && forallb (fun g => nm_gterm (gterm_of g)) gs
  end.
Fixpoint nm_formula (f : formula) : bool :=
  match f with
  | FAtomic a => nm_atomic a
  | FNot g => nm_formula g
  | FBin _ l r => nm_formula l && nm_formula r
  | FQ _ vs g => nonempty vs && forallb wf_var vs && nm_formula g
  end.

Lemma wf_of_nm_i t : nm_iterm t = true -> iterm_in_range t = true -> wf_iterm t = true.
Proof.
  induction t as [z|c|x|o a IH|o l IHl r IHr]; cbn; auto.
  intros H1 H2. apply andb_true_iff in H1, H2. rewrite IHl, IHr by tauto. reflexivity.
Qed.
Lemma wf_of_nm_g t : nm_gterm t = true -> gterm_in_range t = true -> wf_gterm t = true.
Proof. destruct t; cbn; auto. apply wf_of_nm_i. Qed.
Lemma wf_of_nm f : nm_formula f = true -> formula_in_range f = true -> wf_formula f = true.
Proof.
  induction f as [a|g IH|c l IHl r IHr|q vs g IH]; cbn [nm_formula formula_in_range wf_formula].
  - destruct a as [| |p ts|t gs]; cbn; auto.
    + intros H1 H2. apply andb_true_iff in H1. destruct H1 as [Hp H1]. rewrite Hp. cbn.
      rewrite forallb_forall in *. intros x Hx. apply wf_of_nm_g; auto.
    + intros H1 H2. apply andb_true_iff in H1, H2. destruct H1 as [H1 H1c], H2 as [H2a H2b].
      apply andb_true_iff in H1. destruct H1 as [H1a H1b].
      rewrite wf_of_nm_g, H1b by assumption. cbn. rewrite forallb_forall in *. intros x Hx.
      unfold wf_guard. apply wf_of_nm_g; auto.
  - exact IH.
  - intros H1 H2. apply andb_true_iff in H1, H2. rewrite IHl, IHr by tauto. reflexivity.
  - intros H1 H2. apply andb_true_iff in H1. destruct H1 as [H1 H1b]. rewrite H1. cbn. apply IH; assumption.
Qed.

(* ---------- Pratt: the result is built from the primaries and the prefix operators ---------- *)
Section PrattImage.
  Variables T U B : Type.
  Variable mk_un : U -> T -> T.
  Variable mk_bin : B -> T -> T -> T.
  Variable pre_bp : U -> option nat.
  Variable in_bp : B -> option (nat * assoc).
  Variable P : T -> Prop.
  Variable Q : U -> Prop.
  Hypothesis P_un : forall u t, Q u -> P t -> P (mk_un u t).
  Hypothesis P_bin : forall o l r, P l -> P r -> P (mk_bin o l r).
  Definition items_ok (is : list (pitem T U B)) : Prop :=
    (forall t, In (PPrim t) is -> P t) /\ (forall u, In (PPre u) is -> Q u).
  Lemma items_ok_tail i is : items_ok (i :: is) -> items_ok is.
  Proof. intros [A C]. split; intros x Hx; [apply A|apply C]; right; exact Hx. Qed.

  Lemma pratt_image fuel :
    (forall rbp is t r, items_ok is -> pratt_expr mk_un mk_bin pre_bp in_bp fuel rbp is = Some (t, r) -> P t /\ items_ok r) /\
    (forall rbp lhs is t r, P lhs -> items_ok is -> pratt_loop mk_un mk_bin pre_bp in_bp fuel rbp lhs is = Some (t, r) -> P t /\ items_ok r).
  Proof.
    induction fuel as [|f [IHE IHL]].
    - split.
      + intros rbp is t r _ H. discriminate H.
      + intros rbp lhs is t r Pl Ok H. rewrite loop_eq in H.
        destruct is as [|[t0|u|o] is']; try discriminate.
        * injection H as <- <-. split; assumption.
        * destruct (in_bp o) as [[p a]|]; [|discriminate]. destruct (Nat.ltb rbp p); [discriminate|].
          injection H as <- <-. split; assumption.
    - split.
      + intros rbp is t r Ok H. rewrite expr_S in H. destruct is as [|[t0|u|o] is']; try discriminate.
        * apply (IHL rbp t0 is' t r); [apply (proj1 Ok); left; reflexivity|eapply items_ok_tail; exact Ok|exact H].
        * destruct (pre_bp u) as [p|]; [|discriminate].
          destruct (pratt_expr mk_un mk_bin pre_bp in_bp f (p - 1) is') as [[t1 r1]|] eqn:E; [|discriminate].
          destruct (IHE _ _ _ _ (items_ok_tail _ _ Ok) E) as [P1 Ok1].
          apply (IHL rbp (mk_un u t1) r1 t r); [apply P_un; [apply (proj2 Ok); left; reflexivity|exact P1]|exact Ok1|exact H].
      + intros rbp lhs is t r Pl Ok H. rewrite loop_eq in H.
        destruct is as [|[t0|u|o] is']; try discriminate.
        * injection H as <- <-. split; assumption.
        * destruct (in_bp o) as [[p a]|]; [|discriminate]. destruct (Nat.ltb rbp p).
          -- destruct (pratt_expr mk_un mk_bin pre_bp in_bp f (rhs_bp p a) is') as [[t1 r1]|] eqn:E; [|discriminate].
             destruct (IHE _ _ _ _ (items_ok_tail _ _ Ok) E) as [P1 Ok1].
             apply (IHL rbp (mk_bin o lhs t1) r1 t r); [apply P_bin; assumption|exact Ok1|exact H].
          -- injection H as <- <-. split; assumption.
  Qed.

  Lemma pratt_image_top is t : items_ok is -> pratt mk_un mk_bin pre_bp in_bp is = Some t -> P t.
  Proof.
    unfold pratt. intros Ok H.
    destruct (pratt_expr mk_un mk_bin pre_bp in_bp (List.length is) 0 is) as [[t1 [|? ?]]|] eqn:E; try discriminate.
    injection H as <-. exact (proj1 (proj1 (pratt_image (List.length is)) _ _ _ _ Ok E)).
  Qed.
End PrattImage.

(* ---------- splitting a word keeps the lexical classes ---------- *)
Lemma chars_unchars l : chars (unchars l) = l.
Proof. unfold chars, unchars. apply list_ascii_of_string_of_list_ascii. Qed.

Lemma span_snd_forallb p q l : forallb q l = true -> forallb q (snd (span p l)) = true.
Proof.
  induction l as [|c l IH]; [reflexivity|]. cbn [span forallb]. intros H. apply andb_true_iff in H.
  destruct (p c).
  - destruct (span p l) as [a b]. cbn [snd] in *. apply IH. tauto.
  - cbn [snd forallb]. apply andb_true_iff. exact H.
Qed.

Lemma word_tok_ok w suf : all_wordchars w = true -> tok_ok (word_tok w suf) = true.
Proof.
  intros H. unfold word_tok. destruct (word_class w) eqn:C; destruct suf; cbn [tok_ok]; try reflexivity;
    unfold is_symbol_name, is_variable_name; rewrite chars_unchars, H, C; reflexivity.
Qed.

Lemma relex_run_ok fuel : forall w suf, all_wordchars w = true -> toks_ok (relex_run fuel w suf).
Proof.
  induction fuel as [|f IH]; intros w suf H; [reflexivity|]. cbn [relex_run].
  destruct w as [|c r]; [destruct suf; reflexivity|].
  unfold all_wordchars in H. cbn [forallb] in H. apply andb_true_iff in H. destruct H as [Hc Hr].
  destruct (Ascii.eqb c "0").
  - apply toks_ok_cons. split; [reflexivity|apply IH; exact Hr].
  - destruct (is_digit c).
    + destruct (span is_digit (c :: r)) as [ds r'] eqn:E. apply toks_ok_cons. split; [reflexivity|]. apply IH.
      assert (forallb is_wordchar (snd (span is_digit (c :: r))) = true).
      { apply span_snd_forallb. cbn [forallb]. rewrite Hc, Hr. reflexivity. }
      rewrite E in H. exact H.
    + apply toks_ok_cons. split; [|reflexivity]. apply word_tok_ok. unfold all_wordchars. cbn [forallb]. rewrite Hc, Hr. reflexivity.
Qed.

Lemma strip_prefix_wordchars p l rem : forallb is_wordchar l = true -> strip_prefix p l = Some rem -> forallb is_wordchar rem = true.
Proof.
  revert l. induction p as [|c p IH]; intros l H E; cbn [strip_prefix] in E.
  - injection E as <-. exact H.
  - destruct l as [|d l]; [discriminate|]. destruct (Ascii.eqb c d); [|discriminate].
    cbn [forallb] in H. apply andb_true_iff in H. apply (IH l); tauto.
Qed.

Lemma symbol_name_wordchars w : is_symbol_name w = true -> forallb is_wordchar (chars w) = true.
Proof. unfold is_symbol_name, all_wordchars. intros H. apply andb_true_iff in H. tauto. Qed.

Lemma relex_suffix_ok kw w suf rem : is_symbol_name w = true -> strip_prefix (chars kw) (chars w) = Some rem ->
  toks_ok (relex rem suf).
Proof.
  intros Hw EP. unfold relex. apply relex_run_ok. eapply strip_prefix_wordchars; [apply symbol_name_wordchars; exact Hw|exact EP].
Qed.

Lemma strip_kw_ok kw ts r : toks_ok ts -> strip_kw kw ts = Some r -> toks_ok r.
Proof.
  intros H E. unfold strip_kw in E. destruct ts as [|t ts]; [discriminate|]. apply toks_ok_cons in H. destruct H as [Ht Hts].
  destruct t; try discriminate; cbn [tok_ok] in Ht.
  - destruct (strip_prefix (chars kw) (chars s)) as [rem|] eqn:EP; [|discriminate]. injection E as <-.
    apply toks_ok_app. split; [eapply relex_suffix_ok; eassumption|exact Hts].
  - destruct (strip_prefix (chars kw) (chars c)) as [rem|] eqn:EP; [|discriminate]. injection E as <-.
    apply toks_ok_app. split; [eapply relex_suffix_ok; eassumption|exact Hts].
  - destruct (strip_prefix (chars kw) (chars c)) as [rem|] eqn:EP; [|discriminate]. injection E as <-.
    apply toks_ok_app. split; [eapply relex_suffix_ok; eassumption|exact Hts].
Qed.

(* ---------- integer terms ---------- *)
Definition rec_ok {A} (rec : list token -> res A) (P : A -> Prop) : Prop :=
  forall ts x r, toks_ok ts -> rec ts = Ok x r -> P x /\ toks_ok r.

Notation IOK := (items_ok iterm unit binop (fun t => nm_iterm t = true) (fun _ => True)).

Lemma unary_ops_ok ts us r : toks_ok ts -> unary_ops ts = (us, r) -> IOK us /\ toks_ok r /\ (forall t, ~ In (PPrim t) us).
Proof.
  revert us r. induction ts as [|t ts IH]; intros us r H E.
  - injection E as <- <-. split; [split; intros ? []|]. split; [exact H|intros t []].
  - destruct t; try (injection E as <- <-; split; [split; intros ? []|]; split; [exact H|intros ? []]).
    cbn [unary_ops] in E. destruct (unary_ops ts) as [us' r'] eqn:E'. injection E as <- <-.
    apply toks_ok_cons in H. destruct (IH us' r' (proj2 H) eq_refl) as (A & C & D).
    repeat split; auto.
    + intros t [Ht|Ht]; [discriminate|]. apply (proj1 A). exact Ht.
    + intros t [Ht|Ht]; [discriminate|]. apply (D t Ht).
Qed.

Section ItermImage.
  Variable rec : list token -> res iterm.
  Hypothesis Hrec : rec_ok rec (fun t => nm_iterm t = true).

  Lemma n_primary_ok : rec_ok (n_primary rec) (fun t => nm_iterm t = true).
  Proof.
    intros ts x r H E. unfold n_primary in E. destruct ts as [|t ts]; [discriminate|].
    apply toks_ok_cons in H. destruct H as [Ht Hts].
    destruct t; try discriminate; try (injection E as <- <-; split; [reflexivity|exact Hts]).
    - destruct s; try discriminate. injection E as <- <-. split; [exact Ht|exact Hts].
    - destruct s; try discriminate. injection E as <- <-. split; [exact Ht|exact Hts].
    - destruct (rec ts) as [t r0| |] eqn:ER; try discriminate.
      destruct (Hrec ts t r0 Hts ER) as [Pt Hr0].
      destruct r0 as [|t0 r0]; [discriminate|]. destruct t0; try discriminate. injection E as <- <-.
      apply toks_ok_cons in Hr0. split; [exact Pt|tauto].
  Qed.

  Lemma i_operand_ok ts its r : toks_ok ts -> i_operand rec ts = Ok its r -> IOK its /\ toks_ok r.
  Proof.
    intros H E. unfold i_operand in E. destruct (unary_ops ts) as [us r0] eqn:EU.
    destruct (unary_ops_ok ts us r0 H EU) as (A & C & D).
    destruct (n_primary rec r0) as [t r1| |] eqn:EN; try discriminate. injection E as <- <-.
    destruct (n_primary_ok r0 t r1 C EN) as [Pt Hr1]. split; [|exact Hr1].
    split.
    + intros t0 Ht0. apply in_app_or in Ht0. destruct Ht0 as [Ht0|[Ht0|[]]]; [apply (proj1 A); exact Ht0|injection Ht0 as <-; exact Pt].
    + intros u _. exact I.
  Qed.

  Lemma split_binop_ok ts o r : toks_ok ts -> split_binop ts = Some (o, r) -> toks_ok r.
  Proof.
    intros H E. destruct ts as [|t ts]; [discriminate|]. apply toks_ok_cons in H.
    destruct t; try discriminate; injection E as <- <-; try tauto; try (apply toks_ok_cons; split; [reflexivity|tauto]).
  Qed.

  Lemma IOK_app a b : IOK a -> IOK b -> IOK (a ++ b).
  Proof.
    intros [A1 A2] [B1 B2]. split; intros x Hx; apply in_app_or in Hx; destruct Hx; auto.
  Qed.

  Lemma i_tail_ok fuel : forall ts its r, toks_ok ts -> i_tail rec fuel ts = Ok its r -> IOK its /\ toks_ok r.
  Proof.
    induction fuel as [|f IH]; intros ts its r H E; [discriminate|]. cbn [i_tail] in E.
    destruct (split_binop ts) as [[o r0]|] eqn:ES.
    - pose proof (split_binop_ok ts o r0 H ES) as Hr0.
      destruct (i_operand rec r0) as [its1 r1| |] eqn:EO; try discriminate.
      + destruct (i_operand_ok r0 its1 r1 Hr0 EO) as [A Hr1].
        destruct (i_tail rec f r1) as [its2 r2| |] eqn:ET; try discriminate. injection E as <- <-.
        destruct (IH r1 its2 r2 Hr1 ET) as [C Hr2]. split; [|exact Hr2].
        assert (IOK (its1 ++ its2)) by (apply IOK_app; assumption).
        destruct H0 as [X Y]. split; intros x Hx; (destruct Hx as [Hx|Hx]; [discriminate|auto]).
      + injection E as <- <-. split; [split; intros ? []|exact H].
    - injection E as <- <-. split; [split; intros ? []|exact H].
  Qed.
End ItermImage.

Lemma peg_iterm_ok fuel : rec_ok (peg_iterm fuel) (fun t => nm_iterm t = true).
Proof.
  induction fuel as [|f IH]; intros ts x r H E; [discriminate|]. cbn [peg_iterm] in E.
  destruct (i_operand (peg_iterm f) ts) as [its r0| |] eqn:EO; try discriminate.
  destruct (i_operand_ok _ IH ts its r0 H EO) as [A Hr0].
  destruct (i_tail (peg_iterm f) f r0) as [more r1| |] eqn:ET; try discriminate.
  destruct (i_tail_ok _ IH f r0 more r1 Hr0 ET) as [C Hr1].
  destruct (pratt_iterm (its ++ more)) as [t|] eqn:EP; [|discriminate]. injection E as <- <-.
  split; [|exact Hr1]. unfold pratt_iterm in EP.
  eapply (pratt_image_top iterm unit binop _ _ _ _ (fun t => nm_iterm t = true) (fun _ => True)); [| |exact (IOK_app its more A C)|exact EP].
  - intros u t0 _ Ht0. exact Ht0.
  - intros o l r' Hl Hr. cbn. rewrite Hl, Hr. reflexivity.
Qed.
