(* C15_image: whatever the token-level parser returns is well-formed (names of the right lexical class,
   non-empty guard and binder lists, numerals and arities in range), provided the tokens themselves carry
   names of the right lexical class (which is what [lex] produces; that last fact is tied by correspondence). *)
From Coq Require Import List Ascii String ZArith NArith Bool Arith Lia.
From Anthem Require Import Syntax.Fol Gen.TablesFol Model.FolPrint Model.FolLex Model.FolPratt Model.FolParse Model.FolClass Proofs.FolPrattOk Proofs.FolC15.
Import ListNotations.
Open Scope list_scope.

Definition tok_ok (t : token) : bool :=
  match t with
  | TWord w | TFunBare w => is_symbol_name w
  | TFun c _ => is_symbol_name c
  | TVar x _ => is_variable_name x
  | _ => true
  end.
Definition toks_ok (ts : list token) : Prop := forallb tok_ok ts = true.

Lemma toks_ok_cons t ts : toks_ok (t :: ts) <-> tok_ok t = true /\ toks_ok ts.
Proof. unfold toks_ok. cbn [forallb]. rewrite andb_true_iff. tauto. Qed.
Lemma toks_ok_app a b : toks_ok (a ++ b) <-> toks_ok a /\ toks_ok b.
Proof. unfold toks_ok. rewrite forallb_app, andb_true_iff. tauto. Qed.

(* ---------- names only (ranges are checked by [finish]) ---------- *)
Fixpoint nm_iterm (t : iterm) : bool :=
  match t with
  | INum _ => true
  | IFun c => is_symbol_name c
  | IVar x => is_variable_name x
  | IUn _ a => nm_iterm a
  | IBin _ l r => nm_iterm l && nm_iterm r
  end.
Definition nm_gterm (t : gterm) : bool := match t with GInt t => nm_iterm t | _ => wf_gterm t end.
Definition nm_atomic (a : aformula) : bool :=
  match a with
  | ATrue | AFalse => true
  | AAtom p ts => is_symbol_name p && forallb nm_gterm ts
  | ACmp t gs => nm_gterm t && nonempty gs && forallb (fun g => nm_gterm (gterm_of g)) gs
  end.
Fixpoint nm_formula (f : formula) : bool :=
  match f with
  | FAtomic a => nm_atomic a
  | FNot g => nm_formula g
  | FBin _ l r => nm_formula l && nm_formula r
  | FQ _ vs g => nonempty vs && forallb wf_var vs && nm_formula g
  end.

Lemma wf_of_nm_i t : nm_iterm t = true -> iterm_in_range t = true -> wf_iterm t = true.
Proof.
  induction t as [z|c|x|o a IH|o l IHl r IHr]; cbn; auto.
  intros H1 H2. apply andb_true_iff in H1, H2. rewrite IHl, IHr by tauto. reflexivity.
Qed.
Lemma wf_of_nm_g t : nm_gterm t = true -> gterm_in_range t = true -> wf_gterm t = true.
Proof. destruct t; cbn; auto. apply wf_of_nm_i. Qed.
Lemma wf_of_nm f : nm_formula f = true -> formula_in_range f = true -> wf_formula f = true.
Proof.
  induction f as [a|g IH|c l IHl r IHr|q vs g IH]; cbn [nm_formula formula_in_range wf_formula].
  - destruct a as [| |p ts|t gs]; cbn; auto.
    + intros H1 H2. apply andb_true_iff in H1. destruct H1 as [Hp H1]. rewrite Hp. cbn.
      rewrite forallb_forall in *. intros x Hx. apply wf_of_nm_g; auto.
    + intros H1 H2. apply andb_true_iff in H1, H2. destruct H1 as [H1 H1c], H2 as [H2a H2b].
      apply andb_true_iff in H1. destruct H1 as [H1a H1b].
      rewrite wf_of_nm_g, H1b by assumption. cbn. rewrite forallb_forall in *. intros x Hx.
      unfold wf_guard. apply wf_of_nm_g; auto.
  - exact IH.
  - intros H1 H2. apply andb_true_iff in H1, H2. rewrite IHl, IHr by tauto. reflexivity.
  - intros H1 H2. apply andb_true_iff in H1. destruct H1 as [H1 H1b]. rewrite H1. cbn. apply IH; assumption.
Qed.

(* ---------- Pratt: the result is built from the primaries and the prefix operators ---------- *)
Section PrattImage.
  Variables T U B : Type.
  Variable mk_un : U -> T -> T.
  Variable mk_bin : B -> T -> T -> T.
  Variable pre_bp : U -> option nat.
  Variable in_bp : B -> option (nat * assoc).
  Variable P : T -> Prop.
  Variable Q : U -> Prop.
  Hypothesis P_un : forall u t, Q u -> P t -> P (mk_un u t).
  Hypothesis P_bin : forall o l r, P l -> P r -> P (mk_bin o l r).
  Definition items_ok (is : list (pitem T U B)) : Prop :=
    (forall t, In (PPrim t) is -> P t) /\ (forall u, In (PPre u) is -> Q u).
  Lemma items_ok_tail i is : items_ok (i :: is) -> items_ok is.
  Proof. intros [A C]. split; intros x Hx; [apply A|apply C]; right; exact Hx. Qed.

  Lemma pratt_image fuel :
    (forall rbp is t r, items_ok is -> pratt_expr mk_un mk_bin pre_bp in_bp fuel rbp is = Some (t, r) -> P t /\ items_ok r) /\
    (forall rbp lhs is t r, P lhs -> items_ok is -> pratt_loop mk_un mk_bin pre_bp in_bp fuel rbp lhs is = Some (t, r) -> P t /\ items_ok r).
  Proof.
    induction fuel as [|f [IHE IHL]].
    - split.
      + intros rbp is t r _ H. discriminate H.
      + intros rbp lhs is t r Pl Ok H. rewrite loop_eq in H.
        destruct is as [|[t0|u|o] is']; try discriminate.
        * injection H as <- <-. split; assumption.
        * destruct (in_bp o) as [[p a]|]; [|discriminate]. destruct (Nat.ltb rbp p); [discriminate|].
          injection H as <- <-. split; assumption.
    - split.
      + intros rbp is t r Ok H. rewrite expr_S in H. destruct is as [|[t0|u|o] is']; try discriminate.
        * apply (IHL rbp t0 is' t r); [apply (proj1 Ok); left; reflexivity|eapply items_ok_tail; exact Ok|exact H].
        * destruct (pre_bp u) as [p|]; [|discriminate].
          destruct (pratt_expr mk_un mk_bin pre_bp in_bp f (p - 1) is') as [[t1 r1]|] eqn:E; [|discriminate].
          destruct (IHE _ _ _ _ (items_ok_tail _ _ Ok) E) as [P1 Ok1].
          apply (IHL rbp (mk_un u t1) r1 t r); [apply P_un; [apply (proj2 Ok); left; reflexivity|exact P1]|exact Ok1|exact H].
      + intros rbp lhs is t r Pl Ok H. rewrite loop_eq in H.
        destruct is as [|[t0|u|o] is']; try discriminate.
        * injection H as <- <-. split; assumption.
        * destruct (in_bp o) as [[p a]|]; [|discriminate]. destruct (Nat.ltb rbp p).
          -- destruct (pratt_expr mk_un mk_bin pre_bp in_bp f (rhs_bp p a) is') as [[t1 r1]|] eqn:E; [|discriminate].
             destruct (IHE _ _ _ _ (items_ok_tail _ _ Ok) E) as [P1 Ok1].
             apply (IHL rbp (mk_bin o lhs t1) r1 t r); [apply P_bin; assumption|exact Ok1|exact H].
          -- injection H as <- <-. split; assumption.
  Qed.

  Lemma pratt_image_top is t : items_ok is -> pratt mk_un mk_bin pre_bp in_bp is = Some t -> P t.
  Proof.
    unfold pratt. intros Ok H.
    destruct (pratt_expr mk_un mk_bin pre_bp in_bp (List.length is) 0 is) as [[t1 [|? ?]]|] eqn:E; try discriminate.
    injection H as <-. exact (proj1 (proj1 (pratt_image (List.length is)) _ _ _ _ Ok E)).
  Qed.
End PrattImage.

(* ---------- splitting a word keeps the lexical classes ---------- *)
Lemma chars_unchars l : chars (unchars l) = l.
Proof. unfold chars, unchars. apply list_ascii_of_string_of_list_ascii. Qed.

Lemma span_snd_forallb p q l : forallb q l = true -> forallb q (snd (span p l)) = true.
Proof.
  induction l as [|c l IH]; [reflexivity|]. cbn [span forallb]. intros H. apply andb_true_iff in H.
  destruct (p c).
  - destruct (span p l) as [a b]. cbn [snd] in *. apply IH. tauto.
  - cbn [snd forallb]. apply andb_true_iff. exact H.
Qed.

Lemma word_tok_ok w suf : all_wordchars w = true -> tok_ok (word_tok w suf) = true.
Proof.
  intros H. unfold word_tok. destruct (word_class w) eqn:C; destruct suf; cbn [tok_ok]; try reflexivity;
    unfold is_symbol_name, is_variable_name; rewrite chars_unchars, H, C; reflexivity.
Qed.

Lemma relex_run_ok fuel : forall w suf, all_wordchars w = true -> toks_ok (relex_run fuel w suf).
Proof.
  induction fuel as [|f IH]; intros w suf H; [reflexivity|]. cbn [relex_run].
  destruct w as [|c r]; [destruct suf; reflexivity|].
  unfold all_wordchars in H. cbn [forallb] in H. apply andb_true_iff in H. destruct H as [Hc Hr].
  destruct (Ascii.eqb c "0").
  - apply toks_ok_cons. split; [reflexivity|apply IH; exact Hr].
  - destruct (is_digit c).
    + destruct (span is_digit (c :: r)) as [ds r'] eqn:E. apply toks_ok_cons. split; [reflexivity|]. apply IH.
      assert (forallb is_wordchar (snd (span is_digit (c :: r))) = true).
      { apply span_snd_forallb. cbn [forallb]. rewrite Hc, Hr. reflexivity. }
      rewrite E in H. exact H.
    + apply toks_ok_cons. split; [|reflexivity]. apply word_tok_ok. unfold all_wordchars. cbn [forallb]. rewrite Hc, Hr. reflexivity.
Qed.

Lemma strip_prefix_wordchars p l rem : forallb is_wordchar l = true -> strip_prefix p l = Some rem -> forallb is_wordchar rem = true.
Proof.
  revert l. induction p as [|c p IH]; intros l H E; cbn [strip_prefix] in E.
  - injection E as <-. exact H.
  - destruct l as [|d l]; [discriminate|]. destruct (Ascii.eqb c d); [|discriminate].
    cbn [forallb] in H. apply andb_true_iff in H. apply (IH l); tauto.
Qed.

Lemma symbol_name_wordchars w : is_symbol_name w = true -> forallb is_wordchar (chars w) = true.
Proof. unfold is_symbol_name, all_wordchars. intros H. apply andb_true_iff in H. tauto. Qed.

Lemma relex_suffix_ok kw w suf rem : is_symbol_name w = true -> strip_prefix (chars kw) (chars w) = Some rem ->
  toks_ok (relex rem suf).
Proof.
  intros Hw EP. unfold relex. apply relex_run_ok. eapply strip_prefix_wordchars; [apply symbol_name_wordchars; exact Hw|exact EP].
Qed.

Lemma strip_kw_ok kw ts r : toks_ok ts -> strip_kw kw ts = Some r -> toks_ok r.
Proof.
  intros H E. unfold strip_kw in E. destruct ts as [|t ts]; [discriminate|]. apply toks_ok_cons in H. destruct H as [Ht Hts].
  destruct t; try discriminate; cbn [tok_ok] in Ht.
  - destruct (strip_prefix (chars kw) (chars s)) as [rem|] eqn:EP; [|discriminate]. injection E as <-.
    apply toks_ok_app. split; [eapply relex_suffix_ok; eassumption|exact Hts].
  - destruct (strip_prefix (chars kw) (chars c)) as [rem|] eqn:EP; [|discriminate]. injection E as <-.
    apply toks_ok_app. split; [eapply relex_suffix_ok; eassumption|exact Hts].
  - destruct (strip_prefix (chars kw) (chars c)) as [rem|] eqn:EP; [|discriminate]. injection E as <-.
    apply toks_ok_app. split; [eapply relex_suffix_ok; eassumption|exact Hts].
Qed.

(* ---------- integer terms ---------- *)
Definition rec_ok {A} (rec : list token -> res A) (P : A -> Prop) : Prop :=
  forall ts x r, toks_ok ts -> rec ts = Ok x r -> P x /\ toks_ok r.

Notation IOK := (items_ok iterm unit binop (fun t => nm_iterm t = true) (fun _ => True)).

Lemma unary_ops_ok ts us r : toks_ok ts -> unary_ops ts = (us, r) -> IOK us /\ toks_ok r /\ (forall t, ~ In (PPrim t) us).
Proof.
  revert us r. induction ts as [|t ts IH]; intros us r H E.
  - injection E as <- <-. split; [split; intros ? []|]. split; [exact H|intros t []].
  - destruct t; try (injection E as <- <-; split; [split; intros ? []|]; split; [exact H|intros ? []]).
    cbn [unary_ops] in E. destruct (unary_ops ts) as [us' r'] eqn:E'. injection E as <- <-.
    apply toks_ok_cons in H. destruct (IH us' r' (proj2 H) eq_refl) as (A & C & D).
    repeat split; auto.
    + intros t [Ht|Ht]; [discriminate|]. apply (proj1 A). exact Ht.
    + intros t [Ht|Ht]; [discriminate|]. apply (D t Ht).
Qed.

Section ItermImage.
  Variable rec : list token -> res iterm.
  Hypothesis Hrec : rec_ok rec (fun t => nm_iterm t = true).

  Lemma n_primary_ok : rec_ok (n_primary rec) (fun t => nm_iterm t = true).
  Proof.
    intros ts x r H E. unfold n_primary in E. destruct ts as [|t ts]; [discriminate|].
    apply toks_ok_cons in H. destruct H as [Ht Hts].
    destruct t; try discriminate; try (injection E as <- <-; split; [reflexivity|exact Hts]).
    - destruct s; try discriminate. injection E as <- <-. split; [exact Ht|exact Hts].
    - destruct s; try discriminate. injection E as <- <-. split; [exact Ht|exact Hts].
    - destruct (rec ts) as [t r0| |] eqn:ER; try discriminate.
      destruct (Hrec ts t r0 Hts ER) as [Pt Hr0].
      destruct r0 as [|t0 r0]; [discriminate|]. destruct t0; try discriminate. injection E as <- <-.
      apply toks_ok_cons in Hr0. split; [exact Pt|tauto].
  Qed.

  Lemma i_operand_ok ts its r : toks_ok ts -> i_operand rec ts = Ok its r -> IOK its /\ toks_ok r.
  Proof.
    intros H E. unfold i_operand in E. destruct (unary_ops ts) as [us r0] eqn:EU.
    destruct (unary_ops_ok ts us r0 H EU) as (A & C & D).
    destruct (n_primary rec r0) as [t r1| |] eqn:EN; try discriminate. injection E as <- <-.
    destruct (n_primary_ok r0 t r1 C EN) as [Pt Hr1]. split; [|exact Hr1].
    split.
    + intros t0 Ht0. apply in_app_or in Ht0. destruct Ht0 as [Ht0|[Ht0|[]]]; [apply (proj1 A); exact Ht0|injection Ht0 as <-; exact Pt].
    + intros u _. exact I.
  Qed.

  Lemma split_binop_ok ts o r : toks_ok ts -> split_binop ts = Some (o, r) -> toks_ok r.
  Proof.
    intros H E. destruct ts as [|t ts]; [discriminate|]. apply toks_ok_cons in H.
    destruct t; try discriminate; injection E as <- <-; try tauto; try (apply toks_ok_cons; split; [reflexivity|tauto]).
  Qed.

  Lemma IOK_app a b : IOK a -> IOK b -> IOK (a ++ b).
  Proof.
    intros [A1 A2] [B1 B2]. split; intros x Hx; apply in_app_or in Hx; destruct Hx; auto.
  Qed.

  Lemma i_tail_ok fuel : forall ts its r, toks_ok ts -> i_tail rec fuel ts = Ok its r -> IOK its /\ toks_ok r.
  Proof.
    induction fuel as [|f IH]; intros ts its r H E; [discriminate|]. cbn [i_tail] in E.
    destruct (split_binop ts) as [[o r0]|] eqn:ES.
    - pose proof (split_binop_ok ts o r0 H ES) as Hr0.
      destruct (i_operand rec r0) as [its1 r1| |] eqn:EO; try discriminate.
      + destruct (i_operand_ok r0 its1 r1 Hr0 EO) as [A Hr1].
        destruct (i_tail rec f r1) as [its2 r2| |] eqn:ET; try discriminate. injection E as <- <-.
        destruct (IH r1 its2 r2 Hr1 ET) as [C Hr2]. split; [|exact Hr2].
        assert (IOK (its1 ++ its2)) by (apply IOK_app; assumption).
        destruct H0 as [X Y]. split; intros x Hx; (destruct Hx as [Hx|Hx]; [discriminate|auto]).
      + injection E as <- <-. split; [split; intros ? []|exact H].
    - injection E as <- <-. split; [split; intros ? []|exact H].
  Qed.
End ItermImage.

Lemma peg_iterm_ok fuel : rec_ok (peg_iterm fuel) (fun t => nm_iterm t = true).
Proof.
  induction fuel as [|f IH]; intros ts x r H E; [discriminate|]. cbn [peg_iterm] in E.
  destruct (i_operand (peg_iterm f) ts) as [its r0| |] eqn:EO; try discriminate.
  destruct (i_operand_ok _ IH ts its r0 H EO) as [A Hr0].
  destruct (i_tail (peg_iterm f) f r0) as [more r1| |] eqn:ET; try discriminate.
  destruct (i_tail_ok _ IH f r0 more r1 Hr0 ET) as [C Hr1].
  destruct (pratt_iterm (its ++ more)) as [t|] eqn:EP; [|discriminate]. injection E as <- <-.
  split; [|exact Hr1]. unfold pratt_iterm in EP.
  eapply (pratt_image_top iterm unit binop _ _ _ _ (fun t => nm_iterm t = true) (fun _ => True)); [| |exact (IOK_app its more A C)|exact EP].
  - intros u t0 _ Ht0. exact Ht0.
  - intros o l r' Hl Hr. cbn. rewrite Hl, Hr. reflexivity.
Qed.

(* ---------- general terms, atoms, comparisons ---------- *)
Lemma peg_gterm_ok fuel : rec_ok (peg_gterm fuel) (fun t => nm_gterm t = true).
Proof.
  intros ts x r H E. unfold peg_gterm in E.
  assert (G : forall t r0, peg_iterm fuel ts = Ok t r0 -> nm_iterm t = true /\ toks_ok r0) by (intros; eapply peg_iterm_ok; eassumption).
  destruct ts as [|t ts].
  - destruct (peg_iterm fuel []) as [t r0| |] eqn:EI; try discriminate. injection E as <- <-. apply (G t r0 eq_refl).
  - pose proof H as H'. apply toks_ok_cons in H'. destruct H' as [Ht Hts].
    destruct t; try (destruct s);
      try (injection E as <- <-; split; [exact Ht|exact Hts]);
      (destruct (peg_iterm fuel (_ :: ts)) as [? ?| |] eqn:EI; try discriminate;
       injection E as <- <-; first [exact (G _ _ eq_refl)|split; [first [exact Ht|reflexivity]|exact Hts]]).
Qed.

Lemma peg_terms_ok fuel : rec_ok (peg_terms fuel) (fun l => forallb nm_gterm l = true).
Proof.
  induction fuel as [|f IH]; intros ts x r H E; [discriminate|]. cbn [peg_terms] in E.
  destruct (peg_gterm f ts) as [t r0| |] eqn:EG; try discriminate.
  destruct (peg_gterm_ok f ts t r0 H EG) as [Pt Hr0].
  assert (D : (x = [t] /\ r = r0) -> forallb nm_gterm x = true /\ toks_ok r).
  { intros [-> ->]. cbn. rewrite Pt. split; [reflexivity|exact Hr0]. }
  destruct r0 as [|t0 r0]; [injection E as <- <-; apply D; auto|].
  destruct t0; try (injection E as <- <-; apply D; auto).
  apply toks_ok_cons in Hr0. destruct (peg_terms f r0) as [l r1| |] eqn:ET; try discriminate.
  - injection E as <- <-. destruct (IH r0 l r1 (proj2 Hr0) ET) as [Pl Hr1]. cbn. rewrite Pt, Pl. split; [reflexivity|exact Hr1].
  - injection E as <- <-. cbn. rewrite Pt. split; [reflexivity|apply toks_ok_cons; exact Hr0].
Qed.

Lemma peg_tuple_ok fuel : rec_ok (peg_tuple fuel) (fun l => forallb nm_gterm l = true).
Proof.
  intros ts x r H E. unfold peg_tuple in E. destruct ts as [|t ts]; [discriminate|]. destruct t; try discriminate.
  apply toks_ok_cons in H. destruct H as [_ Hts].
  destruct (peg_terms fuel ts) as [l r0| |] eqn:ET; try discriminate.
  - destruct (peg_terms_ok fuel ts l r0 Hts ET) as [Pl Hr0].
    destruct r0 as [|t0 r0]; [discriminate|]. destruct t0; try discriminate. injection E as <- <-.
    apply toks_ok_cons in Hr0. split; [exact Pl|tauto].
  - destruct ts as [|t0 ts]; [discriminate|]. destruct t0; try discriminate. injection E as <- <-.
    apply toks_ok_cons in Hts. split; [reflexivity|tauto].
Qed.

Lemma peg_atom_ok fuel : rec_ok (peg_atom fuel) (fun a => nm_atomic a = true).
Proof.
  intros ts x r H E. unfold peg_atom in E. destruct ts as [|t ts]; [discriminate|]. destruct t; try discriminate.
  apply toks_ok_cons in H. destruct H as [Ht Hts]. cbn [tok_ok] in Ht.
  destruct (peg_tuple fuel ts) as [l r0| |] eqn:ET; try discriminate; injection E as <- <-.
  - destruct (peg_tuple_ok fuel ts l r0 Hts ET) as [Pl Hr0]. cbn. rewrite Ht, Pl. split; [reflexivity|exact Hr0].
  - cbn. rewrite Ht. split; [reflexivity|exact Hts].
Qed.

Lemma split_rel_ok ts rl r : toks_ok ts -> split_rel ts = Some (rl, r) -> toks_ok r.
Proof.
  intros H E. destruct ts as [|t ts]; [discriminate|]. apply toks_ok_cons in H.
  destruct t; try discriminate; injection E as <- <-; try tauto; try (apply toks_ok_cons; split; [reflexivity|tauto]).
Qed.

Lemma peg_guards_ok' fuel : rec_ok (peg_guards fuel) (fun gs => forallb (fun g => nm_gterm (gterm_of g)) gs = true).
Proof.
  induction fuel as [|f IH]; intros ts x r H E; [discriminate|]. cbn [peg_guards] in E.
  destruct (split_rel ts) as [[rl r0]|] eqn:ES; [|injection E as <- <-; split; [reflexivity|exact H]].
  pose proof (split_rel_ok ts rl r0 H ES) as Hr0.
  destruct (peg_gterm f r0) as [t r1| |] eqn:EG; try discriminate; [|injection E as <- <-; split; [reflexivity|exact H]].
  destruct (peg_gterm_ok f r0 t r1 Hr0 EG) as [Pt Hr1].
  destruct (peg_guards f r1) as [gs r2| |] eqn:EGS; try discriminate. injection E as <- <-.
  destruct (IH r1 gs r2 Hr1 EGS) as [Pg Hr2]. cbn. rewrite Pt, Pg. split; [reflexivity|exact Hr2].
Qed.

Lemma peg_atomic_ok fuel : rec_ok (peg_atomic fuel) (fun a => nm_atomic a = true).
Proof.
  intros ts x r H E. unfold peg_atomic in E.
  assert (C : forall a r0, peg_comparison fuel ts = Ok a r0 -> nm_atomic a = true /\ toks_ok r0).
  { intros a r0 EC. unfold peg_comparison in EC.
    destruct (peg_gterm fuel ts) as [t r1| |] eqn:EG; try discriminate.
    destruct (peg_gterm_ok fuel ts t r1 H EG) as [Pt Hr1].
    destruct (peg_guards fuel r1) as [gs r2| |] eqn:EGS; try discriminate.
    destruct (peg_guards_ok' fuel r1 gs r2 Hr1 EGS) as [Pg Hr2].
    destruct gs as [|g gs]; [discriminate|]. injection EC as <- <-. cbn [nm_atomic nonempty]. rewrite Pt, Pg. split; [reflexivity|exact Hr2]. }
  assert (D : match peg_comparison fuel ts with Ok a r0 => Ok a r0 | Oof => Oof | Fail => peg_atom fuel ts end = Ok x r ->
              nm_atomic x = true /\ toks_ok r).
  { destruct (peg_comparison fuel ts) as [a r0| |] eqn:EC; try discriminate.
    - intros [= <- <-]. apply (C a r0 eq_refl).
    - intros EA. apply (peg_atom_ok fuel ts x r H EA). }
  destruct ts as [|t ts]; [apply D; exact E|].
  destruct t; try (apply D; exact E); injection E as <- <-; apply toks_ok_cons in H; (split; [reflexivity|tauto]).
Qed.

(* ---------- formulas ---------- *)
Definition pre_ok (p : fpre) : Prop :=
  match p with PNot => True | PQuant _ vs => nonempty vs = true /\ forallb wf_var vs = true end.
Notation FOK := (items_ok formula fpre bconn (fun f => nm_formula f = true) pre_ok).

Lemma take_vars_ok ts vs r : toks_ok ts -> take_vars ts = (vs, r) -> forallb wf_var vs = true /\ toks_ok r.
Proof.
  revert vs r. induction ts as [|t ts IH]; intros vs r H E.
  - injection E as <- <-. split; [reflexivity|exact H].
  - destruct t; try (injection E as <- <-; split; [reflexivity|exact H]).
    cbn [take_vars] in E. destruct (take_vars ts) as [vs' r'] eqn:E'. injection E as <- <-.
    apply toks_ok_cons in H. destruct H as [Hx Hr]. cbn [tok_ok] in Hx. destruct (IH vs' r' Hr eq_refl) as [A C].
    split; [|exact C]. cbn [forallb]. unfold wf_var at 1. cbn [vname]. rewrite Hx, A. reflexivity.
Qed.

Lemma peg_quant_ok q kw ts p r : toks_ok ts -> peg_quant q kw ts = Some (p, r) -> pre_ok p /\ toks_ok r.
Proof.
  intros H E. unfold peg_quant in E. destruct (strip_kw kw ts) as [r0|] eqn:ES; [|discriminate].
  pose proof (strip_kw_ok kw ts r0 H ES) as Hr0.
  destruct (take_vars r0) as [[|v vs] r1] eqn:ET; [discriminate|]. injection E as <- <-.
  destruct (take_vars_ok r0 (v :: vs) r1 Hr0 ET) as [A C]. split; [split; [reflexivity|exact A]|exact C].
Qed.

Lemma peg_prefix_ok ts p r : toks_ok ts -> peg_prefix ts = Some (p, r) -> pre_ok p /\ toks_ok r.
Proof.
  intros H E. unfold peg_prefix in E.
  destruct (peg_quant QForall "forall" ts) as [[p1 r1]|] eqn:E1.
  - injection E as <- <-. eapply peg_quant_ok; eassumption.
  - destruct (peg_quant QExists "exists" ts) as [[p2 r2]|] eqn:E2.
    + injection E as <- <-. eapply peg_quant_ok; eassumption.
    + destruct (strip_kw "not" ts) as [r3|] eqn:E3; [|discriminate]. injection E as <- <-.
      split; [exact I|eapply strip_kw_ok; eassumption].
Qed.

Lemma peg_infix_ok ts c r : toks_ok ts -> peg_infix ts = Some (c, r) -> toks_ok r.
Proof.
  intros H E. unfold peg_infix in E.
  assert (D : match strip_kw "and" ts with Some r0 => Some (CAnd, r0)
              | None => match strip_kw "or" ts with Some r0 => Some (COr, r0) | None => None end end = Some (c, r) -> toks_ok r).
  { destruct (strip_kw "and" ts) as [r0|] eqn:E1; [intros [= <- <-]; eapply strip_kw_ok; eassumption|].
    destruct (strip_kw "or" ts) as [r0|] eqn:E2; [intros [= <- <-]; eapply strip_kw_ok; eassumption|discriminate]. }
  destruct ts as [|t ts]; [apply D; exact E|]. pose proof H as H'. apply toks_ok_cons in H'.
  destruct t; try (apply D; exact E); injection E as <- <-; try tauto; try (apply toks_ok_cons; split; [reflexivity|tauto]).
Qed.

Lemma FOK_app a b : FOK a -> FOK b -> FOK (a ++ b).
Proof. intros [A1 A2] [B1 B2]. split; intros x Hx; apply in_app_or in Hx; destruct Hx; auto. Qed.
Lemma FOK_nil : FOK [].
Proof. split; intros ? []. Qed.

Section FormulaImage.
  Variable rec : list token -> res formula.
  Variable afuel : nat.
  Hypothesis Hrec : rec_ok rec (fun f => nm_formula f = true).

  Lemma f_prefixes_ok fuel : forall ts ps r, toks_ok ts -> f_prefixes fuel ts = Ok ps r ->
    FOK ps /\ toks_ok r.
  Proof.
    induction fuel as [|f IH]; intros ts ps r H E; [discriminate|]. cbn [f_prefixes] in E.
    destruct (peg_prefix ts) as [[p r0]|] eqn:EP; [|injection E as <- <-; split; [apply FOK_nil|exact H]].
    destruct (peg_prefix_ok ts p r0 H EP) as [Pp Hr0].
    destruct (f_prefixes f r0) as [ps' r1| |] eqn:EF; try discriminate. injection E as <- <-.
    destruct (IH r0 ps' r1 Hr0 EF) as [[A C] Hr1]. split; [|exact Hr1]. split.
    - intros t [Ht|Ht]; [discriminate|apply A; exact Ht].
    - intros u [Hu|Hu]; [injection Hu as <-; exact Pp|apply C; exact Hu].
  Qed.

  Lemma f_atomic_ok : rec_ok (f_atomic afuel) (fun f => nm_formula f = true).
  Proof.
    intros ts x r H E. unfold f_atomic in E. destruct (peg_atomic afuel ts) as [a r0| |] eqn:EA; try discriminate.
    injection E as <- <-. apply (peg_atomic_ok afuel ts a r0 H EA).
  Qed.

  Lemma f_primary_ok : rec_ok (f_primary rec afuel) (fun f => nm_formula f = true).
  Proof.
    intros ts x r H E. unfold f_primary in E.
    destruct ts as [|t ts]; [apply (f_atomic_ok [] x r H E)|].
    destruct t; try (apply (f_atomic_ok _ x r H E)).
    pose proof H as H'. apply toks_ok_cons in H'. destruct H' as [_ Hts].
    destruct (rec ts) as [f r0| |] eqn:ER; try discriminate; try (apply (f_atomic_ok _ x r H E)).
    destruct (Hrec ts f r0 Hts ER) as [Pf Hr0].
    destruct r0 as [|t0 r0]; [apply (f_atomic_ok _ x r H E)|].
    destruct t0; try (apply (f_atomic_ok _ x r H E)). injection E as <- <-.
    apply toks_ok_cons in Hr0. split; [exact Pf|tauto].
  Qed.

  Lemma f_operand_ok fuel ts its r : toks_ok ts -> f_operand rec afuel fuel ts = Ok its r -> FOK its /\ toks_ok r.
  Proof.
    intros H E. unfold f_operand in E. destruct (f_prefixes fuel ts) as [ps r0| |] eqn:EF; try discriminate.
    destruct (f_prefixes_ok fuel ts ps r0 H EF) as [A Hr0].
    destruct (f_primary rec afuel r0) as [t r1| |] eqn:EP; try discriminate. injection E as <- <-.
    destruct (f_primary_ok r0 t r1 Hr0 EP) as [Pt Hr1]. split; [|exact Hr1].
    apply FOK_app; [exact A|]. split; [intros t0 [Ht0|[]]; injection Ht0 as <-; exact Pt|intros u [Hu|[]]; discriminate].
  Qed.

  Lemma f_tail_ok fuel : forall ts its r, toks_ok ts -> f_tail rec afuel fuel ts = Ok its r -> FOK its /\ toks_ok r.
  Proof.
    induction fuel as [|f IH]; intros ts its r H E; [discriminate|]. cbn [f_tail] in E.
    destruct (peg_infix ts) as [[c r0]|] eqn:EI; [|injection E as <- <-; split; [apply FOK_nil|exact H]].
    pose proof (peg_infix_ok ts c r0 H EI) as Hr0.
    destruct (f_operand rec afuel f r0) as [its1 r1| |] eqn:EO; try discriminate; [|injection E as <- <-; split; [apply FOK_nil|exact H]].
    destruct (f_operand_ok f r0 its1 r1 Hr0 EO) as [A Hr1].
    destruct (f_tail rec afuel f r1) as [its2 r2| |] eqn:ET; try discriminate. injection E as <- <-.
    destruct (IH r1 its2 r2 Hr1 ET) as [C Hr2]. split; [|exact Hr2].
    destruct (FOK_app its1 its2 A C) as [X Y]. split; intros x Hx; (destruct Hx as [Hx|Hx]; [discriminate|auto]).
  Qed.
End FormulaImage.

Lemma nm_mk_fpre p f : pre_ok p -> nm_formula f = true -> nm_formula (mk_fpre p f) = true.
Proof. destruct p as [|q vs]; cbn; [auto|]. intros [A C] F. rewrite A, C, F. reflexivity. Qed.

Lemma pratt_formula_ok its f : FOK its -> pratt_formula its = Some f -> nm_formula f = true.
Proof.
  intros H E. unfold pratt_formula in E.
  eapply (pratt_image_top formula fpre bconn _ _ _ _ (fun f => nm_formula f = true) pre_ok); [| |exact H|exact E].
  - intros u t Hu Ht. apply nm_mk_fpre; assumption.
  - intros o l r Hl Hr. cbn. rewrite Hl, Hr. reflexivity.
Qed.

Lemma peg_formula_ok fuel : rec_ok (peg_formula fuel) (fun f => nm_formula f = true).
Proof.
  induction fuel as [|f IH]; intros ts x r H E; [discriminate|]. cbn [peg_formula] in E.
  destruct (f_operand (peg_formula f) f f ts) as [its r0| |] eqn:EO; try discriminate.
  destruct (f_operand_ok _ f IH f ts its r0 H EO) as [A Hr0].
  destruct (f_tail (peg_formula f) f f r0) as [more r1| |] eqn:ET; try discriminate.
  destruct (f_tail_ok _ f IH f r0 more r1 Hr0 ET) as [C Hr1].
  destruct (pratt_formula (its ++ more)) as [t|] eqn:EP; [|discriminate]. injection E as <- <-.
  split; [|exact Hr1]. eapply pratt_formula_ok; [exact (FOK_app its more A C)|exact EP].
Qed.

(* ---------- theories, annotated formulas, specifications, user guides ---------- *)
Lemma peg_dotted_ok {A} (entry : nat -> list token -> res A) (P : A -> Prop) :
  (forall fuel, rec_ok (entry fuel) P) -> forall fuel, rec_ok (peg_dotted entry fuel) (fun l => forall x, In x l -> P x).
Proof.
  intros HE. induction fuel as [|f IH]; intros ts x r H E; [discriminate|]. cbn [peg_dotted] in E.
  destruct (entry f ts) as [y r0| |] eqn:EY; try discriminate; try (injection E as <- <-; split; [intros ? []|exact H]).
  destruct (HE f ts y r0 H EY) as [Py Hr0].
  destruct r0 as [|t0 r0]; [injection E as <- <-; split; [intros ? []|exact H]|].
  destruct t0; try (injection E as <- <-; split; [intros ? []|exact H]).
  apply toks_ok_cons in Hr0. destruct (peg_dotted entry f r0) as [l r1| |] eqn:ED; try discriminate. injection E as <- <-.
  destruct (IH r0 l r1 (proj2 Hr0) ED) as [Pl Hr1]. split; [|exact Hr1].
  intros z [<-|Hz]; [exact Py|apply Pl; exact Hz].
Qed.

Definition nm_annot (a : aformula_annot) : Prop :=
  (is_empty (an_name a) || is_symbol_name (an_name a)) = true /\ nm_formula (an_formula a) = true.

Ltac split_match E :=
  repeat match type of E with context [match ?x with _ => _ end] => is_var x; destruct x end.

Lemma toks_ok_drop3 t1 t2 t3 ts : toks_ok (t1 :: t2 :: t3 :: ts) -> tok_ok t2 = true /\ toks_ok ts.
Proof. intros H. apply toks_ok_cons in H. destruct H as [_ H]. apply toks_ok_cons in H. destruct H as [H2 H]. apply toks_ok_cons in H. tauto. Qed.

Lemma peg_direction_ok' ts d r : toks_ok ts -> peg_direction ts = (d, r) -> toks_ok r.
Proof.
  intros H E. unfold peg_direction in E. split_match E; try (injection E as <- <-; exact H).
  all: destruct (direction_of_word _); injection E as <- <-; [|exact H]; apply toks_ok_drop3 in H; tauto.
Qed.
Lemma peg_name_ok' ts n r : toks_ok ts -> peg_name ts = (n, r) -> (is_empty n || is_symbol_name n) = true /\ toks_ok r.
Proof.
  intros H E. unfold peg_name in E. split_match E; try (injection E as <- <-; split; [reflexivity|exact H]).
  all: injection E as <- <-; apply toks_ok_drop3 in H; destruct H as [Hn H]; cbn [tok_ok] in Hn; rewrite Hn; split; [apply orb_true_r|exact H].
Qed.

Lemma peg_annot_ok' fuel : rec_ok (peg_annot fuel) nm_annot.
Proof.
  intros ts x r H E. unfold peg_annot in E. destruct ts as [|t ts]; [discriminate|].
  apply toks_ok_cons in H. destruct H as [_ Hts].
  destruct (role_of_tok t) as [ro|]; [|discriminate].
  destruct (peg_direction ts) as [d r1] eqn:ED. pose proof (peg_direction_ok' ts d r1 Hts ED) as Hr1.
  destruct (peg_name r1) as [n r2] eqn:EN. destruct (peg_name_ok' r1 n r2 Hr1 EN) as [Pn Hr2].
  destruct r2 as [|t2 r3]; [discriminate|]. destruct t2; try discriminate.
  apply toks_ok_cons in Hr2. destruct Hr2 as [_ Hr3].
  destruct (peg_formula fuel r3) as [f r4| |] eqn:EF; try discriminate. injection E as <- <-.
  destruct (peg_formula_ok fuel r3 f r4 Hr3 EF) as [Pf Hr4]. split; [split; [exact Pn|exact Pf]|exact Hr4].
Qed.

Definition nm_raw (e : raw_entry) : Prop :=
  match e with
  | REInput p _ | REOutput p _ => is_symbol_name p = true
  | REPlaceholder c _ => is_symbol_name c = true
  | REFormula a => nm_annot a
  end.

Lemma peg_ug_annot_ok fuel : rec_ok (peg_ug_annot fuel) nm_raw.
Proof.
  intros ts x r H E. unfold peg_ug_annot in E. destruct (peg_annot fuel ts) as [a r0| |] eqn:EA; try discriminate.
  injection E as <- <-. apply (peg_annot_ok' fuel ts a r0 H EA).
Qed.

Lemma peg_placeholder_sort_ok ts s r : toks_ok ts -> peg_placeholder_sort ts = (s, r) -> toks_ok r.
Proof.
  intros H E. unfold peg_placeholder_sort in E. split_match E; try (injection E as <- <-; exact H).
  all: destruct (sort_of_word _); injection E as <- <-; [|exact H];
    apply toks_ok_cons in H; destruct H as [_ H]; apply toks_ok_cons in H; tauto.
Qed.

Lemma peg_ug_entry_ok' fuel : rec_ok (peg_ug_entry fuel) nm_raw.
Proof.
  intros ts x r H E. pose proof (peg_ug_annot_ok fuel ts x r H) as A. unfold peg_ug_entry in E.
  destruct ts as [|t1 ts1]; [exact (A E)|]. destruct ts1 as [|t2 ts2]; [exact (A E)|].
  destruct t2; try exact (A E). destruct ts2 as [|t3 ts3]; [exact (A E)|]. destruct t3; try exact (A E).
  assert (H3 : is_symbol_name s = true /\ toks_ok ts3).
  { apply toks_ok_cons in H. destruct H as [_ H]. apply toks_ok_cons in H. destruct H as [_ H]. apply toks_ok_cons in H. exact H. }
  assert (PH : (if is_word "input" t1 then let '(s0, r') := peg_placeholder_sort ts3 in Ok (REPlaceholder s s0) r' else peg_ug_annot fuel (t1 :: TColon :: TWord s :: ts3)) = Ok x r ->
               nm_raw x /\ toks_ok r).
  { destruct (is_word "input" t1); [|exact A]. destruct (peg_placeholder_sort ts3) as [s0 r'] eqn:EP.
    intros [= <- <-]. split; [exact (proj1 H3)|eapply peg_placeholder_sort_ok; [exact (proj2 H3)|exact EP]]. }
  destruct ts3 as [|t4 ts4]; [exact (PH E)|]. destruct t4; try exact (PH E).
  destruct ts4 as [|t5 ts5]; [exact (PH E)|]. destruct t5; try exact (PH E).
  destruct (is_word "input" t1); [injection E as <- <-|destruct (is_word "output" t1); [injection E as <- <-|exact (A E)]].
  - split; [exact (proj1 H3)|]. destruct H3 as [_ H3]. apply toks_ok_cons in H3. destruct H3 as [_ H3]. apply toks_ok_cons in H3. tauto.
  - split; [exact (proj1 H3)|]. destruct H3 as [_ H3]. apply toks_ok_cons in H3. destruct H3 as [_ H3]. apply toks_ok_cons in H3. tauto.
Qed.

(* ---------- C15_image ---------- *)
Theorem image_theory ts t : toks_ok ts -> parse_theory_toks ts = PR_ok t -> wf_theory t = true.
Proof.
  intros H E. unfold parse_theory_toks, finish in E.
  destruct (peg_dotted peg_formula (fuel_of ts) ts) as [l [|? ?]| |] eqn:ED; try discriminate.
  destruct (forallb formula_in_range l) eqn:ER; [|discriminate]. injection E as <-.
  destruct (peg_dotted_ok peg_formula _ peg_formula_ok (fuel_of ts) ts l [] H ED) as [Pl _].
  unfold wf_theory. apply forallb_forall. intros f Hf. apply wf_of_nm; [apply Pl; exact Hf|].
  rewrite forallb_forall in ER. apply ER. exact Hf.
Qed.

Lemma wf_annot_of a : nm_annot a -> formula_in_range (an_formula a) = true -> wf_annot a = true.
Proof. intros [A C] R. unfold wf_annot. rewrite A, (wf_of_nm _ C R). reflexivity. Qed.

Theorem image_spec ts s : toks_ok ts -> parse_spec_toks ts = PR_ok s -> wf_spec s = true.
Proof.
  intros H E. unfold parse_spec_toks, finish in E.
  destruct (peg_dotted peg_annot (fuel_of ts) ts) as [l [|? ?]| |] eqn:ED; try discriminate.
  destruct (forallb (fun a => formula_in_range (an_formula a)) l) eqn:ER; [|discriminate]. injection E as <-.
  destruct (peg_dotted_ok peg_annot _ peg_annot_ok' (fuel_of ts) ts l [] H ED) as [Pl _].
  unfold wf_spec. apply forallb_forall. intros a Ha. apply wf_annot_of; [apply Pl; exact Ha|].
  rewrite forallb_forall in ER. apply (ER a Ha).
Qed.

Theorem image_ug ts u : toks_ok ts -> parse_ug_toks ts = PR_ok u -> wf_ug u = true.
Proof.
  intros H E. unfold parse_ug_toks, finish in E.
  destruct (peg_dotted peg_ug_entry (fuel_of ts) ts) as [l [|? ?]| |] eqn:ED; try discriminate.
  destruct (forallb raw_entry_in_range l) eqn:ER; [|discriminate]. injection E as <-.
  destruct (peg_dotted_ok peg_ug_entry _ peg_ug_entry_ok' (fuel_of ts) ts l [] H ED) as [Pl _].
  unfold wf_ug. apply forallb_forall. intros e He. apply in_map_iff in He. destruct He as (x & <- & Hx).
  specialize (Pl x Hx). rewrite forallb_forall in ER. specialize (ER x Hx).
  destruct x as [p n|p n|c s|a]; cbn [entry_of_raw wf_ug_entry nm_raw raw_entry_in_range] in *.
  - unfold wf_pred. cbn [psym parity]. rewrite Pl, N2Nat.id, ER. reflexivity.
  - unfold wf_pred. cbn [psym parity]. rewrite Pl, N2Nat.id, ER. reflexivity.
  - exact Pl.
  - apply wf_annot_of; assumption.
Qed.

(* ---------- the lexer only produces names of the right lexical class ---------- *)
Lemma span_fst_forallb p l : forallb p (fst (span p l)) = true.
Proof.
  induction l as [|c l IH]; [reflexivity|]. cbn [span]. destruct (p c) eqn:E; [|reflexivity].
  destruct (span p l) as [a b]. cbn [fst forallb] in *. rewrite E, IH. reflexivity.
Qed.

Lemma cons_tok_ok t r ts : tok_ok t = true -> (forall ts', r = Some ts' -> toks_ok ts') -> cons_tok t r = Some ts -> toks_ok ts.
Proof.
  intros Ht Hr E. destruct r as [ts'|]; [|discriminate]. injection E as <-. apply toks_ok_cons. split; [exact Ht|apply Hr; reflexivity].
Qed.

Lemma lex_go_ok fuel : forall l ts, lex_go fuel l = Some ts -> toks_ok ts.
Proof.
  induction fuel as [|f IH]; intros l ts E; [discriminate|]. cbn [lex_go] in E.
  destruct l as [|c r]; [injection E as <-; reflexivity|].
  assert (W : forall w suf, all_wordchars w = true -> tok_ok (word_tok w suf) = true) by (intros; apply word_tok_ok; assumption).
  repeat match type of E with
         | (if ?b then _ else _) = Some _ => destruct b
         | (let '(_, _) := ?p in _) = Some _ => let a := fresh "a" in let b := fresh "b" in let EP := fresh "EP" in destruct p as [a b] eqn:EP
         | match ?x with _ => _ end = Some _ => destruct x eqn:?
         end;
    try discriminate; try (eapply IH; exact E);
    try (eapply cons_tok_ok; [|intros ? ?; eapply IH; eassumption|exact E]; try reflexivity).
  all: try (apply W;
            match goal with EP : span is_wordchar ?L = (?a, _) |- _ =>
              pose proof (span_fst_forallb is_wordchar L) as SF; rewrite EP in SF; exact SF end).
Qed.

Theorem lex_toks_ok s ts : lex s = Some ts -> toks_ok ts.
Proof. unfold lex. apply lex_go_ok. Qed.

(* C15_image at text level: whatever the model parser (lexer included) accepts is well-formed *)
Theorem image_theory_str s t : parse_theory_str s = PR_ok t -> wf_theory t = true.
Proof.
  unfold parse_theory_str, on_text. destruct (lex s) as [ts|] eqn:EL; [|discriminate].
  apply image_theory. eapply lex_toks_ok; exact EL.
Qed.
Theorem image_spec_str s t : parse_spec_str s = PR_ok t -> wf_spec t = true.
Proof.
  unfold parse_spec_str, on_text. destruct (lex s) as [ts|] eqn:EL; [|discriminate].
  apply image_spec. eapply lex_toks_ok; exact EL.
Qed.
Theorem image_ug_str s t : parse_ug_str s = PR_ok t -> wf_ug t = true.
Proof.
  unfold parse_ug_str, on_text. destruct (lex s) as [ts|] eqn:EL; [|discriminate].
  apply image_ug. eapply lex_toks_ok; exact EL.
Qed.

(* C15 on the image of the parser: a text the parser accepts, printed and read again, gives the same tree
   (token level for the second reading), outside the two known classes *)
Corollary parsed_theory_rt s t : parse_theory_str s = PR_ok t -> known_class_theory t = None ->
  parse_theory_toks (strip (print_theory true t)) = PR_ok t.
Proof. intros H K. apply C15_theory; [eapply image_theory_str; exact H|exact K]. Qed.
Corollary parsed_spec_rt s t : parse_spec_str s = PR_ok t -> known_class_spec t = None ->
  parse_spec_toks (strip (print_spec true t)) = PR_ok t.
Proof. intros H K. apply C15_spec; [eapply image_spec_str; exact H|exact K]. Qed.
Corollary parsed_ug_rt s t : parse_ug_str s = PR_ok t -> known_class_ug t = None ->
  parse_ug_toks (strip (print_ug true t)) = PR_ok t.
Proof. intros H K. apply C15_ug; [eapply image_ug_str; exact H|exact K]. Qed.
