(* The clash premise of C02 / C13 / C19 (external tasks) is decidable: boolean versions of
   flist_no_clash, validated_no_clash and of "the task's own validated task has no clash", so that
   the premise can be discharged on a concrete task by vm_compute (non-vacuity examples). *)
From Coq Require Import List Ascii String ZArith NArith Bool Lia.
From Anthem Require Import Base.ISet Syntax.Fol Syntax.Asp Sem.Domain Sem.Sat
  Model.Problem Model.Outline Model.Strong Model.External
  Proofs.ExternalOk Proofs.C19Ext.
Import ListNotations.
Open Scope string_scope.
Open Scope list_scope.

Definition flist_no_clashb (fs : list formula) : bool :=
  forallb (fun f => forallb (fun s => forallb (fun g => negb (memb pred_dec (mkpred s 0) (predicates g))) fs) (symbols f)) fs.

Lemma flist_no_clashb_spec fs : flist_no_clashb fs = true <-> flist_no_clash fs.
Proof.
  unfold flist_no_clashb, flist_no_clash. rewrite forallb_forall. split.
  - intros H f g s Hf Hg Hs Hin. specialize (H f Hf). rewrite forallb_forall in H. specialize (H s Hs).
    rewrite forallb_forall in H. specialize (H g Hg). apply negb_true_iff in H.
    destruct (memb_spec pred_dec (mkpred s 0) (predicates g)); [discriminate|contradiction].
  - intros H f Hf. apply forallb_forall. intros s Hs. apply forallb_forall. intros g Hg. apply negb_true_iff.
    destruct (memb_spec pred_dec (mkpred s 0) (predicates g)) as [Hin|Hin]; [|reflexivity].
    exfalso. exact (H f g s Hf Hg Hs Hin).
Qed.

Definition validated_no_clashb (vt : validated_task) : bool :=
  match validated_assemble vt with Some (_, a) => flist_no_clashb (at_formulas a) | None => true end.

Lemma validated_no_clashb_spec vt : validated_no_clashb vt = true <-> validated_no_clash vt.
Proof.
  unfold validated_no_clashb, validated_no_clash, assembled_no_clash.
  destruct (validated_assemble vt) as [[w a]|].
  - rewrite flist_no_clashb_spec. split; [intros H w' a' [= _ <-]; exact H|intros H; exact (H w a eq_refl)].
  - split; [intros _ w a [=]|reflexivity].
Qed.

Section Task.
Variable tau_star : program -> theory.
Variable completion : theory -> list pred -> option theory.
Variable simp_classic : formula -> formula.

Definition task_no_clashb (t : ext_task) : bool :=
  match task_validated tau_star completion simp_classic t with Some vt => validated_no_clashb vt | None => true end.

Lemma task_no_clashb_spec t :
  task_no_clashb t = true <->
  (forall vt, task_validated tau_star completion simp_classic t = Some vt -> validated_no_clash vt).
Proof.
  unfold task_no_clashb. destruct (task_validated tau_star completion simp_classic t) as [vt|].
  - rewrite validated_no_clashb_spec. split; [intros H vt' [= <-]; exact H|intros H; exact (H vt eq_refl)].
  - split; [intros _ vt [=]|reflexivity].
Qed.
End Task.
