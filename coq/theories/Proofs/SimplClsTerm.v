(* C18, classic portfolio: the fixpoint strategy terminates on INTUITIONISTIC ++ HT ++ CLASSIC.
   Every rewrite of the portfolio either returns its argument or lexicographically decreases the
   5-tuple (mu, m_gen, m_qn, m_scope, m_def) of Model/ClsTerm.v; the order is a congruence for
   FNot / FBin / FQ, hence it goes through the post-order [apply]; the tuple is bounded
   componentwise by a polynomial in mu, hence [cls_rank] bounds the number of passes. *)
From Coq Require Import List Ascii String ZArith NArith Bool Lia PeanoNat.
From Anthem Require Import Base.ISet Base.Fresh Syntax.Fol Model.Apply Model.Subst Model.SimplIntuit
  Model.SimplClassic Model.ClsTerm
  Proofs.SubstTerm Proofs.SubstOk Proofs.SimplIntuitTerm Proofs.SimplClassicBase Proofs.SimplClassicOk.
Import ListNotations.
Open Scope list_scope.

(* ------------------------------------------------------------------ the order *)
Definition cls_dec (r : formula -> formula) : Prop := forall F, r F = F \/ cls_lt (r F) F.

Lemma cls_lt_trans F G H : cls_lt F G -> cls_lt G H -> cls_lt F H.
Proof. unfold cls_lt, lex5. lia. Qed.

Lemma cls_lt_not G F : cls_lt G F -> cls_lt (FNot G) (FNot F).
Proof. unfold cls_lt, lex5. cbn [mu m_gen m_qn m_scope m_def]. lia. Qed.
Lemma cls_lt_bin_l c G F r : cls_lt G F -> cls_lt (FBin c G r) (FBin c F r).
Proof. unfold cls_lt, lex5. cbn [mu m_gen m_qn m_scope m_def]. lia. Qed.
Lemma cls_lt_bin_r c G F l : cls_lt G F -> cls_lt (FBin c l G) (FBin c l F).
Proof. unfold cls_lt, lex5. cbn [mu m_gen m_qn m_scope m_def]. lia. Qed.
Lemma cls_lt_q q vs G F : cls_lt G F -> cls_lt (FQ q vs G) (FQ q vs F).
Proof. unfold cls_lt, lex5. cbn [mu m_gen m_qn m_scope m_def]. lia. Qed.

Lemma cls_lt_mu G F : mu G < mu F -> cls_lt G F.
Proof. unfold cls_lt, lex5. lia. Qed.

Lemma decreasing_cls_dec r : decreasing r -> cls_dec r.
Proof. intros H F. destruct (H F) as [E|L]; [left; exact E|right; apply cls_lt_mu, L]. Qed.

Lemma compose_cls_dec rs : Forall cls_dec rs -> cls_dec (compose rs).
Proof.
  unfold compose. induction rs as [|r rs IH]; intros Hrs F; cbn; [auto|].
  inversion Hrs as [|? ? Hr Hrs']; subst.
  destruct (Hr F) as [->|Hlt]; [apply IH, Hrs'|].
  right. destruct (IH Hrs' (r F)) as [->|Hlt']; [exact Hlt|eapply cls_lt_trans; eauto].
Qed.

Lemma apply_unfold' r F :
  apply r F = r (match F with
                 | FAtomic a => FAtomic a
                 | FNot g => FNot (apply r g)
                 | FBin c l r0 => FBin c (apply r l) (apply r r0)
                 | FQ q vs g => FQ q vs (apply r g)
                 end).
Proof. destruct F; reflexivity. Qed.

Lemma apply_cls_dec r : cls_dec r -> cls_dec (apply r).
Proof.
  intros Hr F. induction F as [a|f IH|c l IHl r0 IHr|q vs f IH]; rewrite apply_unfold'.
  - apply Hr.
  - destruct IH as [->|Hlt]; [apply Hr|].
    right. apply cls_lt_not in Hlt.
    destruct (Hr (FNot (apply r f))) as [->|Hlt']; [exact Hlt|eapply cls_lt_trans; eauto].
  - assert (Hin : FBin c (apply r l) (apply r r0) = FBin c l r0 \/ cls_lt (FBin c (apply r l) (apply r r0)) (FBin c l r0)).
    { destruct IHl as [->|Hl]; destruct IHr as [->|Hr0]; auto; right.
      - apply cls_lt_bin_r, Hr0.
      - apply cls_lt_bin_l, Hl.
      - eapply cls_lt_trans; [apply cls_lt_bin_r, Hr0|apply cls_lt_bin_l, Hl]. }
    destruct Hin as [->|Hlt]; [apply Hr|].
    right. destruct (Hr (FBin c (apply r l) (apply r r0))) as [->|Hlt']; [exact Hlt|eapply cls_lt_trans; eauto].
  - destruct IH as [->|Hlt]; [apply Hr|].
    right. apply (cls_lt_q q vs) in Hlt.
    destruct (Hr (FQ q vs (apply r f))) as [->|Hlt']; [exact Hlt|eapply cls_lt_trans; eauto].
Qed.

(* ------------------------------------------------------------------ substitution *)
(* componentwise: Formula::substitute does not increase any component *)
Definition sub_le (G F : formula) : Prop :=
  mu G <= mu F /\ m_gen G <= m_gen F /\ m_qn G <= m_qn F /\ m_scope G <= m_scope F /\ m_def G <= m_def F.
Lemma sub_le_refl F : sub_le F F.
Proof. unfold sub_le; lia. Qed.
Lemma sub_le_trans F G H : sub_le F G -> sub_le G H -> sub_le F H.
Proof. unfold sub_le; lia. Qed.

Lemma is_bare_var v : is_bare (var_to_gterm v) = true.
Proof. destruct v as [n []]; reflexivity. Qed.

Lemma gsubst_bare g x t g' : gsubst g x t = Some g' -> is_bare g' = true -> is_bare g = true.
Proof.
  destruct x as [n s]. unfold gsubst; cbn [vsort vname].
  destruct g as [| |c|y|it|st]; destruct s; try (intros [= <-]; auto; fail); try (intros _ _; reflexivity).
  - destruct t as [| | | |u|]; try discriminate. intros [= <-].
    destruct it as [z|c|y|o a|o l r]; cbn; try discriminate; auto.
  - destruct t as [| | | | |u]; try discriminate. intros [= <-].
    destruct st as [sy|c|y]; cbn; try discriminate; auto.
Qed.

Lemma def_eq_subst x t l rh l' rh' r :
  gsubst l x t = Some l' -> gsubst rh x t = Some rh' ->
  def_eq (l', r, rh') = true -> def_eq (l, r, rh) = true.
Proof.
  intros El Er. unfold def_eq. rewrite !andb_true_iff, !orb_true_iff, !negb_true_iff.
  intros [[H1 H2] H3]. split; [split; [exact H1|]|].
  - destruct (gterm_eqb_spec l rh) as [->|]; [|reflexivity].
    rewrite El in Er. inversion Er; subst. destruct (gterm_eqb_spec rh' rh'); congruence.
  - destruct H3 as [H3|H3]; [left; eapply gsubst_bare; eauto|right; eapply gsubst_bare; eauto].
Qed.

Lemma individuals_subst_le x t gs : forall gs' l l',
  gsubst l x t = Some l' ->
  Forall2 (fun g g' => gsubst_guard x t g = Some g') gs gs' ->
  List.length (filter def_eq (individuals l' gs')) <= List.length (filter def_eq (individuals l gs)).
Proof.
  induction gs as [|g gs IH]; intros gs' l l' El F2; inversion F2 as [|? g' ? gs0' Hg F2']; subst; cbn [individuals filter]; [lia|].
  apply gsubst_guard_inv in Hg. destruct Hg as [u [Eu ->]]. cbn [grel gterm_of].
  specialize (IH _ _ _ Eu F2').
  destruct (def_eq (l', grel g, u)) eqn:D'.
  - rewrite (def_eq_subst _ _ _ _ _ _ _ El Eu D'). cbn [List.length]. lia.
  - destruct (def_eq (l, grel g, gterm_of g)); cbn [List.length]; lia.
Qed.

Lemma Forall2_length' {A B} (R : A -> B -> Prop) l l' : Forall2 R l l' -> List.length l' = List.length l.
Proof. induction 1; cbn; auto. Qed.

Lemma asubst_measure a x t a' : asubst a x t = Some a' ->
  mu_atomic a' = mu_atomic a /\ m_def_atomic a' <= m_def_atomic a.
Proof.
  intros E. apply asubst_inv in E. destruct a as [| |p ts|l gs].
  - subst; split; auto.
  - subst; split; auto.
  - destruct E as [ts' [-> _]]. split; auto.
  - destruct E as [l' [gs' [-> [El F2]]]]. cbn [mu_atomic m_def_atomic]. split.
    + unfold mu_chain. rewrite (Forall2_length' _ _ _ F2).
      inversion F2; subst; reflexivity.
    + eapply individuals_subst_le; eauto.
Qed.

Lemma gen_count_app vs ws : gen_count (vs ++ ws) = gen_count vs + gen_count ws.
Proof. unfold gen_count. rewrite filter_app, app_length. reflexivity. Qed.
Lemma gen_count_le vs : gen_count vs <= List.length vs.
Proof. unfold gen_count. apply filter_length_le'. Qed.
Lemma Forall2_sorts_gen vs o :
  Forall2 (fun v w : var => vsort w = vsort v) vs o -> gen_count o = gen_count vs /\ List.length o = List.length vs.
Proof.
  induction 1 as [|v w vs o Hs _ [IH1 IH2]]; [split; reflexivity|].
  unfold gen_count in *. cbn [filter List.length].
  assert (E : is_general w = is_general v) by (unfold is_general; rewrite Hs; reflexivity).
  rewrite E. destruct (is_general v); cbn [List.length]; lia.
Qed.

Lemma quantify_measure f q vs :
  mu (quantify f q vs) <= 1 + List.length vs + mu f /\
  m_gen (quantify f q vs) = gen_count vs + m_gen f /\
  m_qn (quantify f q vs) <= S (m_qn f) /\
  m_scope (quantify f q vs) = m_scope f /\
  m_def (quantify f q vs) = m_def f.
Proof. destruct vs; cbn; repeat split; lia. Qed.

Section RenameMeasure.
Variable sub : formula -> var -> gterm -> option formula.
Variables tvs avoid0 : list var.
Hypothesis Hsub : forall f v t f1, sub f v t = Some f1 -> sub_le f1 f.
Lemma rb_measure : forall vs f ch f' o, rename_block sub tvs avoid0 vs f ch = Some (f', o) -> sub_le f' f.
Proof.
  induction vs as [|v vs IH]; intros f ch f' o EQ.
  - cbn in EQ. inversion EQ; subst. apply sub_le_refl.
  - apply rb_cons_inv in EQ. destruct EQ as [[_ [f1 [o1 [E1 [E2 _]]]]]|[_ [o1 [E2 _]]]].
    + eapply sub_le_trans; [eapply IH, E2|eapply Hsub, E1].
    + eapply IH, E2.
Qed.
End RenameMeasure.

Theorem subst_measure n : forall F x t G, subst_fuel n F x t = Some G -> sub_le G F.
Proof.
  induction n as [|n IH]; intros F x t G E; [cbn in E; inversion E; apply sub_le_refl|].
  destruct F as [a|f|c l r|q vs f].
  - apply subst_atomic_inv in E. destruct E as [a' [Ea ->]].
    apply asubst_measure in Ea. unfold sub_le. cbn [mu m_gen m_qn m_scope m_def]. lia.
  - apply subst_not_inv in E. destruct E as [f' [Ef ->]]. apply IH in Ef.
    unfold sub_le in *. cbn [mu m_gen m_qn m_scope m_def]. lia.
  - apply subst_bin_inv in E. destruct E as [l' [r' [El [Er ->]]]]. apply IH in El. apply IH in Er.
    unfold sub_le in *. cbn [mu m_gen m_qn m_scope m_def]. lia.
  - apply subst_q_inv in E. destruct E as [[_ ->]|[_ [f' [vs' [f'' [E1 [E2 ->]]]]]]]; [apply sub_le_refl|].
    pose proof (rb_measure _ _ _ IH _ _ _ _ _ E1) as L1.
    apply rb_struct in E1. destruct E1 as [S1 _]. apply Forall2_sorts_gen in S1. destruct S1 as [G1 G2].
    apply IH in E2.
    pose proof (quantify_measure f'' q vs') as Q.
    unfold sub_le in *. cbn [mu m_gen m_qn m_scope m_def]. lia.
Qed.

Corollary substitute_measure F x t G : substitute F x t = Some G -> sub_le G F.
Proof. apply subst_measure. Qed.

(* ------------------------------------------------------------ substitute_defined_variables *)
Lemma def_candidate_some' v x term d :
  def_candidate v (x, term) = Some d ->
  d = term /\ x = var_to_gterm v /\ sort_ok v term = true /\ ~ In v (gterm_vars term).
Proof.
  unfold def_candidate. destruct v as [n s]. cbn [vname vsort].
  destruct x as [| |c|y|[z|c|y|o t|o l r]|[sy|c|y]]; destruct term as [| |c'|y'|it'|st']; destruct s;
    try discriminate;
    (destruct (String.eqb_spec n y); cbn [andb]; [|discriminate]);
    (match goal with |- (if negb (memb var_dec ?a ?l) then _ else _) = _ -> _ =>
       destruct (memb_spec var_dec a l) as [Hin|Hnin]; cbn [negb]; [discriminate|] end);
    intros [= <-]; subst; repeat split; try reflexivity; exact Hnin.
Qed.

Lemma gsubst_var_self v d : sort_ok v d = true -> gsubst (var_to_gterm v) v d = Some d.
Proof.
  destruct v as [n []]; unfold var_to_gterm, gsubst, sort_ok; cbn [vsort vname].
  - rewrite String.eqb_refl. reflexivity.
  - destruct d; try discriminate. cbn [isubst]. rewrite String.eqb_refl. reflexivity.
  - destruct d; try discriminate. cbn [ssubst]. rewrite String.eqb_refl. reflexivity.
Qed.
Lemma var_in_own_term v : In v (gterm_vars (var_to_gterm v)).
Proof. destruct v as [n []]; cbn; auto. Qed.

Lemma individuals_subst_lt v d gs : forall gs' t t' l rh,
  sort_ok v d = true -> ~ In v (gterm_vars d) ->
  ((l = var_to_gterm v /\ rh = d) \/ (l = d /\ rh = var_to_gterm v)) ->
  In (l, REq, rh) (individuals t gs) ->
  gsubst t v d = Some t' ->
  Forall2 (fun g g' => gsubst_guard v d g = Some g') gs gs' ->
  List.length (filter def_eq (individuals t' gs')) < List.length (filter def_eq (individuals t gs)).
Proof.
  induction gs as [|g gs IH]; intros gs' t t' l rh Hs Hn Hlr Hin Et F2; [destruct Hin|].
  inversion F2 as [|? g' ? gs0' Hg F2']; subst. cbn [individuals filter] in *.
  apply gsubst_guard_inv in Hg. destruct Hg as [u [Eu ->]]. cbn [grel gterm_of].
  destruct Hin as [E|Hin].
  - injection E as E1 E2 E3.
    assert (Hbefore : def_eq (t, grel g, gterm_of g) = true).
    { rewrite E1, E2, E3. unfold def_eq.
      rewrite !andb_true_iff, negb_true_iff, orb_true_iff. split; [split|].
      - destruct (rel_eqb_spec REq REq); congruence.
      - destruct (gterm_eqb_spec l rh) as [Eq|]; [|reflexivity]. exfalso.
        destruct Hlr as [[-> ->]|[-> ->]]; apply Hn; [rewrite <- Eq|rewrite Eq]; apply var_in_own_term.
      - destruct Hlr as [[-> _]|[_ ->]]; [left|right]; apply is_bare_var. }
    assert (Hafter : def_eq (t', grel g, u) = false).
    { assert (t' = d /\ u = d) as [-> ->].
      { rewrite E1 in Et. rewrite E3 in Eu. destruct Hlr as [[-> ->]|[-> ->]].
        - rewrite (gsubst_var_self _ _ Hs) in Et. inversion Et; subst.
          split; [reflexivity|]. eapply gsubst_id; eauto.
        - rewrite (gsubst_var_self _ _ Hs) in Eu. inversion Eu; subst.
          split; [|reflexivity]. eapply gsubst_id; eauto. }
      unfold def_eq. destruct (gterm_eqb_spec d d); [|congruence].
      rewrite andb_false_r. reflexivity. }
    rewrite Hbefore, Hafter. cbn [List.length].
    pose proof (individuals_subst_le v d gs gs0' (gterm_of g) u Eu F2'). lia.
  - specialize (IH _ _ _ _ _ Hs Hn Hlr Hin Eu F2').
    destruct (def_eq (t', grel g, u)) eqn:D'.
    + rewrite (def_eq_subst _ _ _ _ _ _ _ Et Eu D'). cbn [List.length]. lia.
    + destruct (def_eq (t, grel g, gterm_of g)); cbn [List.length]; lia.
Qed.

Lemma asubst_def_lt v t gs d a' :
  find_map (def_candidate v) (equal_pairs (t, gs)) = Some d ->
  asubst (ACmp t gs) v d = Some a' -> m_def_atomic a' < m_def_atomic (ACmp t gs).
Proof.
  intros H E. apply find_map_some in H. destruct H as [[x term] [Hin Hc]].
  apply def_candidate_some' in Hc. destruct Hc as [-> [-> [Hs Hn]]].
  unfold equal_pairs in Hin. cbn [fst snd] in Hin. apply in_flat_map in Hin.
  destruct Hin as [[[l rel] rh] [Hi Hp]].
  destruct rel; cbn in Hp; try contradiction.
  apply asubst_inv in E. destruct E as [l' [gs' [-> [El F2]]]]. cbn [m_def_atomic].
  eapply (individuals_subst_lt v term gs gs' t l' l rh Hs Hn); eauto.
  destruct Hp as [E|[E|[]]]; inversion E; subst; auto.
Qed.

Lemma subst_def_lt : forall f n v d f',
  find_definition v f = Some d -> fsize f <= n -> subst_fuel n f v d = Some f' -> m_def f' < m_def f.
Proof.
  induction f as [a|f IH|c l IHl r IHr|q vs f IH]; intros n v d f'; cbn [find_definition]; try discriminate.
  - destruct a as [| |p ts|t gs]; try discriminate. intros H Hn E.
    destruct n as [|n]; [cbn in Hn; lia|].
    apply subst_atomic_inv in E. destruct E as [a' [Ea ->]]. cbn [m_def].
    eapply asubst_def_lt; eauto.
  - destruct c; try discriminate. intros H Hn E.
    destruct n as [|n]; [cbn in Hn; lia|]. cbn [fsize] in Hn.
    apply subst_bin_inv in E. destruct E as [l' [r' [El [Er ->]]]]. cbn [m_def].
    destruct (find_definition v l) as [d'|] eqn:Dl.
    + inversion H; subst. pose proof (IHl n v d l' Dl ltac:(lia) El).
      pose proof (subst_measure _ _ _ _ _ Er) as [_ [_ [_ [_ L]]]]. lia.
    + pose proof (IHr n v d r' H ltac:(lia) Er).
      pose proof (subst_measure _ _ _ _ _ El) as [_ [_ [_ [_ L]]]]. lia.
Qed.

Lemma sdv_loop_measure : forall vs f f', sdv_loop vs f = Some f' ->
  f' = f \/ (sub_le f' f /\ m_def f' < m_def f).
Proof.
  induction vs as [|v vs IH]; intros f f'; cbn [sdv_loop].
  - intros [= <-]. left; reflexivity.
  - destruct (find_definition v f) as [d|] eqn:Ed; [|apply IH].
    destruct (substitute f v d) as [f1|] eqn:Es; [|discriminate].
    intros H. right.
    pose proof (substitute_measure _ _ _ _ Es) as L1.
    pose proof (subst_def_lt f (fsize f) v d f1 Ed (le_n _) Es) as L2.
    destruct (IH _ _ H) as [->|[L3 L4]]; [split; assumption|].
    split; [eapply sub_le_trans; eauto|lia].
Qed.

Lemma substitute_defined_variables_cls_dec : cls_dec substitute_defined_variables.
Proof.
  intros F. unfold substitute_defined_variables, total.
  destruct F as [a|g|c l r|q vs f]; cbn [substitute_defined_variables_opt]; try (left; reflexivity).
  destruct q; try (left; reflexivity).
  destruct (sdv_loop (rev vs) f) as [f'|] eqn:E; [|left; reflexivity].
  pose proof (quantify_measure f' QExists vs) as Q.
  apply sdv_loop_measure in E. destruct E as [->|[L1 L2]].
  - destruct vs as [|v vs]; [right; apply cls_lt_mu; cbn; lia|left; reflexivity].
  - right. unfold cls_lt, lex5, sub_le in *. cbn [mu m_gen m_qn m_scope m_def]. lia.
Qed.
