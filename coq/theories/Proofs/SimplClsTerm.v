(* C18, classic portfolio: the fixpoint strategy terminates on INTUITIONISTIC ++ HT ++ CLASSIC.
   Every rewrite of the portfolio either returns its argument or lexicographically decreases the
   5-tuple (mu, m_gen, m_qn, m_scope, m_def) of Model/ClsTerm.v; the order is a congruence for
   FNot / FBin / FQ, hence it goes through the post-order [apply]; the tuple is bounded
   componentwise by a polynomial in mu, hence [cls_rank] bounds the number of passes. *)
From Coq Require Import List Ascii String ZArith NArith Bool Lia PeanoNat.
From Anthem Require Import Base.ISet Base.Fresh Syntax.Fol Model.Apply Model.Subst Model.SimplIntuit
  Model.SimplClassic Model.ClsTerm
  Proofs.SubstTerm Proofs.SubstOk Proofs.SimplIntuitTerm Proofs.SimplClassicBase Proofs.SimplClassicOk.
Import ListNotations.
Open Scope list_scope.

(* ------------------------------------------------------------------ the order *)
Definition cls_dec (r : formula -> formula) : Prop := forall F, r F = F \/ cls_lt (r F) F.

Lemma cls_lt_trans F G H : cls_lt F G -> cls_lt G H -> cls_lt F H.
Proof. unfold cls_lt, lex5. lia. Qed.

Lemma cls_lt_not G F : cls_lt G F -> cls_lt (FNot G) (FNot F).
Proof. unfold cls_lt, lex5. cbn [mu m_gen m_qn m_scope m_def]. lia. Qed.
Lemma cls_lt_bin_l c G F r : cls_lt G F -> cls_lt (FBin c G r) (FBin c F r).
Proof. unfold cls_lt, lex5. cbn [mu m_gen m_qn m_scope m_def]. lia. Qed.
Lemma cls_lt_bin_r c G F l : cls_lt G F -> cls_lt (FBin c l G) (FBin c l F).
Proof. unfold cls_lt, lex5. cbn [mu m_gen m_qn m_scope m_def]. lia. Qed.
Lemma cls_lt_q q vs G F : cls_lt G F -> cls_lt (FQ q vs G) (FQ q vs F).
Proof. unfold cls_lt, lex5. cbn [mu m_gen m_qn m_scope m_def]. lia. Qed.

Lemma cls_lt_mu G F : mu G < mu F -> cls_lt G F.
Proof. unfold cls_lt, lex5. lia. Qed.

Lemma decreasing_cls_dec r : decreasing r -> cls_dec r.
Proof. intros H F. destruct (H F) as [E|L]; [left; exact E|right; apply cls_lt_mu, L]. Qed.

Lemma compose_cls_dec rs : Forall cls_dec rs -> cls_dec (compose rs).
Proof.
  unfold compose. induction rs as [|r rs IH]; intros Hrs F; cbn; [auto|].
  inversion Hrs as [|? ? Hr Hrs']; subst.
  destruct (Hr F) as [->|Hlt]; [apply IH, Hrs'|].
  right. destruct (IH Hrs' (r F)) as [->|Hlt']; [exact Hlt|eapply cls_lt_trans; eauto].
Qed.

Lemma apply_unfold' r F :
  apply r F = r (match F with
                 | FAtomic a => FAtomic a
                 | FNot g => FNot (apply r g)
                 | FBin c l r0 => FBin c (apply r l) (apply r r0)
                 | FQ q vs g => FQ q vs (apply r g)
                 end).
Proof. destruct F; reflexivity. Qed.

Lemma apply_cls_dec r : cls_dec r -> cls_dec (apply r).
Proof.
  intros Hr F. induction F as [a|f IH|c l IHl r0 IHr|q vs f IH]; rewrite apply_unfold'.
  - apply Hr.
  - destruct IH as [->|Hlt]; [apply Hr|].
    right. apply cls_lt_not in Hlt.
    destruct (Hr (FNot (apply r f))) as [->|Hlt']; [exact Hlt|eapply cls_lt_trans; eauto].
  - assert (Hin : FBin c (apply r l) (apply r r0) = FBin c l r0 \/ cls_lt (FBin c (apply r l) (apply r r0)) (FBin c l r0)).
    { destruct IHl as [->|Hl]; destruct IHr as [->|Hr0]; auto; right.
      - apply cls_lt_bin_r, Hr0.
      - apply cls_lt_bin_l, Hl.
      - eapply cls_lt_trans; [apply cls_lt_bin_r, Hr0|apply cls_lt_bin_l, Hl]. }
    destruct Hin as [->|Hlt]; [apply Hr|].
    right. destruct (Hr (FBin c (apply r l) (apply r r0))) as [->|Hlt']; [exact Hlt|eapply cls_lt_trans; eauto].
  - destruct IH as [->|Hlt]; [apply Hr|].
    right. apply (cls_lt_q q vs) in Hlt.
    destruct (Hr (FQ q vs (apply r f))) as [->|Hlt']; [exact Hlt|eapply cls_lt_trans; eauto].
Qed.

(* ------------------------------------------------------------------ substitution *)
(* componentwise: Formula::substitute does not increase any component *)
Definition sub_le (G F : formula) : Prop :=
  mu G <= mu F /\ m_gen G <= m_gen F /\ m_qn G <= m_qn F /\ m_scope G <= m_scope F /\ m_def G <= m_def F.
Lemma sub_le_refl F : sub_le F F.
Proof. unfold sub_le; lia. Qed.
Lemma sub_le_trans F G H : sub_le F G -> sub_le G H -> sub_le F H.
Proof. unfold sub_le; lia. Qed.

Lemma is_bare_var v : is_bare (var_to_gterm v) = true.
Proof. destruct v as [n []]; reflexivity. Qed.

Lemma gsubst_bare g x t g' : gsubst g x t = Some g' -> is_bare g' = true -> is_bare g = true.
Proof.
  destruct x as [n s]. unfold gsubst; cbn [vsort vname].
  destruct g as [| |c|y|it|st]; destruct s; try (intros [= <-]; auto; fail); try (intros _ _; reflexivity).
  - destruct t as [| | | |u|]; try discriminate. intros [= <-].
    destruct it as [z|c|y|o a|o l r]; cbn; try discriminate; auto.
  - destruct t as [| | | | |u]; try discriminate. intros [= <-].
    destruct st as [sy|c|y]; cbn; try discriminate; auto.
Qed.

Lemma def_eq_subst x t l rh l' rh' r :
  gsubst l x t = Some l' -> gsubst rh x t = Some rh' ->
  def_eq (l', r, rh') = true -> def_eq (l, r, rh) = true.
Proof.
  intros El Er. unfold def_eq. rewrite !andb_true_iff, !orb_true_iff, !negb_true_iff.
  intros [[H1 H2] H3]. split; [split; [exact H1|]|].
  - destruct (gterm_eqb_spec l rh) as [->|]; [|reflexivity].
    rewrite El in Er. inversion Er; subst. destruct (gterm_eqb_spec rh' rh'); congruence.
  - destruct H3 as [H3|H3]; [left; eapply gsubst_bare; eauto|right; eapply gsubst_bare; eauto].
Qed.

Lemma individuals_subst_le x t gs : forall gs' l l',
  gsubst l x t = Some l' ->
  Forall2 (fun g g' => gsubst_guard x t g = Some g') gs gs' ->
  List.length (filter def_eq (individuals l' gs')) <= List.length (filter def_eq (individuals l gs)).
Proof.
  induction gs as [|g gs IH]; intros gs' l l' El F2; inversion F2 as [|? g' ? gs0' Hg F2']; subst; cbn [individuals filter]; [lia|].
  apply gsubst_guard_inv in Hg. destruct Hg as [u [Eu ->]]. cbn [grel gterm_of].
  specialize (IH _ _ _ Eu F2').
  destruct (def_eq (l', grel g, u)) eqn:D'.
  - rewrite (def_eq_subst _ _ _ _ _ _ _ El Eu D'). cbn [List.length]. lia.
  - destruct (def_eq (l, grel g, gterm_of g)); cbn [List.length]; lia.
Qed.

Lemma Forall2_length' {A B} (R : A -> B -> Prop) l l' : Forall2 R l l' -> List.length l' = List.length l.
Proof. induction 1; cbn; auto. Qed.

Lemma asubst_measure a x t a' : asubst a x t = Some a' ->
  mu_atomic a' = mu_atomic a /\ m_def_atomic a' <= m_def_atomic a.
Proof.
  intros E. apply asubst_inv in E. destruct a as [| |p ts|l gs].
  - subst; split; auto.
  - subst; split; auto.
  - destruct E as [ts' [-> _]]. split; auto.
  - destruct E as [l' [gs' [-> [El F2]]]]. cbn [mu_atomic m_def_atomic]. split.
    + unfold mu_chain. rewrite (Forall2_length' _ _ _ F2).
      inversion F2; subst; reflexivity.
    + eapply individuals_subst_le; eauto.
Qed.

Lemma gen_count_app vs ws : gen_count (vs ++ ws) = gen_count vs + gen_count ws.
Proof. unfold gen_count. rewrite filter_app, app_length. reflexivity. Qed.
Lemma gen_count_le vs : gen_count vs <= List.length vs.
Proof. unfold gen_count. apply filter_length_le'. Qed.
Lemma Forall2_sorts_gen vs o :
  Forall2 (fun v w : var => vsort w = vsort v) vs o -> gen_count o = gen_count vs /\ List.length o = List.length vs.
Proof.
  induction 1 as [|v w vs o Hs _ [IH1 IH2]]; [split; reflexivity|].
  unfold gen_count in *. cbn [filter List.length].
  assert (E : is_general w = is_general v) by (unfold is_general; rewrite Hs; reflexivity).
  rewrite E. destruct (is_general v); cbn [List.length]; lia.
Qed.

Lemma quantify_measure f q vs :
  mu (quantify f q vs) <= 1 + List.length vs + mu f /\
  m_gen (quantify f q vs) = gen_count vs + m_gen f /\
  m_qn (quantify f q vs) <= S (m_qn f) /\
  m_scope (quantify f q vs) = m_scope f /\
  m_def (quantify f q vs) = m_def f.
Proof. destruct vs; cbn; repeat split; lia. Qed.

Section RenameMeasure.
Variable sub : formula -> var -> gterm -> option formula.
Variables tvs avoid0 : list var.
Hypothesis Hsub : forall f v t f1, sub f v t = Some f1 -> sub_le f1 f.
Lemma rb_measure : forall vs f ch f' o, rename_block sub tvs avoid0 vs f ch = Some (f', o) -> sub_le f' f.
Proof.
  induction vs as [|v vs IH]; intros f ch f' o EQ.
  - cbn in EQ. inversion EQ; subst. apply sub_le_refl.
  - apply rb_cons_inv in EQ. destruct EQ as [[_ [f1 [o1 [E1 [E2 _]]]]]|[_ [o1 [E2 _]]]].
    + eapply sub_le_trans; [eapply IH, E2|eapply Hsub, E1].
    + eapply IH, E2.
Qed.
End RenameMeasure.

Theorem subst_measure n : forall F x t G, subst_fuel n F x t = Some G -> sub_le G F.
Proof.
  induction n as [|n IH]; intros F x t G E; [cbn in E; inversion E; apply sub_le_refl|].
  destruct F as [a|f|c l r|q vs f].
  - apply subst_atomic_inv in E. destruct E as [a' [Ea ->]].
    apply asubst_measure in Ea. unfold sub_le. cbn [mu m_gen m_qn m_scope m_def]. lia.
  - apply subst_not_inv in E. destruct E as [f' [Ef ->]]. apply IH in Ef.
    unfold sub_le in *. cbn [mu m_gen m_qn m_scope m_def]. lia.
  - apply subst_bin_inv in E. destruct E as [l' [r' [El [Er ->]]]]. apply IH in El. apply IH in Er.
    unfold sub_le in *. cbn [mu m_gen m_qn m_scope m_def]. lia.
  - apply subst_q_inv in E. destruct E as [[_ ->]|[_ [f' [vs' [f'' [E1 [E2 ->]]]]]]]; [apply sub_le_refl|].
    pose proof (rb_measure _ _ _ IH _ _ _ _ _ E1) as L1.
    apply rb_struct in E1. destruct E1 as [S1 _]. apply Forall2_sorts_gen in S1. destruct S1 as [G1 G2].
    apply IH in E2.
    pose proof (quantify_measure f'' q vs') as Q.
    unfold sub_le in *. cbn [mu m_gen m_qn m_scope m_def]. lia.
Qed.

Corollary substitute_measure F x t G : substitute F x t = Some G -> sub_le G F.
Proof. apply subst_measure. Qed.

(* ------------------------------------------------------------ substitute_defined_variables *)
Lemma def_candidate_some' v x term d :
  def_candidate v (x, term) = Some d ->
  d = term /\ x = var_to_gterm v /\ sort_ok v term = true /\ ~ In v (gterm_vars term).
Proof.
  unfold def_candidate. destruct v as [n s]. cbn [vname vsort].
  destruct x as [| |c|y|[z|c|y|o t|o l r]|[sy|c|y]]; destruct term as [| |c'|y'|it'|st']; destruct s;
    try discriminate;
    (destruct (String.eqb_spec n y); cbn [andb]; [|discriminate]);
    (match goal with |- (if negb (memb var_dec ?a ?l) then _ else _) = _ -> _ =>
       destruct (memb_spec var_dec a l) as [Hin|Hnin]; cbn [negb]; [discriminate|] end);
    intros [= <-]; subst; repeat split; try reflexivity; exact Hnin.
Qed.

Lemma gsubst_var_self v d : sort_ok v d = true -> gsubst (var_to_gterm v) v d = Some d.
Proof.
  destruct v as [n []]; unfold var_to_gterm, gsubst, sort_ok; cbn [vsort vname].
  - rewrite String.eqb_refl. reflexivity.
  - destruct d; try discriminate. cbn [isubst]. rewrite String.eqb_refl. reflexivity.
  - destruct d; try discriminate. cbn [ssubst]. rewrite String.eqb_refl. reflexivity.
Qed.
Lemma var_in_own_term v : In v (gterm_vars (var_to_gterm v)).
Proof. destruct v as [n []]; cbn; auto. Qed.

Lemma individuals_subst_lt v d gs : forall gs' t t' l rh,
  sort_ok v d = true -> ~ In v (gterm_vars d) ->
  ((l = var_to_gterm v /\ rh = d) \/ (l = d /\ rh = var_to_gterm v)) ->
  In (l, REq, rh) (individuals t gs) ->
  gsubst t v d = Some t' ->
  Forall2 (fun g g' => gsubst_guard v d g = Some g') gs gs' ->
  List.length (filter def_eq (individuals t' gs')) < List.length (filter def_eq (individuals t gs)).
Proof.
  induction gs as [|g gs IH]; intros gs' t t' l rh Hs Hn Hlr Hin Et F2; [destruct Hin|].
  inversion F2 as [|? g' ? gs0' Hg F2']; subst. cbn [individuals filter] in *.
  apply gsubst_guard_inv in Hg. destruct Hg as [u [Eu ->]]. cbn [grel gterm_of].
  destruct Hin as [E|Hin].
  - injection E as E1 E2 E3.
    assert (Hbefore : def_eq (t, grel g, gterm_of g) = true).
    { rewrite E1, E2, E3. unfold def_eq.
      rewrite !andb_true_iff, negb_true_iff, orb_true_iff. split; [split|].
      - destruct (rel_eqb_spec REq REq); congruence.
      - destruct (gterm_eqb_spec l rh) as [Eq|]; [|reflexivity]. exfalso.
        destruct Hlr as [[-> ->]|[-> ->]]; apply Hn; [rewrite <- Eq|rewrite Eq]; apply var_in_own_term.
      - destruct Hlr as [[-> _]|[_ ->]]; [left|right]; apply is_bare_var. }
    assert (Hafter : def_eq (t', grel g, u) = false).
    { assert (t' = d /\ u = d) as [-> ->].
      { rewrite E1 in Et. rewrite E3 in Eu. destruct Hlr as [[-> ->]|[-> ->]].
        - rewrite (gsubst_var_self _ _ Hs) in Et. inversion Et; subst.
          split; [reflexivity|]. eapply gsubst_id; eauto.
        - rewrite (gsubst_var_self _ _ Hs) in Eu. inversion Eu; subst.
          split; [|reflexivity]. eapply gsubst_id; eauto. }
      unfold def_eq. destruct (gterm_eqb_spec d d); [|congruence].
      rewrite andb_false_r. reflexivity. }
    rewrite Hbefore, Hafter. cbn [List.length].
    pose proof (individuals_subst_le v d gs gs0' (gterm_of g) u Eu F2'). lia.
  - specialize (IH _ _ _ _ _ Hs Hn Hlr Hin Eu F2').
    destruct (def_eq (t', grel g, u)) eqn:D'.
    + rewrite (def_eq_subst _ _ _ _ _ _ _ Et Eu D'). cbn [List.length]. lia.
    + destruct (def_eq (t, grel g, gterm_of g)); cbn [List.length]; lia.
Qed.

Lemma asubst_def_lt v t gs d a' :
  find_map (def_candidate v) (equal_pairs (t, gs)) = Some d ->
  asubst (ACmp t gs) v d = Some a' -> m_def_atomic a' < m_def_atomic (ACmp t gs).
Proof.
  intros H E. apply find_map_some in H. destruct H as [[x term] [Hin Hc]].
  apply def_candidate_some' in Hc. destruct Hc as [-> [-> [Hs Hn]]].
  unfold equal_pairs in Hin. cbn [fst snd] in Hin. apply in_flat_map in Hin.
  destruct Hin as [[[l rel] rh] [Hi Hp]].
  destruct rel; cbn in Hp; try contradiction.
  apply asubst_inv in E. destruct E as [l' [gs' [-> [El F2]]]]. cbn [m_def_atomic].
  eapply (individuals_subst_lt v term gs gs' t l' l rh Hs Hn); eauto.
  destruct Hp as [E|[E|[]]]; inversion E; subst; auto.
Qed.

Lemma subst_def_lt : forall f n v d f',
  find_definition v f = Some d -> fsize f <= n -> subst_fuel n f v d = Some f' -> m_def f' < m_def f.
Proof.
  induction f as [a|f IH|c l IHl r IHr|q vs f IH]; intros n v d f'; cbn [find_definition]; try discriminate.
  - destruct a as [| |p ts|t gs]; try discriminate. intros H Hn E.
    destruct n as [|n]; [cbn in Hn; lia|].
    apply subst_atomic_inv in E. destruct E as [a' [Ea ->]]. cbn [m_def].
    eapply asubst_def_lt; eauto.
  - destruct c; try discriminate. intros H Hn E.
    destruct n as [|n]; [cbn in Hn; lia|]. cbn [fsize] in Hn.
    apply subst_bin_inv in E. destruct E as [l' [r' [El [Er ->]]]]. cbn [m_def].
    destruct (find_definition v l) as [d'|] eqn:Dl.
    + inversion H; subst. pose proof (IHl n v d l' Dl ltac:(lia) El).
      pose proof (subst_measure _ _ _ _ _ Er) as [_ [_ [_ [_ L]]]]. lia.
    + pose proof (IHr n v d r' H ltac:(lia) Er).
      pose proof (subst_measure _ _ _ _ _ El) as [_ [_ [_ [_ L]]]]. lia.
Qed.

Lemma sdv_loop_measure : forall vs f f', sdv_loop vs f = Some f' ->
  f' = f \/ (sub_le f' f /\ m_def f' < m_def f).
Proof.
  induction vs as [|v vs IH]; intros f f'; cbn [sdv_loop].
  - intros [= <-]. left; reflexivity.
  - destruct (find_definition v f) as [d|] eqn:Ed; [|apply IH].
    destruct (substitute f v d) as [f1|] eqn:Es; [|discriminate].
    intros H. right.
    pose proof (substitute_measure _ _ _ _ Es) as L1.
    pose proof (subst_def_lt f (fsize f) v d f1 Ed (le_n _) Es) as L2.
    destruct (IH _ _ H) as [->|[L3 L4]]; [split; assumption|].
    split; [eapply sub_le_trans; eauto|lia].
Qed.

Lemma substitute_defined_variables_cls_dec : cls_dec substitute_defined_variables.
Proof.
  intros F. unfold substitute_defined_variables, total.
  destruct F as [a|g|c l r|q vs f]; cbn [substitute_defined_variables_opt]; try (left; reflexivity).
  destruct q; try (left; reflexivity).
  destruct (sdv_loop (rev vs) f) as [f'|] eqn:E; [|left; reflexivity].
  pose proof (quantify_measure f' QExists vs) as Q.
  apply sdv_loop_measure in E. destruct E as [->|[L1 L2]].
  - destruct vs as [|v vs]; [right; apply cls_lt_mu; cbn; lia|left; reflexivity].
  - right. unfold cls_lt, lex5, sub_le in *. cbn [mu m_gen m_qn m_scope m_def]. lia.
Qed.

(* ------------------------------------------------ remove_double_negation, extend_quantifier_scope *)
Lemma remove_double_negation_cls_dec : cls_dec remove_double_negation.
Proof.
  intros F. destruct F as [a|[a|g|c l r|q vs g]|c l r|q vs g]; try (left; reflexivity).
  right. apply cls_lt_mu. cbn. lia.
Qed.

Lemma extend_quantifier_scope_cls_dec : cls_dec extend_quantifier_scope.
Proof.
  intros F.
  destruct (extend_quantifier_scope_cases F)
    as [E|[(c&q&vs&f&rhs&Hc&->&_&->)|(c&q&vs&f&lhs&Hc&->&_&->)]]; [left; exact E| |];
    right; unfold cls_lt, lex5; cbn [mu m_gen m_qn m_scope m_def]; lia.
Qed.

(* -------------------------------------------------------------- simplify_transitive_equality *)
Definition mu_sum (l : list formula) : nat := fold_right (fun x acc => S (mu x) + acc) 0 l.
Lemma mu_sum_app l1 l2 : mu_sum (l1 ++ l2) = mu_sum l1 + mu_sum l2.
Proof. unfold mu_sum. induction l1 as [|x l1 IH]; cbn [app fold_right]; [reflexivity|]. rewrite IH. lia. Qed.
Lemma mu_fold_and' xs : forall x, mu (fold_left (fun acc e => FBin CAnd acc e) xs x) = mu x + mu_sum xs.
Proof. unfold mu_sum. induction xs as [|y xs IH]; intros x; cbn [fold_left fold_right]; [lia|]. rewrite IH. cbn [mu mu_conn]. lia. Qed.
Lemma mu_conjoin l : l <> [] -> S (mu (conjoin l)) = mu_sum l.
Proof.
  destruct l as [|x xs]; [congruence|intros _]. unfold conjoin, reduce_bin. rewrite mu_fold_and'. unfold mu_sum. cbn [fold_right]. lia.
Qed.
Lemma mu_conjoin_invert f : mu_sum (conjoin_invert f) = S (mu f).
Proof.
  induction f as [a|f IH|c l IHl r IHr|q vs f IH]; try (cbn; lia).
  destruct c; try (cbn; lia). cbn [conjoin_invert]. rewrite mu_sum_app, IHl, IHr. cbn. lia.
Qed.
Lemma mu_sum_cons x l : mu_sum (x :: l) = S (mu x) + mu_sum l.
Proof. reflexivity. Qed.
Lemma mu_sum_filter_le (p : formula -> bool) l : mu_sum (filter p l) <= mu_sum l.
Proof.
  induction l as [|z l IH]; [cbn; lia|]. cbn [filter].
  destruct (p z); rewrite !mu_sum_cons; lia.
Qed.
Lemma mu_sum_filter (p : formula -> bool) l x : In x l -> p x = false ->
  mu_sum (filter p l) + S (mu x) <= mu_sum l.
Proof.
  induction l as [|y l IH]; [intros []|]. intros [->|Hin] Hp; cbn [filter].
  - rewrite Hp, mu_sum_cons. pose proof (mu_sum_filter_le p l). lia.
  - specialize (IH Hin Hp). destruct (p y); rewrite !mu_sum_cons; lia.
Qed.

Lemma ste_good_mu vars l r G :
  ste_good vars (conjoin_invert (FBin CAnd l r)) G -> mu G < mu (FQ QExists vars (FBin CAnd l r)).
Proof.
  set (f := FBin CAnd l r).
  intros (c1 & c2 & k & d & dt & inner & H1 & H2 & E1 & E2 & _ & TE & Sub & ->).
  apply equality_comparison_true in E1. destruct E1 as [l1 [r1 ->]].
  apply equality_comparison_true in E2. destruct E2 as [l2 [r2 ->]].
  apply transitive_equality_spec in TE. destruct TE as (_ & _ & _ & Hdt & _).
  assert (Hin : In (cmp_formula dt) (conjoin_invert f)) by (destruct Hdt as [->| ->]; assumption).
  set (p := fun t : formula => negb (formula_eqb t (cmp_formula dt))) in *.
  assert (Hp : p (cmp_formula dt) = false).
  { unfold p. destruct (formula_eqb_spec (cmp_formula dt) (cmp_formula dt)); [reflexivity|congruence]. }
  pose proof (mu_sum_filter p _ _ Hin Hp) as L.
  rewrite mu_conjoin_invert in L.
  assert (Hdt2 : 2 <= mu (cmp_formula dt)) by (unfold cmp_formula; cbn [mu mu_atomic]; apply mu_chain_pos).
  pose proof (substitute_measure _ _ _ _ Sub) as [Lm _].
  cbn [mu]. fold f.
  destruct (filter p (conjoin_invert f)) as [|y ys] eqn:Ef.
  - change (mu (conjoin [])) with 1 in Lm. change (mu_sum []) with 0 in L. lia.
  - assert (Hne : y :: ys <> []) by discriminate.
    pose proof (mu_conjoin _ Hne). lia.
Qed.

Lemma simplify_transitive_equality_cls_dec : cls_dec simplify_transitive_equality.
Proof.
  intros F. unfold simplify_transitive_equality, total.
  destruct F as [a|g|c l r|q vs f]; cbn [simplify_transitive_equality_opt]; try (left; reflexivity).
  destruct q; try (left; reflexivity).
  destruct f as [a|g|c l r|q' vs' g]; try (left; reflexivity).
  destruct c; try (left; reflexivity).
  set (f := FBin CAnd l r). set (F := FQ QExists vs f).
  destruct (for_break (ste_outer_body vs (conjoin_invert f)) (F, false) (enumerate (conjoin_invert f)))
    as [s'|] eqn:L; [|left; reflexivity].
  cbn [option_map].
  assert (P : fst s' = F \/ ste_good vs (conjoin_invert f) (fst s')).
  { revert L. apply (for_break_inv (fun s => fst s = F \/ ste_good vs (conjoin_invert f) (fst s))); [|left; reflexivity].
    intros s0 x s2 b0 Hx P0. apply (ste_outer_body_inv F vs (conjoin_invert f)); auto.
    destruct x as [j ct]. cbn [snd]. eapply in_enumerate; eauto. }
  destruct P as [->|P]; [left; reflexivity|].
  right. apply cls_lt_mu. apply ste_good_mu, P.
Qed.

(* ---------------------------------------------------------------- restrict_quantifier_domain *)
Lemma filter_ne_counts ovar vars : In ovar vars -> vsort ovar = SGeneral ->
  gen_count (filter (fun x => negb (var_eqb x ovar)) vars) < gen_count vars /\
  List.length (filter (fun x => negb (var_eqb x ovar)) vars) < List.length vars.
Proof.
  intros Hin Hg. induction vars as [|v vars IH]; [destruct Hin|].
  assert (Hle : gen_count (filter (fun x => negb (var_eqb x ovar)) vars) <= gen_count vars /\
                List.length (filter (fun x => negb (var_eqb x ovar)) vars) <= List.length vars).
  { clear. induction vars as [|w vars IH]; [split; reflexivity|]. cbn [filter].
    unfold gen_count in *. destruct (negb (var_eqb w ovar)); cbn [filter List.length];
      destruct (is_general w); cbn [List.length]; lia. }
  cbn [filter]. destruct (var_eqb_spec v ovar) as [->|Hne]; cbn [negb].
  - unfold gen_count in *. cbn [filter List.length]. unfold is_general at 2. rewrite Hg. cbn [sort_eqb List.length]. lia.
  - destruct Hin as [->|Hin]; [congruence|]. specialize (IH Hin).
    unfold gen_count in *. cbn [filter List.length]. destruct (is_general v); cbn [List.length]; lia.
Qed.

Lemma rqd_hit_measure F outer inner cond comps G q body :
  F = FQ q outer body ->
  (forall o i, cond o i = true -> vsort o = SGeneral) ->
  rqd_hit F outer inner cond comps G -> cls_lt G F.
Proof.
  intros EF Hcond (ivar & ovar & comp & Ho & _ & Hc & _ & _ & R).
  apply Hcond in Hc.
  apply replacement_helper_true in R.
  destruct R as [_ [q0 [vars0 [f0 [fvar [f' [EF' [_ [Sub ->]]]]]]]]].
  rewrite EF in EF'. inversion EF'; subst q0 vars0 f0. subst F.
  pose proof (substitute_measure _ _ _ _ Sub) as [L1 [L2 _]].
  destruct (filter_ne_counts ovar outer Ho Hc) as [C1 C2].
  unfold cls_lt, lex5. cbn [mu m_gen]. rewrite gen_count_app, app_length.
  change (gen_count [mkvar fvar SInteger]) with 0. cbn [List.length]. lia.
Qed.

Lemma restrict_quantifier_domain_cls_dec : cls_dec restrict_quantifier_domain.
Proof.
  intros F. unfold restrict_quantifier_domain, total.
  destruct F as [a|g|c l r|q outer body]; cbn [restrict_quantifier_domain_opt]; try (left; reflexivity).
  destruct q.
  - destruct body as [a|g|c lhs rhs|q' vs' g]; try (left; reflexivity).
    destruct c; try (left; reflexivity).
    destruct lhs as [a|g|c l r|q' inner inner_formula]; try (left; reflexivity).
    destruct q'; try (left; reflexivity).
    set (B := FBin CImp (FQ QExists inner inner_formula) rhs). set (F := FQ QForall outer B).
    fold (cond_all inner rhs).
    match goal with |- context [option_map fst ?x] => destruct x as [s'|] eqn:L end; [|left; reflexivity].
    cbn [option_map].
    assert (P : fst s' = F \/ rqd_hit F outer inner (cond_all inner rhs) (conjoin_invert inner_formula) (fst s')).
    { revert L.
      apply (for_break_inv (fun s => fst s = F \/
               rqd_hit F outer inner (cond_all inner rhs) (conjoin_invert inner_formula) (fst s)));
        [|left; reflexivity].
      intros s0 x s2 b0 Hx P0.
      apply (rqd_comp_body_inv F outer inner (cond_all inner rhs) (conjoin_invert inner_formula)
               (fun s => fst s = F \/
                  rqd_hit F outer inner (cond_all inner rhs) (conjoin_invert inner_formula) (fst s))
               (fun G HG => or_intror HG) false s0 x s2 b0 Hx P0). }
    destruct P as [->|P]; [left; reflexivity|right].
    eapply (rqd_hit_measure F outer inner _ _ _ QForall B eq_refl); [|exact P].
    intros o i H. apply cond_all_true, cond_ex_true in H. tauto.
  - destruct body as [a|g|c lhs rhs|q' vs' g]; try (left; reflexivity).
    destruct c; try (left; reflexivity).
    set (B := FBin CAnd lhs rhs). set (F := FQ QExists outer B).
    set (cts := conjoin_invert lhs ++ conjoin_invert rhs).
    match goal with |- context [option_map fst ?x] => destruct x as [s'|] eqn:L end; [|left; reflexivity].
    cbn [option_map].
    assert (P : fst s' = F \/ rqd_hit_ex F outer cts (fst s')).
    { revert L. apply (for_break_inv (fun s => fst s = F \/ rqd_hit_ex F outer cts (fst s))); [|left; reflexivity].
      intros s0 x s2 b0 Hx P0. apply (rqd_ct_body_inv F outer cts s0 x s2 b0 Hx P0). }
    destruct P as [->|[inner [inner_formula [_ P]]]]; [left; reflexivity|right].
    eapply (rqd_hit_measure F outer inner _ _ _ QExists B eq_refl); [|exact P].
    intros o i H. apply cond_ex_true in H. tauto.
Qed.

(* ------------------------------------------------------------------------------ the portfolio *)
Lemma CLASSIC_cls_dec : Forall cls_dec CLASSIC.
Proof.
  unfold CLASSIC. repeat (apply Forall_cons || apply Forall_nil).
  - exact remove_double_negation_cls_dec.
  - exact substitute_defined_variables_cls_dec.
  - exact restrict_quantifier_domain_cls_dec.
  - exact extend_quantifier_scope_cls_dec.
  - exact simplify_transitive_equality_cls_dec.
Qed.
Lemma INTUITIONISTIC_cls_dec : Forall cls_dec INTUITIONISTIC.
Proof. eapply Forall_impl; [|apply INTUITIONISTIC_decreasing]. intros r. apply decreasing_cls_dec. Qed.
Lemma portfolio_classic_cls_dec : Forall cls_dec portfolio_classic.
Proof.
  unfold portfolio_classic, HT. apply Forall_app; split; [apply INTUITIONISTIC_cls_dec|].
  apply Forall_app; split; [constructor|apply CLASSIC_cls_dec].
Qed.

(* one pass of a portfolio of decreasing rewrites changes nothing or decreases the tuple *)
Theorem pass_cls_dec rs : Forall cls_dec rs -> cls_dec (apply (compose rs)).
Proof. intros H. apply apply_cls_dec, compose_cls_dec, H. Qed.

(* ------------------------------------------------------------------ bounds and the rank *)
Lemma m_gen_le_mu F : m_gen F <= mu F.
Proof.
  induction F as [a|f IH|c l IHl r IHr|q vs f IH]; cbn [m_gen mu]; try lia.
  pose proof (gen_count_le vs). lia.
Qed.
Lemma m_qn_le_mu F : m_qn F <= mu F.
Proof. induction F as [a|f IH|c l IHl r IHr|q vs f IH]; cbn [m_qn mu]; lia. Qed.
Lemma individuals_length gs : forall t, List.length (individuals t gs) = List.length gs.
Proof. induction gs as [|g gs IH]; intros t; cbn; auto. Qed.
Lemma m_def_le_mu F : m_def F <= mu F.
Proof.
  induction F as [a|f IH|c l IHl r IHr|q vs f IH]; cbn [m_def mu]; try lia.
  destruct a as [| |p ts|t gs]; cbn [m_def_atomic mu_atomic]; try lia.
  pose proof (filter_length_le' def_eq (individuals t gs)) as L. rewrite individuals_length in L.
  unfold mu_chain. destruct gs; cbn [List.length] in *; lia.
Qed.
Lemma m_scope_le_mu2 F : m_scope F <= mu F * mu F.
Proof.
  induction F as [a|f IH|c l IHl r IHr|q vs f IH]; cbn [m_scope mu].
  - lia.
  - etransitivity; [exact IH|apply Nat.mul_le_mono; lia].
  - pose proof (m_qn_le_mu l). pose proof (m_qn_le_mu r).
    assert (mu_conn c >= 1) by (destruct c; cbn; lia).
    set (a := mu l) in *. set (b := mu r) in *. set (w := mu_conn c) in *.
    assert ((1 + a + b) * (1 + a + b) <= (w + a + b) * (w + a + b)) by (apply Nat.mul_le_mono; lia).
    nia.
  - etransitivity; [exact IH|apply Nat.mul_le_mono; lia].
Qed.

Lemma radix_step R a b c d : c < R -> (a < b \/ (a = b /\ c < d)) -> a * R + c < b * R + d.
Proof.
  intros Hc [H|[-> H]]; [|lia].
  assert (S a * R <= b * R) by (apply Nat.mul_le_mono_r; lia). rewrite Nat.mul_succ_l in *. lia.
Qed.

Lemma cls_lt_mu_le G F : cls_lt G F -> mu G <= mu F.
Proof. unfold cls_lt, lex5. lia. Qed.

Lemma cls_rank_lt N G F : mu F <= N -> cls_lt G F -> cls_rank N G < cls_rank N F.
Proof.
  intros HN H. pose proof (cls_lt_mu_le _ _ H) as Hmu.
  pose proof (m_gen_le_mu G). pose proof (m_qn_le_mu G). pose proof (m_def_le_mu G).
  pose proof (m_scope_le_mu2 G) as Hs.
  assert (Hs' : m_scope G < S (N * N)).
  { assert (mu G * mu G <= N * N) by (apply Nat.mul_le_mono; lia). lia. }
  unfold cls_rank. unfold cls_lt, lex5 in H.
  destruct H as [H|[E1 [H|[E2 [H|[E3 [H|[E4 H]]]]]]]].
  - apply radix_step; [lia|left]. apply radix_step; [lia|left]. apply radix_step; [lia|left].
    apply radix_step; [lia|left]. exact H.
  - apply radix_step; [lia|left]. apply radix_step; [lia|left]. apply radix_step; [lia|left].
    apply radix_step; [lia|right]. split; assumption.
  - apply radix_step; [lia|left]. apply radix_step; [lia|left].
    apply radix_step; [lia|right]. split; [rewrite E1, E2; reflexivity|assumption].
  - apply radix_step; [lia|left].
    apply radix_step; [lia|right]. split; [rewrite E1, E2, E3; reflexivity|assumption].
  - apply radix_step; [lia|right]. split; [rewrite E1, E2, E3, E4; reflexivity|assumption].
Qed.

(* ------------------------------------------------------------------------------ the loop *)
Lemma apply_fixpoint_from_cls_total r (Hr : cls_dec (apply r)) N fuel : forall previous current,
  mu current <= N -> cls_rank N current < fuel ->
  exists G, apply_fixpoint_from fuel r previous current = Some G.
Proof.
  induction fuel as [|n IH]; intros previous current HN Hlt; [lia|].
  cbn. destruct (formula_eqb previous current); [eauto|].
  destruct (Hr current) as [Heq|Hdec].
  - rewrite Heq. exists current. destruct n; cbn; destruct (formula_eqb_spec current current); congruence.
  - apply IH.
    + pose proof (cls_lt_mu_le _ _ Hdec). lia.
    + pose proof (cls_rank_lt N _ _ HN Hdec). lia.
Qed.

Theorem apply_fixpoint_cls_total rs F :
  Forall cls_dec rs -> exists G, apply_fixpoint (classic_fuel F) (compose rs) F = Some G.
Proof.
  intros Hrs. pose proof (pass_cls_dec rs Hrs) as Ha.
  unfold apply_fixpoint, classic_fuel. apply (apply_fixpoint_from_cls_total _ Ha (mu F)).
  - destruct (Ha F) as [->|Hlt]; [lia|apply cls_lt_mu_le, Hlt].
  - destruct (Ha F) as [->|Hlt]; [lia|]. pose proof (cls_rank_lt (mu F) _ _ (le_n _) Hlt). lia.
Qed.

(* ---------- statements used by Properties/C18cls.v ---------- *)
Theorem cls_pass_decreasing : forall F,
  apply (compose portfolio_classic) F = F \/ cls_lt (apply (compose portfolio_classic) F) F.
Proof. apply pass_cls_dec, portfolio_classic_cls_dec. Qed.

Theorem cls_only_pass_decreasing : forall F,
  apply (compose CLASSIC) F = F \/ cls_lt (apply (compose CLASSIC) F) F.
Proof. apply pass_cls_dec, CLASSIC_cls_dec. Qed.

Theorem cls_fixpoint_terminates_fuel : forall F,
  exists G, apply_fixpoint (classic_fuel F) (compose portfolio_classic) F = Some G.
Proof. intros F. apply apply_fixpoint_cls_total, portfolio_classic_cls_dec. Qed.

Theorem cls_fixpoint_terminates : forall F,
  exists fuel G, apply_fixpoint fuel (compose (INTUITIONISTIC ++ HT ++ CLASSIC)) F = Some G.
Proof. intros F. exists (classic_fuel F). apply cls_fixpoint_terminates_fuel. Qed.

Theorem cls_only_fixpoint_terminates : forall F,
  exists G, apply_fixpoint (classic_fuel F) (compose CLASSIC) F = Some G.
Proof. intros F. apply apply_fixpoint_cls_total, CLASSIC_cls_dec. Qed.

(* more fuel never hurts: the loop returns the same formula *)
Lemma apply_fixpoint_from_more r : forall fuel previous current G,
  apply_fixpoint_from fuel r previous current = Some G ->
  forall fuel', fuel <= fuel' -> apply_fixpoint_from fuel' r previous current = Some G.
Proof.
  induction fuel as [|n IH]; intros previous current G H fuel' Hle.
  - cbn in H. destruct (formula_eqb previous current) eqn:E; [|discriminate].
    destruct fuel'; cbn; rewrite E; exact H.
  - destruct fuel' as [|m]; [lia|]. cbn in *. destruct (formula_eqb previous current); [exact H|].
    apply (IH _ _ _ H). lia.
Qed.
Theorem cls_fixpoint_terminates_any : forall F fuel, classic_fuel F <= fuel ->
  exists G, apply_fixpoint fuel (compose portfolio_classic) F = Some G.
Proof.
  intros F fuel Hle. destruct (cls_fixpoint_terminates_fuel F) as [G HG]. exists G.
  unfold apply_fixpoint in *. eapply apply_fixpoint_from_more; eauto.
Qed.
