(* Rules: the formula tau* produces for a rule is HT-valid exactly when the rule is HT-satisfied in
   the reference semantics (every ground instance, both worlds).  The choice head uses excluded
   middle on the there-world extent (Classical_Prop.classic). *)
From Coq Require Import List Ascii String ZArith Bool Lia Classical_Prop.
From Anthem Require Import Base.ISet Syntax.Fol Syntax.Asp Sem.Domain Sem.Sat Sem.AspRef
  Model.FreshNames Model.TauStar Proofs.FreshNamesOk Proofs.TauStarBase Proofs.TauStarVal Proofs.TauStarBody.
Import ListNotations.
Open Scope string_scope.
Open Scope list_scope.

(* ---------- environments ---------- *)
Lemma env_eq_trans e1 e2 e3 : env_eq e1 e2 -> env_eq e2 e3 -> env_eq e1 e3.
Proof. intros [A [B C]] [A' [B' C']]. repeat split; intros; congruence. Qed.

Lemma env_eq_upd_self e x : env_eq (upd e (gvar x) (eg e x)) e.
Proof.
  repeat split; cbn; auto. intros y. destruct (String.eqb_spec y x); congruence.
Qed.

Lemma Forall2_imp {A B} (P Q : A -> B -> Prop) l m :
  (forall a b, P a b -> Q a b) -> Forall2 P l m -> Forall2 Q l m.
Proof. intros HPQ. induction 1; constructor; auto. Qed.

Lemma upd_gs_self xs : forall e ds, Forall2 (fun x d => d = eg e x) xs ds -> env_eq (upd_gs e xs ds) e.
Proof.
  induction xs as [|x xs IH]; intros e ds Hf; inversion Hf; subst; cbn [upd_gs].
  - apply env_eq_refl.
  - eapply env_eq_trans; [|apply env_eq_upd_self].
    apply IH. eapply Forall2_imp; [|eassumption]. intros y d ->. cbn.
    destruct (String.eqb_spec y x); congruence.
Qed.

Lemma Forall2_map_self {A B} (f : A -> B) l : Forall2 (fun x d => d = f x) l (map f l).
Proof. induction l; cbn; constructor; auto. Qed.

Definition env_of (sg : assignment) : env := mkenv sg (fun _ => 0%Z) (fun _ => ""%string).

(* ---------- universal closure over general variables ---------- *)
Definition general_var (v : var) : Prop := vsort v = SGeneral.

Lemma general_vars_names vs : Forall general_var vs -> exists xs, vs = map gvar xs.
Proof.
  induction 1 as [|[n s] vs Hv _ [xs ->]].
  - exists []. reflexivity.
  - unfold general_var in Hv. cbn in Hv. subst. exists (n :: xs). reflexivity.
Qed.

Lemma hvalid_forall_general FI H T vs G : Forall general_var vs ->
  (hvalid FI H T (FQ QForall vs G) <-> hvalid FI H T G).
Proof.
  intros Hg. destruct (general_vars_names vs Hg) as [xs ->]. unfold hvalid. cbn [hsat]. split.
  - intros Hq e. specialize (Hq e). rewrite qsat_forall_gs in Hq.
    specialize (Hq (map (eg e) xs) (map_length _ _)).
    eapply hsat_ext; [|exact Hq]. apply env_eq_sym. apply upd_gs_self. apply Forall2_map_self.
  - intros Hk e. apply qsat_forall_gs. intros ds _. apply Hk.
Qed.

Lemma insert_sorted_forall (P : var -> Prop) v l : P v -> Forall P l -> Forall P (insert_sorted v l).
Proof.
  intros Hv. induction 1 as [|x l Hx Hl IH]; cbn.
  - constructor; auto.
  - destruct (var_leb v x); constructor; auto.
Qed.
Lemma sort_vars_forall (P : var -> Prop) l : Forall P l -> Forall P (sort_vars l).
Proof.
  unfold sort_vars. induction 1 as [|x l Hx Hl IH]; cbn; [constructor|].
  apply insert_sorted_forall; auto.
Qed.
Lemma gvars_general xs : Forall general_var (map gvar xs).
Proof. apply Forall_forall. intros v Hv. apply in_map_iff in Hv. destruct Hv as [x [<- _]]. reflexivity. Qed.

Lemma hvalid_closure FI H T xs imp :
  hvalid FI H T (match sort_vars (map gvar xs) with [] => imp | vs => FQ QForall vs imp end) <->
  hvalid FI H T imp.
Proof.
  pose proof (sort_vars_forall general_var _ (gvars_general xs)) as Hg.
  destruct (sort_vars (map gvar xs)) as [|v vs]; [tauto|].
  apply hvalid_forall_general. exact Hg.
Qed.

(* ---------- body satisfaction depends only on the body's variables ---------- *)
Lemma bformula_sat_coincide W T sg1 sg2 b : (forall x, In x (bformula_vars b) -> sg1 x = sg2 x) ->
  (bformula_sat W T sg1 b <-> bformula_sat W T sg2 b).
Proof.
  intros Hs. destruct b as [[s a]|c].
  - assert (Ht : forall vs, tuple_vals sg1 (aterms a) vs <-> tuple_vals sg2 (aterms a) vs).
    { apply tuple_vals_coincide. intros t x Ht Hx. apply Hs. cbn. eapply term_vars_atom; eauto. }
    rewrite !lit_sat_shape. split; intros [vs [Hv Hp]]; exists vs; (split; [apply Ht; exact Hv|exact Hp]).
  - cbn [bformula_sat].
    assert (H1 : forall v, vals sg1 (clhs c) v <-> vals sg2 (clhs c) v).
    { apply vals_coincide. intros x Hx. apply Hs. cbn. unfold cmp_vars. apply in_iset_extend. auto. }
    assert (H2 : forall v, vals sg1 (crhs c) v <-> vals sg2 (crhs c) v).
    { apply vals_coincide. intros x Hx. apply Hs. cbn. unfold cmp_vars. apply in_iset_extend. auto. }
    split; intros [v1 [v2 [A [B C]]]]; exists v1, v2; (split; [apply H1; exact A|split; [apply H2; exact B|exact C]]).
Qed.
Lemma body_sat_coincide W T sg1 sg2 b : (forall x, In x (body_vars b) -> sg1 x = sg2 x) ->
  (body_sat W T sg1 b <-> body_sat W T sg2 b).
Proof.
  intros Hs. unfold body_sat.
  split; apply Forall_impl_in; intros a Ha; apply bformula_sat_coincide; intros x Hx;
    [symmetry|]; apply Hs; unfold body_vars; apply in_extend_all; right; eauto.
Qed.

Lemma rule_vars_body r x : In x (body_vars (rbody r)) -> In x (rule_vars r).
Proof. intros Hx. unfold rule_vars. apply in_iset_extend. right; exact Hx. Qed.
Lemma rule_vars_head r a t x : head_atom (rhead r) = Some a -> In t (aterms a) -> In x (term_vars t) ->
  In x (rule_vars r).
Proof.
  intros Ha Ht Hx. unfold rule_vars. apply in_iset_extend. left.
  destruct (rhead r) as [a'|a'|]; cbn in Ha; try discriminate; injection Ha as ->; cbn;
    eapply term_vars_atom; eauto.
Qed.

(* the global variables handed to a rule are usable: enough of them, distinct, not in the rule *)
Definition fresh_globals (r : rule) (globals : list string) : Prop :=
  head_arity (rhead r) <= List.length globals /\
  NoDup (firstn (head_arity (rhead r)) globals) /\
  forall x, In x (firstn (head_arity (rhead r)) globals) -> ~ In x (rule_vars r).

Section Rule.
Variable FI : fint.
Variables H T : pint.

Lemma hsat_imp e B Hd :
  hsat FI H T e (FBin CImp B Hd) <->
  (hsat FI H T e B -> hsat FI H T e Hd) /\ (csat FI T e B -> csat FI T e Hd).
Proof. reflexivity. Qed.

Lemma hsat_and e l r : hsat FI H T e (FBin CAnd l r) <-> hsat FI H T e l /\ hsat FI H T e r.
Proof. reflexivity. Qed.
Lemma csat_and e l r : csat FI T e (FBin CAnd l r) <-> csat FI T e l /\ csat FI T e r.
Proof. reflexivity. Qed.
Lemma hsat_nn e a : hsat FI H T e (FNot (FNot (FAtomic a))) <-> ~ ~ asat FI T e a.
Proof. reflexivity. Qed.
Lemma csat_nn e a : csat FI T e (FNot (FNot (FAtomic a))) <-> ~ ~ asat FI T e a.
Proof. reflexivity. Qed.

(* moving between "for all environments" and "for all assignments and all value tuples" *)
Lemma shift_forall W r a fvars (Q : list gval -> Prop) :
  head_atom (rhead r) = Some a ->
  NoDup fvars -> List.length fvars = List.length (aterms a) ->
  (forall x, In x fvars -> ~ In x (rule_vars r)) ->
  ((forall e, tuple_vals (eg e) (aterms a) (map (eg e) fvars) -> body_sat W T (eg e) (rbody r) ->
              Q (map (eg e) fvars)) <->
   (forall sg, body_sat W T sg (rbody r) -> forall vs, tuple_vals sg (aterms a) vs -> Q vs)).
Proof.
  intros Ha Hnd Hlen Hfresh. split.
  - intros Hf sg Hb vs Hv.
    assert (Hl : List.length vs = List.length fvars).
    { rewrite Hlen. symmetry. exact (Forall2_len _ _ _ Hv). }
    set (e := upd_gs (env_of sg) fvars vs).
    assert (Hmap : map (eg e) fvars = vs) by (apply eg_upd_gs_nth; auto).
    assert (Hsame : forall x, In x (rule_vars r) -> eg e x = sg x).
    { intros x Hx. unfold e. rewrite eg_upd_gs_other; [reflexivity|]. intros Hin. exact (Hfresh x Hin Hx). }
    rewrite <- Hmap. apply Hf.
    + rewrite Hmap. apply (tuple_vals_coincide (eg e) sg); [|exact Hv].
      intros t x Ht Hx. apply Hsame. eapply rule_vars_head; eauto.
    + apply (body_sat_coincide W T (eg e) sg); [|exact Hb].
      intros x Hx. apply Hsame. apply rule_vars_body; exact Hx.
  - intros Hr e Hv Hb. exact (Hr (eg e) Hb _ Hv).
Qed.

Lemma forall_env_assignment (P : assignment -> Prop) : (forall e, P (eg e)) <-> (forall sg, P sg).
Proof. split; [intros Hf sg; exact (Hf (env_of sg))|intros Hf e; apply Hf]. Qed.

(* ----- constraints ----- *)
Lemma constraint_ok r : rhead r = HFalsity ->
  (hvalid FI H T (tau_star_constraint_rule r) <-> ref_rule_sat H T r).
Proof.
  intros Hh. unfold tau_star_constraint_rule. rewrite hvalid_closure.
  unfold hvalid, ref_rule_sat. rewrite Hh. cbn [head_sat].
  rewrite <- (forall_env_assignment (fun sg => (body_sat H T sg (rbody r) -> False) /\ (body_sat T T sg (rbody r) -> False))).
  split; intros Hf e; specialize (Hf e); rewrite hsat_imp, tau_body_sat, tau_body_csat in *; exact Hf.
Qed.

(* ----- propositional heads ----- *)
Lemma tuple_vals_nil sg vs : tuple_vals sg [] vs <-> vs = [].
Proof. split; [intros Hv; inversion Hv; reflexivity|intros ->; constructor]. Qed.

Lemma prop_head_ok r a F : head_atom (rhead r) = Some a -> aterms a = [] ->
  tau_star_prop_head_rule r = Some F ->
  (hvalid FI H T F <-> ref_rule_sat H T r).
Proof.
  intros Ha Hn. unfold tau_star_prop_head_rule. rewrite Ha. intros [= <-]. rewrite hvalid_closure.
  unfold hvalid, ref_rule_sat.
  destruct (rhead r) as [a'|a'|] eqn:Hh; cbn in Ha; try discriminate; injection Ha as ->; cbn [is_choice head_sat].
  - (* basic *)
    rewrite <- (forall_env_assignment (fun sg =>
      (body_sat H T sg (rbody r) -> forall vs, tuple_vals sg (aterms a) vs -> H (apred a) vs) /\
      (body_sat T T sg (rbody r) -> forall vs, tuple_vals sg (aterms a) vs -> T (apred a) vs))).
    split; intros Hf e; specialize (Hf e); rewrite Hn in *;
      rewrite hsat_imp, tau_body_sat, tau_body_csat in *; cbn [hsat csat asat map] in *.
    + destruct Hf as [Hf1 Hf2]. split; intros Hb vs Hv; apply tuple_vals_nil in Hv; subst; auto.
    + destruct Hf as [Hf1 Hf2]. split; intros Hb; [apply (Hf1 Hb)|apply (Hf2 Hb)]; constructor.
  - (* choice *)
    rewrite <- (forall_env_assignment (fun sg =>
      (body_sat H T sg (rbody r) -> forall vs, tuple_vals sg (aterms a) vs -> H (apred a) vs \/ ~ T (apred a) vs) /\
      (body_sat T T sg (rbody r) -> forall vs, tuple_vals sg (aterms a) vs -> T (apred a) vs \/ ~ T (apred a) vs))).
    split; intros Hf e; specialize (Hf e); rewrite Hn in *;
      rewrite hsat_imp in *; cbn [hsat csat asat map] in *; rewrite tau_body_sat, tau_body_csat in *.
    + destruct Hf as [Hf1 Hf2]. split; intros Hb vs Hv; apply tuple_vals_nil in Hv; subst;
        (destruct (classic (T (apred a) [])) as [Ht|Ht]; [left|right; exact Ht]).
      * apply Hf1. split; [exact Hb|]. intros Hn'. exact (Hn' Ht).
      * exact Ht.
    + destruct Hf as [Hf1 Hf2]. split; intros [Hb Hnn].
      * destruct (Hf1 Hb [] ltac:(constructor)) as [Hp|Hp]; [exact Hp|contradiction].
      * destruct (Hf2 Hb [] ltac:(constructor)) as [Hp|Hp]; [exact Hp|contradiction].
Qed.

(* ----- first-order heads ----- *)
Lemma fo_head_ok r a globals F : head_atom (rhead r) = Some a ->
  fresh_globals r globals ->
  tau_star_fo_head_rule r globals = Some F ->
  (hvalid FI H T F <-> ref_rule_sat H T r).
Proof.
  intros Ha [Hlen [Hnd Hfresh]]. unfold tau_star_fo_head_rule. rewrite Ha.
  assert (Har : head_arity (rhead r) = List.length (aterms a)).
  { destruct (rhead r) as [a'|a'|]; cbn in Ha; try discriminate; injection Ha as ->; reflexivity. }
  rewrite Har in *.
  destruct (Nat.ltb_spec (List.length globals) (List.length (aterms a))) as [Hlt|_]; [lia|].
  intros [= <-].
  set (fvars := firstn (List.length (aterms a)) globals) in *.
  assert (Hfl : List.length fvars = List.length (aterms a)) by (unfold fvars; rewrite firstn_length; lia).
  rewrite hvalid_forall_general
    by (apply sort_vars_forall; rewrite <- map_app; apply gvars_general).
  unfold hvalid, ref_rule_sat.
  assert (Hhead : forall W e, asat FI W e (AAtom (apred a) (map (fun x => GVar x) fvars)) <->
                              W (apred a) (map (eg e) fvars)).
  { intros W e. cbn [asat]. rewrite ev_g_gvars. tauto. }
  assert (Hcore : forall W e, hsat FI W T e (FBin CAnd (valtz (aterms a) (map gvar fvars)) (tau_body (rbody r))) <->
                              tuple_vals (eg e) (aterms a) (map (eg e) fvars) /\ body_sat W T (eg e) (rbody r)).
  { intros W e. cbn [hsat]. unfold valtz. rewrite valtz_sat_gen by (symmetry; exact Hfl).
    rewrite tau_body_sat. tauto. }
  assert (HcoreT : forall e, csat FI T e (FBin CAnd (valtz (aterms a) (map gvar fvars)) (tau_body (rbody r))) <->
                              tuple_vals (eg e) (aterms a) (map (eg e) fvars) /\ body_sat T T (eg e) (rbody r)).
  { intros e. rewrite <- hsat_total. apply Hcore. }
  destruct (rhead r) as [a'|a'|] eqn:Hh; cbn in Ha; try discriminate; injection Ha as ->; cbn [is_choice head_sat].
  - (* basic *)
    transitivity ((forall e, tuple_vals (eg e) (aterms a) (map (eg e) fvars) -> body_sat H T (eg e) (rbody r) ->
                             H (apred a) (map (eg e) fvars)) /\
                  (forall e, tuple_vals (eg e) (aterms a) (map (eg e) fvars) -> body_sat T T (eg e) (rbody r) ->
                             T (apred a) (map (eg e) fvars))).
    + split.
      * intros Hf. split; intros e Hv Hb; specialize (Hf e); rewrite hsat_imp in Hf; destruct Hf as [Hf1 Hf2].
        -- apply Hhead. apply Hf1. apply Hcore. auto.
        -- apply Hhead. apply Hf2. apply HcoreT. auto.
      * intros [Hf1 Hf2] e. rewrite hsat_imp. split; intros Hc.
        -- apply Hcore in Hc. apply Hhead. apply Hf1; tauto.
        -- apply HcoreT in Hc. apply Hhead. apply Hf2; tauto.
    + rewrite (shift_forall H r a fvars (fun vs => H (apred a) vs)) by (rewrite ?Hh; auto).
      rewrite (shift_forall T r a fvars (fun vs => T (apred a) vs)) by (rewrite ?Hh; auto).
      split; [intros [A B] sg; split; [apply A|apply B]|intros Hf; split; intros sg; apply (Hf sg)].
  - (* choice *)
    transitivity ((forall e, tuple_vals (eg e) (aterms a) (map (eg e) fvars) -> body_sat H T (eg e) (rbody r) ->
                             (~ ~ T (apred a) (map (eg e) fvars) -> H (apred a) (map (eg e) fvars))) /\
                  (forall e, tuple_vals (eg e) (aterms a) (map (eg e) fvars) -> body_sat T T (eg e) (rbody r) ->
                             (~ ~ T (apred a) (map (eg e) fvars) -> T (apred a) (map (eg e) fvars)))).
    + split.
      * intros Hf. split; intros e Hv Hb Hnn; specialize (Hf e); rewrite hsat_imp in Hf; destruct Hf as [Hf1 Hf2].
        -- apply Hhead. apply Hf1. apply hsat_and. split; [apply Hcore; auto|].
           apply hsat_nn. rewrite Hhead. exact Hnn.
        -- apply Hhead. apply Hf2. apply csat_and. split; [apply HcoreT; auto|].
           apply csat_nn. rewrite Hhead. exact Hnn.
      * intros [Hf1 Hf2] e. rewrite hsat_imp. split; intros Hc.
        -- apply hsat_and in Hc. destruct Hc as [Hc Hnn]. apply Hcore in Hc. apply Hhead. apply Hf1; try tauto.
           apply hsat_nn in Hnn. intros Hneg. apply Hnn. intros Ha. apply Hneg. apply (Hhead T e). exact Ha.
        -- apply csat_and in Hc. destruct Hc as [Hc Hnn]. apply HcoreT in Hc.
           apply Hhead. apply Hf2; try tauto. apply csat_nn in Hnn.
           intros Hneg. apply Hnn. intros Ha. apply Hneg. apply (Hhead T e). exact Ha.
    + rewrite (shift_forall H r a fvars (fun vs => ~ ~ T (apred a) vs -> H (apred a) vs)) by (rewrite ?Hh; auto).
      rewrite (shift_forall T r a fvars (fun vs => ~ ~ T (apred a) vs -> T (apred a) vs)) by (rewrite ?Hh; auto).
      split.
      * intros [A B] sg. split; intros Hb vs Hv; destruct (classic (T (apred a) vs)) as [Ht|Ht]; auto.
        left. apply (A sg Hb vs Hv). tauto.
      * intros Hf. split; intros sg Hb vs Hv Hnn.
        -- destruct (proj1 (Hf sg) Hb vs Hv) as [Hp|Hp]; [exact Hp|contradiction].
        -- destruct (proj2 (Hf sg) Hb vs Hv) as [Hp|Hp]; [exact Hp|contradiction].
Qed.

(* ----- any rule ----- *)
Theorem tau_star_rule_ok r globals F :
  tau_star_rule r globals = Some F -> fresh_globals r globals ->
  (hvalid FI H T F <-> ref_rule_sat H T r).
Proof.
  unfold tau_star_rule. intros Ht Hfresh.
  destruct (rhead r) as [a|a|] eqn:Hh; cbn [head_pred head_arity] in Ht.
  - destruct (Nat.ltb_spec 0 (List.length (aterms a))) as [Hpos|Hz].
    + eapply fo_head_ok; eauto. rewrite Hh. reflexivity.
    + eapply (prop_head_ok r a); eauto; [rewrite Hh; reflexivity|].
      destruct (aterms a); [reflexivity|cbn in Hz; lia].
  - destruct (Nat.ltb_spec 0 (List.length (aterms a))) as [Hpos|Hz].
    + eapply fo_head_ok; eauto. rewrite Hh. reflexivity.
    + eapply (prop_head_ok r a); eauto; [rewrite Hh; reflexivity|].
      destruct (aterms a); [reflexivity|cbn in Hz; lia].
  - injection Ht as <-. apply constraint_ok. exact Hh.
Qed.
End Rule.
