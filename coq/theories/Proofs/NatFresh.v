(* C08: the fresh variables N<i> / N<i>_<j> chosen for the intervals of a head atom:
   the search terminates (fuel suffices), the names are not variables of the atom, pairwise
   distinct, and there is exactly one per term that is not regular of the first kind. *)
From Coq Require Import List Ascii String ZArith NArith Bool Lia DecimalString.
From Anthem Require Import Base.ISet Base.Fresh Syntax.Fol Syntax.Asp Model.Natural.
Import ListNotations.
Open Scope string_scope.
Open Scope list_scope.

Lemma sapp_assoc (a b c : string) : ((a ++ b) ++ c = a ++ (b ++ c))%string.
Proof. induction a as [|x a IH]; cbn; [reflexivity|rewrite IH; reflexivity]. Qed.

Lemma sapp_nil_r (a : string) : (a ++ "")%string = a.
Proof. induction a as [|x a IH]; cbn; [reflexivity|rewrite IH; reflexivity]. Qed.

(* ---------- decimal strings consist of digits ---------- *)
Definition digitb (c : ascii) : bool :=
  existsb (Ascii.eqb c) ["0"; "1"; "2"; "3"; "4"; "5"; "6"; "7"; "8"; "9"]%char.
Fixpoint all_digits (s : string) : bool :=
  match s with EmptyString => true | String c s' => digitb c && all_digits s' end.
Lemma string_of_uint_digits d : all_digits (NilEmpty.string_of_uint d) = true.
Proof. induction d; cbn; auto. Qed.
Lemma nat_str_digits n : all_digits (nat_str n) = true.
Proof. apply string_of_uint_digits. Qed.

(* what may follow the decimal index in a fresh name: nothing, or "_<j>" *)
Definition tail_ok (s : string) : Prop := s = "" \/ exists s', s = String "_"%char s'.

Lemma digits_prefix_inj : forall a b s s',
  all_digits a = true -> all_digits b = true -> tail_ok s -> tail_ok s' ->
  (a ++ s = b ++ s')%string -> a = b.
Proof.
  induction a as [|c a IH]; intros [|c' b] s s' Da Db Ts Ts' E; cbn in *.
  - reflexivity.
  - apply andb_true_iff in Db. destruct Db as [Dc _].
    destruct Ts as [->|[s0 ->]]; [discriminate|]. inversion E; subst. discriminate.
  - apply andb_true_iff in Da. destruct Da as [Dc _].
    destruct Ts' as [->|[s0 ->]]; [discriminate|]. inversion E; subst. discriminate.
  - apply andb_true_iff in Da, Db. destruct Da as [_ Da], Db as [_ Db].
    inversion E; subst. f_equal. apply (IH b s s'); auto.
Qed.

(* f is a fresh-variable name for argument position j *)
Definition fresh_idx (f : string) (j : nat) : Prop :=
  exists s, f = ("N" ++ nat_str (N.of_nat j) ++ s)%string /\ tail_ok s.

Lemma fresh_idx_inj f j j' : fresh_idx f j -> fresh_idx f j' -> j = j'.
Proof.
  intros [s [E Ts]] [s' [E' Ts']]. rewrite E in E'. cbn in E'. inversion E' as [E2].
  apply digits_prefix_inj in E2; auto using nat_str_digits.
  apply nat_str_inj in E2. apply Nnat.Nat2N.inj in E2. exact E2.
Qed.

Lemma fresh_var_at_spec taken i v : fresh_var_at taken i = Some v -> ~ In v taken /\ fresh_idx v i.
Proof.
  unfold fresh_var_at.
  destruct (memb_spec string_dec ("N" ++ nat_str (N.of_nat i))%string taken) as [Hin|Hnin]; cbn [negb].
  - destruct (find_fresh_by _ _ _ _) as [[c k]|] eqn:E; cbn; [|discriminate].
    intros [= <-]. apply find_fresh_by_sound in E. destruct E as [Hb [Ec _]]. split.
    + destruct (memb_spec string_dec c taken); [discriminate|auto].
    + exists (String "_"%char (nat_str k)). split.
      * rewrite Ec. rewrite !sapp_assoc. reflexivity.
      * right. eexists; reflexivity.
  - intros [= <-]. split; auto. exists "". split; [|left; reflexivity].
    rewrite sapp_nil_r. reflexivity.
Qed.

Lemma fresh_var_at_total taken i : exists v, fresh_var_at taken i = Some v.
Proof.
  unfold fresh_var_at. destruct (negb _); [eauto|].
  destruct (find_fresh_by_total (("N" ++ nat_str (N.of_nat i)) ++ "_")%string
              (fun c => memb string_dec c taken) taken 0%N) as [c [k E]].
  - intros x. destruct (memb_spec string_dec x taken); [auto|discriminate].
  - rewrite E. cbn. eauto.
Qed.

Definition count_nonfirst (ts : list term) : nat :=
  List.length (filter (fun t => negb (is_term_regular_of_first_kind t)) ts).

Lemma fresh_variables_from_spec taken : forall ts i fr,
  fresh_variables_from taken i ts = Some fr ->
  NoDup fr /\ List.length fr = count_nonfirst ts /\
  forall f, In f fr -> ~ In f taken /\ exists j, i <= j /\ fresh_idx f j.
Proof.
  induction ts as [|t ts IH]; intros i fr; cbn [fresh_variables_from].
  - intros [= <-]. split; [constructor|]. split; [reflexivity|intros f []].
  - unfold count_nonfirst. cbn [filter].
    destruct (negb (is_term_regular_of_first_kind t)).
    + destruct (fresh_var_at taken i) as [v|] eqn:Ev; [|discriminate].
      destruct (fresh_variables_from taken (S i) ts) as [fr'|] eqn:Er; cbn; [|discriminate].
      intros [= <-]. destruct (IH _ _ Er) as [ND [L Hall]].
      apply fresh_var_at_spec in Ev. destruct Ev as [Hnt Hidx].
      split; [|split].
      * constructor; auto. intros Hin. destruct (Hall _ Hin) as [_ [j [Hj Hf]]].
        pose proof (fresh_idx_inj _ _ _ Hidx Hf). lia.
      * cbn. f_equal. exact L.
      * intros f [<-|Hin]; [split; auto; exists i; split; auto|].
        destruct (Hall _ Hin) as [A [j [Hj Hf]]]. split; auto. exists j; split; auto; lia.
    + intros E. destruct (IH _ _ E) as [ND [L Hall]]. split; auto. split; auto.
      intros f Hin. destruct (Hall _ Hin) as [A [j [Hj Hf]]]. split; auto. exists j; split; auto; lia.
Qed.

Lemma fresh_variables_from_total taken : forall ts i, exists fr, fresh_variables_from taken i ts = Some fr.
Proof.
  induction ts as [|t ts IH]; intros i; cbn [fresh_variables_from]; [eauto|].
  destruct (negb _).
  - destruct (fresh_var_at_total taken i) as [v ->]. destruct (IH (S i)) as [fr ->]. cbn. eauto.
  - apply IH.
Qed.

(* the `loop` of fresh_variables_for_head_atom always terminates *)
Theorem fresh_variables_for_head_atom_total a : exists fr, fresh_variables_for_head_atom a = Some fr.
Proof. apply fresh_variables_from_total. Qed.

Theorem fresh_variables_for_head_atom_spec a fr :
  fresh_variables_for_head_atom a = Some fr ->
  NoDup fr /\ List.length fr = count_nonfirst (aterms a) /\ forall f, In f fr -> ~ In f (atom_vars a).
Proof.
  intros E. apply fresh_variables_from_spec in E. destruct E as [ND [L Hall]].
  split; auto. split; auto. intros f Hf. apply (Hall f Hf).
Qed.
