(* C09 about the EMITTED TEXT: the bytes [problem_display p] (model of `impl Display for Problem`)
   are read by the specification reader [read_problem] (Model/TffText.v) as exactly [emit p]. *)
From Coq Require Import List Ascii String ZArith NArith Bool Lia Permutation.
From Anthem Require Import Base.ISet Base.Fresh Syntax.Fol Syntax.Tff Sem.Domain Sem.Sat Sem.TffSem Sem.TffWt
  Model.Problem Model.TptpPrint Model.ProblemPrint Model.TffText Gen.Preamble
  Proofs.TptpSem Proofs.TptpRead Proofs.ChainOk Proofs.PipelineOk Proofs.ProblemWt Proofs.LexOk Proofs.ProblemCtx.
Import ListNotations.
Open Scope string_scope.
Open Scope list_scope.

Ltac snorm := repeat rewrite sapp_assoc'; cbn [append].

(* ================= generic facts about the reader's layers ================= *)
Definition lexes (s : string) (pts : list ptoken) : Prop :=
  forall rest, lex_go LIdle (s ++ rest) = option_map (app pts) (lex_go LIdle rest).
Lemma lexes_nil : lexes "" [].
Proof. intros rest. cbn [append]. rewrite omap_nil. reflexivity. Qed.
Lemma lexes_app a x b y : lexes a x -> lexes b y -> lexes (a ++ b) (x ++ y).
Proof.
  intros Ha Hb rest. rewrite sapp_assoc', Ha, Hb, omap_omap. apply omap_ext. intros l. rewrite app_assoc. reflexivity.
Qed.
Lemma lexes_concat lines toks : Forall2 lexes lines toks -> lexes (String.concat "" lines) (List.concat toks).
Proof.
  induction 1 as [|s t ls ts H _ IH]; [exact lexes_nil|]. rewrite concat_cons. cbn [List.concat]. apply lexes_app; assumption.
Qed.
Lemma lexes_lex s pts : lexes s pts -> lex s = Some pts.
Proof. intros H. unfold lex. rewrite <- (sapp_nil_r s), H. cbn. rewrite app_nil_r. reflexivity. Qed.
Lemma lexes_run s pts : lex_run LIdle s = Some (pts, LIdle) -> lexes s pts.
Proof. intros H rest. rewrite lex_go_app, H. reflexivity. Qed.

(* a statement line: rendered tokens, '.', newline *)
Lemma closing_nl rest : closing (nl ++ rest).
Proof. cbn. split; reflexivity. Qed.
Lemma lex_nl rest : lex_go LIdle (nl ++ rest) = lex_go LIdle rest.
Proof.
  change (nl ++ rest)%string with (String (ascii_of_nat 10) rest). cbn [lex_go].
  change (step LIdle (ascii_of_nat 10)) with (Some (@nil ptoken, LIdle)). apply omap_nil.
Qed.
Lemma lexes_line st : chain_ok 0 (st ++ [PDot]) = true -> lexes (prender (st ++ [PDot]) ++ nl) (st ++ [PDot]).
Proof.
  intros H rest. rewrite sapp_assoc'. rewrite (lex_prender _ LIdle (nl ++ rest) H (closing_nl rest)).
  cbn [flush app]. rewrite lex_nl. reflexivity.
Qed.
Lemma chain_ok_app_closed a t b : pend t = 0 -> forall prev,
  chain_ok prev (a ++ t :: b) = chain_ok prev a && chain_ok 0 b.
Proof.
  intros Ht. induction a as [|x a IH]; intros prev; cbn [app chain_ok].
  - rewrite Ht. destruct t as [[]| | |]; cbn in Ht |- *; try discriminate; reflexivity.
  - rewrite IH, !andb_assoc. reflexivity.
Qed.

(* statements: tokens without '.' followed by '.' *)
Definition nodot (st : list ptoken) : Prop := ~ In PDot st.
Lemma statements_one st r : nodot st -> statements (st ++ PDot :: r) = option_map (cons st) (statements r).
Proof.
  induction st as [|t st IH]; intros Hn; cbn [app statements]; [reflexivity|].
  assert (Ht : t <> PDot) by (intros ->; apply Hn; left; reflexivity).
  rewrite IH by (intros H; apply Hn; right; exact H).
  destruct t; try congruence; destruct (statements r); reflexivity.
Qed.
Lemma statements_all sts : Forall nodot sts -> statements (List.concat (map (fun st => st ++ [PDot]) sts)) = Some sts.
Proof.
  induction 1 as [|st sts H _ IH]; [reflexivity|]. cbn [map List.concat]. rewrite <- app_assoc. cbn [app].
  rewrite statements_one by exact H. rewrite IH. reflexivity.
Qed.
Lemma nodot_PT ts : nodot (map PT ts).
Proof. intros H. apply in_map_iff in H. destruct H as [k [E _]]. discriminate. Qed.

Lemma unsnoc_snoc {A} (l : list A) x : unsnoc (l ++ [x]) = Some (l, x).
Proof.
  induction l as [|a l IH]; [reflexivity|]. cbn [app unsnoc]. rewrite IH.
  destruct (l ++ [x]) eqn:E; [destruct l; discriminate|reflexivity].
Qed.
Lemma formula_tokens_PT ts : formula_tokens (map PT ts) = Some ts.
Proof. induction ts as [|k ts IH]; [reflexivity|]. cbn. rewrite IH. reflexivity. Qed.

Lemma collect_app a b d1 f1 d2 f2 : collect a = Some (d1, f1) -> collect b = Some (d2, f2) ->
  collect (a ++ b) = Some (d1 ++ d2, f1 ++ f2).
Proof.
  revert d1 f1. induction a as [|st a IH]; intros d1 f1 Ha Hb.
  - cbn in Ha. injection Ha as <- <-. exact Hb.
  - cbn [app collect] in *. destruct (read_statement st) as [[d|f]|]; [| |discriminate].
    + destruct (collect a) as [[ds fs]|]; [|discriminate]. injection Ha as <- <-.
      rewrite (IH ds fs eq_refl Hb). reflexivity.
    + destruct (collect a) as [[ds fs]|]; [|discriminate]. injection Ha as <- <-.
      rewrite (IH ds fs eq_refl Hb). reflexivity.
Qed.
Lemma collect_decls sts ds : Forall2 (fun st d => read_statement st = Some (inl d)) sts ds -> collect sts = Some (ds, []).
Proof. induction 1 as [|st d sts ds H _ IH]; [reflexivity|]. cbn [collect]. rewrite H, IH. reflexivity. Qed.
Lemma collect_formulas sts fs : Forall2 (fun st f => read_statement st = Some (inr f)) sts fs -> collect sts = Some ([], fs).
Proof. induction 1 as [|st f sts fs H _ IH]; [reflexivity|]. cbn [collect]. rewrite H, IH. reflexivity. Qed.

Lemma Forall2_mapi {A B C} (R : B -> C -> Prop) (f : N -> A -> B) (g : N -> A -> C) l :
  (forall i x, In x l -> R (f i x) (g i x)) -> forall i, Forall2 R (mapi_from f i l) (mapi_from g i l).
Proof.
  induction l as [|x l IH]; intros H i; cbn; constructor.
  - apply H. left; reflexivity.
  - apply IH. intros j y Hy. apply H. right; exact Hy.
Qed.
Lemma Forall_mapi {A B} (P : B -> Prop) (f : N -> A -> B) l :
  (forall i x, In x l -> P (f i x)) -> forall i, Forall P (mapi_from f i l).
Proof.
  induction l as [|x l IH]; intros H i; cbn; constructor.
  - apply H. left; reflexivity.
  - apply IH. intros j y Hy. apply H. right; exact Hy.
Qed.
Lemma map_mapi {A B C} (h : B -> C) (f : N -> A -> B) l : forall i, map h (mapi_from f i l) = mapi_from (fun i x => h (f i x)) i l.
Proof. induction l as [|x l IH]; intros i; cbn; [reflexivity|]. rewrite IH. reflexivity. Qed.
Lemma mapi_ext_in {A B} (f g : N -> A -> B) l : (forall i x, In x l -> f i x = g i x) -> forall i, mapi_from f i l = mapi_from g i l.
Proof.
  induction l as [|x l IH]; intros H i; cbn; [reflexivity|]. rewrite H by (left; reflexivity). rewrite IH; [reflexivity|].
  intros j y Hy. apply H. right; exact Hy.
Qed.

(* ================= the statements of an emitted problem as tokens ================= *)
Definition W (s : string) : ptoken := PT (KWord s).
Definition decl_st (name ident : string) (sg : list ptoken) : list ptoken :=
  [W "tff"; PT KLPar; W name; PT KComma; W "type"; PT KComma; W ident; PT KColon] ++ sg ++ [PT KRPar].
Definition formula_st (name role : string) (toks : list token) : list ptoken :=
  [W "tff"; PT KLPar; W name; PT KComma; W role; PT KComma] ++ map PT toks ++ [PT KRPar].

Fixpoint prod_ptoks (n : nat) : list ptoken :=
  match n with
  | O => []
  | S O => [W "general"]
  | S m => W "general" :: PStar :: prod_ptoks m
  end.
Definition pred_sig_ptoks (n : nat) : list ptoken :=
  match n with O => [W "$o"] | _ => PT KLPar :: prod_ptoks n ++ [PT KRPar; PGt; W "$o"] end.

Definition predicate_st (i : N) (q : pred) : list ptoken :=
  decl_st ("predicate_" ++ nat_str i) (psym q) (pred_sig_ptoks (parity q)).
Definition symbol_st (i : N) (s : string) : list ptoken :=
  decl_st ("type_symbol_" ++ nat_str i) s [W "symbol"].
Definition fconst_st (i : N) (c : fconst) : list ptoken :=
  decl_st ("type_function_constant_" ++ nat_str i) (fcname c ++ suffix (fcsort c)) [W (sort_type_name (fcsort c))].
Definition order_st (i : N) (ab : string * string) : list ptoken :=
  formula_st ("symbol_order_" ++ nat_str i) "axiom" (print_formula (symbol_order_formula ab)).
Definition own_st (a : pformula) : list ptoken :=
  formula_st (pf_name a) (role_name (pf_role a)) (print_formula (pf_formula a)).

(* ---------- the lines are the rendered statements ---------- *)
Lemma prender_prod n : prender (prod_ptoks n) = general_product n.
Proof.
  induction n as [|[|m] IH]; [reflexivity|reflexivity|].
  change (prod_ptoks (S (S m))) with (W "general" :: PStar :: prod_ptoks (S m)).
  rewrite !prender_cons, IH. reflexivity.
Qed.
Lemma predicate_line_eq i q : predicate_line i q = (prender (predicate_st i q ++ [PDot]) ++ nl)%string.
Proof.
  unfold predicate_line, predicate_st, decl_st, pred_sig_ptoks. destruct (parity q) as [|m] eqn:E.
  - cbn [Nat.eqb app]. repeat rewrite prender_cons. cbn [ptoken_str W token_str prender map String.concat]. snorm. reflexivity.
  - cbn [Nat.eqb]. repeat (progress (rewrite <- ?app_assoc; cbn [app])). repeat rewrite prender_cons. rewrite prender_app, prender_prod.
    repeat rewrite prender_cons. cbn [ptoken_str W token_str prender map String.concat]. snorm. reflexivity.
Qed.
Lemma symbol_line_eq i s : symbol_line i s = (prender (symbol_st i s ++ [PDot]) ++ nl)%string.
Proof.
  unfold symbol_line, symbol_st, decl_st. cbn [app]. repeat rewrite prender_cons.
  cbn [ptoken_str W token_str prender map String.concat]. snorm. reflexivity.
Qed.
Lemma fconst_line_eq i c : fconst_line i c = (prender (fconst_st i c ++ [PDot]) ++ nl)%string.
Proof.
  unfold fconst_line, fconst_st, decl_st. cbn [app]. repeat rewrite prender_cons.
  cbn [ptoken_str W token_str prender map String.concat]. snorm. reflexivity.
Qed.
Lemma formula_st_render name role toks :
  (prender (formula_st name role toks ++ [PDot]) ++ nl)%string =
  ("tff(" ++ name ++ ", " ++ role ++ ", " ++ render toks ++ ")." ++ nl)%string.
Proof.
  unfold formula_st. repeat (progress (rewrite <- ?app_assoc; cbn [app])). repeat rewrite prender_cons. rewrite prender_app, prender_PT.
  repeat rewrite prender_cons. cbn [ptoken_str W token_str prender map String.concat]. snorm. reflexivity.
Qed.
Lemma own_line_eq a : formula_line a = Some (prender (own_st a ++ [PDot]) ++ nl)%string.
Proof. unfold formula_line, own_st, tptp_format, tptp_print. cbn [option_map]. rewrite formula_st_render. reflexivity. Qed.
Lemma order_line_eq i ab : symbol_order_line i ab = (prender (order_st i ab ++ [PDot]) ++ nl)%string.
Proof.
  unfold symbol_order_line, order_st. rewrite formula_st_render.
  destruct ab as [a b]. cbn [fst snd symbol_order_formula print_formula print_aformula print_chain print_cmp1
    is_eq_rel print_gterm print_sterm rel_gen grel gterm_of app].
  unfold render. cbn [map token_str]. repeat rewrite concat_cons. cbn [String.concat]. snorm. reflexivity.
Qed.

(* ================= reading the statements ================= *)
Lemma read_prod_args m : read_sig_args (prod_ptoks (S m) ++ [PT KRPar; PGt; W "$o"]) = Some (SigPred (repeat TyGeneral (S m))).
Proof.
  induction m as [|m IH]; [reflexivity|].
  change (prod_ptoks (S (S m))) with (W "general" :: PStar :: prod_ptoks (S m)).
  cbn [app W]. cbn [read_sig_args]. fold (W "$o"). rewrite IH. reflexivity.
Qed.
Lemma read_pred_sig n : read_sig (pred_sig_ptoks n) = Some (SigPred (repeat TyGeneral n)).
Proof. destruct n as [|m]; [reflexivity|]. unfold pred_sig_ptoks. cbn [read_sig]. apply read_prod_args. Qed.

Lemma read_decl_st name ident sg s : read_sig sg = Some s ->
  read_statement (decl_st name ident sg) = Some (inl (mkdecl name ident s)).
Proof.
  intros H. unfold decl_st, W. cbn [app read_statement].
  change (String.eqb "tff" "tff") with true. cbn iota.
  change (PT (KWord ident) :: PT KColon :: sg ++ [PT KRPar]) with ((PT (KWord ident) :: PT KColon :: sg) ++ [PT KRPar]).
  rewrite unsnoc_snoc. change (String.eqb "type" "type") with true. cbn iota. rewrite H. reflexivity.
Qed.
Lemma read_formula_st name r toks f : tff_read toks = Some f ->
  read_statement (formula_st name (role_name r) toks) = Some (inr (mknamed name (tff_role_of r) f)).
Proof.
  intros H. unfold formula_st, W. cbn [app read_statement].
  change (String.eqb "tff" "tff") with true. cbn iota.
  rewrite unsnoc_snoc. destruct r; cbn [role_name tff_role_of];
    [change (String.eqb "axiom" "type") with false; change (String.eqb "axiom" "axiom") with true
    |change (String.eqb "conjecture" "type") with false; change (String.eqb "conjecture" "axiom") with false;
     change (String.eqb "conjecture" "conjecture") with true];
    cbn iota; rewrite formula_tokens_PT, H; reflexivity.
Qed.

(* ---------- separation of the statement tokens ---------- *)
Lemma chain_decl name ident sg : word_ok name = true -> word_ok ident = true ->
  chain_ok 0 (sg ++ [PT KRPar; PDot]) = true -> chain_ok 0 (decl_st name ident sg ++ [PDot]) = true.
Proof.
  intros H1 H2 H3. unfold decl_st. rewrite <- !app_assoc. cbn [app].
  unfold W. cbn [chain_ok ptok_ok pend Nat.eqb orb negb]. rewrite H1, H2.
  change (word_ok "tff") with true. change (word_ok "type") with true. cbn [andb]. exact H3.
Qed.
Lemma chain_formula name role toks : word_ok name = true -> word_ok role = true -> sep toks = true ->
  chain_ok 0 (formula_st name role toks ++ [PDot]) = true.
Proof.
  intros H1 H2 H3. unfold formula_st. rewrite <- !app_assoc. cbn [app].
  unfold W. cbn [chain_ok ptok_ok pend Nat.eqb orb negb]. rewrite H1, H2.
  change (word_ok "tff") with true. cbn [andb].
  rewrite (chain_ok_app_closed (map PT toks) (PT KRPar) [PDot] eq_refl). rewrite (chain_of_sepb toks 0 H3). reflexivity.
Qed.
Lemma chain_prod m : chain_ok 0 (prod_ptoks (S m) ++ [PT KRPar; PGt; W "$o"; PT KRPar; PDot]) = true.
Proof.
  induction m as [|m IH]; [reflexivity|].
  change (prod_ptoks (S (S m))) with (W "general" :: PStar :: prod_ptoks (S m)). cbn [app].
  unfold W at 1. cbn [chain_ok ptok_ok pend Nat.eqb orb negb]. change (word_ok "general") with true. cbn [andb]. exact IH.
Qed.
Lemma chain_pred_sig n : chain_ok 0 (pred_sig_ptoks n ++ [PT KRPar; PDot]) = true.
Proof.
  destruct n as [|m]; [reflexivity|]. unfold pred_sig_ptoks. cbn [app]. rewrite <- app_assoc. cbn [app].
  cbn [chain_ok ptok_ok pend Nat.eqb orb negb andb]. apply chain_prod.
Qed.

Lemma word_ok_numbered pre i : word_ok pre = true -> word_ok (pre ++ nat_str i) = true.
Proof. intros H. apply word_ok_app; [exact H|]. apply (all_chars_impl is_digit); [apply digit_word|apply nat_str_digits]. Qed.

(* ---------- the preamble: read once, by computation ---------- *)
Definition pre_ptoks : list ptoken := match lex_run LIdle preamble_text with Some (o, _) => o | None => [] end.
Lemma pre_run : lex_run LIdle preamble_text = Some (pre_ptoks, LIdle).
Proof. vm_compute. reflexivity. Qed.
Definition pre_sts : list (list ptoken) := match statements pre_ptoks with Some s => s | None => [] end.
Lemma pre_ptoks_sts : pre_ptoks = List.concat (map (fun st => st ++ [PDot]) pre_sts).
Proof. vm_compute. reflexivity. Qed.
Definition is_dot (t : ptoken) : bool := match t with PDot => true | _ => false end.
Lemma nodotb_nodot st : forallb (fun t => negb (is_dot t)) st = true -> nodot st.
Proof. intros H Hin. rewrite forallb_forall in H. apply H in Hin. discriminate Hin. Qed.
Lemma pre_nodot : Forall nodot pre_sts.
Proof.
  assert (H : forallb (fun st => forallb (fun t => negb (is_dot t)) st) pre_sts = true) by (vm_compute; reflexivity).
  rewrite forallb_forall in H. apply Forall_forall. intros st Hst. apply nodotb_nodot, H, Hst.
Qed.
Definition pre_decls_tff : list tff_decl := map (fun d => mkdecl (fst (fst d)) (snd (fst d)) (snd d)) preamble_decls.
Definition pre_named_tff : list tff_named := map (fun a => mknamed (fst a) RoleAxiom (snd a)) preamble_formulas.
Lemma pre_collect : collect pre_sts = Some (pre_decls_tff, pre_named_tff).
Proof. vm_compute. reflexivity. Qed.

Lemma nodot_decl name ident sg : nodot sg -> nodot (decl_st name ident sg).
Proof.
  intros H Hin. unfold decl_st in Hin. rewrite !in_app_iff in Hin. destruct Hin as [Hin|[Hin|Hin]].
  - cbn in Hin. unfold W in Hin. intuition discriminate.
  - exact (H Hin).
  - cbn in Hin. intuition discriminate.
Qed.
Lemma nodot_formula name role toks : nodot (formula_st name role toks).
Proof.
  intros Hin. unfold formula_st in Hin. rewrite !in_app_iff in Hin. destruct Hin as [Hin|[Hin|Hin]].
  - cbn in Hin. unfold W in Hin. intuition discriminate.
  - exact (nodot_PT toks Hin).
  - cbn in Hin. intuition discriminate.
Qed.
Lemma nodot_pred_sig n : nodot (pred_sig_ptoks n).
Proof.
  assert (P : forall m, nodot (prod_ptoks m)).
  { intros m. induction m as [|[|m] IH]; intros Hin; cbn in Hin; unfold W in Hin; [tauto|intuition discriminate|].
    destruct Hin as [Hin|[Hin|Hin]]; try discriminate. exact (IH Hin). }
  destruct n as [|m]; intros Hin.
  - cbn in Hin. unfold W in Hin. intuition discriminate.
  - unfold pred_sig_ptoks in Hin. destruct Hin as [Hin|Hin]; [discriminate|].
    apply in_app_iff in Hin. destruct Hin as [Hin|Hin]; [exact (P _ Hin)|].
    cbn in Hin. unfold W in Hin. intuition discriminate.
Qed.

Lemma concat_opt_some {A} (f : A -> option string) (g : A -> string) l : (forall a, In a l -> f a = Some (g a)) ->
  concat_opt (map f l) = Some (String.concat "" (map g l)).
Proof.
  induction l as [|a l IH]; intros H; [reflexivity|]. cbn [map concat_opt].
  rewrite (H a (or_introl eq_refl)), IH by (intros b Hb; apply H; right; exact Hb).
  rewrite concat_cons. reflexivity.
Qed.

(* ================= the theorem ================= *)
Section Display.
Variable p : problem.
Hypothesis Hok : ident_ok p = true.
Hypothesis Hlex : forall a, In a (pb_formulas p) -> wf_lex (pf_formula a) = true.

Let preds := problem_predicates p.
Let syms := problem_symbols p.
Let fcs := problem_function_constants p.
Let pairs := windows2 (sort_strings syms).

Definition all_sts : list (list ptoken) :=
  pre_sts ++ mapi_from predicate_st 0 preds ++ mapi_from symbol_st 0 syms ++ mapi_from fconst_st 0 fcs
  ++ mapi_from order_st 0 pairs ++ map own_st (pb_formulas p).

Lemma ident_word x : In x (problem_idents p) -> word_ok x = true.
Proof. intros H. apply lower_word_ok, (own_lower p Hok), H. Qed.
Lemma sym_lower s : In s syms -> is_lower_word s = true.
Proof. intros H. apply (own_lower p Hok). unfold problem_idents. rewrite !in_app_iff. auto. Qed.
Lemma pair_syms ab : In ab pairs -> In (fst ab) syms /\ In (snd ab) syms.
Proof.
  intros Hin. apply windows2_in in Hin. destruct Hin as [Ha Hb].
  split; (eapply Permutation_in; [apply sort_strings_perm|]); assumption.
Qed.
Lemma order_wf_lex ab : In ab pairs -> wf_lex (symbol_order_formula ab) = true.
Proof.
  intros Hin. destruct (pair_syms ab Hin) as [Ha Hb]. unfold symbol_order_formula. cbn.
  rewrite (sym_lower _ Ha), (sym_lower _ Hb). reflexivity.
Qed.

(* every statement line lexes to its tokens *)
Lemma pred_lexes i q : In q preds -> lexes (predicate_line i q) (predicate_st i q ++ [PDot]).
Proof.
  intros Hin. rewrite predicate_line_eq. apply lexes_line. apply chain_decl.
  - apply word_ok_numbered. reflexivity.
  - apply ident_word. unfold problem_idents. apply in_app_iff. left. apply in_map, Hin.
  - apply chain_pred_sig.
Qed.
Lemma sym_lexes i s : In s syms -> lexes (symbol_line i s) (symbol_st i s ++ [PDot]).
Proof.
  intros Hin. rewrite symbol_line_eq. apply lexes_line. apply chain_decl.
  - apply word_ok_numbered. reflexivity.
  - apply lower_word_ok, sym_lower, Hin.
  - reflexivity.
Qed.
Lemma fconst_lexes i c : In c fcs -> lexes (fconst_line i c) (fconst_st i c ++ [PDot]).
Proof.
  intros Hin. rewrite fconst_line_eq. apply lexes_line. apply chain_decl.
  - apply word_ok_numbered. reflexivity.
  - apply ident_word. unfold problem_idents. rewrite !in_app_iff. right; right. apply in_map_iff. exists c; auto.
  - destruct (fcsort c); reflexivity.
Qed.
Lemma order_lexes i ab : In ab pairs -> lexes (symbol_order_line i ab) (order_st i ab ++ [PDot]).
Proof.
  intros Hin. rewrite order_line_eq. apply lexes_line. apply chain_formula.
  - apply word_ok_numbered. reflexivity.
  - reflexivity.
  - apply sep_print_formula, order_wf_lex, Hin.
Qed.
Lemma own_lexes a : In a (pb_formulas p) ->
  lexes (prender (own_st a ++ [PDot]) ++ nl) (own_st a ++ [PDot]).
Proof.
  intros Hin. apply lexes_line. apply chain_formula.
  - apply lower_word_ok. apply (ident_ok_inv p Hok), Hin.
  - destruct (pf_role a); reflexivity.
  - apply sep_print_formula, Hlex, Hin.
Qed.

Lemma concat_mapi_lexes {A} (line : N -> A -> string) (st : N -> A -> list ptoken) l :
  (forall i x, In x l -> lexes (line i x) (st i x ++ [PDot])) -> forall i,
  lexes (String.concat "" (mapi_from line i l)) (List.concat (map (fun s => s ++ [PDot]) (mapi_from st i l))).
Proof.
  intros H i. rewrite map_mapi. apply lexes_concat. apply Forall2_mapi. exact H.
Qed.

Theorem display_text : exists txt, problem_display p = Some txt /\
  lexes txt (List.concat (map (fun s => s ++ [PDot]) all_sts)).
Proof.
  unfold problem_display.
  rewrite (concat_opt_some formula_line (fun a => (prender (own_st a ++ [PDot]) ++ nl)%string))
    by (intros a _; apply own_line_eq).
  eexists. split; [reflexivity|].
  unfold all_sts. rewrite !map_app, !List.concat_app.
  apply lexes_app; [rewrite <- pre_ptoks_sts; apply lexes_run, pre_run|].
  apply lexes_app; [apply concat_mapi_lexes; intros; apply pred_lexes; assumption|].
  apply lexes_app; [apply concat_mapi_lexes; intros; apply sym_lexes; assumption|].
  apply lexes_app; [apply concat_mapi_lexes; intros; apply fconst_lexes; assumption|].
  apply lexes_app; [apply concat_mapi_lexes; intros; apply order_lexes; assumption|].
  rewrite map_map. apply lexes_concat.
  assert (G : forall l, (forall a, In a l -> In a (pb_formulas p)) ->
    Forall2 lexes (map (fun a => (prender (own_st a ++ [PDot]) ++ nl)%string) l) (map (fun a => own_st a ++ [PDot]) l)).
  { induction l as [|a l IH]; intros Hl; cbn [map]; constructor.
    - apply own_lexes, Hl. left; reflexivity.
    - apply IH. intros b Hb. apply Hl. right; exact Hb. }
  apply G. auto.
Qed.
End Display.

Lemma Forall2_map_same {A B C} (R : B -> C -> Prop) (f : A -> B) (g : A -> C) l :
  (forall x, In x l -> R (f x) (g x)) -> Forall2 R (map f l) (map g l).
Proof.
  induction l as [|x l IH]; intros H; cbn; constructor.
  - apply H. left; reflexivity.
  - apply IH. intros y Hy. apply H. right; exact Hy.
Qed.

Section Read.
Variable p : problem.
Hypothesis Hok : ident_ok p = true.
Hypothesis Hlex : forall a, In a (pb_formulas p) -> wf_lex (pf_formula a) = true.

Lemma all_nodot : Forall nodot (all_sts p).
Proof.
  unfold all_sts. repeat (apply Forall_app; split).
  - exact pre_nodot.
  - apply Forall_mapi. intros i q _. apply nodot_decl, nodot_pred_sig.
  - apply Forall_mapi. intros i s _. apply nodot_decl. intros H. cbn in H. unfold W in H. intuition discriminate.
  - apply Forall_mapi. intros i c _. apply nodot_decl. intros H. cbn in H. unfold W in H. intuition discriminate.
  - apply Forall_mapi. intros i ab _. apply nodot_formula.
  - apply Forall_forall. intros st Hst. apply in_map_iff in Hst. destruct Hst as [a [<- _]]. apply nodot_formula.
Qed.

Lemma all_collect : collect (all_sts p) = Some (tp_decls (emit p), tp_formulas (emit p)).
Proof.
  unfold all_sts.
  assert (CP : collect (mapi_from predicate_st 0 (problem_predicates p))
               = Some (mapi_from predicate_decl 0 (problem_predicates p), [])).
  { apply collect_decls, Forall2_mapi. intros i q _. unfold predicate_st, predicate_decl.
    apply read_decl_st, read_pred_sig. }
  assert (CS : collect (mapi_from symbol_st 0 (problem_symbols p))
               = Some (mapi_from symbol_decl 0 (problem_symbols p), [])).
  { apply collect_decls, Forall2_mapi. intros i s _. unfold symbol_st, symbol_decl. apply read_decl_st. reflexivity. }
  assert (CF : collect (mapi_from fconst_st 0 (problem_function_constants p))
               = Some (mapi_from fconst_decl 0 (problem_function_constants p), [])).
  { apply collect_decls, Forall2_mapi. intros i c _. unfold fconst_st, fconst_decl. apply read_decl_st.
    destruct (fcsort c); reflexivity. }
  assert (CO : collect (mapi_from order_st 0 (windows2 (sort_strings (problem_symbols p))))
               = Some ([], mapi_from symbol_order_named 0 (windows2 (sort_strings (problem_symbols p))))).
  { apply collect_formulas, Forall2_mapi. intros i ab Hin. unfold order_st, symbol_order_named.
    apply (read_formula_st _ PAxiom). apply tff_read_print_lex. apply (order_wf_lex p Hok), Hin. }
  assert (CW : collect (map own_st (pb_formulas p))
               = Some ([], map (fun a => mknamed (pf_name a) (tff_role_of (pf_role a)) (tff_of_formula (pf_formula a))) (pb_formulas p))).
  { apply collect_formulas, Forall2_map_same. intros a Hin. unfold own_st.
    apply read_formula_st. apply tff_read_print_lex, Hlex, Hin. }
  rewrite (collect_app _ _ _ _ _ _ pre_collect
            (collect_app _ _ _ _ _ _ CP (collect_app _ _ _ _ _ _ CS (collect_app _ _ _ _ _ _ CF
              (collect_app _ _ _ _ _ _ CO CW))))).
  unfold emit, pre_decls_tff, pre_named_tff. cbn [tp_decls tp_formulas app]. rewrite !app_nil_r. reflexivity.
Qed.

Theorem display_reads_as_emit_lex txt : problem_display p = Some txt -> read_problem txt = Some (emit p).
Proof.
  intros H. destruct (display_text p Hok Hlex) as [txt' [E L]]. rewrite E in H. injection H as <-.
  unfold read_problem. rewrite (lexes_lex _ _ L), (statements_all _ all_nodot), all_collect.
  destruct (emit p); reflexivity.
Qed.
End Read.

(* closed formulas of the parser image *)
Theorem display_reads_as_emit p txt : ident_ok p = true ->
  (forall a, In a (pb_formulas p) -> closed_formula (pf_formula a) = true) ->
  (forall a, In a (pb_formulas p) -> cmps_nonempty (pf_formula a) = true) ->
  problem_display p = Some txt -> read_problem txt = Some (emit p).
Proof.
  intros Hok Hc Hn. apply display_reads_as_emit_lex; [exact Hok|].
  intros a Ha. apply (ctx_wf_lex p Hok a Ha); auto.
Qed.
Lemma problem_display_total p : exists txt, problem_display p = Some txt.
Proof.
  unfold problem_display.
  rewrite (concat_opt_some formula_line (fun a => (prender (own_st a ++ [PDot]) ++ nl)%string))
    by (intros a _; apply own_line_eq).
  eexists. reflexivity.
Qed.

(* ---------- for the problems of the pipeline ---------- *)
Theorem pipeline_display_reads_as_emit raw d pb txt :
  (forall a, In a (pb_formulas raw) -> closed_formula (pf_formula a) = true) ->
  (forall a, In a (pb_formulas raw) -> cmps_nonempty (pf_formula a) = true) ->
  In pb (pipeline raw d) -> ~ (ident_ok pb = false) ->
  problem_display pb = Some txt -> read_problem txt = Some (emit pb).
Proof.
  intros Hc Hn Hin Hid. apply display_reads_as_emit.
  - destruct (ident_ok pb); [reflexivity|congruence].
  - apply (pipeline_closed raw d pb Hc Hin).
  - apply (pipeline_cmps raw d pb Hn Hin).
Qed.
Theorem pipeline_text_wt raw d pb :
  (forall a, In a (pb_formulas raw) -> closed_formula (pf_formula a) = true) ->
  (forall a, In a (pb_formulas raw) -> cmps_nonempty (pf_formula a) = true) ->
  In pb (pipeline raw d) -> ~ (ident_ok pb = false) ->
  exists txt tp, problem_display pb = Some txt /\ read_problem txt = Some tp /\ wt_problem tp = true.
Proof.
  intros Hc Hn Hin Hid. destruct (problem_display_total pb) as [txt E].
  exists txt, (emit pb). split; [exact E|]. split.
  - apply (pipeline_display_reads_as_emit raw d pb txt); assumption.
  - apply (pipeline_wt raw d pb); assumption.
Qed.

(* ---------- statement forms used by Properties/C09.v and C06.v ---------- *)
Lemma not_class_ok pb : ~ (ident_ok pb = false) -> ident_ok pb = true.
Proof. destruct (ident_ok pb); [reflexivity|congruence]. Qed.
Theorem display_reads_as_emit_open pb txt : ~ (ident_ok pb = false) ->
  (forall a, In a (pb_formulas pb) -> wf_lex (pf_formula a) = true) ->
  problem_display pb = Some txt -> read_problem txt = Some (emit pb).
Proof. intros Hid Hlex. apply display_reads_as_emit_lex; [apply not_class_ok, Hid|exact Hlex]. Qed.
Theorem premises_give_wf_lex pb a : ~ (ident_ok pb = false) -> In a (pb_formulas pb) ->
  closed_formula (pf_formula a) = true -> cmps_nonempty (pf_formula a) = true -> wf_lex (pf_formula a) = true.
Proof. intros Hid. apply ctx_wf_lex, not_class_ok, Hid. Qed.

Theorem wf_tptp_split F : wf_tptp F = true -> wf_lex F = true /\ names_in [] F = true.
Proof. intros H. split; [apply wf_tptp_lex, H|apply TptpSem.wf_tptp_names, H]. Qed.
Theorem c06_in_problem pb a : ident_ok pb = true -> In a (pb_formulas pb) -> wf_lex (pf_formula a) = true ->
  exists g : tff_formula, tff_read (print_formula (pf_formula a)) = Some g /\
    forall (FI : Sat.fint) (M : Sat.pint) (e : Sat.env),
      tff_sat (tstruct_in (csig_of_decls (tp_decls (emit pb))) FI M) (tenv_of e) g <-> Sat.csat FI M e (pf_formula a).
Proof.
  intros Hok Hin Hlex. exists (tff_of_formula (pf_formula a)). split.
  - apply tff_read_print_lex, Hlex.
  - intros FI M e. apply in_problem_meaning; [exact Hok|exact Hin|apply TptpSem.env_rel_of].
Qed.
Theorem c06_in_pipeline raw d pb a :
  (forall b, In b (pb_formulas raw) -> closed_formula (pf_formula b) = true) ->
  (forall b, In b (pb_formulas raw) -> cmps_nonempty (pf_formula b) = true) ->
  In pb (pipeline raw d) -> ident_ok pb = true -> In a (pb_formulas pb) ->
  exists g : tff_formula, tff_read (print_formula (pf_formula a)) = Some g /\
    forall (FI : Sat.fint) (M : Sat.pint) (e : Sat.env),
      tff_sat (tstruct_in (csig_of_decls (tp_decls (emit pb))) FI M) (tenv_of e) g <-> Sat.csat FI M e (pf_formula a).
Proof.
  intros Hc Hn Hin Hok Ha. apply c06_in_problem; [exact Hok|exact Ha|].
  apply (ctx_wf_lex pb Hok a Ha).
  - apply (pipeline_closed raw d pb Hc Hin), Ha.
  - apply (pipeline_cmps raw d pb Hn Hin), Ha.
Qed.
Theorem c06_text pb txt tp : ident_ok pb = true ->
  (forall a, In a (pb_formulas pb) -> wf_lex (pf_formula a) = true) ->
  problem_display pb = Some txt -> read_problem txt = Some tp ->
  forall a, In a (pb_formulas pb) ->
  exists nf : tff_named, In nf (tp_formulas tp) /\ n_name nf = pf_name a /\ n_role nf = tff_role_of (pf_role a) /\
    forall (FI : Sat.fint) (M : Sat.pint) (e : Sat.env),
      tff_sat (tstruct_in (csig_of_decls (tp_decls tp)) FI M) (tenv_of e) (n_formula nf) <-> Sat.csat FI M e (pf_formula a).
Proof.
  intros Hok Hlex Hd Hr a Ha.
  rewrite (display_reads_as_emit_lex pb Hok Hlex txt Hd) in Hr. injection Hr as <-.
  exists (mknamed (pf_name a) (tff_role_of (pf_role a)) (tff_of_formula (pf_formula a))).
  split; [|split; [reflexivity|split; [reflexivity|]]].
  - unfold emit. cbn [tp_formulas]. rewrite !in_app_iff. right; right. apply in_map_iff. exists a; auto.
  - intros FI M e. cbn [n_formula]. apply in_problem_meaning; [exact Hok|exact Ha|apply TptpSem.env_rel_of].
Qed.

(* ---------- C12 at the level of the text: the preamble ---------- *)
Theorem preamble_reads : read_problem preamble_text = Some (mktp pre_decls_tff pre_named_tff).
Proof. vm_compute. reflexivity. Qed.
Theorem preamble_text_bytes : preamble_text = preamble_bytes.
Proof. vm_compute. reflexivity. Qed.
Theorem display_starts_with_preamble p txt : problem_display p = Some txt -> exists rest, txt = (preamble_text ++ rest)%string.
Proof.
  unfold problem_display. destruct (concat_opt (map formula_line (pb_formulas p))) as [fs|]; [|discriminate].
  intros [= <-]. eexists. reflexivity.
Qed.
(* what is read from an emitted text starts with what is read from the preamble alone *)
Theorem text_contains_preamble p txt tp : ident_ok p = true ->
  (forall a, In a (pb_formulas p) -> wf_lex (pf_formula a) = true) ->
  problem_display p = Some txt -> read_problem txt = Some tp ->
  exists ds fs, tp_decls tp = pre_decls_tff ++ ds /\ tp_formulas tp = pre_named_tff ++ fs.
Proof.
  intros Hok Hlex Hd Hr. rewrite (display_reads_as_emit_lex p Hok Hlex txt Hd) in Hr. injection Hr as <-.
  unfold emit. cbn [tp_decls tp_formulas]. eexists. eexists. split; reflexivity.
Qed.
