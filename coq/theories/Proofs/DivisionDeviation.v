(* How anthem's reading of `/` and `\` (Sem/AspRef.v, = the formula tau_star.rs builds) deviates from
   Abstract Gringo (floor, every non-zero divisor) and from clingo (truncation); finding F24.
   Definitions: Sem/AspRefGringo.v, Model/EvalAspGringo.v.  Statements: end of Properties/C01.v. *)
From Coq Require Import List Ascii String ZArith Bool Lia.
From Anthem Require Import Base.ISet Syntax.Fol Syntax.Asp Sem.Domain Sem.Sat Sem.AspRef Sem.AspRefGringo
  Model.Eval Model.EvalAsp Model.EvalAspGringo Proofs.EvalAspOk Model.TauStar Proofs.TauStarProgram.
Import ListNotations.
Open Scope string_scope.
Open Scope list_scope.

(* ------------------------------------------------------------------------------------------ *)
(* A. the three readings on numbers                                                            *)
(* ------------------------------------------------------------------------------------------ *)
Section Numbers.
Open Scope Z_scope.

(* anthem's reading is floor division restricted to positive divisors *)
Lemma qr_anthem_iff n1 n2 q m : qr_anthem n1 n2 q m <-> (0 < n2 /\ q = n1 / n2 /\ m = n1 mod n2).
Proof.
  unfold qr_anthem. split.
  - intros [E Hm]. split; [lia|]. split.
    + apply (Z.div_unique_pos n1 n2 q m); lia.
    + apply (Z.mod_unique_pos n1 n2 q m); lia.
  - intros (Hp & -> & ->). pose proof (Z.div_mod n1 n2 ltac:(lia)). pose proof (Z.mod_pos_bound n1 n2 Hp). lia.
Qed.

(* Coq's Z.div is the floor of the rational quotient for either sign of the divisor ... *)
Lemma ag_quotient_is_floor n1 n2 q : n2 <> 0 ->
  (q = n1 / n2 <-> ((0 < n2 /\ q * n2 <= n1 < (q + 1) * n2) \/ (n2 < 0 /\ (q + 1) * n2 < n1 <= q * n2))).
Proof.
  intros Hn. pose proof (Z.div_mod n1 n2 Hn) as E. split.
  - intros ->. destruct (Z_lt_ge_dec 0 n2) as [Hp|Hp].
    + left. pose proof (Z.mod_pos_bound n1 n2 Hp). nia.
    + right. assert (Hneg : n2 < 0) by lia. pose proof (Z.mod_neg_bound n1 n2 Hneg). nia.
  - intros [[Hp Hb]|[Hneg Hb]].
    + apply (Z.div_unique_pos n1 n2 q (n1 - n2 * q)); nia.
    + apply (Z.div_unique_neg n1 n2 q (n1 - n2 * q)); nia.
Qed.
(* ... and Z.modulo the matching remainder *)
Lemma ag_remainder n1 n2 : n2 <> 0 -> n1 mod n2 = n1 - n2 * (n1 / n2).
Proof. apply Z.mod_eq. Qed.

(* Coq's Z.quot truncates towards zero, Z.rem is the matching remainder *)
Lemma clingo_quotient_is_truncation n1 n2 : n2 <> 0 ->
  Z.quot n1 n2 = Z.sgn n1 * Z.sgn n2 * (Z.abs n1 / Z.abs n2).
Proof. intros Hn. apply Z.quot_div. exact Hn. Qed.
Lemma clingo_remainder n1 n2 : Z.rem n1 n2 = n1 - n2 * Z.quot n1 n2.
Proof. pose proof (Z.quot_rem' n1 n2). lia. Qed.

(* the values the audit quotes *)
Example readings_7_m2 :
  (forall q m, ~ qr_anthem 7 (-2) q m) /\ qr_ag 7 (-2) (-4) (-1) /\ qr_clingo 7 (-2) (-3) 1.
Proof. split; [|split]; [unfold qr_anthem; intros; lia| |]; repeat split; discriminate. Qed.
Example readings_m7_2 :
  qr_anthem (-7) 2 (-4) 1 /\ qr_ag (-7) 2 (-4) 1 /\ qr_clingo (-7) 2 (-3) (-1).
Proof. split; [|split]; [unfold qr_anthem; lia| |]; repeat split; discriminate. Qed.

(* anthem's reading is a restriction of Abstract Gringo's ... *)
Theorem anthem_sub_ag n1 n2 q m : qr_anthem n1 n2 q m -> qr_ag n1 n2 q m.
Proof. intros H. apply qr_anthem_iff in H. unfold qr_ag. intuition lia. Qed.
(* ... and equals it for every positive divisor *)
Theorem anthem_is_ag_pos_divisor n1 n2 q m : 0 < n2 -> (qr_anthem n1 n2 q m <-> qr_ag n1 n2 q m).
Proof. intros Hp. rewrite qr_anthem_iff. unfold qr_ag. intuition lia. Qed.
(* outside the class neg_divisor (n2 = 0 included: no reading gives a value) *)
Theorem anthem_is_ag_outside n1 n2 : ~ neg_divisor n1 n2 -> forall q m, qr_anthem n1 n2 q m <-> qr_ag n1 n2 q m.
Proof. unfold neg_divisor. intros Hn q m. rewrite qr_anthem_iff. unfold qr_ag. intuition lia. Qed.

(* all three agree on a non-negative dividend and a positive divisor *)
Theorem readings_agree_nonneg n1 n2 q m : 0 <= n1 -> 0 < n2 ->
  (qr_anthem n1 n2 q m <-> qr_ag n1 n2 q m) /\ (qr_anthem n1 n2 q m <-> qr_clingo n1 n2 q m).
Proof.
  intros H1 H2. split; [apply anthem_is_ag_pos_divisor; exact H2|].
  rewrite qr_anthem_iff. unfold qr_clingo.
  rewrite (Z.quot_div_nonneg n1 n2 H1 H2), (Z.rem_mod_nonneg n1 n2 H1 H2). intuition lia.
Qed.
Theorem anthem_is_clingo_outside n1 n2 : ~ neg_operand n1 n2 -> forall q m, qr_anthem n1 n2 q m <-> qr_clingo n1 n2 q m.
Proof.
  unfold neg_operand. intros Hn q m. destruct (Z.eq_dec n2 0) as [->|Hz].
  - rewrite qr_anthem_iff. unfold qr_clingo. intuition lia.
  - apply readings_agree_nonneg; lia.
Qed.

(* THE EXACT DEVIATION SETS (pairs dividend, divisor on which the readings differ). *)
(* anthem vs Abstract Gringo: exactly the negative divisors; there AG gives a value, anthem none *)
Theorem anthem_ag_deviation_set n1 n2 :
  ~ (forall q m, qr_anthem n1 n2 q m <-> qr_ag n1 n2 q m) <-> n2 < 0.
Proof.
  split.
  - intros Hd. destruct (Z_lt_ge_dec n2 0) as [Hn|Hn]; [exact Hn|]. exfalso. apply Hd.
    apply anthem_is_ag_outside. unfold neg_divisor. lia.
  - intros Hn Hall. destruct (proj2 (Hall (n1 / n2) (n1 mod n2))) as [_ Hm]; [unfold qr_ag; intuition lia|lia].
Qed.
Theorem neg_divisor_ag_value_anthem_none n1 n2 : n2 < 0 ->
  qr_ag n1 n2 (n1 / n2) (n1 mod n2) /\ forall q m, ~ qr_anthem n1 n2 q m.
Proof. intros Hn. split; [unfold qr_ag; intuition lia|unfold qr_anthem; intros; lia]. Qed.

(* anthem vs clingo: a negative divisor, or a negative dividend that the (positive) divisor does not divide *)
Theorem anthem_clingo_deviation_set n1 n2 :
  ~ (forall q m, qr_anthem n1 n2 q m <-> qr_clingo n1 n2 q m) <-> (n2 < 0 \/ (0 < n2 /\ n1 < 0 /\ n1 mod n2 <> 0)).
Proof.
  split.
  - intros Hd. destruct (Z_lt_ge_dec n2 0) as [Hn|Hn]; [left; exact Hn|]. right.
    destruct (Z.eq_dec n2 0) as [->|Hz].
    { exfalso. apply Hd. intros q m. rewrite qr_anthem_iff. unfold qr_clingo. intuition lia. }
    destruct (Z_lt_ge_dec n1 0) as [H1|H1].
    2:{ exfalso. apply Hd. intros q m. apply readings_agree_nonneg; lia. }
    destruct (Z.eq_dec (n1 mod n2) 0) as [Hm|Hm]; [|lia].
    exfalso. apply Hd. intros q m. rewrite qr_anthem_iff. unfold qr_clingo.
    assert (Hp : 0 < n2) by lia.
    pose proof (Z.div_mod n1 n2 Hz) as E. rewrite Hm in E.
    assert (Eq : Z.quot n1 n2 = n1 / n2).
    { rewrite E at 1. rewrite Z.add_0_r, Z.mul_comm. apply Z.quot_mul. exact Hz. }
    assert (Er : Z.rem n1 n2 = 0) by (rewrite clingo_remainder, Eq; lia).
    rewrite Eq, Er, Hm. intuition lia.
  - intros [Hn|(Hp & H1 & Hm)] Hall.
    + destruct (proj2 (Hall (Z.quot n1 n2) (Z.rem n1 n2))) as [_ Hb]; [unfold qr_clingo; intuition lia|lia].
    + (* the floor pair is anthem's; clingo's remainder is not positive, anthem's is *)
      destruct (proj1 (Hall (n1 / n2) (n1 mod n2))) as (_ & _ & Er).
      { apply qr_anthem_iff. intuition lia. }
      pose proof (Z.mod_pos_bound n1 n2 Hp) as Hb.
      pose proof (Z.rem_nonpos n1 n2 ltac:(lia) ltac:(lia)) as Hr. lia.
Qed.

(* Abstract Gringo vs clingo, for completeness: operands of opposite sign, divisor not dividing the dividend *)
Theorem ag_clingo_agree n1 n2 q m : (0 <= n1 /\ 0 < n2) \/ (n1 <= 0 /\ n2 < 0) ->
  (qr_ag n1 n2 q m <-> qr_clingo n1 n2 q m).
Proof.
  intros Hs. unfold qr_ag, qr_clingo.
  assert (E : Z.quot n1 n2 = n1 / n2 /\ Z.rem n1 n2 = n1 mod n2).
  { destruct Hs as [[H1 H2]|[H1 H2]].
    - split; [apply Z.quot_div_nonneg|apply Z.rem_mod_nonneg]; lia.
    - assert (Eq : Z.quot n1 n2 = n1 / n2).
      { rewrite <- (Z.quot_opp_opp n1 n2) by lia. rewrite Z.quot_div_nonneg by lia.
        apply Z.div_opp_opp. lia. }
      split; [exact Eq|]. rewrite clingo_remainder, ag_remainder, Eq by lia. reflexivity. }
  destruct E as [-> ->]. tauto.
Qed.
End Numbers.

(* ------------------------------------------------------------------------------------------ *)
(* B. terms                                                                                    *)
(* ------------------------------------------------------------------------------------------ *)

(* AspRef's definitions ARE the instance qr_anthem of the generic ones (by conversion) *)
Lemma vals_with_anthem : vals_with qr_anthem = vals.
Proof. reflexivity. Qed.
Lemma ref_sat_with_anthem : ref_sat_with qr_anthem = ref_sat.
Proof. reflexivity. Qed.
Lemma stable_with_anthem : stable_with qr_anthem = stable.
Proof. reflexivity. Qed.

Section Agree.
Variables qr1 qr2 : divreading.
Variable bad : Z -> Z -> Prop.
Hypothesis Hagree : forall n1 n2, ~ bad n1 n2 -> forall q m, qr1 n1 n2 q m <-> qr2 n1 n2 q m.

(* a term whose evaluation (in reading qr1) never applies / or \ to a bad pair has the same values
   in both readings *)
Theorem vals_agree_outside sg t : ~ reaches qr1 bad sg t ->
  forall v, vals_with qr1 sg t v <-> vals_with qr2 sg t v.
Proof.
  induction t as [p|x|o a IHa|o l IHl r IHr]; intros Hn v; cbn [vals_with]; try tauto.
  - destruct o. cbn [reaches] in Hn. specialize (IHa Hn).
    split; intros [n [Hv E]]; exists n; (split; [apply IHa; exact Hv|exact E]).
  - cbn [reaches] in Hn.
    assert (Hl : ~ reaches qr1 bad sg l) by tauto.
    assert (Hr : ~ reaches qr1 bad sg r) by tauto.
    specialize (IHl Hl). specialize (IHr Hr).
    assert (Hb : is_divmod o -> forall n1 n2, vals_with qr1 sg l (VNum n1) -> vals_with qr1 sg r (VNum n2) -> ~ bad n1 n2).
    { intros Ho n1 n2 H1 H2 Hbad. apply Hn. right. right. split; [exact Ho|]. exists n1, n2. auto. }
    destruct o.
    1-3: split; intros (n1 & n2 & H1 & H2 & E); exists n1, n2;
         (split; [apply IHl; exact H1|split; [apply IHr; exact H2|exact E]]).
    + split; intros (n1 & n2 & q & m & H1 & H2 & Hq & E); exists n1, n2, q, m.
      * split; [apply IHl; exact H1|split; [apply IHr; exact H2|split; [|exact E]]].
        apply (Hagree n1 n2); [apply Hb; [left; reflexivity|exact H1|exact H2]|exact Hq].
      * apply IHl in H1. apply IHr in H2.
        split; [exact H1|split; [exact H2|split; [|exact E]]].
        apply (Hagree n1 n2); [apply Hb; [left; reflexivity|exact H1|exact H2]|exact Hq].
    + split; intros (n1 & n2 & q & m & H1 & H2 & Hq & E); exists n1, n2, q, m.
      * split; [apply IHl; exact H1|split; [apply IHr; exact H2|split; [|exact E]]].
        apply (Hagree n1 n2); [apply Hb; [right; reflexivity|exact H1|exact H2]|exact Hq].
      * apply IHl in H1. apply IHr in H2.
        split; [exact H1|split; [exact H2|split; [|exact E]]].
        apply (Hagree n1 n2); [apply Hb; [right; reflexivity|exact H1|exact H2]|exact Hq].
    + split; intros (n1 & n2 & k & H1 & H2 & E); exists n1, n2, k;
        (split; [apply IHl; exact H1|split; [apply IHr; exact H2|exact E]]).
Qed.

Lemma tuple_vals_agree_outside sg ts : ~ Exists (reaches qr1 bad sg) ts ->
  forall vs, tuple_vals_with qr1 sg ts vs <-> tuple_vals_with qr2 sg ts vs.
Proof.
  unfold tuple_vals_with. induction ts as [|t ts IH]; intros Hn vs.
  - split; intros H; inversion H; constructor.
  - assert (Ht : ~ reaches qr1 bad sg t) by (intros X; apply Hn; left; exact X).
    assert (Hts : ~ Exists (reaches qr1 bad sg) ts) by (intros X; apply Hn; right; exact X).
    split; intros H; inversion H; subst; constructor;
      try (apply (vals_agree_outside sg t Ht); assumption); apply (IH Hts); assumption.
Qed.

Lemma bformula_sat_agree_outside W T sg b : ~ bformula_reaches qr1 bad sg b ->
  (bformula_sat_with qr1 W T sg b <-> bformula_sat_with qr2 W T sg b).
Proof.
  destruct b as [[s a]|c]; cbn [bformula_reaches bformula_sat_with latom]; intros Hn.
  - unfold atom_reaches in Hn. pose proof (tuple_vals_agree_outside sg (aterms a) Hn) as E.
    destruct s; split; intros [vs [Hv Hw]]; exists vs; (split; [apply E; exact Hv|exact Hw]).
  - assert (Hl : ~ reaches qr1 bad sg (clhs c)) by tauto.
    assert (Hr : ~ reaches qr1 bad sg (crhs c)) by tauto.
    split; intros (v1 & v2 & H1 & H2 & E); exists v1, v2;
      (split; [apply (vals_agree_outside sg _ Hl); exact H1|split; [apply (vals_agree_outside sg _ Hr); exact H2|exact E]]).
Qed.

Lemma body_sat_agree_outside W T sg b : ~ Exists (bformula_reaches qr1 bad sg) b ->
  (body_sat_with qr1 W T sg b <-> body_sat_with qr2 W T sg b).
Proof.
  unfold body_sat_with. induction b as [|x b IH]; intros Hn.
  - split; intros _; constructor.
  - assert (Hx : ~ bformula_reaches qr1 bad sg x) by (intros X; apply Hn; left; exact X).
    assert (Hb : ~ Exists (bformula_reaches qr1 bad sg) b) by (intros X; apply Hn; right; exact X).
    split; intros H; inversion H; subst; constructor;
      try (apply (bformula_sat_agree_outside W T sg x Hx); assumption); apply (IH Hb); assumption.
Qed.

Lemma head_sat_agree_outside W T sg h : ~ head_reaches qr1 bad sg h ->
  (head_sat_with qr1 W T sg h <-> head_sat_with qr2 W T sg h).
Proof.
  destruct h as [a|a|]; cbn [head_reaches head_sat_with]; intros Hn; [| |tauto];
    unfold atom_reaches in Hn; pose proof (tuple_vals_agree_outside sg (aterms a) Hn) as E;
    split; intros H vs Hv; apply H; apply E; exact Hv.
Qed.

Theorem ref_rule_sat_agree_outside H T r : (forall sg, ~ rule_reaches qr1 bad sg r) ->
  (ref_rule_sat_with qr1 H T r <-> ref_rule_sat_with qr2 H T r).
Proof.
  intros Hn. unfold ref_rule_sat_with.
  assert (E : forall sg W, (body_sat_with qr1 W T sg (rbody r) -> head_sat_with qr1 W T sg (rhead r)) <->
                           (body_sat_with qr2 W T sg (rbody r) -> head_sat_with qr2 W T sg (rhead r))).
  { intros sg W. specialize (Hn sg). unfold rule_reaches in Hn.
    assert (Hh : ~ head_reaches qr1 bad sg (rhead r)) by tauto.
    assert (Hb : ~ Exists (bformula_reaches qr1 bad sg) (rbody r)) by tauto.
    rewrite (body_sat_agree_outside W T sg _ Hb), (head_sat_agree_outside W T sg _ Hh). tauto. }
  split; intros Hs sg; (split; [apply (E sg H)|apply (E sg T)]); apply Hs.
Qed.

Theorem ref_sat_agree_outside P : ~ program_reaches qr1 bad P ->
  forall H T, ref_sat_with qr1 H T P <-> ref_sat_with qr2 H T P.
Proof.
  intros Hn H T. unfold ref_sat_with.
  split; intros Hs r Hr; apply (ref_rule_sat_agree_outside H T r); try (apply Hs; exact Hr);
    intros sg X; apply Hn; exists r, sg; auto.
Qed.

Theorem stable_agree_outside P : ~ program_reaches qr1 bad P ->
  forall T F, stable_with qr1 T P F <-> stable_with qr2 T P F.
Proof.
  intros Hn T F. unfold stable_with. pose proof (ref_sat_agree_outside P Hn) as E.
  split; intros [[Hs Hf] Hmin]; (split; [split; [apply E; exact Hs|exact Hf]|]);
    intros H Hsub HH HF; (apply (Hmin H Hsub); [apply E; exact HH|exact HF]).
Qed.
End Agree.

(* a term all of whose divisors are positive numerals is outside the class neg_divisor under every
   assignment, in every reading *)
Lemma divisors_positive_numerals_outside qr sg t :
  divisors_positive_numerals t = true -> ~ reaches qr neg_divisor sg t.
Proof.
  induction t as [p|x|o a IHa|o l IHl r IHr]; cbn [divisors_positive_numerals reaches]; intros Hd; try tauto.
  apply andb_prop in Hd. destruct Hd as [Hd Ho]. apply andb_prop in Hd. destruct Hd as [Hl Hr].
  intros [X|[X|[Hdm (n1 & n2 & _ & H2 & Hneg)]]].
  - exact (IHl Hl X).
  - exact (IHr Hr X).
  - unfold neg_divisor in Hneg.
    destruct Hdm as [-> | ->]; destruct r as [[ | z | | ]| | | ]; try discriminate;
      cbn in H2; inversion H2; subst; apply Z.ltb_lt in Ho; lia.
Qed.

(* ------------------------------------------------------------------------------------------ *)
(* C. the executable evaluators                                                                *)
(* ------------------------------------------------------------------------------------------ *)
Definition qr_of (d : divmode) : divreading :=
  match d with DAnthem => qr_anthem | DGringo => qr_ag | DClingo => qr_clingo end.

Lemma divmod_vals_spec d n1 n2 q m : divmod_vals d n1 n2 = Some (q, m) <-> qr_of d n1 n2 q m.
Proof.
  destruct d; cbn [divmod_vals qr_of].
  - rewrite qr_anthem_iff. destruct (Z.ltb_spec 0 n2); split; try discriminate; try lia.
    + intros E. inversion E; subst. auto.
    + intros (_ & -> & ->). reflexivity.
  - unfold qr_ag. destruct (Z.eqb_spec n2 0); split; try discriminate; try tauto.
    + intros E. inversion E; subst. auto.
    + intros (_ & -> & ->). reflexivity.
  - unfold qr_clingo. destruct (Z.eqb_spec n2 0); split; try discriminate; try tauto.
    + intros E. inversion E; subst. auto.
    + intros (_ & -> & ->). reflexivity.
Qed.

Lemma in_binop_vals_m d o n1 n2 v :
  In v (binop_vals_m d o n1 n2) <->
  match o with
  | AAdd => v = VNum (n1 + n2)
  | ASub => v = VNum (n1 - n2)
  | AMul => v = VNum (n1 * n2)
  | ADiv => exists q m, qr_of d n1 n2 q m /\ v = VNum q
  | AMod => exists q m, qr_of d n1 n2 q m /\ v = VNum m
  | AInterval => exists k, (n1 <= k <= n2)%Z /\ v = VNum k
  end.
Proof.
  destruct o; cbn [binop_vals_m].
  1: exact (in_binop_vals AAdd n1 n2 v).
  1: exact (in_binop_vals ASub n1 n2 v).
  1: exact (in_binop_vals AMul n1 n2 v).
  3: exact (in_binop_vals AInterval n1 n2 v).
  - destruct (divmod_vals d n1 n2) as [[q m]|] eqn:E.
    + apply divmod_vals_spec in E. cbn. split.
      * intros [<-|[]]. eauto.
      * intros (q' & m' & Hq & ->). apply divmod_vals_spec in Hq. apply divmod_vals_spec in E.
        rewrite E in Hq. inversion Hq; subst. left. reflexivity.
    + cbn. split; [intros []|]. intros (q & m & Hq & _). apply divmod_vals_spec in Hq. congruence.
  - destruct (divmod_vals d n1 n2) as [[q m]|] eqn:E.
    + apply divmod_vals_spec in E. cbn. split.
      * intros [<-|[]]. eauto.
      * intros (q' & m' & Hq & ->). apply divmod_vals_spec in Hq. apply divmod_vals_spec in E.
        rewrite E in Hq. inversion Hq; subst. left. reflexivity.
    + cbn. split; [intros []|]. intros (q & m & Hq & _). apply divmod_vals_spec in Hq. congruence.
Qed.

(* with the trivial universe filter the evaluator computes exactly the value sets of the reading *)
Theorem ref_vals_m_spec d sg t : forall v,
  In v (ref_vals_m d all_values sg t) <-> vals_with (qr_of d) (alookup sg) t v.
Proof.
  induction t as [p|x|o a IHa|o l IHl r IHr]; intros v; cbn [ref_vals_m vals_with].
  - rewrite in_keep_all. cbn. split; [intros [<-|[]]; reflexivity|intros ->; left; reflexivity].
  - rewrite in_keep_all. cbn. split; [intros [<-|[]]; reflexivity|intros ->; left; reflexivity].
  - destruct o. rewrite in_keep_all, in_map_iff. split.
    + intros [n [<- Hn]]. apply in_nums, IHa in Hn. eauto.
    + intros [n [Hn ->]]. exists n. split; [reflexivity|]. apply in_nums, IHa. exact Hn.
  - rewrite in_keep_all, in_flat_map.
    assert (E : (exists n1, In n1 (nums (ref_vals_m d all_values sg l)) /\
                   In v (flat_map (fun n2 => binop_vals_m d o n1 n2) (nums (ref_vals_m d all_values sg r)))) <->
                (exists n1 n2, vals_with (qr_of d) (alookup sg) l (VNum n1) /\
                               vals_with (qr_of d) (alookup sg) r (VNum n2) /\
                               In v (binop_vals_m d o n1 n2))).
    { split.
      - intros [n1 [H1 H2]]. apply in_flat_map in H2. destruct H2 as [n2 [H2 H3]].
        apply in_nums, IHl in H1. apply in_nums, IHr in H2. eauto.
      - intros [n1 [n2 [H1 [H2 H3]]]]. exists n1. split; [apply in_nums, IHl; exact H1|].
        apply in_flat_map. exists n2. split; [apply in_nums, IHr; exact H2|exact H3]. }
    rewrite E. clear E.
    destruct o.
    1-3: split; [intros [n1 [n2 [H1 [H2 H3]]]]; apply in_binop_vals_m in H3; eauto|
                 intros [n1 [n2 [H1 [H2 H3]]]]; exists n1, n2; repeat split; auto; apply in_binop_vals_m; exact H3].
    1-2: split; [intros [n1 [n2 [H1 [H2 H3]]]]; apply in_binop_vals_m in H3; destruct H3 as [q [m [Hq Hv]]];
                 exists n1, n2, q, m; auto|
                 intros [n1 [n2 [q [m [H1 [H2 [Hq Hv]]]]]]]; exists n1, n2; repeat split; auto;
                 apply in_binop_vals_m; eauto].
    split; [intros [n1 [n2 [H1 [H2 H3]]]]; apply in_binop_vals_m in H3; destruct H3 as [k [Hk Hv]];
            exists n1, n2, k; auto|
            intros [n1 [n2 [k [H1 [H2 [Hk Hv]]]]]]; exists n1, n2; repeat split; auto;
            apply in_binop_vals_m; eauto].
Qed.

Lemma flat_map_ext_in' {A B} (f g : A -> list B) l : (forall a, In a l -> f a = g a) -> flat_map f l = flat_map g l.
Proof.
  induction l as [|a l IH]; intros H; cbn; [reflexivity|].
  rewrite (H a (or_introl eq_refl)), IH; [reflexivity|]. intros b Hb. apply H. right. exact Hb.
Qed.

(* mode DAnthem is the evaluator of Model/EvalAsp.v *)
Lemma binop_vals_m_anthem o n1 n2 : binop_vals_m DAnthem o n1 n2 = binop_vals o n1 n2.
Proof. destruct o; cbn; try reflexivity; destruct (0 <? n2)%Z; reflexivity. Qed.
Lemma ref_vals_m_anthem inw sg t : ref_vals_m DAnthem inw sg t = ref_vals inw sg t.
Proof.
  induction t as [p|x|o a IHa|o l IHl r IHr]; cbn [ref_vals_m ref_vals]; try reflexivity.
  - destruct o. rewrite IHa. reflexivity.
  - rewrite IHl, IHr. f_equal. apply flat_map_ext_in'. intros n1 _. apply flat_map_ext_in'. intros n2 _.
    apply binop_vals_m_anthem.
Qed.

Section AgreeB.
Variables d1 d2 : divmode.
Variable inw : gval -> bool.
Variable badb : Z -> Z -> bool.
Hypothesis Hagree : forall n1 n2, badb n1 n2 = false -> divmod_vals d1 n1 n2 = divmod_vals d2 n1 n2.

Lemma existsb_false {A} (f : A -> bool) l : existsb f l = false -> forall a, In a l -> f a = false.
Proof.
  intros H a Ha. destruct (f a) eqn:E; [|reflexivity].
  assert (X : existsb f l = true) by (apply existsb_exists; eauto). congruence.
Qed.

(* outside the class the two evaluators return THE SAME LIST, for every universe filter *)
Theorem ref_vals_m_outside sg t : reaches_b d1 inw badb sg t = false ->
  ref_vals_m d1 inw sg t = ref_vals_m d2 inw sg t.
Proof.
  induction t as [p|x|o a IHa|o l IHl r IHr]; cbn [ref_vals_m reaches_b]; intros Hn; try reflexivity.
  - destruct o. rewrite (IHa Hn). reflexivity.
  - apply orb_false_elim in Hn. destruct Hn as [Hn Hc]. apply orb_false_elim in Hn. destruct Hn as [Hl Hr].
    rewrite <- (IHl Hl), <- (IHr Hr). f_equal.
    apply flat_map_ext_in'. intros n1 H1. apply flat_map_ext_in'. intros n2 H2.
    destruct o; try reflexivity; cbn [andb] in Hc;
      pose proof (existsb_false _ _ (existsb_false _ _ Hc n1 H1) n2 H2) as Hb;
      cbn [binop_vals_m]; rewrite (Hagree n1 n2 Hb); reflexivity.
Qed.

Lemma ref_tuples_m_outside sg ts : existsb (reaches_b d1 inw badb sg) ts = false ->
  ref_tuples_m d1 inw sg ts = ref_tuples_m d2 inw sg ts.
Proof.
  unfold ref_tuples_m. intros Hn. f_equal. apply map_ext_in. intros t Ht.
  apply ref_vals_m_outside. exact (existsb_false _ _ Hn t Ht).
Qed.

Lemma ref_bformula_eval_m_outside W T sg b : bformula_reaches_b d1 inw badb sg b = false ->
  ref_bformula_eval_m d1 inw W T sg b = ref_bformula_eval_m d2 inw W T sg b.
Proof.
  destruct b as [[s a]|c]; cbn [bformula_reaches_b ref_bformula_eval_m latom]; intros Hn.
  - unfold atom_reaches_b in Hn. rewrite (ref_tuples_m_outside sg _ Hn). reflexivity.
  - apply orb_false_elim in Hn. destruct Hn as [Hl Hr].
    rewrite (ref_vals_m_outside sg _ Hl), (ref_vals_m_outside sg _ Hr). reflexivity.
Qed.

Lemma forallb_ext_in {A} (f g : A -> bool) l : (forall a, In a l -> f a = g a) -> forallb f l = forallb g l.
Proof.
  induction l as [|a l IH]; intros H; cbn; [reflexivity|].
  rewrite (H a (or_introl eq_refl)), IH; [reflexivity|]. intros b Hb. apply H. right. exact Hb.
Qed.

Lemma ref_rule_sg_outside W T H sg r : rule_reaches_sg_b d1 inw badb sg r = false ->
  ref_body_eval_m d1 inw W T sg (rbody r) = ref_body_eval_m d2 inw W T sg (rbody r) /\
  ref_head_eval_m d1 inw H T sg (rhead r) = ref_head_eval_m d2 inw H T sg (rhead r).
Proof.
  unfold rule_reaches_sg_b. intros Hn. apply orb_false_elim in Hn. destruct Hn as [Hh Hb]. split.
  - unfold ref_body_eval_m. apply forallb_ext_in. intros b Hin.
    apply ref_bformula_eval_m_outside. exact (existsb_false _ _ Hb b Hin).
  - destruct (rhead r) as [a|a|]; cbn [head_reaches_b ref_head_eval_m] in *; try reflexivity;
      unfold atom_reaches_b in Hh; rewrite (ref_tuples_m_outside sg _ Hh); reflexivity.
Qed.

(* ... hence the same verdict on every rule the class test rejects *)
Theorem ref_rule_eval_gen_m_outside dom H T r : rule_reaches_b d1 inw badb dom r = false ->
  ref_rule_eval_gen_m d1 inw dom H T r = ref_rule_eval_gen_m d2 inw dom H T r.
Proof.
  unfold rule_reaches_b, ref_rule_eval_gen_m. intros Hn. apply forallb_ext_in. intros sg Hsg.
  pose proof (existsb_false _ _ Hn sg Hsg) as Hr.
  destruct (ref_rule_sg_outside H T H sg r Hr) as [E1 E2].
  destruct (ref_rule_sg_outside T T T sg r Hr) as [E3 E4].
  rewrite E1, E2, E3, E4. reflexivity.
Qed.
End AgreeB.

Lemma divmod_agree_ag n1 n2 : neg_divisor_b n1 n2 = false -> divmod_vals DGringo n1 n2 = divmod_vals DAnthem n1 n2.
Proof.
  unfold neg_divisor_b, divmod_vals. intros Hn. apply Z.ltb_ge in Hn.
  destruct (Z.eqb_spec n2 0), (Z.ltb_spec 0 n2); try reflexivity; lia.
Qed.
Lemma divmod_agree_clingo n1 n2 : neg_operand_b n1 n2 = false -> divmod_vals DClingo n1 n2 = divmod_vals DAnthem n1 n2.
Proof.
  unfold neg_operand_b, divmod_vals. intros Hn. apply orb_false_elim in Hn. destruct Hn as [H2 H1].
  apply Z.ltb_ge in H2. apply Z.ltb_ge in H1.
  destruct (Z.eqb_spec n2 0), (Z.ltb_spec 0 n2); try reflexivity; try lia.
  rewrite Z.quot_div_nonneg, Z.rem_mod_nonneg by lia. reflexivity.
Qed.

(* what the semantic ops rely on: on a rule outside the class (tested in the PUBLISHED reading, over
   the window's assignments) the published oracle and anthem's own oracle (the one of sem_tau_star,
   Model/EvalAsp.ref_rule_eval) return the same value *)
Theorem ref_rule_eval_ag_outside W H T r : rule_in_class DGringo neg_divisor_b W r = false ->
  ref_rule_eval_m DGringo W H T r = ref_rule_eval_m DAnthem W H T r.
Proof. apply ref_rule_eval_gen_m_outside. exact divmod_agree_ag. Qed.
Theorem ref_rule_eval_clingo_outside W H T r : rule_in_class DClingo neg_operand_b W r = false ->
  ref_rule_eval_m DClingo W H T r = ref_rule_eval_m DAnthem W H T r.
Proof. apply ref_rule_eval_gen_m_outside. exact divmod_agree_clingo. Qed.

(* ------------------------------------------------------------------------------------------ *)
(* D. tau* against the published readings                                                      *)
(* ------------------------------------------------------------------------------------------ *)
Lemma ag_is_anthem_outside n1 n2 : ~ neg_divisor n1 n2 -> forall q m, qr_ag n1 n2 q m <-> qr_anthem n1 n2 q m.
Proof. intros Hn q m. symmetry. apply anthem_is_ag_outside. exact Hn. Qed.
Lemma clingo_is_anthem_outside n1 n2 : ~ neg_operand n1 n2 -> forall q m, qr_clingo n1 n2 q m <-> qr_anthem n1 n2 q m.
Proof. intros Hn q m. symmetry. apply anthem_is_clingo_outside. exact Hn. Qed.

Section TauStarLevel.
Variable FI : fint.

(* OUTSIDE the class, C01_ht / C01_stable hold with the published reference semantics.  The class
   may be tested in either reading (the two tests are given separately because no classical axiom is
   used to show them equivalent). *)
Theorem tau_star_ht_ag_outside P G H T : tau_star P = Some G ->
  ~ program_reaches qr_anthem neg_divisor P \/ ~ program_reaches qr_ag neg_divisor P ->
  (theory_hsat FI H T G <-> ref_sat_with qr_ag H T P).
Proof.
  intros HG Hn. rewrite (tau_star_ht FI P G H T HG). destruct Hn as [Hn|Hn].
  - exact (ref_sat_agree_outside qr_anthem qr_ag neg_divisor anthem_is_ag_outside P Hn H T).
  - symmetry. exact (ref_sat_agree_outside qr_ag qr_anthem neg_divisor ag_is_anthem_outside P Hn H T).
Qed.
Theorem tau_star_stable_ag_outside P G T Facts : tau_star P = Some G ->
  ~ program_reaches qr_anthem neg_divisor P \/ ~ program_reaches qr_ag neg_divisor P ->
  (equilibrium FI T G Facts <-> stable_with qr_ag T P Facts).
Proof.
  intros HG Hn. rewrite (tau_star_stable FI P G T Facts HG). destruct Hn as [Hn|Hn].
  - exact (stable_agree_outside qr_anthem qr_ag neg_divisor anthem_is_ag_outside P Hn T Facts).
  - symmetry. exact (stable_agree_outside qr_ag qr_anthem neg_divisor ag_is_anthem_outside P Hn T Facts).
Qed.
Theorem tau_star_ht_clingo_outside P G H T : tau_star P = Some G ->
  ~ program_reaches qr_anthem neg_operand P \/ ~ program_reaches qr_clingo neg_operand P ->
  (theory_hsat FI H T G <-> ref_sat_with qr_clingo H T P).
Proof.
  intros HG Hn. rewrite (tau_star_ht FI P G H T HG). destruct Hn as [Hn|Hn].
  - exact (ref_sat_agree_outside qr_anthem qr_clingo neg_operand anthem_is_clingo_outside P Hn H T).
  - symmetry. exact (ref_sat_agree_outside qr_clingo qr_anthem neg_operand clingo_is_anthem_outside P Hn H T).
Qed.
Theorem tau_star_stable_clingo_outside P G T Facts : tau_star P = Some G ->
  ~ program_reaches qr_anthem neg_operand P \/ ~ program_reaches qr_clingo neg_operand P ->
  (equilibrium FI T G Facts <-> stable_with qr_clingo T P Facts).
Proof.
  intros HG Hn. rewrite (tau_star_stable FI P G T Facts HG). destruct Hn as [Hn|Hn].
  - exact (stable_agree_outside qr_anthem qr_clingo neg_operand anthem_is_clingo_outside P Hn T Facts).
  - symmetry. exact (stable_agree_outside qr_clingo qr_anthem neg_operand clingo_is_anthem_outside P Hn T Facts).
Qed.
End TauStarLevel.

(* ---- INSIDE the class: the recorded witnesses ---- *)
Definition no_atoms : pint := fun _ _ => False.
Definition only_atom (p : string) (c : Z) : pint := fun q a => q = p /\ a = [VNum c].
Definition fact (p : string) (t : term) : program := [mkrule (HBasic (mkatom p [t])) []].

(* stable models of a one-fact program p(t). whose term has no value / the single value c *)
Lemma fact_stable_none qr p t : (forall sg v, ~ vals_with qr sg t v) ->
  forall T, stable_with qr T (fact p t) no_atoms <-> (forall q a, ~ T q a).
Proof.
  intros Hv T.
  assert (Hsat : forall H T', ref_sat_with qr H T' (fact p t)).
  { intros H T' r [<-|[]] sg. split; intros _ vs Hvs; inversion Hvs; subst; exfalso; eapply Hv; eauto. }
  split.
  - intros [_ Hmin] q a Hq. exact (Hmin no_atoms (fun _ _ F => match F with end) (Hsat _ _) (fun _ _ F => F) q a Hq).
  - intros Hno. split; [split; [apply Hsat|intros q a []]|]. intros H _ _ _ q a Hq. exfalso. exact (Hno q a Hq).
Qed.
Lemma fact_stable_single qr p t c : (forall sg v, vals_with qr sg t v <-> v = VNum c) ->
  forall T, stable_with qr T (fact p t) no_atoms <-> (forall q a, T q a <-> only_atom p c q a).
Proof.
  intros Hv T.
  assert (Hsat : forall H T', ref_sat_with qr H T' (fact p t) <-> (H p [VNum c] /\ T' p [VNum c])).
  { intros H T'. split.
    - intros Hs. destruct (Hs _ (or_introl eq_refl) (fun _ => VNum 0%Z)) as [Hh Ht].
      split; [apply (Hh (Forall_nil _))|apply (Ht (Forall_nil _))];
        (constructor; [apply Hv; reflexivity|constructor]).
    - intros [Hh Ht] r [<-|[]] sg. split; intros _ vs Hvs; inversion Hvs as [|? v ? vs' Hv1 Hv2]; subst;
        inversion Hv2; subst; apply Hv in Hv1; subst; assumption. }
  split.
  - intros [[Hs _] Hmin] q a. split.
    + intros Hq. apply (Hmin (only_atom p c)); [| |intros ? ? []|exact Hq].
      * intros q' a' [-> ->]. apply Hsat in Hs. tauto.
      * apply Hsat. apply Hsat in Hs. split; [split; reflexivity|tauto].
    + intros [-> ->]. apply Hsat in Hs. tauto.
  - intros HT. split; [split; [|intros q a []]|].
    + apply Hsat. split; apply HT; split; reflexivity.
    + intros H _ Hs _ q a Hq. apply HT in Hq. destruct Hq as [-> ->]. apply Hsat in Hs. tauto.
Qed.

Definition tnum (z : Z) : term := TPre (PNum z).
(* out(7/(0-2)).   anthem's own parser has no negative numeral literals: -2 is written 0-2 *)
Definition t_F24 : term := TBin ADiv (tnum 7) (TBin ASub (tnum 0) (tnum 2)).
Definition P_F24 : program := fact "out" t_F24.
(* out((0-7)/2). *)
Definition t_F24c : term := TBin ADiv (TBin ASub (tnum 0) (tnum 7)) (tnum 2).
Definition P_F24c : program := fact "out" t_F24c.

Lemma t_F24_vals qr sg v : vals_with qr sg t_F24 v <-> exists q m, qr 7%Z (-2)%Z q m /\ v = VNum q.
Proof.
  cbn. split.
  - intros (n1 & n2 & q & m & E1 & (a & b & Ea & Eb & E2) & Hq & ->).
    inversion E1; inversion Ea; inversion Eb; subst. inversion E2; subst. eauto.
  - intros (q & m & Hq & ->). exists 7%Z, (-2)%Z, q, m. repeat split; auto. exists 0%Z, 2%Z. auto.
Qed.
Lemma t_F24c_vals qr sg v : vals_with qr sg t_F24c v <-> exists q m, qr (-7)%Z 2%Z q m /\ v = VNum q.
Proof.
  cbn. split.
  - intros (n1 & n2 & q & m & (a & b & Ea & Eb & E1) & E2 & Hq & ->).
    inversion E2; inversion Ea; inversion Eb; subst. inversion E1; subst. eauto.
  - intros (q & m & Hq & ->). exists (-7)%Z, 2%Z, q, m. repeat split; auto. exists 0%Z, 7%Z. auto.
Qed.

Lemma t_F24_anthem sg v : ~ vals_with qr_anthem sg t_F24 v.
Proof. rewrite t_F24_vals. intros (q & m & Hq & _). unfold qr_anthem in Hq. lia. Qed.
Lemma t_F24_ag sg v : vals_with qr_ag sg t_F24 v <-> v = VNum (-4).
Proof.
  rewrite t_F24_vals. split.
  - intros (q & m & (_ & -> & _) & ->). reflexivity.
  - intros ->. exists (-4)%Z, (-1)%Z. repeat split. discriminate.
Qed.
Lemma t_F24_clingo sg v : vals_with qr_clingo sg t_F24 v <-> v = VNum (-3).
Proof.
  rewrite t_F24_vals. split.
  - intros (q & m & (_ & -> & _) & ->). reflexivity.
  - intros ->. exists (-3)%Z, 1%Z. repeat split. discriminate.
Qed.
Lemma t_F24c_anthem sg v : vals_with qr_anthem sg t_F24c v <-> v = VNum (-4).
Proof.
  rewrite t_F24c_vals. split.
  - intros (q & m & Hq & ->). apply qr_anthem_iff in Hq. destruct Hq as (_ & -> & _). reflexivity.
  - intros ->. exists (-4)%Z, 1%Z. split; [unfold qr_anthem; lia|reflexivity].
Qed.
Lemma t_F24c_clingo sg v : vals_with qr_clingo sg t_F24c v <-> v = VNum (-3).
Proof.
  rewrite t_F24c_vals. split.
  - intros (q & m & (_ & -> & _) & ->). reflexivity.
  - intros ->. exists (-3)%Z, (-1)%Z. repeat split. discriminate.
Qed.

Lemma P_F24_defined : exists G, tau_star P_F24 = Some G.
Proof. apply tau_star_defined. right. vm_compute. reflexivity. Qed.
Lemma P_F24c_defined : exists G, tau_star P_F24c = Some G.
Proof. apply tau_star_defined. right. vm_compute. reflexivity. Qed.

Lemma only_atom_inhabited p c : ~ (forall q a, ~ only_atom p c q a).
Proof. intros H. apply (H p [VNum c]). split; reflexivity. Qed.
Lemma only_atom_neq p c c' : c <> c' -> ~ (forall q a, only_atom p c q a <-> only_atom p c' q a).
Proof.
  intros Hc H. destruct (proj1 (H p [VNum c]) (conj eq_refl eq_refl)) as [_ E]. inversion E. contradiction.
Qed.

(* tau*(out(7/(0-2)).) has the empty equilibrium model; under Abstract Gringo the program's only stable
   model is {out(-4)}, under clingo {out(-3)}; neither is an equilibrium model of tau* *)
Theorem tau_star_not_abstract_gringo_negative_divisor FI :
  exists G, tau_star P_F24 = Some G /\
    equilibrium FI no_atoms G no_atoms /\ ~ stable_with qr_ag no_atoms P_F24 no_atoms /\
    stable_with qr_ag (only_atom "out" (-4)) P_F24 no_atoms /\ ~ equilibrium FI (only_atom "out" (-4)) G no_atoms.
Proof.
  destruct P_F24_defined as [G HG]. exists G. split; [exact HG|].
  pose proof (fact_stable_none qr_anthem "out" t_F24 t_F24_anthem) as Ha.
  pose proof (fact_stable_single qr_ag "out" t_F24 (-4) t_F24_ag) as Hg.
  split; [|split; [|split]].
  - apply (proj2 (tau_star_stable FI P_F24 G no_atoms no_atoms HG)). apply (proj2 (Ha no_atoms)). intros q a [].
  - intros Hs. apply (only_atom_inhabited "out" (-4)). intros q a Hq.
    apply (proj1 (Hg no_atoms) Hs q a) in Hq. exact Hq.
  - apply Hg. tauto.
  - intros He. apply (proj1 (tau_star_stable FI P_F24 G _ no_atoms HG)) in He.
    exact (only_atom_inhabited "out" (-4) (proj1 (Ha _) He)).
Qed.
Theorem tau_star_not_clingo_negative_divisor FI :
  exists G, tau_star P_F24 = Some G /\
    equilibrium FI no_atoms G no_atoms /\ ~ stable_with qr_clingo no_atoms P_F24 no_atoms /\
    stable_with qr_clingo (only_atom "out" (-3)) P_F24 no_atoms /\ ~ equilibrium FI (only_atom "out" (-3)) G no_atoms.
Proof.
  destruct P_F24_defined as [G HG]. exists G. split; [exact HG|].
  pose proof (fact_stable_none qr_anthem "out" t_F24 t_F24_anthem) as Ha.
  pose proof (fact_stable_single qr_clingo "out" t_F24 (-3) t_F24_clingo) as Hg.
  split; [|split; [|split]].
  - apply (proj2 (tau_star_stable FI P_F24 G no_atoms no_atoms HG)). apply (proj2 (Ha no_atoms)). intros q a [].
  - intros Hs. apply (only_atom_inhabited "out" (-3)). intros q a Hq.
    apply (proj1 (Hg no_atoms) Hs q a) in Hq. exact Hq.
  - apply Hg. tauto.
  - intros He. apply (proj1 (tau_star_stable FI P_F24 G _ no_atoms HG)) in He.
    exact (only_atom_inhabited "out" (-3) (proj1 (Ha _) He)).
Qed.
(* tau*(out((0-7)/2).) has the equilibrium model {out(-4)} (= Abstract Gringo: positive divisor);
   clingo's answer is {out(-3)} *)
Theorem tau_star_not_clingo_negative_dividend FI :
  exists G, tau_star P_F24c = Some G /\
    equilibrium FI (only_atom "out" (-4)) G no_atoms /\ ~ stable_with qr_clingo (only_atom "out" (-4)) P_F24c no_atoms /\
    stable_with qr_clingo (only_atom "out" (-3)) P_F24c no_atoms /\ ~ equilibrium FI (only_atom "out" (-3)) G no_atoms.
Proof.
  destruct P_F24c_defined as [G HG]. exists G. split; [exact HG|].
  pose proof (fact_stable_single qr_anthem "out" t_F24c (-4) t_F24c_anthem) as Ha.
  pose proof (fact_stable_single qr_clingo "out" t_F24c (-3) t_F24c_clingo) as Hg.
  split; [|split; [|split]].
  - apply (proj2 (tau_star_stable FI P_F24c G _ no_atoms HG)). apply (proj2 (Ha _)). tauto.
  - intros Hs. apply (only_atom_neq "out" (-4) (-3)); [discriminate|]. exact (proj1 (Hg _) Hs).
  - apply Hg. tauto.
  - intros He. apply (proj1 (tau_star_stable FI P_F24c G _ no_atoms HG)) in He.
    apply (only_atom_neq "out" (-3) (-4)); [discriminate|]. exact (proj1 (Ha _) He).
Qed.

(* the witnesses are inside their classes, in both readings *)
Lemma P_F24_in_class qr : program_reaches qr neg_divisor P_F24.
Proof.
  exists (mkrule (HBasic (mkatom "out" [t_F24])) []), (fun _ => VNum 0%Z). split; [left; reflexivity|].
  left. left. right. right. split; [left; reflexivity|]. exists 7%Z, (-2)%Z.
  split; [reflexivity|]. split; [exists 0%Z, 2%Z; repeat split; reflexivity|]. unfold neg_divisor. lia.
Qed.
Lemma P_F24c_in_class qr : program_reaches qr neg_operand P_F24c.
Proof.
  exists (mkrule (HBasic (mkatom "out" [t_F24c])) []), (fun _ => VNum 0%Z). split; [left; reflexivity|].
  left. left. right. right. split; [left; reflexivity|]. exists (-7)%Z, 2%Z.
  split; [exists 0%Z, 7%Z; repeat split; reflexivity|]. split; [reflexivity|]. unfold neg_operand. lia.
Qed.
