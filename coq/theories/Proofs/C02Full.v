(* C02, composed: layer (c) "a program's translated theory means external stability" discharged for
   the REAL components (Model/ExternalFull.v):
     theory_translate = simplify (completion (replace_placeholders (tau_star P)) inputs)
   from  C04_fages (Proofs/FagesTauStar.v, FagesBridge.v)  +  the placeholder bridge
   (Proofs/PlaceholderOk.v)  +  C04_clark (restriction to the program's vocabulary)  +
   soundness of the classic portfolio (Proofs/SimplFull.v)  +  the applicability conditions
   enforced by external_validate (Proofs/ExternalOk.v).  Then C02Ok.C02_partial_proof. *)
From Coq Require Import List Ascii String ZArith NArith Bool Lia Classical_Prop.
From Anthem Require Import Base.ISet Syntax.Fol Syntax.Asp Sem.Domain Sem.Sat Sem.AspRef
  Model.Apply Model.Break Model.Problem Model.Outline Model.Strong Model.External
  Model.Tightness Model.PrivRec Model.TauStar Model.Completion Model.SimplIntuit Model.SimplClassic
  Model.StrategyCls Model.ExternalFull
  Proofs.ExtendAll Proofs.SemBase Proofs.DecomposeOk Proofs.StrongOk Proofs.ExternalOk Proofs.AssemblyOk
  Proofs.RenameOk Proofs.C19Ext Proofs.C02Ok
  Proofs.TauStarClassical Proofs.CompletionShape Proofs.CompletionOk Proofs.FagesBridge Proofs.FagesTauStar
  Proofs.PlaceholderOk Proofs.StrategyClsOk Proofs.SimplFull Proofs.MissingOutputs.
Import ListNotations.
Open Scope string_scope.
Open Scope list_scope.

(* ---------- the classic portfolio with fuel: sound whenever it is used ---------- *)
Lemma lift_total_refines rs : Forall2 refines (map lift_total rs) rs.
Proof. induction rs as [|r rs IH]; cbn; constructor; auto. intros x y [= <-]. reflexivity. Qed.
Lemma FULL_CLASSIC_opt_refines : Forall2 refines FULL_CLASSIC_opt FULL_CLASSIC_total.
Proof.
  unfold FULL_CLASSIC_opt, FULL_CLASSIC_total. rewrite app_assoc.
  apply Forall2_app; [apply lift_total_refines|apply CLASSIC_opt_refines].
Qed.
Lemma simp_classic_total_sound fuel F :
  forall FI I e, csat FI I e (simp_classic_total fuel F) <-> csat FI I e F.
Proof.
  unfold simp_classic_total, simp_classic_run.
  destruct (run_strategy_opt fuel FULL_CLASSIC_opt Fixpoint_ F) as [| |G] eqn:E; try tauto.
  apply (run_strategy_opt_refines fuel _ _ _ _ _ FULL_CLASSIC_opt_refines) in E.
  exact (proj1 (full_classic_strategies fuel Fixpoint_ F G E)).
Qed.
Lemma simp_theory_sound fuel FI M th :
  (forall f, In f (map (simp_classic_total fuel) th) -> cvalid FI M f) <-> (forall f, In f th -> cvalid FI M f).
Proof.
  split.
  - intros H f Hf e. apply (simp_classic_total_sound fuel f). apply (H _ (in_map _ _ _ Hf)).
  - intros H g Hg. apply in_map_iff in Hg. destruct Hg as [f [<- Hf]]. intros e.
    apply (simp_classic_total_sound fuel f). apply (H f Hf).
Qed.

(* ---------- restriction of an interpretation to a vocabulary ---------- *)
Definition restrict (S : list pred) (M : pint) : pint :=
  fun p d => M p d /\ In (mkpred p (List.length d)) S.

Lemma pagree_restrict S S' M : incl S' S -> pagree S' M (restrict S M).
Proof. intros Hi p a Hin. unfold restrict. split; [intros H; split; auto|intros [H _]; exact H]. Qed.

Lemma in_theory_preds (G : theory) f q : In f G -> In q (predicates f) -> In q (theory_predicates G).
Proof. intros Hf Hq. apply in_theory_predicates. eauto. Qed.

(* the models of a completion depend only on the predicates of the completed theory *)
Theorem completion_restrict G ins D FI M S :
  completion G ins = Some D -> incl (theory_predicates G) S ->
  ((forall f, In f D -> cvalid FI M f) <-> (forall f, In f D -> cvalid FI (restrict S M) f)).
Proof.
  intros HD Hi. rewrite (C04_clark_proof G ins D HD FI M), (C04_clark_proof G ins D HD FI (restrict S M)).
  assert (Hf : forall f, In f G -> forall e, csat FI M e f <-> csat FI (restrict S M) e f).
  { intros f Hf. apply csat_pagree. apply pagree_restrict. intros q Hq. apply Hi. eapply in_theory_preds; eauto. }
  assert (HF : forall p F V, defines G p F V -> forall e, csat FI M e F <-> csat FI (restrict S M) e F).
  { intros p F V [f [Hin [HDf _]]]. apply csat_pagree. apply pagree_restrict. intros q Hq. apply Hi.
    eapply in_theory_preds; eauto. eapply definition_predicates; eauto. }
  assert (Hp : forall p d, In p (theory_predicates G) -> List.length d = parity p ->
                           (M (psym p) d <-> restrict S M (psym p) d)).
  { intros p d Hin Hl. unfold restrict. rewrite Hl. destruct p as [s n]; cbn. split; [intros H; split; auto|tauto]. }
  split; intros [H1 H2]; split.
  - intros f Hin Hk e. apply Hf; auto. apply H1; auto.
  - intros p Hin Hn d Hl Hs. rewrite <- (Hp p d Hin Hl), (H2 p Hin Hn d Hl Hs).
    split; intros [F [V [Hdef [e [Ed Hc]]]]]; exists F, V; (split; [exact Hdef|]); exists e; (split; [exact Ed|]);
      apply (HF p F V Hdef e); exact Hc.
  - intros f Hin Hk e. apply Hf; auto. apply H1; auto.
  - intros p Hin Hn d Hl Hs. rewrite (Hp p d Hin Hl), (H2 p Hin Hn d Hl Hs).
    split; intros [F [V [Hdef [e [Ed Hc]]]]]; exists F, V; (split; [exact Hdef|]); exists e; (split; [exact Ed|]);
      apply (HF p F V Hdef e); exact Hc.
Qed.

(* ---------- layer (c): the meaning of a translated program ---------- *)
Definition task_inputs (t : ext_task) : list pred := ug_input_predicates (et_user_guide t).
(* the vocabulary on which a program's external behaviour is read: the predicates of the program,
   the input predicates and the output predicates of the user guide THAT OCCUR IN THE TASK (on either
   side: task_occurring_predicates).  An output predicate that does not occur in the program but on
   the other side is part of the vocabulary: an external stable model gives it the empty extent.
   (Before the audit - finding A4 - the vocabulary was program_preds P ++ inputs, so a declared
   output predicate missing from P was cut away by [restrict] and the behavioural difference "P
   never produces it" was invisible: finding F17.)
   A declared output predicate that occurs on NEITHER side is outside the vocabulary of both sides:
   no program of the task mentions it, no emitted formula mentions it (since /repo 18b2e85 it gets no
   completed definition either), and whether an interpretation refutes a problem does not depend on
   it - so an interpretation is judged on the rest.  [ext_voc_public] is the vocabulary with ALL
   public predicates; the two readings coincide on every interpretation that is empty on the unused
   output predicates ([ext_stable_public_iff] below), in particular on every external stable model
   in the public reading. *)
Definition occurring_outputs (t : ext_task) : list pred :=
  filter (fun q => memb pred_dec q (task_occurring_predicates t)) (ug_output_predicates (et_user_guide t)).
Definition ext_voc (t : ext_task) (P : program) : list pred :=
  program_preds P ++ task_inputs t ++ occurring_outputs t.
Definition ext_voc_public (t : ext_task) (P : program) : list pred :=
  program_preds P ++ ug_public_predicates (et_user_guide t).

Lemma in_occurring_outputs t q :
  In q (occurring_outputs t) <-> In q (ug_output_predicates (et_user_guide t)) /\ In q (task_occurring_predicates t).
Proof.
  unfold occurring_outputs. rewrite filter_In. destruct (memb_spec pred_dec q (task_occurring_predicates t)); intuition congruence.
Qed.
Lemma in_ext_voc t P q :
  In q (ext_voc t P) <->
  In q (program_preds P) \/ In q (task_inputs t) \/
  (In q (ug_output_predicates (et_user_guide t)) /\ In q (task_occurring_predicates t)).
Proof. unfold ext_voc. rewrite !in_app_iff, in_occurring_outputs. tauto. Qed.
Lemma in_ext_voc_public t P q :
  In q (ext_voc_public t P) <->
  In q (program_preds P) \/ In q (task_inputs t) \/ In q (ug_output_predicates (et_user_guide t)).
Proof.
  unfold ext_voc_public, ug_public_predicates, task_inputs. rewrite in_app_iff, (in_iset_extend pred_dec). tauto.
Qed.
Lemma ext_voc_incl_public t P : incl (ext_voc t P) (ext_voc_public t P).
Proof. intros q. rewrite in_ext_voc, in_ext_voc_public. tauto. Qed.
(* the predicates of either program of the task occur in the task *)
Lemma program_occurring t : incl (program_preds (et_program t)) (task_occurring_predicates t).
Proof. intros q Hq. unfold task_occurring_predicates. apply (in_iset_extend pred_dec). right. exact Hq. Qed.
Lemma spec_program_occurring t L : et_specification t = inl L -> incl (program_preds L) (task_occurring_predicates t).
Proof. intros Hs q Hq. unfold task_occurring_predicates. rewrite Hs. apply (in_iset_extend pred_dec). left. exact Hq. Qed.

(* "M is an external stable model of P": the restriction of M to P's predicates and the public
   predicates is a stable model (reference semantics) of P - its placeholders read as FI reads
   them - together with M's own input facts *)
Definition ext_stable_full (t : ext_task) (FI : fint) (M : pint) (P : program) : Prop :=
  stable (restrict (ext_voc t P) M)
         (ph_program FI (task_placeholders t) P)
         (input_facts (restrict (ext_voc t P) M) (task_inputs t)).

(* every output predicate declared in the user guide occurs in the program.  Until /repo 70e6ace
   this was a class premise of the theorems below (completion.rs completes only predicates that
   occur in the theory, so a missing output predicate got NO completed definition on that side:
   finding F17).  Since the repair `theory_translate` appends `forall X (p(X) <-> #false)` for
   every missing output predicate and the premise is gone; the predicate is kept as a description
   of the former class (Properties/C02full.v: the regression Example on t17). *)
Definition outputs_occur_in (t : ext_task) (P : program) : Prop :=
  incl (ug_output_predicates (et_user_guide t)) (program_preds P).
Definition outputs_occur_inb (t : ext_task) (P : program) : bool :=
  forallb (fun q => memb pred_dec q (program_preds P)) (ug_output_predicates (et_user_guide t)).
Lemma outputs_occur_inb_spec t P : outputs_occur_inb t P = true <-> outputs_occur_in t P.
Proof.
  unfold outputs_occur_inb, outputs_occur_in, incl. rewrite forallb_forall.
  split; intros H q Hq; specialize (H q Hq); destruct (memb_spec pred_dec q (program_preds P)); auto; discriminate.
Qed.
(* both sides of a program-vs-program task *)
Definition outputs_occur (t : ext_task) : Prop :=
  (match et_specification t return Prop with inl L => outputs_occur_in t L | inr _ => True end) /\
  outputs_occur_in t (et_program t).
Definition outputs_occurb (t : ext_task) : bool :=
  (match et_specification t with inl L => outputs_occur_inb t L | inr _ => true end) && outputs_occur_inb t (et_program t).
Lemma outputs_occurb_spec t : outputs_occurb t = true <-> outputs_occur t.
Proof.
  unfold outputs_occurb, outputs_occur. rewrite andb_true_iff, <- (outputs_occur_inb_spec t (et_program t)).
  destruct (et_specification t); [rewrite <- outputs_occur_inb_spec|]; intuition.
Qed.

(* ---------- a stable model is empty on predicates that head no rule and are not facts ---------- *)
Lemma bformula_sat_mono H T sg b : sub H T -> bformula_sat H T sg b -> bformula_sat T T sg b.
Proof.
  intros Hs. destruct b as [[[| |] a]|c]; cbn; auto.
  intros [vs [Hv Hh]]. exists vs. split; [exact Hv|apply Hs; exact Hh].
Qed.
Lemma body_sat_mono H T sg b : sub H T -> body_sat H T sg b -> body_sat T T sg b.
Proof. intros Hs Hb. unfold body_sat in *. eapply Forall_impl; [|exact Hb]. intros x. apply bformula_sat_mono, Hs. Qed.

Theorem stable_nonhead_empty (T : pint) (P : program) (F : pint) (p : string) (a : list gval) :
  stable T P F ->
  (forall r, In r P -> head_pred (rhead r) <> Some (mkpred p (List.length a))) ->
  ~ F p a -> ~ T p a.
Proof.
  intros [[HTT HF] Hmin] Hnh HnF HT.
  set (H := fun p' a' => T p' a' /\ ~ (p' = p /\ a' = a)).
  assert (Hsub : sub H T) by (intros p' a' [Hx _]; exact Hx).
  assert (Hx : H p a); [|destruct Hx as [_ Hx]; apply Hx; auto].
  apply (Hmin H Hsub); [| |exact HT].
  - intros r Hr sg. split; [|exact (proj2 (HTT r Hr sg))].
    intros Hb. apply (body_sat_mono H T sg _ Hsub) in Hb. pose proof (proj2 (HTT r Hr sg) Hb) as Hh.
    specialize (Hnh r Hr). destruct (rhead r) as [a0|a0|]; cbn in *; [| |exact Hh].
    + intros vs Hv. split; [apply Hh; exact Hv|]. intros [E1 E2]. apply Hnh. unfold atom_pred.
      rewrite E1, <- E2, (tuple_vals_length _ _ _ Hv). reflexivity.
    + intros vs Hv. destruct (Hh vs Hv) as [Hw|Hw]; [left|right; exact Hw].
      split; [exact Hw|]. intros [E1 E2]. apply Hnh. unfold atom_pred.
      rewrite E1, <- E2, (tuple_vals_length _ _ _ Hv). reflexivity.
  - intros p' a' Hf. split; [apply HF; exact Hf|]. intros [-> ->]. exact (HnF Hf).
Qed.

(* for external stable models: a public predicate that is neither an input nor the head of a rule
   of P - e.g. an output predicate that does not occur in P - is empty *)
Theorem ext_stable_nonhead_empty (t : ext_task) (FI : fint) (N : pint) (P : program) (q : pred) :
  ext_stable_full t FI N P ->
  (forall r, In r P -> head_pred (rhead r) <> Some q) -> ~ In q (task_inputs t) ->
  In q (ext_voc t P) ->
  forall d, List.length d = parity q -> ~ N (psym q) d.
Proof.
  intros Hst Hnh Hni Hv d Hd HN. destruct q as [p n]. cbn in *. subst n.
  apply (stable_nonhead_empty _ _ _ p d Hst).
  - intros r' Hr' Hh. destruct (ph_in_heads FI _ P r' _ Hr' Hh) as [r [Hr Hh']]. exact (Hnh r Hr Hh').
  - intros [_ Hin]. exact (Hni Hin).
  - split; [exact HN|exact Hv].
Qed.

Section Full.
Variable fuel : nat.
Notation translate := (theory_translate tau_star_total completion (simp_classic_total fuel)).

Lemma is_nil_inter_spec (a b : list pred) : is_nil (iset_inter pred_dec a b) = true -> forall x, In x a -> ~ In x b.
Proof.
  unfold iset_inter. intros H x Ha Hb.
  assert (Hin : In x (filter (fun x => memb pred_dec x b) a)).
  { apply filter_In. split; [exact Ha|]. destruct (memb_spec pred_dec x b); [reflexivity|contradiction]. }
  destruct (filter _ a); [destruct Hin|discriminate].
Qed.
(* the two lists of the (disjoint) public declarations *)
Definition io_disjoint (t : ext_task) : Prop :=
  forall q, In q (ug_input_predicates (et_user_guide t)) -> ~ In q (ug_output_predicates (et_user_guide t)).
Lemma c_io_disjoint_spec t : c_io_disjoint t = true -> io_disjoint t.
Proof. unfold c_io_disjoint. intros H q. apply (is_nil_inter_spec _ _ H). Qed.

(* an output predicate is missing from the completed theory iff it is missing from the program *)
Lemma output_in_completion t P G D q :
  io_disjoint t -> TauStar.tau_star P = Some G ->
  completion (rp_theory (task_placeholders t) G) (task_inputs t) = Some D ->
  In q (ug_output_predicates (et_user_guide t)) ->
  (In q (theory_predicates D) <-> In q (program_preds P)).
Proof.
  intros Hio Hts HD Hq. rewrite <- (tau_star_predicates P G q Hts), <- (rp_theory_predicates (task_placeholders t) G).
  split.
  - apply (completion_predicates_incl _ _ _ HD).
  - intros Hin. apply (completion_predicates_defined _ _ _ q HD Hin). intros Hi. exact (Hio q Hi Hq).
Qed.

Corollary output_in_completion_validated t P G D q :
  c_io_disjoint t = true -> TauStar.tau_star P = Some G ->
  completion (rp_theory (task_placeholders t) G) (task_inputs t) = Some D ->
  In q (ug_output_predicates (et_user_guide t)) ->
  (In q (theory_predicates D) <-> In q (program_preds P)).
Proof. intros H. apply output_in_completion, c_io_disjoint_spec, H. Qed.

Theorem translate_meaning_full t P G th :
  is_tight P = true ->
  (forall r h, In r P -> head_pred (rhead r) = Some h -> ~ In h (task_inputs t)) ->
  c_io_disjoint t = true ->
  TauStar.tau_star P = Some G ->
  translate t (task_placeholders t) P = Some th ->
  forall FI M, tvalid FI M th <-> ext_stable_full t FI M P.
Proof.
  intros Ht Hins Hio Hts Htr FI M. apply c_io_disjoint_spec in Hio.
  unfold theory_translate, tau_star_total in Htr. rewrite Hts in Htr.
  fold (task_inputs t) in Htr.
  destruct (completion (rp_theory (task_placeholders t) G) (task_inputs t)) as [D|] eqn:HD; [|discriminate].
  cbv zeta in Htr.
  set (outs := ug_output_predicates (et_user_guide t)) in *.
  set (occ := task_occurring_predicates t) in *.
  assert (E1 : tvalid FI M th <-> (forall f, In f (D ++ missing_output_definitions outs occ D) -> cvalid FI M f)).
  { injection Htr as <-. unfold tvalid. destruct (et_simplify t); [apply simp_theory_sound|tauto]. }
  rewrite E1. clear E1 Htr th.
  assert (E2 : (forall f, In f (D ++ missing_output_definitions outs occ D) -> cvalid FI M f) <->
               (forall f, In f D -> cvalid FI M f) /\
               (forall q, In q outs -> In q occ -> ~ In q (program_preds P) -> forall d, List.length d = parity q -> ~ M (psym q) d)).
  { pose proof (missing_outputs_valid FI M outs occ D) as Hmv.
    assert (Hq : forall q, In q outs -> (~ In q (theory_predicates D) <-> ~ In q (program_preds P))).
    { intros q Hq. rewrite (output_in_completion t P G D q Hio Hts HD Hq). tauto. }
    split.
    - intros H. split.
      + intros f Hf. apply H, in_or_app. auto.
      + intros q Hq' Hoc Hn. apply (proj1 Hmv); [|exact Hq'|exact Hoc|apply (Hq q Hq'); exact Hn].
        intros f Hf. apply H, in_or_app. auto.
    - intros [H1 H2] f Hf. apply in_app_or in Hf. destruct Hf as [Hf|Hf]; [auto|].
      revert f Hf. apply (proj2 Hmv). intros q Hq' Hoc Hn. apply H2; [exact Hq'|exact Hoc|apply (Hq q Hq'); exact Hn]. }
  rewrite E2. clear E2.
  set (m := task_placeholders t) in *. set (S := ext_voc t P).
  assert (Hincl : incl (theory_predicates (rp_theory m G)) S).
  { intros q Hq. rewrite rp_theory_predicates in Hq. apply (tau_star_predicates P G q Hts) in Hq.
    unfold S. apply in_ext_voc. left; exact Hq. }
  rewrite (completion_restrict _ _ _ FI M S HD Hincl).
  unfold ext_stable_full. fold m. fold S.
  (* the interpretation is confined to the program's predicates and the inputs as soon as it is
     empty on the missing output predicates of the vocabulary *)
  assert (Hconf : (forall q, In q outs -> In q occ -> ~ In q (program_preds P) -> forall d, List.length d = parity q -> ~ M (psym q) d) ->
                  forall p d, restrict S M p d ->
                    In (mkpred p (List.length d)) (program_preds (ph_program FI m P)) \/ In (mkpred p (List.length d)) (task_inputs t)).
  { intros He p d [HM Hin]. unfold S in Hin. apply in_ext_voc in Hin. rewrite ph_program_preds.
    destruct Hin as [Hin|[Hin|[Hin Hoc]]]; [left; exact Hin|right; exact Hin|].
    destruct (in_dec pred_dec (mkpred p (List.length d)) (program_preds P)) as [Hp|Hp]; [left; exact Hp|].
    exfalso. exact (He _ Hin Hoc Hp d eq_refl HM). }
  assert (Hfages : (forall p d, restrict S M p d ->
                      In (mkpred p (List.length d)) (program_preds (ph_program FI m P)) \/ In (mkpred p (List.length d)) (task_inputs t)) ->
                   ((forall f, In f D -> cvalid FI (restrict S M) f) <->
                    stable (restrict S M) (ph_program FI m P) (input_facts (restrict S M) (task_inputs t)))).
  { intros Hvoc.
    apply (C04_fages_partial_proof (ph_program FI m P) (rp_theory m G) (task_inputs t) D FI (restrict S M)).
    - apply rp_tau_star_represents. exact Hts.
    - rewrite ph_is_tight. exact Ht.
    - intros r' h Hr' Hh. destruct (ph_in_heads FI m P r' h Hr' Hh) as [r [Hr Hh']]. eapply Hins; eauto.
    - exact HD.
    - exact Hvoc. }
  split.
  - intros [HDv He]. apply (Hfages (Hconf He)). exact HDv.
  - intros Hst.
    assert (He : forall q, In q outs -> In q occ -> ~ In q (program_preds P) -> forall d, List.length d = parity q -> ~ M (psym q) d).
    { intros q Hq Hoc Hn. apply (ext_stable_nonhead_empty t FI M P q Hst).
      - intros r Hr Hh. apply Hn. apply in_program_preds. exists r. split; [exact Hr|]. apply in_rule_preds. left. exact Hh.
      - intros Hi. exact (Hio q Hi Hq).
      - apply in_ext_voc. right. right. split; [exact Hq|exact Hoc]. }
    split; [|exact He]. apply (Hfages (Hconf He)). exact Hst.
Qed.

(* ---------- what an accepted task guarantees ---------- *)
Lemma in_program_head_preds P : forall r h, In r P -> head_pred (rhead r) = Some h -> In h (program_head_preds P).
Proof.
  unfold program_head_preds.
  assert (G : forall l acc h, (In h acc \/ exists r, In r l /\ head_pred (rhead r) = Some h) ->
              In h (fold_left (fun acc r => match head_pred (rhead r) with Some q => iset_insert pred_dec acc q | None => acc end) l acc)).
  { induction l as [|r l IH]; intros acc h; cbn [fold_left].
    - intros [H|[r [[] _]]]; exact H.
    - intros [H|[r' [[<-|Hr'] Hh]]]; apply IH.
      + left. destruct (head_pred (rhead r)); [apply in_iset_insert; auto|exact H].
      + left. rewrite Hh. apply in_iset_insert. auto.
      + right. eauto. }
  intros r h Hr Hh. apply G. right. eauto.
Qed.
Lemma no_input_in_head t P :
  is_nil (iset_inter pred_dec (ug_input_predicates (et_user_guide t)) (head_predicates_fol P)) = true ->
  forall r h, In r P -> head_pred (rhead r) = Some h -> ~ In h (task_inputs t).
Proof.
  intros H r h Hr Hh Hin. apply (is_nil_inter_spec _ _ H h Hin). eapply in_program_head_preds; eauto.
Qed.

Lemma translate_status_done t m P : translate_status fuel t m P = TDone -> exists G, TauStar.tau_star P = Some G.
Proof. unfold translate_status. destruct (TauStar.tau_star P) as [G|]; [eauto|discriminate]. Qed.

(* an accepted program-vs-program task, computed by the full model *)
Lemma full_ok_inv t w pbs : external_decompose_full fuel t = XOk w pbs ->
  (exists w0, external_validate_full t = Ok w0) /\
  external_decompose_total fuel t = Ok (w, pbs) /\
  (exists G, TauStar.tau_star (et_program t) = Some G) /\
  (forall L, et_specification t = inl L -> exists G, TauStar.tau_star L = Some G).
Proof.
  unfold external_decompose_full. destruct (external_validate_full t) as [w0|e|] eqn:Ev; try discriminate.
  destruct (et_specification t) as [L|s] eqn:Es.
  - destruct (translate_status fuel t _ L) eqn:El; try discriminate.
    destruct (translate_status fuel t _ (et_program t)) eqn:Er; try discriminate.
    intros H. split; [eauto|]. split.
    + destruct (external_decompose_total fuel t) as [[w' pbs']|e|]; cbn in H; try discriminate. congruence.
    + split; [eapply translate_status_done; eauto|]. intros L' [= <-]. eapply translate_status_done; eauto.
  - destruct (translate_status fuel t _ (et_program t)) eqn:Er; try discriminate.
    intros H. split; [eauto|]. split.
    + destruct (external_decompose_total fuel t) as [[w' pbs']|e|]; cbn in H; try discriminate. congruence.
    + split; [eapply translate_status_done; eauto|]. intros L' [=].
Qed.

Notation tl := (task_left tau_star_total completion (simp_classic_total fuel)).
Notation tr := (task_right tau_star_total completion (simp_classic_total fuel)).

(* C02 for program-vs-program tasks without proof outline, all components real.
   Remaining hypotheses: no rename / identifier clash (F9 class), and the interpretation is taken
   to satisfy the completed definitions of the private predicates of both sides (layer (d),
   uniqueness of the private extension, is what removes this). *)
Theorem C02_full_proof t L w pbs lft rgt :
  et_specification t = inl L -> et_proof_outline t = [] ->
  external_decompose_full fuel t = XOk w pbs ->
  is_tight L = true -> is_tight (et_program t) = true ->
  tl t L = Some lft -> tr t = Some rgt ->
  (forall vt, task_validated tau_star_total completion (simp_classic_total fuel) t = Some vt -> validated_no_clash vt) ->
  forall FI M,
    tvalid FI M (map (fun a => rp_formula (task_placeholders t) (an_formula a)) (filter is_assumption (ug_formulas (et_user_guide t)))) ->
    tvalid FI M (assumptions_of lft) -> tvalid FI M (assumptions_of rgt) ->
    (refutes_some FI M pbs <->
     (dir_forward (et_direction t) = true /\
      ext_stable_full t FI M L /\ ~ ext_stable_full t FI (reindex (task_mapping t) M) (et_program t)) \/
     (dir_backward (et_direction t) = true /\
      ext_stable_full t FI (reindex (task_mapping t) M) (et_program t) /\ ~ ext_stable_full t FI M L)).
Proof.
  intros Hs Ho Hfull HtL HtR El Er Hn FI M Hug Hal Har.
  destruct (full_ok_inv t w pbs Hfull) as [[w0 Hv] [Hd [[GR HGR] HGL]]].
  destruct (HGL L Hs) as [GL HGL'].
  destruct (validate_conditions _ _ t w0 Hv) as [_ [_ [Hhead [Hio _]]]].
  unfold c_no_input_in_head in Hhead. rewrite Hs in Hhead. apply andb_true_iff in Hhead. destruct Hhead as [HhR HhL].
  (* C02_partial with ext_stable := validity of the translated theory, then layer (c) on both sides *)
  set (es := fun (t : ext_task) (FI : fint) (M : pint) (P : program) =>
               match translate t (task_placeholders t) P with Some th => tvalid FI M th | None => True end).
  assert (Hmean : forall t P th FI M, translate t (task_placeholders t) P = Some th -> (tvalid FI M th <-> es t FI M P)).
  { intros t0 P th FI0 M0 E. unfold es. rewrite E. tauto. }
  pose proof (C02_partial_proof is_tight has_private_recursion tau_star_total completion (simp_classic_total fuel)
                es Hmean t L w pbs lft rgt Hs Ho Hd El Er Hn FI M Hug Hal Har) as Hp.
  rewrite Hp. clear Hp.
  unfold task_left in El. destruct (translate t (task_placeholders t) L) as [thl|] eqn:Etl; [|discriminate].
  unfold task_right in Er. destruct (translate t (task_placeholders t) (et_program t)) as [thr|] eqn:Etr; [|discriminate].
  assert (EL : forall M0, es t FI M0 L <-> ext_stable_full t FI M0 L).
  { intros M0. unfold es. rewrite Etl. apply (translate_meaning_full t L GL thl HtL (no_input_in_head t L HhL) Hio HGL' Etl). }
  assert (ER : forall M0, es t FI M0 (et_program t) <-> ext_stable_full t FI M0 (et_program t)).
  { intros M0. unfold es. rewrite Etr.
    apply (translate_meaning_full t (et_program t) GR thr HtR (no_input_in_head t _ HhR) Hio HGR Etr). }
  rewrite !EL, !ER. reflexivity.
Qed.

(* tightness follows from acceptance when --bypass-tightness is off *)
Lemma accepted_tight t w pbs L : external_decompose_full fuel t = XOk w pbs ->
  et_bypass_tightness t = false -> et_specification t = inl L ->
  is_tight L = true /\ is_tight (et_program t) = true.
Proof.
  intros Hfull Hb Hs. destruct (full_ok_inv t w pbs Hfull) as [[w0 Hv] _].
  destruct (validate_conditions _ _ t w0 Hv) as [Hc _]. unfold c_tight in Hc. rewrite Hb, Hs in Hc. cbn in Hc.
  apply andb_true_iff in Hc. tauto.
Qed.
End Full.
