(* C14 for the stand-alone entry points (Model/AspNodes.v): token-level round trip of every node
   kind (no side condition), and its lift to text with the lexical step as a hypothesis. *)
From Coq Require Import List Ascii String ZArith Bool Lia.
From Anthem Require Import Syntax.Asp Model.AspTableTypes Model.AspPrint Model.AspParse Model.AspNodes
  Proofs.AspRoundTrip.
Import ListNotations.
Open Scope list_scope.

(* what may follow a body formula: nothing, a comma, the final dot *)
Definition bfollow_end (ts : list token) : Prop :=
  match ts with [] | TkComma :: _ | TkDot :: _ => True | _ => False end.

Lemma parse_print_bformula_end f rest : bfollow_end rest ->
  parse_bformula (print_bformula f ++ rest) = POk (f, rest).
Proof.
  intros BF.
  assert (NB : nobin rest) by (destruct rest as [|[] rest]; cbn in *; tauto).
  assert (NL : nolp rest) by (destruct rest as [|[] rest]; cbn in *; tauto).
  destruct f as [l|c]; unfold parse_bformula; cbn [print_bformula].
  - assert (E : parse_comparison (print_literal l ++ rest) = PFail).
    { destruct l as [s [p args]]. unfold print_literal, print_atom. cbn [lsign latom apred aterms].
      destruct s; try reflexivity.
      cbn [print_sign app]. unfold parse_comparison.
      rewrite parse_term_sym by (destruct args; [exact NB|exact I]).
      cbn [pbind]. destruct args; [|reflexivity].
      cbn [app]. destruct rest as [|[] rest]; cbn in BF; try contradiction; reflexivity. }
    rewrite E. rewrite parse_print_literal by exact NL. reflexivity.
  - rewrite parse_print_comparison by exact NB. reflexivity.
Qed.

Definition body_end (rest : list token) : Prop :=
  match rest with [] | TkDot :: _ => True | _ => False end.

Lemma bfollow_more_end fs rest : body_end rest -> bfollow_end (print_more_bformulas fs ++ rest).
Proof. destruct fs; [|intros _; exact I]. cbn. destruct rest as [|[] rest]; cbn; tauto. Qed.

Lemma parse_more_bformulas_end fs : forall rest n, body_end rest ->
  List.length (print_more_bformulas fs ++ rest) <= n ->
  parse_more_bformulas n (print_more_bformulas fs ++ rest) = POk (fs, rest).
Proof.
  induction fs as [|g fs IH]; intros rest n BE L.
  - cbn [print_more_bformulas flat_map app]. destruct n; [reflexivity|].
    cbn [parse_more_bformulas]. destruct rest as [|[] rest]; cbn in BE; try contradiction; reflexivity.
  - cbn [print_more_bformulas flat_map app] in *. fold (print_more_bformulas fs) in *.
    rewrite <- app_assoc in *. destruct n as [|n']; [cbn in L; lia|].
    cbn [parse_more_bformulas]. rewrite parse_print_bformula_end by (apply bfollow_more_end, BE).
    rewrite IH; [reflexivity|exact BE|]. cbn in L. rewrite app_length in L. lia.
Qed.

Lemma parse_print_body_end b rest : body_end rest -> parse_body (print_body b ++ rest) = POk (b, rest).
Proof.
  intros BE. destruct b as [|f fs].
  - cbn [print_body app]. unfold parse_body.
    destruct rest as [|[] rest]; cbn in BE; try contradiction; reflexivity.
  - rewrite print_body_cons, <- app_assoc. unfold parse_body.
    rewrite parse_print_bformula_end by (apply bfollow_more_end, BE).
    rewrite parse_more_bformulas_end by (try exact BE; lia). reflexivity.
Qed.

Lemma parse_print_head_end h : parse_head (print_head h) = POk (h, []).
Proof.
  destruct h as [a|a|]; unfold parse_head; cbn [print_head].
  - rewrite <- (app_nil_r (print_atom a)). rewrite parse_print_atom by exact I. reflexivity.
  - cbn [app parse_atom]. rewrite parse_print_atom by exact I. reflexivity.
  - reflexivity.
Qed.

Definition kind_of (n : node) : node_kind :=
  match n with
  | NTerm _ => KTerm | NAtom _ => KAtom | NLiteral _ => KLiteral | NComparison _ => KComparison
  | NAtomicFormula _ => KAtomicFormula | NHead _ => KHead | NBody _ => KBody | NRule _ => KRule
  end.

(* token level: every node, no side condition *)
Theorem node_roundtrip_tokens n : parse_node_toks (kind_of n) false (print_node n) = POk (n, []).
Proof.
  destruct n as [t|a|l|c|b|h|b|r]; cbn [kind_of parse_node_toks print_node].
  - unfold term_toks. rewrite <- (app_nil_r (print_term t)). rewrite parse_print_term by exact I. reflexivity.
  - unfold atom_toks. rewrite <- (app_nil_r (print_atom a)). rewrite parse_print_atom by exact I. reflexivity.
  - unfold literal_toks. rewrite <- (app_nil_r (print_literal l)). rewrite parse_print_literal by exact I. reflexivity.
  - unfold comparison_toks. rewrite <- (app_nil_r (print_comparison c)).
    rewrite parse_print_comparison by exact I. reflexivity.
  - unfold bformula_toks, comparison_toks, literal_toks.
    pose proof (parse_print_bformula_end b [] I) as H. rewrite app_nil_r in H.
    unfold parse_bformula in H.
    destruct (parse_comparison (print_bformula b)) as [[c r]| |]; [| |discriminate].
    + injection H as <- <-. reflexivity.
    + cbn [pbind] in *. destruct (parse_literal (print_bformula b)) as [[l r]| |]; try discriminate.
      cbn [pbind] in *. injection H as <- <-. reflexivity.
  - unfold head_toks. rewrite parse_print_head_end. reflexivity.
  - unfold body_toks, bformula_toks, comparison_toks, literal_toks.
    pose proof (parse_print_body_end b [] I) as H. rewrite app_nil_r in H. unfold parse_body, parse_bformula in H.
    destruct (parse_comparison (print_body b)) as [[c r]| |]; [| |discriminate].
    + cbn [pbind] in *. destruct (parse_more_bformulas (List.length r) r) as [[l r']| |]; try discriminate.
      cbn [pbind] in *. injection H as <- <-. reflexivity.
    + cbn [pbind] in *. destruct (parse_literal (print_body b)) as [[l r]| |]; try discriminate.
      * cbn [pbind] in *. destruct (parse_more_bformulas (List.length r) r) as [[l' r']| |]; try discriminate.
        cbn [pbind] in *. injection H as <- <-. reflexivity.
      * cbn [pbind] in *. injection H as <- <-. reflexivity.
  - rewrite <- (app_nil_r (print_rule r)). rewrite parse_print_rule. reflexivity.
Qed.

(* a rule is parsed the same way whatever the guard flag says (its text never begins with ".") *)
Lemma rule_roundtrip_tokens_any r g : parse_node_toks KRule g (print_rule r) = POk (NRule r, []).
Proof.
  cbn [parse_node_toks]. rewrite <- (app_nil_r (print_rule r)). rewrite parse_print_rule. reflexivity.
Qed.

(* text level, lexical step as hypothesis: if the printed text lexes back to the printed tokens (this fails
   exactly for the classes F7 / F7d, see Properties/C14nodes.v) and does not begin with layout, the entry
   point reads the node back *)
Theorem node_roundtrip_text_partial n :
  lex_node (display_node n) = Some (print_node n) ->
  (leading_skip (display_node n) = false \/ kind_of n = KRule) ->
  node_numerals_ok n = true ->
  parse_node_text (kind_of n) (display_node n) = POk n.
Proof.
  intros HL HS HN. unfold parse_node_text. rewrite HL.
  destruct HS as [HS|HK].
  - rewrite HS, node_roundtrip_tokens, HN. reflexivity.
  - destruct n; try discriminate. cbn [kind_of print_node]. rewrite rule_roundtrip_tokens_any.
    cbn [kind_of] in HN. rewrite HN. reflexivity.
Qed.
