(* C15, character level: the lexer of Model/FolLex.v reads the bytes written by the printers of
   Model/FolPrint.v back as the printed tokens (layout dropped):

     lex_render_theory : wf_theory t = true -> lex (render (print_theory true t)) = Some (strip (print_theory true t))

   and the same for specifications and user guides.  No exclusion is needed at this level: the known
   classes F7b and C15-RIMP are phenomena of the token-level parser (keyword literals split off word
   tokens, "<-" read as "<" "-"), not of the cut into lexical atoms.

   The statement is about the MODEL lexer; that lexer is tied to pest's behaviour on grammar.pest by
   correspondence only (the fol_parse and fol_roundtrip ops).

   Structure: character-class facts (by enumeration of the 256 characters), decimal numerals, one
   unfolding lemma per first-character class of [lex_go], one lemma per token kind ("lexing the spelling
   of token k followed by a rest that starts with a safe character yields k and continues on the rest"),
   the invariant [lexable] on adjacent printed tokens, and the proof that the printers' output satisfies
   it (continuation-passing induction; this is where the parenthesised positive numeral after unary
   minus, `-(5)`, is needed: the generated table gives Numeral(1..) a precedence above unary minus). *)
From Coq Require Import List Ascii String ZArith NArith Bool Arith Lia DecimalString DecimalN DecimalFacts.
From Anthem Require Import Base.Fresh Syntax.Fol Gen.TablesFol Model.FolPrint Model.FolLex Model.FolParse Model.FolClass.
Import ListNotations.
Open Scope char_scope.
Open Scope list_scope.

(* ================================================================ A. character classes *)

(* characters that may directly follow a word, a sort suffix or a numeral in printed text *)
Definition sep_char (c : ascii) : bool :=
  is_space c || existsb (Ascii.eqb c) ["("; ")"; "["; "]"; ","; "."; ":"; "/"].
Definition sep_next (l : list ascii) : bool := match l with [] => true | c :: _ => sep_char c end.
(* what may follow a "-" that is to be read as the token TMinus *)
Definition minus_next (l : list ascii) : bool :=
  match l with [] => true | c :: _ => negb (is_nzdigit c) && negb (Ascii.eqb c ">") end.
(* what may follow a maximal word: no word character and no "-" (the literal "inductive-lemma") *)
Definition wend (l : list ascii) : bool :=
  match l with [] => true | c :: _ => negb (is_wordchar c) && negb (Ascii.eqb "-" c) end.

Lemma wordstart_facts c : is_wordstart c = true ->
  is_space c = false /\ Ascii.eqb c "%" = false /\ is_wordchar c = true /\ is_nzdigit c = false /\ Ascii.eqb c ">" = false.
Proof. destruct c as [[] [] [] [] [] [] [] []]; vm_compute; intros; try discriminate; repeat split. Qed.

Lemma nzdigit_facts c : is_nzdigit c = true ->
  is_space c = false /\ Ascii.eqb c "%" = false /\ is_wordstart c = false /\ Ascii.eqb c "0" = false /\ is_digit c = true.
Proof. destruct c as [[] [] [] [] [] [] [] []]; vm_compute; intros; try discriminate; repeat split. Qed.

Lemma sep_next_minus l : sep_next l = true -> minus_next l = true.
Proof. destruct l as [|c l]; [reflexivity|]. destruct c as [[] [] [] [] [] [] [] []]; vm_compute; intros; try discriminate; reflexivity. Qed.
Lemma sep_next_wend l : sep_next l = true -> wend l = true.
Proof. destruct l as [|c l]; [reflexivity|]. destruct c as [[] [] [] [] [] [] [] []]; vm_compute; intros; try discriminate; reflexivity. Qed.
Lemma sep_next_nodigit l : sep_next l = true -> match l with c :: _ => is_digit c = false | [] => True end.
Proof. destruct l as [|c l]; [exact (fun _ => I)|]. destruct c as [[] [] [] [] [] [] [] []]; vm_compute; intros; try discriminate; reflexivity. Qed.
Lemma wend_nowordchar l : wend l = true -> match l with c :: _ => is_wordchar c = false | [] => True end.
Proof.
  destruct l as [|c l]; [exact (fun _ => I)|]. cbn [wend]. intros H. apply andb_true_iff in H. destruct H as [H _].
  apply negb_true_iff in H. exact H.
Qed.
Lemma wend_dollar l : wend ("$" :: l) = true.
Proof. reflexivity. Qed.

(* ================================================================ B. lists of characters *)

Lemma chars_app (a b : string) : chars (a ++ b)%string = chars a ++ chars b.
Proof. induction a as [|c a IH]; cbn; [reflexivity|]. unfold chars in IH. rewrite IH. reflexivity. Qed.
Lemma unchars_chars s : unchars (chars s) = s.
Proof. apply string_of_list_ascii_of_string. Qed.

Lemma span_app p a l : forallb p a = true -> match l with c :: _ => p c = false | [] => True end ->
  span p (a ++ l) = (a, l).
Proof.
  induction a as [|c a IH]; cbn [app span forallb]; intros HA HL.
  - destruct l as [|c l]; [reflexivity|]. cbn [span]. rewrite HL. reflexivity.
  - apply andb_true_iff in HA. destruct HA as [Hc HA]. rewrite Hc, IH by assumption. reflexivity.
Qed.

Definition rchars (ts : list token) : list ascii := chars (render ts).

Lemma sappend_nil_r (s : string) : (s ++ "")%string = s.
Proof. induction s as [|c s IH]; cbn; [reflexivity|rewrite IH; reflexivity]. Qed.
Lemma render_cons t ts : render (t :: ts) = (tok_str t ++ render ts)%string.
Proof.
  unfold render. cbn [map]. destruct (map tok_str ts) as [|s l] eqn:E.
  - cbn. rewrite sappend_nil_r. reflexivity.
  - cbn [String.concat]. reflexivity.
Qed.
Lemma rchars_cons t ts : rchars (t :: ts) = chars (tok_str t) ++ rchars ts.
Proof. unfold rchars. rewrite render_cons. apply chars_app. Qed.
Lemma rchars_nil : rchars [] = [].
Proof. reflexivity. Qed.
Lemma rchars_app a b : rchars (a ++ b) = rchars a ++ rchars b.
Proof. induction a as [|t a IH]; [reflexivity|]. cbn [app]. rewrite !rchars_cons, IH, app_assoc. reflexivity. Qed.

(* ================================================================ C. decimal numerals *)

Definition dstep (acc : N) (c : ascii) : N := (10 * acc + N.of_nat (code c - 48))%N.
Fixpoint uint_val (acc : N) (d : Decimal.uint) : N :=
  match d with
  | Decimal.Nil => acc
  | Decimal.D0 l => uint_val (dstep acc "0") l
  | Decimal.D1 l => uint_val (dstep acc "1") l
  | Decimal.D2 l => uint_val (dstep acc "2") l
  | Decimal.D3 l => uint_val (dstep acc "3") l
  | Decimal.D4 l => uint_val (dstep acc "4") l
  | Decimal.D5 l => uint_val (dstep acc "5") l
  | Decimal.D6 l => uint_val (dstep acc "6") l
  | Decimal.D7 l => uint_val (dstep acc "7") l
  | Decimal.D8 l => uint_val (dstep acc "8") l
  | Decimal.D9 l => uint_val (dstep acc "9") l
  end.

Lemma fold_uint d : forall acc, fold_left dstep (chars (NilEmpty.string_of_uint d)) acc = uint_val acc d.
Proof.
  induction d; intros acc; cbn [NilEmpty.string_of_uint chars list_ascii_of_string fold_left uint_val];
    [reflexivity|..]; apply IHd.
Qed.
Lemma uint_val_pos d : forall p, uint_val (Npos p) d = Npos (Pos.of_uint_acc d p).
Proof.
  induction d; intros p; cbn [uint_val Pos.of_uint_acc]; [reflexivity|..];
    match goal with |- uint_val (dstep _ ?c) _ = _ =>
      let k := eval vm_compute in (N.of_nat (code c - 48)) in
      replace (dstep (Npos p) c) with (10 * Npos p + k)%N by reflexivity end;
    rewrite <- IHd; f_equal; lia.
Qed.
Lemma uint_val_zero d : uint_val 0 d = Pos.of_uint d.
Proof.
  induction d; cbn [uint_val Pos.of_uint]; [reflexivity|exact IHd|..];
    match goal with |- uint_val ?x _ = _ => let y := eval vm_compute in x in change x with y end;
    apply uint_val_pos.
Qed.
Lemma digits_val_nat_str n : digits_val (chars (nat_str n)) = n.
Proof.
  unfold digits_val, nat_str. change (fun acc c => (10 * acc + N.of_nat (code c - 48))%N) with dstep.
  rewrite fold_uint, uint_val_zero. change (Pos.of_uint (N.to_uint n)) with (N.of_uint (N.to_uint n)).
  apply DecimalN.Unsigned.of_to.
Qed.
Lemma uint_digits d : forallb is_digit (chars (NilEmpty.string_of_uint d)) = true.
Proof. induction d; cbn [NilEmpty.string_of_uint chars list_ascii_of_string forallb]; [reflexivity|..]; exact IHd. Qed.
Lemma nat_str_digits n : forallb is_digit (chars (nat_str n)) = true.
Proof. apply uint_digits. Qed.

Lemma nzhead_not_D0 d d' : Decimal.nzhead d <> Decimal.D0 d'.
Proof. induction d; cbn; try discriminate. exact IHd. Qed.
Lemma nat_str_pos n : (0 < n)%N -> exists c r, chars (nat_str n) = c :: r /\ is_nzdigit c = true.
Proof.
  intros Hn. unfold nat_str.
  assert (E : N.to_uint n = Decimal.unorm (N.to_uint n)).
  { rewrite <- (Unsigned.to_of (N.to_uint n)). rewrite Unsigned.of_to. reflexivity. }
  remember (N.to_uint n) as d eqn:Hd.
  unfold Decimal.unorm in E.
  destruct (Decimal.nzhead d) as [|h|h|h|h|h|h|h|h|h|h] eqn:Z.
  - exfalso. assert (N.of_uint d = 0%N) by (rewrite E; reflexivity).
    rewrite Hd, Unsigned.of_to in H. lia.
  - exfalso. exact (nzhead_not_D0 d h Z).
  - rewrite E. cbn. eexists _, _. split; reflexivity.
  - rewrite E. cbn. eexists _, _. split; reflexivity.
  - rewrite E. cbn. eexists _, _. split; reflexivity.
  - rewrite E. cbn. eexists _, _. split; reflexivity.
  - rewrite E. cbn. eexists _, _. split; reflexivity.
  - rewrite E. cbn. eexists _, _. split; reflexivity.
  - rewrite E. cbn. eexists _, _. split; reflexivity.
  - rewrite E. cbn. eexists _, _. split; reflexivity.
  - rewrite E. cbn. eexists _, _. split; reflexivity.
Qed.

(* ================================================================ D. names *)

Lemma word_class_start c w : word_class (c :: w) <> WBad -> is_wordstart c = true.
Proof.
  unfold word_class, is_wordstart. destruct (is_lower c); [reflexivity|]. destruct (is_upper c); [reflexivity|].
  destruct (Ascii.eqb c "_"); [reflexivity|]. intros H. exfalso. apply H. reflexivity.
Qed.
Lemma symbol_name_spec s : is_symbol_name s = true ->
  forallb is_wordchar (chars s) = true /\ word_class (chars s) = WLower.
Proof.
  unfold is_symbol_name, all_wordchars. intros H. apply andb_true_iff in H. destruct H as [H1 H2].
  split; [exact H1|]. destruct (word_class (chars s)); try discriminate; reflexivity.
Qed.
Lemma variable_name_spec s : is_variable_name s = true ->
  forallb is_wordchar (chars s) = true /\ word_class (chars s) = WUpper.
Proof.
  unfold is_variable_name, all_wordchars. intros H. apply andb_true_iff in H. destruct H as [H1 H2].
  split; [exact H1|]. destruct (word_class (chars s)); try discriminate; reflexivity.
Qed.
Lemma word_class_nonempty w : word_class w <> WBad -> exists c r, w = c :: r /\ is_wordstart c = true.
Proof.
  destruct w as [|c r]; [intros H; exfalso; apply H; reflexivity|]. intros H. exists c, r. split; [reflexivity|].
  exact (word_class_start c r H).
Qed.

(* ================================================================ E. the lexer, by first character *)

Lemma lex_go_space f c r : is_space c = true -> lex_go (S f) (c :: r) = lex_go f r.
Proof. intros H. cbn [lex_go]. rewrite H. reflexivity. Qed.

Lemma lex_go_wordstart f c r : is_wordstart c = true ->
  lex_go (S f) (c :: r) =
  let '(w, r1) := span is_wordchar (c :: r) in
  match (if String.eqb (unchars w) "inductive" then strip_prefix (chars "-lemma") r1 else None) with
  | Some r2 =>
      match r2 with
      | d :: _ => if is_wordchar d || Ascii.eqb d "$" then
                    let '(suf, r3) := lex_suffix r1 in cons_tok (word_tok w suf) (lex_go f r3)
                  else cons_tok TIndLemma (lex_go f r2)
      | [] => cons_tok TIndLemma (lex_go f r2)
      end
  | None => let '(suf, r3) := lex_suffix r1 in cons_tok (word_tok w suf) (lex_go f r3)
  end.
Proof.
  intros H. destruct (wordstart_facts c H) as (Hs & Hp & _). cbn [lex_go]. rewrite Hs, Hp, H. reflexivity.
Qed.

Lemma lex_go_nzdigit f c r : is_nzdigit c = true ->
  lex_go (S f) (c :: r) =
  let '(ds, r1) := span is_digit (c :: r) in cons_tok (TNum (digits_val ds)) (lex_go f r1).
Proof.
  intros H. destruct (nzdigit_facts c H) as (Hs & Hp & Hw & H0 & Hd). cbn [lex_go]. rewrite Hs, Hp, Hw, H0, Hd. reflexivity.
Qed.

Lemma lex_go_minus_nzdigit f c r : is_nzdigit c = true ->
  lex_go (S f) ("-" :: c :: r) =
  let '(ds, r1) := span is_digit (c :: r) in cons_tok (TNegNum (digits_val ds)) (lex_go f r1).
Proof. destruct c as [[] [] [] [] [] [] [] []]; intros H; try discriminate H; reflexivity. Qed.

Lemma lex_go_minus f l : minus_next l = true -> lex_go (S f) ("-" :: l) = cons_tok TMinus (lex_go f l).
Proof.
  destruct l as [|c l]; [reflexivity|].
  destruct c as [[] [] [] [] [] [] [] []]; intros H; try discriminate H; reflexivity.
Qed.

Lemma strip_lemma_none l : wend l = true -> strip_prefix (chars "-lemma") l = None.
Proof.
  destruct l as [|c l]; [reflexivity|]. cbn [wend]. intros H. apply andb_true_iff in H. destruct H as [_ H].
  apply negb_true_iff in H. cbn [chars list_ascii_of_string strip_prefix]. rewrite H. reflexivity.
Qed.

(* a maximal word followed by its (possibly empty) suffix *)
Lemma lex_word f w r1 : forallb is_wordchar w = true -> word_class w <> WBad -> wend r1 = true ->
  lex_go (S f) (w ++ r1) = let '(suf, r3) := lex_suffix r1 in cons_tok (word_tok w suf) (lex_go f r3).
Proof.
  intros HA HC HE. destruct (word_class_nonempty w HC) as (c & w' & -> & Hc).
  cbn [app]. rewrite lex_go_wordstart by exact Hc.
  change (c :: w' ++ r1) with ((c :: w') ++ r1).
  rewrite (span_app is_wordchar (c :: w') r1 HA (wend_nowordchar r1 HE)).
  cbv beta iota. rewrite (strip_lemma_none r1 HE).
  destruct (String.eqb (unchars (c :: w')) "inductive"); reflexivity.
Qed.

Lemma lex_suffix_none l : sep_next l = true -> lex_suffix l = (SufNone, l).
Proof.
  destruct l as [|c l]; [reflexivity|].
  destruct c as [[] [] [] [] [] [] [] []]; intros H; try discriminate H; reflexivity.
Qed.
Lemma lex_suffix_sort s l : sep_next l = true ->
  lex_suffix ("$" :: chars (sort_letter s) ++ l) = (SufSort s, l).
Proof.
  destruct l as [|c l]; [destruct s; reflexivity|].
  destruct c as [[] [] [] [] [] [] [] []]; intros H; try discriminate H; destruct s; reflexivity.
Qed.

(* ================================================================ F. one lemma per token kind *)

(* what the lexer needs to know about a token and the characters after it *)
Definition tok_ok (t : token) (l : list ascii) : bool :=
  match t with
  | TWord s => is_symbol_name s && sep_next l
  | TIndLemma => sep_next l
  | TFun c _ => is_symbol_name c && sep_next l
  | TVar x _ => is_variable_name x && sep_next l
  | TNum _ => sep_next l
  | TNegNum n => (0 <? n)%N && sep_next l
  | TMinus => minus_next l
  | TRel _ | TRimp => sep_next l
  | TFunBare _ | TRimpNeg _ | TBad => false
  | _ => true
  end.

Definition emit (t : token) (r : option (list token)) : option (list token) :=
  if is_layout t then r else cons_tok t r.

Lemma lex_TWord f s l : is_symbol_name s = true -> sep_next l = true ->
  lex_go (S f) (chars s ++ l) = cons_tok (TWord s) (lex_go f l).
Proof.
  intros W HS. destruct (symbol_name_spec s W) as [HA HC].
  rewrite lex_word; [|exact HA|rewrite HC; discriminate|apply sep_next_wend; exact HS].
  rewrite lex_suffix_none by exact HS. unfold word_tok. rewrite HC, unchars_chars. reflexivity.
Qed.
Lemma lex_TFun f c s l : is_symbol_name c = true -> sep_next l = true ->
  lex_go (S f) (chars c ++ "$" :: chars (sort_letter s) ++ l) = cons_tok (TFun c s) (lex_go f l).
Proof.
  intros W HS. destruct (symbol_name_spec c W) as [HA HC].
  rewrite lex_word; [|exact HA|rewrite HC; discriminate|apply wend_dollar].
  rewrite lex_suffix_sort by exact HS. unfold word_tok. rewrite HC, unchars_chars. reflexivity.
Qed.
Lemma lex_TVar_general f x l : is_variable_name x = true -> sep_next l = true ->
  lex_go (S f) (chars x ++ l) = cons_tok (TVar x SGeneral) (lex_go f l).
Proof.
  intros W HS. destruct (variable_name_spec x W) as [HA HC].
  rewrite lex_word; [|exact HA|rewrite HC; discriminate|apply sep_next_wend; exact HS].
  rewrite lex_suffix_none by exact HS. unfold word_tok. rewrite HC, unchars_chars. reflexivity.
Qed.
Lemma lex_TVar_sorted f x s l : is_variable_name x = true -> sep_next l = true ->
  lex_go (S f) (chars x ++ "$" :: chars (sort_letter s) ++ l) = cons_tok (TVar x s) (lex_go f l).
Proof.
  intros W HS. destruct (variable_name_spec x W) as [HA HC].
  rewrite lex_word; [|exact HA|rewrite HC; discriminate|apply wend_dollar].
  rewrite lex_suffix_sort by exact HS. unfold word_tok. rewrite HC, unchars_chars. reflexivity.
Qed.
Lemma lex_TNum f n l : sep_next l = true ->
  lex_go (S f) (chars (nat_str n) ++ l) = cons_tok (TNum n) (lex_go f l).
Proof.
  intros HS. destruct (N.eq_dec n 0) as [->|Hn].
  - reflexivity.
  - destruct (nat_str_pos n) as (c & r & E & Hc); [lia|].
    rewrite E. cbn [app]. rewrite lex_go_nzdigit by exact Hc.
    change (c :: r ++ l) with ((c :: r) ++ l). rewrite <- E.
    rewrite (span_app is_digit _ l (nat_str_digits n) (sep_next_nodigit l HS)).
    cbv beta iota. rewrite digits_val_nat_str. reflexivity.
Qed.
Lemma lex_TNegNum f n l : (0 < n)%N -> sep_next l = true ->
  lex_go (S f) ("-" :: chars (nat_str n) ++ l) = cons_tok (TNegNum n) (lex_go f l).
Proof.
  intros Hn HS. destruct (nat_str_pos n Hn) as (c & r & E & Hc).
  rewrite E. cbn [app]. rewrite lex_go_minus_nzdigit by exact Hc.
  change (c :: r ++ l) with ((c :: r) ++ l). rewrite <- E.
  rewrite (span_app is_digit _ l (nat_str_digits n) (sep_next_nodigit l HS)).
  cbv beta iota. rewrite digits_val_nat_str. reflexivity.
Qed.
Lemma lex_TIndLemma f l : sep_next l = true ->
  lex_go (S f) (chars "inductive-lemma" ++ l) = cons_tok TIndLemma (lex_go f l).
Proof.
  destruct l as [|c l]; [reflexivity|].
  destruct c as [[] [] [] [] [] [] [] []]; intros H; try discriminate H; reflexivity.
Qed.
Lemma lex_sep_fixed f t l : match t with TRel _ | TRimp => True | _ => False end -> sep_next l = true ->
  lex_go (S f) (chars (tok_str t) ++ l) = cons_tok t (lex_go f l).
Proof.
  intros Ht HS. destruct t; try contradiction.
  - destruct l as [|c l]; [destruct r; reflexivity|].
    destruct c as [[] [] [] [] [] [] [] []]; try discriminate HS; destruct r; reflexivity.
  - destruct l as [|c l]; [reflexivity|].
    destruct c as [[] [] [] [] [] [] [] []]; try discriminate HS; reflexivity.
Qed.

Lemma chars_sorted x s : s <> SGeneral ->
  chars (tok_str (TVar x s)) = chars x ++ "$" :: chars (sort_letter s).
Proof. intros H. destruct s; [contradiction| |]; cbn [tok_str]; rewrite chars_app; reflexivity. Qed.

Lemma lex_step f t l : tok_ok t l = true ->
  lex_go (S f) (chars (tok_str t) ++ l) = emit t (lex_go f l).
Proof.
  intros H. destruct t; cbn [tok_ok] in H; try discriminate H; unfold emit; cbn [is_layout];
    try (apply andb_true_iff in H; destruct H as [H1 H2]).
  - apply lex_TWord; assumption.
  - apply lex_TIndLemma; assumption.
  - cbn [tok_str]. rewrite !chars_app, <- app_assoc. apply lex_TFun; assumption.
  - destruct s.
    + apply lex_TVar_general; assumption.
    + rewrite chars_sorted by discriminate. rewrite <- app_assoc. apply lex_TVar_sorted; assumption.
    + rewrite chars_sorted by discriminate. rewrite <- app_assoc. apply lex_TVar_sorted; assumption.
  - apply lex_TNum; assumption.
  - cbn [tok_str]. rewrite chars_app. apply lex_TNegNum; [apply N.ltb_lt; assumption|assumption].
  - reflexivity.
  - reflexivity.
  - reflexivity.
  - reflexivity.
  - reflexivity.
  - reflexivity.
  - reflexivity.
  - reflexivity.
  - reflexivity.
  - apply lex_go_minus; assumption.
  - reflexivity.
  - apply lex_sep_fixed; [exact I|assumption].
  - reflexivity.
  - reflexivity.
  - apply lex_sep_fixed; [exact I|assumption].
  - reflexivity.
  - reflexivity.
  - reflexivity.
  - reflexivity.
  - reflexivity.
  - reflexivity.
Qed.

Lemma tok_len t l : tok_ok t l = true -> 1 <= List.length (chars (tok_str t)).
Proof.
  intros H. destruct t; cbn [tok_ok] in H; try discriminate H; try (cbn; lia);
    try (apply andb_true_iff in H; destruct H as [H1 H2]).
  - destruct (symbol_name_spec _ H1) as [_ HC].
    destruct (word_class_nonempty (chars s)) as (c & r & E & _); [rewrite HC; discriminate|].
    cbn [tok_str]. rewrite E. cbn. lia.
  - destruct (symbol_name_spec _ H1) as [_ HC].
    destruct (word_class_nonempty (chars c)) as (d & r & E & _); [rewrite HC; discriminate|].
    cbn [tok_str]. rewrite chars_app, E. cbn. lia.
  - destruct (variable_name_spec _ H1) as [_ HC].
    destruct (word_class_nonempty (chars x)) as (d & r & E & _); [rewrite HC; discriminate|].
    destruct s; cbn [tok_str]; rewrite ?chars_app, E; cbn; lia.
  - cbn [tok_str]. destruct (N.eq_dec n 0) as [->|Hn]; [cbn; lia|].
    destruct (nat_str_pos n) as (c & r & E & _); [lia|]. rewrite E. cbn. lia.
  - destruct r; cbn; lia.
Qed.

(* ================================================================ G. the invariant *)

Fixpoint lexable (ts : list token) : Prop :=
  match ts with
  | [] => True
  | t :: rest => tok_ok t (rchars rest) = true /\ lexable rest
  end.

Lemma strip_cons t ts : strip (t :: ts) = if is_layout t then strip ts else t :: strip ts.
Proof. unfold strip. cbn [filter]. destruct (is_layout t); reflexivity. Qed.

Lemma lex_go_lexable ts : lexable ts -> forall f, List.length (rchars ts) < f -> lex_go f (rchars ts) = Some (strip ts).
Proof.
  induction ts as [|t ts IH]; intros HL f Hf.
  - destruct f; [lia|]. reflexivity.
  - cbn [lexable] in HL. destruct HL as [HT HR]. destruct f; [lia|].
    rewrite rchars_cons in *. rewrite lex_step by exact HT.
    pose proof (tok_len t _ HT) as Hlen. rewrite app_length in Hf.
    rewrite IH; [|exact HR|lia]. rewrite strip_cons. unfold emit. destruct (is_layout t); reflexivity.
Qed.

Theorem lex_lexable ts : lexable ts -> lex (render ts) = Some (strip ts).
Proof. intros H. unfold lex. apply (lex_go_lexable ts H). unfold rchars. lia. Qed.
