(* Proofs about Model/Files.v (C20). *)
From Coq Require Import List Ascii String Bool Arith Lia Permutation Sorting.Sorted.
Import ListNotations.
From Anthem Require Import Model.Files.
Open Scope list_scope.

(* ---------------------------------------------------------------- buckets are filters *)

Definition bucket {A} (k : kind) (l : list (kind * A)) : list A :=
  map snd (filter (fun e => kind_eqb (fst e) k) l).

Lemma bucket_app {A} k (l l' : list (kind * A)) : bucket k (l ++ l') = bucket k l ++ bucket k l'.
Proof. unfold bucket. rewrite filter_app, map_app. reflexivity. Qed.

Lemma fold_push {A} (l : list (kind * A)) (f : files A) :
  fold_left (fun f e => push f (fst e) (snd e)) l f =
  mkfiles (specifications f ++ bucket KSpecification l) (programs f ++ bucket KProgram l)
          (user_guides f ++ bucket KUserGuide l) (proof_outlines f ++ bucket KProofOutline l)
          (other f ++ bucket KOther l).
Proof.
  revert f; induction l as [|[k a] l IH]; intros f; cbn [fold_left].
  - unfold bucket; cbn. rewrite !app_nil_r. destruct f; reflexivity.
  - rewrite IH. destruct k; cbn; unfold bucket; cbn; rewrite <- ?app_assoc; reflexivity.
Qed.

Lemma sort_entries_buckets {A} (l : list (kind * A)) :
  sort_entries l = mkfiles (bucket KSpecification l) (bucket KProgram l) (bucket KUserGuide l)
                           (bucket KProofOutline l) (bucket KOther l).
Proof. unfold sort_entries. rewrite fold_push. reflexivity. Qed.

Definition is_kind (k : kind) (p : string) : bool := kind_eqb (kind_of p) k.

Lemma bucket_paths k ps : bucket k (map (fun p => (kind_of p, p)) ps) = filter (is_kind k) ps.
Proof.
  unfold bucket. induction ps as [|p ps IH]; cbn; [reflexivity|].
  unfold is_kind at 1. destruct (kind_eqb (kind_of p) k); cbn; rewrite IH; reflexivity.
Qed.

Lemma sort_paths_buckets ps :
  sort_paths ps = mkfiles (filter (is_kind KSpecification) ps) (filter (is_kind KProgram) ps)
                          (filter (is_kind KUserGuide) ps) (filter (is_kind KProofOutline) ps)
                          (filter (is_kind KOther) ps).
Proof. unfold sort_paths. rewrite sort_entries_buckets, !bucket_paths. reflexivity. Qed.

(* ---------------------------------------------------------------- C20_first *)

(* what the code does, in terms of the walk order alone *)
Theorem roles_first ps :
  let lp := filter (is_kind KProgram) ps in
  let sp := filter (is_kind KSpecification) ps in
  roles_of (sort_paths ps) =
  mkroles (nth_error lp 0) (nth_error lp 1)
          (match sp with s :: _ => Some (inr s) | [] => option_map inl (nth_error lp 0) end)
          (match sp with [] => nth_error lp 1 | _ :: _ => nth_error lp 0 end)
          (nth_error (filter (is_kind KUserGuide) ps) 0)
          (nth_error (filter (is_kind KProofOutline) ps) 0).
Proof.
  cbv zeta. rewrite sort_paths_buckets. unfold roles_of, left, right, specification, program, user_guide, proof_outline.
  cbn [specifications programs user_guides proof_outlines].
  destruct (filter (is_kind KSpecification) ps); destruct (filter (is_kind KProgram) ps); reflexivity.
Qed.

(* ---------------------------------------------------------------- C20_move *)

Definition key (ps : list string) :=
  (filter (is_kind KProgram) ps, hd_error (filter (is_kind KSpecification) ps),
   hd_error (filter (is_kind KUserGuide) ps), hd_error (filter (is_kind KProofOutline) ps)).

Lemma nth_error_0_hd {A} (l : list A) : nth_error l 0 = hd_error l.
Proof. destruct l; reflexivity. Qed.

Theorem roles_by_key ps ps' : key ps = key ps' -> roles_of (sort_paths ps) = roles_of (sort_paths ps').
Proof.
  unfold key. intros [= E1 E2 E3 E4]. rewrite !roles_first. cbv zeta. rewrite E1. rewrite !nth_error_0_hd. rewrite E3, E4.
  destruct (filter (is_kind KSpecification) ps), (filter (is_kind KSpecification) ps'); cbn in E2; try discriminate; try reflexivity.
  injection E2 as ->. reflexivity.
Qed.

Lemma is_kind_other_false p k : kind_of p = KOther -> k <> KOther -> is_kind k p = false.
Proof. unfold is_kind. intros ->. destruct k; cbn; congruence. Qed.

(* adding (or removing) a file whose extension is none of lp/spec/ug/po changes no role *)
Theorem roles_add_other a o b :
  kind_of o = KOther -> roles_of (sort_paths (a ++ o :: b)) = roles_of (sort_paths (a ++ b)).
Proof.
  intros H. apply roles_by_key. unfold key. rewrite !filter_app. cbn [filter].
  rewrite !(is_kind_other_false o) by (auto; discriminate). reflexivity.
Qed.

Lemma filter_none {A} (f : A -> bool) l : (forall x, In x l -> f x = false) -> filter f l = [].
Proof.
  induction l as [|x l IH]; cbn; intros H; [reflexivity|]. rewrite (H x (or_introl eq_refl)). apply IH. auto.
Qed.

Lemma is_kind_unique p k k' : is_kind k p = true -> is_kind k' p = true -> k = k'.
Proof. unfold is_kind. destruct (kind_of p), k, k'; cbn; congruence. Qed.

(* moving the (only) .spec / .ug / .po argument anywhere changes no role *)
Theorem roles_move a b a' b' x :
  kind_of x <> KProgram -> a ++ b = a' ++ b' ->
  (forall y, In y (a ++ b) -> kind_of y <> kind_of x) ->
  roles_of (sort_paths (a ++ x :: b)) = roles_of (sort_paths (a' ++ x :: b')).
Proof.
  intros Hx E U. apply roles_by_key. unfold key.
  assert (F : forall k l r, l ++ r = a ++ b ->
              filter (is_kind k) (l ++ x :: r) =
              if is_kind k x then [x] else filter (is_kind k) (a ++ b)).
  { intros k l r Elr. rewrite filter_app. cbn [filter]. destruct (is_kind k x) eqn:K.
    - assert (N : forall y, In y (l ++ r) -> is_kind k y = false).
      { intros y Hy. rewrite Elr in Hy. specialize (U y Hy). destruct (is_kind k y) eqn:Ky; [|reflexivity].
        exfalso. apply U. unfold is_kind in K, Ky. destruct (kind_of y), (kind_of x), k; cbn in *; congruence. }
      rewrite (filter_none _ l), (filter_none _ r); [reflexivity| |]; intros y Hy; apply N; apply in_or_app; auto.
    - rewrite <- filter_app, Elr. reflexivity. }
  rewrite !(F _ a b eq_refl), !(F _ a' b' (eq_sym E)). reflexivity.
Qed.

(* ---------------------------------------------------------------- C20_ext *)

Definition map_files {A B} (g : A -> B) (f : files A) : files B :=
  mkfiles (map g (specifications f)) (map g (programs f)) (map g (user_guides f))
          (map g (proof_outlines f)) (map g (other f)).
Definition map_sum {A B} (g : A -> B) (x : A + A) : B + B :=
  match x with inl a => inl (g a) | inr a => inr (g a) end.
Definition map_roles {A B} (g : A -> B) (r : roles A) : roles B :=
  mkroles (option_map g (r_left r)) (option_map g (r_right r)) (option_map (map_sum g) (r_specification r))
          (option_map g (r_program r)) (option_map g (r_user_guide r)) (option_map g (r_proof_outline r)).

Lemma bucket_map {A B} (g : A -> B) k (l : list (kind * A)) :
  bucket k (map (fun e => (fst e, g (snd e))) l) = map g (bucket k l).
Proof.
  unfold bucket. induction l as [|[k0 a] l IH]; cbn; [reflexivity|].
  destruct (kind_eqb k0 k); cbn; rewrite IH; reflexivity.
Qed.

(* relabelling the payloads commutes with sorting: the buckets depend on the kinds only *)
Theorem sort_entries_natural {A B} (g : A -> B) (l : list (kind * A)) :
  sort_entries (map (fun e => (fst e, g (snd e))) l) = map_files g (sort_entries l).
Proof. rewrite !sort_entries_buckets. unfold map_files. cbn. rewrite !bucket_map. reflexivity. Qed.

Lemma nth_error_map {A B} (g : A -> B) l n : nth_error (map g l) n = option_map g (nth_error l n).
Proof. revert n; induction l; destruct n; cbn; auto. Qed.

Theorem roles_natural {A B} (g : A -> B) (f : files A) : roles_of (map_files g f) = map_roles g (roles_of f).
Proof.
  destruct f as [sp pr ug po ot].
  unfold roles_of, map_roles, left, right, specification, program, user_guide, proof_outline, map_files.
  destruct sp, pr as [|? [|? ?]], ug, po; reflexivity.
Qed.

(* positions 0,1,2,... paired with the kinds *)
Definition number (ks : list kind) : list (kind * nat) := combine ks (seq 0 (List.length ks)).

Lemma number_paths_from (ps : list string) (s : nat) (d : string) :
  map (fun e => (fst e, nth (snd e - s) ps d)) (combine (map kind_of ps) (seq s (List.length ps)))
  = map (fun p => (kind_of p, p)) ps.
Proof.
  revert s; induction ps as [|p ps IH]; intros s; cbn; [reflexivity|].
  rewrite Nat.sub_diag. f_equal. rewrite <- (IH (S s)). apply map_ext_in.
  intros [k i] Hin. cbn. apply in_combine_r in Hin. apply in_seq in Hin.
  replace (i - s) with (S (i - S s)) by lia. reflexivity.
Qed.

(* the roles are a function of the list of kinds (extension classes) by position: the role
   holders of [ps] are the paths at the positions computed from the kinds alone *)
Theorem roles_by_position (ps : list string) :
  roles_of (sort_paths ps) =
  map_roles (fun i => nth i ps EmptyString) (roles_of (sort_entries (number (map kind_of ps)))).
Proof.
  rewrite <- roles_natural, <- sort_entries_natural. unfold sort_paths, number. f_equal.
  rewrite map_length. rewrite <- (number_paths_from ps 0 EmptyString). f_equal.
  apply map_ext. intros [k i]. cbn. rewrite Nat.sub_0_r. reflexivity.
Qed.

Corollary roles_same_kinds (ps ps' : list string) :
  map kind_of ps = map kind_of ps' ->
  exists r : roles nat,
    roles_of (sort_paths ps) = map_roles (fun i => nth i ps EmptyString) r /\
    roles_of (sort_paths ps') = map_roles (fun i => nth i ps' EmptyString) r.
Proof.
  intros E. exists (roles_of (sort_entries (number (map kind_of ps)))). split; [apply roles_by_position|].
  rewrite E. apply roles_by_position.
Qed.

(* ---------------------------------------------------------------- directory order *)

Definition node_le (a b : node) : Prop := name_le (node_name a) (node_name b) = true.

Lemma name_le_total a b : name_le a b = true \/ name_le b a = true.
Proof.
  unfold name_le. rewrite (String.compare_antisym a b). destruct (String.compare b a); cbn; auto.
Qed.

Lemma insert_node_perm n l : Permutation (insert_node n l) (n :: l).
Proof.
  induction l as [|m l IH]; cbn; [reflexivity|].
  destruct (name_le (node_name n) (node_name m)); [reflexivity|].
  rewrite IH. apply perm_swap.
Qed.
Lemma sort_nodes_perm l : Permutation (sort_nodes l) l.
Proof.
  unfold sort_nodes. induction l as [|n l IH]; cbn; [reflexivity|].
  rewrite insert_node_perm. constructor. exact IH.
Qed.

Lemma insert_node_sorted n l : Sorted node_le l -> Sorted node_le (insert_node n l).
Proof.
  induction l as [|m l IH]; cbn; intros S; [repeat constructor|].
  destruct (name_le (node_name n) (node_name m)) eqn:E.
  - constructor; [exact S|]. constructor. exact E.
  - inversion S as [|? ? S' H]; subst. constructor; [apply IH; exact S'|].
    assert (Hmn : node_le m n).
    { unfold node_le. destruct (name_le_total (node_name n) (node_name m)); congruence. }
    destruct l as [|k l]; cbn; [constructor; exact Hmn|].
    destruct (name_le (node_name n) (node_name k)); constructor; [exact Hmn|].
    inversion H; assumption.
Qed.
Lemma sort_nodes_sorted l : Sorted node_le (sort_nodes l).
Proof. unfold sort_nodes. induction l; cbn; [constructor|]. apply insert_node_sorted. assumption. Qed.

Definition all_files (l : list node) : Prop := forall n, In n l -> exists s, n = File s.

Lemma sort_tree_file_list l : all_files l -> map sort_tree l = l.
Proof.
  induction l as [|n l IH]; intros H; cbn; [reflexivity|].
  destruct (H n (or_introl eq_refl)) as [s ->]. cbn. rewrite IH; [reflexivity|].
  intros m Hm. apply H. right. exact Hm.
Qed.

(* inside a directory of plain files the walk order is file-name order *)
Theorem walk_flat_dir d cs :
  all_files cs ->
  walk (Dir d cs) = map (fun c => VFile (d ++ "/" ++ node_name c)%string) (sort_nodes cs)
  /\ Permutation (sort_nodes cs) cs /\ Sorted node_le (sort_nodes cs).
Proof.
  intros H. split; [|split; [apply sort_nodes_perm|apply sort_nodes_sorted]].
  unfold walk. cbn [sort_tree node_name walk_listed]. rewrite (sort_tree_file_list _ H).
  assert (Hs : all_files (sort_nodes cs)).
  { intros n Hn. apply H. eapply Permutation_in; [apply sort_nodes_perm|exact Hn]. }
  induction (sort_nodes cs) as [|c l IH]; [reflexivity|].
  destruct (Hs c (or_introl eq_refl)) as [s ->]. cbn. f_equal. apply IH.
  intros m Hm. apply Hs. right. exact Hm.
Qed.

(* ---------------------------------------------------------------- errors: `entry?` *)

Definition wbind {A B} (x : wresult A) (f : A -> wresult B) : wresult B :=
  match x with WOk a => f a | WErr e => WErr e end.

Lemma collect_app u v :
  collect (u ++ v) = wbind (collect u) (fun pu => wbind (collect v) (fun pv => WOk (pu ++ pv))).
Proof.
  induction u as [|[p|e] u IH]; cbn.
  - destruct (collect v); reflexivity.
  - rewrite IH. destruct (collect u); cbn; [|reflexivity]. destruct (collect v); reflexivity.
  - reflexivity.
Qed.

(* arguments are visited in argument order; a directory contributes its files contiguously; the
   first error in that order is the result *)
Theorem sort_args_app (a b : list node) :
  sort (a ++ b) =
  wbind (collect (flat_map walk a)) (fun pa =>
  wbind (collect (flat_map walk b)) (fun pb => WOk (sort_paths (pa ++ pb)))).
Proof.
  unfold sort. rewrite flat_map_app, collect_app.
  destruct (collect (flat_map walk a)); cbn; [|reflexivity].
  destruct (collect (flat_map walk b)); reflexivity.
Qed.

Definition is_file_visit (v : visit) : bool := match v with VFile _ => true | VErr _ => false end.
Definition visit_path (v : visit) : string := match v with VFile p => p | VErr _ => EmptyString end.

Lemma collect_ok vs : forallb is_file_visit vs = true -> collect vs = WOk (map visit_path vs).
Proof.
  induction vs as [|[p|e] vs IH]; cbn; intros H; [reflexivity| |discriminate].
  rewrite (IH H). reflexivity.
Qed.
Lemma collect_err vs : forallb is_file_visit vs = false -> exists e, collect vs = WErr e /\ In (VErr e) vs.
Proof.
  induction vs as [|[p|e] vs IH]; cbn; intros H; [discriminate| |].
  - destruct (IH H) as [e [E I]]. exists e. rewrite E. auto.
  - exists e. auto.
Qed.

(* ---------------------------------------------------------------- symbolic links (F23) *)

(* induction over trees (children are a nested list) *)
Section NodeInd.
  Variable P : node -> Prop.
  Hypothesis HF : forall s, P (File s).
  Hypothesis HS : forall s, P (Special s).
  Hypothesis HL : forall s t, P (Link s t).
  Hypothesis HD : forall s cs, Forall P cs -> P (Dir s cs).
  Hypothesis HLD : forall s cs, Forall P cs -> P (LinkDir s cs).
  Fixpoint node_ind' (n : node) : P n :=
    match n with
    | File s => HF s
    | Special s => HS s
    | Link s t => HL s t
    | Dir s cs => HD s cs ((fix go (l : list node) : Forall P l :=
                              match l with [] => Forall_nil P | c :: l' => Forall_cons c (node_ind' c) (go l') end) cs)
    | LinkDir s cs => HLD s cs ((fix go (l : list node) : Forall P l :=
                              match l with [] => Forall_nil P | c :: l' => Forall_cons c (node_ind' c) (go l') end) cs)
    end.
End NodeInd.

(* the entries of a directory, in the listed order *)
Fixpoint walk_children (path : string) (l : list node) : list visit :=
  match l with
  | [] => []
  | c :: l' => walk_listed (path ++ "/" ++ node_name c) c ++ walk_children path l'
  end.
Lemma walk_listed_dir path s cs : walk_listed path (Dir s cs) = walk_children path cs.
Proof. cbn. induction cs as [|c l IH]; [reflexivity|]. cbn. rewrite IH. reflexivity. Qed.
Lemma walk_listed_linkdir path s cs : walk_listed path (LinkDir s cs) = walk_children path cs.
Proof. cbn. induction cs as [|c l IH]; [reflexivity|]. cbn. rewrite IH. reflexivity. Qed.

(* a link that resolves is replaced by what it resolves to, UNDER THE LINK'S NAME *)
Fixpoint resolve (n : node) : node :=
  match n with
  | Link s LFile => File s
  | Link s LSpecial => Special s
  | LinkDir s cs => Dir s (map resolve cs)
  | Dir s cs => Dir s (map resolve cs)
  | _ => n
  end.

Lemma resolve_name n : node_name (resolve n) = node_name n.
Proof. destruct n as [| | |s [| | |]|]; reflexivity. Qed.

Lemma insert_node_resolve n l : map resolve (insert_node n l) = insert_node (resolve n) (map resolve l).
Proof.
  induction l as [|m l IH]; cbn; [reflexivity|]. rewrite !resolve_name.
  destruct (name_le (node_name n) (node_name m)); cbn; [reflexivity|]. rewrite IH. reflexivity.
Qed.
Lemma sort_nodes_resolve l : map resolve (sort_nodes l) = sort_nodes (map resolve l).
Proof.
  unfold sort_nodes. induction l as [|n l IH]; cbn; [reflexivity|]. rewrite insert_node_resolve, IH. reflexivity.
Qed.

Lemma sort_tree_resolve n : sort_tree (resolve n) = resolve (sort_tree n).
Proof.
  induction n as [s|s|s t|s cs IH|s cs IH] using node_ind'; try reflexivity.
  - destruct t; reflexivity.
  - cbn. f_equal. rewrite sort_nodes_resolve. f_equal. rewrite !map_map.
    apply map_ext_in. intros c Hc. rewrite Forall_forall in IH. apply IH. exact Hc.
  - cbn. f_equal. rewrite sort_nodes_resolve. f_equal. rewrite !map_map.
    apply map_ext_in. intros c Hc. rewrite Forall_forall in IH. apply IH. exact Hc.
Qed.

Lemma walk_listed_resolve n : forall path, walk_listed path (resolve n) = walk_listed path n.
Proof.
  induction n as [s|s|s t|s cs IH|s cs IH] using node_ind'; intros path; try reflexivity.
  - destruct t; reflexivity.
  - cbn [resolve]. rewrite !walk_listed_dir. induction IH as [|c l Hc _ IHl]; [reflexivity|].
    cbn. rewrite resolve_name, Hc, IHl. reflexivity.
  - cbn [resolve]. rewrite walk_listed_dir, walk_listed_linkdir. induction IH as [|c l Hc _ IHl]; [reflexivity|].
    cbn. rewrite resolve_name, Hc, IHl. reflexivity.
Qed.

(* F23: links that resolve are transparent - the walk sees the file / the directory under the link's name *)
Theorem walk_resolve n : walk (resolve n) = walk n.
Proof. unfold walk. rewrite resolve_name, sort_tree_resolve, walk_listed_resolve. reflexivity. Qed.

Theorem sort_resolve args : sort (map resolve args) = sort args.
Proof.
  unfold sort. replace (flat_map walk (map resolve args)) with (flat_map walk args); [reflexivity|].
  induction args as [|n l IH]; cbn; [reflexivity|]. rewrite walk_resolve, IH. reflexivity.
Qed.

(* no dangling link, no loop anywhere below *)
Fixpoint clean (n : node) : bool :=
  match n with
  | Link _ LDangling | Link _ LLoop => false
  | Dir _ cs | LinkDir _ cs => forallb clean cs
  | _ => true
  end.

Lemma forallb_app_visits u v : forallb is_file_visit (u ++ v) = forallb is_file_visit u && forallb is_file_visit v.
Proof. apply forallb_app. Qed.

Lemma insert_node_clean n l : forallb clean (insert_node n l) = clean n && forallb clean l.
Proof.
  induction l as [|m l IH]; cbn; [reflexivity|].
  destruct (name_le (node_name n) (node_name m)); cbn; [reflexivity|]. rewrite IH.
  destruct (clean n), (clean m); reflexivity.
Qed.
Lemma sort_nodes_clean l : forallb clean (sort_nodes l) = forallb clean l.
Proof. unfold sort_nodes. induction l as [|n l IH]; cbn; [reflexivity|]. rewrite insert_node_clean, IH. reflexivity. Qed.

Lemma sort_tree_clean n : clean (sort_tree n) = clean n.
Proof.
  induction n as [s|s|s t|s cs IH|s cs IH] using node_ind'; try reflexivity.
  - cbn. rewrite sort_nodes_clean. induction IH as [|c l Hc _ IHl]; [reflexivity|]. cbn. rewrite Hc, IHl. reflexivity.
  - cbn. rewrite sort_nodes_clean. induction IH as [|c l Hc _ IHl]; [reflexivity|]. cbn. rewrite Hc, IHl. reflexivity.
Qed.

Lemma walk_listed_clean n : forall path, forallb is_file_visit (walk_listed path n) = clean n.
Proof.
  induction n as [s|s|s t|s cs IH|s cs IH] using node_ind'; intros path; try reflexivity.
  - destruct t; reflexivity.
  - rewrite walk_listed_dir. cbn [clean]. induction IH as [|c l Hc _ IHl]; [reflexivity|].
    cbn. rewrite forallb_app, Hc, IHl. reflexivity.
  - rewrite walk_listed_linkdir. cbn [clean]. induction IH as [|c l Hc _ IHl]; [reflexivity|].
    cbn. rewrite forallb_app, Hc, IHl. reflexivity.
Qed.

Lemma visits_clean args : forallb is_file_visit (flat_map walk args) = forallb clean args.
Proof.
  induction args as [|n l IH]; cbn; [reflexivity|].
  rewrite forallb_app, IH. unfold walk. rewrite walk_listed_clean, sort_tree_clean. reflexivity.
Qed.

(* Files::sort returns Ok iff no dangling link and no loop is below the arguments; then the
   buckets are those of the visited paths (links to files included, under their own names) *)
Theorem sort_ok_iff_clean args :
  (forallb clean args = true -> sort args = WOk (sort_paths (map visit_path (flat_map walk args)))) /\
  (forallb clean args = false -> exists e, sort args = WErr e /\ In (VErr e) (flat_map walk args)).
Proof.
  split; intros H; unfold sort.
  - rewrite collect_ok; [reflexivity|]. rewrite visits_clean. exact H.
  - destruct (collect_err (flat_map walk args)) as [e [E I]]; [rewrite visits_clean; exact H|].
    exists e. rewrite E. auto.
Qed.

(* the statement of F23 itself: a link to a regular file is visited like a regular file of that name *)
Corollary walk_link_file s : walk (Link s LFile) = walk (File s).
Proof. reflexivity. Qed.

(* ---------------------------------------------------------------- swapping the two .lp arguments *)

(* strong equivalence: the first .lp is left, the second right *)
Theorem swap_roles_strong a b :
  kind_of a = KProgram -> kind_of b = KProgram ->
  left (sort_paths [b; a]) = Some b /\ right (sort_paths [b; a]) = Some a /\
  left (sort_paths [a; b]) = Some a /\ right (sort_paths [a; b]) = Some b.
Proof.
  intros Ha Hb. unfold sort_paths, sort_entries. cbn [map fold_left fst snd]. rewrite Ha, Hb.
  repeat split; reflexivity.
Qed.

(* external equivalence: two .lp files followed by files of other kinds.  Without a .spec file the
   first .lp is the specification (a program used as specification: inl) and the second the program:
   swapping the two exchanges the roles.  With a .spec file that file is the specification, the FIRST
   .lp the program and the second .lp is ignored: swapping the two replaces the program by the
   ignored file.  User guide and proof outline are unaffected. *)
Theorem swap_roles_external a b rest :
  kind_of a = KProgram -> kind_of b = KProgram -> (forall y, In y rest -> kind_of y <> KProgram) ->
  let f := sort_paths (a :: b :: rest) in
  let f' := sort_paths (b :: a :: rest) in
  user_guide f = user_guide f' /\ proof_outline f = proof_outline f' /\
  match filter (is_kind KSpecification) rest with
  | [] => specification f = Some (inl a) /\ program f = Some b /\
          specification f' = Some (inl b) /\ program f' = Some a
  | s :: _ => specification f = Some (inr s) /\ program f = Some a /\
              specification f' = Some (inr s) /\ program f' = Some b
  end.
Proof.
  intros Ha Hb Hr. cbv zeta.
  assert (Hp : filter (is_kind KProgram) rest = []).
  { apply filter_none. intros y Hy. specialize (Hr y Hy). unfold is_kind. destruct (kind_of y); cbn; congruence. }
  pose proof (roles_first (a :: b :: rest)) as R. pose proof (roles_first (b :: a :: rest)) as R'.
  cbv zeta in R, R'. cbn [filter] in R, R'.
  unfold roles_of in R, R'.
  unfold is_kind in R, R'. rewrite Ha, Hb in R, R'. cbn [kind_eqb] in R, R'.
  fold (is_kind KProgram) (is_kind KSpecification) (is_kind KUserGuide) (is_kind KProofOutline) in R, R'.
  rewrite Hp in R, R'. injection R as _ _ Rs Rp Ru Ro. injection R' as _ _ Rs' Rp' Ru' Ro'.
  split; [congruence|]. split; [congruence|].
  destruct (filter (is_kind KSpecification) rest) as [|s l]; cbn in *; auto.
Qed.
