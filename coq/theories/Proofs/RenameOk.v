(* RenamePredicates (external_equivalence.rs): renaming predicates in a formula is the corresponding
   re-indexing of the interpretation; when the renaming is injective on a vocabulary, every
   interpretation of that vocabulary arises as such a re-indexing (no_rename_clash; its failure is
   finding F9: `q` renamed to `q_p` although `q_p` exists). *)
From Coq Require Import List Ascii String ZArith Bool.
From Anthem Require Import Base.ISet Syntax.Fol Sem.Domain Sem.Sat Model.External Proofs.SemBase.
Import ListNotations.
Open Scope string_scope.
Open Scope list_scope.

(* the name a predicate symbol p of arity n is given by the mapping *)
Definition rn_name (m : list (pred * string)) (p : string) (n : nat) : string :=
  match rn_lookup m (mkpred p n) with Some ext => (p ++ "_" ++ ext)%string | None => p end.
(* the interpretation seen through the renaming *)
Definition reindex (m : list (pred * string)) (M : pint) : pint :=
  fun p a => M (rn_name m p (List.length a)) a.

Theorem rename_sem FI m M f : forall e,
  csat FI M e (rename_predicates m f) <-> csat FI (reindex m M) e f.
Proof.
  induction f as [a|f IH|c l IHl r IHr|q vs f IH]; intros e; cbn [rename_predicates csat].
  - destruct a as [| |p ts|t gs]; cbn; try tauto.
    unfold reindex, rn_name. rewrite map_length.
    destruct (rn_lookup m (mkpred p (List.length ts))); cbn; tauto.
  - rewrite IH. tauto.
  - destruct c; rewrite IHl, IHr; tauto.
  - apply qsat_iff. intros e'. apply IH.
Qed.
Corollary rename_valid FI m M f : cvalid FI M (rename_predicates m f) <-> cvalid FI (reindex m M) f.
Proof. unfold cvalid. split; intros H e; [apply rename_sem|apply (rename_sem FI m M f e)]; apply H. Qed.

(* the renaming is injective on the vocabulary S *)
Definition no_rename_clash (m : list (pred * string)) (S : list pred) : Prop :=
  forall p p' n, In (mkpred p n) S -> In (mkpred p' n) S -> rn_name m p n = rn_name m p' n -> p = p'.

(* every interpretation of S is the re-indexing of some interpretation *)
Theorem reindex_surjective m S : no_rename_clash m S ->
  forall N : pint, exists M : pint, pagree S N (reindex m M).
Proof.
  intros Hinj N.
  exists (fun r a => exists p, In (mkpred p (List.length a)) S /\ rn_name m p (List.length a) = r /\ N p a).
  intros p a Hin. unfold reindex. split.
  - intros Hn. exists p. auto.
  - intros [p' [Hin' [E Hn]]]. rewrite (Hinj p p' _ Hin Hin' (eq_sym E)). exact Hn.
Qed.

(* F9: with the mapping q/1 -> "p" and a vocabulary that already contains q_p/1 the renaming is
   not injective *)
Example F9_witness :
  ~ no_rename_clash [(mkpred "q" 1, "p")] [mkpred "q" 1; mkpred "q_p" 1].
Proof.
  intros H. specialize (H "q" "q_p" 1%nat (or_introl eq_refl) (or_intror (or_introl eq_refl))).
  assert (E : rn_name [(mkpred "q" 1, "p")] "q" 1 = rn_name [(mkpred "q" 1, "p")] "q_p" 1) by reflexivity.
  specialize (H E). discriminate.
Qed.
