(* Fages' theorem, abstractly: for a possibly infinite set of *semantic ground rules* (the shape the
   multi-valued terms of mini-gringo force: a head is a set of atoms, a positive body item is a set
   of atoms of which some member must hold) whose positive body atoms have a strictly smaller
   rank than the head atoms, the equilibrium models of the rules together with the model's own
   input facts are exactly the supported models.
   Body items that do not depend on the "here" world (negated and doubly negated literals,
   comparisons) are one constructor [Fix Q], read at the "there" world.
   Classical logic (Classical_Prop.classic, through NNPP) is used only in [stable_supported]. *)
From Coq Require Import List Arith Lia Classical_Prop.
Import ListNotations.

Section Fages.
Variable atom : Type.
Variable apred : Type.
Variable pred_of : atom -> apred.

Definition interp := atom -> Prop.
Definition isub (H T : interp) := forall a, H a -> T a.

Inductive item :=
| Pos (A : atom -> Prop)            (* some atom of A is in the world *)
| Fix (Q : interp -> Prop).         (* a condition on the there-world only *)
Inductive hkind := Basic | Choice | Constraint.
Record grule := mkgrule { kind : hkind; hatoms : atom -> Prop; body : list item }.

Definition item_holds (W T : interp) (i : item) : Prop :=
  match i with
  | Pos A => exists a, A a /\ W a
  | Fix Q => Q T
  end.
Definition body_holds (W T : interp) (r : grule) := Forall (item_holds W T) (body r).
Definition head_holds (W T : interp) (r : grule) : Prop :=
  match kind r with
  | Basic => forall a, hatoms r a -> W a
  | Choice => forall a, hatoms r a -> W a \/ ~ T a
  | Constraint => False
  end.
(* HT satisfaction of  body -> head  *)
Definition rule_sat (H T : interp) (r : grule) :=
  (body_holds H T r -> head_holds H T r) /\ (body_holds T T r -> head_holds T T r).

Variable prog : grule -> Prop.              (* the (infinite) set of ground instances *)
Variable input : atom -> Prop.              (* atoms of input predicates *)
Hypothesis input_not_head : forall r a, prog r -> hatoms r a -> ~ input a.

Variable rank : apred -> nat.
Hypothesis tight : forall r A b h, prog r -> In (Pos A) (body r) -> A b -> hatoms r h ->
  rank (pred_of b) < rank (pred_of h).

Definition ht_model (H T : interp) :=
  (forall r, prog r -> rule_sat H T r) /\ (forall a, input a -> T a -> H a).
Definition equilibrium (T : interp) :=
  ht_model T T /\ forall H, isub H T -> ht_model H T -> forall a, T a -> H a.
Definition supported (T : interp) :=
  (forall r, prog r -> rule_sat T T r) /\
  forall a, T a -> input a \/ exists r, prog r /\ kind r <> Constraint /\ hatoms r a /\ body_holds T T r.

Lemma body_mono H T r : isub H T -> body_holds H T r -> body_holds T T r.
Proof.
  intros S B. unfold body_holds in *. eapply Forall_impl; [|exact B].
  intros [A|Q]; cbn; auto. intros [a [Ha Wa]]. exists a; auto.
Qed.

Theorem supported_stable T : supported T -> equilibrium T.
Proof.
  intros [M S]. split; [split; auto|].
  intros H HS [HM HF] a.
  remember (rank (pred_of a)) as n eqn:En. revert a En.
  induction n as [n IH] using lt_wf_ind. intros a En Ta.
  destruct (S a Ta) as [Hi|[r [Pr [NC [Ha B]]]]]; [apply HF; auto|].
  assert (BH : body_holds H T r).
  { unfold body_holds in *. rewrite Forall_forall in *. intros i Hi. specialize (B i Hi).
    destruct i as [A|Q]; cbn in *; auto.
    destruct B as [b [Ab Tb]]. exists b; split; auto.
    apply (IH (rank (pred_of b))); auto. subst n. eapply tight; eauto. }
  destruct (HM r Pr) as [HH _]. specialize (HH BH). unfold head_holds in HH.
  destruct (kind r); [apply HH; auto| |congruence].
  destruct (HH a Ha); tauto.
Qed.

Theorem stable_supported T : equilibrium T -> supported T.
Proof.
  intros [[M F] MIN]. split; auto.
  intros a Ta. apply NNPP. intros NS.
  set (H := fun b => T b /\ b <> a).
  assert (HS : isub H T) by (intros b [Tb _]; exact Tb).
  assert (HM : ht_model H T).
  { split.
    - intros r Pr. destruct (M r Pr) as [_ MT]. split; auto.
      intros BH. pose proof (body_mono H T r HS BH) as BT. specialize (MT BT).
      unfold head_holds in *. destruct (kind r) eqn:K; auto.
      + intros b Hb. split; [apply MT; auto|]. intros ->. apply NS. right. exists r. repeat split; auto. congruence.
      + intros b Hb. destruct (MT b Hb) as [Tb|NTb]; auto. left. split; auto.
        intros ->. apply NS. right. exists r. repeat split; auto. congruence.
    - intros b Ib Tb. split; auto. intros ->. apply NS. left; exact Ib. }
  destruct (MIN H HS HM a Ta) as [_ Ne]. congruence.
Qed.

Corollary fages T : equilibrium T <-> supported T.
Proof. split; [apply stable_supported|apply supported_stable]. Qed.
End Fages.
