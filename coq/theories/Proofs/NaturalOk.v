(* C08: the natural translation of a rule it accepts is HT-equivalent to the reference semantics
   of the rule (Sem/AspRef.v), on the infinite standard domain. *)
From Coq Require Import List Ascii String ZArith Bool Lia.
From Anthem Require Import Base.ISet Base.Fresh Syntax.Fol Syntax.Asp Sem.Domain Sem.Sat Sem.AspRef
  Model.Natural Proofs.NatBase Proofs.NatTerms Proofs.NatFresh.
Import ListNotations.
Open Scope string_scope.
Open Scope list_scope.

(* ---------- small general facts ---------- *)
Lemma collect_options_spec {A B} (f : A -> option B) l : forall ys,
  collect_options f l = Some ys <-> Forall2 (fun x y => f x = Some y) l ys.
Proof.
  induction l as [|x l IH]; intros ys; cbn.
  - split; [intros [= <-]; constructor|intros F; inversion F; reflexivity].
  - destruct (f x) as [y|] eqn:Ex.
    + destruct (collect_options f l) as [ys'|] eqn:El.
      * split.
        -- intros [= <-]. constructor; auto. apply IH; reflexivity.
        -- intros F. inversion F as [|? y0 ? ys0 E0 F0]; subst. rewrite Ex in E0. inversion E0; subst.
           apply IH in F0. inversion F0; subst. reflexivity.
      * split; [discriminate|]. intros F. inversion F as [|? y0 ? ys0 E0 F0]; subst.
        apply IH in F0. discriminate.
    + split; [discriminate|]. intros F. inversion F as [|? y0 ? ys0 E0 F0]; subst. congruence.
Qed.

Lemma Forall2_Forall_iff {A B} (R : A -> B -> Prop) (P : A -> Prop) (Q : B -> Prop) l l' :
  Forall2 R l l' -> (forall x y, In x l -> R x y -> (P x <-> Q y)) -> (Forall P l <-> Forall Q l').
Proof.
  intros F. induction F as [|x y l l' Rxy F IH]; intros Hpq.
  - split; constructor.
  - assert (Hxy : P x <-> Q y) by (apply Hpq; cbn; auto).
    assert (IH' : Forall P l <-> Forall Q l') by (apply IH; intros; apply Hpq; cbn; auto).
    split; intros HF; inversion HF; subst; constructor; tauto.
Qed.

Lemma between_nums a n1 n2 :
  gle (VNum n1) a && gle a (VNum n2) = true <-> exists k, a = VNum k /\ (n1 <= k <= n2)%Z.
Proof.
  destruct a; cbn; try (split; [discriminate|intros [k [E _]]; discriminate]).
  rewrite andb_true_iff, !Z.leb_le. split; [intros; exists z; auto|intros [k [E ?]]; inversion E; subst; auto].
Qed.

Section Inst.
Variable FI : fint.
Variable sg : assignment.
Variable iv : list string.

Notation agr := (agree sg).

(* ---------- interval bounds ---------- *)
Lemma bound_vals e t g : arithb t = true -> (forall x, In x (term_vars t) -> In x iv) ->
  (forall x, In x (term_vars t) -> agr e iv x) -> p2f t iv = Some g ->
  exists n, ev_g FI e g = VNum n /\ forall v, vals sg t v <-> v = VNum n.
Proof.
  intros Ha Hiv Hag Ep.
  assert (Hnum : forall x, In x (term_vars t) -> sg x = VNum (ei e x)).
  { intros x Hx. specialize (Hag x Hx). unfold agree in Hag.
    destruct (memb_spec string_dec x iv) as [_|Hn]; auto. elim Hn; auto. }
  destruct (p2f_int_term_total t Ha) as [it Eit].
  assert (Eg : g = GInt it).
  { unfold p2f in Ep. unfold arithb in Ha. apply andb_true_iff in Ha. destruct Ha as [Hf Hc].
    rewrite Hf in Ep. cbn [negb] in Ep.
    destruct t as [p|y|o t|o l r].
    - destruct p; cbn in Hc; try discriminate. cbn in Eit. inversion Eit; inversion Ep; subst; reflexivity.
    - destruct (memb_spec string_dec y iv) as [_|Hn]; [|elim Hn; apply Hiv; cbn; auto].
      cbn in Eit. inversion Eit; inversion Ep; subst; reflexivity.
    - rewrite Eit in Ep. inversion Ep; reflexivity.
    - rewrite Eit in Ep. inversion Ep; reflexivity. }
  subst g. exists (ev_i FI e it). split; [reflexivity|].
  apply (p2f_int_term_vals FI sg e t it); auto.
Qed.

Lemma interval_vals' e l r gl gr :
  arithb l = true -> arithb r = true ->
  (forall x, In x (term_vars (TBin AInterval l r)) -> In x iv) ->
  (forall x, In x (term_vars (TBin AInterval l r)) -> agr e iv x) ->
  p2f l iv = Some gl -> p2f r iv = Some gr ->
  forall v, vals sg (TBin AInterval l r) v <->
            exists k, v = VNum k /\ gle (ev_g FI e gl) (VNum k) && gle (VNum k) (ev_g FI e gr) = true.
Proof.
  intros Hl Hr Hiv Hag El Er v.
  destruct (bound_vals e l gl Hl) as [n1 [E1 V1]]; auto;
    try (intros x Hx; first [apply Hiv|apply Hag]; apply term_vars_bin; auto).
  destruct (bound_vals e r gr Hr) as [n2 [E2 V2]]; auto;
    try (intros x Hx; first [apply Hiv|apply Hag]; apply term_vars_bin; auto).
  rewrite E1, E2. cbn [vals]. split.
  - intros [m1 [m2 [k [A [B [C ->]]]]]]. exists k.
    apply V1 in A. apply V2 in B. inversion A; inversion B; subst.
    split; auto. cbn. rewrite andb_true_iff, !Z.leb_le. lia.
  - intros [k [-> Hk]]. cbn in Hk. rewrite andb_true_iff, !Z.leb_le in Hk.
    exists n1, n2, k. repeat split; try lia; [apply V1|apply V2]; reflexivity.
Qed.

(* ---------- body ---------- *)
Section Body.
Variable e : env.
Hypothesis Hag : forall x, agr e iv x.

Lemma b_atom_ok ts : forall gs,
  collect_options (fun t => p2f t iv) ts = Some gs ->
  (forall t, In t ts -> opvars_in iv t) ->
  forall vs, tuple_vals sg ts vs <-> vs = map (ev_g FI e) gs.
Proof.
  induction ts as [|t ts IH]; intros gs Ec Hop vs.
  - cbn in Ec. inversion Ec; subst. cbn. split; [intros F; inversion F; reflexivity|intros ->; constructor].
  - cbn in Ec. destruct (p2f t iv) as [g|] eqn:Ep; [|discriminate].
    destruct (collect_options _ ts) as [gs'|] eqn:Ec'; [|discriminate]. inversion Ec; subst.
    pose proof (p2f_vals FI sg e t iv g Ep (fun x _ => Hag x) (Hop t (or_introl eq_refl))) as Hv.
    assert (IH' := IH gs' eq_refl (fun t' Ht' => Hop t' (or_intror Ht'))).
    cbn [map]. split.
    + intros F. inversion F as [|? v ? vs' Hv0 F']; subst. apply Hv in Hv0. apply IH' in F'. subst. reflexivity.
    + intros ->. constructor; [apply Hv; reflexivity|apply IH'; reflexivity].
Qed.

Lemma b_literal_ok W T l f :
  natural_b_literal l iv = Some f -> (forall t, In t (aterms (latom l)) -> opvars_in iv t) ->
  (bformula_sat W T sg (BLit l) <-> hsat FI W T e f).
Proof.
  unfold natural_b_literal, natural_b_atom. destruct l as [s a]. cbn [latom lsign].
  destruct (collect_options _ (aterms a)) as [gs|] eqn:Ec; [|discriminate].
  intros [= <-] Hop. pose proof (b_atom_ok _ _ Ec Hop) as Hv.
  destruct s; cbn.
  - split; [intros [vs [A B]]; apply Hv in A; subst; auto|intros A; eexists; split; [apply Hv; reflexivity|auto]].
  - split; [intros [vs [A B]]; apply Hv in A; subst; auto|intros A; eexists; split; [apply Hv; reflexivity|auto]].
  - split; [intros [vs [A B]]; apply Hv in A; subst; auto|intros A; eexists; split; [apply Hv; reflexivity|auto]].
Qed.

Lemma comparison_ok W T c f :
  natural_comparison c iv = Some f -> opvars_in iv (clhs c) -> opvars_in iv (crhs c) ->
  (bformula_sat W T sg (BCmp c) <-> hsat FI W T e f).
Proof.
  unfold natural_comparison. intros Ef Hl Hr.
  destruct (p2f (clhs c) iv) as [gl|] eqn:El; [|discriminate].
  pose proof (p2f_vals FI sg e _ iv gl El (fun x _ => Hag x) Hl) as Vl.
  destruct ((match arel_to_rel (crel c) with REq => true | _ => false end)
            && is_term_regular_of_second_kind (crhs c)) eqn:Hc.
  - apply andb_true_iff in Hc. destruct Hc as [Hrel Hsk].
    apply second_kind_spec in Hsk. destruct Hsk as [t2 [t3 [Erhs [A2 A3]]]].
    rewrite Erhs in Ef, Hr.
    destruct (p2f t2 iv) as [g2|] eqn:E2; [|discriminate].
    destruct (p2f t3 iv) as [g3|] eqn:E3; [|discriminate]. inversion Ef; subst f. clear Ef.
    assert (Hiv : forall x, In x (term_vars (TBin AInterval t2 t3)) -> In x iv) by (intros x Hx; apply Hr; auto).
    pose proof (interval_vals' e t2 t3 g2 g3 A2 A3 Hiv (fun x _ => Hag x) E2 E3) as Vr.
    cbn [bformula_sat hsat asat chain_sat grel gterm_of rel_sat]. rewrite Erhs.
    destruct (arel_to_rel (crel c)); try discriminate. cbn [rel_sat].
    rewrite andb_true_r. split.
    + intros [v1 [v2 [H1 [H2 Heq]]]]. apply Vl in H1. apply Vr in H2. destruct H2 as [k [-> Hk]].
      destruct (gval_eqb_spec v1 (VNum k)) as [E|]; [|discriminate]. rewrite <- H1, E. exact Hk.
    + intros Hk. destruct (bound_vals e t2 g2 A2) as [n1 [N1 _]]; auto;
        try (intros x Hx; first [apply Hiv|apply Hag]; apply term_vars_bin; auto).
      destruct (bound_vals e t3 g3 A3) as [n2 [N2 _]]; auto;
        try (intros x Hx; first [apply Hiv|apply Hag]; apply term_vars_bin; auto).
      rewrite N1, N2 in Hk. pose proof Hk as Hk'. apply between_nums in Hk'. destruct Hk' as [k [Ek Hb]].
      exists (ev_g FI e gl), (VNum k). split; [apply Vl; reflexivity|]. split.
      * apply Vr. exists k. split; auto. rewrite N1, N2, <- Ek. exact Hk.
      * rewrite Ek. apply gval_eqb_refl.
  - destruct (p2f (crhs c) iv) as [gr|] eqn:Er; [|discriminate]. inversion Ef; subst f. clear Ef.
    pose proof (p2f_vals FI sg e _ iv gr Er (fun x _ => Hag x) Hr) as Vr.
    cbn [bformula_sat hsat asat chain_sat grel gterm_of]. rewrite andb_true_r. split.
    + intros [v1 [v2 [H1 [H2 Hrel]]]]. apply Vl in H1. apply Vr in H2. subst. exact Hrel.
    + intros Hrel. exists (ev_g FI e gl), (ev_g FI e gr). split; [apply Vl; reflexivity|].
      split; [apply Vr; reflexivity|exact Hrel].
Qed.

Lemma body_ok W T b F :
  natural_body b iv = Some F ->
  (forall bf t, In bf b -> In t (bformula_terms bf) -> opvars_in iv t) ->
  (body_sat W T sg b <-> hsat FI W T e F).
Proof.
  unfold natural_body. destruct (collect_options _ b) as [fs|] eqn:Ec; [|discriminate].
  intros [= <-] Hop. rewrite hsat_conjoin. unfold body_sat.
  apply collect_options_spec in Ec.
  apply (Forall2_Forall_iff _ _ _ _ _ Ec).
  intros bf f Hin Ef. destruct bf as [l|c].
  - apply b_literal_ok; auto. intros t Ht. apply (Hop (BLit l) t Hin).
    unfold bformula_terms. apply in_iset_of_list. exact Ht.
  - apply comparison_ok; auto; apply (Hop (BCmp c) _ Hin); unfold bformula_terms;
      apply in_iset_of_list; cbn; auto.
Qed.
End Body.

(* ---------- head ---------- *)
Lemma first_not_second t : is_term_regular_of_first_kind t = true -> is_term_regular_of_second_kind t = false.
Proof. destruct t as [p|y|o t|o l r]; cbn; auto. destruct o; auto; discriminate. Qed.

Definition cond_holds (e : env) (f : formula) : Prop := hsat FI (fun _ _ => False) (fun _ _ => False) e f.

Lemma head_sound W T ts : forall fr gs cs,
  natural_head_atom_terms ts iv fr = NOk gs ->
  natural_head_interval_formulas ts iv fr = NOk cs ->
  (forall t, In t ts -> opvars_in iv t) ->
  forall e', (forall t x, In t ts -> In x (term_vars t) -> agr e' iv x) ->
  Forall (hsat FI W T e') cs -> tuple_vals sg ts (map (ev_g FI e') gs).
Proof.
  induction ts as [|t ts IH]; intros fr gs cs Eg Ec Hop e' Hag Hc.
  - cbn in Eg. inversion Eg; subst. constructor.
  - cbn [natural_head_atom_terms natural_head_interval_formulas] in Eg, Ec.
    assert (Hop' : forall t', In t' ts -> opvars_in iv t') by (intros; apply Hop; cbn; auto).
    assert (Hag' : forall t' x, In t' ts -> In x (term_vars t') -> agr e' iv x)
      by (intros t' x Ht'; apply Hag; cbn; auto).
    destruct (is_term_regular_of_first_kind t) eqn:Hf.
    + rewrite (first_not_second t Hf) in Ec.
      destruct (p2f t iv) as [g|] eqn:Ep; [|discriminate]. cbn [of_option nbind] in Eg.
      destruct (natural_head_atom_terms ts iv fr) as [gs'| |] eqn:Eg'; try discriminate.
      cbn in Eg. inversion Eg; subst. cbn [map]. constructor.
      * apply (p2f_vals FI sg e' t iv g Ep); auto. intros x Hx. apply (Hag t x); cbn; auto.
        apply Hop; cbn; auto.
      * apply (IH fr gs' cs); auto.
    + destruct (is_term_regular_of_second_kind t) eqn:Hs; [|discriminate].
      apply second_kind_spec in Hs. destruct Hs as [t1 [t2 [-> [A1 A2]]]].
      destruct fr as [|f fr']; [discriminate|].
      destruct (natural_head_atom_terms ts iv fr') as [gs'| |] eqn:Eg'; try discriminate.
      cbn in Eg. inversion Eg; subst.
      destruct (p2f t1 iv) as [g1|] eqn:E1; [|discriminate].
      destruct (p2f t2 iv) as [g2|] eqn:E2; [|discriminate]. cbn [unwrap nbind] in Ec.
      destruct (natural_head_interval_formulas ts iv fr') as [cs'| |] eqn:Ec'; try discriminate.
      cbn in Ec. inversion Ec; subst. inversion Hc as [|? ? Hc1 Hc2]; subst.
      cbn [map]. constructor; [|apply (IH fr' gs' cs'); auto].
      assert (Hiv : forall x, In x (term_vars (TBin AInterval t1 t2)) -> In x iv)
        by (intros x Hx; apply (Hop (TBin AInterval t1 t2)); cbn; auto).
      apply (interval_vals' e' t1 t2 g1 g2 A1 A2 Hiv); auto.
      { intros x Hx. apply (Hag (TBin AInterval t1 t2) x); cbn [In]; auto. }
      exists (ei e' f). split; [reflexivity|].
      cbn in Hc1. rewrite andb_true_r in Hc1. exact Hc1.
Qed.

Lemma head_complete W T ts : forall fr gs cs,
  natural_head_atom_terms ts iv fr = NOk gs ->
  natural_head_interval_formulas ts iv fr = NOk cs ->
  (forall t, In t ts -> opvars_in iv t) ->
  forall vs, tuple_vals sg ts vs ->
  exists zs, List.length zs = List.length fr /\
    forall e', (forall t x, In t ts -> In x (term_vars t) -> agr e' iv x) ->
      map (ei e') fr = zs ->
      Forall (hsat FI W T e') cs /\ vs = map (ev_g FI e') gs.
Proof.
  induction ts as [|t ts IH]; intros fr gs cs Eg Ec Hop vs Hvs.
  - cbn in Eg, Ec. inversion Eg; inversion Ec; subst. inversion Hvs; subst.
    exists (map (fun _ => 0%Z) fr). split; [apply map_length|]. intros e' _ _. split; [constructor|reflexivity].
  - cbn [natural_head_atom_terms natural_head_interval_formulas] in Eg, Ec.
    assert (Hop' : forall t', In t' ts -> opvars_in iv t') by (intros; apply Hop; cbn; auto).
    inversion Hvs as [|? v ? vs' Hv Hvs']; subst.
    destruct (is_term_regular_of_first_kind t) eqn:Hf.
    + rewrite (first_not_second t Hf) in Ec.
      destruct (p2f t iv) as [g|] eqn:Ep; [|discriminate]. cbn [of_option nbind] in Eg.
      destruct (natural_head_atom_terms ts iv fr) as [gs'| |] eqn:Eg'; try discriminate.
      cbn in Eg. inversion Eg; subst.
      destruct (IH fr gs' cs Eg' Ec Hop' vs' Hvs') as [zs [L Hz]].
      exists zs. split; auto. intros e' Hag Hm.
      destruct (Hz e') as [C1 C2]; auto. { intros t' x Ht'; apply Hag; cbn; auto. }
      split; auto. cbn [map]. f_equal; auto.
      apply (p2f_vals FI sg e' t iv g Ep); auto. intros x Hx. apply (Hag t x); cbn; auto.
      apply Hop; cbn; auto.
    + destruct (is_term_regular_of_second_kind t) eqn:Hs; [|discriminate].
      apply second_kind_spec in Hs. destruct Hs as [t1 [t2 [-> [A1 A2]]]].
      destruct fr as [|f fr']; [discriminate|].
      destruct (natural_head_atom_terms ts iv fr') as [gs'| |] eqn:Eg'; try discriminate.
      cbn in Eg. inversion Eg; subst.
      destruct (p2f t1 iv) as [g1|] eqn:E1; [|discriminate].
      destruct (p2f t2 iv) as [g2|] eqn:E2; [|discriminate]. cbn [unwrap nbind] in Ec.
      destruct (natural_head_interval_formulas ts iv fr') as [cs'| |] eqn:Ec'; try discriminate.
      cbn in Ec. inversion Ec; subst.
      destruct (IH fr' gs' cs' Eg' Ec' Hop' vs' Hvs') as [zs [L Hz]].
      assert (Hnum : exists k, v = VNum k).
      { apply (vals_op_is_num sg (TBin AInterval t1 t2)); auto. }
      destruct Hnum as [k ->].
      exists (k :: zs). split; [cbn; lia|]. intros e' Hag Hm.
      cbn [map] in Hm. inversion Hm as [[Hk Hm']].
      destruct (Hz e') as [C1 C2]; auto. { intros t' x Ht'; apply Hag; cbn; auto. }
      assert (Hiv : forall x, In x (term_vars (TBin AInterval t1 t2)) -> In x iv)
        by (intros x Hx; apply (Hop (TBin AInterval t1 t2)); cbn; auto).
      assert (Hag1 : forall x, In x (term_vars (TBin AInterval t1 t2)) -> agr e' iv x).
      { intros x Hx. apply (Hag (TBin AInterval t1 t2) x); cbn [In]; auto. }
      apply (interval_vals' e' t1 t2 g1 g2 A1 A2 Hiv Hag1 E1 E2) in Hv.
      destruct Hv as [k' [Ek Hk']]. inversion Ek; subst k'.
      split.
      * constructor; auto. cbn. rewrite andb_true_r, Hk. exact Hk'.
      * cbn [map ev_g ev_i]. rewrite C2, Hk. reflexivity.
Qed.

(* all terms regular of the first kind: no fresh variable, no condition *)
Lemma no_fresh_all_first ts : count_nonfirst ts = 0 ->
  forall t, In t ts -> is_term_regular_of_first_kind t = true.
Proof.
  unfold count_nonfirst. induction ts as [|t0 ts IH]; intros Hc t Hin; [destruct Hin|].
  cbn in Hc. destruct (is_term_regular_of_first_kind t0) eqn:E0; cbn in Hc; [|discriminate].
  destruct Hin as [<-|Hin]; auto.
Qed.
Lemma interval_formulas_nil ts : (forall t, In t ts -> is_term_regular_of_first_kind t = true) ->
  natural_head_interval_formulas ts iv [] = NOk [].
Proof.
  induction ts as [|t ts IH]; intros Hall; cbn; auto.
  rewrite (first_not_second t) by (apply Hall; cbn; auto). apply IH. intros; apply Hall; cbn; auto.
Qed.

(* the quantified head: "for all fresh integers, conditions -> conclusion" against value tuples *)
Lemma head_quantified (W T : pint) (Q : list gval -> Prop) (QT : list gval -> Prop) e ts fr gs cs :
  natural_head_atom_terms ts iv fr = NOk gs ->
  natural_head_interval_formulas ts iv fr = NOk cs ->
  (forall t, In t ts -> opvars_in iv t) ->
  (forall t x, In t ts -> In x (term_vars t) -> agr e iv x) ->
  NoDup fr -> (forall f t, In f fr -> In t ts -> ~ In f (term_vars t)) ->
  ((forall zs, List.length zs = List.length fr ->
      let e' := upd_ints e fr zs in
      (Forall (hsat FI W T e') cs -> Q (map (ev_g FI e') gs)) /\
      (Forall (csat FI T e') cs -> QT (map (ev_g FI e') gs)))
   <-> (forall vs, tuple_vals sg ts vs -> Q vs) /\ (forall vs, tuple_vals sg ts vs -> QT vs)).
Proof.
  intros Eg Ec Hop Hag ND Hfr.
  assert (Hag' : forall zs t x, In t ts -> In x (term_vars t) -> agr (upd_ints e fr zs) iv x).
  { intros zs t x Ht Hx. specialize (Hag t x Ht Hx). unfold agree in *.
    rewrite upd_ints_eg. rewrite upd_ints_ei_other; auto. intros Hin. apply (Hfr x t Hin Ht Hx). }
  split.
  - intros Hq. split; intros vs Hvs.
    + destruct (head_complete W T ts fr gs cs Eg Ec Hop vs Hvs) as [zs [L Hz]].
      destruct (Hz (upd_ints e fr zs) (Hag' zs)) as [C ->]; [apply upd_ints_ei_map; auto|].
      apply (Hq zs L). exact C.
    + destruct (head_complete T T ts fr gs cs Eg Ec Hop vs Hvs) as [zs [L Hz]].
      destruct (Hz (upd_ints e fr zs) (Hag' zs)) as [C ->]; [apply upd_ints_ei_map; auto|].
      apply (Hq zs L). rewrite Forall_forall in *. intros c Hc. apply hsat_total. auto.
  - intros [HQ HQT] zs L e'. split; intros C.
    + apply HQ. apply (head_sound W T ts fr gs cs); auto. apply Hag'.
    + apply HQT. apply (head_sound T T ts fr gs cs); auto. apply Hag'.
      rewrite Forall_forall in *. intros c Hc. apply hsat_total. auto.
Qed.

Lemma head_ok (W T : pint) e h F :
  (forall p a, W p a -> T p a) ->
  natural_head h iv = NOk F ->
  (forall ts t, head_terms h = Some ts -> In t ts -> opvars_in iv t) ->
  (forall x, agr e iv x) ->
  (hsat FI W T e F <-> head_sat W T sg h).
Proof.
  intros HS EF Hop Hag. destruct h as [a|a|]; cbn [natural_head] in EF.
  - (* basic head *)
    unfold natural_basic_head in EF.
    destruct (fresh_variables_for_head_atom a) as [fr|] eqn:Efr; [|discriminate]. cbn [unwrap nbind] in EF.
    destruct (fresh_variables_for_head_atom_spec a fr Efr) as [ND [L Hfresh]].
    unfold natural_head_atom in EF.
    destruct (natural_head_atom_terms (aterms a) iv fr) as [gs| |] eqn:Eg; try discriminate.
    cbn [nbind] in EF.
    assert (Hop' : forall t, In t (aterms a) -> opvars_in iv t) by (intros t Ht; apply (Hop (aterms a)); auto).
    assert (Hnf : forall f t, In f fr -> In t (aterms a) -> ~ In f (term_vars t)).
    { intros f t Hf Ht Hin. apply (Hfresh f Hf). apply in_atom_vars. eauto. }
    destruct fr as [|f0 fr0].
    + inversion EF; subst F. cbn [hsat asat head_sat].
      pose proof (interval_formulas_nil (aterms a) (no_fresh_all_first _ (eq_sym L))) as Ec.
      pose proof (head_quantified W T (W (apred a)) (fun _ => True) e (aterms a) [] gs [] Eg Ec Hop'
                    (fun t x _ _ => Hag x) ND Hnf) as HQ.
      cbn in HQ. split.
      * intros Hw. apply HQ. intros zs _. split; auto.
      * intros Hh. destruct HQ as [_ HQ]. apply (HQ (conj Hh (fun _ _ => I)) [] eq_refl). constructor.
    + unfold natural_head_interval in EF.
      destruct (natural_head_interval_formulas (aterms a) iv (f0 :: fr0)) as [cs| |] eqn:Ec; try discriminate.
      cbn [nbind] in EF. inversion EF; subst F. clear EF.
      cbn [hsat head_sat]. unfold int_binders. rewrite (qsat_forall_ints _ (f0 :: fr0)).
      pose proof (head_quantified W T (W (apred a)) (T (apred a)) e (aterms a) (f0 :: fr0) gs cs Eg Ec Hop'
                    (fun t x _ _ => Hag x) ND Hnf) as HQ.
      split.
      * intros Hq. apply HQ. intros zs Lz e'. specialize (Hq zs Lz). cbn [hsat csat asat] in Hq.
        rewrite hsat_conjoin, csat_conjoin in Hq. exact Hq.
      * intros Hh zs Lz. cbn [hsat csat asat]. rewrite hsat_conjoin, csat_conjoin.
        assert (HCD : (forall vs, tuple_vals sg (aterms a) vs -> W (apred a) vs) /\
                      (forall vs, tuple_vals sg (aterms a) vs -> T (apred a) vs))
          by (split; [exact Hh|intros vs Hvs; apply HS, Hh, Hvs]).
        apply HQ; auto.
  - (* choice head *)
    unfold natural_choice_head in EF.
    destruct (fresh_variables_for_head_atom a) as [fr|] eqn:Efr; [|discriminate]. cbn [unwrap nbind] in EF.
    destruct (fresh_variables_for_head_atom_spec a fr Efr) as [ND [L Hfresh]].
    unfold natural_head_atom in EF.
    destruct (natural_head_atom_terms (aterms a) iv fr) as [gs| |] eqn:Eg; try discriminate.
    cbn [nbind] in EF.
    assert (Hop' : forall t, In t (aterms a) -> opvars_in iv t) by (intros t Ht; apply (Hop (aterms a)); auto).
    assert (Hnf : forall f t, In f fr -> In t (aterms a) -> ~ In f (term_vars t)).
    { intros f t Hf Ht Hin. apply (Hfresh f Hf). apply in_atom_vars. eauto. }
    destruct fr as [|f0 fr0].
    + inversion EF; subst F. cbn [hsat csat asat head_sat].
      pose proof (interval_formulas_nil (aterms a) (no_fresh_all_first _ (eq_sym L))) as Ec.
      pose proof (head_quantified W T (fun vs => W (apred a) vs \/ ~ T (apred a) vs) (fun _ => True) e
                    (aterms a) [] gs [] Eg Ec Hop' (fun t x _ _ => Hag x) ND Hnf) as HQ.
      cbn in HQ. split.
      * intros Hw. apply HQ. intros zs _. split; auto.
      * intros Hh. destruct HQ as [_ HQ]. apply (HQ (conj Hh (fun _ _ => I)) [] eq_refl). constructor.
    + unfold natural_head_interval in EF.
      destruct (natural_head_interval_formulas (aterms a) iv (f0 :: fr0)) as [cs| |] eqn:Ec; try discriminate.
      cbn [nbind] in EF. inversion EF; subst F. clear EF.
      cbn [hsat head_sat]. unfold int_binders. rewrite (qsat_forall_ints _ (f0 :: fr0)).
      pose proof (head_quantified W T (fun vs => W (apred a) vs \/ ~ T (apred a) vs)
                    (fun vs => T (apred a) vs \/ ~ T (apred a) vs) e (aterms a) (f0 :: fr0) gs cs Eg Ec Hop'
                    (fun t x _ _ => Hag x) ND Hnf) as HQ.
      split.
      * intros Hq. apply HQ. intros zs Lz e'. specialize (Hq zs Lz). cbn [hsat csat asat] in Hq.
        rewrite hsat_conjoin, csat_conjoin in Hq. exact Hq.
      * intros Hh zs Lz. cbn [hsat csat asat]. rewrite hsat_conjoin, csat_conjoin.
        assert (HCD : (forall vs, tuple_vals sg (aterms a) vs -> W (apred a) vs \/ ~ T (apred a) vs) /\
                      (forall vs, tuple_vals sg (aterms a) vs -> T (apred a) vs \/ ~ T (apred a) vs))
          by (split; [exact Hh|intros vs Hvs; destruct (Hh vs Hvs) as [A|A]; auto]).
        apply HQ; auto.
  - inversion EF; subst. cbn. tauto.
Qed.
End Inst.
