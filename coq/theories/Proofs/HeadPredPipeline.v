(* Role stability along the real pipeline of external equivalence
     program.tau_star().replace_placeholders(..).completion(inputs)  then  apply_fixpoint(portfolio):
   every formula of the completed theory is [classified] (it has a head atom, or it is a constraint
   over an implication-free body), hence (Proofs/HeadPred.v) `head_predicate` gives the same answer
   before and after simplification, for the panic-aware runner of Model/ExternalFull.v as well;
   hence `control_translate` assigns the same names, roles and directions with and without
   `--no-simplify`, formula by formula. *)
From Coq Require Import List Ascii String ZArith NArith Bool Lia.
From Anthem Require Import Base.ISet Base.Fresh Syntax.Fol Syntax.Asp Model.Apply Model.Subst
  Model.SimplIntuit Model.SimplClassic Model.StrategyCls Model.Outline Model.External Model.TauStar
  Model.Completion Model.ExternalFull
  Proofs.CompletionShape Proofs.CompletionOk Proofs.TauStarProgram Proofs.StrategyClsOk Proofs.HeadPred.
Import ListNotations.
Open Scope string_scope.
Open Scope list_scope.

(* ------------------------------------------------------------------ tau* bodies are implication-free *)
Lemma imp_free_val t : forall z, imp_free (val t z) = true.
Proof.
  induction t as [p|v|o a IH|o l IHl r IHr]; intros z.
  - reflexivity.
  - reflexivity.
  - destruct o. cbn. rewrite IH. reflexivity.
  - cbn [val]. destruct o; cbn; rewrite ?IHl, ?IHr; cbn; try reflexivity;
      match goal with |- context [match ?o with _ => _ end] => destruct o end; reflexivity.
Qed.
Lemma forallb_map_true {A} (f : A -> formula) l : (forall x, imp_free (f x) = true) -> forallb imp_free (map f l) = true.
Proof. intros H. induction l as [|x l IH]; cbn; auto. rewrite H, IH. reflexivity. Qed.
Lemma imp_free_valtz ts vs : imp_free (valtz ts vs) = true.
Proof. unfold valtz. apply imp_free_conjoin, forallb_map_true. intros [t0 v0]. apply imp_free_val. Qed.
Lemma imp_free_sign_wrap s f : imp_free (sign_wrap s f) = imp_free f.
Proof. destruct s; reflexivity. Qed.
Lemma imp_free_tau_b b : imp_free (tau_b b) = true.
Proof.
  destruct b as [l|c]; unfold tau_b.
  - destruct (aterms (latom l)) eqn:E.
    + unfold tau_b_propositional_literal. rewrite imp_free_sign_wrap. reflexivity.
    + unfold tau_b_first_order_literal. cbn [imp_free]. rewrite imp_free_sign_wrap. cbn.
      rewrite andb_true_r. apply imp_free_conjoin, forallb_map_true. intros [t0 v0]. apply imp_free_val.
  - unfold tau_b_comparison. cbn [imp_free]. rewrite andb_true_r.
    apply imp_free_conjoin. cbn. rewrite !imp_free_val. reflexivity.
Qed.
Lemma imp_free_tau_body b : imp_free (tau_body b) = true.
Proof. unfold tau_body. apply imp_free_conjoin, forallb_map_true, imp_free_tau_b. Qed.

(* a rule formula: one optional universal block over  B -> H  with B implication-free *)
Definition rule_like (f : formula) : Prop :=
  exists B H, strip f = FBin CImp B H /\ imp_free B = true.

Lemma strip_block (vs : list var) (imp : formula) :
  (forall q ws g, imp <> FQ q ws g) -> strip (match vs with [] => imp | v :: vs' => FQ QForall (v :: vs') imp end) = imp.
Proof. intros H. destruct vs; [|reflexivity]. destruct imp as [| | |q ws g]; try reflexivity. destruct (H q ws g eq_refl). Qed.

Lemma tau_star_rule_like r globals F : tau_star_rule r globals = Some F -> rule_like F.
Proof.
  unfold tau_star_rule. destruct (head_pred (rhead r)).
  - destruct (Nat.ltb 0 (head_arity (rhead r))).
    + unfold tau_star_fo_head_rule. destruct (TauStar.head_atom (rhead r)) as [a|]; [|discriminate].
      destruct (Nat.ltb _ _); [discriminate|]. intros [= <-]. cbn [strip]. do 2 eexists. split; [reflexivity|].
      destruct (is_choice (rhead r)); cbn; rewrite imp_free_valtz, imp_free_tau_body; reflexivity.
    + unfold tau_star_prop_head_rule. destruct (TauStar.head_atom (rhead r)) as [a|]; [|discriminate].
      intros [= <-]. unfold rule_like. rewrite strip_block by discriminate. do 2 eexists. split; [reflexivity|].
      destruct (is_choice (rhead r)); cbn; rewrite imp_free_tau_body; reflexivity.
  - intros [= <-]. unfold tau_star_constraint_rule, rule_like. rewrite strip_block by discriminate.
    do 2 eexists. split; [reflexivity|]. apply imp_free_tau_body.
Qed.

Lemma tau_star_rule_like_all P G : TauStar.tau_star P = Some G -> forall f, In f G -> rule_like f.
Proof.
  unfold TauStar.tau_star. destruct (choose_fresh_global_variables P) as [globals|]; [|discriminate].
  intros H. apply map_opt_forall2 in H. induction H as [|r F P' G' HrF _ IH]; intros f [].
  - subst. eapply tau_star_rule_like; eauto.
  - apply IH. assumption.
Qed.

Lemma imp_free_rp m f : imp_free (rp_formula m f) = imp_free f.
Proof. induction f as [a|g IH|c l IHl r IHr|q vs g IH]; cbn; auto. rewrite IHl, IHr. reflexivity. Qed.
Lemma strip_rp m f : strip (rp_formula m f) = rp_formula m (strip f).
Proof. destruct f as [| | |[] vs g]; reflexivity. Qed.
Lemma rule_like_rp m f : rule_like f -> rule_like (rp_formula m f).
Proof.
  intros [B [H [E HB]]]. exists (rp_formula m B), (rp_formula m H). rewrite strip_rp, E. split; [reflexivity|].
  rewrite imp_free_rp. exact HB.
Qed.

(* ------------------------------------------------------------------ completion output is classified *)
Lemma complete_definition_head e :
  HeadPred.head_atom (complete_definition e) = Some (hsym (fst e), hargs (fst e)).
Proof. unfold complete_definition. rewrite head_atom_quantify. reflexivity. Qed.

(* ... and is a completed definition in the sense of [def_shape] *)
Lemma complete_definition_def_shape e :
  def_shape (hsym (fst e)) (List.length (hargs (fst e))) (complete_definition e).
Proof.
  unfold complete_definition, quantify. destruct (aformula_vars (hatom_formula (fst e))).
  - apply ds_prop. reflexivity.
  - apply ds_forall. reflexivity.
Qed.

Lemma constraints_cs_shape G defs cs :
  components G = Some (defs, cs) -> (forall f, In f G -> rule_like f) ->
  forall c, In c cs -> cs_shape (universal_closure c).
Proof.
  intros Hc HG c Hc'. apply components_spec in Hc. destruct Hc as [_ [-> _]].
  apply in_flat_map in Hc'. destruct Hc' as [f [Hf Hcf]].
  unfold split_constraints in Hcf. destruct (split f) as [[F a|c0]|] eqn:Es; try contradiction.
  destruct Hcf as [<-|[]]. apply split_constraint in Es. destruct Es as [-> [_ [F HF]]].
  destruct (HG f Hf) as [B [H [E HB]]]. rewrite E in *.
  unfold universal_closure. apply cs_quantify.
  destruct HF as [HF|HF]; [|discriminate]. injection HF as <- ->. apply cs_imp. exact HB.
Qed.

Theorem completion_classified G ins D :
  completion G ins = Some D -> (forall f, In f G -> rule_like f) ->
  forall d, In d D ->
    (exists e, d = complete_definition e) \/ cs_shape d.
Proof.
  intros HD HG d Hd. apply completion_structure in HD. destruct HD as [defs [cs [Hc [_ ->]]]].
  apply in_app_iff in Hd. destruct Hd as [Hd|Hd].
  - right. apply in_map_iff in Hd. destruct Hd as [c [<- Hc']]. eapply constraints_cs_shape; eauto.
  - left. apply in_map_iff in Hd. destruct Hd as [e [<- _]]. eauto.
Qed.

Corollary completion_all_classified G ins D :
  completion G ins = Some D -> (forall f, In f G -> rule_like f) -> forall d, In d D -> classified d.
Proof.
  intros HD HG d Hd. destruct (completion_classified G ins D HD HG d Hd) as [[e ->]|H].
  - left. rewrite complete_definition_head. eauto.
  - right. exact H.
Qed.

(* the completed theory of a program (with placeholders replaced) *)
Theorem translated_classified P G m ins D :
  TauStar.tau_star P = Some G -> completion (rp_theory m G) ins = Some D -> forall d, In d D -> classified d.
Proof.
  intros HG HD. apply (completion_all_classified _ _ _ HD).
  intros f Hf. unfold rp_theory in Hf. apply in_map_iff in Hf. destruct Hf as [f0 [<- Hf0]].
  apply rule_like_rp. eapply tau_star_rule_like_all; eauto.
Qed.

(* ... and with the empty completed definitions of the missing output predicates
   (/repo 70e6ace, 18b2e85): they ARE completed definitions (complete_definition of an empty entry) *)
Lemma empty_definition_classified q : classified (empty_definition q).
Proof. left. unfold empty_definition. rewrite complete_definition_head. eauto. Qed.
Lemma empty_definition_def_shape q : def_shape (psym q) (parity q) (empty_definition q).
Proof.
  unfold empty_definition.
  pose proof (complete_definition_def_shape (atomic_formula_from q, [])) as H. cbn [fst] in H.
  pose proof (atomic_formula_from_pred q) as E. unfold hatom_pred in E.
  rewrite <- E at 1 2. exact H.
Qed.
Lemma missing_outputs_classified outs occ D f : In f (missing_output_definitions outs occ D) -> classified f.

Proof.
  unfold missing_output_definitions. intros Hf. apply in_map_iff in Hf. destruct Hf as [q [<- _]].
  apply empty_definition_classified.
Qed.
Theorem translated_classified_ext P G m ins outs occ D :
  TauStar.tau_star P = Some G -> completion (rp_theory m G) ins = Some D ->
  forall d, In d (D ++ missing_output_definitions outs occ D) -> classified d.
Proof.
  intros HG HD d Hd. apply in_app_or in Hd. destruct Hd as [Hd|Hd].
  - eapply translated_classified; eauto.
  - eapply missing_outputs_classified; eauto.
Qed.

(* ------------------------------------------------------------------ the runner of Model/ExternalFull.v *)
Lemma FULL_eq : FULL = FULL_CLASSIC_total.
Proof. reflexivity. Qed.

Lemma lift_total_refines rs : Forall2 refines (map lift_total rs) rs.
Proof. induction rs as [|r rs IH]; cbn; constructor; auto. intros x y [= <-]. reflexivity. Qed.
Lemma FULL_CLASSIC_opt_refines' : Forall2 refines FULL_CLASSIC_opt FULL.
Proof.
  unfold FULL_CLASSIC_opt, FULL. rewrite app_assoc.
  apply Forall2_app; [apply lift_total_refines|apply CLASSIC_opt_refines].
Qed.

Lemma simp_classic_run_done fuel F G :
  simp_classic_run fuel F = RDone G -> apply_fixpoint fuel (compose FULL) F = Some G.
Proof.
  unfold simp_classic_run. intros H.
  apply (run_strategy_opt_refines fuel _ _ _ _ _ FULL_CLASSIC_opt_refines') in H. exact H.
Qed.

(* the simplification step of the full model keeps the classification; where the run panics or
   does not terminate the totalised function is the identity (and the full model answers XPanic /
   XNonterminating instead of using the value) *)
Theorem simp_classic_total_head fuel F :
  classified F ->
  head_predicate (simp_classic_total fuel F) = head_predicate F /\ classified (simp_classic_total fuel F).
Proof.
  intros HF. unfold simp_classic_total. destruct (simp_classic_run fuel F) as [| |G] eqn:E; auto.
  apply simp_classic_run_done in E. exact (head_predicate_invariant F fuel G HF E).
Qed.

(* ------------------------------------------------------------------ control_translate *)
Theorem control_translate_simplified fuel public th :
  (forall f, In f th -> classified f) ->
  control_translate public (map (simp_classic_total fuel) th)
  = map (annot_map (simp_classic_total fuel)) (control_translate public th).
Proof.
  intros H. apply control_translate_from_map. intros f Hf. apply simp_classic_total_head, H, Hf.
Qed.
