(* Audit A8 (a), strong-equivalence pipeline: C18_term_cls composed into Model/StrongFull.v.

     strong_decompose_full_fuel_mono   an SOk / SPanic answer with fuel n is the answer with every
                                       fuel m >= n
     strong_never_nonterminating       from [strong_fuel_bound t] on the answer is never
                                       SNonterminating
     strong_eventual_result            hence every task has ONE answer r <> SNonterminating that
                                       all sufficiently large fuels give
     strong_clash_fuel_independent     the premise no_symbol_pred_clash_full_fuel does not depend
                                       on the fuel once the run returned problems            *)
From Coq Require Import List Arith Lia Bool String.
From Anthem Require Import Base.ISet Syntax.Fol Syntax.Asp Model.Apply Model.Gamma Model.Break Model.Problem
  Model.Strong Model.TauStar Model.MuFull Model.SimplIntuit Model.SimplClassic Model.StrongFull Model.ClsTerm
  Proofs.StrongOk Proofs.StrategyClsOk Proofs.SimplFull Proofs.StrongFullOk Proofs.FuelMono.
From Anthem Require Model.StrategyCls.
Import ListNotations.

(* ---------- one formula ---------- *)
Lemma simp_classic_full_fuel_mono n f r :
  simp_classic_full_fuel n f = r -> r <> SNonterminating ->
  forall m, n <= m -> simp_classic_full_fuel m f = r.
Proof.
  unfold simp_classic_full_fuel. intros E Hr m Hle.
  destruct (StrategyCls.apply_fixpoint_opt n (StrategyCls.compose_opt FULL_CLASSIC_opt) f) as [| |g] eqn:En.
  - rewrite (apply_fixpoint_opt_more _ _ _ _ En ltac:(discriminate) m Hle). exact E.
  - congruence.
  - rewrite (apply_fixpoint_opt_more _ _ _ _ En ltac:(discriminate) m Hle). exact E.
Qed.

Lemma simp_classic_full_fuel_terminates f m :
  ClsTerm.classic_fuel f <= m -> simp_classic_full_fuel m f <> SNonterminating.
Proof.
  intros Hle. unfold simp_classic_full_fuel.
  pose proof (classic_opt_never_nonterminating FULL_CLASSIC_opt FULL_CLASSIC_opt_refines f m Hle) as H.
  destruct (StrategyCls.apply_fixpoint_opt m (StrategyCls.compose_opt FULL_CLASSIC_opt) f); congruence.
Qed.

(* ---------- lists ---------- *)
Lemma smap_mono {A B} (f g : A -> sresult B) :
  (forall x r, f x = r -> r <> SNonterminating -> g x = r) ->
  forall l r, smap f l = r -> r <> SNonterminating -> smap g l = r.
Proof.
  intros Hfg. induction l as [|x l IH]; intros r; cbn [smap]; [auto|].
  destruct (f x) as [y| |] eqn:Ex; cbn [sbind].
  - rewrite (Hfg x (SOk y) Ex ltac:(discriminate)). cbn [sbind].
    destruct (smap f l) as [ys| |] eqn:El; cbn [sbind]; intros <- Hr.
    + rewrite (IH (SOk ys) eq_refl ltac:(discriminate)). reflexivity.
    + rewrite (IH SPanic eq_refl ltac:(discriminate)). reflexivity.
    + congruence.
  - intros <- _. rewrite (Hfg x SPanic Ex ltac:(discriminate)). reflexivity.
  - intros <- Hr. congruence.
Qed.
Lemma stage_mono on (f g : formula -> sresult formula) :
  (forall x r, f x = r -> r <> SNonterminating -> g x = r) ->
  forall l r, stage on f l = r -> r <> SNonterminating -> stage on g l = r.
Proof. intros Hfg l r. unfold stage. destruct on; [apply smap_mono, Hfg|auto]. Qed.

Lemma smap_terminates {A B} (f : A -> sresult B) l :
  (forall x, In x l -> f x <> SNonterminating) -> smap f l <> SNonterminating.
Proof.
  induction l as [|x l IH]; intros H; cbn [smap]; [discriminate|].
  pose proof (H x (or_introl eq_refl)) as Hx.
  destruct (f x) as [y| |]; cbn [sbind]; [|discriminate|congruence].
  specialize (IH (fun z Hz => H z (or_intror Hz))).
  destruct (smap f l); cbn [sbind]; congruence.
Qed.
Lemma stage_classic_terminates on th m :
  theory_fuel th <= m -> stage on (simp_classic_full_fuel m) th <> SNonterminating.
Proof.
  intros Hle. unfold stage. destruct on; [|discriminate].
  apply smap_terminates. intros x Hx. apply simp_classic_full_fuel_terminates.
  pose proof (theory_fuel_in th x Hx). lia.
Qed.

(* ---------- the task ---------- *)
Theorem strong_decompose_full_fuel_mono n t r :
  strong_decompose_full_fuel n t = r -> r <> SNonterminating ->
  forall m, n <= m -> strong_decompose_full_fuel m t = r.
Proof.
  intros E Hr m Hle. revert E. unfold strong_decompose_full_fuel.
  destruct (repr_full (st_repr t) (st_left t)) as [l0| |]; cbn [sbind]; [|auto|auto].
  destruct (repr_full (st_repr t) (st_right t)) as [r0| |]; cbn [sbind]; [|auto|auto].
  destruct (stage (st_simplify t) simp_ht_full l0) as [l1| |]; cbn [sbind]; [|auto|auto].
  destruct (stage (st_simplify t) simp_ht_full r0) as [r1| |]; cbn [sbind]; [|auto|auto].
  assert (Hm : forall x r', simp_classic_full_fuel n x = r' -> r' <> SNonterminating -> simp_classic_full_fuel m x = r')
    by (intros x r' Hx Hr'; exact (simp_classic_full_fuel_mono n x r' Hx Hr' m Hle)).
  destruct (stage (st_simplify t) (simp_classic_full_fuel n) (gamma_theory l1)) as [l3| |] eqn:El3; cbn [sbind].
  - rewrite (stage_mono _ _ _ Hm _ _ El3 ltac:(discriminate)). cbn [sbind].
    destruct (stage (st_simplify t) (simp_classic_full_fuel n) (gamma_theory r1)) as [r3| |] eqn:Er3; cbn [sbind].
    + rewrite (stage_mono _ _ _ Hm _ _ Er3 ltac:(discriminate)). cbn [sbind]. auto.
    + rewrite (stage_mono _ _ _ Hm _ _ Er3 ltac:(discriminate)). cbn [sbind]. auto.
    + intros <-. congruence.
  - rewrite (stage_mono _ _ _ Hm _ _ El3 ltac:(discriminate)). cbn [sbind]. auto.
  - intros <-. congruence.
Qed.

(* a bound on the passes of the two post-gamma loops of the task: the maximum of
   ClsTerm.classic_fuel over the gamma-formulas (0 when an earlier stage failed) *)
Definition strong_fuel_bound (t : strong_task) : nat :=
  match repr_full (st_repr t) (st_left t), repr_full (st_repr t) (st_right t) with
  | SOk l0, SOk r0 =>
      match stage (st_simplify t) simp_ht_full l0, stage (st_simplify t) simp_ht_full r0 with
      | SOk l1, SOk r1 => Nat.max (theory_fuel (gamma_theory l1)) (theory_fuel (gamma_theory r1))
      | _, _ => 0
      end
  | _, _ => 0
  end.

Lemma stage_ht_terminates on th : stage on simp_ht_full th <> SNonterminating.
Proof.
  unfold stage. destruct on; [|discriminate]. apply smap_terminates.
  intros x _. destruct (simp_ht_full_total x) as [g ->]. discriminate.
Qed.

Theorem strong_never_nonterminating t m :
  strong_fuel_bound t <= m -> strong_decompose_full_fuel m t <> SNonterminating.
Proof.
  unfold strong_fuel_bound, strong_decompose_full_fuel.
  destruct (repr_full (st_repr t) (st_left t)) as [l0| |] eqn:El0; cbn [sbind]; [|discriminate|].
  2:{ unfold repr_full, of_panic in El0.
      destruct (match st_repr t with ReprMu => mu_full (st_left t) | ReprTauStar => tau_star (st_left t) end); discriminate. }
  destruct (repr_full (st_repr t) (st_right t)) as [r0| |] eqn:Er0; cbn [sbind]; [|discriminate|].
  2:{ unfold repr_full, of_panic in Er0.
      destruct (match st_repr t with ReprMu => mu_full (st_right t) | ReprTauStar => tau_star (st_right t) end); discriminate. }
  pose proof (stage_ht_terminates (st_simplify t) l0) as Hl1.
  pose proof (stage_ht_terminates (st_simplify t) r0) as Hr1.
  destruct (stage (st_simplify t) simp_ht_full l0) as [l1| |]; cbn [sbind]; [|discriminate|congruence].
  destruct (stage (st_simplify t) simp_ht_full r0) as [r1| |]; cbn [sbind]; [|discriminate|congruence].
  intros Hle.
  pose proof (stage_classic_terminates (st_simplify t) (gamma_theory l1) m ltac:(lia)) as Hl3.
  pose proof (stage_classic_terminates (st_simplify t) (gamma_theory r1) m ltac:(lia)) as Hr3.
  destruct (stage (st_simplify t) (simp_classic_full_fuel m) (gamma_theory l1)); cbn [sbind]; [|discriminate|congruence].
  destruct (stage (st_simplify t) (simp_classic_full_fuel m) (gamma_theory r1)); cbn [sbind]; [discriminate|discriminate|congruence].
Qed.

Theorem C03_never_nonterminating_proof t :
  exists n, forall m, n <= m -> strong_decompose_full_fuel m t <> SNonterminating.
Proof. exists (strong_fuel_bound t). apply strong_never_nonterminating. Qed.

(* every task has one answer, an SOk or an SPanic, which every sufficiently large fuel gives *)
Theorem strong_eventual_result t :
  exists n r, r <> SNonterminating /\ forall m, n <= m -> strong_decompose_full_fuel m t = r.
Proof.
  exists (strong_fuel_bound t), (strong_decompose_full_fuel (strong_fuel_bound t) t).
  pose proof (strong_never_nonterminating t _ (le_n _)) as H. split; [exact H|].
  intros m Hle. exact (strong_decompose_full_fuel_mono _ t _ eq_refl H m Hle).
Qed.

(* SNonterminating is only a fuel artefact: more fuel turns it into the task's real answer *)
Corollary strong_nonterminating_is_fuel_artefact n t :
  strong_decompose_full_fuel n t = SNonterminating ->
  exists m r, n < m /\ r <> SNonterminating /\ forall m', m <= m' -> strong_decompose_full_fuel m' t = r.
Proof.
  intros E. destruct (strong_eventual_result t) as [k [r [Hr Hk]]].
  exists (S (Nat.max n k)), r. split; [lia|]. split; [exact Hr|]. intros m' Hm'. apply Hk. lia.
Qed.

(* ---------- the clash premise does not depend on the fuel once the run returned ---------- *)
Lemma smap_ok_pointwise {A B} (f : A -> sresult B) l m :
  smap f l = SOk m -> Forall2 (fun x y => f x = SOk y) l m.
Proof.
  revert m. induction l as [|x l IH]; intros m; cbn [smap].
  - intros [= <-]. constructor.
  - destruct (f x) as [y| |] eqn:Ex; cbn [sbind]; try discriminate.
    destruct (smap f l) as [ys| |]; cbn [sbind]; try discriminate.
    intros [= <-]. constructor; [exact Ex|apply IH; reflexivity].
Qed.

Lemma classic_tot_agree n m th th' : n <= m ->
  smap (simp_classic_full_fuel n) th = SOk th' ->
  map (simp_classic_tot_fuel n) th = map (simp_classic_tot_fuel m) th.
Proof.
  intros Hle E. apply smap_ok_pointwise in E. induction E as [|x y l l' Hxy _ IH]; [reflexivity|].
  cbn [map]. f_equal; [|exact IH].
  rewrite (simp_classic_full_tot n x y Hxy).
  symmetry. apply simp_classic_full_tot.
  exact (simp_classic_full_fuel_mono n x (SOk y) Hxy ltac:(discriminate) m Hle).
Qed.

Theorem strong_sides_fuel_independent n m t pbs : n <= m ->
  strong_decompose_full_fuel n t = SOk pbs ->
  strong_side tau_star_tot mu_tot simp_ht_tot (simp_classic_tot_fuel n) t (st_left t)
  = strong_side tau_star_tot mu_tot simp_ht_tot (simp_classic_tot_fuel m) t (st_left t) /\
  strong_side tau_star_tot mu_tot simp_ht_tot (simp_classic_tot_fuel n) t (st_right t)
  = strong_side tau_star_tot mu_tot simp_ht_tot (simp_classic_tot_fuel m) t (st_right t).
Proof.
  intros Hle. unfold strong_decompose_full_fuel, strong_side.
  destruct (repr_full (st_repr t) (st_left t)) as [l0| |] eqn:El0; cbn [sbind]; try discriminate.
  destruct (repr_full (st_repr t) (st_right t)) as [r0| |] eqn:Er0; cbn [sbind]; try discriminate.
  destruct (stage (st_simplify t) simp_ht_full l0) as [l1| |] eqn:El1; cbn [sbind]; try discriminate.
  destruct (stage (st_simplify t) simp_ht_full r0) as [r1| |] eqn:Er1; cbn [sbind]; try discriminate.
  destruct (stage (st_simplify t) (simp_classic_full_fuel n) (gamma_theory l1)) as [l3| |] eqn:El3; cbn [sbind]; try discriminate.
  destruct (stage (st_simplify t) (simp_classic_full_fuel n) (gamma_theory r1)) as [r3| |] eqn:Er3; cbn [sbind]; try discriminate.
  intros _.
  destruct (repr_full_ok _ _ _ El0) as [-> _]. destruct (repr_full_ok _ _ _ Er0) as [-> _].
  apply (stage_ok _ _ _ simp_ht_full_tot) in El1, Er1. subst l1 r1.
  unfold stage in El3, Er3.
  destruct (st_simplify t); [|split; reflexivity].
  rewrite (classic_tot_agree n m _ _ Hle El3), (classic_tot_agree n m _ _ Hle Er3).
  destruct (st_repr t); split; reflexivity.
Qed.

Theorem strong_clash_fuel_independent n m t pbs : n <= m ->
  strong_decompose_full_fuel n t = SOk pbs ->
  (no_symbol_pred_clash_full_fuel n t <-> no_symbol_pred_clash_full_fuel m t).
Proof.
  intros Hle E. destruct (strong_sides_fuel_independent n m t pbs Hle E) as [Hl Hr].
  unfold no_symbol_pred_clash_full_fuel, no_symbol_pred_clash, side. cbv zeta.
  rewrite Hl, Hr. reflexivity.
Qed.
