(* C05: gamma reduces HT satisfaction to classical satisfaction. *)
From Coq Require Import List Ascii String ZArith Bool.
From Anthem Require Import Syntax.Fol Sem.Domain Sem.Sat Model.Apply Model.Gamma.
Import ListNotations.
Open Scope list_scope.
Open Scope string_scope.

(* M gives p's h-copy the extent of p in H and p's t-copy the extent of p in T *)
Definition copies (H T M : pint) : Prop :=
  forall p a, (M ("h" ++ p) a <-> H p a) /\ (M ("t" ++ p) a <-> T p a).

Definition merge (H T : pint) : pint := fun p a =>
  match p with
  | String "h"%char p' => H p' a
  | String "t"%char p' => T p' a
  | _ => False end.
Lemma merge_copies H T : copies H T (merge H T).
Proof. intros p a; cbn; tauto. Qed.

(* structural characterisation of prepend_predicate (hides [apply]) *)
Fixpoint ren (pre : string) (f : formula) : formula :=
  match f with
  | FAtomic (AAtom p ts) => FAtomic (AAtom (pre ++ p) ts)
  | FAtomic a => FAtomic a
  | FNot f => FNot (ren pre f)
  | FBin c l r => FBin c (ren pre l) (ren pre r)
  | FQ q vs f => FQ q vs (ren pre f) end.
Lemma prepend_predicate_ren f pre : prepend_predicate f pre = ren pre f.
Proof.
  unfold prepend_predicate.
  induction f as [a|f IH|c l IHl r IHr|q vs f IH]; cbn.
  - destruct a; reflexivity.
  - rewrite IH; reflexivity.
  - rewrite IHl, IHr; reflexivity.
  - rewrite IH; reflexivity.
Qed.

Lemma there_ok FI H T M (HC : copies H T M) f :
  forall e, csat FI M e (there f) <-> csat FI T e f.
Proof.
  unfold there. rewrite prepend_predicate_ren.
  induction f as [a|f IH|c l IHl r IHr|q vs f IH]; intros e; cbn.
  - destruct a; cbn; try tauto. apply HC.
  - rewrite IH; tauto.
  - destruct c; cbn; rewrite IHl, IHr; tauto.
  - apply qsat_iff; auto.
Qed.

Theorem gamma_ok FI H T M (HS : sub H T) (HC : copies H T M) f :
  forall e, hsat FI H T e f <-> csat FI M e (gamma f).
Proof.
  induction f as [a|f IH|c l IHl r IHr|q vs f IH]; intros e.
  - cbn [gamma]. unfold here. rewrite prepend_predicate_ren.
    destruct a; cbn; try tauto. symmetry; apply HC.
  - cbn. rewrite (there_ok FI H T M HC); tauto.
  - destruct c; cbn; rewrite ?(there_ok FI H T M HC), <- ?IHl, <- ?IHr; tauto.
  - cbn. apply qsat_iff; auto.
Qed.

Lemma copy_injective (c : string) p q : c ++ p = c ++ q -> p = q.
Proof. induction c as [|a c IH]; cbn; intros Heq; auto. injection Heq; auto. Qed.
Lemma copies_disjoint p q : "h" ++ p <> "t" ++ q.
Proof. cbn; congruence. Qed.

(* the h/t copy of a predicate is determined by (and determines) the predicate, at every arity:
   arity is untouched by gamma *)
Lemma gamma_predicates_shape f p :
  In p (predicates (gamma f)) ->
  exists q, In q (predicates f) /\ parity p = parity q /\ (psym p = "h" ++ psym q \/ psym p = "t" ++ psym q).
Proof.
  assert (Hren : forall pre g p, In p (predicates (ren pre g)) ->
            exists q, In q (predicates g) /\ parity p = parity q /\ psym p = pre ++ psym q).
  { intros pre g; induction g as [a|g IH|c l IHl r IHr|q vs g IH]; intros p0; cbn.
    - destruct a; cbn; try tauto. intros [<-|[]]. eexists; split; [left; reflexivity|cbn; auto].
    - apply IH.
    - rewrite !(Base.ISet.in_iset_extend pred_dec).
      intros [Hin|Hin]; [apply IHl in Hin|apply IHr in Hin]; destruct Hin as [q0 [? ?]]; exists q0; split; auto;
        rewrite (Base.ISet.in_iset_extend pred_dec); auto.
    - apply IH. }
  revert p; induction f as [a|f IH|c l IHl r IHr|q vs f IH]; intros p.
  - cbn [gamma]. unfold here. rewrite prepend_predicate_ren. intros Hin.
    apply Hren in Hin. destruct Hin as [q [? [? ?]]]; exists q; auto.
  - cbn [gamma predicates]. unfold there. rewrite prepend_predicate_ren. intros Hin.
    apply Hren in Hin. destruct Hin as [q [? [? ?]]]; exists q; auto.
  - assert (Hsub : forall p, In p (predicates (gamma l)) \/ In p (predicates (gamma r))
                             \/ In p (predicates (there l)) \/ In p (predicates (there r)) ->
       exists q, In q (predicates (FBin c l r)) /\ parity p = parity q /\
                 (psym p = "h" ++ psym q \/ psym p = "t" ++ psym q)).
    { intros p0 Hor. cbn [predicates]. unfold there in Hor. rewrite !prepend_predicate_ren in Hor.
      destruct Hor as [Hin|[Hin|[Hin|Hin]]].
      - apply IHl in Hin. destruct Hin as [q0 [? ?]]; exists q0; split; auto.
        rewrite (Base.ISet.in_iset_extend pred_dec); auto.
      - apply IHr in Hin. destruct Hin as [q0 [? ?]]; exists q0; split; auto.
        rewrite (Base.ISet.in_iset_extend pred_dec); auto.
      - apply Hren in Hin. destruct Hin as [q0 [? [? ?]]]; exists q0; split; auto.
        rewrite (Base.ISet.in_iset_extend pred_dec); auto.
      - apply Hren in Hin. destruct Hin as [q0 [? [? ?]]]; exists q0; split; auto.
        rewrite (Base.ISet.in_iset_extend pred_dec); auto. }
    destruct c; cbn [gamma predicates]; rewrite ?(Base.ISet.in_iset_extend pred_dec); intros Hin;
      apply Hsub; tauto.
  - cbn. apply IH.
Qed.
