(* C02: concrete tasks on which EVERY premise of the headline theorems is discharged (non-vacuity,
   audit A1 / cross-cutting observation C.1), and the regression witness of finding F17 (audit A4;
   repaired by /repo 70e6ace): an output predicate declared in the user guide that does not occur in
   one program, verified in one direction only - the program side now carries the empty completed
   definition and the task IS refuted. *)
From Coq Require Import List Ascii String ZArith NArith Bool Lia Classical_Prop.
From Anthem Require Import Base.ISet Syntax.Fol Syntax.Asp Sem.Domain Sem.Sat Sem.AspRef
  Model.Problem Model.Outline Model.Strong Model.External Model.Tightness Model.PrivRec Model.TauStar
  Model.Completion Model.StrategyCls Model.ExternalFull
  Proofs.ExtendAll Proofs.SemBase Proofs.DecomposeOk Proofs.StrongOk Proofs.ExternalOk Proofs.AssemblyOk Proofs.RenameOk
  Proofs.FagesBridge Proofs.PlaceholderOk Proofs.PrivateUnique
  Proofs.C19Ext Proofs.NoClashDec Proofs.C02Ok Proofs.C02Full Proofs.C02Priv Proofs.C02Behaviour.
Import ListNotations.
Open Scope string_scope.
Open Scope list_scope.

(* ---------- propositional tasks ---------- *)
Definition p0 (p : string) : bformula := BLit (mklit SNone (mkatom p [])).
Definition n0 (p : string) : bformula := BLit (mklit SNeg (mkatom p [])).
Definition r0 (h : string) (b : list bformula) : rule := mkrule (HBasic (mkatom h [])) b.
(* the interpretation in which exactly the listed 0-ary atoms hold *)
Definition Mof (l : list string) : pint := fun p d => In p l /\ d = [].

Notation tlf := (task_left tau_star_total completion (simp_classic_total full_fuel)).
Notation trf := (task_right tau_star_total completion (simp_classic_total full_fuel)).
Notation ug_valid t FI M :=
  (tvalid FI M (map (fun a => rp_formula (task_placeholders t) (an_formula a)) (filter is_assumption (ug_formulas (et_user_guide t))))).

(* ===== t6: specification  q :- in.  out :- q.     program  out :- not in.
         input: in/0.  output: out/0.   q/0 is private; the programs differ whenever in holds ===== *)
Definition L6 : program := [ r0 "q" [p0 "in"]; r0 "out" [p0 "q"] ].
Definition R6 : program := [ r0 "out" [n0 "in"] ].
Definition t6 : ext_task :=
  mkext (inl L6) R6 [UGInput (mkpred "in" 0); UGOutput (mkpred "out" 0)] [] DIndependent DUniversal ReprTauStar false true false.
Definition M6 : pint := Mof ["in"; "q"; "out"].

Definition pbs6 : list problem :=
  match external_decompose_full full_fuel t6 with XOk _ pbs => pbs | _ => [] end.
Definition lft6 := match tlf t6 L6 with Some l => l | None => [] end.
Definition rgt6 := match trf t6 with Some l => l | None => [] end.

Lemma t6_accepted : external_decompose_full full_fuel t6 = XOk [] pbs6.
Proof. vm_compute. reflexivity. Qed.
Lemma t6_total : external_decompose_total full_fuel t6 = Ok ([], pbs6).
Proof. vm_compute. reflexivity. Qed.
Lemma t6_left : tlf t6 L6 = Some lft6. Proof. vm_compute. reflexivity. Qed.
Lemma t6_right : trf t6 = Some rgt6. Proof. vm_compute. reflexivity. Qed.
Lemma t6_tight : is_tight L6 = true /\ is_tight R6 = true. Proof. split; vm_compute; reflexivity. Qed.
Lemma t6_outputs_occur : outputs_occur t6.
Proof. apply outputs_occurb_spec. vm_compute. reflexivity. Qed.
Lemma t6_no_clash :
  forall vt, task_validated tau_star_total completion (simp_classic_total full_fuel) t6 = Some vt -> validated_no_clash vt.
Proof. apply task_no_clashb_spec. vm_compute. reflexivity. Qed.
Lemma t6_ug FI M : ug_valid t6 FI M. Proof. intros f []. Qed.
Lemma t6_assumptions_left FI : tvalid FI M6 (assumptions_of lft6).
Proof.
  intros f Hf. vm_compute in Hf. destruct Hf as [<-|[]]. intros e. cbn. unfold M6, Mof. cbn. intuition.
Qed.
Lemma t6_assumptions_right FI M : tvalid FI M (assumptions_of rgt6).
Proof. intros f Hf. vm_compute in Hf. destruct Hf. Qed.
Lemma t6_refuted FI : refutes_some FI M6 pbs6.
Proof.
  remember pbs6 as l eqn:E. vm_compute in E. subst l. eexists. split; [left; reflexivity|]. split.
  - intros a Ha. cbn in Ha. destruct Ha as [<-|[<-|[]]]; intros e; cbn; unfold M6, Mof; cbn; intuition.
  - eexists. split; [cbn; left; reflexivity|]. intros H. specialize (H (mkenv (fun _ => VInf) (fun _ => 0%Z) (fun _ => ""))).
    cbn in H. unfold M6, Mof in H. cbn in H. intuition.
Qed.

(* ===== t17 (finding F17): specification  out :- in.  out2 :- in.     program  out :- in.
         input: in/0.  output: out/0.  output: out2/0.   direction FORWARD.
         The program never produces out2, the specification does whenever in holds.  Before
         /repo 70e6ace the only emitted problem had the conjecture out <-> in, which is among its
         axioms; now a second problem has the conjecture out2 <-> #false. ===== *)
Definition L17 : program := [ r0 "out" [p0 "in"]; r0 "out2" [p0 "in"] ].
Definition R17 : program := [ r0 "out" [p0 "in"] ].
Definition t17 : ext_task :=
  mkext (inl L17) R17 [UGInput (mkpred "in" 0); UGOutput (mkpred "out" 0); UGOutput (mkpred "out2" 0)] []
        DIndependent DForward ReprTauStar false true false.
Definition M17 : pint := Mof ["in"; "out"; "out2"].
Definition pbs17 : list problem :=
  match external_decompose_full full_fuel t17 with XOk _ pbs => pbs | _ => [] end.
Definition lft17 := match tlf t17 L17 with Some l => l | None => [] end.
Definition rgt17 := match trf t17 with Some l => l | None => [] end.

Lemma t17_accepted : external_decompose_full full_fuel t17 = XOk [] pbs17 /\ List.length pbs17 = 2.
Proof. split; vm_compute; reflexivity. Qed.
Lemma t17_left : tlf t17 L17 = Some lft17. Proof. vm_compute. reflexivity. Qed.
Lemma t17_right : trf t17 = Some rgt17. Proof. vm_compute. reflexivity. Qed.
Lemma t17_tight : is_tight L17 = true /\ is_tight R17 = true. Proof. split; vm_compute; reflexivity. Qed.
Lemma t17_no_clash :
  forall vt, task_validated tau_star_total completion (simp_classic_total full_fuel) t17 = Some vt -> validated_no_clash vt.
Proof. apply task_no_clashb_spec. vm_compute. reflexivity. Qed.
Lemma t17_outputs_missing : ~ outputs_occur t17.
Proof. intros H. apply outputs_occurb_spec in H. vm_compute in H. discriminate. Qed.
(* since /repo 70e6ace the program side carries  out2 <-> #false : the second forward problem has it
   as conjecture and M17 refutes it *)
Lemma t17_right_has_empty_definition :
  In (FBin CIff (FAtomic (AAtom "out2" [])) (FAtomic AFalse)) (map an_formula rgt17).
Proof. vm_compute. auto. Qed.
Lemma t17_refuted FI : refutes_some FI M17 pbs17.
Proof.
  remember pbs17 as l eqn:E. vm_compute in E. subst l. eexists. split; [right; left; reflexivity|]. split.
  - intros a Ha. cbn in Ha.
    repeat (destruct Ha as [<-|Ha]; [intros e; cbn; unfold M17, Mof; cbn; intuition congruence|]). destruct Ha.
  - eexists. split; [cbn; left; reflexivity|]. intros H. specialize (H (mkenv (fun _ => VInf) (fun _ => 0%Z) (fun _ => ""))).
    cbn in H. unfold M17, Mof in H. cbn in H. intuition congruence.
Qed.
Lemma t17_left_stable FI : ext_stable_full t17 FI M17 L17.
Proof.
  assert (Hts : exists G, TauStar.tau_star L17 = Some G) by (eexists; vm_compute; reflexivity).
  destruct Hts as [G HG].
  assert (Htr : exists th, theory_translate tau_star_total completion (simp_classic_total full_fuel) t17 (task_placeholders t17) L17 = Some th
                           /\ th = map an_formula lft17).
  { eexists. split; vm_compute; reflexivity. }
  destruct Htr as [th [Htr Eth]].
  apply (translate_meaning_full full_fuel t17 L17 G th (proj1 t17_tight)); auto.
  - intros r h Hr Hh Hin. vm_compute in Hin. destruct Hin as [<-|[]].
    destruct Hr as [<-|[<-|[]]]; vm_compute in Hh; discriminate.
  - subst th. intros f Hf. vm_compute in Hf. destruct Hf as [<-|[<-|[]]]; intros e; cbn; unfold M17, Mof; cbn; intuition.
Qed.
Lemma t17_right_cannot FI :
  ~ exists N, pub_agree t17 N (reindex (task_mapping t17) M17) /\ ext_stable_full t17 FI N R17.
Proof.
  intros [N [Hpub Hst]].
  apply (ext_stable_nonhead_empty t17 FI N R17 (mkpred "out2" 0) Hst) with (d := []).
  - intros r [<-|[]]. vm_compute. discriminate.
  - vm_compute. intros [H|[]]. discriminate.
  - vm_compute. auto 10.
  - reflexivity.
  - apply (Hpub (mkpred "out2" 0)); [vm_compute; auto 10|reflexivity|].
    unfold reindex, M17, Mof. cbn. auto 10.
Qed.

(* ---------- the right-hand sides on t6, obtained THROUGH the theorems ---------- *)
Definition es_full (t : ext_task) (FI : fint) (M : pint) (P : program) : Prop :=
  match theory_translate tau_star_total completion (simp_classic_total full_fuel) t (task_placeholders t) P with
  | Some th => tvalid FI M th | None => True end.
Lemma es_full_meaning : forall t P th FI M,
  theory_translate tau_star_total completion (simp_classic_total full_fuel) t (task_placeholders t) P = Some th ->
  (tvalid FI M th <-> es_full t FI M P).
Proof. intros t P th FI M E. unfold es_full. rewrite E. tauto. Qed.

Lemma t6_assembly_rhs FI :
  (dir_forward (et_direction t6) = true /\ tvalid FI M6 (specs_of lft6) /\ ~ tvalid FI M6 (specs_of rgt6)) \/
  (dir_backward (et_direction t6) = true /\ tvalid FI M6 (specs_of rgt6) /\ ~ tvalid FI M6 (specs_of lft6)).
Proof.
  exact (proj1 (C02_assembly_proof is_tight has_private_recursion tau_star_total completion (simp_classic_total full_fuel)
                  t6 L6 [] pbs6 lft6 rgt6 eq_refl eq_refl t6_total t6_left t6_right t6_no_clash FI M6
                  (t6_ug FI M6) (t6_assumptions_left FI) (t6_assumptions_right FI M6)) (t6_refuted FI)).
Qed.
Lemma t6_partial_rhs FI :
  (dir_forward (et_direction t6) = true /\
   es_full t6 FI M6 L6 /\ ~ es_full t6 FI (reindex (task_mapping t6) M6) (et_program t6)) \/
  (dir_backward (et_direction t6) = true /\
   es_full t6 FI (reindex (task_mapping t6) M6) (et_program t6) /\ ~ es_full t6 FI M6 L6).
Proof.
  exact (proj1 (C02_partial_proof is_tight has_private_recursion tau_star_total completion (simp_classic_total full_fuel)
                  es_full es_full_meaning
                  t6 L6 [] pbs6 lft6 rgt6 eq_refl eq_refl t6_total t6_left t6_right t6_no_clash FI M6
                  (t6_ug FI M6) (t6_assumptions_left FI) (t6_assumptions_right FI M6)) (t6_refuted FI)).
Qed.
Lemma t6_full_rhs FI :
  (dir_forward (et_direction t6) = true /\
   ext_stable_full t6 FI M6 L6 /\ ~ ext_stable_full t6 FI (reindex (task_mapping t6) M6) (et_program t6)) \/
  (dir_backward (et_direction t6) = true /\
   ext_stable_full t6 FI (reindex (task_mapping t6) M6) (et_program t6) /\ ~ ext_stable_full t6 FI M6 L6).
Proof.
  exact (proj1 (C02_full_proof full_fuel t6 L6 [] pbs6 lft6 rgt6 eq_refl eq_refl t6_accepted
                  (proj1 t6_tight) (proj2 t6_tight) t6_left t6_right t6_no_clash FI M6
                  (t6_ug FI M6) (t6_assumptions_left FI) (t6_assumptions_right FI M6)) (t6_refuted FI)).
Qed.
Lemma t6_behaviour_rhs FI :
  (dir_forward (et_direction t6) = true /\
   ext_stable_full t6 FI M6 L6 /\
   ~ exists N, pub_agree t6 N (reindex (task_mapping t6) M6) /\ ext_stable_full t6 FI N (et_program t6)) \/
  (dir_backward (et_direction t6) = true /\
   ext_stable_full t6 FI (reindex (task_mapping t6) M6) (et_program t6) /\
   ~ exists N, pub_agree t6 N M6 /\ ext_stable_full t6 FI N L6).
Proof.
  exact (C02_countermodel_proof full_fuel t6 L6 [] pbs6 lft6 rgt6 eq_refl eq_refl t6_accepted
           (proj1 t6_tight) (proj2 t6_tight) t6_left t6_right t6_no_clash FI M6 (t6_refuted FI)).
Qed.

(* t17 through the theorem (no class premise any more): the refutation yields the forward
   behavioural difference *)
Lemma t17_behaviour_rhs FI :
  (dir_forward (et_direction t17) = true /\
   ext_stable_full t17 FI M17 L17 /\
   ~ exists N, pub_agree t17 N (reindex (task_mapping t17) M17) /\ ext_stable_full t17 FI N (et_program t17)) \/
  (dir_backward (et_direction t17) = true /\
   ext_stable_full t17 FI (reindex (task_mapping t17) M17) (et_program t17) /\
   ~ exists N, pub_agree t17 N M17 /\ ext_stable_full t17 FI N L17).
Proof.
  exact (C02_countermodel_proof full_fuel t17 L17 [] pbs17 lft17 rgt17 eq_refl eq_refl (proj1 t17_accepted)
           (proj1 t17_tight) (proj2 t17_tight) t17_left t17_right t17_no_clash FI M17 (t17_refuted FI)).
Qed.

(* ===== t8: both sides have a private q/0 (the program's is renamed q_p in the problems)
         specification  q :- in.  out :- q.     program  q :- not in.  out :- q.
         input: in/0.  output: out/0.   M8 = {in, q, out} (q_p false) refutes the forward problem ===== *)
From Anthem Require Import Proofs.C02Complete.
Definition L8 : program := [ r0 "q" [p0 "in"]; r0 "out" [p0 "q"] ].
Definition R8 : program := [ r0 "q" [n0 "in"]; r0 "out" [p0 "q"] ].
Definition t8 : ext_task :=
  mkext (inl L8) R8 [UGInput (mkpred "in" 0); UGOutput (mkpred "out" 0)] [] DIndependent DUniversal ReprTauStar false true false.
Definition M8 : pint := Mof ["in"; "q"; "out"].
Definition pbs8 : list problem :=
  match external_decompose_full full_fuel t8 with XOk _ pbs => pbs | _ => [] end.
Definition lft8 := match tlf t8 L8 with Some l => l | None => [] end.
Definition rgt8 := match trf t8 with Some l => l | None => [] end.

Lemma t8_accepted : external_decompose_full full_fuel t8 = XOk [] pbs8 /\ task_mapping t8 = [(mkpred "q" 0, "p")].
Proof. split; vm_compute; reflexivity. Qed.
Lemma t8_left : tlf t8 L8 = Some lft8. Proof. vm_compute. reflexivity. Qed.
Lemma t8_right : trf t8 = Some rgt8. Proof. vm_compute. reflexivity. Qed.
Lemma t8_tight : is_tight L8 = true /\ is_tight R8 = true. Proof. split; vm_compute; reflexivity. Qed.
Lemma t8_outputs_occur : outputs_occur t8.
Proof. apply outputs_occurb_spec. vm_compute. reflexivity. Qed.
Lemma t8_no_clash :
  forall vt, task_validated tau_star_total completion (simp_classic_total full_fuel) t8 = Some vt -> validated_no_clash vt.
Proof. apply task_no_clashb_spec. vm_compute. reflexivity. Qed.
Lemma t8_rename_faithful : rename_faithful t8 L8.
Proof. apply rename_faithfulb_ok. vm_compute. reflexivity. Qed.
Lemma t8_ug_over_inputs : ug_over_inputs t8.
Proof. apply ug_over_inputsb_ok. vm_compute. reflexivity. Qed.
Lemma t8_refuted FI : refutes_some FI M8 pbs8.
Proof.
  remember pbs8 as l eqn:E. vm_compute in E. subst l. eexists. split; [left; reflexivity|]. split.
  - intros a Ha. cbn in Ha.
    repeat (destruct Ha as [<-|Ha]; [intros e; cbn; unfold M8, Mof; cbn; intuition congruence|]). destruct Ha.
  - eexists. split; [cbn; left; reflexivity|]. intros H. specialize (H (mkenv (fun _ => VInf) (fun _ => 0%Z) (fun _ => ""))).
    cbn in H. unfold M8, Mof in H. cbn in H. intuition congruence.
Qed.
Lemma t8_difference FI : exists T, behavioural_difference t8 L8 FI T.
Proof.
  apply (proj1 (external_equivalence_iff full_fuel t8 L8 [] pbs8 lft8 rgt8 eq_refl eq_refl (proj1 t8_accepted)
                  (proj1 t8_tight) (proj2 t8_tight) t8_left t8_right t8_no_clash
                  t8_rename_faithful t8_ug_over_inputs FI)).
  exists M8. exact (t8_refuted FI).
Qed.
Lemma t8_complete FI : exists T M, behavioural_difference t8 L8 FI T /\ pub_agree t8 M T /\ refutes_some FI M pbs8.
Proof.
  destruct (t8_difference FI) as [T HT]. exists T.
  destruct (countermodel_complete full_fuel t8 L8 [] pbs8 lft8 rgt8 eq_refl eq_refl (proj1 t8_accepted)
              (proj1 t8_tight) (proj2 t8_tight) t8_left t8_right t8_no_clash
              t8_rename_faithful t8_ug_over_inputs FI T HT) as [M HM].
  exists M. split; [exact HT|exact HM].
Qed.
(* F9: the renaming is not faithful when the program also has a predicate q_p *)
Definition R9 : program := [ r0 "q" [n0 "in"]; r0 "q_p" [p0 "in"]; r0 "out" [p0 "q"; p0 "q_p"] ].
Definition t9 : ext_task :=
  mkext (inl L8) R9 [UGInput (mkpred "in" 0); UGOutput (mkpred "out" 0)] [] DIndependent DUniversal ReprTauStar false true false.
Lemma t9_not_faithful : ~ rename_faithful t9 L8.
Proof.
  intros [_ H]. specialize (H "q" "q_p" 0 ltac:(vm_compute; auto) ltac:(vm_compute; auto) ltac:(vm_compute; reflexivity)).
  discriminate.
Qed.

(* ===== t18 (/repo 18b2e85): t6 with a second output declaration that occurs on NEITHER side
         specification  q :- in.  out :- q.     program  out :- not in.
         input: in/0.  output: out/0.  output: unused/2.
         `unused/2` gets no completed definition, the problems are those of t6, and M18 = M6 plus
         every atom unused(_, _) refutes forward_problem_0 like M6 does: the extent of an unused
         output predicate is immaterial.  M18 is an external stable model of the specification
         program on the vocabulary of the task (ext_voc leaves unused/2 out) - obtained THROUGH
         C02_countermodel_sound - and it is NOT one when unused/2 is kept in the vocabulary
         (ext_stable_public): the reason why ext_voc follows the code. ===== *)
From Anthem Require Import Proofs.C02Unused.
Definition t18 : ext_task :=
  mkext (inl L6) R6 [UGInput (mkpred "in" 0); UGOutput (mkpred "out" 0); UGOutput (mkpred "unused" 2)] []
        DIndependent DUniversal ReprTauStar false true false.
Definition M18 : pint := fun p d => M6 p d \/ (p = "unused" /\ List.length d = 2).
Definition pbs18 : list problem :=
  match external_decompose_full full_fuel t18 with XOk _ pbs => pbs | _ => [] end.
Definition lft18 := match tlf t18 L6 with Some l => l | None => [] end.
Definition rgt18 := match trf t18 with Some l => l | None => [] end.

Lemma t18_accepted : external_decompose_full full_fuel t18 = XOk [] pbs18. Proof. vm_compute. reflexivity. Qed.
(* the unused declaration changes nothing in what anthem emits *)
Lemma t18_same_problems : pbs18 = pbs6 /\ lft18 = lft6 /\ rgt18 = rgt6.
Proof. repeat split; vm_compute; reflexivity. Qed.
Lemma t18_left : tlf t18 L6 = Some lft18. Proof. vm_compute. reflexivity. Qed.
Lemma t18_right : trf t18 = Some rgt18. Proof. vm_compute. reflexivity. Qed.
Lemma t18_no_clash :
  forall vt, task_validated tau_star_total completion (simp_classic_total full_fuel) t18 = Some vt -> validated_no_clash vt.
Proof. apply task_no_clashb_spec. vm_compute. reflexivity. Qed.
Lemma t18_unused :
  In (mkpred "unused" 2) (ug_output_predicates (et_user_guide t18)) /\
  ~ In (mkpred "unused" 2) (task_occurring_predicates t18) /\
  ~ In (mkpred "unused" 2) (ext_voc t18 L6) /\ ~ In (mkpred "unused" 2) (ext_voc t18 R6) /\
  In (mkpred "unused" 2) (ext_voc_public t18 L6).
Proof.
  split; [vm_compute; auto|]. split; [|split; [|split]]; vm_compute; intuition discriminate.
Qed.
(* no formula of either side mentions unused/2 (on t17 the program side has out2 <-> #false) *)
Lemma t18_no_definition :
  forallb (fun a => negb (memb pred_dec (mkpred "unused" 2) (predicates (an_formula a)))) (lft18 ++ rgt18) = true.
Proof. vm_compute. reflexivity. Qed.
Lemma t18_refuted FI : refutes_some FI M18 pbs18.
Proof.
  rewrite (proj1 t18_same_problems).
  remember pbs6 as l eqn:E. vm_compute in E. subst l. eexists. split; [left; reflexivity|]. split.
  - intros a Ha. cbn in Ha. destruct Ha as [<-|[<-|[]]]; intros e; cbn; unfold M18, M6, Mof; cbn; intuition.
  - eexists. split; [cbn; left; reflexivity|]. intros H. specialize (H (mkenv (fun _ => VInf) (fun _ => 0%Z) (fun _ => ""))).
    cbn in H. unfold M18, M6, Mof in H. cbn in H. intuition discriminate.
Qed.
Lemma t18_not_empty : ~ unused_outputs_empty t18 M18.
Proof.
  intros H. apply (H (mkpred "unused" 2) (proj1 t18_unused) (proj1 (proj2 t18_unused)) [VInf; VInf] eq_refl).
  right. split; reflexivity.
Qed.
(* through C02_countermodel_sound: the refutation yields the behavioural difference, M18 itself
   being the external stable model *)
Lemma t18_behaviour_rhs FI :
  (dir_forward (et_direction t18) = true /\
   ext_stable_full t18 FI M18 L6 /\
   ~ exists N, pub_agree t18 N (reindex (task_mapping t18) M18) /\ ext_stable_full t18 FI N (et_program t18)) \/
  (dir_backward (et_direction t18) = true /\
   ext_stable_full t18 FI (reindex (task_mapping t18) M18) (et_program t18) /\
   ~ exists N, pub_agree t18 N M18 /\ ext_stable_full t18 FI N L6).
Proof.
  exact (C02_countermodel_proof full_fuel t18 L6 [] pbs18 lft18 rgt18 eq_refl eq_refl t18_accepted
           (proj1 t6_tight) (proj2 t6_tight) t18_left t18_right t18_no_clash FI M18 (t18_refuted FI)).
Qed.
(* with unused/2 kept in the vocabulary M18 is an external stable model of neither program *)
Lemma t18_public_not_stable FI P :
  incl (program_preds P) (task_occurring_predicates t18) -> ~ ext_stable_public t18 FI M18 P.
Proof.
  intros HP Hst. apply t18_not_empty. apply (ext_stable_public_unused t18 FI M18 P); [reflexivity|exact HP|exact Hst].
Qed.
