(* Proofs about Model/VerdictRun.v (C10, run level): how a verify run ends, for the pool and for the
   sequential case, with workers that may die; the prover options. *)
From Coq Require Import List String Bool Arith NArith Lia Permutation.
Import ListNotations.
From Anthem Require Import Base.Fresh Model.Prover Model.VerdictRun Proofs.ProverOk.
Open Scope list_scope.
Open Scope string_scope.
Open Scope nat_scope.

(* the number of results that are ever sent *)
Definition delivered (ws : list (option run_result)) : nat := List.length (msgs ws).

Definition all_theorems (ws : list (option run_result)) : Prop :=
  Forall (fun w => exists r, w = Some r /\ is_theorem r = true) ws.

Lemma msgs_from_length_le i ws : List.length (msgs_from i ws) <= List.length ws.
Proof. revert i; induction ws as [|[r|] ws IH]; intros i; cbn; [lia| |]; specialize (IH (S i)); lia. Qed.

Lemma msgs_from_length_eq i ws : List.length (msgs_from i ws) = List.length ws <-> ~ In None ws.
Proof.
  revert i; induction ws as [|[r|] ws IH]; intros i; cbn.
  - tauto.
  - specialize (IH (S i)). split; [intros H [E|H']|intros H].
    + discriminate.
    + assert (List.length (msgs_from (S i) ws) = List.length ws) by lia. tauto.
    + f_equal. apply IH. intros H'. apply H. now right.
  - pose proof (msgs_from_length_le (S i) ws). split; [lia|]. intros H'. exfalso. apply H'. now left.
Qed.

Lemma delivered_le ws : delivered ws <= List.length ws.
Proof. apply msgs_from_length_le. Qed.

Lemma delivered_eq_iff ws : delivered ws = List.length ws <-> ~ In None ws.
Proof. apply msgs_from_length_eq. Qed.

Lemma delivered_lt ws : In None ws -> delivered ws < List.length ws.
Proof.
  intros H. pose proof (delivered_le ws) as L.
  destruct (Nat.eq_dec (delivered ws) (List.length ws)) as [E|N]; [|lia].
  apply delivered_eq_iff in E. contradiction.
Qed.

Lemma success_failure_differ : success_text <> failure_text.
Proof. discriminate. Qed.

(* ---------------------------------------------------------------- the pool *)

Theorem pool_end_eq ws sched :
  Permutation sched (msgs ws) ->
  pool_end sched (List.length ws) =
  Finished (delivered ws) (List.length ws) (fan_in sched (List.length ws)).
Proof. intros P. unfold pool_end, delivered. now rewrite (Permutation_length P). Qed.

Theorem count_line_pool_iff ws sched :
  Permutation sched (msgs ws) ->
  (count_line (pool_end sched (List.length ws)) = None <-> ~ In None ws).
Proof.
  intros P. rewrite (pool_end_eq _ _ P). cbn. rewrite <- delivered_eq_iff.
  destruct (Nat.eqb_spec (delivered ws) (List.length ws)); split; intros H; try tauto; discriminate.
Qed.

Theorem pool_end_dead_worker ws sched :
  Permutation sched (msgs ws) -> In None ws ->
  pool_end sched (List.length ws) = Finished (delivered ws) (List.length ws) false /\
  delivered ws < List.length ws /\
  count_line (pool_end sched (List.length ws)) =
    Some ("> Proving ended with " ++ nat_str (N.of_nat (delivered ws)) ++ " results for " ++
          nat_str (N.of_nat (List.length ws)) ++ " problems") /\
  verdict_line (pool_end sched (List.length ws)) = Some failure_text /\
  exit_status (pool_end sched (List.length ws)) = 0.
Proof.
  intros P H. pose proof (delivered_lt _ H) as L.
  rewrite (pool_end_eq _ _ P), (fan_in_dead_worker _ _ P H). cbn.
  destruct (Nat.eqb_spec (delivered ws) (List.length ws)); [lia|]. auto.
Qed.

Theorem verdict_line_pool ws sched :
  Permutation sched (msgs ws) ->
  (verdict_line (pool_end sched (List.length ws)) = Some success_text <-> all_theorems ws) /\
  (verdict_line (pool_end sched (List.length ws)) = Some failure_text <-> ~ all_theorems ws).
Proof.
  intros P. unfold all_theorems. rewrite <- (fan_in_iff _ _ P). unfold pool_end. cbn.
  destruct (fan_in sched (List.length ws)); split; split; intros H; try reflexivity; try discriminate;
    try (exfalso; apply H; reflexivity); try (intros H'; discriminate H').
Qed.

(* ---------------------------------------------------------------- one instance *)

Lemma seq_results_ok ws rs :
  seq_results ws = (rs, true) <-> ws = map Some rs.
Proof.
  revert rs; induction ws as [|[r|] ws IH]; intros rs; cbn.
  - split; [intros [= <-]; reflexivity|]. destruct rs; [reflexivity|discriminate].
  - destruct (seq_results ws) as [rs' ok] eqn:E. split.
    + intros [= <- ->]. cbn. f_equal. now apply IH.
    + destruct rs as [|r0 rs0]; [discriminate|]. cbn. intros [= -> H]. apply IH in H. now injection H as -> ->.
  - split; [discriminate|]. destruct rs; discriminate.
Qed.

Lemma seq_results_panic ws rs :
  seq_results ws = (rs, false) <-> exists t, ws = (map Some rs ++ None :: t)%list.
Proof.
  revert rs; induction ws as [|[r|] ws IH]; intros rs; cbn.
  - split; [discriminate|]. intros [t H]. destruct rs; discriminate.
  - destruct (seq_results ws) as [rs' ok] eqn:E. split.
    + intros [= <- ->]. destruct (proj1 (IH rs') eq_refl) as [t ->]. exists t. reflexivity.
    + intros [t H]. destruct rs as [|r0 rs0]; [discriminate|]. cbn in H. injection H as -> H.
      assert (H' : (rs', ok) = (rs0, false)) by (apply IH; eauto). now injection H' as -> ->.
  - split.
    + intros [= <-]. exists ws. reflexivity.
    + intros [t H]. destruct rs; [reflexivity|discriminate].
Qed.

Lemma in_none_map_some (rs : list run_result) : ~ In None (map Some rs).
Proof. induction rs; cbn; [tauto|]. intros [H|H]; [discriminate|tauto]. Qed.

(* the run panics iff some `prove` panics; the results printed before are those of the problems
   before the FIRST such problem *)
Theorem sequential_end_panicked ws k :
  sequential_end ws = Panicked k <->
  nth_error ws k = Some None /\ forall j, j < k -> exists r, nth_error ws j = Some (Some r).
Proof.
  unfold sequential_end. destruct (seq_results ws) as [rs ok] eqn:E. destruct ok.
  - apply seq_results_ok in E. subst ws. split; [discriminate|]. intros [H _]. exfalso.
    apply nth_error_In in H. now apply in_none_map_some in H.
  - apply seq_results_panic in E. destruct E as [t ->]. split.
    + intros [= <-]. split.
      * rewrite nth_error_app2; rewrite map_length; [|lia]. now rewrite Nat.sub_diag.
      * intros j Hj. rewrite nth_error_app1 by (now rewrite map_length).
        destruct (nth_error rs j) as [r|] eqn:N; [|apply nth_error_None in N; lia].
        exists r. now rewrite nth_error_map, N.
    + intros [H Hb]. f_equal.
      destruct (Nat.lt_trichotomy k (List.length rs)) as [L|[->|L]]; [| reflexivity |].
      * rewrite nth_error_app1 in H by (now rewrite map_length). rewrite nth_error_map in H.
        destruct (nth_error rs k); discriminate.
      * destruct (Hb (List.length rs) L) as [r Hr].
        rewrite nth_error_app2 in Hr by (rewrite map_length; lia). rewrite map_length, Nat.sub_diag in Hr. discriminate.
Qed.

Theorem sequential_end_finished ws :
  ~ In None ws ->
  exists rs, ws = map Some rs /\
             sequential_end ws = Finished (List.length ws) (List.length ws) (verdict rs (List.length ws)).
Proof.
  intros H. unfold sequential_end. destruct (seq_results ws) as [rs ok] eqn:E. destruct ok.
  - apply seq_results_ok in E. exists rs. split; [exact E|]. subst ws. now rewrite map_length.
  - apply seq_results_panic in E. destruct E as [t ->]. exfalso. apply H. apply in_or_app. right. now left.
Qed.

Theorem verdict_line_sequential ws :
  (verdict_line (sequential_end ws) = Some success_text <-> all_theorems ws) /\
  (verdict_line (sequential_end ws) = None <-> In None ws) /\
  (exit_status (sequential_end ws) = 101 <-> In None ws).
Proof.
  unfold sequential_end, all_theorems. destruct (seq_results ws) as [rs ok] eqn:E. destruct ok.
  - apply seq_results_ok in E. subst ws. rewrite map_length.
    assert (V : verdict rs (List.length rs) = true <->
                Forall (fun w => exists r, w = Some r /\ is_theorem r = true) (map Some rs)).
    { rewrite verdict_iff, Forall_map. split.
      - intros [_ F]. eapply Forall_impl; [|exact F]. cbn. eauto.
      - intros F. split; [reflexivity|]. eapply Forall_impl; [|exact F]. cbn. intros a [r [[= <-] T]]. exact T. }
    pose proof (in_none_map_some rs) as NI.
    cbn. destruct (verdict rs (List.length rs)); (split; [|split]).
    + split; [intros _; now apply V|reflexivity].
    + split; [discriminate|intros H; contradiction].
    + split; [discriminate|intros H; contradiction].
    + split.
      * intros H. exfalso. apply success_failure_differ. congruence.
      * intros H. apply V in H. discriminate.
    + split; [discriminate|intros H; contradiction].
    + split; [discriminate|intros H; contradiction].
  - apply seq_results_panic in E. destruct E as [t ->]. cbn.
    assert (I : In None (map Some rs ++ None :: t)%list) by (apply in_or_app; right; now left).
    repeat split; intros H; try discriminate; try tauto.
    rewrite Forall_forall in H. destruct (H _ I) as [r [D _]]. discriminate.
Qed.

(* ---------------------------------------------------------------- exit status *)

Theorem exit_status_zero_iff e : exit_status e = 0 <-> verdict_line e <> None.
Proof. destruct e as [r s [|]|k]; cbn; split; intros H; try discriminate; try reflexivity; congruence. Qed.

Theorem exit_status_ignores_verdict r s b b' :
  exit_status (Finished r s b) = exit_status (Finished r s b').
Proof. reflexivity. Qed.

(* ---------------------------------------------------------------- options *)

Theorem instances_positive o ncpu :
  (1 <= ncpu)%N -> exists k, instances o ncpu = Some k /\ (1 <= k)%N.
Proof.
  intros H. unfold instances, cores.
  destruct (N.eqb_spec (prover_instances o) 0) as [E|NE].
  - destruct (N.eqb_spec (prover_cores o) 0) as [E'|NE'].
    + destruct (N.eqb_spec ncpu 0) as [Z|NZ]; [lia|]. eexists. split; [reflexivity|lia].
    + destruct (N.eqb_spec (prover_cores o) 0) as [Z|NZ]; [lia|]. eexists. split; [reflexivity|lia].
  - eexists. split; [reflexivity|lia].
Qed.

Theorem instances_explicit o ncpu :
  prover_instances o <> 0%N -> instances o ncpu = Some (prover_instances o).
Proof. intros H. unfold instances. destruct (N.eqb_spec (prover_instances o) 0); [contradiction|reflexivity]. Qed.

(* automatic: as many instances as fit, at least one; in particular ONE (no thread pool) when a
   prover may use all the cores or more *)
Theorem instances_auto o ncpu :
  prover_instances o = 0%N -> (1 <= ncpu)%N ->
  instances o ncpu = Some (N.max (ncpu / cores o ncpu) 1) /\
  ((ncpu < 2 * cores o ncpu)%N -> is_sequential o ncpu = Some true).
Proof.
  intros E H.
  assert (C : (cores o ncpu <> 0)%N).
  { unfold cores. destruct (N.eqb_spec (prover_cores o) 0); lia. }
  assert (I : instances o ncpu = Some (N.max (ncpu / cores o ncpu) 1)).
  { unfold instances. rewrite E. cbn. destruct (N.eqb_spec (cores o ncpu) 0); [contradiction|reflexivity]. }
  split; [exact I|]. intros L. unfold is_sequential. rewrite I. f_equal. apply N.eqb_eq.
  assert (ncpu / cores o ncpu < 2)%N by (apply N.div_lt_upper_bound; lia). lia.
Qed.

Theorem prover_argv_shape o ncpu :
  prover_argv o ncpu =
  ["--mode"; "casc"; "--time_limit"; nat_str (time_limit o); "--cores";
   nat_str (if (prover_cores o =? 0)%N then ncpu else prover_cores o)].
Proof. reflexivity. Qed.
