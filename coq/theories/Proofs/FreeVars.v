(* Membership / NoDup facts about the IndexSet-style collectors of Syntax/Fol.v
   (gterm_vars, aformula_vars, free_variables, quantify).  Purely syntactic; shared. *)
From Coq Require Import List Ascii String ZArith Bool Lia.
From Anthem Require Import Base.ISet Syntax.Fol.
Import ListNotations.
Open Scope list_scope.

(* ---------- extend_all ---------- *)
Lemma in_extend_all {A B} (dec : forall x y : B, {x = y} + {x <> y}) (f : A -> list B) l :
  forall init w, In w (extend_all dec f init l) <-> In w init \/ exists a, In a l /\ In w (f a).
Proof.
  unfold extend_all. induction l as [|a l IH]; intros init w; cbn.
  - split; [auto|]. intros [H|[a [[] _]]]; auto.
  - rewrite IH, (in_iset_extend dec). split.
    + intros [[H|H]|[b [Hb H]]]; eauto.
    + intros [H|[b [[->|Hb] H]]]; eauto.
Qed.
Lemma nodup_extend_all {A B} (dec : forall x y : B, {x = y} + {x <> y}) (f : A -> list B) l :
  forall init, NoDup init -> NoDup (extend_all dec f init l).
Proof.
  unfold extend_all. induction l as [|a l IH]; intros init H; cbn; auto.
  apply IH, nodup_iset_extend, H.
Qed.

(* ---------- term variables ---------- *)
Lemma iterm_vars_nodup t : NoDup (iterm_vars t).
Proof.
  induction t; cbn; auto using NoDup_nil.
  - constructor; [intros []|constructor].
  - apply nodup_iset_extend; auto.
Qed.
Lemma gterm_vars_nodup t : NoDup (gterm_vars t).
Proof.
  destruct t as [| | |x|it|st]; cbn; try constructor; try (intros []); try constructor.
  - apply iterm_vars_nodup.
  - destruct st; cbn; constructor; try (intros []); constructor.
Qed.
Lemma iterm_vars_sort t w : In w (iterm_vars t) -> vsort w = SInteger.
Proof.
  induction t; cbn; try tauto.
  - intros [<-|[]]; reflexivity.
  - rewrite (in_iset_extend var_dec). tauto.
Qed.
Lemma sterm_vars_sort t w : In w (sterm_vars t) -> vsort w = SSymbol.
Proof. destruct t; cbn; try tauto. intros [<-|[]]; reflexivity. Qed.
Lemma gterm_vars_var_to_gterm v : gterm_vars (var_to_gterm v) = [v].
Proof. destruct v as [n []]; reflexivity. Qed.

Lemma aformula_vars_nodup a : NoDup (aformula_vars a).
Proof.
  destruct a; cbn; try constructor.
  - apply nodup_extend_all; constructor.
  - apply nodup_extend_all, gterm_vars_nodup.
Qed.

(* ---------- free variables ---------- *)
Lemma in_remove_block vs : forall l w, NoDup l ->
  (In w (fold_left (fun acc v => iset_remove var_dec v acc) vs l) <-> In w l /\ ~ In w vs).
Proof.
  induction vs as [|v vs IH]; intros l w Hl; cbn; [tauto|].
  rewrite IH by (apply nodup_iset_remove; exact Hl).
  rewrite (in_iset_remove var_dec) by exact Hl.
  split; [intros [[H1 H2] H3]; split; auto; intros [E|E]; [apply H2; auto|auto]|].
  intros [H1 H2]; repeat split; auto.
Qed.
Lemma nodup_remove_block vs : forall l, NoDup l ->
  NoDup (fold_left (fun acc v => iset_remove var_dec v acc) vs l).
Proof.
  induction vs as [|v vs IH]; intros l Hl; cbn; auto.
  apply IH, nodup_iset_remove, Hl.
Qed.

Lemma free_variables_nodup F : NoDup (free_variables F).
Proof.
  induction F as [a|f IH|c l IHl r IHr|q vs f IH]; cbn; auto.
  - apply aformula_vars_nodup.
  - apply nodup_iset_extend; auto.
  - apply nodup_remove_block; auto.
Qed.

Lemma in_fv_not F w : In w (free_variables (FNot F)) <-> In w (free_variables F).
Proof. reflexivity. Qed.
Lemma in_fv_bin c l r w :
  In w (free_variables (FBin c l r)) <-> In w (free_variables l) \/ In w (free_variables r).
Proof. cbn. apply (in_iset_extend var_dec). Qed.
Lemma in_fv_q q vs f w :
  In w (free_variables (FQ q vs f)) <-> In w (free_variables f) /\ ~ In w vs.
Proof. cbn. apply in_remove_block, free_variables_nodup. Qed.

(* Formula::quantify drops an empty block *)
Lemma quantify_cases f q vs : quantify f q vs = FQ q vs f \/ (vs = [] /\ quantify f q vs = f).
Proof. destruct vs; cbn; auto. Qed.
Lemma in_fv_quantify q vs f w :
  In w (free_variables (quantify f q vs)) <-> In w (free_variables f) /\ ~ In w vs.
Proof.
  destruct (quantify_cases f q vs) as [->|[-> ->]]; [apply in_fv_q|]. cbn; tauto.
Qed.

(* atoms *)
Lemma in_aformula_vars_atom p ts w :
  In w (aformula_vars (AAtom p ts)) <-> exists g, In g ts /\ In w (gterm_vars g).
Proof.
  cbn. rewrite in_extend_all. split; [intros [[]|H]; exact H|auto].
Qed.
Lemma in_aformula_vars_cmp t gs w :
  In w (aformula_vars (ACmp t gs)) <->
  In w (gterm_vars t) \/ exists g, In g gs /\ In w (gterm_vars (gterm_of g)).
Proof. cbn. apply in_extend_all. Qed.
