(* Strategies over the classic portfolio:
   (1) a rewrite that preserves classical satisfaction under every assignment and does not
       enlarge the free variables may be applied at every node (Apply::apply), composed
       (Compose::compose) and iterated (apply_fixpoint, when it returns);
   (2) the panic-aware strategy runner [run_strategy_opt] (what the correspondence check runs)
       agrees with [run_strategy] over the total wrappers whenever it returns a formula. *)
From Coq Require Import List Ascii String ZArith Bool.
From Anthem Require Import Base.ISet Syntax.Fol Sem.Domain Sem.Sat
  Model.Apply Model.Subst Model.SimplClassic Model.StrategyCls
  Proofs.FreeVars Proofs.Coincidence Proofs.SimplClassicBase Proofs.SimplClassicOk.
Import ListNotations.
Open Scope list_scope.

Lemma cequiv_trans F G H : cequiv F G -> cequiv G H -> cequiv F H.
Proof. intros A B FI I e. rewrite (B FI I e). apply A. Qed.
Lemma fv_incl_trans F G H : fv_incl F G -> fv_incl G H -> fv_incl F H.
Proof. intros A B w Hw. apply A, B, Hw. Qed.

Lemma cequiv_not F G : cequiv F G -> cequiv (FNot F) (FNot G).
Proof. intros A FI I e. cbn. rewrite (A FI I e). tauto. Qed.
Lemma cequiv_bin c l l' r r' : cequiv l l' -> cequiv r r' -> cequiv (FBin c l r) (FBin c l' r').
Proof. intros A B FI I e. pose proof (A FI I e). pose proof (B FI I e). destruct c; cbn; tauto. Qed.
Lemma cequiv_q q vs f f' : cequiv f f' -> cequiv (FQ q vs f) (FQ q vs f').
Proof. intros A FI I e. cbn. apply qsat_iff. intros e'. apply A. Qed.

Lemma fv_incl_not F G : fv_incl F G -> fv_incl (FNot F) (FNot G).
Proof. intros A w Hw. exact (A w Hw). Qed.
Lemma fv_incl_bin c l l' r r' : fv_incl l l' -> fv_incl r r' -> fv_incl (FBin c l r) (FBin c l' r').
Proof. intros A B w Hw. apply in_fv_bin in Hw. apply in_fv_bin. destruct Hw; [left; apply A|right; apply B]; assumption. Qed.
Lemma fv_incl_q q vs f f' : fv_incl f f' -> fv_incl (FQ q vs f) (FQ q vs f').
Proof. intros A w Hw. apply in_fv_q in Hw. apply in_fv_q. destruct Hw. split; [apply A|]; assumption. Qed.

Theorem apply_ok r : rewrite_ok r -> rewrite_ok (apply r).
Proof.
  intros Hr F. induction F as [a|f IH|c l IHl r' IHr|q vs f IH]; cbn [apply].
  - apply Hr.
  - destruct IH as [A B]. destruct (Hr (FNot (apply r f))) as [C D]. split.
    + eapply cequiv_trans; [apply cequiv_not, A|exact C].
    + eapply fv_incl_trans; [apply fv_incl_not, B|exact D].
  - destruct IHl as [A B], IHr as [A' B']. destruct (Hr (FBin c (apply r l) (apply r r'))) as [C D]. split.
    + eapply cequiv_trans; [apply cequiv_bin; eassumption|exact C].
    + eapply fv_incl_trans; [apply fv_incl_bin; eassumption|exact D].
  - destruct IH as [A B]. destruct (Hr (FQ q vs (apply r f))) as [C D]. split.
    + eapply cequiv_trans; [apply cequiv_q, A|exact C].
    + eapply fv_incl_trans; [apply fv_incl_q, B|exact D].
Qed.

Theorem compose_ok fs : (forall r, In r fs -> rewrite_ok r) -> rewrite_ok (compose fs).
Proof.
  unfold compose. induction fs as [|f fs IH]; intros H F; cbn [fold_left].
  - split; [apply cequiv_refl|apply fv_incl_refl].
  - destruct (H f (or_introl eq_refl) F) as [A B].
    destruct (IH (fun r Hr => H r (or_intror Hr)) (f F)) as [C D]. split.
    + eapply cequiv_trans; eassumption.
    + eapply fv_incl_trans; eassumption.
Qed.

Lemma apply_fixpoint_from_ok fuel r : rewrite_ok r -> forall F previous current G,
  cequiv F current /\ fv_incl F current ->
  apply_fixpoint_from fuel r previous current = Some G -> cequiv F G /\ fv_incl F G.
Proof.
  intros Hr F. induction fuel as [|n IH]; intros previous current G Hc; cbn [apply_fixpoint_from];
    destruct (formula_eqb previous current); try discriminate; try (intros [= <-]; exact Hc).
  apply IH. destruct Hc as [A B]. destruct (apply_ok r Hr current) as [C D]. split.
  - eapply cequiv_trans; eassumption.
  - eapply fv_incl_trans; eassumption.
Qed.
Theorem apply_fixpoint_ok fuel r F G : rewrite_ok r ->
  apply_fixpoint fuel r F = Some G -> cequiv F G /\ fv_incl F G.
Proof. intros Hr. unfold apply_fixpoint. apply apply_fixpoint_from_ok; auto. apply apply_ok, Hr. Qed.

Theorem run_strategy_ok fuel portfolio s F G :
  (forall r, In r portfolio -> rewrite_ok r) ->
  run_strategy fuel portfolio s F = Some G -> cequiv F G /\ fv_incl F G.
Proof.
  intros H. pose proof (compose_ok portfolio H) as Hc. destruct s; cbn [run_strategy].
  - intros [= <-]. apply Hc.
  - intros [= <-]. apply apply_ok, Hc.
  - apply apply_fixpoint_ok, Hc.
Qed.

(* ---------- the panic-aware runner agrees with the total one ---------- *)
Definition refines (fo : formula -> option formula) (ft : formula -> formula) : Prop :=
  forall x y, fo x = Some y -> ft x = y.

Lemma refines_total fo : refines fo (total fo).
Proof. intros x y H. unfold total. rewrite H. reflexivity. Qed.

Lemma compose_opt_none fs : fold_left (fun acc f => match acc with Some y => f y | None => None end) fs None
                            = (None : option formula).
Proof. induction fs; cbn; auto. Qed.

Lemma compose_opt_refines fos fts : Forall2 refines fos fts -> refines (compose_opt fos) (compose fts).
Proof.
  unfold compose_opt, compose. induction 1 as [|fo ft fos fts R _ IH]; intros x y; cbn [fold_left].
  - intros [= <-]. reflexivity.
  - destruct (fo x) as [x1|] eqn:E; [|rewrite compose_opt_none; discriminate].
    rewrite (R x x1 E). apply IH.
Qed.

Lemma apply_opt_refines fo ft : refines fo ft -> refines (apply_opt fo) (apply ft).
Proof.
  intros R x. induction x as [a|f IH|c l IHl r IHr|q vs f IH]; intros y; cbn [apply_opt apply].
  - apply R.
  - destruct (apply_opt fo f) as [f'|]; [|discriminate]. rewrite (IH f' eq_refl). apply R.
  - destruct (apply_opt fo l) as [l'|]; [|discriminate].
    destruct (apply_opt fo r) as [r'|]; [|discriminate].
    rewrite (IHl l' eq_refl), (IHr r' eq_refl). apply R.
  - destruct (apply_opt fo f) as [f'|]; [|discriminate]. rewrite (IH f' eq_refl). apply R.
Qed.

Lemma apply_fixpoint_opt_from_refines fuel fo ft : refines fo ft -> forall previous current G,
  apply_fixpoint_opt_from fuel fo previous current = RDone G ->
  apply_fixpoint_from fuel ft previous current = Some G.
Proof.
  intros R. induction fuel as [|n IH]; intros previous current G;
    cbn [apply_fixpoint_opt_from apply_fixpoint_from];
    destruct (formula_eqb previous current); try discriminate; try (intros [= <-]; reflexivity).
  destruct (apply_opt fo current) as [next|] eqn:E; [|discriminate].
  rewrite (apply_opt_refines fo ft R current next E). apply IH.
Qed.

Theorem run_strategy_opt_refines fuel fos fts s F G :
  Forall2 refines fos fts ->
  run_strategy_opt fuel fos s F = RDone G -> run_strategy fuel fts s F = Some G.
Proof.
  intros R. pose proof (compose_opt_refines fos fts R) as Rc.
  destruct s; cbn [run_strategy_opt run_strategy].
  - destruct (compose_opt fos F) as [y|] eqn:E; [|discriminate]. intros [= <-]. rewrite (Rc F y E). reflexivity.
  - destruct (apply_opt (compose_opt fos) F) as [y|] eqn:E; [|discriminate]. intros [= <-].
    rewrite (apply_opt_refines _ _ Rc F y E). reflexivity.
  - unfold apply_fixpoint_opt, apply_fixpoint.
    destruct (apply_opt (compose_opt fos) F) as [y|] eqn:E; [|discriminate].
    rewrite (apply_opt_refines _ _ Rc F y E). apply apply_fixpoint_opt_from_refines, Rc.
Qed.

Lemma CLASSIC_opt_refines : Forall2 refines CLASSIC_opt CLASSIC.
Proof.
  unfold CLASSIC_opt, CLASSIC. repeat constructor; try apply refines_total;
    intros x y [= <-]; reflexivity.
Qed.

Theorem run_classic_opt_refines fuel s F G :
  run_strategy_opt fuel CLASSIC_opt s F = RDone G -> run_strategy fuel CLASSIC s F = Some G.
Proof. apply run_strategy_opt_refines, CLASSIC_opt_refines. Qed.
