(* Basic facts about satisfaction used by the task-level proofs: coincidence on free variables,
   coincidence on predicates, quantifier blocks and universal closure. *)
From Coq Require Import List Ascii String ZArith Bool Lia.
From Anthem Require Import Base.ISet Syntax.Fol Sem.Domain Sem.Sat.
Import ListNotations.
Open Scope list_scope.

(* ---------- IndexSet collectors ---------- *)
Lemma in_extend_all {A B} (dec : forall x y : B, {x = y} + {x <> y}) (f : A -> list B) (l : list A) :
  forall init y, In y (extend_all dec f init l) <-> In y init \/ exists x, In x l /\ In y (f x).
Proof.
  unfold extend_all. induction l as [|a l IH]; intros init y; cbn.
  - split; [auto|]. intros [H|[x [[] _]]]; exact H.
  - rewrite IH, (in_iset_extend dec). split.
    + intros [[H|H]|[x [Hx Hy]]]; [auto|right; exists a; auto|right; exists x; auto].
    + intros [H|[x [[<-|Hx] Hy]]]; [auto|auto|right; exists x; auto].
Qed.

Lemma in_remove_other {A} (dec : forall x y : A, {x = y} + {x <> y}) x (l : list A) y :
  In y l -> y <> x -> In y (iset_remove dec x l).
Proof.
  induction l as [|z l IH]; cbn; [tauto|]. intros Hy Hne.
  destruct (dec x z) as [->|Hxz].
  - destruct Hy as [->|Hy]; [congruence|exact Hy].
  - destruct Hy as [->|Hy]; [left; reflexivity|right; apply IH; auto].
Qed.
Lemma in_fold_remove (vs : list var) : forall (S : list var) w,
  In w S -> ~ In w vs -> In w (fold_left (fun acc v => iset_remove var_dec v acc) vs S).
Proof.
  induction vs as [|v vs IH]; intros S w Hw Hn; cbn; [exact Hw|].
  apply IH; [|intros H; apply Hn; right; exact H].
  apply in_remove_other; [exact Hw|]. intros ->. apply Hn. left; reflexivity.
Qed.

(* ---------- assignments ---------- *)
Definition agree_on (S : list var) (e e' : env) : Prop := forall v, In v S -> getv e v = getv e' v.

Lemma getv_upd_same e v d : in_sort (vsort v) d -> getv (upd e v d) v = d.
Proof.
  destruct v as [x s]; unfold getv, upd; cbn. destruct s, d; cbn; try tauto;
    intros _; rewrite String.eqb_refl; reflexivity.
Qed.
Lemma getv_upd_other e v d w : w <> v -> getv (upd e v d) w = getv e w.
Proof.
  destruct v as [x s], w as [y u]; unfold getv, upd; cbn. intros Hne.
  destruct s, d, u; cbn; try reflexivity;
    (destruct (String.eqb_spec y x) as [->|]; [congruence|reflexivity]).
Qed.

Lemma agree_on_incl S S' e e' : (forall v, In v S' -> In v S) -> agree_on S e e' -> agree_on S' e e'.
Proof. intros Hi Ha v Hv. apply Ha, Hi, Hv. Qed.

Section WithFI.
Variable FI : fint.

Lemma ev_i_agree t e e' : agree_on (iterm_vars t) e e' -> ev_i FI e t = ev_i FI e' t.
Proof.
  induction t as [z|c|x|o t IH|o l IHl r IHr]; cbn; intros Ha; auto.
  - specialize (Ha (mkvar x SInteger) (or_introl eq_refl)). unfold getv in Ha; cbn in Ha. congruence.
  - destruct o. rewrite IH; auto.
  - assert (Hl : agree_on (iterm_vars l) e e') by (intros v Hv; apply Ha, (in_iset_extend var_dec); auto).
    assert (Hr : agree_on (iterm_vars r) e e') by (intros v Hv; apply Ha, (in_iset_extend var_dec); auto).
    destruct o; rewrite IHl, IHr; auto.
Qed.
Lemma ev_g_agree t e e' : agree_on (gterm_vars t) e e' -> ev_g FI e t = ev_g FI e' t.
Proof.
  destruct t as [| |c|x|t|t]; cbn; intros Ha; auto.
  - exact (Ha (mkvar x SGeneral) (or_introl eq_refl)).
  - f_equal. apply ev_i_agree, Ha.
  - destruct t as [s|c|x]; cbn; auto.
    specialize (Ha (mkvar x SSymbol) (or_introl eq_refl)). unfold getv in Ha; cbn in Ha. exact Ha.
Qed.
Lemma map_ev_g_agree ts e e' : (forall t, In t ts -> agree_on (gterm_vars t) e e') ->
  map (ev_g FI e) ts = map (ev_g FI e') ts.
Proof. intros Ha. apply map_ext_in. intros t Ht. apply ev_g_agree, Ha, Ht. Qed.
Lemma chain_sat_agree gs e e' l : (forall g, In g gs -> agree_on (gterm_vars (gterm_of g)) e e') ->
  chain_sat FI e l gs = chain_sat FI e' l gs.
Proof.
  revert l; induction gs as [|g gs IH]; intros l Ha; cbn; [reflexivity|].
  rewrite (ev_g_agree (gterm_of g) e e') by (apply Ha; left; reflexivity).
  rewrite IH; [reflexivity|]. intros g' Hg'. apply Ha. right; exact Hg'.
Qed.
Lemma asat_agree I a e e' : agree_on (aformula_vars a) e e' -> (asat FI I e a <-> asat FI I e' a).
Proof.
  destruct a as [| |p ts|t gs]; cbn; intros Ha; try tauto.
  - rewrite (map_ev_g_agree ts e e'); [tauto|].
    intros t Ht v Hv. apply Ha. apply in_extend_all. right. exists t; auto.
  - rewrite (ev_g_agree t e e'), (chain_sat_agree gs e e'); [tauto| |].
    + intros g Hg v Hv. apply Ha. apply in_extend_all. right. exists g; auto.
    + intros v Hv. apply Ha. apply in_extend_all. left; exact Hv.
Qed.

(* a quantifier block: [k] may depend on the variables of S, of which those not in vs are fixed *)
Lemma qsat_agree q vs (k k' : env -> Prop) (S : list var) :
  (forall e1 e2, agree_on S e1 e2 -> (k e1 <-> k' e2)) ->
  forall e e', (forall w, In w S -> ~ In w vs -> getv e w = getv e' w) ->
  (qsat q vs k e <-> qsat q vs k' e').
Proof.
  intros Hk. induction vs as [|v vs IH]; intros e e' Ha; cbn.
  - apply Hk. intros w Hw. apply Ha; auto.
  - assert (Hstep : forall d, in_sort (vsort v) d ->
              forall w, In w S -> ~ In w vs -> getv (upd e v d) w = getv (upd e' v d) w).
    { intros d Hd w Hw Hn. destruct (var_dec w v) as [->|Hne].
      - rewrite !getv_upd_same; auto.
      - rewrite !getv_upd_other; auto. apply Ha; auto. intros [->|H]; [congruence|auto]. }
    destruct q.
    + split; intros Hq d Hd; [apply (IH (upd e v d) (upd e' v d))|apply (IH (upd e v d) (upd e' v d))]; auto.
    + split; intros [d [Hd Hq]]; exists d; split; auto;
        [apply (IH (upd e v d) (upd e' v d))|apply (IH (upd e v d) (upd e' v d))]; auto.
Qed.

Theorem csat_agree I f : forall e e', agree_on (free_variables f) e e' -> (csat FI I e f <-> csat FI I e' f).
Proof.
  induction f as [a|f IH|c l IHl r IHr|q vs f IH]; intros e e' Ha; cbn [csat].
  - apply asat_agree, Ha.
  - rewrite (IH e e'); [tauto|exact Ha].
  - assert (Hl : agree_on (free_variables l) e e') by (intros v Hv; apply Ha; cbn; apply (in_iset_extend var_dec); auto).
    assert (Hr : agree_on (free_variables r) e e') by (intros v Hv; apply Ha; cbn; apply (in_iset_extend var_dec); auto).
    destruct c; rewrite (IHl e e' Hl), (IHr e e' Hr); tauto.
  - apply (qsat_agree q vs _ _ (free_variables f)); [intros e1 e2 H12; apply IH, H12|].
    intros w Hw Hn. apply Ha. cbn. apply in_fold_remove; auto.
Qed.

Theorem hsat_agree H T f : forall e e', agree_on (free_variables f) e e' -> (hsat FI H T e f <-> hsat FI H T e' f).
Proof.
  induction f as [a|f IH|c l IHl r IHr|q vs f IH]; intros e e' Ha; cbn [hsat].
  - apply asat_agree, Ha.
  - rewrite (csat_agree T f e e'); [tauto|exact Ha].
  - assert (Hl : agree_on (free_variables l) e e') by (intros v Hv; apply Ha; cbn; apply (in_iset_extend var_dec); auto).
    assert (Hr : agree_on (free_variables r) e e') by (intros v Hv; apply Ha; cbn; apply (in_iset_extend var_dec); auto).
    pose proof (csat_agree T l e e' Hl). pose proof (csat_agree T r e e' Hr).
    destruct c; rewrite (IHl e e' Hl), (IHr e e' Hr); tauto.
  - apply (qsat_agree q vs _ _ (free_variables f)); [intros e1 e2 H12; apply IH, H12|].
    intros w Hw Hn. apply Ha. cbn. apply in_fold_remove; auto.
Qed.

(* assignments that agree everywhere *)
Definition env_same (e e' : env) : Prop := forall v, getv e v = getv e' v.
Lemma csat_same I f e e' : env_same e e' -> (csat FI I e f <-> csat FI I e' f).
Proof. intros Hs. apply csat_agree. intros v _. apply Hs. Qed.
Lemma upd_getv_same e v : env_same (upd e v (getv e v)) e.
Proof.
  intros w. destruct (var_dec w v) as [->|Hne].
  - apply getv_upd_same. destruct v as [x s]; unfold getv; destruct s; cbn; auto.
  - apply getv_upd_other, Hne.
Qed.
Lemma getv_in_sort e v : in_sort (vsort v) (getv e v).
Proof. destruct v as [x s]; unfold getv; destruct s; cbn; auto. Qed.

(* a universal block that holds can be instantiated with the current values *)
Lemma qsat_forall_inst vs (k : env -> Prop) :
  (forall e e', env_same e e' -> k e -> k e') -> forall e, qsat QForall vs k e -> k e.
Proof.
  intros Hk. induction vs as [|v vs IH]; intros e; cbn; [auto|].
  intros Hq. specialize (Hq (getv e v) (getv_in_sort e v)). apply IH in Hq.
  apply (Hk _ _ (upd_getv_same e v)), Hq.
Qed.
Lemma qsat_forall_intro vs (k : env -> Prop) : (forall e, k e) -> forall e, qsat QForall vs k e.
Proof. intros Hk. induction vs as [|v vs IH]; intros e; cbn; auto. Qed.

(* universal closure: a formula is valid iff its universal closure is *)
Lemma cvalid_quantify_forall I f vs : cvalid FI I (quantify f QForall vs) <-> cvalid FI I f.
Proof.
  unfold cvalid. split.
  - intros Hv e. specialize (Hv e). destruct vs as [|v vs]; [exact Hv|].
    change (qsat QForall (v :: vs) (fun e' => csat FI I e' f) e) in Hv.
    apply (qsat_forall_inst (v :: vs) (fun e' => csat FI I e' f)); [|exact Hv].
    intros e1 e2 Hs H1. apply (csat_same I f e1 e2 Hs), H1.
  - intros Hv e. destruct vs as [|v vs]; [apply Hv|].
    change (qsat QForall (v :: vs) (fun e' => csat FI I e' f) e). apply qsat_forall_intro, Hv.
Qed.
Lemma cvalid_universal_closure I f : cvalid FI I (universal_closure f) <-> cvalid FI I f.
Proof. apply cvalid_quantify_forall. Qed.

(* ---------- coincidence on predicates ---------- *)
Definition pagree (S : list pred) (I J : pint) : Prop :=
  forall p a, In (mkpred p (List.length a)) S -> (I p a <-> J p a).

Theorem csat_pagree I J f : pagree (predicates f) I J -> forall e, csat FI I e f <-> csat FI J e f.
Proof.
  induction f as [a|f IH|c l IHl r IHr|q vs f IH]; intros Hp e; cbn [csat].
  - destruct a as [| |p ts|t gs]; cbn; try tauto.
    apply Hp. cbn. rewrite map_length. left; reflexivity.
  - rewrite IH; [tauto|exact Hp].
  - assert (Hl : pagree (predicates l) I J) by (intros p a Hin; apply Hp; cbn; apply (in_iset_extend pred_dec); auto).
    assert (Hr : pagree (predicates r) I J) by (intros p a Hin; apply Hp; cbn; apply (in_iset_extend pred_dec); auto).
    destruct c; rewrite (IHl Hl e), (IHr Hr e); tauto.
  - apply qsat_iff. intros e'. apply IH, Hp.
Qed.
Corollary cvalid_pagree I J f : pagree (predicates f) I J -> (cvalid FI I f <-> cvalid FI J f).
Proof. intros Hp. unfold cvalid. split; intros Hv e; [apply (csat_pagree I J f Hp e)|apply (csat_pagree I J f Hp e)]; apply Hv. Qed.
End WithFI.
