(* Audit A8 (b), second half: the formulas the pipelines hand to the classic portfolio are in the
   parser image (Proofs/ParserImage.v), so the rewrites never panic there:

     tau_star_pi       every formula of tau*(P), for a program whose variables have non-empty
                       names ([program_vars_named], what the ASP parser produces)
     gamma_pi          gamma preserves the parser image (strong equivalence, post-gamma loop)
     rp_formula_pi     so does replace_placeholders
     completion_pi     every formula of completion(G, inputs), for G in the parser image
     wf_formula_pi     every formula the FOL parser produces (FolClass.wf_formula)            *)
From Coq Require Import List Ascii String ZArith NArith Bool Lia.
From Anthem Require Import Base.ISet Base.Fresh Syntax.Fol Syntax.Asp
  Model.Apply Model.Gamma Model.Outline Model.FreshNames Model.TauStar Model.Completion Model.SimplClassic
  Model.FolLex Model.FolClass
  Proofs.FreeVars Proofs.FreshNamesOk Proofs.CompletionShape Proofs.CompletionOk
  Proofs.SimplClassicTotal Proofs.ParserImage.
From Anthem Require Model.External.
Import ListNotations.
Open Scope string_scope.
Open Scope list_scope.

Definition theory_pi (th : theory) : Prop := forall f, In f th -> parser_image f.

Lemma has_prefix_nonempty v x : v <> "" -> has_prefix v x -> x <> "".
Proof. intros Hv [s ->]. destruct v; [congruence|discriminate]. Qed.

Lemma pi_reduce c x xs : parser_image x -> (forall y, In y xs -> parser_image y) ->
  parser_image (fold_left (fun acc e => FBin c acc e) xs x).
Proof.
  revert x. induction xs as [|y ys IH]; intros x Hx H; cbn [fold_left]; [exact Hx|].
  apply IH; [apply pi_bin; split; [exact Hx|apply H; left; reflexivity]|intros z Hz; apply H; right; exact Hz].
Qed.
Lemma pi_disjoin l : (forall x, In x l -> parser_image x) -> parser_image (disjoin l).
Proof.
  intros H. unfold disjoin, reduce_bin. destruct l as [|x xs]; [apply pi_false|].
  apply pi_reduce; [apply H; left; reflexivity|intros y Hy; apply H; right; exact Hy].
Qed.

(* ================================================================================== gamma *)
Lemma prepend_step_pi prefix : pi_pres (prepend_step prefix).
Proof.
  intros F H. destruct F as [[| |p ts|t gs]|f|c l r|q vs f]; exact H.
Qed.
Lemma prepend_predicate_pi f prefix : parser_image f -> parser_image (prepend_predicate f prefix).
Proof. unfold prepend_predicate. apply apply_pi, prepend_step_pi. Qed.
Lemma gamma_pi f : parser_image f -> parser_image (gamma f).
Proof.
  induction f as [a|f IH|c l IHl r IHr|q vs f IH]; intros H; cbn [gamma].
  - apply prepend_predicate_pi, H.
  - apply pi_not. apply pi_not in H. apply prepend_predicate_pi, H.
  - apply pi_bin in H. destruct H as [Hl Hr].
    destruct c; repeat (apply pi_bin; split); auto; apply prepend_predicate_pi; assumption.
  - apply pi_q in H. apply pi_q. split; [tauto|apply IH; tauto].
Qed.
Lemma gamma_theory_pi th : theory_pi th -> theory_pi (gamma_theory th).
Proof. intros H f Hf. apply in_map_iff in Hf. destruct Hf as [g [<- Hg]]. apply gamma_pi, H, Hg. Qed.

(* ================================================================== replace_placeholders *)
Lemma rp_formula_pi m f : parser_image f -> parser_image (rp_formula m f).
Proof.
  induction f as [a|f IH|c l IHl r IHr|q vs f IH]; intros H; cbn [rp_formula].
  - destruct a as [| |p ts|t gs]; cbn [rp_aformula]; try exact H.
    apply pi_cmp in H. apply pi_cmp. destruct gs; [congruence|discriminate].
  - apply pi_not. apply pi_not in H. auto.
  - apply pi_bin in H. apply pi_bin. tauto.
  - apply pi_q in H. apply pi_q. tauto.
Qed.
Lemma rp_theory_pi m th : theory_pi th -> theory_pi (rp_theory m th).
Proof. intros H f Hf. apply in_map_iff in Hf. destruct Hf as [g [<- Hg]]. apply rp_formula_pi, H, Hg. Qed.

(* =================================================================================== tau* *)
Definition rule_vars_named (r : rule) : Prop := forall x, In x (rule_vars r) -> x <> "".
Definition program_vars_named (p : program) : Prop := forall r, In r p -> rule_vars_named r.

Lemma fresh_one_nonempty taken variant : variant <> "" -> fresh_one taken variant <> "".
Proof. intros Hv. exact (has_prefix_nonempty _ _ Hv (fresh_one_prefix taken variant)). Qed.
Lemma choose_fresh_nonempty taken variant arity x : variant <> "" ->
  In x (FreshNames.choose_fresh_variable_names taken variant arity) -> x <> "".
Proof. intros Hv Hx. exact (has_prefix_nonempty _ _ Hv (choose_fresh_prefix taken variant arity x Hx)). Qed.

Lemma eq_formula_pi l r : parser_image (eq_formula l r).
Proof. apply pi_cmp. discriminate. Qed.
Lemma construct_equality_formula_pi t z : parser_image (construct_equality_formula t z).
Proof. apply eq_formula_pi. Qed.

Lemma names_cons v vs : vname v <> "" -> names_nonempty vs -> names_nonempty (v :: vs).
Proof. intros Hv Hvs w [<-|Hw]; auto. Qed.
Lemma names_nil : names_nonempty [].
Proof. intros w []. Qed.

Lemma construct_total_function_formula_pi a b o i j z :
  vname i <> "" -> vname j <> "" -> parser_image a -> parser_image b ->
  parser_image (construct_total_function_formula a b o i j z).
Proof.
  intros Hi Hj Ha Hb. unfold construct_total_function_formula. apply pi_q. split.
  - apply names_cons; [exact Hi|]. apply names_cons; [exact Hj|apply names_nil].
  - repeat (apply pi_bin; split); auto; apply eq_formula_pi.
Qed.
Lemma construct_partial_function_formula_pi a b o i j z :
  vname i <> "" -> vname j <> "" -> parser_image a -> parser_image b ->
  parser_image (construct_partial_function_formula a b o i j z).
Proof.
  intros Hi Hj Ha Hb. unfold construct_partial_function_formula. apply pi_q. split.
  - repeat (apply names_cons; [first [exact Hi|exact Hj|cbn; apply fresh_one_nonempty; discriminate]|]). apply names_nil.
  - repeat (apply pi_bin; split); auto; try apply eq_formula_pi; try (apply pi_cmp; discriminate).
    destruct o; apply eq_formula_pi.
Qed.
Lemma construct_interval_formula_pi a b i j k z :
  vname i <> "" -> vname j <> "" -> vname k <> "" -> parser_image a -> parser_image b ->
  parser_image (construct_interval_formula a b i j k z).
Proof.
  intros Hi Hj Hk Ha Hb. unfold construct_interval_formula. apply pi_q. split.
  - repeat (apply names_cons; [assumption|]). apply names_nil.
  - repeat (apply pi_bin; split); auto; try apply eq_formula_pi. apply pi_cmp. discriminate.
Qed.

Lemma val_pi t : forall z, parser_image (val t z).
Proof.
  induction t as [p|x|o a IH|o l IHl r IHr]; intros z; cbn [val].
  - apply construct_equality_formula_pi.
  - apply construct_equality_formula_pi.
  - destruct o. apply construct_total_function_formula_pi;
      try (cbn; apply fresh_one_nonempty; discriminate); [apply construct_equality_formula_pi|apply IH].
  - destruct o;
      first [apply construct_total_function_formula_pi|apply construct_partial_function_formula_pi
            |apply construct_interval_formula_pi];
      try (cbn; apply fresh_one_nonempty; discriminate); auto.
Qed.

Lemma valtz_pi ts vs : parser_image (valtz ts vs).
Proof.
  unfold valtz. apply pi_conjoin. intros x Hx. apply in_map_iff in Hx. destruct Hx as [[t v] [<- _]]. apply val_pi.
Qed.
Lemma sign_wrap_pi s f : parser_image f -> parser_image (sign_wrap s f).
Proof. intros H. destruct s; cbn; [exact H|apply pi_not, H|apply pi_not, pi_not, H]. Qed.
Lemma atom_pi p ts : parser_image (FAtomic (AAtom p ts)).
Proof. split; exact I. Qed.

Lemma tau_b_pi b : parser_image (tau_b b).
Proof.
  destruct b as [l|c]; cbn [tau_b].
  - destruct (aterms (latom l)) eqn:E.
    + unfold tau_b_propositional_literal. apply sign_wrap_pi, atom_pi.
    + unfold tau_b_first_order_literal. apply pi_q. split.
      * intros v Hv. apply in_map_iff in Hv. destruct Hv as [x [<- Hx]]. cbn.
        eapply (choose_fresh_nonempty _ "Z"); [discriminate|exact Hx].
      * apply pi_bin. split; [|apply sign_wrap_pi, atom_pi].
        apply pi_conjoin. intros x Hx. apply in_map_iff in Hx. destruct Hx as [[t' v'] [<- _]]. apply val_pi.
  - unfold tau_b_comparison. apply pi_q.
    set (names := FreshNames.choose_fresh_variable_names _ "Z" 2).
    assert (Hn : forall k, nth k names "Z" <> "").
    { intros k. destruct (nth_in_or_default k names "Z") as [Hin|E0]; [|rewrite E0; discriminate].
      eapply (choose_fresh_nonempty _ "Z" 2); [discriminate|exact Hin]. }
    split.
    + apply names_cons; [apply Hn|]. apply names_cons; [apply Hn|apply names_nil].
    + apply pi_bin. split; [|apply pi_cmp; discriminate].
      apply pi_conjoin. intros x [<-|[<-|[]]]; apply val_pi.
Qed.
Lemma tau_body_pi b : parser_image (tau_body b).
Proof.
  unfold tau_body. apply pi_conjoin. intros x Hx. apply in_map_iff in Hx. destruct Hx as [y [<- _]]. apply tau_b_pi.
Qed.

Lemma insert_sorted_in v l w : In w (insert_sorted v l) -> w = v \/ In w l.
Proof.
  induction l as [|x l IH]; cbn [insert_sorted]; [intros [<-|[]]; auto|].
  destruct (TauStar.var_leb v x); cbn [In]; [intros [<-|[<-|H]]; auto|intros [<-|H]; auto].
  destruct (IH H); auto.
Qed.
Lemma sort_vars_in l w : In w (sort_vars l) -> In w l.
Proof.
  induction l as [|x l IH]; cbn [sort_vars fold_right]; [auto|].
  intros H. apply insert_sorted_in in H. destruct H as [->|H]; [left; reflexivity|right; apply IH, H].
Qed.

Lemma globals_loop_names mt : forall count i gs, globals_loop mt i count = Some gs -> forall g, In g gs -> g <> "".
Proof.
  induction count as [|c IH]; intros i gs; cbn [globals_loop]; [intros [= <-] g []|].
  destruct (two64 <=? mt + i)%N; [discriminate|].
  destruct (globals_loop mt (N.succ i) c) as [rest|] eqn:E; cbn [option_map]; [|discriminate].
  intros [= <-] g [<-|Hg]; [discriminate|exact (IH _ _ E g Hg)].
Qed.

Lemma firstn_in {A} n (l : list A) x : In x (firstn n l) -> In x l.
Proof.
  revert l. induction n as [|n IH]; intros l; cbn [firstn]; [intros []|].
  destruct l as [|y l]; [intros []|]. intros [<-|H]; [left; reflexivity|right; apply IH, H].
Qed.
Lemma gvars_named r : rule_vars_named r -> names_nonempty (map gvar (rule_vars r)).
Proof. intros H v Hv. apply in_map_iff in Hv. destruct Hv as [x [<- Hx]]. cbn. apply H, Hx. Qed.

Lemma quantify_like_pi vs imp : names_nonempty vs -> parser_image imp ->
  parser_image (match vs with [] => imp | _ => FQ QForall vs imp end).
Proof. intros Hn Hi. destruct vs; [exact Hi|apply pi_q; auto]. Qed.

Lemma tau_star_rule_pi r globals f : rule_vars_named r -> (forall g, In g globals -> g <> "") ->
  tau_star_rule r globals = Some f -> parser_image f.
Proof.
  intros Hr Hg. unfold tau_star_rule.
  assert (Hbody : forall new_head : formula, parser_image new_head -> forall core, parser_image core ->
            parser_image (FBin CImp (if is_choice (rhead r) then FBin CAnd core (FNot (FNot new_head)) else core) new_head)).
  { intros nh Hnh core Hc. apply pi_bin. split; [|exact Hnh].
    destruct (is_choice (rhead r)); [|exact Hc]. apply pi_bin. split; [exact Hc|]. apply pi_not, pi_not, Hnh. }
  destruct (head_pred (rhead r)).
  - destruct (Nat.ltb 0 (head_arity (rhead r))).
    + unfold tau_star_fo_head_rule. destruct (head_atom (rhead r)) as [a|]; [|discriminate].
      destruct (Nat.ltb (List.length globals) (List.length (aterms a))); [discriminate|].
      intros [= <-]. apply pi_q. split.
      * intros v Hv. apply sort_vars_in, in_app_iff in Hv. destruct Hv as [Hv|Hv].
        -- exact (gvars_named r Hr v Hv).
        -- apply in_map_iff in Hv. destruct Hv as [x [<- Hx]]. cbn. apply Hg. eapply firstn_in; exact Hx.
      * apply Hbody; [apply atom_pi|]. apply pi_bin. split; [apply valtz_pi|apply tau_body_pi].
    + unfold tau_star_prop_head_rule. destruct (head_atom (rhead r)) as [a|]; [|discriminate].
      intros [= <-].
      assert (Hvs : names_nonempty (sort_vars (map gvar (rule_vars r))))
        by (intros v Hv; apply sort_vars_in in Hv; exact (gvars_named r Hr v Hv)).
      assert (Himp : parser_image (FBin CImp (if is_choice (rhead r)
                        then FBin CAnd (tau_body (rbody r)) (FNot (FNot (FAtomic (AAtom (apred a) []))))
                        else tau_body (rbody r)) (FAtomic (AAtom (apred a) []))))
        by (apply Hbody; [apply atom_pi|apply tau_body_pi]).
      destruct (sort_vars (map gvar (rule_vars r))); [exact Himp|apply pi_q; auto].
  - intros [= <-]. unfold tau_star_constraint_rule.
    assert (Hvs : names_nonempty (sort_vars (map gvar (rule_vars r))))
      by (intros v Hv; apply sort_vars_in in Hv; exact (gvars_named r Hr v Hv)).
    assert (Himp : parser_image (FBin CImp (tau_body (rbody r)) ffalse))
      by (apply pi_bin; split; [apply tau_body_pi|apply pi_false]).
    destruct (sort_vars (map gvar (rule_vars r))); [exact Himp|apply pi_q; auto].
Qed.

Lemma map_opt_in {A B} (f : A -> option B) l l' : TauStar.map_opt f l = Some l' ->
  forall y, In y l' -> exists x, In x l /\ f x = Some y.
Proof.
  revert l'. induction l as [|x l IH]; intros l'; cbn [TauStar.map_opt]; [intros [= <-] y []|].
  destruct (f x) as [y0|] eqn:E; [|discriminate].
  destruct (TauStar.map_opt f l) as [ys|]; [|discriminate].
  intros [= <-] y [<-|Hy]; [exists x; split; [left; reflexivity|exact E]|].
  destruct (IH ys eq_refl y Hy) as [x' [Hx' Ex']]. exists x'. split; [right; exact Hx'|exact Ex'].
Qed.

Theorem tau_star_pi P G : program_vars_named P -> tau_star P = Some G -> theory_pi G.
Proof.
  intros HP. unfold tau_star, choose_fresh_global_variables.
  destruct (globals_loop (max_taken_var P) 1 (max_head_arity P)) as [globals|] eqn:Eg; [|discriminate].
  intros E f Hf. destruct (map_opt_in _ _ _ E f Hf) as [r [Hr Er]].
  apply (tau_star_rule_pi r globals f (HP r Hr) (globals_loop_names _ _ _ _ Eg) Er).
Qed.

(* ============================================================================= completion *)
Lemma strip_closed_pi f : parser_image f -> free_variables f = [] ->
  parser_image (strip f) /\ forall w, In w (free_variables (strip f)) -> vname w <> "".
Proof.
  intros H Hc. destruct f as [a|g|c l r|q vs g]; try (cbn [strip]; split; [exact H|rewrite Hc; intros w []]).
  destruct q; try (cbn [strip]; split; [exact H|rewrite Hc; intros w []]).
  cbn [strip]. apply pi_q in H. destruct H as [Hn Hg]. split; [exact Hg|].
  intros w Hw. destruct (in_dec var_dec w vs) as [Hin|Hnin]; [apply Hn, Hin|].
  exfalso. assert (Hx : In w (free_variables (FQ QForall vs g))) by (apply in_fv_q; auto).
  rewrite Hc in Hx. destruct Hx.
Qed.

Lemma fresh_loop_names taken variant : variant <> "" -> forall count n fresh,
  (forall x, In x fresh -> x <> "") ->
  forall x, In x (fresh_loop taken fresh variant n count) -> x <> "".
Proof.
  intros Hv. induction count as [|k IH]; intros n fresh Hf x; cbn [fresh_loop]; [apply Hf|].
  apply IH. intros y Hy. apply in_app_iff in Hy. destruct Hy as [Hy|[<-|[]]]; [apply Hf, Hy|].
  unfold fresh_step. destruct (find_fresh_by _ variant _ n) as [[c k0]|] eqn:E; [|exact Hv].
  apply find_fresh_by_sound in E. destruct E as [_ [-> _]]. destruct variant; [congruence|discriminate].
Qed.
Lemma completion_choose_fresh_names vars variant arity x : variant <> "" ->
  In x (Completion.choose_fresh_variable_names vars variant arity) -> x <> "".
Proof.
  intros Hv. unfold Completion.choose_fresh_variable_names. destruct arity as [|a]; [intros []|].
  destruct (memb string_dec variant (map vname vars)); apply fresh_loop_names; try exact Hv.
  - intros y [].
  - intros y [<-|[]]. exact Hv.
Qed.

Lemma implication_parts m body head : implication m body head -> parser_image m ->
  parser_image body /\ parser_image head /\
  (forall w, In w (free_variables body) -> In w (free_variables m)) /\
  (forall w, In w (free_variables head) -> In w (free_variables m)).
Proof.
  intros [->| ->] H; apply pi_bin in H; destruct H as [H1 H2];
    (split; [|split; [|split]]); try assumption; intros w Hw; apply in_fv_bin; auto.
Qed.

Lemma complete_definition_pi a fs :
  (forall w, In w (aformula_vars (hatom_formula a)) -> vname w <> "") ->
  (forall F, In F fs -> parser_image F /\ forall w, In w (free_variables F) -> vname w <> "") ->
  parser_image (complete_definition (a, fs)).
Proof.
  intros Ha Hfs. unfold complete_definition. cbn [fst snd]. apply pi_quantify; [exact Ha|].
  apply pi_bin. split; [destruct a; apply atom_pi|].
  apply pi_disjoin. intros x Hx. apply in_map_iff in Hx. destruct Hx as [F [<- HF]].
  destruct (Hfs F HF) as [HpF HnF]. apply pi_quantify; [|exact HpF].
  intros w Hw. unfold iset_difference in Hw. apply filter_In in Hw. apply HnF, Hw.
Qed.

Theorem completion_pi G ins D : theory_pi G -> completion G ins = Some D -> theory_pi D.
Proof.
  intros HG E. apply completion_structure in E. destruct E as [defs [cs [Hc [_ ->]]]].
  destruct (components_spec _ _ _ Hc) as [_ [Hcs [_ [Hne H5]]]].
  intros d Hd. apply in_app_iff in Hd. destruct Hd as [Hd|Hd].
  - (* a constraint *)
    apply in_map_iff in Hd. destruct Hd as [c [<- Hcin]]. rewrite Hcs in Hcin.
    apply in_flat_map in Hcin. destruct Hcin as [f [Hf Hcf]]. unfold split_constraints in Hcf.
    destruct (split f) as [[F a|c']|] eqn:Es; try (destruct Hcf; fail).
    destruct Hcf as [Ec|[]]. subst c'.
    apply split_constraint in Es. destruct Es as [-> [Hclosed _]].
    destruct (strip_closed_pi f (HG f Hf) Hclosed) as [Hp Hn].
    unfold universal_closure. apply pi_quantify; assumption.
  - (* a completed definition *)
    apply in_map_iff in Hd. destruct Hd as [[a fs] [<- He]]. apply filter_In in He. destruct He as [He _].
    unfold all_definitions in He. apply in_app_iff in He. destruct He as [He|He].
    + (* explicit *)
      assert (Hparts : forall F, In F fs -> exists f V, In f G /\ hargs a = map var_to_gterm V /\ definition_of f F (hsym a) V).
      { intros F HF. destruct (proj1 (H5 a F)) as [f [Hf Ef]]; [exists fs; auto|].
        apply split_definition in Ef. destruct Ef as [V [EV HD]]. exists f, V. auto. }
      assert (Hall : forall F, In F fs -> parser_image F /\ (forall w, In w (free_variables F) -> vname w <> "") /\
                                          (forall w, In w (aformula_vars (hatom_formula a)) -> vname w <> "")).
      { intros F HF. destruct (Hparts F HF) as [f [V [Hf [EV [Hclosed [Himp _]]]]]].
        destruct (strip_closed_pi f (HG f Hf) Hclosed) as [Hp Hn].
        destruct (implication_parts _ _ _ Himp Hp) as [HpF [_ [HbF HhF]]].
        split; [exact HpF|]. split; [intros w Hw; apply Hn, HbF, Hw|].
        intros w Hw. apply Hn, HhF. unfold hatom_formula in Hw. rewrite EV in Hw. exact Hw. }
      apply complete_definition_pi.
      * destruct fs as [|F fs']; [exfalso; exact (Hne a [] He eq_refl)|].
        exact (proj2 (proj2 (Hall F (or_introl eq_refl)))).
      * intros F HF. destruct (Hall F HF) as [H1 [H2 _]]. auto.
    + (* implicit: p(V1..Vn) <-> #false *)
      apply in_map_iff in He. destruct He as [p [[= <- <-] _]].
      apply complete_definition_pi; [|intros F []].
      intros w Hw. unfold hatom_formula, atomic_formula_from in Hw. cbn [hsym hargs] in Hw.
      apply in_aformula_vars_atom in Hw. destruct Hw as [t [Ht Hw]].
      apply in_map_iff in Ht. destruct Ht as [x [<- Hx]]. cbn in Hw. destruct Hw as [<-|[]]. cbn.
      eapply (completion_choose_fresh_names _ "V"); [discriminate|exact Hx].
Qed.

(* the empty completed definitions appended for the missing output predicates (/repo 70e6ace, 18b2e85) *)
Lemma empty_definition_pi q : parser_image (External.empty_definition q).
Proof.
  unfold External.empty_definition. apply complete_definition_pi; [|intros F []].
  intros w Hw. unfold hatom_formula, atomic_formula_from in Hw. cbn [hsym hargs] in Hw.
  apply in_aformula_vars_atom in Hw. destruct Hw as [t [Ht Hw]].
  apply in_map_iff in Ht. destruct Ht as [x [<- Hx]]. cbn in Hw. destruct Hw as [<-|[]]. cbn.
  eapply (completion_choose_fresh_names _ "V"); [discriminate|exact Hx].
Qed.
Theorem completion_missing_outputs_pi G ins outs occ D :
  theory_pi G -> completion G ins = Some D -> theory_pi (D ++ External.missing_output_definitions outs occ D).
Proof.
  intros HG E d Hd. apply in_app_or in Hd. destruct Hd as [Hd|Hd].
  - exact (completion_pi G ins D HG E d Hd).
  - unfold External.missing_output_definitions in Hd. apply in_map_iff in Hd. destruct Hd as [q [<- _]].
    apply empty_definition_pi.
Qed.

(* ================================================================== the FOL parser's image *)
Lemma is_variable_name_nonempty x : is_variable_name x = true -> x <> "".
Proof. intros H ->. vm_compute in H. discriminate. Qed.

Lemma wf_formula_pi f : wf_formula f = true -> parser_image f.
Proof.
  induction f as [a|f IH|c l IHl r IHr|q vs f IH]; cbn [wf_formula]; intros H.
  - destruct a as [| |p ts|t gs]; try (split; exact I).
    apply pi_cmp. cbn [wf_atomic] in H. apply andb_true_iff in H. destruct H as [H _].
    apply andb_true_iff in H. destruct H as [_ H]. destruct gs; [discriminate|discriminate].
  - apply pi_not. auto.
  - apply andb_true_iff in H. apply pi_bin. tauto.
  - apply andb_true_iff in H. destruct H as [H Hf]. apply andb_true_iff in H. destruct H as [_ Hv].
    apply pi_q. split; [|auto]. intros v Hin. rewrite forallb_forall in Hv.
    apply is_variable_name_nonempty. exact (Hv v Hin).
Qed.
Lemma wf_theory_pi t : wf_theory t = true -> theory_pi t.
Proof. unfold wf_theory. rewrite forallb_forall. intros H f Hf. apply wf_formula_pi, H, Hf. Qed.
