(* C07, intuitionistic half: every rewrite of intuitionistic.rs (the ten of the INTUITIONISTIC
   portfolio and the four unused inverses) returns a formula that is HT-equivalent to its
   argument in the strong sense (every H subset-of T, every placeholder interpretation, every
   assignment - hence also classically equivalent) and has no new free variables; therefore so
   does every portfolio x strategy combination built from them. *)
From Coq Require Import List Ascii String ZArith Bool Lia.
From Anthem Require Import Base.ISet Syntax.Fol Sem.Domain Sem.Sat Model.Apply Model.Strategy
  Model.SimplIntuit Proofs.SimplSem Proofs.SimplCongr.
Import ListNotations.
Open Scope list_scope.

(* ---------- tactics for the propositional rewrites ---------- *)
Ltac break_rule :=
  repeat (cbn [andb];
    match goal with
    | |- context [formula_eqb ?a ?b] => destruct (formula_eqb_spec a b); subst
    | |- context [match ?x with _ => _ end] => is_var x; destruct x
    end).

Ltac prop_hequiv r :=
  let F := fresh "F" in let FI := fresh "FI" in let H := fresh "H" in let T := fresh "T" in
  let e := fresh "e" in let HS := fresh "HS" in let P := fresh "P" in
  intros F FI H T e HS; pose proof (persist FI H T HS) as P; unfold r; break_rule;
  try reflexivity;
  repeat match goal with
         | f : formula |- _ =>
             lazymatch goal with
             | _ : hsat FI H T e f -> csat FI T e f |- _ => fail
             | _ => pose proof (P f e)
             end
         end;
  clear P; cbn in *; tauto.

Ltac prop_fv r :=
  let F := fresh "F" in let v := fresh "v" in
  intros F; unfold r; break_rule; cbn [conjoin reduce_bin fold_left]; try apply fv_incl_refl;
  intros v; rewrite ?fv_bin; cbn [free_variables aformula_vars In]; rewrite ?fv_bin; tauto.

(* ---------- conjoin ---------- *)
Lemma hsat_fold_and FI H T e xs : forall x0,
  hsat FI H T e (fold_left (fun acc x => FBin CAnd acc x) xs x0)
  <-> hsat FI H T e x0 /\ Forall (hsat FI H T e) xs.
Proof.
  induction xs as [|x xs IH]; intros x0; cbn [fold_left].
  - split; [intros Hx; split; [exact Hx|constructor]|tauto].
  - rewrite IH, Forall_cons_iff. cbn. tauto.
Qed.
Lemma hsat_conjoin FI H T e l : hsat FI H T e (conjoin l) <-> Forall (hsat FI H T e) l.
Proof.
  unfold conjoin, reduce_bin. destruct l as [|x xs].
  - cbn. split; [constructor|tauto].
  - rewrite hsat_fold_and, Forall_cons_iff. tauto.
Qed.
Lemma fv_fold_and v xs : forall x0,
  In v (free_variables (fold_left (fun acc x => FBin CAnd acc x) xs x0))
  <-> In v (free_variables x0) \/ exists x, In x xs /\ In v (free_variables x).
Proof.
  induction xs as [|x xs IH]; intros x0; cbn [fold_left].
  - split; [auto|]. intros [?|[x [[] _]]]; auto.
  - rewrite IH, fv_bin. split.
    + intros [[?|?]|[y [? ?]]]; [auto|right; exists x; cbn; auto|right; exists y; cbn; auto].
    + intros [?|[y [[<-|?] ?]]]; eauto.
Qed.
Lemma fv_conjoin v l :
  In v (free_variables (conjoin l)) <-> exists x, In x l /\ In v (free_variables x).
Proof.
  unfold conjoin, reduce_bin. destruct l as [|x xs].
  - cbn. split; [tauto|]. intros [x [[] _]].
  - rewrite fv_fold_and. split.
    + intros [?|[y [? ?]]]; [exists x; cbn; auto|exists y; cbn; auto].
    + intros [y [[<-|?] ?]]; eauto.
Qed.

(* ---------- evaluate_comparisons ---------- *)
Lemma evaluate_comparisons_guards_sat FI H T e gs : forall t,
  Forall (hsat FI H T e) (evaluate_comparisons_guards t gs) <-> chain_sat FI e (ev_g FI e t) gs = true.
Proof.
  induction gs as [|g gs IH]; intros t; cbn [evaluate_comparisons_guards chain_sat].
  - split; [reflexivity|constructor].
  - rewrite Forall_cons_iff, IH, andb_true_iff.
    assert (Hhead : hsat FI H T e
              (FAtomic (if gterm_eqb t (gterm_of g)
                        then match grel g with REq | RGe | RLe => ATrue | _ => AFalse end
                        else ACmp t [mkguard (grel g) (gterm_of g)]))
            <-> rel_sat (grel g) (ev_g FI e t) (ev_g FI e (gterm_of g)) = true).
    { unfold gterm_eqb. destruct (gterm_dec t (gterm_of g)) as [<-|Hne].
      - rewrite rel_sat_refl. destruct (grel g); cbn; intuition congruence.
      - cbn. rewrite andb_true_r. tauto. }
    rewrite Hhead. tauto.
Qed.

Lemma evaluate_comparisons_guards_fv gs : forall t x v,
  In x (evaluate_comparisons_guards t gs) -> In v (free_variables x) ->
  In v (gterm_vars t) \/ exists g, In g gs /\ In v (gterm_vars (gterm_of g)).
Proof.
  induction gs as [|g gs IH]; intros t x v; cbn [evaluate_comparisons_guards]; [intros []|].
  intros [<-|Hx] Hv.
  - cbn [free_variables] in Hv. destruct (gterm_eqb t (gterm_of g)).
    + destruct (grel g); cbn in Hv; contradiction.
    + cbn [aformula_vars] in Hv. apply in_extend_all in Hv.
      destruct Hv as [Hv|[g' [[<-|[]] Hv]]]; [auto|]. cbn in Hv. right; exists g; cbn; auto.
  - destruct (IH _ _ _ Hx Hv) as [Hv'|[g' [Hg Hv']]]; right; [exists g|exists g']; cbn; auto.
Qed.

Lemma evaluate_comparisons_hequiv : forall F, hequiv (evaluate_comparisons F) F.
Proof.
  intros F FI H T e HS. destruct F as [[| |p ts|t gs]|f|c l r|q vs f]; try reflexivity.
  cbn [evaluate_comparisons]. rewrite hsat_conjoin, evaluate_comparisons_guards_sat. cbn. tauto.
Qed.
Lemma evaluate_comparisons_fv : forall F, fv_incl (evaluate_comparisons F) F.
Proof.
  intros F. destruct F as [[| |p ts|t gs]|f|c l r|q vs f]; try apply fv_incl_refl.
  cbn [evaluate_comparisons]. intros v Hv. apply fv_conjoin in Hv. destruct Hv as [x [Hx Hv]].
  cbn [free_variables aformula_vars]. apply in_extend_all.
  destruct (evaluate_comparisons_guards_fv _ _ _ _ Hx Hv) as [?|[g [? ?]]]; eauto.
Qed.

(* ---------- the propositional rewrites ---------- *)
Lemma apply_negation_definition_hequiv : forall F, hequiv (apply_negation_definition F) F.
Proof. prop_hequiv apply_negation_definition. Qed.
Lemma apply_negation_definition_fv : forall F, fv_incl (apply_negation_definition F) F.
Proof. prop_fv apply_negation_definition. Qed.

Lemma apply_negation_definition_inverse_hequiv : forall F, hequiv (apply_negation_definition_inverse F) F.
Proof. prop_hequiv apply_negation_definition_inverse. Qed.
Lemma apply_negation_definition_inverse_fv : forall F, fv_incl (apply_negation_definition_inverse F) F.
Proof. prop_fv apply_negation_definition_inverse. Qed.

Lemma apply_reverse_implication_definition_hequiv : forall F, hequiv (apply_reverse_implication_definition F) F.
Proof. prop_hequiv apply_reverse_implication_definition. Qed.
Lemma apply_reverse_implication_definition_fv : forall F, fv_incl (apply_reverse_implication_definition F) F.
Proof. prop_fv apply_reverse_implication_definition. Qed.

Lemma apply_reverse_implication_definition_inverse_hequiv :
  forall F, hequiv (apply_reverse_implication_definition_inverse F) F.
Proof. prop_hequiv apply_reverse_implication_definition_inverse. Qed.
Lemma apply_reverse_implication_definition_inverse_fv :
  forall F, fv_incl (apply_reverse_implication_definition_inverse F) F.
Proof. prop_fv apply_reverse_implication_definition_inverse. Qed.

Lemma apply_equivalence_definition_hequiv : forall F, hequiv (apply_equivalence_definition F) F.
Proof. prop_hequiv apply_equivalence_definition. Qed.
Lemma apply_equivalence_definition_fv : forall F, fv_incl (apply_equivalence_definition F) F.
Proof. prop_fv apply_equivalence_definition. Qed.

Lemma apply_equivalence_definition_inverse_hequiv : forall F, hequiv (apply_equivalence_definition_inverse F) F.
Proof. prop_hequiv apply_equivalence_definition_inverse. Qed.
Lemma apply_equivalence_definition_inverse_fv : forall F, fv_incl (apply_equivalence_definition_inverse F) F.
Proof. prop_fv apply_equivalence_definition_inverse. Qed.

Lemma remove_identities_hequiv : forall F, hequiv (remove_identities F) F.
Proof. prop_hequiv remove_identities. Qed.
Lemma remove_identities_fv : forall F, fv_incl (remove_identities F) F.
Proof. prop_fv remove_identities. Qed.

Lemma remove_annihilations_hequiv : forall F, hequiv (remove_annihilations F) F.
Proof. prop_hequiv remove_annihilations. Qed.
Lemma remove_annihilations_fv : forall F, fv_incl (remove_annihilations F) F.
Proof. prop_fv remove_annihilations. Qed.

Lemma remove_idempotences_hequiv : forall F, hequiv (remove_idempotences F) F.
Proof. prop_hequiv remove_idempotences. Qed.
Lemma remove_idempotences_fv : forall F, fv_incl (remove_idempotences F) F.
Proof. prop_fv remove_idempotences. Qed.

(* ---------- the quantifier rewrites ---------- *)
Lemma remove_orphaned_variables_hequiv : forall F, hequiv (remove_orphaned_variables F) F.
Proof.
  intros F FI H T e HS. destruct F as [a|f|c l r|q vs f]; try reflexivity.
  cbn [remove_orphaned_variables hsat].
  apply (qsat_filter q (fun v => memb var_dec v (free_variables f)) vs (fun e' => hsat FI H T e' f)).
  intros e1 e2 Ha. apply coincidence_h. intros v Hv. apply Ha.
  destruct (memb_spec var_dec v (free_variables f)); [reflexivity|contradiction].
Qed.
Lemma remove_orphaned_variables_fv : forall F, fv_incl (remove_orphaned_variables F) F.
Proof.
  intros F. destruct F as [a|f|c l r|q vs f]; try apply fv_incl_refl.
  cbn [remove_orphaned_variables]. intros v. rewrite !fv_q, filter_In.
  intros [Hv Hn]. split; [exact Hv|]. intros Hin. apply Hn. split; [exact Hin|].
  destruct (memb_spec var_dec v (free_variables f)); [reflexivity|contradiction].
Qed.

Lemma remove_empty_quantifications_hequiv : forall F, hequiv (remove_empty_quantifications F) F.
Proof.
  intros F FI H T e HS. destruct F as [a|f|c l r|q [|v vs] f]; reflexivity.
Qed.
Lemma remove_empty_quantifications_fv : forall F, fv_incl (remove_empty_quantifications F) F.
Proof.
  intros F. destruct F as [a|f|c l r|q [|v vs] f]; try apply fv_incl_refl.
  cbn [remove_empty_quantifications]. intros v Hv. apply fv_q. split; [exact Hv|intros []].
Qed.

(* sorting and deduplication keep the set of variables *)
Lemma in_var_insert x v l : In x (var_insert v l) <-> x = v \/ In x l.
Proof.
  induction l as [|w l IH]; cbn; [intuition|].
  destruct (var_leb v w); cbn; rewrite ?IH; intuition.
Qed.
Lemma in_var_sort x l : In x (var_sort l) <-> In x l.
Proof.
  unfold var_sort. induction l as [|w l IH]; cbn; [tauto|].
  rewrite in_var_insert, IH. intuition.
Qed.
Lemma in_var_dedup x l : In x (var_dedup l) <-> In x l.
Proof.
  induction l as [|a l IH]; [cbn; tauto|].
  destruct l as [|b l']; [cbn; tauto|].
  change (var_dedup (a :: b :: l')) with (if var_eqb a b then var_dedup (b :: l') else a :: var_dedup (b :: l')).
  destruct (var_eqb_spec a b) as [->|Hne].
  - rewrite IH. cbn; tauto.
  - cbn [In]. rewrite IH. cbn; tauto.
Qed.
Lemma in_joined_variables x vs ws : In x (var_dedup (var_sort (vs ++ ws))) <-> In x vs \/ In x ws.
Proof. rewrite in_var_dedup, in_var_sort, in_app_iff. tauto. Qed.

Lemma hsat_quantify FI H T e f q vs :
  hsat FI H T e (quantify f q vs) <-> qsat q vs (fun e' => hsat FI H T e' f) e.
Proof. destruct vs; cbn; tauto. Qed.
Lemma fv_quantify v f q vs :
  In v (free_variables (quantify f q vs)) <-> In v (free_variables f) /\ ~ In v vs.
Proof. destruct vs as [|w vs]; [cbn; tauto|]. unfold quantify. apply fv_q. Qed.

Lemma join_nested_quantifiers_hequiv : forall F, hequiv (join_nested_quantifiers F) F.
Proof.
  intros F FI H T e HS. destruct F as [a|f|c l r|q vs [a|f|c l r|q' ws g]]; try reflexivity.
  cbn [join_nested_quantifiers]. destruct (quant_dec q q') as [<-|Hne]; [|reflexivity].
  rewrite hsat_quantify. cbn [hsat].
  rewrite <- (qsat_app q vs ws (fun e' => hsat FI H T e' g) e).
  apply qsat_same_set; [apply extensional_hsat|].
  intros v. rewrite in_joined_variables, in_app_iff. tauto.
Qed.
Lemma join_nested_quantifiers_fv : forall F, fv_incl (join_nested_quantifiers F) F.
Proof.
  intros F. destruct F as [a|f|c l r|q vs [a|f|c l r|q' ws g]]; try apply fv_incl_refl.
  cbn [join_nested_quantifiers]. destruct (quant_dec q q') as [<-|Hne]; [|apply fv_incl_refl].
  intros v. rewrite fv_quantify, in_joined_variables, !fv_q. tauto.
Qed.

(* ---------- the portfolios ---------- *)
Definition sound_h := sound hequiv.
Definition sound_c := sound cequiv.
Definition sound_fv := sound fv_incl.

Lemma INTUITIONISTIC_hequiv : Forall (sound hequiv) INTUITIONISTIC.
Proof.
  unfold INTUITIONISTIC, sound.
  repeat (apply Forall_cons || apply Forall_nil).
  - exact evaluate_comparisons_hequiv.
  - exact apply_negation_definition_inverse_hequiv.
  - exact apply_reverse_implication_definition_hequiv.
  - exact apply_equivalence_definition_inverse_hequiv.
  - exact remove_identities_hequiv.
  - exact remove_annihilations_hequiv.
  - exact remove_idempotences_hequiv.
  - exact remove_orphaned_variables_hequiv.
  - exact remove_empty_quantifications_hequiv.
  - exact join_nested_quantifiers_hequiv.
Qed.
Lemma INTUITIONISTIC_fv : Forall (sound fv_incl) INTUITIONISTIC.
Proof.
  unfold INTUITIONISTIC, sound.
  repeat (apply Forall_cons || apply Forall_nil).
  - exact evaluate_comparisons_fv.
  - exact apply_negation_definition_inverse_fv.
  - exact apply_reverse_implication_definition_fv.
  - exact apply_equivalence_definition_inverse_fv.
  - exact remove_identities_fv.
  - exact remove_annihilations_fv.
  - exact remove_idempotences_fv.
  - exact remove_orphaned_variables_fv.
  - exact remove_empty_quantifications_fv.
  - exact join_nested_quantifiers_fv.
Qed.
Lemma HT_hequiv : Forall (sound hequiv) HT.
Proof. constructor. Qed.
Lemma HT_fv : Forall (sound fv_incl) HT.
Proof. constructor. Qed.
Lemma portfolio_ht_hequiv : Forall (sound hequiv) portfolio_ht.
Proof. apply Forall_app; split; [apply INTUITIONISTIC_hequiv|apply HT_hequiv]. Qed.
Lemma portfolio_ht_fv : Forall (sound fv_incl) portfolio_ht.
Proof. apply Forall_app; split; [apply INTUITIONISTIC_fv|apply HT_fv]. Qed.

(* the four rewrites that are defined but not part of any portfolio *)
Definition UNUSED_INVERSES : list (formula -> formula) :=
  [ apply_negation_definition; apply_reverse_implication_definition_inverse; apply_equivalence_definition ].
Lemma UNUSED_INVERSES_hequiv : Forall (sound hequiv) UNUSED_INVERSES.
Proof.
  unfold UNUSED_INVERSES, sound. repeat (apply Forall_cons || apply Forall_nil).
  - exact apply_negation_definition_hequiv.
  - exact apply_reverse_implication_definition_inverse_hequiv.
  - exact apply_equivalence_definition_hequiv.
Qed.
Lemma UNUSED_INVERSES_fv : Forall (sound fv_incl) UNUSED_INVERSES.
Proof.
  unfold UNUSED_INVERSES, sound. repeat (apply Forall_cons || apply Forall_nil).
  - exact apply_negation_definition_fv.
  - exact apply_reverse_implication_definition_inverse_fv.
  - exact apply_equivalence_definition_fv.
Qed.

(* ---------- statements in the form used by Properties/C07.v ---------- *)
(* every rule of the portfolio: HT (strong sense), classical (there world), free variables *)
Theorem int_rule_ok r : In r INTUITIONISTIC ->
  forall F, (forall FI H T e, sub H T -> (hsat FI H T e (r F) <-> hsat FI H T e F))
            /\ (forall FI T e, csat FI T e (r F) <-> csat FI T e F)
            /\ incl (free_variables (r F)) (free_variables F).
Proof.
  intros Hin F.
  pose proof (proj1 (Forall_forall _ _) INTUITIONISTIC_hequiv r Hin F) as Hh.
  pose proof (proj1 (Forall_forall _ _) INTUITIONISTIC_fv r Hin F) as Hf.
  split; [exact Hh|]. split; [exact (hequiv_cequiv _ _ Hh)|exact Hf].
Qed.
Theorem unused_rule_ok r : In r UNUSED_INVERSES ->
  forall F, (forall FI H T e, sub H T -> (hsat FI H T e (r F) <-> hsat FI H T e F))
            /\ (forall FI T e, csat FI T e (r F) <-> csat FI T e F)
            /\ incl (free_variables (r F)) (free_variables F).
Proof.
  intros Hin F.
  pose proof (proj1 (Forall_forall _ _) UNUSED_INVERSES_hequiv r Hin F) as Hh.
  pose proof (proj1 (Forall_forall _ _) UNUSED_INVERSES_fv r Hin F) as Hf.
  split; [exact Hh|]. split; [exact (hequiv_cequiv _ _ Hh)|exact Hf].
Qed.

(* replacement theorem, stated without the auxiliary definitions *)
Theorem apply_congruence_h (r : formula -> formula) :
  (forall F FI H T e, sub H T -> (hsat FI H T e (r F) <-> hsat FI H T e F)) ->
  forall F FI H T e, sub H T -> (hsat FI H T e (apply r F) <-> hsat FI H T e F).
Proof. intros Hr. exact (apply_hequiv r Hr). Qed.
Theorem apply_congruence_c (r : formula -> formula) :
  (forall F FI I e, csat FI I e (r F) <-> csat FI I e F) ->
  forall F FI I e, csat FI I e (apply r F) <-> csat FI I e F.
Proof. intros Hr. exact (apply_cequiv r Hr). Qed.
Theorem compose_congruence_h (rs : list (formula -> formula)) :
  (forall r, In r rs -> forall F FI H T e, sub H T -> (hsat FI H T e (r F) <-> hsat FI H T e F)) ->
  forall F FI H T e, sub H T -> (hsat FI H T e (compose rs F) <-> hsat FI H T e F).
Proof. intros Hr. apply compose_hequiv. apply Forall_forall. exact Hr. Qed.
Theorem apply_fixpoint_congruence_h (r : formula -> formula) fuel F G :
  (forall F FI H T e, sub H T -> (hsat FI H T e (r F) <-> hsat FI H T e F)) ->
  apply_fixpoint fuel r F = Some G ->
  forall FI H T e, sub H T -> (hsat FI H T e G <-> hsat FI H T e F).
Proof. intros Hr Hfix. exact (apply_fixpoint_hequiv fuel r F G Hr Hfix). Qed.
Theorem apply_congruence_fv (r : formula -> formula) :
  (forall F, incl (free_variables (r F)) (free_variables F)) ->
  forall F, incl (free_variables (apply r F)) (free_variables F).
Proof. intros Hr. exact (apply_fv_incl r Hr). Qed.

(* every portfolio x strategy combination offered by `simplify` for the intuitionistic and ht
   portfolios, with any fuel *)
Theorem int_portfolio_ok fuel s F G :
  run_strategy fuel portfolio_intuitionistic s F = Some G ->
  (forall FI H T e, sub H T -> (hsat FI H T e G <-> hsat FI H T e F))
  /\ (forall FI T e, csat FI T e G <-> csat FI T e F)
  /\ incl (free_variables G) (free_variables F).
Proof.
  intros Hrun.
  pose proof (run_strategy_hequiv fuel _ s F G INTUITIONISTIC_hequiv Hrun) as Hh.
  split; [exact Hh|]. split; [exact (hequiv_cequiv _ _ Hh)|].
  exact (run_strategy_fv_incl fuel _ s F G INTUITIONISTIC_fv Hrun).
Qed.
Theorem ht_portfolio_ok fuel s F G :
  run_strategy fuel portfolio_ht s F = Some G ->
  (forall FI H T e, sub H T -> (hsat FI H T e G <-> hsat FI H T e F))
  /\ (forall FI T e, csat FI T e G <-> csat FI T e F)
  /\ incl (free_variables G) (free_variables F).
Proof.
  intros Hrun.
  pose proof (run_strategy_hequiv fuel _ s F G portfolio_ht_hequiv Hrun) as Hh.
  split; [exact Hh|]. split; [exact (hequiv_cequiv _ _ Hh)|].
  exact (run_strategy_fv_incl fuel _ s F G portfolio_ht_fv Hrun).
Qed.
Theorem ht_portfolio_fv fuel s F G :
  run_strategy fuel portfolio_ht s F = Some G -> incl (free_variables G) (free_variables F).
Proof. intros Hrun. exact (proj2 (proj2 (ht_portfolio_ok fuel s F G Hrun))). Qed.
