(* C03 (audit A9): the problems of --direction universal are exactly the forward problems followed by
   the backward problems: C03 for DUniversal says `refuted iff sub /\ (forward difference \/ backward
   difference)`; which family a refuted problem belongs to is read off C03_forward / C03_backward
   through this lemma. *)
From Coq Require Import List String ZArith Bool.
From Anthem Require Import Syntax.Fol Syntax.Asp Model.Problem Model.Strong Model.StrongFull.
Import ListNotations.
Open Scope list_scope.

Definition with_direction (t : strong_task) (d : direction) : strong_task :=
  mkstrong (st_left t) (st_right t) (st_decomposition t) d (st_repr t) (st_simplify t) (st_break t).

Lemma strong_assemble_universal ta l r dec :
  strong_assemble ta l r DUniversal dec = strong_assemble ta l r DForward dec ++ strong_assemble ta l r DBackward dec.
Proof. unfold strong_assemble. cbn. rewrite !app_nil_r. reflexivity. Qed.

Theorem universal_families t pbs :
  st_direction t = DUniversal -> strong_decompose_full t = SOk pbs ->
  exists pf pb,
    strong_decompose_full (with_direction t DForward) = SOk pf /\
    strong_decompose_full (with_direction t DBackward) = SOk pb /\
    pbs = pf ++ pb.
Proof.
  intros Hd. unfold strong_decompose_full, strong_decompose_full_fuel, with_direction.
  cbn [st_left st_right st_decomposition st_direction st_repr st_simplify st_break]. rewrite Hd.
  repeat match goal with
         | |- context [sbind ?x _] => destruct x; cbn [sbind]; try discriminate
         end.
  intros [= <-]. eexists _, _. split; [reflexivity|]. split; [reflexivity|]. apply strong_assemble_universal.
Qed.
