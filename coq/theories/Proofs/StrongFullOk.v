(* COMPOSITION for the strong-equivalence pipeline: the end-to-end model Model/StrongFull.v is, in
   its [SOk] case, Model/Strong.v's assembly instantiated with total wrappers of the real
   components, and every component hypothesis of Proofs/StrongOk.v's Section [Task] is discharged:

     simp_ht_ok, simp_ht_vocab    C07 intuitionistic half (Proofs/SimplIntuitOk.v, SimplCongr.v) and
                                  "predicates not enlarged" (Proofs/SimplIntuitVocab.v)
     simp_classic_ok              C07 full classic portfolio (Proofs/SimplFull.v), through the
                                  refinement of the panic-aware runner (Proofs/StrategyClsOk.v)
     tau_star_vocab/_adequate     C01 (Proofs/TauStarProgram.v, TauStarClassical.v)
     mu_vocab/_adequate           C08 composed with C01 (Proofs/MuFullOk.v, NaturalVocab.v)
   on the class [good] := no_global_overflow (outside it the real code panics, F11; an [SOk]
   result implies that both programs are in the class).

   What remains a premise: [no_symbol_pred_clash_full] (finding F8b: outside it
   rename_conflicting_symbols changes the meaning).  Nothing else. *)
From Coq Require Import List Ascii String ZArith NArith Bool Lia Classical_Prop.
From Anthem Require Import Base.ISet Syntax.Fol Syntax.Asp Sem.Domain Sem.Sat Sem.AspRef
  Model.Apply Model.Gamma Model.Break Model.Problem Model.Strong Model.TauStar Model.MuFull
  Model.SimplIntuit Model.SimplClassic Model.StrongFull
  Proofs.SemBase Proofs.DecomposeOk Proofs.StrongOk Proofs.TauStarProgram Proofs.MuFullOk
  Proofs.SimplCongr Proofs.SimplIntuitOk Proofs.SimplIntuitTerm Proofs.SimplIntuitVocab
  Proofs.StrategyClsOk Proofs.SimplFull Proofs.ExtendAll.
From Anthem Require Model.StrategyCls.
Import ListNotations.
Open Scope string_scope.
Open Scope list_scope.

(* ---------- total wrappers of the real components ---------- *)
Definition tau_star_tot (P : program) : theory := match tau_star P with Some th => th | None => [] end.
Definition mu_tot (P : program) : theory := match mu_full P with Some th => th | None => [] end.
Definition simp_ht_tot (f : formula) : formula :=
  match apply_fixpoint (simplify_fuel f) (compose PORTFOLIO_HT) f with Some g => g | None => f end.
Definition simp_classic_tot_fuel (fuel : nat) (f : formula) : formula :=
  match apply_fixpoint fuel (compose FULL_CLASSIC) f with Some g => g | None => f end.
Definition simp_classic_tot : formula -> formula := simp_classic_tot_fuel classic_fuel.

Definition strong_decompose_tot_fuel (fuel : nat) : strong_task -> list problem :=
  strong_decompose tau_star_tot mu_tot simp_ht_tot (simp_classic_tot_fuel fuel).
Definition strong_decompose_tot : strong_task -> list problem := strong_decompose_tot_fuel classic_fuel.

(* ---------- the SOk case of the full model is the instantiated assembly ---------- *)
Lemma smap_ok {A B} (f : A -> sresult B) (g : A -> B) : (forall x y, f x = SOk y -> g x = y) ->
  forall l m, smap f l = SOk m -> m = map g l.
Proof.
  intros Hfg. induction l as [|x l IH]; intros m; cbn [smap map].
  - intros [= <-]. reflexivity.
  - destruct (f x) as [y| |] eqn:Ex; cbn [sbind]; try discriminate.
    destruct (smap f l) as [ys| |]; cbn [sbind]; try discriminate.
    intros [= <-]. rewrite (Hfg x y Ex), (IH ys eq_refl). reflexivity.
Qed.
Lemma stage_ok on (f : formula -> sresult formula) (g : formula -> formula) :
  (forall x y, f x = SOk y -> g x = y) ->
  forall l m, stage on f l = SOk m -> m = if on then map g l else l.
Proof.
  intros Hfg l m. unfold stage. destruct on; [apply smap_ok, Hfg|]. intros [= <-]. reflexivity.
Qed.

Lemma simp_ht_full_tot x y : simp_ht_full x = SOk y -> simp_ht_tot x = y.
Proof.
  unfold simp_ht_full, simp_ht_tot. destruct (apply_fixpoint _ _ x); [|discriminate]. intros [= <-]. reflexivity.
Qed.

Lemma FULL_CLASSIC_opt_refines : Forall2 refines FULL_CLASSIC_opt FULL_CLASSIC.
Proof.
  unfold FULL_CLASSIC_opt, FULL_CLASSIC. rewrite app_assoc.
  apply Forall2_app; [|apply CLASSIC_opt_refines].
  induction (INTUITIONISTIC ++ HT) as [|r rs IH]; cbn [map]; constructor; [|exact IH].
  intros x y [= <-]. reflexivity.
Qed.
Lemma simp_classic_full_run fuel x y : simp_classic_full_fuel fuel x = SOk y ->
  StrategyCls.run_strategy fuel FULL_CLASSIC StrategyCls.Fixpoint_ x = Some y.
Proof.
  unfold simp_classic_full_fuel. intros E.
  apply (run_strategy_opt_refines fuel FULL_CLASSIC_opt FULL_CLASSIC StrategyCls.Fixpoint_ x y FULL_CLASSIC_opt_refines).
  cbn [StrategyCls.run_strategy_opt].
  destruct (StrategyCls.apply_fixpoint_opt fuel (StrategyCls.compose_opt FULL_CLASSIC_opt) x); try discriminate.
  injection E as ->. reflexivity.
Qed.
Lemma simp_classic_full_tot fuel x y : simp_classic_full_fuel fuel x = SOk y -> simp_classic_tot_fuel fuel x = y.
Proof.
  intros E. apply simp_classic_full_run in E. cbn [StrategyCls.run_strategy] in E.
  unfold simp_classic_tot_fuel. rewrite E. reflexivity.
Qed.

Lemma repr_full_ok r P th : repr_full r P = SOk th ->
  th = match r with ReprMu => mu_tot P | ReprTauStar => tau_star_tot P end /\ no_global_overflow P.
Proof.
  unfold repr_full, mu_tot, tau_star_tot. destruct r.
  - destruct (mu_full P) as [m|] eqn:E; cbn [of_panic]; [|discriminate]. intros [= <-].
    split; [reflexivity|]. apply mu_full_defined_iff. eauto.
  - destruct (tau_star P) as [m|] eqn:E; cbn [of_panic]; [|discriminate]. intros [= <-].
    split; [reflexivity|]. apply tau_star_defined_iff. eauto.
Qed.

Theorem strong_decompose_full_fuel_ok fuel t pbs : strong_decompose_full_fuel fuel t = SOk pbs ->
  pbs = strong_decompose_tot_fuel fuel t /\ no_global_overflow (st_left t) /\ no_global_overflow (st_right t).
Proof.
  unfold strong_decompose_full_fuel, strong_decompose_tot_fuel, strong_decompose, strong_side.
  destruct (repr_full (st_repr t) (st_left t)) as [l0| |] eqn:El0; cbn [sbind]; try discriminate.
  destruct (repr_full (st_repr t) (st_right t)) as [r0| |] eqn:Er0; cbn [sbind]; try discriminate.
  destruct (stage (st_simplify t) simp_ht_full l0) as [l1| |] eqn:El1; cbn [sbind]; try discriminate.
  destruct (stage (st_simplify t) simp_ht_full r0) as [r1| |] eqn:Er1; cbn [sbind]; try discriminate.
  destruct (stage (st_simplify t) (simp_classic_full_fuel fuel) (gamma_theory l1)) as [l3| |] eqn:El3; cbn [sbind]; try discriminate.
  destruct (stage (st_simplify t) (simp_classic_full_fuel fuel) (gamma_theory r1)) as [r3| |] eqn:Er3; cbn [sbind]; try discriminate.
  intros [= <-].
  destruct (repr_full_ok _ _ _ El0) as [-> Hgl]. destruct (repr_full_ok _ _ _ Er0) as [-> Hgr].
  apply (stage_ok _ _ _ simp_ht_full_tot) in El1, Er1. apply (stage_ok _ _ _ (simp_classic_full_tot fuel)) in El3, Er3.
  subst l1 r1 l3 r3. split; [|split; assumption].
  destruct (st_repr t), (st_simplify t), (st_break t); reflexivity.
Qed.
Theorem strong_decompose_full_ok t pbs : strong_decompose_full t = SOk pbs ->
  pbs = strong_decompose_tot t /\ no_global_overflow (st_left t) /\ no_global_overflow (st_right t).
Proof. exact (strong_decompose_full_fuel_ok classic_fuel t pbs). Qed.

(* ---------- the component facts ---------- *)
Lemma simp_ht_tot_ok FI H T f : sub H T -> (hvalid FI H T (simp_ht_tot f) <-> hvalid FI H T f).
Proof.
  intros HS. unfold simp_ht_tot.
  destruct (apply_fixpoint (simplify_fuel f) (compose PORTFOLIO_HT) f) as [g|] eqn:E; [|reflexivity].
  pose proof (apply_fixpoint_hequiv _ _ _ _ (compose_hequiv _ portfolio_ht_hequiv) E) as Hh.
  unfold hvalid. split; intros Hv e; apply (Hh FI H T e HS), Hv.
Qed.
Lemma simp_ht_tot_vocab f p : In p (predicates (simp_ht_tot f)) -> In p (predicates f).
Proof.
  unfold simp_ht_tot.
  destruct (apply_fixpoint (simplify_fuel f) (compose PORTFOLIO_HT) f) as [g|] eqn:E; [|auto].
  apply (fixpoint_ht_preds _ _ _ E).
Qed.
(* the pre-gamma loop always returns (C18_term_ht): the None arm of simp_ht_tot is dead code *)
Lemma simp_ht_full_total f : exists g, simp_ht_full f = SOk g.
Proof.
  unfold simp_ht_full, simplify_fuel, PORTFOLIO_HT. destruct (ht_fixpoint_terminates f) as [g E]. rewrite E. eauto.
Qed.
Lemma simp_classic_tot_ok fuel FI M f : cvalid FI M (simp_classic_tot_fuel fuel f) <-> cvalid FI M f.
Proof.
  unfold simp_classic_tot_fuel.
  destruct (apply_fixpoint fuel (compose FULL_CLASSIC) f) as [g|] eqn:E; [|reflexivity].
  destruct (full_classic_strategies fuel StrategyCls.Fixpoint_ f g E) as [Hc _].
  unfold cvalid. split; intros Hv e; apply Hc, Hv.
Qed.
Lemma tau_star_tot_vocab P f p : no_global_overflow P -> In f (tau_star_tot P) -> In p (predicates f) -> In p (program_preds P).
Proof.
  intros _. unfold tau_star_tot. destruct (tau_star P) as [G|] eqn:E; [|intros []]. apply (tau_star_formula_predicates P G E).
Qed.
Lemma mu_tot_vocab P f p : no_global_overflow P -> In f (mu_tot P) -> In p (predicates f) -> In p (program_preds P).
Proof.
  intros _. unfold mu_tot. destruct (mu_full P) as [G|] eqn:E; [|intros []]. apply (mu_full_predicates P G E).
Qed.
Lemma tau_star_tot_adequate FI H T P : no_global_overflow P -> sub H T ->
  ((forall f, In f (tau_star_tot P) -> hvalid FI H T f) <-> ref_sat H T P).
Proof.
  intros Hno _. unfold tau_star_tot. destruct (tau_star_defined P Hno) as [G E]. rewrite E.
  exact (tau_star_ht FI P G H T E).
Qed.
Lemma mu_tot_adequate FI H T P : no_global_overflow P -> sub H T ->
  ((forall f, In f (mu_tot P) -> hvalid FI H T f) <-> ref_sat H T P).
Proof.
  intros Hno HS. unfold mu_tot. destruct (proj2 (mu_full_defined_iff P) Hno) as [G E]. rewrite E.
  exact (mu_full_theory P G E FI H T HS).
Qed.

(* ---------- the reference semantics depends on the programs' predicates only ---------- *)
Definition pint_equiv_on (S : list pred) (W W' : pint) : Prop :=
  forall p a, In (mkpred p (List.length a)) S -> (W p a <-> W' p a).

Lemma tuple_vals_length sg ts vs : tuple_vals sg ts vs -> List.length vs = List.length ts.
Proof. unfold tuple_vals. induction 1; cbn; auto. Qed.

Lemma bformula_sat_equiv_on S W W' T T' sg b : pint_equiv_on S W W' -> pint_equiv_on S T T' ->
  (forall p, In p (bformula_preds b) -> In p S) ->
  (bformula_sat W T sg b <-> bformula_sat W' T' sg b).
Proof.
  intros EW ET HS. destruct b as [[sgn a]|c]; cbn; [|tauto].
  assert (Hin : forall vs, tuple_vals sg (aterms a) vs -> In (mkpred (apred a) (List.length vs)) S).
  { intros vs Hv. rewrite (tuple_vals_length _ _ _ Hv). apply HS. cbn. left. reflexivity. }
  destruct sgn; split; intros [vs [Hv Hx]]; exists vs; split; auto;
    try (apply (EW _ _ (Hin vs Hv)); exact Hx);
    try (rewrite <- (ET _ _ (Hin vs Hv)); exact Hx); try (rewrite (ET _ _ (Hin vs Hv)); exact Hx).
Qed.
Lemma body_sat_equiv_on S W W' T T' sg b : pint_equiv_on S W W' -> pint_equiv_on S T T' ->
  (forall p, In p (body_preds b) -> In p S) ->
  (body_sat W T sg b <-> body_sat W' T' sg b).
Proof.
  intros EW ET HS. unfold body_sat. rewrite !Forall_forall.
  assert (Hb : forall x, In x b -> forall p, In p (bformula_preds x) -> In p S).
  { intros x Hx p Hp. apply HS. unfold body_preds. apply in_extend_all. right. eauto. }
  split; intros H x Hx; specialize (H x Hx);
    apply (bformula_sat_equiv_on S W W' T T' sg x EW ET (Hb x Hx)); exact H.
Qed.
Lemma head_sat_equiv_on S W W' T T' sg h : pint_equiv_on S W W' -> pint_equiv_on S T T' ->
  (forall p, head_pred h = Some p -> In p S) ->
  (head_sat W T sg h <-> head_sat W' T' sg h).
Proof.
  intros EW ET HS. destruct h as [a|a|]; cbn; [| |tauto].
  - assert (Hin : forall vs, tuple_vals sg (aterms a) vs -> In (mkpred (apred a) (List.length vs)) S).
    { intros vs Hv. rewrite (tuple_vals_length _ _ _ Hv). apply HS. reflexivity. }
    split; intros H vs Hv; apply (EW _ _ (Hin vs Hv)), H, Hv.
  - assert (Hin : forall vs, tuple_vals sg (aterms a) vs -> In (mkpred (apred a) (List.length vs)) S).
    { intros vs Hv. rewrite (tuple_vals_length _ _ _ Hv). apply HS. reflexivity. }
    split; intros H vs Hv; destruct (H vs Hv) as [Hw|Hn];
      [left; apply (EW _ _ (Hin vs Hv)); exact Hw|right; rewrite <- (ET _ _ (Hin vs Hv)); exact Hn
      |left; apply (EW _ _ (Hin vs Hv)); exact Hw|right; rewrite (ET _ _ (Hin vs Hv)); exact Hn].
Qed.
Lemma ref_sat_equiv_on S H H' T T' P : pint_equiv_on S H H' -> pint_equiv_on S T T' ->
  (forall p, In p (program_preds P) -> In p S) ->
  (ref_sat H T P <-> ref_sat H' T' P).
Proof.
  intros EH ET HS. unfold ref_sat, ref_rule_sat.
  assert (Hr : forall r, In r P -> (forall p, In p (body_preds (rbody r)) -> In p S) /\
                                   (forall p, head_pred (rhead r) = Some p -> In p S)).
  { intros r Hr. split; intros p Hp; apply HS, in_program_preds; exists r; split; auto; apply in_rule_preds; auto. }
  split; intros Hs r Hin sg; specialize (Hs r Hin sg); destruct (Hr r Hin) as [Hb Hh];
    rewrite ?(body_sat_equiv_on S H H' T T' sg _ EH ET Hb), ?(head_sat_equiv_on S H H' T T' sg _ EH ET Hh),
            ?(body_sat_equiv_on S T T' T T' sg _ ET ET Hb), ?(head_sat_equiv_on S T T' T T' sg _ ET ET Hh) in *; exact Hs.
Qed.

(* under the inclusion forced by the transition axioms, the cut-down here-world is the h-world *)
Lemma Hc_H_of_on S M : sub_on S (H_of M) (T_of M) -> pint_equiv_on S (Hc M) (H_of M).
Proof. intros Hs p a Hin. unfold Hc. split; [tauto|]. intros Hh. split; [exact Hh|apply (Hs _ _ Hin Hh)]. Qed.
Lemma pint_equiv_on_refl S W : pint_equiv_on S W W.
Proof. intros p a _. tauto. Qed.

Lemma ref_sat_Hc L R M P : sub_on (strong_predicates L R) (H_of M) (T_of M) ->
  (forall p, In p (program_preds P) -> In p (strong_predicates L R)) ->
  (ref_sat (Hc M) (T_of M) P <-> ref_sat (H_of M) (T_of M) P).
Proof.
  intros Hs HP. apply (ref_sat_equiv_on (strong_predicates L R)); [apply Hc_H_of_on, Hs|apply pint_equiv_on_refl|exact HP].
Qed.

(* ---------- C03 for the end-to-end model ---------- *)
Definition no_symbol_pred_clash_full_fuel (fuel : nat) : strong_task -> Prop :=
  no_symbol_pred_clash tau_star_tot mu_tot simp_ht_tot (simp_classic_tot_fuel fuel).
Definition no_symbol_pred_clash_full : strong_task -> Prop := no_symbol_pred_clash_full_fuel classic_fuel.

(* the premise is decidable: a boolean test on the model's own (pre-renaming) problems *)
Definition no_clash_problemb (p : problem) : bool :=
  forallb (fun a => forallb (fun s => negb (memb pred_dec (mkpred s 0) (problem_predicates p)))
                            (symbols (pf_formula a))) (pb_formulas p).
Lemma no_clash_problemb_ok p : no_clash_problemb p = true <-> no_clash_problem p.
Proof.
  unfold no_clash_problemb, no_clash_problem. rewrite forallb_forall. split.
  - intros Hb a s Ha Hs. specialize (Hb a Ha). rewrite forallb_forall in Hb. specialize (Hb s Hs).
    destruct (memb_spec pred_dec (mkpred s 0) (problem_predicates p)); [discriminate|assumption].
  - intros Hn a Ha. apply forallb_forall. intros s Hs.
    destruct (memb_spec pred_dec (mkpred s 0) (problem_predicates p)) as [Hin|]; [|reflexivity].
    exfalso. exact (Hn a s Ha Hs Hin).
Qed.
Definition no_symbol_pred_clash_fullb_fuel (fuel : nat) (t : strong_task) : bool :=
  let ta := transition_axioms (st_left t) (st_right t) in
  let l := strong_side tau_star_tot mu_tot simp_ht_tot (simp_classic_tot_fuel fuel) t (st_left t) in
  let r := strong_side tau_star_tot mu_tot simp_ht_tot (simp_classic_tot_fuel fuel) t (st_right t) in
  no_clash_problemb (strong_pre "forward" ta "left" l "right" r) &&
  no_clash_problemb (strong_pre "backward" ta "right" r "left" l).
Definition no_symbol_pred_clash_fullb : strong_task -> bool := no_symbol_pred_clash_fullb_fuel classic_fuel.
Lemma no_symbol_pred_clash_fullb_fuel_ok fuel t :
  no_symbol_pred_clash_fullb_fuel fuel t = true <-> no_symbol_pred_clash_full_fuel fuel t.
Proof.
  unfold no_symbol_pred_clash_fullb_fuel, no_symbol_pred_clash_full_fuel, no_symbol_pred_clash, side.
  cbv zeta. rewrite andb_true_iff, !no_clash_problemb_ok. reflexivity.
Qed.
Lemma no_symbol_pred_clash_fullb_ok t : no_symbol_pred_clash_fullb t = true <-> no_symbol_pred_clash_full t.
Proof. exact (no_symbol_pred_clash_fullb_fuel_ok classic_fuel t). Qed.

Theorem C03_full_fuel_proof fuel FI M (t : strong_task) pbs :
  strong_decompose_full_fuel fuel t = SOk pbs -> no_symbol_pred_clash_full_fuel fuel t ->
  (refutes_some FI M pbs <->
   sub_on (strong_predicates (st_left t) (st_right t)) (H_of M) (T_of M) /\
   ((dir_forward (st_direction t) = true /\
     ref_sat (H_of M) (T_of M) (st_left t) /\ ~ ref_sat (H_of M) (T_of M) (st_right t)) \/
    (dir_backward (st_direction t) = true /\
     ref_sat (H_of M) (T_of M) (st_right t) /\ ~ ref_sat (H_of M) (T_of M) (st_left t)))).
Proof.
  intros Eok Hn. destruct (strong_decompose_full_fuel_ok fuel t pbs Eok) as [-> [Hgl Hgr]].
  unfold strong_decompose_tot_fuel.
  rewrite (C03_partial_rel tau_star_tot mu_tot simp_ht_tot (simp_classic_tot_fuel fuel) no_global_overflow
             simp_ht_tot_ok (simp_classic_tot_ok fuel) tau_star_tot_vocab mu_tot_vocab simp_ht_tot_vocab
             tau_star_tot_adequate mu_tot_adequate FI M t Hgl Hgr Hn).
  split; intros [Hs Hx]; (split; [exact Hs|]);
    rewrite (ref_sat_Hc (st_left t) (st_right t) M (st_left t) Hs (in_strong_predicates_l _ _)),
            (ref_sat_Hc (st_left t) (st_right t) M (st_right t) Hs (in_strong_predicates_r _ _)) in *; exact Hx.
Qed.

(* the two one-directional readings *)
Corollary C03_forward_fuel_proof fuel FI M (t : strong_task) pbs :
  st_direction t = DForward -> strong_decompose_full_fuel fuel t = SOk pbs -> no_symbol_pred_clash_full_fuel fuel t ->
  (refutes_some FI M pbs <->
   sub_on (strong_predicates (st_left t) (st_right t)) (H_of M) (T_of M) /\
   ref_sat (H_of M) (T_of M) (st_left t) /\ ~ ref_sat (H_of M) (T_of M) (st_right t)).
Proof.
  intros Hd Eok Hn. rewrite (C03_full_fuel_proof fuel FI M t pbs Eok Hn), Hd. cbn [dir_forward dir_backward].
  split; [intros [Hs [[_ Hx]|[Hf _]]]; [auto|discriminate]|intros [Hs Hx]; split; [exact Hs|left; auto]].
Qed.
Corollary C03_backward_fuel_proof fuel FI M (t : strong_task) pbs :
  st_direction t = DBackward -> strong_decompose_full_fuel fuel t = SOk pbs -> no_symbol_pred_clash_full_fuel fuel t ->
  (refutes_some FI M pbs <->
   sub_on (strong_predicates (st_left t) (st_right t)) (H_of M) (T_of M) /\
   ref_sat (H_of M) (T_of M) (st_right t) /\ ~ ref_sat (H_of M) (T_of M) (st_left t)).
Proof.
  intros Hd Eok Hn. rewrite (C03_full_fuel_proof fuel FI M t pbs Eok Hn), Hd. cbn [dir_forward dir_backward].
  split; [intros [Hs [[Hf _]|[_ Hx]]]; [discriminate|auto]|intros [Hs Hx]; split; [exact Hs|right; auto]].
Qed.

(* all problems are theorems (no classical interpretation of the h/t vocabulary refutes any of
   them) exactly when the programs have the same HT models: strong equivalence *)
Theorem C03_strong_fuel_proof fuel (t : strong_task) pbs :
  st_direction t = DUniversal -> strong_decompose_full_fuel fuel t = SOk pbs -> no_symbol_pred_clash_full_fuel fuel t ->
  ((forall FI M, ~ refutes_some FI M pbs) <->
   (forall H T, sub H T -> (ref_sat H T (st_left t) <-> ref_sat H T (st_right t)))).
Proof.
  intros Hd Eok Hn. destruct (strong_decompose_full_fuel_ok fuel t pbs Eok) as [-> [Hgl Hgr]].
  exact (C03_strong_partial_rel tau_star_tot mu_tot simp_ht_tot (simp_classic_tot_fuel fuel) no_global_overflow
           simp_ht_tot_ok (simp_classic_tot_ok fuel) tau_star_tot_vocab mu_tot_vocab simp_ht_tot_vocab
           tau_star_tot_adequate mu_tot_adequate t Hgl Hgr Hn Hd).
Qed.

(* ---------- C19 for strong tasks, closed ---------- *)
Theorem C19_strong_fuel_proof fuel (t t' : strong_task) pbs pbs' :
  same_claim t t' ->
  strong_decompose_full_fuel fuel t = SOk pbs -> strong_decompose_full_fuel fuel t' = SOk pbs' ->
  no_symbol_pred_clash_full_fuel fuel t -> no_symbol_pred_clash_full_fuel fuel t' ->
  forall FI M, refutes_some FI M pbs <-> refutes_some FI M pbs'.
Proof.
  intros Hsame Eok Eok' Hn Hn' FI M.
  destruct (strong_decompose_full_fuel_ok fuel t pbs Eok) as [-> [Hgl Hgr]].
  destruct (strong_decompose_full_fuel_ok fuel t' pbs' Eok') as [-> _].
  exact (C19_strong_modulo_simplify_rel tau_star_tot mu_tot simp_ht_tot (simp_classic_tot_fuel fuel) no_global_overflow
           simp_ht_tot_ok (simp_classic_tot_ok fuel) tau_star_tot_vocab mu_tot_vocab simp_ht_tot_vocab
           t t' Hgl Hgr Hsame Hn Hn' FI M).
Qed.

(* ---------- when does the full model return? ---------- *)
(* without the simplify flag: exactly outside the overflow class *)
Theorem strong_decompose_full_fuel_nosimplify fuel t : st_simplify t = false ->
  ((exists pbs, strong_decompose_full_fuel fuel t = SOk pbs) <->
   no_global_overflow (st_left t) /\ no_global_overflow (st_right t)).
Proof.
  intros Hs. split.
  - intros [pbs E]. destruct (strong_decompose_full_fuel_ok fuel t pbs E) as [_ H]. exact H.
  - intros [Hl Hr]. unfold strong_decompose_full_fuel. rewrite Hs. cbn [stage].
    assert (Hrep : forall P, no_global_overflow P -> exists th, repr_full (st_repr t) P = SOk th).
    { intros P HP. unfold repr_full. destruct (st_repr t).
      - destruct (proj2 (mu_full_defined_iff P) HP) as [th ->]. cbn. eauto.
      - destruct (tau_star_defined P HP) as [th ->]. cbn. eauto. }
    destruct (Hrep _ Hl) as [l0 ->]. destruct (Hrep _ Hr) as [r0 ->]. cbn [sbind]. eauto.
Qed.
(* the only panic before the post-gamma simplification is the overflow class *)
Theorem strong_decompose_full_fuel_panic_overflow fuel t :
  ~ no_global_overflow (st_left t) \/ ~ no_global_overflow (st_right t) -> strong_decompose_full_fuel fuel t = SPanic.
Proof.
  intros Hov. unfold strong_decompose_full_fuel.
  assert (Hrep : forall P, ~ no_global_overflow P -> repr_full (st_repr t) P = SPanic).
  { intros P HP. unfold repr_full. destruct (st_repr t).
    - destruct (mu_full P) as [th|] eqn:E; [|reflexivity]. exfalso. apply HP, mu_full_defined_iff. eauto.
    - destruct (tau_star P) as [th|] eqn:E; [|reflexivity]. exfalso. apply HP, tau_star_defined_iff. eauto. }
  destruct Hov as [Hl|Hr].
  - rewrite (Hrep _ Hl). reflexivity.
  - rewrite (Hrep _ Hr).
    assert (Hc : repr_full (st_repr t) (st_left t) = SPanic \/ exists th, repr_full (st_repr t) (st_left t) = SOk th).
    { unfold repr_full. destruct (match st_repr t with ReprMu => _ | ReprTauStar => _ end); cbn; eauto. }
    destruct Hc as [->|[th ->]]; reflexivity.
Qed.

(* ---------- the statements at the executable fuel (the instance that is extracted) ---------- *)
Theorem C03_full_proof FI M (t : strong_task) pbs :
  strong_decompose_full t = SOk pbs -> no_symbol_pred_clash_full t ->
  (refutes_some FI M pbs <->
   sub_on (strong_predicates (st_left t) (st_right t)) (H_of M) (T_of M) /\
   ((dir_forward (st_direction t) = true /\
     ref_sat (H_of M) (T_of M) (st_left t) /\ ~ ref_sat (H_of M) (T_of M) (st_right t)) \/
    (dir_backward (st_direction t) = true /\
     ref_sat (H_of M) (T_of M) (st_right t) /\ ~ ref_sat (H_of M) (T_of M) (st_left t)))).
Proof. exact (C03_full_fuel_proof classic_fuel FI M t pbs). Qed.
Corollary C03_forward_proof FI M (t : strong_task) pbs :
  st_direction t = DForward -> strong_decompose_full t = SOk pbs -> no_symbol_pred_clash_full t ->
  (refutes_some FI M pbs <->
   sub_on (strong_predicates (st_left t) (st_right t)) (H_of M) (T_of M) /\
   ref_sat (H_of M) (T_of M) (st_left t) /\ ~ ref_sat (H_of M) (T_of M) (st_right t)).
Proof. exact (C03_forward_fuel_proof classic_fuel FI M t pbs). Qed.
Corollary C03_backward_proof FI M (t : strong_task) pbs :
  st_direction t = DBackward -> strong_decompose_full t = SOk pbs -> no_symbol_pred_clash_full t ->
  (refutes_some FI M pbs <->
   sub_on (strong_predicates (st_left t) (st_right t)) (H_of M) (T_of M) /\
   ref_sat (H_of M) (T_of M) (st_right t) /\ ~ ref_sat (H_of M) (T_of M) (st_left t)).
Proof. exact (C03_backward_fuel_proof classic_fuel FI M t pbs). Qed.
Theorem C03_strong_proof (t : strong_task) pbs :
  st_direction t = DUniversal -> strong_decompose_full t = SOk pbs -> no_symbol_pred_clash_full t ->
  ((forall FI M, ~ refutes_some FI M pbs) <->
   (forall H T, sub H T -> (ref_sat H T (st_left t) <-> ref_sat H T (st_right t)))).
Proof. exact (C03_strong_fuel_proof classic_fuel t pbs). Qed.
Theorem C19_strong_proof (t t' : strong_task) pbs pbs' :
  same_claim t t' ->
  strong_decompose_full t = SOk pbs -> strong_decompose_full t' = SOk pbs' ->
  no_symbol_pred_clash_full t -> no_symbol_pred_clash_full t' ->
  forall FI M, refutes_some FI M pbs <-> refutes_some FI M pbs'.
Proof. exact (C19_strong_fuel_proof classic_fuel t t' pbs pbs'). Qed.
Theorem strong_decompose_full_nosimplify t : st_simplify t = false ->
  ((exists pbs, strong_decompose_full t = SOk pbs) <->
   no_global_overflow (st_left t) /\ no_global_overflow (st_right t)).
Proof. exact (strong_decompose_full_fuel_nosimplify classic_fuel t). Qed.
Theorem strong_decompose_full_panic_overflow t :
  ~ no_global_overflow (st_left t) \/ ~ no_global_overflow (st_right t) -> strong_decompose_full t = SPanic.
Proof. exact (strong_decompose_full_fuel_panic_overflow classic_fuel t). Qed.
