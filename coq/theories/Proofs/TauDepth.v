(* C16, recorded class F20 (stack overflow on deeply nested input): what the MODEL says about depth.

   `val` (tau_star.rs) is a structural recursion on the term; the formula it builds nests 2 to 5
   connective / quantifier nodes per operator of the term.  Hence the nesting depth of what anthem
   hands to every later stage (simplification, gamma, the TPTP printer - recursive traversals all)
   is proportional to the nesting depth of the INPUT, without any bound: there is no constant
   stack that suffices.  These are statements about the Gallina transcription; they say nothing
   about the size of a Rust stack frame, nor about the pest parser (not modelled). *)
From Coq Require Import List String ZArith Arith Lia.
From Anthem Require Import Syntax.Asp Syntax.Fol Model.TauStar.
Import ListNotations.

(* number of operator nodes on the longest path of a term *)
Fixpoint tdepth (t : term) : nat :=
  match t with
  | TPre _ | TVar _ => 0
  | TUn _ a => S (tdepth a)
  | TBin _ l r => S (Nat.max (tdepth l) (tdepth r))
  end.

(* number of formula nodes (atoms included) on the longest path of a formula *)
Fixpoint fdepth (f : formula) : nat :=
  match f with
  | FAtomic _ => 1
  | FNot g => S (fdepth g)
  | FBin _ l r => S (Nat.max (fdepth l) (fdepth r))
  | FQ _ _ g => S (fdepth g)
  end.

Lemma fdepth_equality : forall t z, fdepth (construct_equality_formula t z) = 1.
Proof. reflexivity. Qed.

Lemma fdepth_total : forall a b o i j z,
  fdepth (construct_total_function_formula a b o i j z) = 2 + Nat.max (1 + Nat.max 1 (fdepth a)) (fdepth b).
Proof. reflexivity. Qed.

Lemma fdepth_partial : forall a b o i j z,
  fdepth (construct_partial_function_formula a b o i j z)
  = 2 + Nat.max (1 + Nat.max (1 + Nat.max 1 (1 + Nat.max (fdepth a) (fdepth b))) 3) 1.
Proof. intros. unfold construct_partial_function_formula. destruct o; reflexivity. Qed.

Lemma fdepth_interval : forall a b i j k z,
  fdepth (construct_interval_formula a b i j k z) = 2 + Nat.max (1 + Nat.max (1 + Nat.max (fdepth a) (fdepth b)) 1) 1.
Proof. reflexivity. Qed.

Lemma val_leaf_pre : forall p z, val (TPre p) z = construct_equality_formula (TPre p) z.
Proof. reflexivity. Qed.
Lemma val_leaf_var : forall x z, val (TVar x) z = construct_equality_formula (TVar x) z.
Proof. reflexivity. Qed.

(* one unfolding of val at each constructor, with the fresh names abstracted *)
Lemma val_un : forall o a z, exists v1 v2,
  val (TUn o a) z = construct_total_function_formula (construct_equality_formula (TPre (PNum 0)) v1) (val a v2) ASub v1 v2 z.
Proof. intros [] a z. cbn [val]. eauto. Qed.

Lemma val_bin : forall o l r z, exists v1 v2 v3,
  val (TBin o l r) z =
  match o with
  | AAdd | ASub | AMul => construct_total_function_formula (val l v1) (val r v2) o v1 v2 z
  | ADiv | AMod => construct_partial_function_formula (val l v1) (val r v2) o v1 v2 z
  | AInterval => construct_interval_formula (val l v1) (val r v2) v1 v2 v3 z
  end.
Proof. intros o l r z. cbn [val]. do 3 eexists. destruct o; reflexivity. Qed.

Lemma fdepth_val_pos : forall t z, 1 <= fdepth (val t z).
Proof.
  intros [p|x|o a|o l r] z.
  - rewrite val_leaf_pre, fdepth_equality. lia.
  - rewrite val_leaf_var, fdepth_equality. lia.
  - destruct (val_un o a z) as (v1 & v2 & E). rewrite E, fdepth_total. lia.
  - destruct (val_bin o l r z) as (v1 & v2 & v3 & E). rewrite E.
    destruct o; rewrite ?fdepth_total, ?fdepth_partial, ?fdepth_interval; lia.
Qed.

(* the tau* formula of a term nests between 2 and 5 nodes per operator of the term *)
Theorem val_depth_linear : forall t z,
  2 * tdepth t + 1 <= fdepth (val t z) /\ fdepth (val t z) <= 5 * tdepth t + 1.
Proof.
  induction t as [p|x|o a IH|o l IHl r IHr]; intros z.
  - rewrite val_leaf_pre, fdepth_equality. cbn [tdepth]. lia.
  - rewrite val_leaf_var, fdepth_equality. cbn [tdepth]. lia.
  - destruct (val_un o a z) as (v1 & v2 & E). rewrite E, fdepth_total, fdepth_equality.
    cbn [tdepth]. specialize (IH v2). lia.
  - destruct (val_bin o l r z) as (v1 & v2 & v3 & E). rewrite E.
    specialize (IHl v1). specialize (IHr v2). cbn [tdepth].
    destruct o; rewrite ?fdepth_total, ?fdepth_partial, ?fdepth_interval; lia.
Qed.

(* the three chains of the recorded inputs, exactly *)
Fixpoint neg_chain (n : nat) (t : term) : term :=
  match n with O => t | S k => TUn AUNeg (neg_chain k t) end.
(* `1 o 1 o .. o 1` as anthem parses it: left-nested *)
Fixpoint left_chain (o : abinop) (n : nat) (t : term) : term :=
  match n with O => t | S k => TBin o (left_chain o k t) t end.

Definition leaf (t : term) : Prop := match t with TPre _ | TVar _ => True | _ => False end.

Lemma fdepth_val_leaf : forall t z, leaf t -> fdepth (val t z) = 1.
Proof. intros [p|x|o a|o l r] z H; try contradiction; reflexivity. Qed.

(* `p(` + n x `-` + `1)`: 2 formula levels per `-` *)
Theorem val_neg_chain_depth : forall n t z, leaf t ->
  fdepth (val (neg_chain (S n) t) z) = 2 * S n + 2.
Proof.
  induction n as [|n IH]; intros t z L.
  - cbn [neg_chain]. destruct (val_un AUNeg t z) as (v1 & v2 & E).
    rewrite E, fdepth_total, fdepth_equality, (fdepth_val_leaf t v2 L). reflexivity.
  - change (neg_chain (S (S n)) t) with (TUn AUNeg (neg_chain (S n) t)).
    destruct (val_un AUNeg (neg_chain (S n) t) z) as (v1 & v2 & E).
    rewrite E, fdepth_total, fdepth_equality, (IH t v2 L). lia.
Qed.

(* `p(1+1+..+1)` with n operators + - *: 3 formula levels per operator *)
Theorem val_left_chain_total_depth : forall o n t z, leaf t ->
  match o with AAdd | ASub | AMul => True | _ => False end ->
  fdepth (val (left_chain o n t) z) = 3 * n + 1.
Proof.
  intros o n t z L O. revert z. induction n as [|n IH]; intros z.
  - cbn [left_chain]. rewrite (fdepth_val_leaf t z L). reflexivity.
  - cbn [left_chain]. destruct (val_bin o (left_chain o n t) t z) as (v1 & v2 & v3 & E). rewrite E.
    destruct o; try contradiction; rewrite fdepth_total, (IH v1), (fdepth_val_leaf t v2 L); lia.
Qed.

(* `p(1..1....1)` with n intervals: 4 formula levels per operator *)
Theorem val_left_chain_interval_depth : forall n t z, leaf t ->
  fdepth (val (left_chain AInterval n t) z) = 4 * n + 1.
Proof.
  intros n t z L. revert z. induction n as [|n IH]; intros z.
  - cbn [left_chain]. rewrite (fdepth_val_leaf t z L). reflexivity.
  - cbn [left_chain]. destruct (val_bin AInterval (left_chain AInterval n t) t z) as (v1 & v2 & v3 & E).
    rewrite E, fdepth_interval, (IH v1), (fdepth_val_leaf t v2 L). lia.
Qed.

(* division / modulo: 5 per operator *)
Theorem val_left_chain_partial_depth : forall o n t z, leaf t ->
  match o with ADiv | AMod => True | _ => False end ->
  fdepth (val (left_chain o (S n) t) z) = 5 * S n + 1.
Proof.
  intros o n t z L O. revert z. induction n as [|n IH]; intros z.
  - cbn [left_chain]. destruct (val_bin o t t z) as (v1 & v2 & v3 & E). rewrite E.
    destruct o; try contradiction; rewrite fdepth_partial, !(fdepth_val_leaf t _ L); reflexivity.
  - change (left_chain o (S (S n)) t) with (TBin o (left_chain o (S n) t) t).
    destruct (val_bin o (left_chain o (S n) t) t z) as (v1 & v2 & v3 & E). rewrite E.
    destruct o; try contradiction; rewrite fdepth_partial, (IH v1), (fdepth_val_leaf t v2 L); lia.
Qed.

Lemma tdepth_neg_chain : forall n t, leaf t -> tdepth (neg_chain n t) = n.
Proof. induction n; intros t L; cbn [neg_chain tdepth]; [destruct t; try contradiction; reflexivity | rewrite IHn; auto]. Qed.
