(* C09, structure of the assembly pipeline: every emitted problem has exactly one conjecture, and
   its formula names are of the form formula_<i>_<name>, pairwise distinct. *)
From Coq Require Import List Ascii String ZArith NArith Bool Lia Permutation DecimalString.
From Anthem Require Import Base.ISet Base.Fresh Syntax.Fol Syntax.Tff Sem.TffWt Model.Problem Model.ProblemPrint.
Import ListNotations.
Open Scope string_scope.
Open Scope list_scope.

(* ---------- decimal numerals consist of digits ---------- *)
Lemma string_of_uint_digits u : all_chars is_digit (NilEmpty.string_of_uint u) = true.
Proof. induction u; cbn; auto. Qed.
Lemma nat_str_digits n : all_chars is_digit (nat_str n) = true.
Proof. apply string_of_uint_digits. Qed.
Lemma digit_alnum c : is_digit c = true -> is_alnum_ c = true.
Proof. unfold is_alnum_. intros ->. rewrite !orb_true_r. reflexivity. Qed.
Lemma all_chars_impl (p q : ascii -> bool) s : (forall c, p c = true -> q c = true) ->
  all_chars p s = true -> all_chars q s = true.
Proof.
  intros H. induction s as [|c s IH]; cbn; auto. rewrite !andb_true_iff. intros [H1 H2]; auto.
Qed.
Lemma nat_str_alnum n : all_chars is_alnum_ (nat_str n) = true.
Proof. apply (all_chars_impl is_digit); [apply digit_alnum|apply nat_str_digits]. Qed.

(* a digit string followed by '_' determines the digit string *)
Lemma digits_sep : forall s t a b, all_chars is_digit s = true -> all_chars is_digit t = true ->
  (s ++ String "_" a = t ++ String "_" b)%string -> s = t.
Proof.
  induction s as [|c s IH]; intros [|d t] a b Hs Ht E; cbn in *.
  - reflexivity.
  - injection E as E1 E2. subst d. apply andb_true_iff in Ht. destruct Ht as [Ht _]. discriminate Ht.
  - injection E as E1 E2. subst c. apply andb_true_iff in Hs. destruct Hs as [Hs _]. discriminate Hs.
  - injection E as E1 E2. subst d. apply andb_true_iff in Hs, Ht. f_equal. eapply IH; [tauto|tauto|exact E2].
Qed.

(* ---------- create_unique_formula_names ---------- *)
Definition unique_name (i : N) (n : string) : string := ("formula_" ++ nat_str i ++ "_" ++ n)%string.
Lemma unique_name_inj i j a b : unique_name i a = unique_name j b -> i = j.
Proof.
  unfold unique_name. intros E. apply app_inj_l in E.
  apply nat_str_inj. eapply digits_sep; [apply nat_str_digits|apply nat_str_digits|exact E].
Qed.
Lemma unique_names_from_names : forall l i x, In x (map pf_name (unique_names_from i l)) ->
  exists j n, (i <= j)%N /\ x = unique_name j n.
Proof.
  induction l as [|a l IH]; intros i x; cbn; [tauto|].
  intros [<-|H]; [exists i, (pf_name a); split; [lia|reflexivity]|].
  destruct (IH _ _ H) as [j [n [Hj ->]]]. exists j, n; split; [lia|reflexivity].
Qed.
Lemma unique_names_from_nodup : forall l i, NoDup (map pf_name (unique_names_from i l)).
Proof.
  induction l as [|a l IH]; intros i; cbn; constructor; [|apply IH].
  intros H. destruct (unique_names_from_names _ _ _ H) as [j [n [Hj E]]].
  apply unique_name_inj in E. lia.
Qed.

(* ---------- sub-lists ---------- *)
Lemma nodup_map_filter {A B} (f : A -> B) (p : A -> bool) l : NoDup (map f l) -> NoDup (map f (filter p l)).
Proof.
  induction l as [|a l IH]; cbn; intros H; [constructor|]. inversion H; subst.
  destruct (p a); cbn; auto. constructor; auto.
  intros Hin. apply H2. apply in_map_iff in Hin. destruct Hin as [x [E Hx]]. apply filter_In in Hx.
  apply in_map_iff. exists x; tauto.
Qed.
Lemma nodup_map_inj_in {A B} (f : A -> B) l a b : NoDup (map f l) -> In a l -> In b l -> f a = f b -> a = b.
Proof.
  induction l as [|x l IH]; cbn; intros H Ha Hb E; [tauto|]. inversion H; subst.
  destruct Ha as [->|Ha], Hb as [->|Hb]; auto.
  - exfalso. apply H2. rewrite E. apply in_map, Hb.
  - exfalso. apply H2. rewrite <- E. apply in_map, Ha.
Qed.

Lemma nodup_app {A} (l1 l2 : list A) : NoDup l1 -> NoDup l2 -> (forall x, In x l1 -> ~ In x l2) -> NoDup (l1 ++ l2).
Proof.
  induction l1 as [|a l1 IH]; cbn; intros H1 H2 H; [exact H2|]. inversion H1; subst. constructor.
  - rewrite in_app_iff. intros [Hin|Hin]; [contradiction|]. apply (H a); auto.
  - apply IH; auto.
Qed.
Lemma In_firstn_incl' {A} k (l : list A) x : In x (firstn k l) -> In x l.
Proof. revert l; induction k as [|k IH]; intros [|a l]; cbn; try tauto. intros [->|H]; auto. Qed.

Lemma nodup_firstn {A} k (l : list A) : NoDup l -> NoDup (firstn k l).
Proof.
  revert l; induction k as [|k IH]; intros [|a l] H; cbn; try constructor.
  - inversion H; subst. intros Hin. apply H2. eapply (In_firstn_incl' k). exact Hin.
  - inversion H; subst. apply IH; auto.
Qed.
(* ---------- roles ---------- *)
Definition is_conj (a : pformula) : bool := prole_eqb (pf_role a) PConjecture.
Definition cc (l : list pformula) : nat := List.length (filter is_conj l).
Lemma cc_app l1 l2 : cc (l1 ++ l2) = cc l1 + cc l2.
Proof. unfold cc. rewrite filter_app, app_length. reflexivity. Qed.
Lemma cc_axioms p : cc (axioms p) = 0.
Proof.
  unfold cc, axioms. induction (pb_formulas p) as [|a l IH]; cbn; [reflexivity|].
  destruct (pf_role a) eqn:E; cbn; [|exact IH]. unfold is_conj. rewrite E. cbn. exact IH.
Qed.
Lemma conjectures_are p c : In c (conjectures p) -> is_conj c = true.
Proof. unfold conjectures. rewrite filter_In. intros [_ H]. exact H. Qed.

Lemma set_last_axiom_nil : set_last_axiom [] = [].
Proof. reflexivity. Qed.
Lemma set_last_axiom_snoc l a : set_last_axiom (l ++ [a]) = l ++ [mkpf (pf_name a) PAxiom (pf_formula a)].
Proof. unfold set_last_axiom. rewrite rev_app_distr. cbn. rewrite rev_involutive. reflexivity. Qed.
Lemma set_last_axiom_names l : map pf_name (set_last_axiom l) = map pf_name l.
Proof.
  destruct l as [|x l'] using rev_ind; [reflexivity|].
  rewrite set_last_axiom_snoc, !map_app. reflexivity.
Qed.
Lemma cc_set_last_axiom_snoc l a : cc (set_last_axiom (l ++ [a])) = cc l.
Proof. rewrite set_last_axiom_snoc, cc_app. cbn. lia. Qed.

(* ---------- decompositions ---------- *)
Lemma independent_shape name ax : forall cs i pb, In pb (dec_independent_from name ax i cs) ->
  exists c, In c cs /\ pb_formulas pb = ax ++ [c].
Proof.
  induction cs as [|c cs IH]; intros i pb; cbn; [tauto|].
  intros [<-|H]; [exists c; split; [left; reflexivity|reflexivity]|].
  destruct (IH _ _ H) as [c' [H1 H2]]. exists c'; split; [right; exact H1|exact H2].
Qed.
Lemma sequential_shape name : forall cs acc i pb, In pb (dec_sequential_from name acc i cs) ->
  (forall c, In c cs -> is_conj c = true) -> cc (set_last_axiom acc) = 0 ->
  cc (pb_formulas pb) = 1 /\
  exists k, map pf_name (pb_formulas pb) = map pf_name acc ++ map pf_name (firstn k cs).
Proof.
  induction cs as [|c cs IH]; intros acc i pb; cbn [dec_sequential_from]; [intros []|].
  intros [<-|H] Hcs Hacc.
  - cbn [pb_formulas]. split.
    + rewrite cc_app, Hacc. unfold cc. cbn. rewrite (Hcs c (or_introl eq_refl)). reflexivity.
    + exists 1. rewrite map_app, set_last_axiom_names. reflexivity.
  - destruct (IH _ _ _ H) as [H1 [k H2]].
    + intros c' Hc'. apply Hcs. right; exact Hc'.
    + rewrite cc_set_last_axiom_snoc. exact Hacc.
    + split; [exact H1|]. exists (S k). rewrite H2, map_app, set_last_axiom_names.
      cbn [firstn map]. rewrite <- app_assoc. reflexivity.
Qed.
Lemma cc_set_last_axiom_zero l : cc l = 0 -> cc (set_last_axiom l) = 0.
Proof.
  destruct l as [|x l'] using rev_ind; [auto|]. rewrite cc_set_last_axiom_snoc, cc_app. lia.
Qed.

Lemma decompose_one_conjecture p d pb : In pb (decompose p d) -> cc (pb_formulas pb) = 1.
Proof.
  destruct d; cbn [decompose]; intros H.
  - apply independent_shape in H. destruct H as [c [Hc ->]].
    rewrite cc_app, cc_axioms. unfold cc. cbn. rewrite (conjectures_are p c Hc). reflexivity.
  - apply sequential_shape in H; [tauto|apply conjectures_are|apply cc_set_last_axiom_zero, cc_axioms].
Qed.

Lemma nodup_axioms_conjectures p : NoDup (map pf_name (pb_formulas p)) ->
  NoDup (map pf_name (axioms p) ++ map pf_name (conjectures p)).
Proof.
  intros H. apply nodup_app.
  - apply nodup_map_filter, H.
  - apply nodup_map_filter, H.
  - intros x H1 H2. apply in_map_iff in H1, H2. destruct H1 as [a [<- Ha]]. destruct H2 as [c [E Hc]].
    unfold axioms in Ha. unfold conjectures in Hc. apply filter_In in Ha, Hc.
    assert (a = c) by (eapply nodup_map_inj_in; [exact H|tauto|tauto|congruence]). subst c.
    destruct Ha as [_ Ha]. destruct Hc as [_ Hc]. destruct (pf_role a); discriminate.
Qed.
Lemma nodup_app_firstn {A} (l1 l2 : list A) k : NoDup (l1 ++ l2) -> NoDup (l1 ++ firstn k l2).
Proof.
  induction l1 as [|a l1 IH]; cbn; intros H; [apply nodup_firstn, H|]. inversion H; subst. constructor.
  - rewrite in_app_iff in *. intros [Hin|Hin]; [tauto|]. apply H2. right. eapply In_firstn_incl', Hin.
  - apply IH, H3.
Qed.

Lemma map_firstn' {A B} (f : A -> B) k l : map f (firstn k l) = firstn k (map f l).
Proof. revert l; induction k as [|k IH]; intros [|a l]; cbn; auto. rewrite IH. reflexivity. Qed.
Lemma nodup_app_single {A} (l1 l2 : list A) x : NoDup (l1 ++ l2) -> In x l2 -> NoDup (l1 ++ [x]).
Proof.
  induction l1 as [|a l1 IH]; cbn; intros H Hx; [constructor; [intros []|constructor]|].
  inversion H; subst. constructor.
  - rewrite in_app_iff in *. intros [Hin|[<-|[]]]; apply H2; auto.
  - apply IH; auto.
Qed.

Lemma decompose_names p d pb : NoDup (map pf_name (pb_formulas p)) -> In pb (decompose p d) ->
  NoDup (map pf_name (pb_formulas pb)) /\ incl (map pf_name (pb_formulas pb)) (map pf_name (pb_formulas p)).
Proof.
  intros Hnd Hin. pose proof (nodup_axioms_conjectures p Hnd) as Hac.
  assert (Hincl : incl (map pf_name (axioms p) ++ map pf_name (conjectures p)) (map pf_name (pb_formulas p))).
  { intros x Hx. apply in_app_iff in Hx. destruct Hx as [Hx|Hx]; apply in_map_iff in Hx; destruct Hx as [a [<- Ha]];
      apply in_map; [unfold axioms in Ha|unfold conjectures in Ha]; apply filter_In in Ha; tauto. }
  destruct d; cbn [decompose] in Hin.
  - apply independent_shape in Hin. destruct Hin as [c [Hc ->]]. rewrite map_app. cbn [map]. split.
    + eapply nodup_app_single; [exact Hac|apply in_map, Hc].
    + intros x Hx. apply Hincl. rewrite in_app_iff in *. destruct Hx as [Hx|[<-|[]]]; [left; exact Hx|right; apply in_map, Hc].
  - apply sequential_shape in Hin; [|apply conjectures_are|apply cc_set_last_axiom_zero, cc_axioms].
    destruct Hin as [_ [k ->]]. rewrite map_firstn'. split.
    + apply nodup_app_firstn, Hac.
    + intros x Hx. apply Hincl. rewrite in_app_iff in *. destruct Hx as [Hx|Hx]; [left; exact Hx|right].
      eapply In_firstn_incl', Hx.
Qed.

(* ---------- the whole pipeline ---------- *)
Lemma rename_names p : map pf_name (pb_formulas (rename_conflicting_symbols p)) = map pf_name (pb_formulas p).
Proof. unfold rename_conflicting_symbols. cbn. rewrite map_map. reflexivity. Qed.

Theorem pipeline_names raw d pb : In pb (pipeline raw d) ->
  NoDup (map pf_name (pb_formulas pb)) /\
  forall x, In x (map pf_name (pb_formulas pb)) -> exists j n, x = unique_name j n.
Proof.
  unfold pipeline. intros Hin.
  set (q := rename_conflicting_symbols (add_annotated_formulas (with_name (pb_name raw)) (pb_formulas raw))) in *.
  assert (Hnd : NoDup (map pf_name (pb_formulas (create_unique_formula_names q)))) by apply unique_names_from_nodup.
  destruct (decompose_names _ _ _ Hnd Hin) as [H1 H2]. split; [exact H1|].
  intros x Hx. apply H2 in Hx. cbn in Hx. apply unique_names_from_names in Hx.
  destruct Hx as [j [n [_ ->]]]. eauto.
Qed.
Theorem pipeline_names_nodup raw d pb : In pb (pipeline raw d) -> NoDup (map pf_name (pb_formulas pb)).
Proof. intros H. apply (pipeline_names raw d pb H). Qed.
Theorem pipeline_cc raw d pb : In pb (pipeline raw d) -> cc (pb_formulas pb) = 1.
Proof. unfold pipeline. apply decompose_one_conjecture. Qed.
