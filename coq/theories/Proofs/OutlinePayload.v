(* The values carried by the errors of proof outlines (audit B16): what an error of
   CheckInternal::definition / inductive_lemma / GeneralLemma::try_from /
   ProofOutline::from_specification says about the entry it was raised for.
   - definition_error_sound: the error of a refused definition names the defect, and its payload is
     the formula itself / the defined predicate (which IS taken) / an undefined predicate of the
     body / a non-variable argument of the defined atom;
   - from_specification_error: an error of from_specification is the error of ONE entry, checked
     against the initial set of taken predicates plus the predicates of the earlier entries;
   - from_specification_taken_error: TakenPredicate p names the predicate defined by a definition
     entry, and p occurs in the initial set or in an earlier entry. *)
From Coq Require Import List Ascii String ZArith NArith Bool Lia.
From Anthem Require Import Base.ISet Base.Fresh Syntax.Fol Sem.Domain Sem.Sat
  Model.Subst Model.Problem Model.Outline Proofs.SemBase Proofs.OutlineOk.
Import ListNotations.
Open Scope string_scope.
Open Scope list_scope.

Lemma terms_as_vars_bad ts : forall acc t, terms_as_vars ts acc = inr t -> In t ts /\ gterm_to_var t = None.
Proof.
  induction ts as [|t0 ts IH]; intros acc t; cbn; [discriminate|].
  destruct (gterm_to_var t0) as [v|] eqn:Ev.
  - intros H. destruct (IH _ _ H). auto.
  - intros [= <-]. auto.
Qed.

Definition definition_error_names (f : formula) (taken : list pred) (e : po_error) : Prop :=
  match e with
  | MalformedDefinition g => g = f /\ defined_pred f = None
  | DuplicatedVariables g =>
      g = f /\ exists vs body, f = FQ QForall vs body /\ defined_pred f <> None /\ ~ NoDup vs
  | TermsInDefinition t g =>
      g = f /\ exists vs q ts rhs, f = FQ QForall vs (FBin CIff (FAtomic (AAtom q ts)) rhs) /\
        In t ts /\ gterm_to_var t = None
  | DefinedPredicateVariableListMismatch g => g = f /\ defined_pred f <> None
  | TakenPredicate p => defined_pred f = Some p /\ In p taken
  | FreeRhsVariables g =>
      g = f /\ exists vs lhs rhs v, f = FQ QForall vs (FBin CIff lhs rhs) /\
        In v (free_variables rhs) /\ ~ In v vs
  | UndefinedRhsPredicate g r =>
      g = f /\ exists vs lhs rhs, f = FQ QForall vs (FBin CIff lhs rhs) /\
        In r (predicates rhs) /\ ~ In r taken
  | _ => False
  end.

Theorem definition_error_sound f taken e : definition f taken = Err e -> definition_error_names f taken e.
Proof.
  unfold definition.
  destruct f as [a|g|c l r|q vs body]; try (intros [= <-]; cbn; auto).
  destruct q; try (intros [= <-]; cbn; auto).
  destruct body as [a|g|c lhs rhs|q' vs' b']; try (intros [= <-]; cbn; auto).
  destruct c; try (intros [= <-]; cbn; auto).
  destruct lhs as [a|g|c' l' r'|q' vs' b']; try (intros [= <-]; cbn; auto).
  destruct a as [| |q ts|t gs]; try (intros [= <-]; cbn; auto).
  destruct (Nat.ltb (List.length (iset_of_list var_dec vs)) (List.length vs)) eqn:Elen.
  { intros [= <-]. split; [reflexivity|]. eexists _, _. split; [reflexivity|]. split; [discriminate|].
    intros Hnd. apply Nat.ltb_lt in Elen.
    assert (Hincl : incl vs (iset_of_list var_dec vs)) by (intros x Hx; apply in_iset_of_list, Hx).
    assert (Hle := NoDup_incl_length Hnd Hincl). lia. }
  destruct (terms_as_vars ts []) as [tv|bad] eqn:Etv.
  2:{ intros [= <-]. split; [reflexivity|]. destruct (terms_as_vars_bad _ _ _ Etv). eexists _, _, _, _. eauto. }
  destruct (set_eqb var_dec (iset_of_list var_dec vs) tv) eqn:Eset; cbn [negb].
  2:{ intros [= <-]. split; [reflexivity|discriminate]. }
  destruct (memb_spec pred_dec (mkpred q (List.length ts)) taken) as [Hin|Hfresh].
  { intros [= <-]. split; [reflexivity|exact Hin]. }
  destruct (subsetb var_dec (free_variables rhs) (iset_of_list var_dec vs)) eqn:Efv; cbn [negb].
  2:{ intros [= <-]. split; [reflexivity|]. unfold subsetb in Efv.
      assert (Hex : exists v, In v (free_variables rhs) /\ memb var_dec v (iset_of_list var_dec vs) = false).
      { clear -Efv. induction (free_variables rhs) as [|x l IH]; cbn in Efv; [discriminate|].
        destruct (memb var_dec x (iset_of_list var_dec vs)) eqn:E; cbn in Efv.
        - destruct (IH Efv) as [v [Hv Hm]]. exists v. split; [right; exact Hv|exact Hm].
        - exists x. split; [left; reflexivity|exact E]. }
      destruct Hex as [v [Hv Hm]]. eexists _, _, _, v. split; [reflexivity|]. split; [exact Hv|].
      intros Hin. destruct (memb_spec var_dec v (iset_of_list var_dec vs)) as [|Hn]; [discriminate|].
      apply Hn. apply in_iset_of_list, Hin. }
  destruct (find (fun q0 => negb (memb pred_dec q0 taken)) (predicates rhs)) as [r|] eqn:Ef; [|discriminate].
  intros [= <-]. split; [reflexivity|]. apply find_some in Ef. destruct Ef as [Hr Hm].
  eexists _, _, _. split; [reflexivity|]. split; [exact Hr|].
  intros Hin. destruct (memb_spec pred_dec r taken) as [|Hn]; [discriminate|contradiction].
Qed.

(* the errors of the two other checks carry the formula / annotated formula they were called on *)
Definition inductive_error_names (f : formula) (e : po_error) : Prop :=
  e = MalformedInductiveLemma f \/ e = MalformedInductiveAntecedent f \/
  e = MalformedInductiveVariables f \/ e = MalformedInductiveTerm f.
Lemma inductive_lemma_error_sound f e : inductive_lemma f = Err e -> inductive_error_names f e.
Proof.
  unfold inductive_lemma, inductive_error_names.
  repeat match goal with
         | |- context [match ?x with _ => _ end] => destruct x; try discriminate
         end; intros [= <-]; auto.
Qed.
Lemma try_from_error_sound a e : general_lemma_try_from a = Err e ->
  e = InvalidRoleForGeneralLemma a \/ (an_role a = RInductiveLemma /\ inductive_error_names (an_formula a) e).
Proof.
  unfold general_lemma_try_from. destruct (an_role a) eqn:Er; try discriminate; try (intros [= <-]; auto).
  destruct (inductive_lemma (an_formula a)) as [[b s]|e'|] eqn:Ei; try discriminate.
  intros [= <-]. right. split; [reflexivity|exact (inductive_lemma_error_sound _ _ Ei)].
Qed.

(* the error of ONE entry, checked against [taken] *)
Definition entry_error (m : placeholders) (taken : list pred) (a0 : aformula_annot) (e : po_error) : Prop :=
  match an_role (rp_annot m a0) with
  | RLemma | RInductiveLemma => general_lemma_try_from (closed_entry m a0) = Err e
  | RDefinition => definition (entry_formula m a0) taken = Err e
  | RAssumption | RSpec => e = AnnotatedFormulaWithInvalidRole (rp_annot m a0)
  end.

Theorem from_specification_error m : forall l taken o0 ws e,
  from_specification_loop l taken m o0 ws = Err e ->
  exists pre a0 post taken',
    l = pre ++ a0 :: post /\
    (forall q, In q taken' <-> In q taken \/ exists b, In b pre /\ In q (entry_preds m b)) /\
    entry_error m taken' a0 e.
Proof.
  induction l as [|anf0 l IH]; intros taken o0 ws e; cbn [from_specification_loop]; [discriminate|].
  set (anf := rp_annot m anf0).
  assert (Hhere : entry_error m taken anf0 e ->
    exists pre a0 post taken', anf0 :: l = pre ++ a0 :: post /\
      (forall q, In q taken' <-> In q taken \/ exists b, In b pre /\ In q (entry_preds m b)) /\
      entry_error m taken' a0 e).
  { intros He. exists [], anf0, l, taken. split; [reflexivity|]. split; [|exact He].
    intros q. split; [auto|intros [Hq|[b [[] _]]]; exact Hq]. }
  assert (Hlater : forall taken1,
    (forall q, In q taken1 <-> In q taken \/ In q (entry_preds m anf0)) ->
    forall o1 ws1, from_specification_loop l taken1 m o1 ws1 = Err e ->
    exists pre a0 post taken', anf0 :: l = pre ++ a0 :: post /\
      (forall q, In q taken' <-> In q taken \/ exists b, In b pre /\ In q (entry_preds m b)) /\
      entry_error m taken' a0 e).
  { intros taken1 Ht o1 ws1 H. destruct (IH _ _ _ _ H) as [pre [a0 [post [taken' [-> [Hin He]]]]]].
    exists (anf0 :: pre), a0, post, taken'. split; [reflexivity|]. split; [|exact He].
    intros q. rewrite Hin, Ht. split.
    - intros [[Hq|Hq]|[b [Hb Hq]]]; [auto|right; exists anf0; split; [left; reflexivity|exact Hq]
                                     |right; exists b; split; [right; exact Hb|exact Hq]].
    - intros [Hq|[b [[<-|Hb] Hq]]]; [auto|auto|right; exists b; auto]. }
  unfold entry_error in Hhere. fold anf in Hhere.
  change (rp_annot m (mkannot (an_role anf) (an_dir anf) (an_name anf)
                        (universal_closure_with_quantifier_joining (an_formula anf))))
    with (closed_entry m anf0).
  change (an_formula anf) with (entry_formula m anf0).
  destruct (an_role anf) eqn:Er.
  - (* assumption *) intros He. apply Hhere. subst anf. inversion He. reflexivity.
  - (* spec *) intros He. apply Hhere. subst anf. inversion He. reflexivity.
  - (* lemma *)
    destruct (general_lemma_try_from (closed_entry m anf0)) as [g|e'|] eqn:Eg; try discriminate.
    + apply Hlater. intros q. rewrite (in_iset_extend pred_dec). reflexivity.
    + intros He. apply Hhere. congruence.
  - (* definition *)
    destruct (definition (entry_formula m anf0) taken) as [[p w]|e'|] eqn:Ed; try discriminate.
    + apply Hlater. intros q. rewrite (in_iset_insert pred_dec). unfold entry_preds. split.
      * intros [Hq| ->]; [auto|right; exact (definition_head_pred _ _ _ _ Ed)].
      * intros [Hq|Hq]; [auto|]. destruct (definition_predicates _ _ _ _ Ed q Hq) as [->|Ht]; auto.
    + intros He. apply Hhere. congruence.
  - (* inductive lemma *)
    destruct (general_lemma_try_from (closed_entry m anf0)) as [g|e'|] eqn:Eg; try discriminate.
    + apply Hlater. intros q. rewrite (in_iset_extend pred_dec). reflexivity.
    + intros He. apply Hhere. congruence.
Qed.

(* TakenPredicate p: p is the predicate DEFINED by a definition entry of the outline, and it is taken
   at that point: it is in the initial set (the predicates of the task) or occurs in an earlier entry *)
Theorem from_specification_taken_error m l taken o0 ws p :
  from_specification_loop l taken m o0 ws = Err (TakenPredicate p) ->
  exists pre a0 post,
    l = pre ++ a0 :: post /\ an_role (rp_annot m a0) = RDefinition /\
    defined_pred (entry_formula m a0) = Some p /\
    (In p taken \/ exists b, In b pre /\ In p (entry_preds m b)).
Proof.
  intros H. destruct (from_specification_error m _ _ _ _ _ H) as [pre [a0 [post [taken' [-> [Hin He]]]]]].
  exists pre, a0, post. split; [reflexivity|]. unfold entry_error in He.
  destruct (an_role (rp_annot m a0)) eqn:Er; try discriminate He.
  - destruct (try_from_error_sound _ _ He) as [E|[_ [E|[E|[E|E]]]]]; discriminate E.
  - apply definition_error_sound in He. cbn in He. destruct He as [Hd Ht].
    split; [reflexivity|]. split; [exact Hd|]. apply Hin, Ht.
  - destruct (try_from_error_sound _ _ He) as [E|[_ [E|[E|[E|E]]]]]; discriminate E.
Qed.
