(* Audit B8 (C09 tie), part 3: the TRANSLATIONS produce sentences of the parser image.

     tau*        every quantifier binds a variable (tau_star_bn); no free variable is C01_closed
                 (Proofs/TauStarClosed.v); parser image is Proofs/ParserImagePipeline.tau_star_pi
     completion  universal closures of the constraints and completed definitions
                 forall V (p(V) <-> exists U1 F1 or ...): closed by construction (completion_fv),
                 binders non-empty when those of the input are (completion_bn)
     the empty completed definitions of missing output predicates (External.empty_definition) *)
From Coq Require Import List Ascii String ZArith NArith Bool Lia.
From Anthem Require Import Base.ISet Base.Fresh Syntax.Fol Syntax.Asp
  Model.Apply Model.Gamma Model.Outline Model.FreshNames Model.TauStar Model.Completion Model.ProblemPrint
  Proofs.FreeVars Proofs.FreshNamesOk Proofs.CompletionShape Proofs.CompletionOk Proofs.TauStarClosed
  Proofs.SimplClassicTotal Proofs.ParserImage Proofs.ParserImagePipeline
  Proofs.TaskPipelineBn Proofs.TaskPipelineClosed.
From Anthem Require Model.External.
Import ListNotations.
Open Scope string_scope.
Open Scope list_scope.

(* parser image + closed: what a translation hands to the simplifications *)
Definition psent (F : formula) : Prop := parser_image F /\ closed_formula F = true.
Lemma psent_sent F : psent F -> sent F.
Proof. intros [A B]. split; [exact B|apply pi_gd, A]. Qed.

(* ============================================================================== tau* *)
Lemma eq_formula_bn l r : bn (eq_formula l r).
Proof. reflexivity. Qed.
Lemma bn_q_cons q v vs f : bn f -> bn (FQ q (v :: vs) f).
Proof. intros H. apply bn_q. split; [discriminate|exact H]. Qed.

Lemma val_bn t : forall z, bn (val t z).
Proof.
  induction t as [p|x|o a IH|o l IHl r IHr]; intros z; cbn [val].
  - reflexivity.
  - reflexivity.
  - destruct o. unfold construct_total_function_formula. apply bn_q_cons.
    repeat (apply bn_bin; split); try reflexivity. apply IH.
  - destruct o; unfold construct_total_function_formula, construct_partial_function_formula, construct_interval_formula;
      apply bn_q_cons; repeat (apply bn_bin; split); try reflexivity; auto; destruct o; reflexivity.
Qed.
Lemma sign_wrap_bn s f : bn f -> bn (sign_wrap s f).
Proof. intros H. destruct s; cbn; [exact H|apply bn_not, H|apply bn_not, bn_not, H]. Qed.
Lemma valtz_bn ts vs : bn (valtz ts vs).
Proof.
  unfold valtz. apply bn_conjoin. intros x Hx. apply in_map_iff in Hx. destruct Hx as [[t v] [<- _]]. apply val_bn.
Qed.
Lemma tau_b_bn b : bn (tau_b b).
Proof.
  destruct b as [l|c]; cbn [tau_b].
  - destruct (aterms (latom l)) as [|t0 ts] eqn:E.
    + unfold tau_b_propositional_literal. apply sign_wrap_bn. reflexivity.
    + unfold tau_b_first_order_literal. apply bn_q. split.
      * intros Hnil. apply map_eq_nil in Hnil. apply (f_equal (@List.length string)) in Hnil.
        rewrite choose_fresh_length, E in Hnil. discriminate.
      * apply bn_bin. split; [|apply sign_wrap_bn; reflexivity].
        apply bn_conjoin. intros x Hx. apply in_map_iff in Hx. destruct Hx as [[t' v'] [<- _]]. apply val_bn.
  - unfold tau_b_comparison. apply bn_q_cons. apply bn_bin. split; [|reflexivity].
    apply bn_conjoin. intros x [<-|[<-|[]]]; apply val_bn.
Qed.
Lemma tau_body_bn b : bn (tau_body b).
Proof.
  unfold tau_body. apply bn_conjoin. intros x Hx. apply in_map_iff in Hx. destruct Hx as [y [<- _]]. apply tau_b_bn.
Qed.
Lemma insert_sorted_ne v l : TauStar.insert_sorted v l <> [].
Proof. destruct l as [|x l]; cbn; [discriminate|]. destruct (TauStar.var_leb v x); discriminate. Qed.
Lemma sort_vars_ne l : l <> [] -> TauStar.sort_vars l <> [].
Proof. destruct l; [congruence|]. intros _. cbn. apply insert_sorted_ne. Qed.
Lemma quantify_like_bn vs imp : bn imp -> bn (match vs with [] => imp | _ => FQ QForall vs imp end).
Proof. intros Hi. destruct vs; [exact Hi|apply bn_q_cons, Hi]. Qed.

Lemma tau_star_rule_bn r globals f : tau_star_rule r globals = Some f -> bn f.
Proof.
  unfold tau_star_rule.
  assert (Hbody : forall new_head : formula, bn new_head -> forall core, bn core ->
            bn (FBin CImp (if is_choice (rhead r) then FBin CAnd core (FNot (FNot new_head)) else core) new_head)).
  { intros nh Hnh core Hc. apply bn_bin. split; [|exact Hnh].
    destruct (is_choice (rhead r)); [|exact Hc]. apply bn_bin. split; [exact Hc|]. apply bn_not, bn_not, Hnh. }
  destruct (head_pred (rhead r)).
  - destruct (Nat.ltb 0 (head_arity (rhead r))) eqn:Ea.
    + unfold tau_star_fo_head_rule. destruct (head_atom (rhead r)) as [a|] eqn:Eh; [|discriminate].
      destruct (Nat.ltb (List.length globals) (List.length (aterms a))) eqn:El; [discriminate|].
      intros [= <-]. apply bn_q. split.
      * apply sort_vars_ne. intros Hnil. apply app_eq_nil in Hnil. destruct Hnil as [_ Hnil].
        apply map_eq_nil in Hnil. apply (f_equal (@List.length string)) in Hnil. rewrite firstn_length in Hnil.
        apply Nat.ltb_lt in Ea. apply Nat.ltb_ge in El.
        assert (head_arity (rhead r) = List.length (aterms a))
          by (destruct (rhead r); cbn in Eh |- *; congruence).
        cbn in Hnil. lia.
      * apply Hbody; [reflexivity|]. apply bn_bin. split; [apply valtz_bn|apply tau_body_bn].
    + unfold tau_star_prop_head_rule. destruct (head_atom (rhead r)) as [a|]; [|discriminate].
      intros [= <-].
      assert (Himp : bn (FBin CImp (if is_choice (rhead r)
                        then FBin CAnd (tau_body (rbody r)) (FNot (FNot (FAtomic (AAtom (apred a) []))))
                        else tau_body (rbody r)) (FAtomic (AAtom (apred a) []))))
        by (apply Hbody; [reflexivity|apply tau_body_bn]).
      destruct (TauStar.sort_vars (map gvar (rule_vars r))); [exact Himp|apply bn_q_cons, Himp].
  - intros [= <-]. unfold tau_star_constraint_rule.
    assert (Himp : bn (FBin CImp (tau_body (rbody r)) ffalse))
      by (apply bn_bin; split; [apply tau_body_bn|reflexivity]).
    destruct (TauStar.sort_vars (map gvar (rule_vars r))); [exact Himp|apply bn_q_cons, Himp].
Qed.
Theorem tau_star_bn P G : tau_star P = Some G -> forall f, In f G -> bn f.
Proof.
  unfold tau_star. destruct (choose_fresh_global_variables P) as [globals|]; [|discriminate].
  intros E f Hf. destruct (map_opt_in _ _ _ E f Hf) as [r [_ Er]]. exact (tau_star_rule_bn r globals f Er).
Qed.
Theorem tau_star_psent P G : program_vars_named P -> tau_star P = Some G -> forall f, In f G -> psent f.
Proof.
  intros HP E f Hf. split; [exact (tau_star_pi P G HP E f Hf)|].
  apply closed_iff. split; [exact (tau_star_bn P G E f Hf)|exact (tau_star_closed P G E f Hf)].
Qed.

(* ============================================================================= completion *)
Lemma fv_fold_bin c v xs : forall x,
  In v (free_variables (fold_left (fun acc y => FBin c acc y) xs x)) ->
  In v (free_variables x) \/ exists y, In y xs /\ In v (free_variables y).
Proof.
  induction xs as [|y xs IH]; intros x Hv; cbn [fold_left] in Hv; auto.
  apply IH in Hv. destruct Hv as [Hv|[y' [Hy Hv]]].
  - apply in_fv_bin in Hv. destruct Hv as [Hv|Hv]; auto. right. exists y. split; [left; reflexivity|exact Hv].
  - right. exists y'. split; [right; exact Hy|exact Hv].
Qed.
Lemma fv_disjoin v l : In v (free_variables (disjoin l)) -> exists y, In y l /\ In v (free_variables y).
Proof.
  unfold disjoin, reduce_bin. destruct l as [|x xs]; [intros []|].
  intros Hv. apply fv_fold_bin in Hv. destruct Hv as [Hv|[y [Hy Hv]]].
  - exists x. split; [left; reflexivity|exact Hv].
  - exists y. split; [right; exact Hy|exact Hv].
Qed.

Lemma complete_definition_fv e : free_variables (complete_definition e) = [].
Proof.
  destruct (free_variables (complete_definition e)) as [|w ws] eqn:E; [reflexivity|exfalso].
  assert (Hw : In w (free_variables (complete_definition e))) by (rewrite E; left; reflexivity).
  unfold complete_definition in Hw. apply in_fv_quantify in Hw. destruct Hw as [Hw Hn].
  apply in_fv_bin in Hw. destruct Hw as [Hw|Hw]; [exact (Hn Hw)|].
  apply fv_disjoin in Hw. destruct Hw as [y [Hy Hw]]. apply in_map_iff in Hy. destruct Hy as [F [<- _]].
  apply in_fv_quantify in Hw. destruct Hw as [Hw Hd]. apply Hn.
  destruct (in_dec var_dec w (aformula_vars (hatom_formula (fst e)))) as [Hin|Hnin]; [exact Hin|].
  exfalso. apply Hd. unfold iset_difference. apply filter_In. split; [exact Hw|].
  destruct (memb_spec var_dec w (aformula_vars (hatom_formula (fst e)))); [contradiction|reflexivity].
Qed.
Lemma complete_definition_bn a fs : (forall F, In F fs -> bn F) -> bn (complete_definition (a, fs)).
Proof.
  intros H. unfold complete_definition. cbn [fst snd]. apply bn_quantify. apply bn_bin. split; [reflexivity|].
  apply bn_disjoin. intros x Hx. apply in_map_iff in Hx. destruct Hx as [F [<- HF]]. apply bn_quantify, H, HF.
Qed.
Lemma strip_bn f : bn f -> bn (strip f).
Proof.
  intros H. destruct f as [a|g|c l r|q vs g]; try exact H. destruct q; try exact H. cbn [strip].
  apply bn_q in H. tauto.
Qed.
Lemma implication_bn m body head : implication m body head -> bn m -> bn body.
Proof. intros [->| ->] H; apply bn_bin in H; tauto. Qed.

Theorem completion_closed G ins D : (forall f, In f G -> bn f) -> completion G ins = Some D ->
  forall d, In d D -> closed_formula d = true.
Proof.
  intros HG E. apply completion_structure in E. destruct E as [defs [cs [Hc [_ ->]]]].
  destruct (components_spec _ _ _ Hc) as [_ [Hcs [_ [Hne H5]]]].
  intros d Hd. apply closed_iff. apply in_app_iff in Hd. destruct Hd as [Hd|Hd].
  - apply in_map_iff in Hd. destruct Hd as [c [<- Hcin]]. rewrite Hcs in Hcin.
    apply in_flat_map in Hcin. destruct Hcin as [f [Hf Hcf]]. unfold split_constraints in Hcf.
    destruct (split f) as [[F a|c']|] eqn:Es; try (destruct Hcf; fail).
    destruct Hcf as [Ec|[]]. subst c'.
    apply split_constraint in Es. destruct Es as [-> _].
    split; [apply bn_quantify, strip_bn, HG, Hf|apply universal_closure_fv].
  - apply in_map_iff in Hd. destruct Hd as [[a fs] [<- He]]. apply filter_In in He. destruct He as [He _].
    split; [|apply complete_definition_fv].
    unfold all_definitions in He. apply in_app_iff in He. destruct He as [He|He].
    + apply complete_definition_bn. intros F HF.
      destruct (proj1 (H5 a F)) as [f [Hf Ef]]; [exists fs; auto|].
      apply split_definition in Ef. destruct Ef as [V [EV [_ [Himp _]]]].
      exact (implication_bn _ _ _ Himp (strip_bn f (HG f Hf))).
    + apply in_map_iff in He. destruct He as [p [[= <- <-] _]]. apply complete_definition_bn. intros F [].
Qed.
Lemma empty_definition_closed q : closed_formula (External.empty_definition q) = true.
Proof.
  apply closed_iff. split; [|apply complete_definition_fv].
  unfold External.empty_definition. apply complete_definition_bn. intros F [].
Qed.

(* completion of parser-image formulas with non-empty binders, and the empty completed definitions
   appended for missing output predicates: parser-image sentences *)
Theorem completion_psent G ins D :
  (forall f, In f G -> parser_image f /\ bn f) -> completion G ins = Some D -> forall d, In d D -> psent d.
Proof.
  intros HG E d Hd. split.
  - exact (completion_pi G ins D (fun f Hf => proj1 (HG f Hf)) E d Hd).
  - exact (completion_closed G ins D (fun f Hf => proj2 (HG f Hf)) E d Hd).
Qed.
Lemma empty_definition_psent q : psent (External.empty_definition q).
Proof. split; [apply empty_definition_pi|apply empty_definition_closed]. Qed.
